//! Directed scenario families: scripts that deterministically reach deep states (funded pools, positions of
//! several users in several LP denoms, running farms) and then interleave boundary-aimed operations, queries and
//! injected faults. Every random choice still derives from the case's PRNG.
use crate::chain::{case_of, new_gen};
use crate::gen::*;
use crate::out::Family;
use crate::rng::Rng;
use crate::sim::*;

fn genesis_for(r: &mut Rng, kind: &str) -> Genesis {
    let mut g = default_genesis(r);
    g.epoch_genesis = g.time / NANOS; // epoch 0 starts now
    g.epoch_duration = *r.pick(&[DAY, DAY, 2 * DAY]);
    match kind {
        "farm-scn" | "fault-scn" | "auth-scn" => {
            g.fm_max_farms = *r.pick(&[2u32, 3, 3, 5]);
            g.fm_epoch_buffer = *r.pick(&[2u32, 14]);
            g.fm_max_unlock = 31_556_926;
            g.fm_create_fee = match r.below(6) {
                0 => ("uom".to_string(), 0),
                1 => ("uusd".to_string(), 0),
                2 => ("uusd".to_string(), 1000),
                3 => ("uusdc".to_string(), 700),
                _ => ("uom".to_string(), 1000),
            };
            g.pm_fee = ("uusd".to_string(), 1000);
            g.tf_fee = vec![("uom".to_string(), 1000)];
        }
        "manyfarms-scn" => {
            g.fm_max_farms = *r.pick(&[11u32, 12, 13]);
            g.fm_epoch_buffer = 14;
            g.fm_create_fee = if r.chance(1, 2) { ("uom".to_string(), 1000) } else { ("uusd".to_string(), 0) };
            g.pm_fee = ("uusd".to_string(), 1000);
            g.tf_fee = vec![("uom".to_string(), 1000)];
        }
        _ => {
            // pool-scn
            g.pm_fee = match r.below(4) { 0 => ("uusd".to_string(), 0), 1 => ("uom".to_string(), 500), _ => ("uusd".to_string(), 1000) };
            g.tf_fee = match r.below(4) { 0 => vec![("uom".to_string(), 1000), ("uusd".to_string(), 500)], 1 => vec![("uusd".to_string(), 700)], _ => vec![("uom".to_string(), 1000)] };
        }
    }
    g
}

impl Gen {
    fn pm_cfg(&self) -> mantra_dex_std::pool_manager::Config {
        self.sim.app.wrap().query_wasm_smart(&self.sim.pm, &mantra_dex_std::pool_manager::QueryMsg::Config {}).unwrap()
    }
    fn fm_cfg(&self) -> mantra_dex_std::farm_manager::Config {
        self.sim.app.wrap().query_wasm_smart(&self.sim.fm, &mantra_dex_std::farm_manager::QueryMsg::Config {}).unwrap()
    }
    fn epoch_secs(&self) -> u64 {
        let c: mantra_dex_std::epoch_manager::ConfigResponse =
            self.sim.app.wrap().query_wasm_smart(&self.sim.em, &mantra_dex_std::epoch_manager::QueryMsg::Config {}).unwrap();
        c.epoch_config.duration.u64()
    }
    /// creates a pool with exact funds; returns its identifier when accepted
    fn mk_pool(&mut self, id: &str, denoms: &[(&str, u8)], amp: Option<u64>, fees: SFees) -> Option<String> {
        let funds = self.creation_funds(true);
        let sender = self.user();
        let ok = self.tx(
            &sender,
            SMsg::PmCreatePool {
                denoms: denoms.iter().map(|d| d.0.to_string()).collect(),
                decimals: denoms.iter().map(|d| d.1).collect(),
                fees,
                amp,
                id: Some(id.to_string()),
            },
            funds,
        );
        if ok { Some(format!("o.{}", id)) } else { None }
    }
    fn provide_plain(&mut self, sender: &str, pool: &str, funds: Vec<SCoin>) -> bool {
        self.tx(sender, SMsg::PmProvide { liq_slip: None, swap_slip: None, receiver: None, pool: pool.to_string(), unlock: None, lock_id: None }, funds)
    }
    fn lp_of(&self, pool: &str) -> String {
        format!("factory/PM/{}.LP", pool)
    }
    fn farm_funds(&self, reward: &SCoin) -> Vec<SCoin> {
        let cfg = self.fm_cfg();
        let fee = (self.sim.sym(&cfg.create_farm_fee.denom), cfg.create_farm_fee.amount.u128());
        let mut f = vec![];
        if fee.0 == reward.0 {
            f.push((reward.0.clone(), reward.1 + fee.1));
        } else {
            f.push(reward.clone());
            if fee.1 > 0 { f.push(fee); }
        }
        f.sort();
        f
    }
    /// a well-formed farm: starts next epoch, lasts `epochs`, `rate` per epoch
    fn mk_farm(&mut self, owner: &str, lp: &str, reward_denom: &str, rate: u128, epochs: u64, id: Option<String>, start_in: u64) -> bool {
        let cur = self.sim.current_epoch().unwrap_or(0);
        let start = cur + start_in;
        let asset = (reward_denom.to_string(), rate * epochs as u128);
        let funds = self.farm_funds(&asset);
        self.tx(owner, SMsg::FmCreateFarm(SFarmParams { lp: lp.to_string(), start: Some(start), end: Some(start + epochs), asset, id }), funds)
    }
    fn next_epoch(&mut self) {
        let d = self.epoch_secs();
        self.advance(d);
    }
    fn q_rewards(&mut self, who: &str, until: Option<u64>) {
        self.query(SQuery::Rewards { addr: who.to_string(), until });
    }

    // ------------------------------------------------------------------------------------------ farm scenario
    pub fn scenario_farm(&mut self, many_farms: bool) {
        let users: Vec<String> = self.users();
        let fees = SFees { protocol: DEC / 1000, swap: DEC / 500, burn: 0, extra: vec![] };
        let mut pools: Vec<String> = vec![];
        if let Some(p) = self.mk_pool("a", &[("uom", 6), ("uusd", 6)], None, fees.clone()) { pools.push(p); }
        if !many_farms && self.rng.chance(2, 3) {
            if let Some(p) = self.mk_pool("b", &[("uusdc", 6), ("uusd", 6)], None, fees.clone()) { pools.push(p); }
        }
        if pools.is_empty() { return; }
        // liquidity: first deposit by users[1], then the others proportionally (odd amounts so weights round)
        for p in pools.clone() {
            let pi = self.sim.pools().into_iter().find(|x| x.pool_info.pool_identifier == p).unwrap().pool_info;
            let d: Vec<String> = pi.assets.iter().map(|c| self.sim.sym(&c.denom)).collect();
            let base = 1_000_000u128 * (1 + self.rng.below(50) as u128) + self.rng.below(1000) as u128;
            let first = users[1].clone();
            self.provide_plain(&first, &p, vec![(d[0].clone(), base), (d[1].clone(), base * 2)]);
            for u in users.iter() {
                if *u == first { continue; }
                let k = 1 + self.rng.below(9) as u128;
                let a = base / 10 * k + self.rng.below(7) as u128;
                self.provide_plain(u, &p, vec![(d[0].clone(), a), (d[1].clone(), a * 2)]);
            }
        }
        let lps: Vec<String> = pools.iter().map(|p| self.lp_of(p)).collect();
        // positions: explicit identifiers chosen so that the sorted identifier order interleaves LP denoms
        let durs = [DAY, 7 * DAY, 30 * DAY, 5_000_000, 12_345_678, 274 * DAY, 31_556_926];
        let mut seq = 0u32;
        for u in users.iter() {
            let n = 1 + self.rng.below(3);
            for _ in 0..n {
                seq += 1;
                let lp = lps[(seq as usize) % lps.len()].clone();
                let bal = self.sim.balance(u, &lp);
                if bal < 10 { continue; }
                let amt = match self.rng.below(5) { 0 => 1, 1 => 999, 2 => bal / 3 | 1, _ => (bal / (4 + self.rng.below(6) as u128)).max(1) };
                let dur = *self.rng.pick(&durs);
                let id = if self.rng.chance(3, 4) { Some(format!("{}{:02}", &u[..1], seq)) } else { None };
                if self.rng.chance(1, 4) {
                    // lock through the pool manager instead (new liquidity, locked for the sender)
                    let pool = pools[(seq as usize) % lps.len()].clone();
                    let pi = self.sim.pools().into_iter().find(|x| x.pool_info.pool_identifier == pool).unwrap().pool_info;
                    let f: Vec<SCoin> = pi.assets.iter().map(|c| (self.sim.sym(&c.denom), (c.amount.u128() / 50).max(2))).collect();
                    self.tx(u, SMsg::PmProvide { liq_slip: None, swap_slip: None, receiver: None, pool, unlock: Some(dur), lock_id: id }, f);
                } else {
                    self.tx(u, SMsg::FmPosCreate { id, dur, receiver: None }, vec![(lp, amt)]);
                }
            }
        }
        // farms
        let cfg = self.fm_cfg();
        let fee_denom = self.sim.sym(&cfg.create_farm_fee.denom);
        let nf = if many_farms { cfg.max_concurrent_farms as u64 + self.rng.below(2) } else { 1 + self.rng.below(cfg.max_concurrent_farms.min(3) as u64) };
        for lp in lps.clone() {
            let mut owner = self.user();
            for i in 0..nf {
                if !self.rng.chance(1, 2) { owner = self.user(); } // repeated owners are likely
                let rd = match self.rng.below(6) { 0 => fee_denom.clone(), 1 => lps[0].clone(), 2 => "uusd".to_string(), 3 => "aweth".to_string(), _ => "uom".to_string() };
                let rd = if rd.starts_with("factory/") && self.sim.balance(&owner, &rd) < 100_000 { "uom".to_string() } else { rd };
                let rate = *self.rng.pick(&[1000u128, 1500, 3333, 10_000, 77_777]);
                let epochs = 2 + self.rng.below(9);
                let id = if self.rng.chance(1, 2) { Some(format!("f{}{}", i, &lp[lp.len() - 4..lp.len() - 3])) } else { None };
                let start_in = 1 + self.rng.below(2);
                self.mk_farm(&owner, &lp, &rd, rate, epochs, id, start_in);
                if many_farms && self.rng.chance(1, 6) { break; }
            }
            if many_farms { break; }
        }
        // epochs
        let n_epochs = if many_farms { 3 + self.rng.below(4) } else { 5 + self.rng.below(10) };
        for _ in 0..n_epochs {
            self.next_epoch();
            if self.rng.chance(1, 8) { self.next_epoch(); }
            let acts = 1 + self.rng.below(4);
            for _ in 0..acts {
                self.farm_action(&pools, &lps, many_farms);
            }
        }
        // epilogue: everybody asks and claims
        for u in users.iter() {
            self.q_rewards(u, None);
            self.tx(u, SMsg::FmClaim(None), vec![]);
        }
    }

    fn farm_action(&mut self, pools: &[String], lps: &[String], many_farms: bool) {
        let positions = self.sim.positions();
        let farms = self.sim.farms();
        let cur = self.sim.current_epoch().unwrap_or(0);
        let k = if many_farms { [0u64, 0, 0, 1, 12, 13][self.rng.below(6) as usize] } else { self.rng.below(22) };
        match k {
            0 | 1 | 2 => {
                // query then claim (full, or split with until_epoch)
                let u = self.user();
                let lc = self.sim.last_claimed(&u);
                let until = match self.rng.below(6) {
                    0 => Some(cur.saturating_sub(1)),
                    1 => Some(lc.unwrap_or(0) + cur.saturating_sub(lc.unwrap_or(0)) / 2),
                    2 => Some(cur),
                    3 => lc,
                    _ => None,
                };
                self.q_rewards(&u, until);
                self.tx(&u, SMsg::FmClaim(until), vec![]);
                if self.rng.chance(1, 3) { self.q_rewards(&u, None); self.tx(&u, SMsg::FmClaim(None), vec![]); }
            }
            3 | 4 => {
                // expand an open position: by the owner, or through the pool manager (lock into existing position)
                // one time in eight the target is a position that is already closed (must be refused, whatever the amount)
                let want_open = !self.rng.chance(1, 8);
                let mut open: Vec<_> = positions.iter().filter(|p| p.open == want_open).collect();
                if open.is_empty() { open = positions.iter().filter(|p| p.open).collect(); }
                if open.is_empty() { return; }
                let p = (*self.rng.pick(&open)).clone();
                let owner = self.sim.sym(p.receiver.as_str());
                let lp = self.sim.sym(&p.lp_asset.denom);
                let via_pm = self.rng.chance(1, 2);
                let sender = if self.rng.chance(5, 6) { owner } else { self.user() };
                if via_pm {
                    if let Some(ix) = lps.iter().position(|l| *l == lp) {
                        let pool = pools[ix].clone();
                        let pi = self.sim.pools().into_iter().find(|x| x.pool_info.pool_identifier == pool).unwrap().pool_info;
                        let single = self.rng.chance(1, 3);
                        let mut f: Vec<SCoin> = pi.assets.iter().map(|c| (self.sim.sym(&c.denom), (c.amount.u128() / 200).max(3) | 1)).collect();
                        if single { f.truncate(1); }
                        self.tx(&sender, SMsg::PmProvide { liq_slip: None, swap_slip: Some(DEC / 2), receiver: None, pool, unlock: Some(p.unlocking_duration), lock_id: Some(p.identifier.clone()) }, f);
                    }
                } else {
                    let bal = self.sim.balance(&sender, &lp);
                    let amt = if bal == 0 { 1 } else { match self.rng.below(3) { 0 => 1, 1 => (bal / 7).max(1), _ => 3 } };
                    self.tx(&sender, SMsg::FmPosExpand(p.identifier.clone()), vec![(lp, amt)]);
                }
            }
            5 => {
                // new position
                let u = self.user();
                let lp = self.rng.pick(lps).clone();
                let bal = self.sim.balance(&u, &lp);
                if bal == 0 { return; }
                let dur = *self.rng.pick(&[DAY, 30 * DAY, 274 * DAY, 31_556_926, 5_000_000]);
                let id = if self.rng.chance(1, 2) { Some(self.fresh_id("n")) } else { None };
                self.tx(&u, SMsg::FmPosCreate { id, dur, receiver: None }, vec![(lp, (bal / 5).max(1))]);
            }
            6 | 7 | 8 => {
                // claim then close (full or partial)
                // one time in eight the target is a position that is already closed (must be refused, whatever the amount)
                let want_open = !self.rng.chance(1, 8);
                let mut open: Vec<_> = positions.iter().filter(|p| p.open == want_open).collect();
                if open.is_empty() { open = positions.iter().filter(|p| p.open).collect(); }
                if open.is_empty() { return; }
                let p = (*self.rng.pick(&open)).clone();
                let owner = self.sim.sym(p.receiver.as_str());
                let lp = self.sim.sym(&p.lp_asset.denom);
                if self.rng.chance(9, 10) { self.tx(&owner, SMsg::FmClaim(None), vec![]); }
                let a = p.lp_asset.amount.u128();
                let part = match self.rng.below(6) { 0 => Some(1), 1 => Some(a / 2), 2 => Some(a), 3 => Some(a.saturating_sub(1)), _ => None };
                let sender = if self.rng.chance(9, 10) { owner } else { self.user() };
                self.tx(&sender, SMsg::FmPosClose(p.identifier.clone(), part.map(|x| (lp.clone(), x))), vec![]);
            }
            9 | 10 | 11 => {
                // emergency exits: open or closed positions, explicit Some(false), other senders, the pool manager
                if positions.is_empty() { return; }
                let p = self.rng.pick(&positions).clone();
                let owner = self.sim.sym(p.receiver.as_str());
                let sender = match self.rng.below(12) { 0 => self.user(), 1 => "PM".to_string(), _ => owner };
                if p.expiring_at.is_some() && self.rng.chance(1, 3) {
                    // some time into the unlocking period
                    let left = p.expiring_at.unwrap().saturating_sub(self.sim.block().time.seconds());
                    if left > 2 { let dv = 2 + self.rng.below(3); self.advance(left / dv); }
                }
                let e = match self.rng.below(6) { 0 => Some(false), 1 => None, _ => Some(true) };
                self.tx(&sender, SMsg::FmPosWithdraw(p.identifier.clone(), e), vec![]);
            }
            12 => {
                // withdraw a closed position at the boundary
                let closed: Vec<_> = positions.iter().filter(|p| !p.open).collect();
                if closed.is_empty() { return; }
                let p = (*self.rng.pick(&closed)).clone();
                let owner = self.sim.sym(p.receiver.as_str());
                if let Some(exp) = p.expiring_at {
                    let b = self.sim.block();
                    let target = match self.rng.below(3) { 0 => exp.saturating_sub(1), 1 => exp, _ => exp + 1 };
                    if target > b.time.seconds() && target - b.time.seconds() < 400 * DAY {
                        self.push(SOp::SetBlock { height: b.height + 1, time: target * NANOS });
                    }
                }
                let e = match self.rng.below(4) { 0 => Some(false), 1 => Some(true), _ => None };
                self.tx(&owner, SMsg::FmPosWithdraw(p.identifier.clone(), e), vec![]);
            }
            13 | 14 => {
                // expand a farm: exact multiples, mismatching declared amount, wrong sender
                if farms.is_empty() { return; }
                let f = self.rng.pick(&farms).clone();
                let owner = self.sim.sym(f.owner.as_str());
                let sender = if self.rng.chance(5, 6) { owner } else { self.user() };
                let rate = f.emission_rate.u128().max(1);
                let attached = rate * (1 + self.rng.below(4) as u128);
                let declared = match self.rng.below(6) { 0 => attached * 3, 1 => attached + rate, 2 => rate, _ => attached };
                let rd = self.sim.sym(&f.farm_asset.denom);
                let p = SFarmParams { lp: self.sim.sym(&f.lp_denom), start: None, end: None, asset: (rd.clone(), declared), id: Some(f.identifier.clone()) };
                self.tx(&sender, SMsg::FmExpandFarm(p), vec![(rd, attached)]);
            }
            15 => {
                // close a farm: owner, contract owner, stranger
                if farms.is_empty() { return; }
                let f = self.rng.pick(&farms).clone();
                let owner = self.sim.sym(f.owner.as_str());
                let sender = match self.rng.below(4) { 0 => self.user(), 1 => self.current_owner("FM"), _ => owner };
                self.tx(&sender, SMsg::FmCloseFarm(f.identifier.clone()), vec![]);
            }
            16 | 17 => {
                // another farm (exercises the limit and the sweep of expired farms)
                let lp = self.rng.pick(lps).clone();
                let owner = self.user();
                let rd = if self.rng.chance(1, 3) { self.sim.sym(&self.fm_cfg().create_farm_fee.denom) } else { "uom".to_string() };
                let id = if self.rng.chance(1, 2) { Some(self.fresh_id("g")) } else { None };
                let epochs = 1 + self.rng.below(5);
                if self.rng.chance(1, 3) {
                    // under-funded variants: only the fee, only the reward, one unit short (all must be refused)
                    let cfg = self.fm_cfg();
                    let fee = (self.sim.sym(&cfg.create_farm_fee.denom), cfg.create_farm_fee.amount.u128());
                    let cur = self.sim.current_epoch().unwrap_or(0);
                    let asset = (rd.clone(), 2000 * epochs as u128);
                    let funds = match self.rng.below(4) {
                        0 => vec![(fee.0.clone(), fee.1.max(1))],
                        1 => vec![asset.clone()],
                        2 => vec![(rd.clone(), asset.1 + fee.1 - 1)],
                        _ => vec![(rd.clone(), fee.1 + 1)],
                    };
                    self.tx(&owner, SMsg::FmCreateFarm(SFarmParams { lp, start: Some(cur + 1), end: Some(cur + 1 + epochs), asset, id }), funds);
                } else {
                    self.mk_farm(&owner, &lp, &rd, 2000, epochs, id, 1);
                }
            }
            18 => {
                // let farms expire: jump far ahead, then someone tries to close / a new farm sweeps them
                let d = self.epoch_secs();
                let k = 20 + self.rng.below(30); self.advance(d * k);
                if !farms.is_empty() {
                    let f = self.rng.pick(&farms).clone();
                    let u = self.user();
                    self.tx(&u, SMsg::FmCloseFarm(f.identifier.clone()), vec![]);
                }
            }
            19 => {
                // the pool manager (as a sender) and strangers try to manage somebody's position
                // one time in eight the target is a position that is already closed (must be refused, whatever the amount)
                let want_open = !self.rng.chance(1, 8);
                let mut open: Vec<_> = positions.iter().filter(|p| p.open == want_open).collect();
                if open.is_empty() { open = positions.iter().filter(|p| p.open).collect(); }
                if open.is_empty() { return; }
                let p = (*self.rng.pick(&open)).clone();
                let s = if self.rng.chance(2, 3) { "PM".to_string() } else { self.user() };
                self.tx(&s, SMsg::FmPosClose(p.identifier.clone(), None), vec![]);
            }
            20 => {
                let owner = self.current_owner("FM");
                let mut u = SFmUpdate::default();
                match self.rng.below(4) {
                    0 => u.penalty = Some(*self.rng.pick(&[0u128, DEC / 10, DEC / 2, DEC])),
                    1 => u.max_farms = Some(self.fm_cfg().max_concurrent_farms + 1),
                    2 => u.create_fee = Some((self.rng.pick(&["uom", "uusd"]).to_string(), *self.rng.pick(&[0u128, 1000]))),
                    _ => u.epoch_buffer = Some(14),
                }
                self.tx(&owner, SMsg::FmUpdateConfig(u), vec![]);
            }
            _ => {
                let u = self.user();
                self.q_rewards(&u, None);
            }
        }
    }

    // ------------------------------------------------------------------------------------------ pool scenario
    pub fn scenario_pool(&mut self) {
        let two_extra = SFees { protocol: DEC / 1000, swap: DEC / 1000, burn: DEC / 2000, extra: vec![DEC / 200, DEC / 200, DEC / 400] };
        let big_extra = SFees { protocol: DEC / 1000, swap: DEC / 1000, burn: 0, extra: vec![DEC / 100] };
        let zero = SFees { protocol: 0, swap: 0, burn: 0, extra: vec![] };
        let std = SFees { protocol: DEC / 1000, swap: 3 * DEC / 1000, burn: 0, extra: vec![] };
        let mut pools: Vec<String> = vec![];
        let kind = self.rng.below(6);
        // constant-product pools (one with several extra fees, one with huge reserves)
        let f1 = match self.rng.below(4) { 0 => two_extra.clone(), 1 => big_extra.clone(), 2 => zero.clone(), _ => std.clone() };
        if let Some(p) = self.mk_pool("cp1", &[("uom", 6), ("uusd", 6)], None, f1) { pools.push(p); }
        if kind < 3 {
            if let Some(p) = self.mk_pool("cp2", &[("aweth", 18), ("uusd", 6)], None, std.clone()) { pools.push(p); }
        }
        // stableswap pools: creation order deliberately not alphabetical, mixed decimals
        let amp = *self.rng.pick(&[1u64, 10, 85, 100, 1000]);
        let ss_denoms: Vec<(&str, u8)> = match self.rng.below(4) {
            0 => vec![("uusdc", 6), ("uusd", 6)],
            1 => vec![("uusdc", 6), ("aweth", 18)],
            2 => vec![("uusdc", 6), ("uusd", 6), ("uom", 6)],
            _ => vec![("uusd", 6), ("ubtc", 8), ("aweth", 18)],
        };
        let fss = if self.rng.chance(1, 2) { zero.clone() } else { std.clone() };
        if let Some(p) = self.mk_pool("ss1", &ss_denoms, Some(amp), fss) { pools.push(p); }
        // malformed creations that must be refused: non-adjacent duplicate, stray funds with a waived fee
        if self.rng.chance(1, 2) {
            let funds = self.creation_funds(true);
            let s = self.user();
            self.tx(&s, SMsg::PmCreatePool { denoms: vec!["uusd".into(), "uom".into(), "uusd".into()], decimals: vec![6, 6, 6], fees: std.clone(), amp: Some(85), id: Some("dup".into()) }, funds);
        }
        if self.rng.chance(1, 2) {
            let owner = self.current_owner("PM");
            let fd = self.rng.pick(&["uusd", "uusdc"]).to_string();
            self.tx(&owner, SMsg::PmUpdateConfig { fc: None, fm: None, fee: Some((fd.clone(), 0)), toggle: None }, vec![]);
            let mut funds = self.creation_funds(true);
            funds.retain(|c| c.0 != fd);
            funds.push((fd, 500));
            funds.sort();
            let s = self.user();
            self.tx(&s, SMsg::PmCreatePool { denoms: vec!["uom".into(), "ubtc".into()], decimals: vec![6, 8], fees: std.clone(), amp: None, id: Some("stray".into()) }, funds);
        }
        if pools.is_empty() { return; }
        // first deposits
        let users = self.users();
        for p in pools.clone() {
            let pi = self.sim.pools().into_iter().find(|x| x.pool_info.pool_identifier == p).unwrap().pool_info;
            let huge = p == "o.cp2";
            let tokens = if huge { 1_000_000_000u128 } else { 10 + self.rng.below(100_000) as u128 };
            let mut f: Vec<SCoin> = vec![];
            for (i, c) in pi.assets.iter().enumerate() {
                let d = pi.asset_decimals[pi.asset_denoms.iter().position(|x| *x == c.denom).unwrap()] as u32;
                let skew = if i == 0 { 1 } else { 1 + self.rng.below(2) as u128 };
                f.push((self.sim.sym(&c.denom), tokens * skew * 10u128.pow(d) + self.rng.below(5) as u128));
            }
            let u = users[1].clone();
            self.provide_plain(&u, &p, f);
        }
        let n = 10 + self.rng.below(16);
        for _ in 0..n {
            self.pool_action(&pools);
        }
        // epilogue: LP holders withdraw (drains pools so that accounting slips surface)
        for p in pools.clone() {
            let lp = self.lp_of(&p);
            for u in users.iter() {
                let bal = self.sim.balance(u, &lp);
                if bal > 0 && self.rng.chance(2, 3) {
                    self.tx(u, SMsg::PmWithdraw { pool: p.clone() }, vec![(lp.clone(), bal)]);
                }
            }
        }
    }

    fn pool_info(&self, pool: &str) -> mantra_dex_std::pool_manager::PoolInfo {
        self.sim.pools().into_iter().find(|x| x.pool_info.pool_identifier == pool).unwrap().pool_info
    }

    fn pool_action(&mut self, pools: &[String]) {
        let pool = self.rng.pick(pools).clone();
        let pi = self.pool_info(&pool);
        let n = pi.assets.len();
        let u = self.user();
        let k = self.rng.below(20);
        match k {
            0 | 1 | 2 | 3 => {
                // quote, then execute exactly what was quoted
                let i = self.rng.below(n as u64) as usize;
                let j = (i + 1 + self.rng.below(n as u64 - 1) as usize) % n;
                let res = pi.assets[i].amount.u128();
                let amt = match self.rng.below(8) { 0 => 1, 1 => 2 + self.rng.below(2000) as u128, 2 => res * 2, 3 => res / 3, 4 => res * 20, _ => (res / 10_000).max(1) * (1 + self.rng.below(800) as u128) };
                let offer = (self.sim.sym(&pi.assets[i].denom), amt);
                let ask = self.sim.sym(&pi.assets[j].denom);
                let v = self.query(SQuery::Simulation { offer: offer.clone(), ask: ask.clone(), pool: pool.clone() });
                let (mut max_slip, mut belief) = (Some(DEC / 2), None);
                if let crate::val::Val::L(xs) = &v {
                    if xs.len() == 2 {
                        if let crate::val::Val::L(f) = &xs[1] {
                            let g = |i: usize| -> u128 { if let crate::val::Val::Z(s) = &f[i] { s.parse().unwrap_or(0) } else { 0 } };
                            let (ret, sl) = (g(0), g(1));
                            match self.rng.below(6) {
                                0 if ret + sl > 0 => { let e = sl.saturating_mul(DEC) / (ret + sl); max_slip = Some(*self.rng.pick(&[e, e.saturating_sub(1), e + 1])); }
                                1 => { max_slip = Some(*self.rng.pick(&[DEC * 7 / 10, DEC, DEC * 51 / 100, 5 * DEC])); }
                                2 if ret > 0 => { let bp = amt.saturating_mul(DEC) / ret; belief = Some(*self.rng.pick(&[bp, bp * 99 / 100, bp * 101 / 100])); max_slip = self.opt_slip(); }
                                3 => { max_slip = None; }
                                _ => {}
                            }
                        }
                    }
                }
                let receiver = self.opt_receiver();
                self.tx(&u, SMsg::PmSwap { ask, belief, max_slip, receiver, pool: pool.clone() }, vec![offer]);
            }
            4 | 5 => {
                // reverse quote, then offer the quote and the quote + 1
                let i = self.rng.below(n as u64) as usize;
                let j = (i + 1 + self.rng.below(n as u64 - 1) as usize) % n;
                let ares = pi.assets[j].amount.u128();
                let ask_amt = match self.rng.below(6) { 0 => 1, 1 => ares / 2, 2 => ares / 50, 3 => (10u128.pow(6 + self.rng.below(13) as u32) * (1 + self.rng.below(9) as u128)).min(ares / 3).max(1), _ => (ares / 100_000).max(1) * (1 + self.rng.below(3000) as u128) };
                let ask = (self.sim.sym(&pi.assets[j].denom), ask_amt);
                let od = self.sim.sym(&pi.assets[i].denom);
                let v = self.query(SQuery::ReverseSimulation { ask: ask.clone(), offer_denom: od.clone(), pool: pool.clone() });
                if let crate::val::Val::L(xs) = &v {
                    if xs.len() == 2 {
                        if let crate::val::Val::L(f) = &xs[1] {
                            if let crate::val::Val::Z(s) = &f[0] {
                                let q: u128 = s.parse().unwrap_or(0);
                                let off = q + self.rng.below(2) as u128;
                                self.query(SQuery::Simulation { offer: (od.clone(), off), ask: ask.0.clone(), pool: pool.clone() });
                                if off == q { self.query(SQuery::Simulation { offer: (od.clone(), q + 1), ask: ask.0.clone(), pool: pool.clone() }); }
                                if self.rng.chance(1, 2) {
                                    self.tx(&u, SMsg::PmSwap { ask: ask.0.clone(), belief: None, max_slip: Some(DEC / 2), receiver: None, pool: pool.clone() }, vec![(od, off)]);
                                }
                            }
                        }
                    }
                }
            }
            6 | 7 | 8 => {
                // routes: quote then execute; same pool twice, in == out, malformed junctions
                let mut ops: Vec<SSwapOp> = vec![];
                let hops = 1 + self.rng.below(3) as usize;
                let mut curp = pool.clone();
                let mut cur = self.sim.sym(&pi.assets[self.rng.below(n as u64) as usize].denom);
                let start = cur.clone();
                for _ in 0..hops {
                    let ci = self.pool_info(&curp);
                    let outs: Vec<String> = ci.assets.iter().map(|c| self.sim.sym(&c.denom)).filter(|d| *d != cur || self.rng.chance(1, 12)).collect();
                    if !ci.assets.iter().any(|c| self.sim.sym(&c.denom) == cur) || outs.is_empty() { break; }
                    let out = self.rng.pick(&outs).clone();
                    ops.push(SSwapOp { t_in: cur.clone(), t_out: out.clone(), pool: curp.clone() });
                    cur = out;
                    // next pool: any pool holding the current denom (may be the same pool again)
                    let cands: Vec<String> = pools.iter().filter(|q| self.pool_info(q).assets.iter().any(|c| self.sim.sym(&c.denom) == cur)).cloned().collect();
                    if cands.is_empty() { break; }
                    curp = self.rng.pick(&cands).clone();
                }
                if ops.len() >= 2 && self.rng.chance(1, 5) { let i = 1 + self.rng.below(ops.len() as u64 - 1) as usize; ops[i].t_in = self.rng.pick(&["uom", "uusd", "uusdc"]).to_string(); }
                if ops.is_empty() { return; }
                let sres = self.pool_info(&ops[0].pool).assets.iter().find(|c| self.sim.sym(&c.denom) == start).map(|c| c.amount.u128()).unwrap_or(1000);
                let amt = (sres / 50_000).max(1) * (1 + self.rng.below(2000) as u128);
                let v = self.query(SQuery::SimOps { amount: amt, ops: ops.clone() });
                let mut min_receive = None;
                if let crate::val::Val::L(xs) = &v {
                    if xs.len() == 2 {
                        if let crate::val::Val::Z(s) = &xs[1] {
                            let q: u128 = s.parse().unwrap_or(0);
                            min_receive = match self.rng.below(4) { 0 => Some(q), 1 => Some(q + 1), _ => None };
                            if self.rng.chance(1, 3) { self.query(SQuery::RevSimOps { amount: q.max(1), ops: ops.clone() }); }
                        }
                    }
                }
                let receiver = self.opt_receiver();
                self.tx(&u, SMsg::PmRoute { ops, min_receive, receiver, max_slip: Some(DEC / 2) }, vec![(start, amt)]);
            }
            9 | 10 | 11 | 12 => {
                // deposits: proportional / skewed / huge skewed with tolerance / dust with tolerance 1.0 / single-asset odd
                let shape = self.rng.below(8);
                let mut f: Vec<SCoin> = vec![];
                let frac = 1 + self.rng.below(3000) as u128;
                for (i, c) in pi.assets.iter().enumerate() {
                    let r = c.amount.u128();
                    let a = match shape {
                        0 | 1 => (r / 10_000) * frac,
                        2 => (r / 10_000) * (1 + self.rng.below(3000) as u128),
                        3 => if i == 0 { r * 10 } else { r * 5 },
                        4 => 1 + self.rng.below(3) as u128,
                        5 => if i == 0 { r * (2 + self.rng.below(4) as u128) } else { r / 3 },
                        _ => (r / 10_000) * frac,
                    };
                    f.push((self.sim.sym(&c.denom), a.max(1)));
                }
                if shape >= 6 { let i = self.rng.below(n as u64) as usize; let mut c = f[i].clone(); c.1 |= 1; if self.rng.chance(1, 3) { c.1 += 1; } f = vec![c]; }
                let liq_slip = match shape { 3 | 5 => Some(*self.rng.pick(&[DEC / 10, DEC / 100, DEC / 2])), 4 => Some(DEC), _ => if self.rng.chance(1, 3) { self.opt_slip() } else { None } };
                let swap_slip = if self.rng.chance(1, 2) { Some(DEC / 2) } else { self.opt_slip() };
                self.tx(&u, SMsg::PmProvide { liq_slip, swap_slip, receiver: None, pool: pool.clone(), unlock: None, lock_id: None }, f);
            }
            13 | 14 => {
                // withdrawals: dust / half / all
                let lp = self.lp_of(&pool);
                let holders: Vec<String> = self.users().into_iter().filter(|x| self.sim.balance(x, &lp) > 0).collect();
                if holders.is_empty() { return; }
                let h = self.rng.pick(&holders).clone();
                let bal = self.sim.balance(&h, &lp);
                let amt = match self.rng.below(6) { 0 => 1, 1 => 15.min(bal), 2 => bal, 3 => bal / 2, _ => (bal / 1000).max(1) * (1 + self.rng.below(900) as u128) };
                self.tx(&h, SMsg::PmWithdraw { pool: pool.clone() }, vec![(lp, amt.max(1))]);
            }
            15 => {
                // make a pool very imbalanced (for dust withdrawals and skewed stableswap quotes)
                let i = self.rng.below(n as u64) as usize;
                let j = (i + 1) % n;
                let res = pi.assets[i].amount.u128();
                let amt = res * (5 + self.rng.below(200) as u128);
                self.tx(&u, SMsg::PmSwap { ask: self.sim.sym(&pi.assets[j].denom), belief: None, max_slip: Some(DEC / 2), receiver: None, pool: pool.clone() }, vec![(self.sim.sym(&pi.assets[i].denom), amt)]);
                // ... then trade back small amounts of the now scarce asset
                let amt2 = (self.pool_info(&pool).assets[j].amount.u128() / 30).max(1);
                self.query(SQuery::Simulation { offer: (self.sim.sym(&pi.assets[j].denom), amt2), ask: self.sim.sym(&pi.assets[i].denom), pool: pool.clone() });
                self.tx(&u, SMsg::PmSwap { ask: self.sim.sym(&pi.assets[i].denom), belief: None, max_slip: Some(DEC / 2), receiver: None, pool: pool.clone() }, vec![(self.sim.sym(&pi.assets[j].denom), amt2)]);
            }
            16 | 17 => {
                // feature switches: several flags in one message, then every path
                let owner = self.current_owner("PM");
                let mut ob = |r: &mut Rng| match r.below(3) { 0 => Some(true), 1 => Some(false), _ => None };
                let t = (pool.clone(), ob(&mut self.rng), ob(&mut self.rng), ob(&mut self.rng));
                self.tx(&owner, SMsg::PmUpdateConfig { fc: None, fm: None, fee: None, toggle: Some(t) }, vec![]);
                let i = self.rng.below(n as u64) as usize;
                let j = (i + 1) % n;
                let a = (self.sim.sym(&pi.assets[i].denom), (pi.assets[i].amount.u128() / 1000).max(2));
                let b = self.sim.sym(&pi.assets[j].denom);
                self.tx(&u, SMsg::PmSwap { ask: b.clone(), belief: None, max_slip: Some(DEC / 2), receiver: None, pool: pool.clone() }, vec![a.clone()]);
                self.tx(&u, SMsg::PmRoute { ops: vec![SSwapOp { t_in: a.0.clone(), t_out: b.clone(), pool: pool.clone() }], min_receive: None, receiver: None, max_slip: Some(DEC / 2) }, vec![a.clone()]);
                if n == 2 { self.tx(&u, SMsg::PmProvide { liq_slip: None, swap_slip: Some(DEC / 2), receiver: None, pool: pool.clone(), unlock: None, lock_id: None }, vec![a.clone()]); }
                if self.rng.chance(1, 2) {
                    self.tx(&owner, SMsg::PmUpdateConfig { fc: None, fm: None, fee: None, toggle: Some((pool.clone(), Some(true), Some(true), Some(true))) }, vec![]);
                }
            }
            18 => {
                // lock through the pool manager into somebody else's position (must be refused), single and multi asset
                let positions = self.sim.positions();
                if positions.is_empty() {
                    let f: Vec<SCoin> = pi.assets.iter().map(|c| (self.sim.sym(&c.denom), (c.amount.u128() / 100).max(2))).collect();
                    let id = self.fresh_id("lk");
                    self.tx(&u, SMsg::PmProvide { liq_slip: None, swap_slip: None, receiver: None, pool: pool.clone(), unlock: Some(30 * DAY), lock_id: Some(id) }, f);
                    return;
                }
                let p = self.rng.pick(&positions).clone();
                let mut f: Vec<SCoin> = pi.assets.iter().map(|c| (self.sim.sym(&c.denom), (c.amount.u128() / 100).max(2))).collect();
                if self.rng.chance(1, 2) && n == 2 { f.truncate(1); }
                self.tx(&u, SMsg::PmProvide { liq_slip: None, swap_slip: Some(DEC / 2), receiver: None, pool: pool.clone(), unlock: Some(p.unlocking_duration), lock_id: Some(p.identifier.clone()) }, f);
            }
            _ => {
                self.op_donate();
            }
        }
    }

    // ------------------------------------------------------------------------------------------ fault scenario
    /// a short set-up, then operations each preceded by a fault at a chosen internal call
    pub fn scenario_fault(&mut self) {
        let users = self.users();
        let std = SFees { protocol: DEC / 1000, swap: 3 * DEC / 1000, burn: DEC / 1000, extra: vec![] };
        let Some(pool) = self.mk_pool("a", &[("uom", 6), ("uusd", 6)], None, std.clone()) else { return; };
        let lp = self.lp_of(&pool);
        for u in users.iter() {
            let a = 1_000_000 + self.rng.below(1_000_000) as u128;
            self.provide_plain(u, &pool, vec![("uom".to_string(), a), ("uusd".to_string(), a)]);
        }
        for u in users.iter().skip(1) {
            let bal = self.sim.balance(u, &lp);
            let dur = *self.rng.pick(&[DAY, 30 * DAY]); self.tx(u, SMsg::FmPosCreate { id: None, dur, receiver: None }, vec![(lp.clone(), bal / 3)]);
        }
        let o1 = users[1].clone();
        let o2 = users[2].clone();
        self.mk_farm(&o1, &lp, "uom", 1000, 2, Some("x1".into()), 1);
        self.mk_farm(&o2, &lp, "uusd", 2000, 3, Some("x2".into()), 1);
        self.next_epoch();
        self.next_epoch();
        let jump = self.rng.chance(1, 2);
        if jump {
            // far ahead: both farms expired -> the next farm creation sweeps them
            let d = self.epoch_secs();
            self.advance(d * 45);
        }
        let n = 8 + self.rng.below(10);
        for _ in 0..n {
            let k = self.rng.below(7);
            let u = self.rng.pick(&users[1..]).clone();
            let fault = if self.rng.chance(1, 3) { 0 } else { self.rng.below(6) };
            let with_fault = self.rng.chance(4, 5);
            if with_fault { self.push(SOp::SetFault(fault)); }
            match self.rng.below(12) {
                0 => { self.tx(&u, SMsg::FmClaim(None), vec![]); }
                1 => { let id = self.rng.pick(&["m-x1", "m-x2"]).to_string(); let s = if id == "m-x1" { o1.clone() } else { o2.clone() }; self.tx(&s, SMsg::FmCloseFarm(id), vec![]); }
                2 => { let id = self.fresh_id("y"); self.mk_farm(&u, &lp, "uom", 1000, 2, Some(id), 1); }
                3 => { self.tx(&u, SMsg::PmSwap { ask: "uusd".into(), belief: None, max_slip: Some(DEC / 2), receiver: None, pool: pool.clone() }, vec![("uom".into(), 5000 + k as u128)]); }
                4 => { self.tx(&u, SMsg::PmProvide { liq_slip: None, swap_slip: Some(DEC / 2), receiver: None, pool: pool.clone(), unlock: None, lock_id: None }, vec![("uom".into(), 20_001)]); }
                5 => { self.tx(&u, SMsg::PmProvide { liq_slip: None, swap_slip: None, receiver: None, pool: pool.clone(), unlock: Some(DAY), lock_id: None }, vec![("uom".into(), 30_000), ("uusd".into(), 30_000)]); }
                6 => { let bal = self.sim.balance(&u, &lp); self.tx(&u, SMsg::PmWithdraw { pool: pool.clone() }, vec![(lp.clone(), (bal / 4).max(1))]); }
                7 => { let ps = self.sim.positions(); if let Some(p) = ps.iter().find(|p| self.sim.sym(p.receiver.as_str()) == u) { self.tx(&u, SMsg::FmPosWithdraw(p.identifier.clone(), Some(true)), vec![]); } }
                8 => { let funds = self.creation_funds(true); let id = self.fresh_id("p"); self.tx(&u, SMsg::PmCreatePool { denoms: vec!["uusdc".into(), "uom".into()], decimals: vec![6, 6], fees: std.clone(), amp: None, id: Some(id) }, funds); }
                9 => { self.tx(&u, SMsg::PmRoute { ops: vec![SSwapOp { t_in: "uusd".into(), t_out: "uom".into(), pool: pool.clone() }], min_receive: None, receiver: None, max_slip: Some(DEC / 2) }, vec![("uusd".into(), 7000)]); }
                10 => { self.tx(&u, SMsg::PmProvide { liq_slip: None, swap_slip: Some(DEC / 2), receiver: None, pool: pool.clone(), unlock: Some(DAY), lock_id: None }, vec![("uusd".into(), 15_001)]); }
                _ => { let ps = self.sim.positions(); if let Some(p) = ps.iter().find(|p| p.open && self.sim.sym(p.receiver.as_str()) == u) { self.tx(&u, SMsg::FmClaim(None), vec![]); self.push(SOp::SetFault(fault)); self.tx(&u, SMsg::FmPosClose(p.identifier.clone(), None), vec![]); } }
            }
            if self.rng.chance(1, 4) { self.next_epoch(); }
        }
    }

    // ------------------------------------------------------------------------------------------ authorisation matrix
    pub fn scenario_auth(&mut self) {
        let users = self.users();
        let std = SFees { protocol: DEC / 1000, swap: 3 * DEC / 1000, burn: 0, extra: vec![] };
        let pool = self.mk_pool("a", &[("uom", 6), ("uusd", 6)], None, std);
        if let Some(p) = &pool {
            let u = users[1].clone();
            self.provide_plain(&u, p, vec![("uom".into(), 5_000_000), ("uusd".into(), 5_000_000)]);
            let lp = self.lp_of(p);
            self.tx(&u, SMsg::FmPosCreate { id: Some("v".into()), dur: DAY, receiver: None }, vec![(lp.clone(), 1000)]);
            let o = users[2].clone();
            self.mk_farm(&o, &lp, "uom", 1000, 3, Some("x".into()), 1);
        }
        // ownership state of one contract
        let c = *self.rng.pick(&["PM", "FM", "EM", "FC"]);
        let owner = users[0].clone();
        let heir = users[1].clone();
        let b = self.sim.block();
        let mk = |c: &str, a: SAction| match c { "PM" => SMsg::PmOwnership(a), "FM" => SMsg::FmOwnership(a), "EM" => SMsg::EmOwnership(a), _ => SMsg::FcOwnership(a) };
        match self.rng.below(6) {
            0 => {}
            1 => { self.tx(&owner, mk(c, SAction::Transfer(heir.clone(), None)), vec![]); }
            2 => { self.tx(&owner, mk(c, SAction::Transfer(heir.clone(), Some(cw_utils::Expiration::AtHeight(b.height + 1)))), vec![]); self.advance(10); }
            3 => { self.tx(&owner, mk(c, SAction::Transfer(heir.clone(), None)), vec![]); self.tx(&heir, mk(c, SAction::Accept), vec![]); }
            4 => { self.tx(&owner, mk(c, SAction::Renounce), vec![]); }
            _ => { self.tx(&owner, mk(c, SAction::Transfer(heir.clone(), Some(cw_utils::Expiration::AtTime(cosmwasm_std::Timestamp::from_nanos(b.time.nanos() + DAY * NANOS))))), vec![]); }
        }
        // every role tries every privileged message (with and without funds)
        let mut roles: Vec<String> = users.clone();
        roles.extend(["PM", "FM", "FC"].iter().map(|s| s.to_string()));
        let n = 10 + self.rng.below(12);
        for _ in 0..n {
            let s = self.rng.pick(&roles).clone();
            let funds: Vec<SCoin> = if self.rng.chance(1, 6) && !["PM", "FM", "FC"].contains(&s.as_str()) { vec![("uom".to_string(), 1)] } else { vec![] };
            let target = *self.rng.pick(&["PM", "FM", "EM", "FC"]);
            let msg = match (target, self.rng.below(6)) {
                ("PM", 0) | ("PM", 1) => SMsg::PmUpdateConfig { fc: None, fm: None, fee: Some(("uusd".into(), 1 + self.rng.below(3) as u128)), toggle: pool.as_ref().map(|p| (p.clone(), None, Some(self.rng.chance(1, 2)), None)) },
                ("FM", 0) | ("FM", 1) => { let mut u = SFmUpdate::default(); u.penalty = Some(DEC / 5); SMsg::FmUpdateConfig(u) }
                ("EM", 0) | ("EM", 1) => SMsg::EmUpdateConfig(Some((DAY + self.rng.below(3), self.sim.block().time.seconds() + 1000))),
                (t, 2) => mk(t, SAction::Transfer(self.rng.pick(&users).clone(), None)),
                (t, 3) => mk(t, SAction::Accept),
                (t, 4) => if self.rng.chance(1, 4) { mk(t, SAction::Renounce) } else { mk(t, SAction::Accept) },
                ("FM", _) => match self.rng.below(5) {
                    0 => SMsg::FmCloseFarm("m-x".into()),
                    1 => SMsg::FmPosClose("u-v".into(), None),
                    2 => SMsg::FmPosWithdraw("u-v".into(), Some(true)),
                    3 => SMsg::FmExpandFarm(SFarmParams { lp: self.lp_of("o.a"), start: None, end: None, asset: ("uom".into(), 1000), id: Some("m-x".into()) }),
                    _ => SMsg::FmPosExpand("u-v".into()),
                },
                (t, _) => mk(t, SAction::Transfer(heir.clone(), None)),
            };
            let funds = match &msg { SMsg::FmExpandFarm(_) => vec![("uom".to_string(), 1000)], SMsg::FmPosExpand(_) => vec![(self.lp_of("o.a"), 10)], _ => funds };
            self.tx(&s, msg, funds);
            if self.rng.chance(1, 10) { self.next_epoch(); }
        }
    }
}

pub fn generate(name: &str, seed: u64, count: usize) -> Family {
    let mut fam = Family::new(
        name,
        "From MD.Model Require Import Base Ownable Epoch PoolMath Types PoolManager FarmManager Chain CasesChain.",
        "chain_case",
        "run_chain_case",
        "directed whole-chain scenario (deterministic set-up reaching funded pools / positions of several users in several LP denoms / running farms, then boundary-aimed operations, queries whose answers are compared, injected faults); full canonical snapshot compared after every operation. Non-trivial = at least 8 accepted transactions; distinct by script text.",
    );
    let mut rng = Rng::new(seed ^ 0x5CE7 ^ (name.len() as u64) << 20);
    for _ in 0..count {
        let mut r = rng.fork();
        let g = genesis_for(&mut r, name);
        let Some((mut gen, g, snap0)) = new_gen_with(&mut r, g) else { continue; };
        match name {
            "farm-scn" => gen.scenario_farm(false),
            "manyfarms-scn" => gen.scenario_farm(true),
            "pool-scn" => gen.scenario_pool(),
            "fault-scn" => gen.scenario_fault(),
            _ => gen.scenario_auth(),
        }
        let accepted = gen.ops.iter().zip(gen.oks.iter()).filter(|(o, ok)| **ok && matches!(o, SOp::Tx { .. })).count();
        for (k, v) in gen.hist.iter() {
            fam.count_n(k, *v);
        }
        fam.push(case_of(&gen, &g, &snap0, accepted >= 8));
    }
    fam
}

fn new_gen_with(r: &mut Rng, g: Genesis) -> Option<(Gen, Genesis, crate::val::Val)> {
    let sim = Sim::new(&g)?;
    let snap0 = sim.snapshot();
    let gen = Gen { rng: r.fork(), sim, prof: Profile::mixed(), ops: vec![], oks: vec![], obs: vec![], id_seq: 0, tf_fee_cache: g.tf_fee.clone(), hist: Default::default() };
    let _ = new_gen; // (the random families use chain::new_gen)
    Some((gen, g, snap0))
}

// ================================================================================================ known findings
// Deterministic witness scripts of the recorded findings. Each script is executed on the real contracts (and, like
// every case, compared with the model); `reproduced` is decided from the implementation's own answers.
fn val_list(v: &crate::val::Val) -> Vec<crate::val::Val> { if let crate::val::Val::L(x) = v { x.clone() } else { vec![] } }
fn val_u128(v: &crate::val::Val) -> u128 { if let crate::val::Val::Z(s) = v { s.parse().unwrap_or(0) } else { 0 } }
fn q_ok_fields(v: &crate::val::Val) -> Option<Vec<u128>> {
    let xs = val_list(v);
    if xs.len() != 2 { return None; }
    match &xs[1] { crate::val::Val::L(f) => Some(f.iter().map(val_u128).collect()), z => Some(vec![val_u128(z)]) }
}

fn finding_genesis(fee: (&str, u128), max_farms: u32) -> Genesis {
    let mut r = Rng::new(7);
    let mut g = default_genesis(&mut r);
    g.time = 1_714_000_000 * NANOS;
    g.epoch_genesis = 1_714_000_000;
    g.epoch_duration = DAY;
    g.fm_max_farms = max_farms;
    g.fm_epoch_buffer = 14;
    g.fm_min_unlock = DAY;
    g.fm_max_unlock = 31_556_926;
    g.fm_penalty = DEC / 10;
    g.fm_create_fee = (fee.0.to_string(), fee.1);
    g.pm_fee = ("uusd".to_string(), 1000);
    g.tf_fee = vec![("uom".to_string(), 1000)];
    g
}

impl Gen {
    fn std_fees() -> SFees { SFees { protocol: DEC / 1000, swap: 3 * DEC / 1000, burn: 0, extra: vec![] } }
    fn zero_fees() -> SFees { SFees { protocol: 0, swap: 0, burn: 0, extra: vec![] } }
    fn rewards_of(&mut self, who: &str, until: Option<u64>) -> Option<Vec<(String, u128)>> {
        let v = self.query(SQuery::Rewards { addr: who.to_string(), until });
        let xs = val_list(&v);
        if xs.len() != 2 { return None; }
        Some(val_list(&xs[1]).iter().map(|c| { let f = val_list(c); (if let crate::val::Val::S(s) = &f[0] { s.clone() } else { String::new() }, val_u128(&f[1])) }).collect())
    }

    /// F-until: Claim{until_epoch} older than the claimant's newest weight snapshot rewrites his history
    fn finding_until(&mut self) -> (bool, String) {
        let Some(pool) = self.mk_pool("a", &[("uom", 6), ("uusd", 6)], None, Self::std_fees()) else { return (false, "setup".into()) };
        let lp = self.lp_of(&pool);
        self.provide_plain("alice", &pool, vec![("uom".into(), 1_000_000_000), ("uusd".into(), 1_000_000_000)]);
        self.provide_plain("bob", &pool, vec![("uom".into(), 1_000_000_000), ("uusd".into(), 1_000_000_000)]);
        self.tx("alice", SMsg::FmPosCreate { id: Some("a".into()), dur: DAY, receiver: None }, vec![(lp.clone(), 1000)]);
        self.mk_farm("carol", &lp, "uom", 1000, 10, Some("f".into()), 1);
        for _ in 0..5 { self.next_epoch(); }
        self.tx("bob", SMsg::FmPosCreate { id: Some("b".into()), dur: DAY, receiver: None }, vec![(lp.clone(), 9000)]); // epoch 5, in effect from 6
        self.next_epoch();
        self.next_epoch(); // epoch 7
        let ok = self.tx("bob", SMsg::FmClaim(Some(2)), vec![]);
        // bob now asks what he is owed up to epoch 5 — before his weight took effect
        let r = self.rewards_of("bob", Some(5));
        let claim_all = self.tx("bob", SMsg::FmClaim(None), vec![]);
        let credited: u128 = r.as_ref().map(|v| v.iter().map(|c| c.1).sum()).unwrap_or(0);
        (ok && (credited > 0 || r.is_none() || !claim_all),
         format!("claim(until=2) accepted={}, rewards credited for epochs 3..5 (weight in effect from 6) = {:?}, later full claim accepted={}", ok, r, claim_all))
    }

    /// F-sat: saturating subtraction desynchronises the contract total from the users' weights
    fn finding_sat(&mut self) -> (bool, String) {
        let Some(pool) = self.mk_pool("a", &[("uom", 6), ("uusd", 6)], None, Self::std_fees()) else { return (false, "setup".into()) };
        let lp = self.lp_of(&pool);
        self.provide_plain("alice", &pool, vec![("uom".into(), 1_000_000_000), ("uusd".into(), 1_000_000_000)]);
        self.provide_plain("bob", &pool, vec![("uom".into(), 1_000_000_000), ("uusd".into(), 1_000_000_000)]);
        self.tx("alice", SMsg::FmPosCreate { id: Some("a".into()), dur: 5_000_000, receiver: None }, vec![(lp.clone(), 1)]);
        self.tx("bob", SMsg::FmPosCreate { id: Some("b".into()), dur: 5_000_000, receiver: None }, vec![(lp.clone(), 1000)]);
        self.tx("alice", SMsg::FmPosExpand("u-a".into()), vec![(lp.clone(), 1)]);
        self.next_epoch();
        self.tx("alice", SMsg::FmClaim(None), vec![]);
        self.tx("alice", SMsg::FmPosClose("u-a".into(), None), vec![]);
        self.next_epoch();
        // newest weights per address for this LP
        let ws = self.sim.weights();
        let mut latest: std::collections::BTreeMap<String, (u64, u128)> = Default::default();
        for (a, l, e, w) in ws { if l == lp { let x = latest.entry(a).or_insert((e, w)); if e >= x.0 { *x = (e, w); } } }
        let total = latest.get("FM").map(|x| x.1).unwrap_or(0);
        let users: u128 = latest.iter().filter(|(a, _)| a.as_str() != "FM").map(|(_, x)| x.1).sum();
        (total < users, format!("contract total weight {} < sum of users' weights {}", total, users))
    }

    /// F-first-epoch: first effective epoch of a new LP denom skipped for a user with an older cursor
    fn finding_first_epoch(&mut self) -> (bool, String) {
        let Some(p1) = self.mk_pool("a", &[("uom", 6), ("uusd", 6)], None, Self::std_fees()) else { return (false, "setup".into()) };
        let Some(p2) = self.mk_pool("b", &[("uusdc", 6), ("uusd", 6)], None, Self::std_fees()) else { return (false, "setup".into()) };
        let (lp1, lp2) = (self.lp_of(&p1), self.lp_of(&p2));
        self.provide_plain("alice", &p1, vec![("uom".into(), 1_000_000_000), ("uusd".into(), 1_000_000_000)]);
        self.provide_plain("alice", &p2, vec![("uusdc".into(), 1_000_000_000), ("uusd".into(), 1_000_000_000)]);
        self.tx("alice", SMsg::FmPosCreate { id: Some("a".into()), dur: DAY, receiver: None }, vec![(lp1.clone(), 1000)]);
        for _ in 0..5 { self.next_epoch(); }
        self.tx("alice", SMsg::FmClaim(None), vec![]); // cursor = 5
        for _ in 0..4 { self.next_epoch(); } // epoch 9
        self.mk_farm("carol", &lp2, "uom", 1000, 5, Some("f".into()), 1); // epochs 10..15
        self.tx("alice", SMsg::FmPosCreate { id: Some("b".into()), dur: DAY, receiver: None }, vec![(lp2.clone(), 1000)]); // first ever LP2 position, in effect from 10
        for _ in 0..3 { self.next_epoch(); } // epoch 12
        let r = self.rewards_of("alice", None);
        let got: u128 = r.as_ref().map(|v| v.iter().filter(|c| c.0 == "uom").map(|c| c.1).sum()).unwrap_or(0);
        (r.is_some() && got < 3000, format!("sole LP2 staker for epochs 10..12 at 1000/epoch is owed 3000, Rewards reports {}", got))
    }

    /// numeric findings: the implementation returns exactly the pinned values whose violation of the exact bound is a
    /// theorem in coq/Props/Findings.v
    fn finding_ss_round(&mut self) -> (bool, String) {
        let Some(pool) = self.mk_pool("s", &[("uusd", 6), ("uusdc", 6)], Some(85), Self::zero_fees()) else { return (false, "setup".into()) };
        self.provide_plain("alice", &pool, vec![("uusd".into(), 1_000_000_000), ("uusdc".into(), 1_000_000_000)]);
        let v = self.query(SQuery::Simulation { offer: ("uusd".into(), 1), ask: "uusdc".into(), pool: pool.clone() });
        let f = q_ok_fields(&v);
        (f.as_ref().map(|x| x[0] == 1).unwrap_or(false), format!("balanced 1e9/1e9 amp 85 zero-fee pool: 1 unit in -> {:?} out (exact output < 1; invariant decreases, Findings.F_ss_round_refuted)", f.map(|x| x[0])))
    }
    fn finding_ss_d(&mut self) -> (bool, String) {
        let Some(pool) = self.mk_pool("s", &[("aweth", 18), ("awbtc", 18)], Some(10000), Self::zero_fees()) else { return (false, "setup".into()) };
        self.provide_plain("alice", &pool, vec![("aweth".into(), 46 * 10u128.pow(18)), ("awbtc".into(), 3030 * 10u128.pow(18))]);
        let v = self.query(SQuery::Simulation { offer: ("aweth".into(), 186), ask: "awbtc".into(), pool: pool.clone() });
        let f = q_ok_fields(&v);
        (f.as_ref().map(|x| x[0] == 176).unwrap_or(false), format!("amp 10000, reserves (46, 3030)e18: 186 units in -> {:?} out (exact >= 195, Findings.F_ss_D_refuted)", f.map(|x| x[0])))
    }
    fn finding_d_core(&mut self) -> (bool, String) {
        let Some(pool) = self.mk_pool("s", &[("uusd", 6), ("uusdc", 6), ("uom", 6), ("ubtc", 6)], Some(1), Self::zero_fees()) else { return (false, "setup".into()) };
        let ok = self.provide_plain("alice", &pool, vec![("ubtc".into(), 1), ("uom".into(), 1), ("uusd".into(), 10u128.pow(30)), ("uusdc".into(), 1)]);
        let lp = self.lp_of(&pool);
        let supply = self.sim.supply(&lp);
        (ok && supply > 10u128.pow(15), format!("first deposit (1e30,1,1,1) amp 1 accepted={}, LP supply minted {} (exact invariant < 4e12, Findings.F_d_core_refuted)", ok, supply))
    }
    fn finding_rev18(&mut self) -> (bool, String) {
        let fees = SFees { protocol: 2 * DEC / 100, swap: 3 * DEC / 100, burn: DEC / 100, extra: vec![16 * DEC / 1000] };
        let Some(pool) = self.mk_pool("c", &[("aweth", 18), ("awbtc", 18)], None, fees) else { return (false, "setup".into()) };
        self.provide_plain("alice", &pool, vec![("aweth".into(), 10u128.pow(24)), ("awbtc".into(), 10u128.pow(24))]);
        let ask = 10u128.pow(22);
        let v = self.query(SQuery::ReverseSimulation { ask: ("awbtc".into(), ask), offer_denom: "aweth".into(), pool: pool.clone() });
        let Some(f) = q_ok_fields(&v) else { return (false, "reverse simulation failed".into()) };
        let v2 = self.query(SQuery::Simulation { offer: ("aweth".into(), f[0] + 1), ask: "awbtc".into(), pool: pool.clone() });
        let g = q_ok_fields(&v2);
        (g.as_ref().map(|x| x[0] < ask).unwrap_or(false), format!("reverse quote {} for ask {}; offering quote+1 returns {:?} (short by {:?})", f[0], ask, g.as_ref().map(|x| x[0]), g.as_ref().map(|x| ask.saturating_sub(x[0]))))
    }
    fn finding_ss_tol(&mut self) -> (bool, String) {
        let Some(pool) = self.mk_pool("s", &[("uusd", 6), ("uusdc", 6)], Some(85), Self::std_fees()) else { return (false, "setup".into()) };
        self.provide_plain("alice", &pool, vec![("uusd".into(), 1_000_000_000), ("uusdc".into(), 1_000_000_000)]);
        let with_tol = self.tx("bob", SMsg::PmProvide { liq_slip: Some(DEC / 2), swap_slip: None, receiver: None, pool: pool.clone(), unlock: None, lock_id: None }, vec![("uusd".into(), 1_000_000), ("uusdc".into(), 1_000_000)]);
        let without = self.tx("bob", SMsg::PmProvide { liq_slip: None, swap_slip: None, receiver: None, pool: pool.clone(), unlock: None, lock_id: None }, vec![("uusd".into(), 1_000_000), ("uusdc".into(), 1_000_000)]);
        (!with_tol && without, format!("exactly proportional stableswap deposit: with 50% tolerance accepted={}, without tolerance accepted={}", with_tol, without))
    }
    fn finding_ss_spread(&mut self) -> (bool, String) {
        let Some(pool) = self.mk_pool("s", &[("uusd", 6), ("aweth", 18)], Some(85), Self::zero_fees()) else { return (false, "setup".into()) };
        self.provide_plain("alice", &pool, vec![("aweth".into(), 10u128.pow(24)), ("uusd".into(), 10u128.pow(12))]);
        let v = self.query(SQuery::Simulation { offer: ("aweth".into(), 1000 * 10u128.pow(18)), ask: "uusd".into(), pool: pool.clone() });
        let f = q_ok_fields(&v);
        let strict = self.tx("bob", SMsg::PmSwap { ask: "uusd".into(), belief: None, max_slip: Some(DEC / 100), receiver: None, pool: pool.clone() }, vec![("aweth".into(), 1000 * 10u128.pow(18))]);
        (f.as_ref().map(|x| x[0] >= 999_988_000).unwrap_or(false) && !strict, format!("selling 1000 of the 18-decimals token: simulation (return, slippage) = {:?}; swap with max_slippage 1% accepted={}", f.map(|x| (x[0], x[1])), strict))
    }
    fn finding_clamp(&mut self) -> (bool, String) {
        let Some(pool) = self.mk_pool("a", &[("uom", 6), ("uusd", 6)], None, Self::std_fees()) else { return (false, "setup".into()) };
        let lp = self.lp_of(&pool);
        let mut created = 0u32;
        for i in 0..103u32 { if self.mk_farm("alice", &lp, "uom", 1000, 2, Some(format!("k{}", i)), 1) { created += 1; } }
        (created > 101, format!("max_concurrent_farms = 101, {} unexpired farms created for one LP token", created))
    }
}

pub fn generate_findings(_seed: u64, thorough: bool) -> Family {
    let mut fam = Family::new(
        "findings",
        "From MD.Model Require Import Base Ownable Epoch PoolMath Types PoolManager FarmManager Chain CasesChain.",
        "chain_case",
        "run_chain_case",
        "one deterministic witness script per recorded finding, executed on the real contracts (reproduced or not is decided from the implementation's own answers) and compared with the model like every other case",
    );
    type F = fn(&mut Gen) -> (bool, String);
    let mut list: Vec<(&str, (&str, u128), u32, F)> = vec![
        ("F-until", ("uom", 1000), 3, Gen::finding_until as F),
        ("F-sat", ("uom", 1000), 3, Gen::finding_sat as F),
        ("F-first-epoch", ("uom", 1000), 3, Gen::finding_first_epoch as F),
        ("F-ss-round", ("uom", 1000), 3, Gen::finding_ss_round as F),
        ("F-ss-D", ("uom", 1000), 3, Gen::finding_ss_d as F),
        ("F-d-core", ("uom", 1000), 3, Gen::finding_d_core as F),
        ("F-rev18", ("uom", 1000), 3, Gen::finding_rev18 as F),
        ("F-ss-tol", ("uom", 1000), 3, Gen::finding_ss_tol as F),
        ("F-ss-spread", ("uom", 1000), 3, Gen::finding_ss_spread as F),
    ];
    if thorough { list.push(("F-clamp", ("uom", 1000), 101, Gen::finding_clamp as F)); }
    for (id, fee, maxf, f) in list {
        let mut g = finding_genesis(fee, maxf);
        // the numeric witnesses need 18-decimals denoms and very large balances
        g.base_denoms = vec!["uom".into(), "uusd".into(), "uusdc".into(), "ubtc".into(), "aweth".into(), "awbtc".into()];
        let big = 10u128.pow(34);
        g.balances = g.users.iter().map(|u| (u.clone(), g.base_denoms.iter().map(|d| (d.clone(), big)).collect())).collect();
        let mut r = Rng::new(11);
        let Some((mut gen, g, snap0)) = new_gen_with(&mut r, g) else { continue; };
        let (hit, descr) = f(&mut gen);
        for (k, v) in gen.hist.iter() { fam.count_n(k, *v); }
        if hit { fam.known_hits.push((id.to_string(), descr.clone())); }
        fam.count(&format!("finding:{}:{}", id, if hit { "reproduced" } else { "not-reproduced" }));
        let mut c = case_of(&gen, &g, &snap0, true);
        c.descr = format!("FINDING {} reproduced={} :: {}\n{}", id, hit, descr, c.descr);
        fam.push(c);
    }
    fam
}

// ================================================================================================ probes
// Deterministic probe scripts: each one drives the real contracts into one narrow situation that random
// exploration reaches rarely (asset order after a slippage-protected deposit, foreign lock identifiers, malformed
// route junctions, extra fees, feature-switch combinations, expiry windows, exhausted farms, thirds, position
// limits, fractional weights, failing refunds ...). Amounts vary with the case's PRNG; everything is compared
// with the model after every operation like any other case.
impl Gen {
    fn amt(&mut self, base: u128) -> u128 { base + self.rng.below(base as u64 / 7 + 3) as u128 }
    fn plain_provide(&mut self, who: &str, pool: &str, f: Vec<SCoin>, liq: Option<u128>) -> bool {
        self.tx(who, SMsg::PmProvide { liq_slip: liq, swap_slip: None, receiver: None, pool: pool.to_string(), unlock: None, lock_id: None }, f)
    }
    fn swap_to(&mut self, who: &str, pool: &str, offer: SCoin, ask: &str) -> bool {
        self.query(SQuery::Simulation { offer: offer.clone(), ask: ask.to_string(), pool: pool.to_string() });
        self.tx(who, SMsg::PmSwap { ask: ask.to_string(), belief: None, max_slip: Some(DEC / 2), receiver: None, pool: pool.to_string() }, vec![offer])
    }
    fn drain(&mut self, pool: &str) {
        let lp = self.lp_of(pool);
        for u in self.users() {
            let bal = self.sim.balance(&u, &lp);
            if bal > 0 { self.tx(&u, SMsg::PmWithdraw { pool: pool.to_string() }, vec![(lp.clone(), bal)]); }
        }
    }

    /// pools whose denoms were declared out of alphabetical order, a slippage-protected deposit (which stores the
    /// reserves sorted), then swaps, skewed deposits and a complete drain
    fn probe_asset_order(&mut self) {
        let fees = Self::std_fees();
        let Some(cp) = self.mk_pool("cp", &[("uusd", 6), ("uom", 6)], None, fees.clone()) else { return; };
        let Some(ss) = self.mk_pool("ss", &[("uusdc", 6), ("aweth", 18), ("ubtc", 8)], Some(100), fees.clone()) else { return; };
        let a = self.amt(2_000_000_000);
        self.plain_provide("alice", &cp, vec![("uom".into(), a), ("uusd".into(), 3 * a)], None);
        self.plain_provide("alice", &ss, vec![("aweth".into(), 1_000_000 * 10u128.pow(18)), ("ubtc".into(), 1_000_000 * 10u128.pow(8)), ("uusdc".into(), 1_000_000 * 10u128.pow(6))], None);
        self.swap_to("bob", &cp, ("uusd".into(), a / 9), "uom");
        self.swap_to("bob", &ss, ("ubtc".into(), 300_000 * 10u128.pow(8)), "uusdc");
        // slippage-protected deposits
        let pi = self.pool_info(&cp);
        let f: Vec<SCoin> = pi.assets.iter().map(|c| (self.sim.sym(&c.denom), c.amount.u128() / 50)).collect();
        self.plain_provide("bob", &cp, f, Some(DEC / 100));
        self.plain_provide("bob", &ss, vec![("aweth".into(), 3), ("ubtc".into(), 2), ("uusdc".into(), 1)], Some(DEC));
        // trades, both directions, direct and routed
        let b = self.amt(40_000_000);
        self.swap_to("carol", &cp, ("uom".into(), b), "uusd");
        self.swap_to("carol", &cp, ("uusd".into(), b), "uom");
        self.swap_to("carol", &ss, ("uusdc".into(), 5_000 * 10u128.pow(6)), "aweth");
        self.swap_to("carol", &ss, ("aweth".into(), 7_000 * 10u128.pow(18)), "ubtc");
        self.swap_to("carol", &ss, ("ubtc".into(), 900 * 10u128.pow(8)), "uusdc");
        self.tx("carol", SMsg::PmRoute { ops: vec![SSwapOp { t_in: "uom".into(), t_out: "uusd".into(), pool: cp.clone() }], min_receive: None, receiver: None, max_slip: Some(DEC / 2) }, vec![("uom".into(), b / 3)]);
        // deposits that are not proportional to the (now imbalanced) reserves
        self.plain_provide("carol", &ss, vec![("aweth".into(), 1_000 * 10u128.pow(18)), ("ubtc".into(), 1_000 * 10u128.pow(8)), ("uusdc".into(), 1_000 * 10u128.pow(6))], None);
        self.plain_provide("carol", &cp, vec![("uom".into(), b), ("uusd".into(), b)], None);
        self.tx("carol", SMsg::PmProvide { liq_slip: None, swap_slip: Some(DEC / 2), receiver: None, pool: cp.clone(), unlock: None, lock_id: None }, vec![("uusd".into(), b | 1)]);
        self.drain(&ss);
        self.drain(&cp);
    }

    /// locking through the pool manager: into nobody's, one's own and somebody else's position, single and multi asset
    fn probe_foreign_lock(&mut self) {
        let Some(p) = self.mk_pool("a", &[("uom", 6), ("uusd", 6)], None, Self::std_fees()) else { return; };
        let lp = self.lp_of(&p);
        let a = self.amt(1_000_000_000);
        for u in ["alice", "bob", "carol"] { self.plain_provide(u, &p, vec![("uom".into(), a), ("uusd".into(), a)], None); }
        self.tx("bob", SMsg::FmPosCreate { id: Some("v".into()), dur: 30 * DAY, receiver: None }, vec![(lp.clone(), 50_000)]);
        self.tx("carol", SMsg::PmProvide { liq_slip: None, swap_slip: None, receiver: None, pool: p.clone(), unlock: Some(30 * DAY), lock_id: Some("own".into()) }, vec![("uom".into(), 70_000), ("uusd".into(), 70_000)]);
        let both: Vec<SCoin> = vec![("uom".into(), 40_000), ("uusd".into(), 40_000)];
        let one: Vec<SCoin> = vec![("uusd".into(), 80_001)];
        for (who, id, funds, recv) in [
            ("carol", "u-v", one.clone(), None), ("carol", "u-v", both.clone(), None), ("carol", "v", one.clone(), None),
            ("carol", "u-own", one.clone(), None), ("carol", "u-own", both.clone(), None),
            ("alice", "u-own", one.clone(), None), ("alice", "u-v", one.clone(), Some("bob".to_string())), ("alice", "fresh", one.clone(), Some("bob".to_string())),
            ("alice", "mine", one.clone(), None), ("alice", "u-mine", one.clone(), None),
        ] {
            self.tx(who, SMsg::PmProvide { liq_slip: None, swap_slip: Some(DEC / 2), receiver: recv, pool: p.clone(), unlock: Some(30 * DAY), lock_id: Some(id.to_string()) }, funds);
        }
        // two assets, no identifier, for a third party; and the farm manager's own door: somebody else's explicit identifier
        self.tx("alice", SMsg::PmProvide { liq_slip: None, swap_slip: None, receiver: Some("bob".into()), pool: p.clone(), unlock: Some(30 * DAY), lock_id: None }, both.clone());
        self.tx("alice", SMsg::PmProvide { liq_slip: None, swap_slip: None, receiver: Some("alice".into()), pool: p.clone(), unlock: Some(30 * DAY), lock_id: None }, both.clone());
        self.tx("carol", SMsg::FmPosCreate { id: Some("v".into()), dur: DAY, receiver: None }, vec![(lp.clone(), 7)]);
        self.tx("carol", SMsg::FmPosCreate { id: Some("u-v".into()), dur: DAY, receiver: None }, vec![(lp.clone(), 7)]);
        self.tx("carol", SMsg::FmPosCreate { id: Some("w".into()), dur: DAY, receiver: Some("bob".into()) }, vec![(lp.clone(), 7)]);
        self.tx("bob", SMsg::FmPosClose("u-v".into(), None), vec![]);
        self.tx("carol", SMsg::FmPosWithdraw("u-v".into(), Some(true)), vec![]);
        self.tx("carol", SMsg::FmPosClose("u-v".into(), None), vec![]);
        self.next_epoch();
        for u in ["alice", "bob", "carol"] { self.q_rewards(u, None); }
    }

    /// routes: well-formed three hops, malformed junctions at every position, the same pool twice
    fn probe_routes(&mut self) {
        let fees = Self::std_fees();
        let Some(a) = self.mk_pool("a", &[("uom", 6), ("uusd", 6)], None, fees.clone()) else { return; };
        let Some(b) = self.mk_pool("b", &[("uusd", 6), ("uusdc", 6)], None, fees.clone()) else { return; };
        let Some(s) = self.mk_pool("s", &[("uusd", 6), ("uusdc", 6), ("ubtc", 8)], Some(85), fees.clone()) else { return; };
        let x = self.amt(3_000_000_000);
        self.plain_provide("alice", &a, vec![("uom".into(), x), ("uusd".into(), 2 * x)], None);
        self.plain_provide("alice", &b, vec![("uusd".into(), x), ("uusdc".into(), x + 77)], None);
        self.plain_provide("alice", &s, vec![("ubtc".into(), 40 * x), ("uusd".into(), 3 * x), ("uusdc".into(), x / 2)], None);
        let op = |i: &str, o: &str, p: &String| SSwapOp { t_in: i.to_string(), t_out: o.to_string(), pool: p.clone() };
        let routes: Vec<Vec<SSwapOp>> = vec![
            vec![op("uom", "uusd", &a), op("uusd", "uusdc", &b), op("uusdc", "ubtc", &s)],
            vec![op("uom", "uusd", &a), op("uusd", "uusdc", &b), op("uusd", "ubtc", &s)],      // junction 1->2 broken
            vec![op("uom", "uusd", &a), op("uusdc", "uusd", &b), op("uusd", "ubtc", &s)],       // junction 0->1 broken
            vec![op("uom", "uusd", &a), op("uusd", "uusdc", &s), op("uusdc", "uusd", &b), op("uusdc", "ubtc", &s)], // 2->3 broken, pool twice
            vec![op("uom", "uusd", &a), op("uusd", "uom", &a)],
            vec![op("uom", "uusd", &a), op("uusd", "ubtc", &s)],
            vec![op("uom", "uusd", &a), op("uusd", "uusdc", &b), op("uusdc", "uusd", &s)],                         // uusd is output twice, by different pools
            vec![op("uom", "uusd", &a), op("uusd", "uusdc", &s), op("uusdc", "uusd", &b), op("uusd", "ubtc", &s)], // and a pool twice
        ];
        for ops in routes {
            let amt = self.amt(5_000_000);
            let v = self.query(SQuery::SimOps { amount: amt, ops: ops.clone() });
            let q = q_ok_fields(&v).map(|f| f[0]);
            if let Some(q) = q { self.query(SQuery::RevSimOps { amount: q.max(1), ops: ops.clone() }); }
            self.tx("bob", SMsg::PmRoute { ops, min_receive: q, receiver: None, max_slip: Some(DEC / 2) }, vec![("uom".into(), amt)]);
        }
    }

    /// pool creation: decimals lists longer / shorter than the asset list, duplicate and single assets, fee sums at the
    /// limit, stray and missing funds, after the owner changed the creation fee (same denom as the token-factory fee)
    fn probe_creation(&mut self) {
        let fees = Self::std_fees();
        let mk = |denoms: &[&str], decimals: &[u8], amp: Option<u64>, fees: &SFees, id: &str| SMsg::PmCreatePool {
            denoms: denoms.iter().map(|d| d.to_string()).collect(), decimals: decimals.to_vec(), fees: fees.clone(), amp, id: Some(id.to_string()) };
        let Some(p) = self.mk_pool("a", &[("uom", 6), ("uusd", 6)], None, fees.clone()) else { return; };
        self.plain_provide("alice", &p, vec![("uom".into(), 5_000_000_000), ("uusd".into(), 5_000_000_000)], None);
        let owner = self.current_owner("PM");
        for round in 0..2 {
            let exact = self.creation_funds(true);
            let cases: Vec<(Vec<&str>, Vec<u8>, Option<u64>, SFees)> = vec![
                (vec!["uom", "uusdc"], vec![6, 6, 18], None, fees.clone()),
                (vec!["uom", "uusdc"], vec![6], None, fees.clone()),
                (vec!["uom", "uusdc", "uusd"], vec![6, 6, 6, 6], Some(85), fees.clone()),
                (vec!["uom", "uusdc", "uusd"], vec![6, 6, 6], None, fees.clone()),
                (vec!["uom"], vec![6], Some(85), fees.clone()),
                (vec!["uom", "uom"], vec![6, 6], None, fees.clone()),
                (vec!["uom", "uusdc"], vec![6, 6], Some(0), fees.clone()),
                (vec!["uom", "uusdc"], vec![6, 6], None, SFees { protocol: DEC / 10, swap: DEC / 20, burn: DEC / 20, extra: vec![1] }),
                (vec!["uom", "uusdc"], vec![6, 6], None, SFees { protocol: DEC / 10, swap: DEC / 20, burn: DEC / 20, extra: vec![] }),
            ];
            for (i, (dn, dc, amp, f)) in cases.iter().enumerate() {
                let s = self.user();
                self.tx(&s, mk(dn, dc, *amp, f, &format!("c{}{}", round, i)), exact.clone());
            }
            // funds: one unit short, one unit over, a stray denom, only the creation fee, only the token-factory fee
            let mut short = exact.clone(); if let Some(c) = short.last_mut() { c.1 -= 1; }
            let mut over = exact.clone(); if let Some(c) = over.first_mut() { c.1 += 1; }
            let mut stray = exact.clone(); stray.push(("uusdc".into(), 1)); stray.sort();
            let cfg = self.pm_cfg();
            let only_fee = vec![(self.sim.sym(&cfg.pool_creation_fee.denom), cfg.pool_creation_fee.amount.u128())];
            for (i, f) in [short, over, stray, only_fee, self.tf_fee_cache.clone()].into_iter().enumerate() {
                let s = self.user();
                let f: Vec<SCoin> = f.into_iter().filter(|c| c.1 > 0).collect();
                self.tx(&s, mk(&["ubtc", "uusd"], &[8, 6], None, &fees, &format!("f{}{}", round, i)), f);
            }
            // the owner moves the creation fee into the token-factory fee's denom with a different amount
            let tf = self.tf_fee_cache.first().cloned().unwrap_or(("uom".to_string(), 1000));
            self.tx(&owner, SMsg::PmUpdateConfig { fc: None, fm: None, fee: Some((tf.0.clone(), tf.1 * 5 / 2)), toggle: None }, vec![]);
        }
        self.drain(&p);
    }

    /// a pool with extra fees and a burn fee: every swap path, then a complete drain
    fn probe_extra_fees(&mut self) {
        let fees = SFees { protocol: 2 * DEC / 1000, swap: 3 * DEC / 1000, burn: DEC / 1000, extra: vec![15 * DEC / 1000, 4 * DEC / 1000] };
        let Some(p) = self.mk_pool("x", &[("uom", 6), ("uusd", 6)], None, fees.clone()) else { return; };
        let Some(s) = self.mk_pool("y", &[("uusd", 6), ("uusdc", 6)], Some(60), fees) else { return; };
        let a = self.amt(1_000_000_000);
        self.plain_provide("alice", &p, vec![("uom".into(), a), ("uusd".into(), a)], None);
        self.plain_provide("bob", &s, vec![("uusd".into(), a), ("uusdc".into(), a)], None);
        for i in 0..4u128 {
            let x = self.amt(9_000_000) * (i + 1);
            self.swap_to("carol", &p, ("uom".into(), x), "uusd");
            self.swap_to("carol", &p, ("uusd".into(), x / 2), "uom");
            self.swap_to("carol", &s, ("uusd".into(), x), "uusdc");
            self.tx("carol", SMsg::PmRoute { ops: vec![SSwapOp { t_in: "uom".into(), t_out: "uusd".into(), pool: p.clone() }, SSwapOp { t_in: "uusd".into(), t_out: "uusdc".into(), pool: s.clone() }], min_receive: None, receiver: None, max_slip: Some(DEC / 2) }, vec![("uom".into(), x)]);
        }
        self.tx("carol", SMsg::PmProvide { liq_slip: None, swap_slip: Some(DEC / 2), receiver: None, pool: p.clone(), unlock: None, lock_id: None }, vec![("uom".into(), 1_000_001)]);
        self.drain(&p);
        self.drain(&s);
    }

    /// every combination of the three feature switches against every operation
    fn probe_toggles(&mut self) {
        let Some(p) = self.mk_pool("a", &[("uom", 6), ("uusd", 6)], None, Self::std_fees()) else { return; };
        let Some(o) = self.mk_pool("b", &[("uusd", 6), ("uusdc", 6)], None, Self::std_fees()) else { return; };
        let lp = self.lp_of(&p);
        let a = self.amt(1_000_000_000);
        for u in ["alice", "bob"] { self.plain_provide(u, &p, vec![("uom".into(), a), ("uusd".into(), a)], None); }
        self.plain_provide("alice", &o, vec![("uusd".into(), a), ("uusdc".into(), a)], None);
        let owner = self.current_owner("PM");
        for m in 0..8u32 {
            let (w, d, s) = (m & 1 != 0, m & 2 != 0, m & 4 != 0);
            self.tx(&owner, SMsg::PmUpdateConfig { fc: None, fm: None, fee: None, toggle: Some((p.clone(), Some(w), Some(d), Some(s))) }, vec![]);
            self.tx("bob", SMsg::PmSwap { ask: "uusd".into(), belief: None, max_slip: Some(DEC / 2), receiver: None, pool: p.clone() }, vec![("uom".into(), 10_000 + m as u128)]);
            self.tx("bob", SMsg::PmRoute { ops: vec![SSwapOp { t_in: "uusdc".into(), t_out: "uusd".into(), pool: o.clone() }, SSwapOp { t_in: "uusd".into(), t_out: "uom".into(), pool: p.clone() }], min_receive: None, receiver: None, max_slip: Some(DEC / 2) }, vec![("uusdc".into(), 9_000)]);
            self.plain_provide("bob", &p, vec![("uom".into(), 5_000), ("uusd".into(), 5_000)], None);
            self.tx("bob", SMsg::PmProvide { liq_slip: None, swap_slip: Some(DEC / 2), receiver: None, pool: p.clone(), unlock: None, lock_id: None }, vec![("uom".into(), 8_001)]);
            self.tx("bob", SMsg::PmProvide { liq_slip: None, swap_slip: None, receiver: None, pool: p.clone(), unlock: Some(DAY), lock_id: None }, vec![("uom".into(), 3_000), ("uusd".into(), 3_000)]);
            self.tx("bob", SMsg::PmWithdraw { pool: p.clone() }, vec![(lp.clone(), 1_000)]);
            // the other pool is unaffected
            self.tx("bob", SMsg::PmSwap { ask: "uusdc".into(), belief: None, max_slip: Some(DEC / 2), receiver: None, pool: o.clone() }, vec![("uusd".into(), 1_000)]);
        }
        // partial updates keep the other flags
        self.tx(&owner, SMsg::PmUpdateConfig { fc: None, fm: None, fee: None, toggle: Some((p.clone(), None, Some(true), None)) }, vec![]);
        self.tx(&owner, SMsg::PmUpdateConfig { fc: None, fm: None, fee: None, toggle: Some((p.clone(), Some(true), None, None)) }, vec![]);
        self.tx("bob", SMsg::PmWithdraw { pool: p.clone() }, vec![(lp.clone(), 1_000)]);
    }

    /// single-asset deposits: larger pools, tight liquidity tolerance with a loose swap tolerance, odd amounts
    fn probe_single_sided(&mut self) {
        let Some(p) = self.mk_pool("a", &[("uom", 6), ("uusd", 6)], None, Self::std_fees()) else { return; };
        let Some(s3) = self.mk_pool("t", &[("uusd", 6), ("uusdc", 6), ("uom", 6)], Some(85), Self::std_fees()) else { return; };
        let Some(s2) = self.mk_pool("u", &[("uusd", 6), ("uusdc", 6)], Some(85), Self::std_fees()) else { return; };
        self.plain_provide("alice", &p, vec![("uom".into(), 1_000_000), ("uusd".into(), 1_000_000)], None);
        self.plain_provide("alice", &s3, vec![("uom".into(), 1_000_000), ("uusd".into(), 1_000_000), ("uusdc".into(), 1_000_000)], None);
        self.plain_provide("alice", &s2, vec![("uusd".into(), 1_000_000), ("uusdc".into(), 1_000_000)], None);
        let one = |d: &str, a: u128| -> Vec<SCoin> { vec![(d.to_string(), a)] };
        self.tx("bob", SMsg::PmProvide { liq_slip: None, swap_slip: Some(DEC / 2), receiver: None, pool: s3.clone(), unlock: None, lock_id: None }, one("uusd", 10_001));
        let big = self.amt(200_000);
        for (liq, swp) in [(Some(DEC / 20), Some(DEC / 5)), (Some(DEC / 5), Some(DEC / 20)), (None, Some(DEC / 5)), (Some(DEC / 20), None)] {
            self.tx("bob", SMsg::PmProvide { liq_slip: liq, swap_slip: swp, receiver: None, pool: p.clone(), unlock: None, lock_id: None }, one("uom", big));
            self.tx("bob", SMsg::PmProvide { liq_slip: liq, swap_slip: swp, receiver: None, pool: s2.clone(), unlock: None, lock_id: None }, one("uusdc", big));
        }
        for a in [1u128, 2, 3, 1001, 77_777] {
            self.tx("carol", SMsg::PmProvide { liq_slip: None, swap_slip: Some(DEC / 2), receiver: None, pool: p.clone(), unlock: None, lock_id: None }, one("uusd", a));
        }
        self.tx("carol", SMsg::PmProvide { liq_slip: None, swap_slip: Some(DEC / 2), receiver: Some("alice".into()), pool: p.clone(), unlock: None, lock_id: None }, one("uusd", 5_001));
        self.drain(&p);
    }

    /// farm creation and expansion funds when the fee denom equals the reward denom
    fn probe_farm_funds(&mut self) {
        let Some(p) = self.mk_pool("a", &[("uom", 6), ("uusd", 6)], None, Self::std_fees()) else { return; };
        let lp = self.lp_of(&p);
        self.plain_provide("alice", &p, vec![("uom".into(), 1_000_000_000), ("uusd".into(), 1_000_000_000)], None);
        self.tx("alice", SMsg::FmPosCreate { id: Some("a".into()), dur: DAY, receiver: None }, vec![(lp.clone(), 1000)]);
        let cfg = self.fm_cfg();
        let fee = (self.sim.sym(&cfg.create_farm_fee.denom), cfg.create_farm_fee.amount.u128());
        let cur = self.sim.current_epoch().unwrap_or(0);
        for (i, sent) in [fee.1, fee.1 + 4000, fee.1 + 3999, 4000, fee.1 + 4001, fee.1 + 8000].iter().enumerate() {
            let params = SFarmParams { lp: lp.clone(), start: Some(cur + 1), end: Some(cur + 5), asset: (fee.0.clone(), 4000), id: Some(format!("f{}", i)) };
            self.tx("bob", SMsg::FmCreateFarm(params), vec![(fee.0.clone(), *sent)]);
        }
        // expansion: declared amount against attached amount
        let farms = self.sim.farms();
        if let Some(f) = farms.first() {
            let id = f.identifier.clone();
            let owner = self.sim.sym(f.owner.as_str());
            let d = self.sim.sym(&f.farm_asset.denom);
            for (decl, sent) in [(50_000u128, 1_000u128), (1_000, 50_000), (2_000, 2_000), (1_001, 1_001)] {
                self.tx(&owner, SMsg::FmExpandFarm(SFarmParams { lp: lp.clone(), start: None, end: None, asset: (d.clone(), decl), id: Some(id.clone()) }), vec![(d.clone(), sent)]);
            }
            self.tx(&owner, SMsg::FmCloseFarm(id), vec![]);
        }
    }

    /// automatic closing of expired farms: third-party creations around the expiry instant
    fn probe_expiry_window(&mut self) {
        let Some(p) = self.mk_pool("a", &[("uom", 6), ("uusd", 6)], None, Self::std_fees()) else { return; };
        let lp = self.lp_of(&p);
        self.plain_provide("alice", &p, vec![("uom".into(), 1_000_000_000), ("uusd".into(), 1_000_000_000)], None);
        self.tx("alice", SMsg::FmPosCreate { id: Some("a".into()), dur: DAY, receiver: None }, vec![(lp.clone(), 1000)]);
        let t0 = self.sim.block().time.seconds();
        let d = self.epoch_secs();
        let cur = self.sim.current_epoch().unwrap_or(0);
        self.mk_farm("bob", &lp, "uusd", 1000, 4, Some("old".into()), 1); // epochs cur+1 .. cur+5
        let end = cur + 5;
        let exp = self.fm_cfg().farm_expiration_time;
        let g = t0 - (t0 % d).min(0); // epoch 0 starts at genesis = t0 in these scenarios
        let probes = [g + end * d + exp - 10, g + end * d + exp + d / 2, g + (end + 1) * d + exp - 5, g + (end + 1) * d + exp + 5];
        for (i, t) in probes.iter().enumerate() {
            let now = self.sim.block().time.seconds();
            if *t > now { self.advance(*t - now); }
            self.q_rewards("alice", None);
            self.mk_farm("carol", &lp, "uom", 1000, 2, Some(format!("n{}", i)), 1);
        }
        self.tx("alice", SMsg::FmClaim(None), vec![]);
    }

    /// emergency withdrawal: who shares the penalty (exhausted farm, farms beyond the tenth, future farms)
    fn probe_penalty_split(&mut self) {
        let Some(p) = self.mk_pool("a", &[("uom", 6), ("uusd", 6)], None, Self::std_fees()) else { return; };
        let lp = self.lp_of(&p);
        self.plain_provide("alice", &p, vec![("uom".into(), 1_000_000_000), ("uusd".into(), 1_000_000_000)], None);
        let owner = self.current_owner("FM");
        let mut u = SFmUpdate::default(); u.max_farms = Some(13);
        self.tx(&owner, SMsg::FmUpdateConfig(u), vec![]);
        self.tx("alice", SMsg::FmPosCreate { id: Some("a".into()), dur: 30 * DAY, receiver: None }, vec![(lp.clone(), 1000)]);
        self.tx("alice", SMsg::FmPosCreate { id: Some("b".into()), dur: 30 * DAY, receiver: None }, vec![(lp.clone(), 1000)]);
        self.tx("alice", SMsg::FmPosCreate { id: Some("c".into()), dur: 30 * DAY, receiver: None }, vec![(lp.clone(), 1000)]);
        self.mk_farm("bob", &lp, "uusd", 1000, 2, Some("short".into()), 1); // epochs 1..3: emissions at 1 and 2
        self.next_epoch();
        self.next_epoch(); // epoch 2
        self.tx("alice", SMsg::FmClaim(None), vec![]); // the whole budget is claimed
        self.tx("alice", SMsg::FmPosWithdraw("u-a".into(), Some(true)), vec![]);
        // ten farms that start later, and one active farm whose identifier sorts after them
        for i in 0..10u32 { self.mk_farm("carol", &lp, "uom", 1000, 2, Some(format!("a{:02}", i)), 9); }
        self.mk_farm("bob", &lp, "uusd", 1000, 3, Some("z-active".into()), 1);
        self.next_epoch();
        self.tx("alice", SMsg::FmPosWithdraw("u-b".into(), Some(true)), vec![]);
        self.next_epoch();
        self.tx("alice", SMsg::FmPosWithdraw("u-c".into(), Some(true)), vec![]);
    }

    /// shares with no finite decimal expansion, tiny and huge emissions
    fn probe_thirds(&mut self) {
        let Some(p) = self.mk_pool("a", &[("uom", 6), ("uusd", 6)], None, Self::std_fees()) else { return; };
        let lp = self.lp_of(&p);
        for u in ["alice", "bob", "carol"] {
            self.plain_provide(u, &p, vec![("uom".into(), 1_000_000_000), ("uusd".into(), 1_000_000_000)], None);
            self.tx(u, SMsg::FmPosCreate { id: None, dur: DAY, receiver: None }, vec![(lp.clone(), 1000)]);
        }
        self.mk_farm("owner", &lp, "uusd", 3000, 4, Some("t".into()), 1);
        self.mk_farm("owner", &lp, "aweth", 10u128.pow(24) + 1, 4, Some("h".into()), 1);
        self.mk_farm("owner", &lp, "uusdc", 7, 4, Some("d".into()), 1);
        for _ in 0..3 {
            self.next_epoch();
            for u in ["alice", "bob", "carol"] { self.q_rewards(u, None); }
            self.tx("alice", SMsg::FmClaim(None), vec![]);
        }
        self.tx("bob", SMsg::FmClaim(None), vec![]);
        self.next_epoch();
        self.next_epoch();
        for u in ["alice", "bob", "carol"] { self.tx(u, SMsg::FmClaim(None), vec![]); }
    }

    /// the open-positions limit, reached directly and through the pool manager
    fn probe_position_limit(&mut self) {
        let Some(p) = self.mk_pool("a", &[("uom", 6), ("uusd", 6)], None, Self::std_fees()) else { return; };
        let Some(q) = self.mk_pool("b", &[("uusdc", 6), ("uusd", 6)], None, Self::std_fees()) else { return; };
        let (lp, lq) = (self.lp_of(&p), self.lp_of(&q));
        self.plain_provide("alice", &p, vec![("uom".into(), 1_000_000_000), ("uusd".into(), 1_000_000_000)], None);
        self.plain_provide("bob", &q, vec![("uusdc".into(), 1_000_000_000), ("uusd".into(), 1_000_000_000)], None);
        self.tx("bob", SMsg::FmPosCreate { id: Some("w".into()), dur: DAY, receiver: None }, vec![(lq.clone(), 1000)]);
        self.mk_farm("carol", &lq, "uom", 1000, 6, Some("fq".into()), 1);
        for i in 0..10u32 { self.tx("alice", SMsg::FmPosCreate { id: Some(format!("k{:02}", i)), dur: DAY, receiver: None }, vec![(lp.clone(), 100)]); }
        // the eleventh, through every door
        self.tx("alice", SMsg::PmProvide { liq_slip: None, swap_slip: None, receiver: None, pool: q.clone(), unlock: Some(DAY), lock_id: Some("zz".into()) }, vec![("uusdc".into(), 50_000), ("uusd".into(), 50_000)]);
        self.tx("alice", SMsg::PmProvide { liq_slip: None, swap_slip: Some(DEC / 2), receiver: None, pool: q.clone(), unlock: Some(DAY), lock_id: None }, vec![("uusd".into(), 50_001)]);
        self.tx("alice", SMsg::FmPosCreate { id: Some("zy".into()), dur: DAY, receiver: None }, vec![(lp.clone(), 100)]);
        self.tx("bob", SMsg::FmPosCreate { id: Some("zx".into()), dur: DAY, receiver: Some("alice".into()) }, vec![(lq.clone(), 100)]);
        for _ in 0..2 { self.next_epoch(); self.q_rewards("alice", None); self.q_rewards("bob", None); self.tx("alice", SMsg::FmClaim(None), vec![]); }
        self.tx("alice", SMsg::FmPosClose("u-k00".into(), None), vec![]);
        self.tx("alice", SMsg::PmProvide { liq_slip: None, swap_slip: None, receiver: None, pool: q.clone(), unlock: Some(DAY), lock_id: Some("zz".into()) }, vec![("uusdc".into(), 50_000), ("uusd".into(), 50_000)]);
        self.next_epoch();
        self.q_rewards("alice", None);
        self.tx("alice", SMsg::FmClaim(None), vec![]);
    }

    /// identifiers meeting objects of the same or a related name: the same explicit farm identifier on two LP denoms by
    /// different owners (and on the same one), explicit position identifiers reused by another user, positions addressed
    /// by their bare (un-prefixed) name or by the other prefix, explicit names that look like generated ones, the same
    /// pool identifier for both pool types; then the closes / withdrawals / refunds by each party
    fn probe_identifier_namespaces(&mut self) {
        let Some(p) = self.mk_pool("a", &[("uom", 6), ("uusd", 6)], None, Self::std_fees()) else { return; };
        let Some(q) = self.mk_pool("b", &[("uusdc", 6), ("uusd", 6)], None, Self::std_fees()) else { return; };
        // the same identifiers again, for either pool type, and names that look like generated ones
        self.mk_pool("a", &[("uusdc", 6), ("uom", 6)], None, Self::std_fees());
        self.mk_pool("b", &[("uusdc", 6), ("uom", 6)], Some(100), Self::std_fees());
        self.mk_pool("1", &[("ubtc", 8), ("uom", 6)], None, Self::std_fees());
        let (lp, lq) = (self.lp_of(&p), self.lp_of(&q));
        for u in ["alice", "bob", "carol"] {
            self.plain_provide(u, &p, vec![("uom".into(), 1_000_000_000), ("uusd".into(), 1_000_000_000)], None);
            self.plain_provide(u, &q, vec![("uusdc".into(), 1_000_000_000), ("uusd".into(), 1_000_000_000)], None);
        }
        let k = 1 + self.rng.below(4) as u128;
        // farms: one name, two LP denoms, two owners
        self.mk_farm("alice", &lp, "uusdc", 500 * k, 8, Some("farm".into()), 1);
        self.mk_farm("bob", &lq, "uom", 1000 * k, 8, Some("farm".into()), 1);
        self.mk_farm("bob", &lp, "uom", 1000 * k, 8, Some("farm".into()), 1);
        self.mk_farm("bob", &lq, "uom", 1000 * k, 8, Some("m-farm".into()), 1);
        self.mk_farm("carol", &lq, "uom", 700 * k, 8, None, 1);
        self.mk_farm("carol", &lq, "uom", 700 * k, 8, Some("1".into()), 1);
        // positions: one name, two users; bare names, the other prefix, names that look like generated ones
        self.tx("alice", SMsg::FmPosCreate { id: Some("vault".into()), dur: DAY, receiver: None }, vec![(lp.clone(), 10_000 * k)]);
        self.tx("bob", SMsg::FmPosCreate { id: None, dur: DAY, receiver: None }, vec![(lp.clone(), 10_000 * k)]);
        self.tx("bob", SMsg::FmPosCreate { id: Some("vault".into()), dur: DAY, receiver: None }, vec![(lp.clone(), 5_000)]);
        self.tx("bob", SMsg::FmPosCreate { id: Some("u-vault".into()), dur: DAY, receiver: None }, vec![(lq.clone(), 5_000)]);
        self.tx("carol", SMsg::FmPosCreate { id: Some("p-1".into()), dur: DAY, receiver: None }, vec![(lq.clone(), 5_000)]);
        self.tx("carol", SMsg::FmPosCreate { id: Some("1".into()), dur: DAY, receiver: None }, vec![(lq.clone(), 5_000)]);
        self.tx("carol", SMsg::FmPosCreate { id: None, dur: DAY, receiver: None }, vec![(lq.clone(), 5_000)]);
        self.tx("alice", SMsg::PmProvide { liq_slip: None, swap_slip: None, receiver: None, pool: p.clone(), unlock: Some(DAY), lock_id: Some("vault".into()) }, vec![("uom".into(), 50_000), ("uusd".into(), 50_000)]);
        self.tx("alice", SMsg::PmProvide { liq_slip: None, swap_slip: None, receiver: None, pool: p.clone(), unlock: Some(DAY), lock_id: Some("u-vault".into()) }, vec![("uom".into(), 50_000), ("uusd".into(), 50_000)]);
        self.tx("bob", SMsg::PmProvide { liq_slip: None, swap_slip: None, receiver: None, pool: p.clone(), unlock: Some(DAY), lock_id: Some("vault".into()) }, vec![("uom".into(), 50_000), ("uusd".into(), 50_000)]);
        self.tx("alice", SMsg::FmPosExpand("vault".into()), vec![(lp.clone(), 100)]);
        self.tx("alice", SMsg::FmPosExpand("u-vault".into()), vec![(lp.clone(), 100)]);
        self.next_epoch();
        self.next_epoch();
        for u in ["alice", "bob", "carol"] { self.q_rewards(u, None); self.tx(u, SMsg::FmClaim(None), vec![]); }
        self.tx("alice", SMsg::FmPosClose("vault".into(), None), vec![]);
        self.tx("alice", SMsg::FmPosClose("p-vault".into(), None), vec![]);
        self.tx("alice", SMsg::FmPosClose("u-vault".into(), None), vec![]);
        self.tx("bob", SMsg::FmPosClose("1".into(), None), vec![]);
        self.tx("bob", SMsg::FmPosClose("p-1".into(), None), vec![]);
        self.advance(DAY + 1);
        for _ in 0..2 { self.tx("alice", SMsg::FmPosWithdraw("vault".into(), None), vec![]); }
        self.tx("alice", SMsg::FmPosWithdraw("u-vault".into(), None), vec![]);
        self.tx("alice", SMsg::FmPosWithdraw("u-vault".into(), None), vec![]);
        self.tx("bob", SMsg::FmPosWithdraw("1".into(), None), vec![]);
        self.tx("bob", SMsg::FmPosWithdraw("p-1".into(), None), vec![]);
        self.tx("carol", SMsg::FmPosWithdraw("u-p-1".into(), Some(true)), vec![]);
        // the farms again: each owner closes under the shared name; the other must not be able to
        self.tx("bob", SMsg::FmCloseFarm("m-farm".into()), vec![]);
        self.tx("alice", SMsg::FmCloseFarm("farm".into()), vec![]);
        self.tx("alice", SMsg::FmCloseFarm("m-farm".into()), vec![]);
        self.tx("bob", SMsg::FmCloseFarm("m-m-farm".into()), vec![]);
        self.tx("carol", SMsg::FmCloseFarm("f-1".into()), vec![]);
        self.tx("carol", SMsg::FmCloseFarm("m-1".into()), vec![]);
        for u in ["alice", "bob", "carol"] { self.q_rewards(u, None); self.tx(u, SMsg::FmClaim(None), vec![]); }
    }

    /// configuration values outside the ranges the code silently relies on: unlocking bounds widened beyond one day … one
    /// year (the weight curve's domain), then narrowed to a point; penalty at its extremes; expiration and epoch buffer at
    /// their minima; the farm limit raised; each followed by positions at and beyond the old bounds, expansions, partial
    /// closes, emergency exits (the penalty multiplies with the weight) and claims
    fn probe_config_extremes(&mut self) {
        let Some(p) = self.mk_pool("a", &[("uom", 6), ("uusd", 6)], None, Self::std_fees()) else { return; };
        let lp = self.lp_of(&p);
        for u in ["alice", "bob", "carol"] { self.plain_provide(u, &p, vec![("uom".into(), 1_000_000_000), ("uusd".into(), 1_000_000_000)], None); }
        let owner = self.current_owner("FM");
        self.mk_farm("carol", &lp, "uusdc", 1000, 8, Some("f".into()), 1);
        let k = 1 + self.rng.below(5) as u128;
        let year = 31_556_926u64;
        let mut u = SFmUpdate::default(); u.min_unlock = Some(3600); u.max_unlock = Some(2 * year);
        self.tx(&owner, SMsg::FmUpdateConfig(u), vec![]);
        for (i, dur) in [year, year + 1, 2 * year, DAY, DAY - 1, 3600, 3599, 2 * year + 1].iter().enumerate() {
            self.tx("alice", SMsg::FmPosCreate { id: Some(format!("d{}", i)), dur: *dur, receiver: None }, vec![(lp.clone(), 1000 * k)]);
        }
        self.tx("alice", SMsg::PmProvide { liq_slip: None, swap_slip: None, receiver: None, pool: p.clone(), unlock: Some(2 * year), lock_id: Some("pm2y".into()) }, vec![("uom".into(), 50_000), ("uusd".into(), 50_000)]);
        self.tx("alice", SMsg::PmProvide { liq_slip: None, swap_slip: None, receiver: None, pool: p.clone(), unlock: Some(3600), lock_id: None }, vec![("uom".into(), 50_000), ("uusd".into(), 50_000)]);
        self.tx("bob", SMsg::FmPosCreate { id: Some("b".into()), dur: DAY, receiver: None }, vec![(lp.clone(), 1000 * k)]);
        self.next_epoch();
        self.q_rewards("alice", None); self.q_rewards("bob", None);
        self.tx("alice", SMsg::FmClaim(None), vec![]);
        // the bounds narrowed to a point below the existing positions' durations; penalty at both extremes
        let mut u = SFmUpdate::default(); u.min_unlock = Some(2 * DAY); u.max_unlock = Some(2 * DAY); u.penalty = Some(DEC);
        self.tx(&owner, SMsg::FmUpdateConfig(u), vec![]);
        let mut u = SFmUpdate::default(); u.penalty = Some(DEC + 1);
        self.tx(&owner, SMsg::FmUpdateConfig(u), vec![]);
        self.tx("alice", SMsg::FmPosExpand("u-d0".into()), vec![(lp.clone(), 500)]);
        self.tx("alice", SMsg::FmPosExpand("u-d2".into()), vec![(lp.clone(), 500)]);
        self.tx("alice", SMsg::FmPosClose("u-d0".into(), Some((lp.clone(), 300))), vec![]);
        self.tx("alice", SMsg::FmPosClose("u-d2".into(), Some((lp.clone(), 300))), vec![]);
        self.tx("alice", SMsg::FmPosWithdraw("u-d0".into(), Some(true)), vec![]);
        self.tx("alice", SMsg::FmPosWithdraw("u-d2".into(), Some(true)), vec![]);
        self.tx("alice", SMsg::FmPosWithdraw("u-d3".into(), Some(true)), vec![]);
        self.tx("bob", SMsg::FmPosCreate { id: Some("b2".into()), dur: 2 * DAY, receiver: None }, vec![(lp.clone(), 1000)]);
        let mut u = SFmUpdate::default(); u.penalty = Some(0); u.expiration = Some(0); u.epoch_buffer = Some(0); u.max_farms = Some(1);
        self.tx(&owner, SMsg::FmUpdateConfig(u), vec![]);
        let mut u = SFmUpdate::default(); u.penalty = Some(0); u.max_farms = Some(101); u.epoch_buffer = Some(1);
        self.tx(&owner, SMsg::FmUpdateConfig(u), vec![]);
        self.tx("bob", SMsg::FmPosWithdraw("u-b".into(), Some(true)), vec![]);
        self.mk_farm("bob", &lp, "uom", 1000, 4, Some("g".into()), 1);
        self.mk_farm("bob", &lp, "uom", 1000, 4, Some("h".into()), 3);
        for _ in 0..2 { self.next_epoch(); for w in ["alice", "bob"] { self.q_rewards(w, None); self.tx(w, SMsg::FmClaim(None), vec![]); } }
        self.tx("alice", SMsg::FmPosClose("u-pm2y".into(), None), vec![]);
        self.tx("alice", SMsg::FmPosWithdraw("u-pm2y".into(), Some(true)), vec![]);
    }

    /// 18-decimals magnitudes in the reward arithmetic: LP weights and per-epoch emissions of 10^21 … 10^25, so that
    /// emission x weight is far beyond 2^128 (the share must be computed in 256 bits); two and three stakers with
    /// weight ratios 1:3 and 1:3:16, queries before every claim, claims split with until_epoch, an expansion, a close
    fn probe_big_rewards(&mut self) {
        let Some(p) = self.mk_pool("a", &[("aweth", 18), ("uusd", 6)], None, Self::std_fees()) else { return; };
        let lp = self.lp_of(&p);
        let big = 10u128.pow(24);
        for u in ["alice", "bob", "carol"] { self.plain_provide(u, &p, vec![("aweth".into(), 40 * big), ("uusd".into(), 40 * big)], None); }
        let k = 1 + self.rng.below(3) as u128;
        self.tx("alice", SMsg::FmPosCreate { id: Some("a".into()), dur: DAY, receiver: None }, vec![(lp.clone(), k * big / 1000)]);
        self.tx("bob", SMsg::FmPosCreate { id: Some("b".into()), dur: DAY, receiver: None }, vec![(lp.clone(), 3 * k * big / 1000)]);
        self.mk_farm("carol", &lp, "aweth", k * big / 1000, 6, Some("w".into()), 1);
        self.mk_farm("carol", &lp, "uom", 10 * big + 7, 6, Some("x".into()), 2);
        self.next_epoch();
        self.next_epoch();
        self.q_rewards("alice", None); self.q_rewards("bob", None);
        self.q_rewards("bob", Some(1));
        self.tx("bob", SMsg::FmClaim(Some(1)), vec![]);
        self.q_rewards("bob", None);
        self.tx("bob", SMsg::FmClaim(None), vec![]);
        self.tx("carol", SMsg::FmPosCreate { id: Some("c".into()), dur: 31_556_926, receiver: None }, vec![(lp.clone(), k * big)]);
        self.tx("alice", SMsg::FmPosExpand("u-a".into()), vec![(lp.clone(), big)]);
        self.next_epoch();
        for u in ["alice", "bob", "carol"] { self.q_rewards(u, None); self.tx(u, SMsg::FmClaim(None), vec![]); }
        self.next_epoch();
        self.q_rewards("alice", None);
        self.tx("alice", SMsg::FmPosClose("u-a".into(), None), vec![]);
        self.tx("alice", SMsg::FmClaim(None), vec![]);
        self.tx("alice", SMsg::FmPosClose("u-a".into(), Some((lp.clone(), big / 3))), vec![]);
        for _ in 0..3 { self.next_epoch(); }
        for u in ["alice", "bob", "carol"] { self.q_rewards(u, None); self.tx(u, SMsg::FmClaim(None), vec![]); }
        self.tx("carol", SMsg::FmCloseFarm("m-w".into()), vec![]);
        self.tx("carol", SMsg::FmCloseFarm("m-x".into()), vec![]);
    }

    /// a farm driven to (and past) the end of its budget: a user's weight inflated by the until_epoch synchronisation
    /// (finding F-until) makes a multi-epoch claim whose sum exceeds the remainder while no single epoch does; then the
    /// other stakers' claims, a closing of the farm and the withdrawals
    fn probe_exhaustion(&mut self) {
        let Some(p) = self.mk_pool("a", &[("uom", 6), ("uusd", 6)], None, Self::std_fees()) else { return; };
        let lp = self.lp_of(&p);
        for u in ["alice", "bob", "carol"] { self.plain_provide(u, &p, vec![("uom".into(), 1_000_000_000), ("uusd".into(), 1_000_000_000)], None); }
        let k = 1 + self.rng.below(3) as u128;
        self.tx("alice", SMsg::FmPosCreate { id: Some("a".into()), dur: DAY, receiver: None }, vec![(lp.clone(), 1000 * k)]);
        self.tx("bob", SMsg::FmPosCreate { id: Some("b".into()), dur: DAY, receiver: None }, vec![(lp.clone(), 1000 * k)]);
        self.mk_farm("carol", &lp, "uusdc", 1000, 8, Some("f".into()), 1);
        self.mk_farm("carol", &lp, "uom", 1_000_003, 3, Some("g".into()), 8);      // pays only after the inflated span
        // a second, large farm on another LP denom paying the same token: its funds are what an overpayment would draw on
        if let Some(q) = self.mk_pool("b", &[("uusdc", 6), ("uusd", 6)], None, Self::std_fees()) {
            let lq = self.lp_of(&q);
            self.plain_provide("carol", &q, vec![("uusdc".into(), 1_000_000_000), ("uusd".into(), 1_000_000_000)], None);
            self.tx("carol", SMsg::FmPosCreate { id: Some("c".into()), dur: DAY, receiver: None }, vec![(lq.clone(), 1000)]);
            self.mk_farm("owner", &lq, "uusdc", 12_500, 8, Some("h".into()), 1);
        }
        for _ in 0..6 { self.next_epoch(); }
        self.q_rewards("alice", None);
        self.tx("alice", SMsg::FmPosExpand("u-a".into()), vec![(lp.clone(), 9000 * k)]);
        self.q_rewards("alice", Some(1));
        self.tx("alice", SMsg::FmClaim(Some(1)), vec![]);
        self.q_rewards("alice", None);
        self.tx("alice", SMsg::FmClaim(None), vec![]);      // sum over the epochs exceeds what is left: refused
        self.q_rewards("bob", None);
        self.tx("bob", SMsg::FmClaim(None), vec![]);
        self.next_epoch();
        self.q_rewards("alice", None);
        self.tx("alice", SMsg::FmClaim(None), vec![]);
        self.tx("bob", SMsg::FmClaim(Some(7)), vec![]);
        self.next_epoch();
        self.tx("bob", SMsg::FmClaim(None), vec![]);
        self.tx("alice", SMsg::FmClaim(None), vec![]);
        self.tx("carol", SMsg::FmCloseFarm("m-f".into()), vec![]);
        self.tx("carol", SMsg::FmCloseFarm("m-g".into()), vec![]);
        self.tx("alice", SMsg::FmPosWithdraw("u-a".into(), Some(true)), vec![]);
        self.tx("bob", SMsg::FmPosWithdraw("u-b".into(), Some(true)), vec![]);
    }

    /// every position operation against every position state: open, closed and still locked, closed and unlocked, split off by
    /// a partial close, withdrawn; by the owner and by somebody else; full, equal-amount, smaller and larger amounts
    fn probe_position_states(&mut self) {
        let Some(p) = self.mk_pool("a", &[("uom", 6), ("uusd", 6)], None, Self::std_fees()) else { return; };
        let lp = self.lp_of(&p);
        for u in ["alice", "bob", "carol"] { self.plain_provide(u, &p, vec![("uom".into(), 1_000_000_000), ("uusd".into(), 1_000_000_000)], None); }
        let a = 1000 + (self.rng.below(9) as u128) * 111;
        self.tx("alice", SMsg::FmPosCreate { id: Some("a".into()), dur: DAY, receiver: None }, vec![(lp.clone(), a)]);
        self.tx("alice", SMsg::FmPosCreate { id: Some("a2".into()), dur: 2 * DAY, receiver: None }, vec![(lp.clone(), a)]);
        self.tx("bob", SMsg::FmPosCreate { id: Some("b".into()), dur: DAY, receiver: None }, vec![(lp.clone(), 2 * a)]);
        self.mk_farm("carol", &lp, "uusdc", 2000, 8, Some("f".into()), 1);
        self.next_epoch();
        self.tx("alice", SMsg::FmClaim(None), vec![]);
        // close in full, then every operation on the closed (still locked) position
        self.tx("alice", SMsg::FmPosClose("u-a".into(), None), vec![]);
        self.tx("alice", SMsg::FmPosClose("u-a".into(), None), vec![]);
        self.tx("alice", SMsg::FmPosClose("u-a".into(), Some((lp.clone(), a))), vec![]);
        self.tx("alice", SMsg::FmPosClose("u-a".into(), Some((lp.clone(), a / 3))), vec![]);
        self.tx("alice", SMsg::FmPosClose("u-a".into(), Some((lp.clone(), a + 1))), vec![]);
        self.tx("bob", SMsg::FmPosClose("u-a".into(), Some((lp.clone(), a / 3))), vec![]);
        self.tx("alice", SMsg::FmPosExpand("u-a".into()), vec![(lp.clone(), 10)]);
        self.tx("alice", SMsg::FmPosWithdraw("u-a".into(), None), vec![]);
        self.next_epoch();
        self.q_rewards("bob", None);
        self.tx("bob", SMsg::FmClaim(None), vec![]);
        self.tx("alice", SMsg::FmClaim(None), vec![]);
        // a partial close splits off a closed position with a generated identifier: the same operations on it
        self.tx("alice", SMsg::FmPosClose("u-a2".into(), Some((lp.clone(), a / 2))), vec![]);
        let split: Vec<String> = self.sim.positions().iter().filter(|x| !x.open && x.identifier.starts_with("p-")).map(|x| x.identifier.clone()).collect();
        for id in split.iter() {
            self.tx("alice", SMsg::FmPosClose(id.clone(), Some((lp.clone(), a / 5))), vec![]);
            self.tx("alice", SMsg::FmPosClose(id.clone(), None), vec![]);
            self.tx("alice", SMsg::FmPosExpand(id.clone()), vec![(lp.clone(), 10)]);
        }
        self.next_epoch();
        self.q_rewards("bob", None);
        self.tx("bob", SMsg::FmClaim(None), vec![]);
        // unlocked now: withdraw, then every operation on the withdrawn position
        self.advance(DAY);
        self.tx("bob", SMsg::FmPosWithdraw("u-a".into(), None), vec![]);
        self.tx("alice", SMsg::FmPosWithdraw("u-a".into(), None), vec![]);
        self.tx("alice", SMsg::FmPosWithdraw("u-a".into(), Some(true)), vec![]);
        self.tx("alice", SMsg::FmPosClose("u-a".into(), Some((lp.clone(), a / 3))), vec![]);
        self.tx("alice", SMsg::FmPosExpand("u-a".into()), vec![(lp.clone(), 10)]);
        for id in split.iter() { self.tx("alice", SMsg::FmPosWithdraw(id.clone(), Some(true)), vec![]); }
        self.tx("alice", SMsg::FmClaim(None), vec![]);
        self.tx("alice", SMsg::FmPosWithdraw("u-a2".into(), Some(true)), vec![]);
        self.next_epoch();
        self.q_rewards("bob", None);
        self.tx("bob", SMsg::FmClaim(None), vec![]);
        self.tx("bob", SMsg::FmPosClose("u-b".into(), Some((lp.clone(), a))), vec![]);
        self.tx("bob", SMsg::FmPosClose("u-b".into(), Some((lp.clone(), a))), vec![]);
    }

    /// claims that pay nothing, in the opening epoch and later; until_epoch claims around an expansion
    fn probe_empty_claims(&mut self) {
        let Some(p) = self.mk_pool("a", &[("uom", 6), ("uusd", 6)], None, Self::std_fees()) else { return; };
        let Some(q) = self.mk_pool("b", &[("uusdc", 6), ("uusd", 6)], None, Self::std_fees()) else { return; };
        let (lp, lq) = (self.lp_of(&p), self.lp_of(&q));
        for u in ["alice", "bob", "carol"] { self.plain_provide(u, &p, vec![("uom".into(), 1_000_000_000), ("uusd".into(), 1_000_000_000)], None); }
        self.plain_provide("carol", &q, vec![("uusdc".into(), 1_000_000_000), ("uusd".into(), 1_000_000_000)], None);
        self.tx("carol", SMsg::FmPosCreate { id: Some("c".into()), dur: DAY, receiver: None }, vec![(lp.clone(), 1000)]);
        self.tx("carol", SMsg::FmPosCreate { id: Some("cq".into()), dur: DAY, receiver: None }, vec![(lq.clone(), 1000)]);
        self.mk_farm("owner", &lp, "uusd", 1000, 8, Some("f".into()), 1);
        self.mk_farm("owner", &lq, "uusd", 12_500, 8, Some("g".into()), 1);
        for _ in 0..5 { self.next_epoch(); }
        self.tx("bob", SMsg::FmPosCreate { id: Some("b".into()), dur: DAY, receiver: None }, vec![(lp.clone(), 1000)]);
        self.tx("bob", SMsg::FmClaim(None), vec![]); // pays nothing
        self.tx("alice", SMsg::FmPosCreate { id: Some("a".into()), dur: DAY, receiver: None }, vec![(lp.clone(), 1000)]);
        self.next_epoch();
        self.q_rewards("bob", None);
        self.tx("bob", SMsg::FmClaim(None), vec![]);
        self.tx("alice", SMsg::FmPosExpand("u-a".into()), vec![(lp.clone(), 9000)]);
        self.next_epoch();
        self.q_rewards("alice", None);
        self.tx("alice", SMsg::FmClaim(None), vec![]);
        self.tx("carol", SMsg::FmClaim(None), vec![]);
        self.next_epoch();
        for u in ["alice", "bob", "carol"] { self.q_rewards(u, None); self.tx(u, SMsg::FmClaim(None), vec![]); }
        self.tx("owner", SMsg::FmCloseFarm("m-g".into()), vec![]);
    }

    /// weights with fractional multipliers closed in pieces; unlocking bounds changed while positions exist
    fn probe_fractional_weights(&mut self) {
        let Some(p) = self.mk_pool("a", &[("uom", 6), ("uusd", 6)], None, Self::std_fees()) else { return; };
        let lp = self.lp_of(&p);
        for u in ["alice", "bob", "carol"] { self.plain_provide(u, &p, vec![("uom".into(), 1_000_000_000), ("uusd".into(), 1_000_000_000)], None); }
        self.mk_farm("owner", &lp, "uusd", 10_000, 8, Some("f".into()), 1);
        let dur = *self.rng.pick(&[15_778_463u64, 7_000_001, 20_000_003]);
        self.tx("alice", SMsg::FmPosCreate { id: Some("a".into()), dur, receiver: None }, vec![(lp.clone(), 2)]);
        self.tx("alice", SMsg::FmPosClose("u-a".into(), Some((lp.clone(), 1))), vec![]);
        self.tx("alice", SMsg::FmPosClose("u-a".into(), None), vec![]);
        self.tx("bob", SMsg::FmPosCreate { id: Some("b".into()), dur: DAY, receiver: None }, vec![(lp.clone(), 1000)]);
        self.tx("bob", SMsg::FmPosCreate { id: Some("b2".into()), dur: DAY, receiver: None }, vec![(lp.clone(), 1000)]);
        self.tx("carol", SMsg::FmPosCreate { id: Some("c".into()), dur: 31_556_926, receiver: None }, vec![(lp.clone(), 1000)]);
        self.next_epoch();
        let owner = self.current_owner("FM");
        let mut u = SFmUpdate::default(); u.min_unlock = Some(15_778_476); u.max_unlock = Some(15_778_476);
        self.tx(&owner, SMsg::FmUpdateConfig(u), vec![]);
        self.tx("bob", SMsg::FmPosClose("u-b".into(), None), vec![]);
        self.tx("bob", SMsg::FmPosWithdraw("u-b2".into(), Some(true)), vec![]);
        self.tx("carol", SMsg::FmPosExpand("u-c".into()), vec![(lp.clone(), 500)]);
        self.tx("carol", SMsg::FmPosClose("u-c".into(), Some((lp.clone(), 700))), vec![]);
        self.next_epoch();
        for u in ["alice", "bob", "carol"] { self.q_rewards(u, None); self.tx(u, SMsg::FmClaim(None), vec![]); }
    }

    /// refunds of closed farms that fail: one owner with several expired farms, native reward denoms, manual and
    /// automatic closing, every position of the failing bank call
    fn probe_failing_refunds(&mut self) {
        let Some(p) = self.mk_pool("a", &[("uom", 6), ("uusd", 6)], None, Self::std_fees()) else { return; };
        let lp = self.lp_of(&p);
        self.plain_provide("alice", &p, vec![("uom".into(), 1_000_000_000), ("uusd".into(), 1_000_000_000)], None);
        self.tx("alice", SMsg::FmPosCreate { id: Some("a".into()), dur: DAY, receiver: None }, vec![(lp.clone(), 1000)]);
        let fee_denom = self.sim.sym(&self.fm_cfg().create_farm_fee.denom);
        let which = self.rng.below(3);
        self.mk_farm("bob", &lp, "uusdc", 2000, 2, Some("x1".into()), 1);
        self.mk_farm("bob", &lp, &fee_denom, 1000, 2, Some("x2".into()), 1);
        self.next_epoch();
        let d = self.epoch_secs();
        match which {
            0 => {
                // manual close with the refund failing
                let k = self.rng.below(3);
                self.push(SOp::SetFault(k));
                self.tx("bob", SMsg::FmCloseFarm("m-x2".into()), vec![]);
                self.push(SOp::SetFault(k));
                self.tx("bob", SMsg::FmCloseFarm("m-x1".into()), vec![]);
            }
            _ => {
                // both expire; a third party's creation sweeps them, one bank call of that transaction failing
                self.advance(d * 45);
                let k = self.rng.below(6);
                self.push(SOp::SetFault(k));
                self.mk_farm("carol", &lp, "uom", 1000, 2, Some("n".into()), 1);
                self.mk_farm("carol", &lp, "uom", 1000, 2, Some("n2".into()), 1);
            }
        }
        self.tx("alice", SMsg::FmClaim(None), vec![]);
    }

    /// very large 18-decimals reserves: withdrawals of awkward fractions; stableswap pools of 6/8 and >18 decimals
    fn probe_big_and_decimals(&mut self) {
        let Some(p) = self.mk_pool("w", &[("aweth", 18), ("uom", 6)], None, Self::std_fees()) else { return; };
        let lp = self.lp_of(&p);
        self.plain_provide("alice", &p, vec![("aweth".into(), 4_000_003 * 10u128.pow(18) + 12_345), ("uom".into(), 4_000_000 * 10u128.pow(6))], None);
        self.plain_provide("bob", &p, vec![("aweth".into(), 1_333_333 * 10u128.pow(18) + 7), ("uom".into(), 1_333_333 * 10u128.pow(6))], None);
        let bal = self.sim.balance("bob", &lp);
        for part in [bal / 3, bal / 7, 1, bal / 1_000_003] { if part > 0 { self.tx("bob", SMsg::PmWithdraw { pool: p.clone() }, vec![(lp.clone(), part)]); } }
        let Some(s) = self.mk_pool("m", &[("uusd", 6), ("ubtc", 8)], Some(100), Self::zero_fees()) else { return; };
        self.plain_provide("alice", &s, vec![("uusd".into(), 1_000_000 * 10u128.pow(6)), ("ubtc".into(), 1_000_000 * 10u128.pow(8))], None);
        self.swap_to("carol", &s, ("ubtc".into(), 1_000 * 10u128.pow(8)), "uusd");
        self.swap_to("carol", &s, ("uusd".into(), 1_000 * 10u128.pow(6)), "ubtc");
        self.query(SQuery::ReverseSimulation { ask: ("uusd".into(), 10u128.pow(9)), offer_denom: "ubtc".into(), pool: s.clone() });
        if let Some(x) = self.mk_pool("z", &[("uusd", 6), ("aweth", 24)], Some(100), Self::zero_fees()) {
            self.plain_provide("alice", &x, vec![("uusd".into(), 1_000 * 10u128.pow(6)), ("aweth".into(), 1_000 * 10u128.pow(24))], None);
            self.swap_to("carol", &x, ("aweth".into(), 10u128.pow(24)), "uusd");
            self.swap_to("carol", &x, ("uusd".into(), 10u128.pow(6)), "aweth");
            self.drain(&x);
        }
        self.drain(&p);
    }
}

pub fn generate_probes(seed: u64, count: usize) -> Family {
    let mut fam = Family::new(
        "probe-scn",
        "From MD.Model Require Import Base Ownable Epoch PoolMath Types PoolManager FarmManager Chain CasesChain.",
        "chain_case",
        "run_chain_case",
        "deterministic probe scripts, one per narrow situation (asset order after a slippage-protected deposit, foreign lock identifiers, malformed route junctions, extra fees, all feature-switch combinations, single-asset corner cases, farm funds in the fee denom, expiry windows, penalty sharing, thirds, position limit, empty claims, fractional weights, failing refunds, huge and unusual decimals, every position operation against every position state, a farm driven past the end of its budget, identifiers meeting objects of the same or a related name, configuration values outside the ranges the code relies on, 18-decimals magnitudes in the reward arithmetic); amounts vary with the PRNG; full canonical snapshot compared after every operation",
    );
    type F = fn(&mut Gen);
    let list: Vec<(&str, F)> = vec![
        ("asset-order", Gen::probe_asset_order as F), ("foreign-lock", Gen::probe_foreign_lock as F), ("routes", Gen::probe_routes as F),
        ("extra-fees", Gen::probe_extra_fees as F), ("creation", Gen::probe_creation as F), ("toggles", Gen::probe_toggles as F), ("single-sided", Gen::probe_single_sided as F),
        ("farm-funds", Gen::probe_farm_funds as F), ("expiry-window", Gen::probe_expiry_window as F), ("penalty-split", Gen::probe_penalty_split as F),
        ("thirds", Gen::probe_thirds as F), ("position-limit", Gen::probe_position_limit as F), ("empty-claims", Gen::probe_empty_claims as F),
        ("fractional-weights", Gen::probe_fractional_weights as F), ("failing-refunds", Gen::probe_failing_refunds as F), ("big-and-decimals", Gen::probe_big_and_decimals as F),
        ("position-states", Gen::probe_position_states as F), ("exhaustion", Gen::probe_exhaustion as F), ("identifier-namespaces", Gen::probe_identifier_namespaces as F), ("config-extremes", Gen::probe_config_extremes as F), ("big-rewards", Gen::probe_big_rewards as F),
    ];
    let mut rng = Rng::new(seed ^ 0x9B0B);
    let mut i = 0usize;
    while fam.cases.len() < count {
        let (name, f) = list[i % list.len()];
        i += 1;
        let mut r = rng.fork();
        let fee = *r.pick(&[("uom", 1000u128), ("uusd", 1000), ("uom", 0)]);
        let mut g = finding_genesis(fee, 3);
        g.fm_penalty = *r.pick(&[DEC / 10, DEC / 2]);
        g.base_denoms = vec!["uom".into(), "uusd".into(), "uusdc".into(), "ubtc".into(), "aweth".into()];
        let big = 10u128.pow(34);
        g.balances = g.users.iter().map(|u| (u.clone(), g.base_denoms.iter().map(|d| (d.clone(), big)).collect())).collect();
        let Some((mut gen, g, snap0)) = new_gen_with(&mut r, g) else { continue; };
        f(&mut gen);
        for (k, v) in gen.hist.iter() { fam.count_n(k, *v); }
        fam.count(&format!("probe:{}", name));
        let accepted = gen.ops.iter().zip(gen.oks.iter()).filter(|(o, ok)| **ok && matches!(o, SOp::Tx { .. })).count();
        let mut c = case_of(&gen, &g, &snap0, accepted >= 6);
        c.descr = format!("PROBE {}\n{}", name, c.descr);
        fam.push(c);
        if i > 4 * count + 64 { break; }
    }
    fam
}
