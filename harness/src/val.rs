//! Observation values (mirror of `val` in coq/Model/Base.v) and Coq-term formatting helpers.
use std::fmt::Write;

#[derive(Clone, Debug, PartialEq)]
pub enum Val {
    Z(String),
    S(String),
    L(Vec<Val>),
}

pub fn vz<T: ToString>(x: T) -> Val {
    Val::Z(x.to_string())
}
pub fn vs<T: ToString>(x: T) -> Val {
    Val::S(x.to_string())
}
pub fn vl(xs: Vec<Val>) -> Val {
    Val::L(xs)
}
pub fn vbool(b: bool) -> Val {
    vz(if b { 1 } else { 0 })
}
pub fn vopt<T>(o: Option<T>, f: impl Fn(T) -> Val) -> Val {
    match o {
        None => vl(vec![]),
        Some(x) => vl(vec![f(x)]),
    }
}
pub fn vres<T, E>(r: Result<T, E>, f: impl Fn(T) -> Val) -> Val {
    match r {
        Ok(x) => vl(vec![vz(1), f(x)]),
        Err(_) => vl(vec![vz(0)]),
    }
}

/// Coq string literal (only `"` needs doubling; we never emit non-printable characters)
pub fn cstr(s: &str) -> String {
    let mut o = String::with_capacity(s.len() + 2);
    o.push('"');
    for c in s.chars() {
        if c == '"' {
            o.push_str("\"\"");
        } else {
            o.push(c);
        }
    }
    o.push('"');
    o
}
/// Coq Z literal
pub fn cz<T: ToString>(x: T) -> String {
    let s = x.to_string();
    if s.starts_with('-') {
        format!("({})", s)
    } else {
        s
    }
}
pub fn clist(xs: &[String]) -> String {
    format!("[{}]", xs.join("; "))
}
pub fn copt(o: Option<String>) -> String {
    match o {
        None => "None".to_string(),
        Some(s) => format!("(Some {})", s),
    }
}
pub fn cbool(b: bool) -> String {
    (if b { "true" } else { "false" }).to_string()
}

impl Val {
    pub fn coq(&self) -> String {
        let mut s = String::new();
        self.write(&mut s);
        s
    }
    fn write(&self, o: &mut String) {
        match self {
            Val::Z(z) => {
                let _ = write!(o, "VZ {}", cz(z));
            }
            Val::S(s) => {
                let _ = write!(o, "VS {}", cstr(s));
            }
            Val::L(xs) => {
                o.push_str("VL [");
                for (i, x) in xs.iter().enumerate() {
                    if i > 0 {
                        o.push_str("; ");
                    }
                    x.write(o);
                }
                o.push(']');
            }
        }
    }
}

thread_local! { pub static QUIET: std::cell::Cell<bool> = std::cell::Cell::new(false); }

/// Run a call into contract code; a panic (which aborts the transaction on chain) is reported as None.
pub fn guarded<T>(f: impl FnOnce() -> T) -> Option<T> {
    QUIET.with(|q| q.set(true));
    let r = std::panic::catch_unwind(std::panic::AssertUnwindSafe(f));
    QUIET.with(|q| q.set(false));
    r.ok()
}
