//! Family G-EPOCH (C18, C15/epoch-manager part): scripts against the real epoch-manager contract.
use crate::out::{Case, Family};
use crate::rng::Rng;
use crate::val::*;
use cosmwasm_std::{Addr, BlockInfo, Coin, Empty, Timestamp, Uint64};
use cw_multi_test::{App, AppBuilder, Contract, ContractWrapper, Executor, MockApiBech32};
use cw_multi_test::{BankKeeper, WasmKeeper};
use cw_utils::Expiration;
use mantra_dex_std::epoch_manager::{
    ConfigResponse, EpochConfig, EpochResponse, ExecuteMsg, InstantiateMsg, QueryMsg,
};

pub fn epoch_manager_contract() -> Box<dyn Contract<Empty>> {
    Box::new(
        ContractWrapper::new(
            epoch_manager::contract::execute,
            epoch_manager::contract::instantiate,
            epoch_manager::contract::query,
        )
        .with_migrate(epoch_manager::contract::migrate),
    )
}

const NANOS: u64 = 1_000_000_000;
const MAXS: u64 = u64::MAX / NANOS; // largest whole second a Timestamp can hold

fn pick_time(r: &mut Rng, genesis_hint: u64) -> u64 {
    // nanoseconds
    match r.below(10) {
        0 => 0,
        1 => r.below(1000),
        2 => u64::MAX,
        3 => u64::MAX - r.below(5 * NANOS),
        4 => genesis_hint.saturating_mul(NANOS).saturating_sub(1),
        5 => genesis_hint.saturating_mul(NANOS),
        6 => genesis_hint.saturating_mul(NANOS).saturating_add(r.below(3 * NANOS)),
        _ => {
            let s = 1_600_000_000 + r.below(400_000_000);
            s * NANOS + if r.chance(1, 2) { 0 } else { r.below(NANOS) }
        }
    }
}

fn pick_genesis(r: &mut Rng, now_s: u64) -> u64 {
    match r.below(12) {
        0 => now_s,
        1 => now_s.saturating_sub(1),
        2 => now_s.saturating_add(1),
        3 => 0,
        4 => MAXS,
        5 => MAXS + 1,
        6 => MAXS - r.below(100_000),
        7 => u64::MAX,
        8 => u64::MAX - r.below(100_000),
        _ => now_s.saturating_add(r.below(10 * 86_400)),
    }
}

fn pick_duration(r: &mut Rng) -> u64 {
    match r.below(12) {
        0 => 86_399,
        1 => 86_400,
        2 => 86_401,
        3 => 0,
        4 => 1,
        5 => u64::MAX,
        6 => MAXS,
        7 => 1u64 << (20 + r.below(40)),
        _ => 86_400 + r.below(30 * 86_400),
    }
}

fn block_term(b: &BlockInfo) -> String {
    format!("{{| height := {}; time := {} |}}", b.height, b.time.nanos())
}
fn cfg_term(c: &EpochConfig) -> String {
    format!("{{| duration := {}; genesis := {} |}}", c.duration.u64(), c.genesis_epoch.u64())
}
fn v_cfg(c: &EpochConfig) -> Val {
    vl(vec![vz(c.duration.u64()), vz(c.genesis_epoch.u64())])
}
pub fn v_expiration(e: &Expiration) -> Val {
    match e {
        Expiration::AtHeight(h) => vl(vec![vz(0), vz(h)]),
        Expiration::AtTime(t) => vl(vec![vz(1), vz(t.nanos())]),
        Expiration::Never {} => vl(vec![vz(2)]),
    }
}
pub fn expiration_term(e: &Expiration) -> String {
    match e {
        Expiration::AtHeight(h) => format!("(AtHeight {})", h),
        Expiration::AtTime(t) => format!("(AtTime {})", t.nanos()),
        Expiration::Never {} => "Never".to_string(),
    }
}
pub fn v_ownership(o: &cw_ownable::Ownership<Addr>, sym: &dyn Fn(&str) -> String) -> Val {
    vl(vec![
        vopt(o.owner.as_ref(), |a| vs(sym(a.as_str()))),
        vopt(o.pending_owner.as_ref(), |a| vs(sym(a.as_str()))),
        vopt(o.pending_expiry.as_ref(), |e| v_expiration(e)),
    ])
}
pub fn action_term(a: &cw_ownable::Action, sym: &dyn Fn(&str) -> String) -> String {
    match a {
        cw_ownable::Action::TransferOwnership { new_owner, expiry } => format!(
            "(Transfer {} {})",
            cstr(&sym(new_owner)),
            copt(expiry.as_ref().map(expiration_term))
        ),
        cw_ownable::Action::AcceptOwnership => "Accept".to_string(),
        cw_ownable::Action::RenounceOwnership => "Renounce".to_string(),
    }
}

pub fn generate(seed: u64, count: usize) -> Family {
    let mut fam = Family::new(
        "epoch",
        "From MD.Model Require Import Base Ownable Epoch CasesEpoch.",
        "epoch_case",
        "run_epoch_case",
        "script = instantiate(cfg, time) + 6..14 steps (UpdateConfig/UpdateOwnership by owner or others, with or without funds; CurrentEpoch at boundary-aimed times; Epoch{id}); values aimed at genesis-1/0/+1 s, duration 86399/86400/86401, u64 and Timestamp limits. Non-trivial = instantiation accepted and at least one CurrentEpoch query answered; distinct by case text.",
    );
    fam.mon_fn = Some("mon_epoch_case".to_string());
    let mut rng = Rng::new(seed ^ 0xE90C);
    let api = MockApiBech32::new("mantra");
    let names = ["owner", "alice", "bob"];
    let addrs: Vec<Addr> = names.iter().map(|n| api.addr_make(n)).collect();
    let sym = |s: &str| -> String {
        let mut o = s.to_string();
        for (a, n) in addrs.iter().zip(names.iter()) {
            o = o.replace(a.as_str(), n);
        }
        o
    };
    for _ in 0..count {
        let mut r = rng.fork();
        let mut app: App<BankKeeper, MockApiBech32> = AppBuilder::new()
            .with_api(MockApiBech32::new("mantra"))
            .with_wasm(WasmKeeper::default())
            .build(|router, _api, storage| {
                router.bank.init_balance(storage, &addrs[1], vec![Coin::new(1_000_000u128, "uom")]).unwrap();
                router.bank.init_balance(storage, &addrs[0], vec![Coin::new(1_000_000u128, "uom")]).unwrap();
            });
        let code = app.store_code(epoch_manager_contract());
        // mostly-valid instantiations, plus a malformed stream
        let valid_bias = r.chance(3, 4);
        let t0 = if valid_bias { (1_700_000_000 + r.below(1_000_000)) * NANOS + r.below(2) * r.below(NANOS) } else { pick_time(&mut r, 1_700_000_000) };
        let now_s = t0 / NANOS;
        let genesis = if valid_bias { now_s + [0, 0, 1, 3600, 86_400, 5 * 86_400][r.below(6) as usize] } else { pick_genesis(&mut r, now_s) };
        let duration = if valid_bias { [86_400, 86_400, 86_401, 2 * 86_400, 7 * 86_400, 86_400 + r.below(1_000_000)][r.below(6) as usize] } else { pick_duration(&mut r) };
        let mut block = BlockInfo { height: 100 + r.below(100), time: Timestamp::from_nanos(t0), chain_id: "mantra-1".into() };
        app.set_block(block.clone());
        let owner_str = if r.chance(1, 20) { "not-an-address".to_string() } else { addrs[0].to_string() };
        let cfg0 = EpochConfig { duration: Uint64::new(duration), genesis_epoch: Uint64::new(genesis) };
        let inst = guarded(|| {
            app.instantiate_contract(
                code,
                addrs[0].clone(),
                &InstantiateMsg { owner: owner_str.clone(), epoch_config: cfg0.clone() },
                &[],
                "epoch",
                None,
            )
        });
        let mut obs: Vec<Val> = vec![];
        let mut steps: Vec<String> = vec![];
        let mut descr = format!("INSTANTIATE t={} height={} owner={} duration={} genesis={}", t0, block.height, sym(&owner_str), duration, genesis);
        let mut nontrivial = false;
        let em = match inst {
            Some(Ok(a)) => Some(a),
            _ => None,
        };
        let get_state = |app: &App<BankKeeper, MockApiBech32>, em: &Addr| -> Val {
            let c: ConfigResponse = app.wrap().query_wasm_smart(em, &QueryMsg::Config {}).unwrap();
            let o: cw_ownable::Ownership<Addr> = app.wrap().query_wasm_smart(em, &QueryMsg::Ownership {}).unwrap();
            vl(vec![v_cfg(&c.epoch_config), v_ownership(&o, &sym)])
        };
        match &em {
            None => {
                obs.push(vl(vec![vz(0)]));
                fam.count("instantiate:err");
            }
            Some(em) => {
                fam.count("instantiate:ok");
                obs.push(vl(vec![vz(1), get_state(&app, em)]));
                let nsteps = 6 + r.below(9);
                let mut cur_cfg = cfg0.clone();
                for _ in 0..nsteps {
                    let k = r.below(10);
                    if k < 5 {
                        // CurrentEpoch at a boundary-aimed time
                        let g = cur_cfg.genesis_epoch.u64();
                        let d = cur_cfg.duration.u64().max(1);
                        let t = match r.below(10) {
                            0 => g.saturating_mul(NANOS).saturating_sub(1),
                            1 => g.saturating_mul(NANOS),
                            2 | 3 => {
                                let k = r.below(50);
                                g.saturating_add(k.saturating_mul(d)).saturating_mul(NANOS).saturating_sub(r.below(2))
                            }
                            4 => {
                                let k = r.below(50);
                                g.saturating_add(k.saturating_mul(d)).saturating_mul(NANOS).saturating_add(r.below(NANOS))
                            }
                            5 => block.time.nanos().saturating_add(d.saturating_mul(NANOS)), // exactly one duration later
                            6 => block.time.nanos().saturating_add(d.saturating_mul(NANOS)).saturating_sub(1),
                            7 => pick_time(&mut r, g),
                            _ => g.saturating_add(r.below(d.saturating_mul(100))).saturating_mul(NANOS).saturating_add(r.below(NANOS)),
                        };
                        block.time = Timestamp::from_nanos(t);
                        block.height += r.below(3);
                        app.set_block(block.clone());
                        let res = guarded(|| {
                            app.wrap().query_wasm_smart::<EpochResponse>(em, &QueryMsg::CurrentEpoch {})
                        });
                        let v = match res {
                            Some(Ok(e)) => { nontrivial = true; fam.count("current:ok"); vl(vec![vz(1), vl(vec![vz(e.epoch.id), vz(e.epoch.start_time.nanos())])]) }
                            Some(Err(_)) => { fam.count("current:err"); vl(vec![vz(0)]) }
                            None => { fam.count("current:panic"); vl(vec![vz(0)]) }
                        };
                        steps.push(format!("EsCurrent {}", block_term(&block)));
                        descr.push_str(&format!("\nCURRENT t={}", t));
                        obs.push(v);
                    } else if k < 7 {
                        let g = cur_cfg.genesis_epoch.u64();
                        let d = cur_cfg.duration.u64().max(1);
                        let id = match r.below(8) {
                            0 => 0,
                            1 => 1,
                            2 => u64::MAX,
                            3 => (MAXS.saturating_sub(g)) / d,
                            4 => (MAXS.saturating_sub(g)) / d + 1,
                            5 => u64::MAX / d,
                            6 => u64::MAX / d + 1,
                            _ => r.below(100_000),
                        };
                        let res = guarded(|| {
                            app.wrap().query_wasm_smart::<EpochResponse>(em, &QueryMsg::Epoch { id })
                        });
                        let v = match res {
                            Some(Ok(e)) => { fam.count("epoch:ok"); vl(vec![vz(1), vl(vec![vz(e.epoch.id), vz(e.epoch.start_time.nanos())])]) }
                            Some(Err(_)) => { fam.count("epoch:err"); vl(vec![vz(0)]) }
                            None => { fam.count("epoch:panic"); vl(vec![vz(0)]) }
                        };
                        steps.push(format!("EsEpoch {}", id));
                        descr.push_str(&format!("\nEPOCH id={}", id));
                        obs.push(v);
                    } else if k < 8 {
                        let c: ConfigResponse = app.wrap().query_wasm_smart(em, &QueryMsg::Config {}).unwrap();
                        steps.push("EsConfig".to_string());
                        descr.push_str("\nCONFIG");
                        obs.push(v_cfg(&c.epoch_config));
                    } else {
                        // execute: UpdateConfig / UpdateOwnership by some sender, maybe with funds
                        let sender_i = if r.chance(2, 3) { 0 } else { r.range(1, 2) as usize };
                        let funds = r.chance(1, 8) && sender_i < 2;
                        if r.chance(1, 3) {
                            block.time = Timestamp::from_nanos(pick_time(&mut r, cur_cfg.genesis_epoch.u64()));
                            block.height += r.below(3);
                            app.set_block(block.clone());
                        }
                        let now_s = block.time.seconds();
                        let (msg, mterm, mdescr) = if r.chance(2, 3) {
                            let c = if r.chance(1, 6) { None } else {
                                let valid = r.chance(1, 2);
                                Some(EpochConfig {
                                    duration: Uint64::new(if valid { 86_400 + r.below(3) * 43_200 } else { pick_duration(&mut r) }),
                                    // (re-submitting the stored genesis, which may meanwhile lie in the past, is one of the choices)
                                    genesis_epoch: Uint64::new(if r.chance(1, 5) { cur_cfg.genesis_epoch.u64() } else if valid { now_s + r.below(3) * 3600 } else { pick_genesis(&mut r, now_s) }),
                                })
                            };
                            let t = format!("(EmUpdateConfig {})", copt(c.as_ref().map(cfg_term)));
                            let d = format!("update_config {:?}", c.as_ref().map(|c| (c.duration.u64(), c.genesis_epoch.u64())));
                            (ExecuteMsg::UpdateConfig { epoch_config: c }, t, d)
                        } else {
                            let a = match r.below(4) {
                                0 => cw_ownable::Action::AcceptOwnership,
                                1 => cw_ownable::Action::RenounceOwnership,
                                _ => cw_ownable::Action::TransferOwnership {
                                    new_owner: if r.chance(1, 8) { "bogus".to_string() } else { addrs[r.below(3) as usize].to_string() },
                                    expiry: match r.below(5) {
                                        0 => Some(Expiration::AtHeight(block.height + r.below(3))),
                                        1 => Some(Expiration::AtTime(Timestamp::from_nanos(block.time.nanos().saturating_add(r.below(3) * NANOS)))),
                                        2 => Some(Expiration::Never {}),
                                        _ => None,
                                    },
                                },
                            };
                            let t = format!("(EmUpdateOwnership {})", action_term(&a, &sym));
                            let d = format!("ownership {}", action_term(&a, &sym));
                            (ExecuteMsg::UpdateOwnership(a), t, d)
                        };
                        let fv = if funds { vec![Coin::new(1u128, "uom")] } else { vec![] };
                        let res = guarded(|| {
                            app.execute_contract(addrs[sender_i].clone(), em.clone(), &msg, &fv)
                        });
                        let ok = matches!(res, Some(Ok(_)));
                        fam.count(if ok { "exec:ok" } else { "exec:err" });
                        let st = get_state(&app, em);
                        let c: ConfigResponse = app.wrap().query_wasm_smart(em, &QueryMsg::Config {}).unwrap();
                        cur_cfg = c.epoch_config;
                        steps.push(format!("EsExec {} {} {} {}", block_term(&block), cstr(names[sender_i]), cbool(funds), mterm));
                        descr.push_str(&format!("\nEXEC t={} h={} sender={} funds={} {} -> {}", block.time.nanos(), block.height, names[sender_i], funds, mdescr, if ok { "OK" } else { "ERR" }));
                        obs.push(vl(vec![vz(if ok { 1 } else { 0 }), st]));
                    }
                }
            }
        }
        let input = format!(
            "{{| ec_valid := {}; ec_b0 := {{| height := {}; time := {} |}}; ec_owner := {}; ec_cfg := {}; ec_steps := {} |}}",
            clist(&names.iter().map(|n| cstr(n)).collect::<Vec<_>>()),
            // the block at instantiation
            obs_block_height(&descr), t0, cstr(&sym(&owner_str)), cfg_term(&cfg0), clist(&steps)
        );
        fam.push(Case { input, expected: vl(obs).coq(), nontrivial, descr });
    }
    fam
}

fn obs_block_height(descr: &str) -> u64 {
    // "INSTANTIATE t=.. height=H ..."
    let i = descr.find("height=").unwrap() + 7;
    descr[i..].split_whitespace().next().unwrap().parse().unwrap()
}
