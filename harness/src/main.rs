#![allow(dead_code)]
//! mdverif — implementation side of the correspondence check.
//! Runs generated cases on the REAL contracts of /repo (path dependencies) and writes, per family,
//! Coq files holding (input, observed output) pairs that the Rocq model re-evaluates with vm_compute.
mod chain;
mod epoch;
mod gen;
mod math;
mod sim;
mod scen;
mod out;
mod rng;
mod val;

use std::path::PathBuf;

fn main() {
    let args: Vec<String> = std::env::args().collect();
    if args.len() < 2 {
        eprintln!("usage: mdverif <family> [--seed N] [--count N] [--out DIR] [--shards N]");
        std::process::exit(2);
    }
    let family = args[1].clone();
    let mut seed: u64 = 1;
    let mut count: usize = 200;
    let mut outdir = PathBuf::from("work");
    let mut shards: usize = 16;
    let mut i = 2;
    while i < args.len() {
        match args[i].as_str() {
            "--seed" => { seed = args[i + 1].parse().expect("seed"); i += 2; }
            "--count" => { count = args[i + 1].parse().expect("count"); i += 2; }
            "--out" => { outdir = PathBuf::from(&args[i + 1]); i += 2; }
            "--shards" => { shards = args[i + 1].parse().expect("shards"); i += 2; }
            x => { eprintln!("unknown arg {x}"); std::process::exit(2); }
        }
    }
    // panics inside contracts are part of the observed behaviour (they abort the transaction);
    // keep the default hook quiet so traces stay readable
    let default_hook = std::panic::take_hook();
    std::panic::set_hook(Box::new(move |info| {
        if !val::QUIET.with(|q| q.get()) {
            default_hook(info);
        }
    }));
    let fam = match family.as_str() {
        "epoch" => epoch::generate(seed, count),
        "chain-pool" | "chain-farm" | "chain-mixed" => chain::generate(&family, seed, count),
        "math-fn" => math::generate(seed, count),
        "findings" => scen::generate_findings(seed, count > 1),
        "probe-scn" => scen::generate_probes(seed, count),
        "farm-scn" | "manyfarms-scn" | "pool-scn" | "fault-scn" | "auth-scn" => scen::generate(&family, seed, count),
        x => { eprintln!("unknown family {x}"); std::process::exit(2); }
    };
    fam.write(&outdir, shards).expect("write cases");
    println!("family={} cases={} monitor_failures={}", fam.name, fam.cases.len(), fam.monitor_failures.len());
}
