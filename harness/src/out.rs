//! Writers: Coq case files (sharded) and the run's meta.json (distribution, samples, counts).
use std::collections::{BTreeMap, HashSet};
use std::fs;
use std::hash::{Hash, Hasher};
use std::path::{Path, PathBuf};

pub struct Case {
    /// Coq term of the case input
    pub input: String,
    /// Coq term (val) of what the implementation did
    pub expected: String,
    /// non-trivial by the family's rule
    pub nontrivial: bool,
    /// human-readable rendering used for samples / replays
    pub descr: String,
}

pub struct Family {
    pub name: String,
    /// Coq preamble: imports
    pub imports: String,
    /// Coq type of a case input
    pub case_type: String,
    /// Coq function : case_type -> val
    pub run_fn: String,
    /// optional Coq function : case_type -> val -> bool (property monitor on the implementation's observation)
    pub mon_fn: Option<String>,
    pub cases: Vec<Case>,
    pub hist: BTreeMap<String, u64>,
    pub rule: String,
    /// property monitor failures observed on the implementation: (monitor, description)
    pub monitor_failures: Vec<(String, String)>,
    pub monitor_checks: u64,
    /// known-finding hits observed on the implementation: (finding id, description)
    pub known_hits: Vec<(String, String)>,
}

impl Family {
    pub fn new(name: &str, imports: &str, case_type: &str, run_fn: &str, rule: &str) -> Self {
        Family {
            name: name.to_string(),
            imports: imports.to_string(),
            case_type: case_type.to_string(),
            run_fn: run_fn.to_string(),
            mon_fn: None,
            cases: vec![],
            hist: BTreeMap::new(),
            rule: rule.to_string(),
            monitor_failures: vec![],
            monitor_checks: 0,
            known_hits: vec![],
        }
    }
    pub fn count(&mut self, key: &str) {
        *self.hist.entry(key.to_string()).or_insert(0) += 1;
    }
    pub fn count_n(&mut self, key: &str, n: u64) {
        *self.hist.entry(key.to_string()).or_insert(0) += n;
    }
    pub fn push(&mut self, c: Case) {
        self.cases.push(c);
    }
    pub fn monitor(&mut self, name: &str, ok: bool, descr: impl FnOnce() -> String) {
        self.monitor_checks += 1;
        if !ok {
            self.monitor_failures.push((name.to_string(), descr()));
        }
    }

    pub fn write(&self, dir: &Path, shards: usize) -> std::io::Result<()> {
        fs::create_dir_all(dir)?;
        let n = self.cases.len();
        let shards = shards.max(1).min(n.max(1));
        let per = (n + shards - 1) / shards.max(1);
        let mut files: Vec<PathBuf> = vec![];
        let mut index = vec![];
        for s in 0..shards {
            let lo = s * per;
            let hi = ((s + 1) * per).min(n);
            if lo >= hi {
                continue;
            }
            let mut body = String::new();
            body.push_str(&self.imports);
            body.push_str("\nOpen Scope string_scope.\nOpen Scope Z_scope.\n");
            body.push_str(&format!(
                "Definition cases : list ({} * val) := [\n",
                self.case_type
            ));
            for (k, c) in self.cases[lo..hi].iter().enumerate() {
                if k > 0 {
                    body.push_str(";\n");
                }
                body.push_str(&format!("(({}),\n ({}))", c.input, c.expected));
            }
            body.push_str("\n].\n");
            body.push_str(&format!(
                "Eval vm_compute in (mismatches {} cases).\n",
                self.run_fn
            ));
            if let Some(m) = &self.mon_fn {
                body.push_str(&format!("Eval vm_compute in (monitor_report {} cases).\n", m));
            }
            let modname = format!("{}_cases_{}", self.name.replace('-', "_"), s);
            let f = dir.join(format!("{}.v", modname));
            fs::write(&f, body)?;
            files.push(f.clone());
            index.push(serde_json::json!({"file": f.to_string_lossy(), "first": lo, "count": hi - lo}));
        }
        // distinct non-trivial
        let mut seen = HashSet::new();
        let mut distinct_nontrivial = 0u64;
        for c in &self.cases {
            let mut h = std::collections::hash_map::DefaultHasher::new();
            c.input.hash(&mut h);
            if seen.insert(h.finish()) && c.nontrivial {
                distinct_nontrivial += 1;
            }
        }
        let samples: Vec<String> = self.cases.iter().take(3).map(|c| c.descr.clone()).collect();
        let descrs: Vec<&String> = self.cases.iter().map(|c| &c.descr).collect();
        let meta = serde_json::json!({
            "family": self.name,
            "evaluations": n,
            "distinct_nontrivial": distinct_nontrivial,
            "rule": self.rule,
            "histogram": self.hist,
            "samples": samples,
            "shards": index,
            "monitor_checks": self.monitor_checks,
            "monitor_failures": self.monitor_failures.iter().map(|(m, d)| serde_json::json!({"monitor": m, "descr": d})).collect::<Vec<_>>(),
            "known_hits": self.known_hits.iter().map(|(m, d)| serde_json::json!({"finding": m, "descr": d})).collect::<Vec<_>>(),
            "run_fn": self.run_fn,
            "imports": self.imports,
            "case_type": self.case_type,
        });
        fs::write(dir.join(format!("{}_meta.json", self.name)), serde_json::to_string_pretty(&meta).unwrap())?;
        fs::write(dir.join(format!("{}_descr.json", self.name)), serde_json::to_string(&descrs).unwrap())?;
        // raw cases (input / expected) so that the orchestrator can re-run a single case for a replay
        let raw: Vec<serde_json::Value> = self.cases.iter().map(|c| serde_json::json!({"input": c.input, "expected": c.expected, "descr": c.descr})).collect();
        fs::write(dir.join(format!("{}_raw.json", self.name)), serde_json::to_string(&raw).unwrap())?;
        Ok(())
    }
}
