//! Families G-CHAIN-*: random whole-chain scripts on the four real contracts, full snapshot after every op.
use crate::gen::*;
use crate::out::{Case, Family};
use crate::rng::Rng;
use crate::sim::*;
use crate::val::*;

pub fn new_gen(r: &mut Rng, prof: Profile) -> Option<(Gen, Genesis, Val)> {
    let g = default_genesis(r);
    let sim = Sim::new(&g)?;
    let snap0 = sim.snapshot();
    let gen = Gen { rng: r.fork(), sim, prof, ops: vec![], oks: vec![], obs: vec![], id_seq: 0, tf_fee_cache: g.tf_fee.clone(), hist: Default::default() };
    Some((gen, g, snap0))
}

pub fn case_of(gen: &Gen, g: &Genesis, snap0: &Val, nontrivial: bool) -> Case {
    let users: Vec<String> = g.users.iter().map(|u| cstr(u)).collect();
    let denoms: Vec<String> = g.base_denoms.iter().map(|u| cstr(u)).collect();
    let input = format!(
        "{{| cc_gen := {}; cc_addrs := {}; cc_denoms := {}; cc_ops := {} |}}",
        g.term(),
        clist(&users),
        clist(&denoms),
        clist(&gen.ops.iter().map(|o| o.term()).collect::<Vec<_>>())
    );
    let mut all = vec![vz(1), snap0.clone()];
    all.extend(gen.obs.iter().cloned());
    let mut descr = g.descr();
    for (o, ok) in gen.ops.iter().zip(gen.oks.iter()) {
        descr.push_str(&format!("\n{} -> {}", o.descr(), if *ok { "OK" } else { "ERR" }));
    }
    Case { input, expected: vl(all).coq(), nontrivial, descr }
}

pub fn generate(name: &str, seed: u64, count: usize) -> Family {
    let mut fam = Family::new(
        name,
        "From MD.Model Require Import Base Ownable Epoch PoolMath Types PoolManager FarmManager Chain CasesChain.",
        "chain_case",
        "run_chain_case",
        "random whole-chain script (genesis with random fee/epoch/farm configuration + 12..40 operations chosen by a weighted, state-aware generator: mostly valid operations aimed at boundaries plus a malformed stream); the full canonical snapshot (all balances, supplies, configs, ownerships, pools, positions, farms, cursors, weight table) is compared after every operation. Non-trivial = at least 5 accepted transactions; distinct by script text.",
    );
    let mut rng = Rng::new(seed ^ 0xC4A1);
    for _ in 0..count {
        let mut r = rng.fork();
        let prof = match name {
            "chain-pool" => Profile::pool(),
            "chain-farm" => Profile::farm(),
            _ => Profile::mixed(),
        };
        let Some((mut gen, g, snap0)) = new_gen(&mut r, prof) else { continue; };
        // warm-up so that scripts reach interesting states quickly
        gen.op_create_pool();
        gen.op_provide();
        let n = 12 + gen.rng.below(28);
        for _ in 0..n {
            gen.random_op();
        }
        let accepted = gen.ops.iter().zip(gen.oks.iter()).filter(|(o, ok)| **ok && matches!(o, SOp::Tx { .. })).count();
        for (k, v) in gen.hist.iter() {
            fam.count_n(k, *v);
        }
        fam.push(case_of(&gen, &g, &snap0, accepted >= 5));
    }
    fam
}
