//! Family `math-fn`: the contracts' public pure helpers called DIRECTLY (no chain, no messages) on thousands of
//! numeric points per run — compute_swap (both pool types), compute_offer_amount (+ the swap of quote+1),
//! compute_d / compute_d_with_pool_info, compute_lp_mint_amount_for_stableswap_deposit, assert_slippage_tolerance,
//! within_one_percent. The model's functions of the same names are evaluated on the same inputs.
//! Inputs are aimed at boundaries (u128 extremes, 1-unit amounts, fee sums of exactly 20%, decimals 0..24) as well as log-uniform "ordinary" values.
use crate::gen::DEC;
use crate::out::{Case, Family};
use crate::rng::Rng;
use crate::sim::SFees;
use crate::val::*;
use cosmwasm_std::{Coin, Decimal, Uint128};
use mantra_dex_std::pool_manager::{PoolInfo, PoolStatus, PoolType};
use pool_manager::helpers as ph;

#[derive(Clone)]
struct MPool {
    denoms: Vec<String>,
    decimals: Vec<u8>,
    assets: Vec<(String, u128)>,
    amp: Option<u64>,
    fees: SFees,
}
impl MPool {
    fn real(&self) -> PoolInfo {
        PoolInfo {
            pool_identifier: "o.m".to_string(),
            asset_denoms: self.denoms.clone(),
            lp_denom: "factory/PM/o.m.LP".to_string(),
            asset_decimals: self.decimals.clone(),
            assets: self.assets.iter().map(|(d, a)| Coin { denom: d.clone(), amount: Uint128::new(*a) }).collect(),
            pool_type: match self.amp { None => PoolType::ConstantProduct, Some(a) => PoolType::StableSwap { amp: a } },
            pool_fees: self.fees.real(),
            status: PoolStatus { swaps_enabled: true, deposits_enabled: true, withdrawals_enabled: true },
        }
    }
    fn term(&self) -> String {
        format!(
            "{{| p_id := \"o.m\"; p_denoms := {}; p_decimals := {}; p_assets := {}; p_type := {}; p_lp := \"factory/PM/o.m.LP\"; p_fees := {}; p_status := {{| swaps_enabled := true; deposits_enabled := true; withdrawals_enabled := true |}} |}}",
            clist(&self.denoms.iter().map(|d| cstr(d)).collect::<Vec<_>>()),
            clist(&self.decimals.iter().map(|d| d.to_string()).collect::<Vec<_>>()),
            coins_t(&self.assets),
            ptype_t(self.amp),
            self.fees.term()
        )
    }
}
fn ptype_t(amp: Option<u64>) -> String {
    match amp { None => "ConstantProduct".to_string(), Some(a) => format!("(StableSwap {})", a) }
}
fn coins_t(cs: &[(String, u128)]) -> String {
    clist(&cs.iter().map(|(d, a)| format!("({}, {})", cstr(d), a)).collect::<Vec<_>>())
}
fn rcoins(cs: &[(String, u128)]) -> Vec<Coin> {
    cs.iter().map(|(d, a)| Coin { denom: d.clone(), amount: Uint128::new(*a) }).collect()
}

fn fees(r: &mut Rng) -> SFees {
    let p = |x: u128| x * DEC / 10_000;
    match r.below(9) {
        0 => SFees { protocol: 0, swap: 0, burn: 0, extra: vec![] },
        1 => SFees { protocol: p(10), swap: p(30), burn: 0, extra: vec![] },
        2 => SFees { protocol: p(100), swap: p(200), burn: p(50), extra: vec![p(25), p(25)] },
        3 => SFees { protocol: p(500), swap: p(500), burn: p(500), extra: vec![p(500)] },
        4 => SFees { protocol: 1, swap: 3, burn: 7, extra: vec![11] },
        5 => SFees { protocol: r.below(2_000) as u128 * DEC / 100_000, swap: r.below(2_000) as u128 * DEC / 100_000, burn: r.below(1_000) as u128 * DEC / 100_000, extra: vec![r.below(500) as u128 * DEC / 100_000] },
        6 => SFees { protocol: r.u128() % (DEC / 20), swap: r.u128() % (DEC / 20), burn: r.u128() % (DEC / 20), extra: vec![r.u128() % (DEC / 40), r.u128() % (DEC / 40)] },
        7 => SFees { protocol: DEC - 1, swap: 0, burn: 0, extra: vec![] },
        _ => SFees { protocol: p(20), swap: p(25), burn: p(5), extra: vec![p(1)] },
    }
}

/// amounts: log-uniform, boundary and extreme values
fn amt(r: &mut Rng) -> u128 {
    match r.below(16) {
        0 => 0,
        1 => 1,
        2 => 2,
        3 => u128::MAX,
        4 => u128::MAX - r.below(3) as u128,
        5 => 1u128 << r.range(60, 127),
        6 => (1u128 << r.range(60, 127)) - 1,
        7 => 10u128.pow(r.range(0, 38) as u32),
        8 => 10u128.pow(r.range(0, 38) as u32) + 1,
        9 => r.amount(38),
        _ => r.amount(27),
    }
}
fn reserve(r: &mut Rng) -> u128 {
    match r.below(8) {
        0 => amt(r),
        1 => r.amount(38),
        _ => r.amount(30).max(1),
    }
}
fn offer_for(r: &mut Rng, x: u128) -> u128 {
    match r.below(8) {
        0 => amt(r),
        1 => 1,
        2 => x,
        3 => x / 2 + 1,
        4 => x.saturating_mul(10),
        5 => (x / 1000).max(1),
        _ => r.amount(30).min(x.saturating_mul(2)).max(1),
    }
}

const DENOMS: [&str; 4] = ["aweth", "ubtc", "uom", "uusd"];

fn cp_pool(r: &mut Rng) -> MPool {
    let swap = r.chance(1, 4);
    let (a, b) = if swap { ("uusd", "uom") } else { ("uom", "uusd") };
    let da = *r.pick(&[6u8, 6, 8, 18, 0, 12]);
    let db = *r.pick(&[6u8, 6, 8, 18, 24]);
    MPool { denoms: vec![a.into(), b.into()], decimals: vec![da, db], assets: vec![(a.into(), reserve(r)), (b.into(), reserve(r))], amp: None, fees: fees(r) }
}
fn ss_pool(r: &mut Rng) -> MPool {
    let n = r.range(2, 4) as usize;
    let mut ds: Vec<&str> = DENOMS[..n].to_vec();
    if r.chance(1, 3) { ds.reverse(); }
    let decs: Vec<u8> = (0..n).map(|_| *r.pick(&[6u8, 6, 6, 8, 12, 18, 18, 24, 0, 1])).collect();
    let amp = match r.below(8) { 0 => 1, 1 => 10_000, 2 => 1_000_000, 3 => r.range(1, 5), 4 => u64::MAX, _ => r.range(10, 2_000) };
    // mostly balanced pools in whole tokens, sometimes wildly imbalanced / raw amounts
    let tokens = r.amount(12).max(1);
    let assets: Vec<(String, u128)> = (0..n).map(|i| {
        let a = match r.below(10) {
            0 => reserve(r),
            1 => 0,
            2 => 1,
            _ => {
                let skew = match r.below(4) { 0 => 100, 1 => r.range(50, 200) as u128, 2 => r.range(1, 10_000) as u128, _ => r.range(95, 105) as u128 };
                (tokens * skew / 100).saturating_mul(10u128.pow(decs[i] as u32))
            }
        };
        (ds[i].to_string(), a)
    }).collect();
    MPool { denoms: ds.iter().map(|d| d.to_string()).collect(), decimals: decs, assets, amp: Some(amp), fees: fees(r) }
}

fn v_sc(s: &ph::SwapComputation) -> Val {
    vl(vec![vz(s.return_amount), vz(s.slippage_amount), vz(s.swap_fee_amount), vz(s.protocol_fee_amount), vz(s.burn_fee_amount), vz(s.extra_fees_amount)])
}
fn v_oc(s: &ph::OfferAmountComputation) -> Val {
    vl(vec![vz(s.offer_amount), vz(s.slippage_amount), vz(s.swap_fee_amount), vz(s.protocol_fee_amount), vz(s.burn_fee_amount), vz(s.extra_fees_amount)])
}
fn flat<T>(o: Option<Result<T, impl Sized>>) -> Result<T, ()> {
    match o { Some(Ok(x)) => Ok(x), _ => Err(()) }
}

pub fn generate(seed: u64, count: usize) -> Family {
    let mut fam = Family::new(
        "math-fn",
        "From MD.Model Require Import Base PoolMath Types FarmManager CasesMath.",
        "math_case",
        "run_math_case",
        "the implementation's helper returned a value (not an error / panic)",
    );
    let mut r = Rng::new(seed ^ 0x6d617468);
    for i in 0..count {
        let kind = match i % 16 { 0..=3 => "swap-cp", 4..=6 => "swap-ss", 7..=8 => "reverse", 9 => "d", 10 => "d-pool", 11 => "lp-mint", 12 => "tolerance", 13 => "swap-cp", 14 => "swap-ss", _ => "w1" };
        let (input, val, ok, descr): (String, Val, bool, String) = match kind {
            "swap-cp" | "swap-ss" => {
                let p = if kind == "swap-cp" { cp_pool(&mut r) } else { ss_pool(&mut r) };
                let n = p.assets.len();
                let i0 = r.below(n as u64) as usize;
                let mut i1 = r.below(n as u64) as usize;
                if i1 == i0 && !r.chance(1, 20) { i1 = (i0 + 1) % n; }
                let od = if r.chance(1, 40) { "nope".to_string() } else { p.assets[i0].0.clone() };
                let ad = p.assets[i1].0.clone();
                let off = offer_for(&mut r, p.assets[i0].1);
                let pi = p.real();
                let res = flat(guarded(|| ph::compute_swap(&pi, &Coin { denom: od.clone(), amount: Uint128::new(off) }, &ad)));
                let ok = res.is_ok();
                (format!("McSwap {} ({}, {}) {}", p.term(), cstr(&od), off, cstr(&ad)),
                 vres(res, |s| v_sc(&s)), ok,
                 format!("compute_swap {:?} amp={:?} dec={:?} fees={:?}/{:?}/{:?}/{:?} offer {} {} -> {}", p.assets, p.amp, p.decimals, p.fees.protocol, p.fees.swap, p.fees.burn, p.fees.extra, off, od, ad))
            }
            "reverse" => {
                let x = reserve(&mut r);
                let y = reserve(&mut r);
                let ask = match r.below(6) { 0 => amt(&mut r), 1 => 1, 2 => y.saturating_sub(1), 3 => y / 2, _ => r.amount(19).min(y.max(1)) };
                let f = fees(&mut r);
                let res = flat(guarded(|| ph::compute_offer_amount(Uint128::new(x), Uint128::new(y), Uint128::new(ask), f.real())));
                let ok = res.is_ok();
                // the swap of (quote + 1) on the same constant-product pool
                let sw = match &res {
                    Ok(oc) => {
                        let p = MPool { denoms: vec!["uom".into(), "uusd".into()], decimals: vec![6, 6], assets: vec![("uom".into(), x), ("uusd".into(), y)], amp: None, fees: f.clone() };
                        let pi = p.real();
                        match oc.offer_amount.u128().checked_add(1) {
                            Some(o1) => flat(guarded(|| ph::compute_swap(&pi, &Coin { denom: "uom".into(), amount: Uint128::new(o1) }, "uusd"))),
                            None => Err(()),
                        }
                    }
                    Err(_) => Err(()),
                };
                let v = match &res { Ok(oc) => vl(vec![vz(1), v_oc(oc), vres(sw, |s| v_sc(&s))]), Err(_) => vl(vec![vz(0)]) };
                (format!("McReverse {} {} {} {}", x, y, ask, f.term()), v, ok,
                 format!("compute_offer_amount x={} y={} ask={} fees={:?}/{:?}/{:?}/{:?}", x, y, ask, f.protocol, f.swap, f.burn, f.extra))
            }
            "d" => {
                let p = ss_pool(&mut r);
                let amp = p.amp.unwrap();
                let cs = rcoins(&p.assets);
                let res = guarded(|| ph::compute_d(&amp, &cs)).flatten();
                let ok = res.is_some();
                (format!("McD {} {}", amp, coins_t(&p.assets)), vres(res.ok_or(()), |d| vz(d)), ok, format!("compute_d amp={} {:?}", amp, p.assets))
            }
            "d-pool" => {
                let p = ss_pool(&mut r);
                let amp = p.amp.unwrap();
                let pi = p.real();
                let mut deps = p.assets.clone();
                if r.chance(1, 3) { for d in deps.iter_mut() { d.1 = reserve(&mut r); } }
                let cs = rcoins(&deps);
                let res = guarded(|| ph::compute_d_with_pool_info(&amp, &cs, &pi)).flatten();
                let ok = res.is_some();
                (format!("McDPool {} {} {}", amp, coins_t(&deps), p.term()), vres(res.ok_or(()), |d| vz(d)), ok, format!("compute_d_with_pool_info amp={} {:?} dec={:?}", amp, deps, p.decimals))
            }
            "lp-mint" => {
                let mut p = ss_pool(&mut r);
                let amp = p.amp.unwrap();
                let first = r.chance(1, 5);
                if first { for a in p.assets.iter_mut() { a.1 = 0; } }
                let old = p.assets.clone();
                let newa: Vec<(String, u128)> = old.iter().enumerate().map(|(i, (d, a))| {
                    let add = match r.below(6) {
                        0 => 0,
                        1 => 1,
                        2 => amt(&mut r),
                        3 => a / 100,
                        _ => r.amount(9).saturating_mul(10u128.pow(p.decimals[i] as u32)),
                    };
                    (d.clone(), a.saturating_add(add))
                }).collect();
                let supply = if first || r.chance(1, 8) { 0 } else { match r.below(3) { 0 => r.amount(30), 1 => old.iter().map(|x| x.1 / 2).sum::<u128>().max(1), _ => amt(&mut r) } };
                let pi = p.real();
                let (o, n) = (rcoins(&old), rcoins(&newa));
                let res = match guarded(|| ph::compute_lp_mint_amount_for_stableswap_deposit(&amp, &o, &n, Uint128::new(supply), &pi)) {
                    Some(Ok(Some(x))) => Ok(x),
                    _ => Err(()),
                };
                let ok = res.is_ok();
                (format!("McLpMint {} {} {} {} {}", amp, coins_t(&old), coins_t(&newa), supply, p.term()), vres(res, |x| vz(x)), ok,
                 format!("lp_mint amp={} old={:?} new={:?} supply={} dec={:?} swap_fee={}", amp, old, newa, supply, p.decimals, p.fees.swap))
            }
            "tolerance" => {
                let p = if r.chance(1, 2) { cp_pool(&mut r) } else { ss_pool(&mut r) };
                let tol = match r.below(8) { 0 => None, 1 => Some(0), 2 => Some(DEC), 3 => Some(DEC + 1), 4 => Some(DEC / 2), 5 => Some(1), _ => Some(r.u128() % (DEC / 5)) };
                let mut order: Vec<usize> = (0..p.assets.len()).collect();
                if r.chance(1, 3) { order.reverse(); }
                let deps: Vec<(String, u128)> = order.iter().map(|&i| {
                    let a = p.assets[i].1;
                    let d = match r.below(6) { 0 => amt(&mut r), 1 => a / 10, 2 => a / 10 + a / 1000, 3 => 1, _ => r.amount(20) };
                    (p.assets[i].0.clone(), d)
                }).collect();
                let mut pa: Vec<(String, u128)> = p.assets.clone();
                if r.chance(1, 4) { pa.reverse(); }
                let mut pool_assets = rcoins(&pa);
                let dc = rcoins(&deps);
                let t = tol.map(|x| Decimal::new(Uint128::new(x)));
                let pt = match p.amp { None => PoolType::ConstantProduct, Some(a) => PoolType::StableSwap { amp: a } };
                let res = flat(guarded(|| ph::assert_slippage_tolerance(&t, &dc, &mut pool_assets, pt)));
                let ok = res.is_ok();
                let after: Vec<Val> = pool_assets.iter().map(|c| vl(vec![vs(&c.denom), vz(c.amount)])).collect();
                let v = if ok { vl(vec![vz(1), vl(after)]) } else { vl(vec![vz(0)]) };
                (format!("McTol {} {} {} {}", copt(tol.map(|x| x.to_string())), coins_t(&deps), coins_t(&pa), ptype_t(p.amp)), v, ok,
                 format!("assert_slippage_tolerance tol={:?} deposits={:?} pool={:?} amp={:?}", tol, deps, pa, p.amp))
            }
            _ => {
                let a = amt(&mut r);
                let b = match r.below(4) { 0 => a, 1 => a - a / 100, 2 => (a - a / 100).saturating_sub(1), _ => amt(&mut r) };
                let res = guarded(|| ph::within_one_percent(Uint128::new(a), Uint128::new(b)));
                (format!("McW1 {} {}", a, b), vres(res.ok_or(()), vbool), true, format!("within_one_percent {} {}", a, b))
            }
        };
        fam.count(&format!("{}:{}", kind, if ok { "ok" } else { "err" }));
        fam.push(Case { input, expected: val.coq(), nontrivial: ok, descr });
    }
    fam
}
