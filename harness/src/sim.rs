//! The real contracts of /repo deployed on cw-multi-test, driven by symbolic operations that print
//! themselves as terms of the Coq model (coq/Model/Types.v, Chain.v), plus the canonical snapshot.
use crate::val::*;
use anyhow::Result as AnyResult;
use cosmwasm_std::{
    coin, Addr, Api, BankMsg, BankQuery, Binary, BlockInfo, Coin, CustomMsg, CustomQuery, Decimal,
    Empty, Querier, Storage, Timestamp, Uint128, Uint64,
};
use cw_multi_test::{
    App, AppBuilder, AppResponse, Bank, BankKeeper, BankSudo, Contract, ContractWrapper,
    CosmosRouter, DistributionKeeper, Executor, FailingModule, GovFailingModule, IbcFailingModule,
    MockApiBech32, Module, StakeKeeper, WasmKeeper,
};
use cosmwasm_std::testing::MockStorage;
use mantra_common_testing::multi_test::stargate_mock::StargateMock;
use mantra_dex_std::epoch_manager::EpochConfig;
use mantra_dex_std::farm_manager as fmm;
use mantra_dex_std::fee::{Fee, PoolFee};
use mantra_dex_std::pool_manager as pmm;
use serde::de::DeserializeOwned;
use std::cell::Cell;
use std::rc::Rc;

// ------------------------------------------------------------------ failing bank (fault injection)
/// BankKeeper whose k-th call (sends, burns, mints; 0-based, counted per armed transaction) fails once.
pub struct FaultyBank {
    inner: BankKeeper,
    /// < 0: disarmed; otherwise number of calls that still succeed before the failure
    pub counter: Rc<Cell<i64>>,
    /// number of bank calls seen since the counter was last reset (for enumeration of fault positions)
    pub calls: Rc<Cell<i64>>,
}
impl FaultyBank {
    fn tick(&self) -> AnyResult<()> {
        self.calls.set(self.calls.get() + 1);
        let c = self.counter.get();
        if c < 0 {
            return Ok(());
        }
        if c == 0 {
            self.counter.set(-1);
            anyhow::bail!("injected fault");
        }
        self.counter.set(c - 1);
        Ok(())
    }
}
impl Bank for FaultyBank {}
impl Module for FaultyBank {
    type ExecT = BankMsg;
    type QueryT = BankQuery;
    type SudoT = BankSudo;
    fn execute<ExecC, QueryC>(
        &self,
        api: &dyn Api,
        storage: &mut dyn Storage,
        router: &dyn CosmosRouter<ExecC = ExecC, QueryC = QueryC>,
        block: &BlockInfo,
        sender: Addr,
        msg: BankMsg,
    ) -> AnyResult<AppResponse>
    where
        ExecC: CustomMsg + DeserializeOwned + 'static,
        QueryC: CustomQuery + DeserializeOwned + 'static,
    {
        self.tick()?;
        self.inner.execute(api, storage, router, block, sender, msg)
    }
    fn query(
        &self,
        api: &dyn Api,
        storage: &dyn Storage,
        querier: &dyn Querier,
        block: &BlockInfo,
        request: BankQuery,
    ) -> AnyResult<Binary> {
        self.inner.query(api, storage, querier, block, request)
    }
    fn sudo<ExecC, QueryC>(
        &self,
        api: &dyn Api,
        storage: &mut dyn Storage,
        router: &dyn CosmosRouter<ExecC = ExecC, QueryC = QueryC>,
        block: &BlockInfo,
        msg: BankSudo,
    ) -> AnyResult<AppResponse>
    where
        ExecC: CustomMsg + DeserializeOwned + 'static,
        QueryC: CustomQuery + DeserializeOwned + 'static,
    {
        self.tick()?;
        self.inner.sudo(api, storage, router, block, msg)
    }
}

pub type DexApp = App<
    FaultyBank,
    MockApiBech32,
    MockStorage,
    FailingModule<Empty, Empty, Empty>,
    WasmKeeper<Empty, Empty>,
    StakeKeeper,
    DistributionKeeper,
    IbcFailingModule,
    GovFailingModule,
    StargateMock,
>;

fn c_pm() -> Box<dyn Contract<Empty>> {
    Box::new(
        ContractWrapper::new_with_empty(
            pool_manager::contract::execute,
            pool_manager::contract::instantiate,
            pool_manager::contract::query,
        )
        .with_reply(pool_manager::contract::reply),
    )
}
fn c_fm() -> Box<dyn Contract<Empty>> {
    Box::new(
        ContractWrapper::new(
            farm_manager::contract::execute,
            farm_manager::contract::instantiate,
            farm_manager::contract::query,
        )
        .with_reply(farm_manager::contract::reply),
    )
}
fn c_fc() -> Box<dyn Contract<Empty>> {
    Box::new(ContractWrapper::new(
        fee_collector::contract::execute,
        fee_collector::contract::instantiate,
        fee_collector::contract::query,
    ))
}

// ------------------------------------------------------------------ symbolic data
pub type SCoin = (String, u128);

pub fn coin_term(c: &SCoin) -> String {
    format!("({}, {})", cstr(&c.0), c.1)
}
pub fn coins_term(cs: &[SCoin]) -> String {
    clist(&cs.iter().map(coin_term).collect::<Vec<_>>())
}
pub fn ostr(o: &Option<String>) -> String {
    copt(o.as_ref().map(|s| cstr(s)))
}
pub fn oz<T: ToString>(o: &Option<T>) -> String {
    copt(o.as_ref().map(|x| cz(x.to_string())))
}
pub fn obool(o: &Option<bool>) -> String {
    copt(o.map(cbool))
}

#[derive(Clone, Debug)]
pub struct SFees {
    pub protocol: u128,
    pub swap: u128,
    pub burn: u128,
    pub extra: Vec<u128>,
}
impl SFees {
    pub fn term(&self) -> String {
        format!(
            "{{| protocol_fee := {}; swap_fee := {}; burn_fee := {}; extra_fees := {} |}}",
            self.protocol,
            self.swap,
            self.burn,
            clist(&self.extra.iter().map(|x| x.to_string()).collect::<Vec<_>>())
        )
    }
    pub fn real(&self) -> PoolFee {
        let d = |a: u128| Fee { share: Decimal::new(Uint128::new(a)) };
        PoolFee {
            protocol_fee: d(self.protocol),
            swap_fee: d(self.swap),
            burn_fee: d(self.burn),
            extra_fees: self.extra.iter().map(|x| d(*x)).collect(),
        }
    }
}

#[derive(Clone, Debug)]
pub struct SSwapOp {
    pub t_in: String,
    pub t_out: String,
    pub pool: String,
}

#[derive(Clone, Debug)]
pub struct SFarmParams {
    pub lp: String,
    pub start: Option<u64>,
    pub end: Option<u64>,
    pub asset: SCoin,
    pub id: Option<String>,
}
impl SFarmParams {
    fn term(&self) -> String {
        format!(
            "{{| fp_lp := {}; fp_start := {}; fp_end := {}; fp_asset := {}; fp_id := {} |}}",
            cstr(&self.lp),
            oz(&self.start),
            oz(&self.end),
            coin_term(&self.asset),
            ostr(&self.id)
        )
    }
}

#[derive(Clone, Debug, Default)]
pub struct SFmUpdate {
    pub fee_collector: Option<String>,
    pub epoch_manager: Option<String>,
    pub pool_manager: Option<String>,
    pub create_fee: Option<SCoin>,
    pub max_farms: Option<u32>,
    pub epoch_buffer: Option<u32>,
    pub min_unlock: Option<u64>,
    pub max_unlock: Option<u64>,
    pub expiration: Option<u64>,
    pub penalty: Option<u128>,
}

#[derive(Clone, Debug)]
pub enum SAction {
    Transfer(String, Option<cw_utils::Expiration>),
    Accept,
    Renounce,
}
impl SAction {
    pub fn term(&self) -> String {
        match self {
            SAction::Transfer(n, e) => format!(
                "(Transfer {} {})",
                cstr(n),
                copt(e.as_ref().map(crate::epoch::expiration_term))
            ),
            SAction::Accept => "Accept".into(),
            SAction::Renounce => "Renounce".into(),
        }
    }
}

#[derive(Clone, Debug)]
pub enum SMsg {
    // epoch manager
    EmUpdateConfig(Option<(u64, u64)>), // (duration, genesis)
    EmOwnership(SAction),
    // fee collector
    FcOwnership(SAction),
    // pool manager
    PmCreatePool { denoms: Vec<String>, decimals: Vec<u8>, fees: SFees, amp: Option<u64>, id: Option<String> },
    PmProvide { liq_slip: Option<u128>, swap_slip: Option<u128>, receiver: Option<String>, pool: String, unlock: Option<u64>, lock_id: Option<String> },
    PmSwap { ask: String, belief: Option<u128>, max_slip: Option<u128>, receiver: Option<String>, pool: String },
    PmWithdraw { pool: String },
    PmOwnership(SAction),
    PmRoute { ops: Vec<SSwapOp>, min_receive: Option<u128>, receiver: Option<String>, max_slip: Option<u128> },
    PmUpdateConfig { fc: Option<String>, fm: Option<String>, fee: Option<SCoin>, toggle: Option<(String, Option<bool>, Option<bool>, Option<bool>)> }, // pool, withdrawals, deposits, swaps
    // farm manager
    FmCreateFarm(SFarmParams),
    FmExpandFarm(SFarmParams),
    FmCloseFarm(String),
    FmOwnership(SAction),
    FmClaim(Option<u64>),
    FmPosCreate { id: Option<String>, dur: u64, receiver: Option<String> },
    FmPosExpand(String),
    FmPosClose(String, Option<SCoin>),
    FmPosWithdraw(String, Option<bool>),
    FmUpdateConfig(SFmUpdate),
}

impl SMsg {
    pub fn kind(&self) -> &'static str {
        match self {
            SMsg::EmUpdateConfig(_) => "em_update_config",
            SMsg::EmOwnership(_) => "em_ownership",
            SMsg::FcOwnership(_) => "fc_ownership",
            SMsg::PmCreatePool { .. } => "create_pool",
            SMsg::PmProvide { .. } => "provide",
            SMsg::PmSwap { .. } => "swap",
            SMsg::PmWithdraw { .. } => "withdraw",
            SMsg::PmOwnership(_) => "pm_ownership",
            SMsg::PmRoute { .. } => "route",
            SMsg::PmUpdateConfig { .. } => "pm_update_config",
            SMsg::FmCreateFarm(_) => "farm_create",
            SMsg::FmExpandFarm(_) => "farm_expand",
            SMsg::FmCloseFarm(_) => "farm_close",
            SMsg::FmOwnership(_) => "fm_ownership",
            SMsg::FmClaim(_) => "claim",
            SMsg::FmPosCreate { .. } => "pos_create",
            SMsg::FmPosExpand(_) => "pos_expand",
            SMsg::FmPosClose(..) => "pos_close",
            SMsg::FmPosWithdraw(..) => "pos_withdraw",
            SMsg::FmUpdateConfig(_) => "fm_update_config",
        }
    }
    pub fn target(&self) -> &'static str {
        match self {
            SMsg::EmUpdateConfig(_) | SMsg::EmOwnership(_) => "EM",
            SMsg::FcOwnership(_) => "FC",
            SMsg::PmCreatePool { .. } | SMsg::PmProvide { .. } | SMsg::PmSwap { .. } | SMsg::PmWithdraw { .. }
            | SMsg::PmOwnership(_) | SMsg::PmRoute { .. } | SMsg::PmUpdateConfig { .. } => "PM",
            _ => "FM",
        }
    }
    /// Coq term of type wmsg
    pub fn term(&self) -> String {
        match self {
            SMsg::EmUpdateConfig(c) => format!(
                "(WEm (EmUpdateConfig {}))",
                copt(c.map(|(d, g)| format!("{{| duration := {}; genesis := {} |}}", d, g)))
            ),
            SMsg::EmOwnership(a) => format!("(WEm (EmUpdateOwnership {}))", a.term()),
            SMsg::FcOwnership(a) => format!("(WFc {})", a.term()),
            SMsg::PmCreatePool { denoms, decimals, fees, amp, id } => format!(
                "(WPm (PmCreatePool {} {} {} {} {}))",
                clist(&denoms.iter().map(|d| cstr(d)).collect::<Vec<_>>()),
                clist(&decimals.iter().map(|d| d.to_string()).collect::<Vec<_>>()),
                fees.term(),
                match amp { None => "ConstantProduct".to_string(), Some(a) => format!("(StableSwap {})", a) },
                ostr(id)
            ),
            SMsg::PmProvide { liq_slip, swap_slip, receiver, pool, unlock, lock_id } => format!(
                "(WPm (PmProvide {} {} {} {} {} {}))",
                oz(liq_slip), oz(swap_slip), ostr(receiver), cstr(pool), oz(unlock), ostr(lock_id)
            ),
            SMsg::PmSwap { ask, belief, max_slip, receiver, pool } => format!(
                "(WPm (PmSwap {} {} {} {} {}))",
                cstr(ask), oz(belief), oz(max_slip), ostr(receiver), cstr(pool)
            ),
            SMsg::PmWithdraw { pool } => format!("(WPm (PmWithdraw {}))", cstr(pool)),
            SMsg::PmOwnership(a) => format!("(WPm (PmOwnership {}))", a.term()),
            SMsg::PmRoute { ops, min_receive, receiver, max_slip } => format!(
                "(WPm (PmRoute {} {} {} {}))",
                clist(&ops.iter().map(|o| format!("{{| so_in := {}; so_out := {}; so_pool := {} |}}", cstr(&o.t_in), cstr(&o.t_out), cstr(&o.pool))).collect::<Vec<_>>()),
                oz(min_receive), ostr(receiver), oz(max_slip)
            ),
            SMsg::PmUpdateConfig { fc, fm, fee, toggle } => format!(
                "(WPm (PmUpdateConfig {} {} {} {}))",
                ostr(fc), ostr(fm), copt(fee.as_ref().map(coin_term)),
                copt(toggle.as_ref().map(|(p, w, d, s)| format!(
                    "{{| ft_pool := {}; ft_withdrawals := {}; ft_deposits := {}; ft_swaps := {} |}}",
                    cstr(p), obool(w), obool(d), obool(s))))
            ),
            SMsg::FmCreateFarm(p) => format!("(WFm (FmCreateFarm {}))", p.term()),
            SMsg::FmExpandFarm(p) => format!("(WFm (FmExpandFarm {}))", p.term()),
            SMsg::FmCloseFarm(id) => format!("(WFm (FmCloseFarm {}))", cstr(id)),
            SMsg::FmOwnership(a) => format!("(WFm (FmOwnership {}))", a.term()),
            SMsg::FmClaim(u) => format!("(WFm (FmClaim {}))", oz(u)),
            SMsg::FmPosCreate { id, dur, receiver } => format!("(WFm (FmPosCreate {} {} {}))", ostr(id), dur, ostr(receiver)),
            SMsg::FmPosExpand(id) => format!("(WFm (FmPosExpand {}))", cstr(id)),
            SMsg::FmPosClose(id, lp) => format!("(WFm (FmPosClose {} {}))", cstr(id), copt(lp.as_ref().map(coin_term))),
            SMsg::FmPosWithdraw(id, e) => format!("(WFm (FmPosWithdraw {} {}))", cstr(id), obool(e)),
            SMsg::FmUpdateConfig(u) => format!(
                "(WFm (FmUpdateConfig {{| u_fee_collector := {}; u_epoch_manager := {}; u_pool_manager := {}; u_create_fee := {}; u_max_farms := {}; u_epoch_buffer := {}; u_min_unlock := {}; u_max_unlock := {}; u_expiration := {}; u_penalty := {} |}}))",
                ostr(&u.fee_collector), ostr(&u.epoch_manager), ostr(&u.pool_manager), copt(u.create_fee.as_ref().map(coin_term)),
                oz(&u.max_farms), oz(&u.epoch_buffer), oz(&u.min_unlock), oz(&u.max_unlock), oz(&u.expiration), oz(&u.penalty)
            ),
        }
    }
}

#[derive(Clone, Debug)]
pub enum SQuery {
    Simulation { offer: SCoin, ask: String, pool: String },
    ReverseSimulation { ask: SCoin, offer_denom: String, pool: String },
    SimOps { amount: u128, ops: Vec<SSwapOp> },
    RevSimOps { amount: u128, ops: Vec<SSwapOp> },
    Rewards { addr: String, until: Option<u64> },
}
fn ops_term(ops: &[SSwapOp]) -> String {
    clist(&ops.iter().map(|o| format!("{{| so_in := {}; so_out := {}; so_pool := {} |}}", cstr(&o.t_in), cstr(&o.t_out), cstr(&o.pool))).collect::<Vec<_>>())
}
impl SQuery {
    pub fn term(&self) -> String {
        match self {
            SQuery::Simulation { offer, ask, pool } => format!("QSimulation {} {} {}", coin_term(offer), cstr(ask), cstr(pool)),
            SQuery::ReverseSimulation { ask, offer_denom, pool } => format!("QReverseSimulation {} {} {}", coin_term(ask), cstr(offer_denom), cstr(pool)),
            SQuery::SimOps { amount, ops } => format!("QSimulateOps {} {}", amount, ops_term(ops)),
            SQuery::RevSimOps { amount, ops } => format!("QReverseSimulateOps {} {}", amount, ops_term(ops)),
            SQuery::Rewards { addr, until } => format!("QRewards {} {}", cstr(addr), oz(until)),
        }
    }
    pub fn kind(&self) -> &'static str {
        match self {
            SQuery::Simulation { .. } => "q_simulation",
            SQuery::ReverseSimulation { .. } => "q_reverse_simulation",
            SQuery::SimOps { .. } => "q_simulate_ops",
            SQuery::RevSimOps { .. } => "q_reverse_simulate_ops",
            SQuery::Rewards { .. } => "q_rewards",
        }
    }
}

#[derive(Clone, Debug)]
pub enum SOp {
    SetBlock { height: u64, time: u64 },
    Tx { sender: String, target: String, msg: SMsg, funds: Vec<SCoin> },
    BankSend { from: String, to: String, amount: Vec<SCoin> },
    SetFault(u64),
    Query(SQuery),
}
impl SOp {
    pub fn term(&self) -> String {
        match self {
            SOp::SetBlock { height, time } => format!("COp (SetBlock {{| height := {}; time := {} |}})", height, time),
            SOp::Tx { sender, target, msg, funds } => format!("COp (Tx {} {} {} {})", cstr(sender), cstr(target), msg.term(), coins_term(funds)),
            SOp::BankSend { from, to, amount } => format!("COp (BankSendOp {} {} {})", cstr(from), cstr(to), coins_term(amount)),
            SOp::SetFault(k) => format!("COp (SetFault {})", k),
            SOp::Query(q) => format!("CQuery ({})", q.term()),
        }
    }
    pub fn descr(&self) -> String {
        match self {
            SOp::SetBlock { height, time } => format!("BLOCK height={} time={}", height, time),
            SOp::Tx { sender, target, msg, funds } => format!("TX {} -> {} {:?} funds={:?}", sender, target, msg, funds),
            SOp::BankSend { from, to, amount } => format!("BANK {} -> {} {:?}", from, to, amount),
            SOp::SetFault(k) => format!("FAULT {}", k),
            SOp::Query(q) => format!("QUERY {:?}", q),
        }
    }
}

// ------------------------------------------------------------------ genesis
#[derive(Clone, Debug)]
pub struct Genesis {
    pub height: u64,
    pub time: u64, // nanos
    pub users: Vec<String>,
    pub balances: Vec<(String, Vec<SCoin>)>,
    pub base_denoms: Vec<String>,
    pub tf_fee: Vec<SCoin>,
    pub epoch_duration: u64,
    pub epoch_genesis: u64,
    pub pm_fee: SCoin,
    pub fm_create_fee: SCoin,
    pub fm_max_farms: u32,
    pub fm_epoch_buffer: u32,
    pub fm_min_unlock: u64,
    pub fm_max_unlock: u64,
    pub fm_expiration: u64,
    pub fm_penalty: u128,
}
impl Genesis {
    pub fn term(&self) -> String {
        format!(
            "{{| g_block := {{| height := {}; time := {} |}}; g_valid := {}; g_balances := {}; g_tf_fee := {}; g_owner := {}; g_epoch := {{| duration := {}; genesis := {} |}}; g_pm_fee := {}; g_fm := {{| fm_epoch_manager := \"EM\"; fm_fee_collector := \"FC\"; fm_pool_manager := \"PM\"; fm_create_fee := {}; fm_max_farms := {}; fm_epoch_buffer := {}; fm_min_unlock := {}; fm_max_unlock := {}; fm_expiration := {}; fm_penalty := {} |}} |}}",
            self.height, self.time,
            clist(&self.users.iter().map(|u| cstr(u)).collect::<Vec<_>>()),
            clist(&self.balances.iter().map(|(a, cs)| format!("({}, {})", cstr(a), coins_term(cs))).collect::<Vec<_>>()),
            coins_term(&self.tf_fee), cstr(&self.users[0]),
            self.epoch_duration, self.epoch_genesis, coin_term(&self.pm_fee), coin_term(&self.fm_create_fee),
            self.fm_max_farms, self.fm_epoch_buffer, self.fm_min_unlock, self.fm_max_unlock, self.fm_expiration, self.fm_penalty
        )
    }
    pub fn descr(&self) -> String {
        format!("GENESIS {:?}", self)
    }
}

pub struct Sim {
    pub app: DexApp,
    pub users: Vec<(String, Addr)>,
    pub em: Addr,
    pub fc: Addr,
    pub pm: Addr,
    pub fm: Addr,
    pub base_denoms: Vec<String>,
    pub fault: Rc<Cell<i64>>,
    pub bank_calls: Rc<Cell<i64>>,
    /// amounts reported by the last accepted direct Swap (event attributes): return, slippage, swap/protocol/burn/extra fees
    pub last_swap_attrs: Option<Vec<u128>>,
}

fn rcoin(c: &SCoin, s: &Sim) -> Coin {
    coin(c.1, s.real_denom(&c.0))
}

impl Sim {
    pub fn new(g: &Genesis) -> Option<Sim> {
        let api = MockApiBech32::new("mantra");
        let users: Vec<(String, Addr)> = g.users.iter().map(|u| (u.clone(), api.addr_make(u))).collect();
        let fault = Rc::new(Cell::new(-1));
        let calls = Rc::new(Cell::new(0));
        let bank = FaultyBank { inner: BankKeeper::new(), counter: fault.clone(), calls: calls.clone() };
        let bal: Vec<(Addr, Vec<Coin>)> = g
            .balances
            .iter()
            .map(|(u, cs)| {
                (users.iter().find(|x| &x.0 == u).unwrap().1.clone(), cs.iter().map(|c| coin(c.1, c.0.clone())).collect())
            })
            .collect();
        let tf: Vec<Coin> = g.tf_fee.iter().map(|c| coin(c.1, c.0.clone())).collect();
        let mut app: DexApp = AppBuilder::new()
            .with_api(MockApiBech32::new("mantra"))
            .with_wasm(WasmKeeper::default())
            .with_bank(bank)
            .with_stargate(StargateMock::new(tf))
            .build(|router, _api, storage| {
                for (a, cs) in bal {
                    if !cs.is_empty() {
                        router.bank.inner.init_balance(storage, &a, cs).unwrap();
                    }
                }
            });
        app.set_block(BlockInfo { height: g.height, time: Timestamp::from_nanos(g.time), chain_id: "mantra-1".into() });
        let owner = users[0].1.clone();
        let em_code = app.store_code(crate::epoch::epoch_manager_contract());
        let fc_code = app.store_code(c_fc());
        let fm_code = app.store_code(c_fm());
        let pm_code = app.store_code(c_pm());
        let em = guarded(|| {
            app.instantiate_contract(
                em_code,
                owner.clone(),
                &mantra_dex_std::epoch_manager::InstantiateMsg {
                    owner: owner.to_string(),
                    epoch_config: EpochConfig { duration: Uint64::new(g.epoch_duration), genesis_epoch: Uint64::new(g.epoch_genesis) },
                },
                &[],
                "em",
                None,
            )
        })?
        .ok()?;
        let fc = app
            .instantiate_contract(fc_code, owner.clone(), &mantra_dex_std::fee_collector::InstantiateMsg {}, &[], "fc", None)
            .ok()?;
        let fm = guarded(|| {
            app.instantiate_contract(
                fm_code,
                owner.clone(),
                &fmm::InstantiateMsg {
                    owner: owner.to_string(),
                    epoch_manager_addr: em.to_string(),
                    fee_collector_addr: fc.to_string(),
                    pool_manager_addr: "".to_string(),
                    create_farm_fee: coin(g.fm_create_fee.1, g.fm_create_fee.0.clone()),
                    max_concurrent_farms: g.fm_max_farms,
                    max_farm_epoch_buffer: g.fm_epoch_buffer,
                    min_unlocking_duration: g.fm_min_unlock,
                    max_unlocking_duration: g.fm_max_unlock,
                    farm_expiration_time: g.fm_expiration,
                    emergency_unlock_penalty: Decimal::new(Uint128::new(g.fm_penalty)),
                },
                &[],
                "fm",
                None,
            )
        })?
        .ok()?;
        let pm = app
            .instantiate_contract(
                pm_code,
                owner.clone(),
                &pmm::InstantiateMsg {
                    fee_collector_addr: fc.to_string(),
                    farm_manager_addr: fm.to_string(),
                    pool_creation_fee: coin(g.pm_fee.1, g.pm_fee.0.clone()),
                },
                &[],
                "pm",
                None,
            )
            .ok()?;
        app.execute_contract(
            owner.clone(),
            fm.clone(),
            &fmm::ExecuteMsg::UpdateConfig {
                fee_collector_addr: None,
                epoch_manager_addr: None,
                pool_manager_addr: Some(pm.to_string()),
                create_farm_fee: None,
                max_concurrent_farms: None,
                max_farm_epoch_buffer: None,
                min_unlocking_duration: None,
                max_unlocking_duration: None,
                farm_expiration_time: None,
                emergency_unlock_penalty: None,
            },
            &[],
        )
        .ok()?;
        Some(Sim { app, users, em, fc, pm, fm, base_denoms: g.base_denoms.clone(), fault, bank_calls: calls, last_swap_attrs: None })
    }

    pub fn real_addr(&self, s: &str) -> String {
        match s {
            "EM" => self.em.to_string(),
            "FC" => self.fc.to_string(),
            "PM" => self.pm.to_string(),
            "FM" => self.fm.to_string(),
            _ => match self.users.iter().find(|u| u.0 == s) {
                Some(u) => u.1.to_string(),
                None => s.to_string(),
            },
        }
    }
    pub fn real_denom(&self, d: &str) -> String {
        if let Some(rest) = d.strip_prefix("factory/") {
            if let Some(i) = rest.find('/') {
                return format!("factory/{}/{}", self.real_addr(&rest[..i]), &rest[i + 1..]);
            }
        }
        d.to_string()
    }
    pub fn sym(&self, s: &str) -> String {
        let mut o = s.to_string();
        for (n, a) in [("EM", &self.em), ("FC", &self.fc), ("PM", &self.pm), ("FM", &self.fm)] {
            o = o.replace(a.as_str(), n);
        }
        for (n, a) in &self.users {
            o = o.replace(a.as_str(), n);
        }
        o
    }
    fn raddr(&self, o: &Option<String>) -> Option<String> {
        o.as_ref().map(|s| self.real_addr(s))
    }
    fn dec(o: &Option<u128>) -> Option<Decimal> {
        o.map(|a| Decimal::new(Uint128::new(a)))
    }
    fn action(&self, a: &SAction) -> cw_ownable::Action {
        match a {
            SAction::Transfer(n, e) => cw_ownable::Action::TransferOwnership { new_owner: self.real_addr(n), expiry: e.clone() },
            SAction::Accept => cw_ownable::Action::AcceptOwnership,
            SAction::Renounce => cw_ownable::Action::RenounceOwnership,
        }
    }
    fn farm_params(&self, p: &SFarmParams) -> fmm::FarmParams {
        fmm::FarmParams {
            lp_denom: self.real_denom(&p.lp),
            start_epoch: p.start,
            preliminary_end_epoch: p.end,
            curve: None,
            farm_asset: rcoin(&p.asset, self),
            farm_identifier: p.id.clone(),
        }
    }

    /// executes a transaction on the real contracts; true = accepted
    pub fn exec(&mut self, sender: &str, target: &str, msg: &SMsg, funds: &[SCoin]) -> bool {
        let sender_a = Addr::unchecked(self.real_addr(sender));
        let target_a = Addr::unchecked(self.real_addr(target));
        let f: Vec<Coin> = funds.iter().map(|c| rcoin(c, self)).collect();
        let r: Option<AnyResult<AppResponse>> = match msg {
            SMsg::EmUpdateConfig(c) => {
                let m = mantra_dex_std::epoch_manager::ExecuteMsg::UpdateConfig {
                    epoch_config: c.map(|(d, g)| EpochConfig { duration: Uint64::new(d), genesis_epoch: Uint64::new(g) }),
                };
                guarded(|| self.app.execute_contract(sender_a, target_a, &m, &f))
            }
            SMsg::EmOwnership(a) => {
                let m = mantra_dex_std::epoch_manager::ExecuteMsg::UpdateOwnership(self.action(a));
                guarded(|| self.app.execute_contract(sender_a, target_a, &m, &f))
            }
            SMsg::FcOwnership(a) => {
                let m = mantra_dex_std::fee_collector::ExecuteMsg::UpdateOwnership(self.action(a));
                guarded(|| self.app.execute_contract(sender_a, target_a, &m, &f))
            }
            SMsg::PmCreatePool { .. } | SMsg::PmProvide { .. } | SMsg::PmSwap { .. } | SMsg::PmWithdraw { .. }
            | SMsg::PmOwnership(_) | SMsg::PmRoute { .. } | SMsg::PmUpdateConfig { .. } => {
                let m = self.pm_msg(msg);
                guarded(|| self.app.execute_contract(sender_a, target_a, &m, &f))
            }
            _ => {
                let m = self.fm_msg(msg);
                guarded(|| self.app.execute_contract(sender_a, target_a, &m, &f))
            }
        };
        self.last_swap_attrs = None;
        if let (SMsg::PmSwap { .. }, Some(Ok(resp))) = (msg, &r) {
            // the amounts the swap itself reports (first wasm event of the pool manager with action = swap)
            for e in resp.events.iter().filter(|e| e.ty == "wasm") {
                let get = |k: &str| e.attributes.iter().find(|a| a.key == k).map(|a| a.value.clone());
                if get("action").as_deref() == Some("swap") {
                    let keys = ["return_amount", "slippage_amount", "swap_fee_amount", "protocol_fee_amount", "burn_fee_amount", "extra_fees_amount"];
                    let vals: Vec<u128> = keys.iter().filter_map(|k| get(k).and_then(|v| v.parse::<u128>().ok())).collect();
                    if vals.len() == keys.len() { self.last_swap_attrs = Some(vals); }
                    break;
                }
            }
        }
        matches!(r, Some(Ok(_)))
    }

    pub fn pm_msg(&self, msg: &SMsg) -> pmm::ExecuteMsg {
        match msg {
            SMsg::PmCreatePool { denoms, decimals, fees, amp, id } => pmm::ExecuteMsg::CreatePool {
                asset_denoms: denoms.iter().map(|d| self.real_denom(d)).collect(),
                asset_decimals: decimals.clone(),
                pool_fees: fees.real(),
                pool_type: match amp { None => pmm::PoolType::ConstantProduct, Some(a) => pmm::PoolType::StableSwap { amp: *a } },
                pool_identifier: id.clone(),
            },
            SMsg::PmProvide { liq_slip, swap_slip, receiver, pool, unlock, lock_id } => pmm::ExecuteMsg::ProvideLiquidity {
                liquidity_max_slippage: Self::dec(liq_slip),
                swap_max_slippage: Self::dec(swap_slip),
                receiver: self.raddr(receiver),
                pool_identifier: pool.clone(),
                unlocking_duration: *unlock,
                lock_position_identifier: lock_id.clone(),
            },
            SMsg::PmSwap { ask, belief, max_slip, receiver, pool } => pmm::ExecuteMsg::Swap {
                ask_asset_denom: self.real_denom(ask),
                belief_price: Self::dec(belief),
                max_slippage: Self::dec(max_slip),
                receiver: self.raddr(receiver),
                pool_identifier: pool.clone(),
            },
            SMsg::PmWithdraw { pool } => pmm::ExecuteMsg::WithdrawLiquidity { pool_identifier: pool.clone() },
            SMsg::PmOwnership(a) => pmm::ExecuteMsg::UpdateOwnership(self.action(a)),
            SMsg::PmRoute { ops, min_receive, receiver, max_slip } => pmm::ExecuteMsg::ExecuteSwapOperations {
                operations: ops
                    .iter()
                    .map(|o| pmm::SwapOperation::MantraSwap {
                        token_in_denom: self.real_denom(&o.t_in),
                        token_out_denom: self.real_denom(&o.t_out),
                        pool_identifier: o.pool.clone(),
                    })
                    .collect(),
                minimum_receive: min_receive.map(Uint128::new),
                receiver: self.raddr(receiver),
                max_slippage: Self::dec(max_slip),
            },
            SMsg::PmUpdateConfig { fc, fm, fee, toggle } => pmm::ExecuteMsg::UpdateConfig {
                fee_collector_addr: self.raddr(fc),
                farm_manager_addr: self.raddr(fm),
                pool_creation_fee: fee.as_ref().map(|c| rcoin(c, self)),
                feature_toggle: toggle.as_ref().map(|(p, w, d, s)| pmm::FeatureToggle {
                    pool_identifier: p.clone(),
                    withdrawals_enabled: *w,
                    deposits_enabled: *d,
                    swaps_enabled: *s,
                }),
            },
            _ => unreachable!(),
        }
    }

    pub fn fm_msg(&self, msg: &SMsg) -> fmm::ExecuteMsg {
        match msg {
            SMsg::FmCreateFarm(p) => fmm::ExecuteMsg::ManageFarm { action: fmm::FarmAction::Create { params: self.farm_params(p) } },
            SMsg::FmExpandFarm(p) => fmm::ExecuteMsg::ManageFarm { action: fmm::FarmAction::Expand { params: self.farm_params(p) } },
            SMsg::FmCloseFarm(id) => fmm::ExecuteMsg::ManageFarm { action: fmm::FarmAction::Close { farm_identifier: id.clone() } },
            SMsg::FmOwnership(a) => fmm::ExecuteMsg::UpdateOwnership(self.action(a)),
            SMsg::FmClaim(u) => fmm::ExecuteMsg::Claim { until_epoch: *u },
            SMsg::FmPosCreate { id, dur, receiver } => fmm::ExecuteMsg::ManagePosition {
                action: fmm::PositionAction::Create { identifier: id.clone(), unlocking_duration: *dur, receiver: self.raddr(receiver) },
            },
            SMsg::FmPosExpand(id) => fmm::ExecuteMsg::ManagePosition { action: fmm::PositionAction::Expand { identifier: id.clone() } },
            SMsg::FmPosClose(id, lp) => fmm::ExecuteMsg::ManagePosition {
                action: fmm::PositionAction::Close { identifier: id.clone(), lp_asset: lp.as_ref().map(|c| rcoin(c, self)) },
            },
            SMsg::FmPosWithdraw(id, e) => fmm::ExecuteMsg::ManagePosition {
                action: fmm::PositionAction::Withdraw { identifier: id.clone(), emergency_unlock: *e },
            },
            SMsg::FmUpdateConfig(u) => fmm::ExecuteMsg::UpdateConfig {
                fee_collector_addr: self.raddr(&u.fee_collector),
                epoch_manager_addr: self.raddr(&u.epoch_manager),
                pool_manager_addr: self.raddr(&u.pool_manager),
                create_farm_fee: u.create_fee.as_ref().map(|c| rcoin(c, self)),
                max_concurrent_farms: u.max_farms,
                max_farm_epoch_buffer: u.epoch_buffer,
                min_unlocking_duration: u.min_unlock,
                max_unlocking_duration: u.max_unlock,
                farm_expiration_time: u.expiration,
                emergency_unlock_penalty: Self::dec(&u.penalty),
            },
            _ => unreachable!(),
        }
    }

    /// applies an op; returns ok flag (mirrors Chain.step)
    pub fn step(&mut self, op: &SOp) -> bool {
        match op {
            SOp::SetBlock { height, time } => {
                self.app.set_block(BlockInfo { height: *height, time: Timestamp::from_nanos(*time), chain_id: "mantra-1".into() });
                true
            }
            SOp::Tx { sender, target, msg, funds } => {
                self.bank_calls.set(0);
                let ok = self.exec(sender, target, msg, funds);
                self.fault.set(-1);
                ok
            }
            SOp::BankSend { from, to, amount } => {
                let f: Vec<Coin> = amount.iter().map(|c| rcoin(c, self)).collect();
                let from_a = Addr::unchecked(self.real_addr(from));
                let to_s = self.real_addr(to);
                let r = guarded(|| self.app.send_tokens(from_a, Addr::unchecked(to_s), &f));
                matches!(r, Some(Ok(_)))
            }
            SOp::SetFault(k) => {
                self.fault.set(*k as i64);
                true
            }
            SOp::Query(_) => true,
        }
    }

    fn real_ops(&self, ops: &[SSwapOp]) -> Vec<pmm::SwapOperation> {
        ops.iter()
            .map(|o| pmm::SwapOperation::MantraSwap {
                token_in_denom: self.real_denom(&o.t_in),
                token_out_denom: self.real_denom(&o.t_out),
                pool_identifier: o.pool.clone(),
            })
            .collect()
    }

    /// answers a query on the real contracts (canonical form shared with CasesChain.run_query)
    pub fn query(&self, q: &SQuery) -> Val {
        match q {
            SQuery::Simulation { offer, ask, pool } => {
                let r: Option<Result<pmm::SimulationResponse, _>> = guarded(|| {
                    self.app.wrap().query_wasm_smart(&self.pm, &pmm::QueryMsg::Simulation {
                        offer_asset: rcoin(offer, self), ask_asset_denom: self.real_denom(ask), pool_identifier: pool.clone() })
                });
                match r {
                    Some(Ok(s)) => vl(vec![vz(1), vl(vec![vz(s.return_amount), vz(s.slippage_amount), vz(s.swap_fee_amount), vz(s.protocol_fee_amount), vz(s.burn_fee_amount), vz(s.extra_fees_amount)])]),
                    _ => vl(vec![vz(0)]),
                }
            }
            SQuery::ReverseSimulation { ask, offer_denom, pool } => {
                let r: Option<Result<pmm::ReverseSimulationResponse, _>> = guarded(|| {
                    self.app.wrap().query_wasm_smart(&self.pm, &pmm::QueryMsg::ReverseSimulation {
                        ask_asset: rcoin(ask, self), offer_asset_denom: self.real_denom(offer_denom), pool_identifier: pool.clone() })
                });
                match r {
                    Some(Ok(s)) => vl(vec![vz(1), vl(vec![vz(s.offer_amount), vz(s.slippage_amount), vz(s.swap_fee_amount), vz(s.protocol_fee_amount), vz(s.burn_fee_amount), vz(s.extra_fees_amount)])]),
                    _ => vl(vec![vz(0)]),
                }
            }
            SQuery::SimOps { amount, ops } => {
                let r: Option<Result<pmm::SimulateSwapOperationsResponse, _>> = guarded(|| {
                    self.app.wrap().query_wasm_smart(&self.pm, &pmm::QueryMsg::SimulateSwapOperations { offer_amount: Uint128::new(*amount), operations: self.real_ops(ops) })
                });
                match r { Some(Ok(s)) => vl(vec![vz(1), vz(s.return_amount)]), _ => vl(vec![vz(0)]) }
            }
            SQuery::RevSimOps { amount, ops } => {
                let r: Option<Result<pmm::ReverseSimulateSwapOperationsResponse, _>> = guarded(|| {
                    self.app.wrap().query_wasm_smart(&self.pm, &pmm::QueryMsg::ReverseSimulateSwapOperations { ask_amount: Uint128::new(*amount), operations: self.real_ops(ops) })
                });
                match r { Some(Ok(s)) => vl(vec![vz(1), vz(s.offer_amount)]), _ => vl(vec![vz(0)]) }
            }
            SQuery::Rewards { addr, until } => {
                let r: Option<Result<fmm::RewardsResponse, _>> = guarded(|| {
                    self.app.wrap().query_wasm_smart(&self.fm, &fmm::QueryMsg::Rewards { address: self.real_addr(addr), until_epoch: *until })
                });
                match r {
                    Some(Ok(fmm::RewardsResponse::RewardsResponse { total_rewards, .. })) => vl(vec![vz(1), vl(total_rewards.iter().map(|c| self.v_coin(c)).collect())]),
                    _ => vl(vec![vz(0)]),
                }
            }
        }
    }

    // ---------------------------------------------------------------- queries used by snapshot / generators
    pub fn pools(&self) -> Vec<pmm::PoolInfoResponse> {
        let mut out: Vec<pmm::PoolInfoResponse> = vec![];
        let mut start: Option<String> = None;
        loop {
            let r: pmm::PoolsResponse = self
                .app
                .wrap()
                .query_wasm_smart(&self.pm, &pmm::QueryMsg::Pools { pool_identifier: None, start_after: start.clone(), limit: Some(100) })
                .unwrap();
            let n = r.pools.len();
            if n == 0 {
                break;
            }
            start = Some(r.pools[n - 1].pool_info.pool_identifier.clone());
            out.extend(r.pools);
            if n < 100 {
                break;
            }
        }
        out
    }
    pub fn positions(&self) -> Vec<fmm::Position> {
        let mut out: Vec<fmm::Position> = vec![];
        let mut start: Option<String> = None;
        loop {
            let r: fmm::PositionsResponse = self
                .app
                .wrap()
                .query_wasm_smart(&self.fm, &fmm::QueryMsg::Positions { filter_by: None, open_state: None, start_after: start.clone(), limit: Some(10) })
                .unwrap();
            let n = r.positions.len();
            if n == 0 {
                break;
            }
            start = Some(r.positions[n - 1].identifier.clone());
            out.extend(r.positions);
            if n < 10 {
                break;
            }
        }
        out
    }
    pub fn farms(&self) -> Vec<fmm::Farm> {
        let mut out: Vec<fmm::Farm> = vec![];
        let mut start: Option<String> = None;
        loop {
            let r: fmm::FarmsResponse = self
                .app
                .wrap()
                .query_wasm_smart(&self.fm, &fmm::QueryMsg::Farms { filter_by: None, start_after: start.clone(), limit: Some(100) })
                .unwrap();
            let n = r.farms.len();
            if n == 0 {
                break;
            }
            start = Some(r.farms[n - 1].identifier.clone());
            out.extend(r.farms);
            if n < 100 {
                break;
            }
        }
        out
    }
    pub fn balance(&self, addr_sym: &str, denom_sym: &str) -> u128 {
        self.app.wrap().query_balance(self.real_addr(addr_sym), self.real_denom(denom_sym)).unwrap().amount.u128()
    }
    pub fn supply(&self, denom_sym: &str) -> u128 {
        self.app.wrap().query_supply(self.real_denom(denom_sym)).unwrap().amount.u128()
    }
    pub fn current_epoch(&self) -> Option<u64> {
        let r = guarded(|| {
            self.app.wrap().query_wasm_smart::<mantra_dex_std::epoch_manager::EpochResponse>(&self.em, &mantra_dex_std::epoch_manager::QueryMsg::CurrentEpoch {})
        });
        match r {
            Some(Ok(e)) => Some(e.epoch.id),
            _ => None,
        }
    }
    pub fn block(&self) -> BlockInfo {
        self.app.block_info()
    }
    fn raw_u64(&self, addr: &Addr, key: &[u8]) -> u64 {
        match self.app.wrap().query_wasm_raw(addr, key.to_vec()).unwrap() {
            Some(v) => String::from_utf8(v).unwrap().trim_matches('"').parse().unwrap(),
            None => 0,
        }
    }
    fn raw_present(&self, addr: &Addr, key: &[u8]) -> bool {
        self.app.wrap().query_wasm_raw(addr, key.to_vec()).unwrap().is_some()
    }
    fn ownership(&self, addr: &Addr) -> Val {
        // every contract answers {"ownership":{}}
        let o: cw_ownable::Ownership<Addr> = self.app.wrap().query_wasm_smart(addr, &pmm::QueryMsg::Ownership {}).unwrap();
        crate::epoch::v_ownership(&o, &|s: &str| self.sym(s))
    }
    fn v_coin(&self, c: &Coin) -> Val {
        vl(vec![vs(self.sym(&c.denom)), vz(c.amount.u128())])
    }

    /// all (address, lp, epoch) -> weight entries of the farm manager, from its raw storage
    pub fn weights(&self) -> Vec<(String, String, u64, u128)> {
        let mut out = vec![];
        for (k, v) in self.app.dump_wasm_raw(&self.fm) {
            // key layout: len(2) "lp_weight_history" len(2) addr len(2) denom epoch(8)
            let ns = b"lp_weight_history";
            if k.len() > 2 + ns.len() && k[0] == 0 && k[1] as usize == ns.len() && &k[2..2 + ns.len()] == ns {
                let mut p = 2 + ns.len();
                let l1 = ((k[p] as usize) << 8) | k[p + 1] as usize;
                p += 2;
                let addr = String::from_utf8(k[p..p + l1].to_vec()).unwrap();
                p += l1;
                let l2 = ((k[p] as usize) << 8) | k[p + 1] as usize;
                p += 2;
                let denom = String::from_utf8(k[p..p + l2].to_vec()).unwrap();
                p += l2;
                let mut e = [0u8; 8];
                e.copy_from_slice(&k[p..p + 8]);
                let epoch = u64::from_be_bytes(e);
                let w: u128 = String::from_utf8(v).unwrap().trim_matches('"').parse().unwrap();
                out.push((self.sym(&addr), self.sym(&denom), epoch, w));
            }
        }
        out.sort();
        out
    }
    pub fn last_claimed(&self, user_sym: &str) -> Option<u64> {
        let a = Addr::unchecked(self.real_addr(user_sym));
        farm_manager::state::LAST_CLAIMED_EPOCH.query(&self.app.wrap(), self.fm.clone(), &a).unwrap()
    }

    /// canonical snapshot; mirrors `snapshot` in coq/Model/Chain.v
    pub fn snapshot(&self) -> Val {
        let pools = self.pools();
        let mut addrs: Vec<String> = vec!["EM".into(), "FC".into(), "PM".into(), "FM".into()];
        addrs.extend(self.users.iter().map(|u| u.0.clone()));
        let mut denoms: Vec<String> = self.base_denoms.clone();
        denoms.extend(pools.iter().map(|p| self.sym(&p.pool_info.lp_denom)));
        let balances = vl(addrs.iter().map(|a| vl(denoms.iter().map(|d| vz(self.balance(a, d))).collect())).collect());
        let supplies = vl(denoms.iter().map(|d| vz(self.supply(d))).collect());
        let emc: mantra_dex_std::epoch_manager::ConfigResponse =
            self.app.wrap().query_wasm_smart(&self.em, &mantra_dex_std::epoch_manager::QueryMsg::Config {}).unwrap();
        let em = vl(vec![vl(vec![vz(emc.epoch_config.duration.u64()), vz(emc.epoch_config.genesis_epoch.u64())]), self.ownership(&self.em)]);
        let fc = self.ownership(&self.fc);
        let pmc: pmm::Config = self.app.wrap().query_wasm_smart(&self.pm, &pmm::QueryMsg::Config {}).unwrap();
        let pm = vl(vec![
            vl(vec![vs(self.sym(pmc.fee_collector_addr.as_str())), vs(self.sym(pmc.farm_manager_addr.as_str())), self.v_coin(&pmc.pool_creation_fee)]),
            self.ownership(&self.pm),
            vz(self.raw_u64(&self.pm, b"pool_count")),
            vbool(self.raw_present(&self.pm, b"single_side_liquidity_provision_buffer")),
        ]);
        let vpools = vl(pools.iter().map(|p| self.v_pool(&p.pool_info)).collect());
        let fmc: fmm::Config = self.app.wrap().query_wasm_smart(&self.fm, &fmm::QueryMsg::Config {}).unwrap();
        let fm = vl(vec![
            vl(vec![
                vs(self.sym(fmc.epoch_manager_addr.as_str())),
                vs(self.sym(fmc.fee_collector_addr.as_str())),
                vs(self.sym(fmc.pool_manager_addr.as_str())),
                self.v_coin(&fmc.create_farm_fee),
                vz(fmc.max_concurrent_farms),
                vz(fmc.max_farm_epoch_buffer),
                vz(fmc.min_unlocking_duration),
                vz(fmc.max_unlocking_duration),
                vz(fmc.farm_expiration_time),
                vz(fmc.emergency_unlock_penalty.atomics().u128()),
            ]),
            self.ownership(&self.fm),
            vz(self.raw_u64(&self.fm, b"position_id_counter")),
            vz(self.raw_u64(&self.fm, b"farm_counter")),
        ]);
        let positions = vl(self.positions().iter().map(|p| self.v_position(p)).collect());
        let farms = vl(self.farms().iter().map(|f| self.v_farm(f)).collect());
        let lc = vl(self.users.iter().map(|u| vopt(self.last_claimed(&u.0), vz)).collect());
        let ws = vl(self.weights().iter().map(|(a, d, e, w)| vl(vec![vs(a), vs(d), vz(e), vz(w)])).collect());
        vl(vec![balances, supplies, em, fc, pm, vpools, fm, positions, farms, lc, ws])
    }
    pub fn v_pool(&self, p: &pmm::PoolInfo) -> Val {
        vl(vec![
            vs(&p.pool_identifier),
            vl(p.asset_denoms.iter().map(|d| vs(self.sym(d))).collect()),
            vl(p.asset_decimals.iter().map(vz).collect()),
            vl(p.assets.iter().map(|c| self.v_coin(c)).collect()),
            match p.pool_type {
                pmm::PoolType::ConstantProduct => vl(vec![vz(0)]),
                pmm::PoolType::StableSwap { amp } => vl(vec![vz(1), vz(amp)]),
            },
            vs(self.sym(&p.lp_denom)),
            vl(vec![
                vz(p.pool_fees.protocol_fee.share.atomics().u128()),
                vz(p.pool_fees.swap_fee.share.atomics().u128()),
                vz(p.pool_fees.burn_fee.share.atomics().u128()),
                vl(p.pool_fees.extra_fees.iter().map(|f| vz(f.share.atomics().u128())).collect()),
            ]),
            vl(vec![vbool(p.status.swaps_enabled), vbool(p.status.deposits_enabled), vbool(p.status.withdrawals_enabled)]),
        ])
    }
    pub fn v_position(&self, p: &fmm::Position) -> Val {
        vl(vec![
            vs(&p.identifier),
            self.v_coin(&p.lp_asset),
            vz(p.unlocking_duration),
            vbool(p.open),
            vopt(p.expiring_at, vz),
            vs(self.sym(p.receiver.as_str())),
        ])
    }
    pub fn v_farm(&self, f: &fmm::Farm) -> Val {
        vl(vec![
            vs(&f.identifier),
            vs(self.sym(f.owner.as_str())),
            vs(self.sym(&f.lp_denom)),
            self.v_coin(&f.farm_asset),
            vz(f.claimed_amount.u128()),
            vz(f.emission_rate.u128()),
            vz(f.start_epoch),
            vz(f.preliminary_end_epoch),
        ])
    }
}
