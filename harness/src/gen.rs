//! Adaptive, structured script generator: runs the implementation while generating so that operations
//! are mostly valid and aimed at boundaries; a separate stream of malformed operations is mixed in.
use crate::rng::Rng;
use crate::sim::*;
use cosmwasm_std::coin;
use mantra_dex_std::pool_manager as pmm;

pub const DEC: u128 = 1_000_000_000_000_000_000;
pub const DAY: u64 = 86_400;
pub const NANOS: u64 = 1_000_000_000;

pub struct Profile {
    pub w_create_pool: u64,
    pub w_provide: u64,
    pub w_swap: u64,
    pub w_route: u64,
    pub w_withdraw: u64,
    pub w_pm_config: u64,
    pub w_donate: u64,
    pub w_block: u64,
    pub w_farm: u64,
    pub w_position: u64,
    pub w_claim: u64,
    pub w_fm_config: u64,
    pub w_ownership: u64,
    pub w_malformed: u64,
    pub stableswap: bool,
    pub lock_via_pm: bool,
}
impl Profile {
    pub fn pool() -> Profile {
        Profile { w_create_pool: 6, w_provide: 22, w_swap: 24, w_route: 8, w_withdraw: 10, w_pm_config: 4, w_donate: 2, w_block: 2,
                  w_farm: 0, w_position: 0, w_claim: 0, w_fm_config: 0, w_ownership: 1, w_malformed: 6, stableswap: true, lock_via_pm: true }
    }
    pub fn farm() -> Profile {
        Profile { w_create_pool: 2, w_provide: 6, w_swap: 1, w_route: 0, w_withdraw: 1, w_pm_config: 0, w_donate: 0, w_block: 16,
                  w_farm: 12, w_position: 26, w_claim: 14, w_fm_config: 2, w_ownership: 1, w_malformed: 4, stableswap: false, lock_via_pm: true }
    }
    pub fn mixed() -> Profile {
        Profile { w_create_pool: 4, w_provide: 14, w_swap: 12, w_route: 4, w_withdraw: 6, w_pm_config: 2, w_donate: 1, w_block: 10,
                  w_farm: 8, w_position: 16, w_claim: 8, w_fm_config: 1, w_ownership: 1, w_malformed: 5, stableswap: true, lock_via_pm: true }
    }
}

pub const BASE_DENOMS: [(&str, u8); 5] = [("uom", 6), ("uusd", 6), ("uusdc", 6), ("ubtc", 8), ("aweth", 18)];

pub fn default_genesis(r: &mut Rng) -> Genesis {
    let t0 = 1_714_000_000u64 + r.below(1_000_000);
    let users: Vec<String> = ["owner", "alice", "bob", "carol"].iter().map(|s| s.to_string()).collect();
    let base: Vec<String> = BASE_DENOMS.iter().map(|d| d.0.to_string()).collect();
    let big = 10u128.pow(33);
    let balances = users.iter().map(|u| (u.clone(), base.iter().map(|d| (d.clone(), big)).collect())).collect();
    let tf_fee = match r.below(6) {
        0 => vec![("uom".to_string(), 1000), ("uusd".to_string(), 500)],
        1 => vec![("uusd".to_string(), 700)],
        _ => vec![("uom".to_string(), 1000)],
    };
    let pm_fee = match r.below(5) {
        0 => ("uom".to_string(), 500),
        1 => ("uusd".to_string(), 0),
        2 => ("uusdc".to_string(), 250),
        _ => ("uusd".to_string(), 1000),
    };
    let fm_fee = match r.below(5) {
        0 => ("uom".to_string(), 0),
        1 => ("uusd".to_string(), 0),
        2 => ("uusd".to_string(), 1000),
        _ => ("uom".to_string(), 1000),
    };
    let dur = [DAY, DAY, DAY, 2 * DAY, DAY + 1][r.below(5) as usize];
    Genesis {
        height: 1000,
        time: t0 * NANOS,
        users,
        balances,
        base_denoms: base,
        tf_fee,
        epoch_duration: dur,
        epoch_genesis: t0 + [0, 0, 100, DAY][r.below(4) as usize],
        pm_fee,
        fm_create_fee: fm_fee,
        fm_max_farms: [1, 2, 3, 5][r.below(4) as usize],
        fm_epoch_buffer: [1, 2, 14][r.below(3) as usize],
        fm_min_unlock: DAY,
        fm_max_unlock: [31_556_926, 31_536_000, 30 * DAY][r.below(3) as usize],
        fm_expiration: 2_629_746,
        fm_penalty: [0, DEC / 10, DEC / 50, DEC / 2, DEC][r.below(5) as usize],
    }
}

pub struct Gen {
    pub rng: Rng,
    pub sim: Sim,
    pub prof: Profile,
    pub ops: Vec<SOp>,
    pub oks: Vec<bool>,
    pub obs: Vec<crate::val::Val>,
    pub id_seq: u64,
    pub tf_fee_cache: Vec<SCoin>,
    pub hist: std::collections::BTreeMap<String, u64>,
}

fn fees_choice(r: &mut Rng) -> SFees {
    let p = |x: u128| x * DEC / 10_000; // basis points
    match r.below(8) {
        0 => SFees { protocol: 0, swap: 0, burn: 0, extra: vec![] },
        1 => SFees { protocol: p(10), swap: p(30), burn: 0, extra: vec![] },
        2 => SFees { protocol: p(100), swap: p(200), burn: p(50), extra: vec![p(25), p(25)] },
        3 => SFees { protocol: p(500), swap: p(500), burn: p(500), extra: vec![p(500)] }, // exactly 20%
        4 => SFees { protocol: p(500), swap: p(500), burn: p(500), extra: vec![p(500), 1] }, // 20% + 1e-18: rejected
        5 => SFees { protocol: 1, swap: 3, burn: 7, extra: vec![] },
        6 => SFees { protocol: p(1), swap: p(3000), burn: 0, extra: vec![] }, // > 20%: rejected
        _ => SFees { protocol: p(20), swap: p(25), burn: p(5), extra: vec![p(1)] },
    }
}

impl Gen {
    pub fn users(&self) -> Vec<String> {
        self.sim.users.iter().map(|u| u.0.clone()).collect()
    }
    pub fn user(&mut self) -> String {
        let n = self.sim.users.len() as u64;
        self.sim.users[self.rng.below(n) as usize].0.clone()
    }
    pub fn nonowner(&mut self) -> String {
        let n = self.sim.users.len() as u64;
        self.sim.users[1 + self.rng.below(n - 1) as usize].0.clone()
    }
    pub fn query(&mut self, q: SQuery) -> crate::val::Val {
        let v = self.sim.query(&q);
        let ok = matches!(&v, crate::val::Val::L(xs) if xs.len() == 2);
        *self.hist.entry(format!("{}:{}", q.kind(), if ok { "ok" } else { "err" })).or_insert(0) += 1;
        self.obs.push(crate::val::vl(vec![crate::val::vz(2), v.clone()]));
        self.ops.push(SOp::Query(q));
        self.oks.push(ok);
        v
    }
    pub fn push(&mut self, op: SOp) -> bool {
        let ok = self.sim.step(&op);
        let kind = match &op { SOp::Tx { msg, .. } => msg.kind(), SOp::SetBlock { .. } => "block", SOp::BankSend { .. } => "bank_send", SOp::SetFault(_) => "fault", SOp::Query(q) => q.kind() };
        *self.hist.entry(format!("{}:{}", kind, if ok { "ok" } else { "err" })).or_insert(0) += 1;
        let mut step = vec![crate::val::vbool(ok), self.sim.snapshot()];
        // an accepted direct swap to the pool manager also shows the amounts it reported
        if let SOp::Tx { target, msg: SMsg::PmSwap { .. }, .. } = &op {
            if ok && target == "PM" {
                step.push(crate::val::vl(self.sim.last_swap_attrs.clone().unwrap_or_default().into_iter().map(crate::val::vz).collect()));
            }
        }
        self.obs.push(crate::val::vl(step));
        self.ops.push(op);
        self.oks.push(ok);
        ok
    }
    pub fn tx(&mut self, sender: &str, msg: SMsg, funds: Vec<SCoin>) -> bool {
        let target = msg.target().to_string();
        self.push(SOp::Tx { sender: sender.to_string(), target, msg, funds })
    }
    pub fn fresh_id(&mut self, prefix: &str) -> String {
        self.id_seq += 1;
        format!("{}{}", prefix, self.id_seq)
    }
    pub fn opt_slip(&mut self) -> Option<u128> {
        match self.rng.below(8) {
            0 => Some(0),
            1 => Some(DEC / 100),
            2 => Some(DEC / 2),
            3 => Some(DEC / 2 + 1),
            4 => Some(DEC),
            5 => Some(DEC + 1),
            6 => Some(self.rng.u128() % DEC),
            _ => None,
        }
    }
    pub fn opt_receiver(&mut self) -> Option<String> {
        match self.rng.below(8) {
            0 => Some(self.user()),
            1 => Some("FC".to_string()),
            2 => Some("PM".to_string()),
            3 => Some("not-an-address".to_string()),
            _ => None,
        }
    }

    // ------------------------------------------------------------ pool manager ops
    pub fn creation_funds(&mut self, exact: bool) -> Vec<SCoin> {
        let cfg: pmm::Config = self.sim.app.wrap().query_wasm_smart(&self.sim.pm, &pmm::QueryMsg::Config {}).unwrap();
        let mut need: Vec<SCoin> = vec![];
        let tf: Vec<SCoin> = self.tf_fee();
        let pf = (self.sim.sym(&cfg.pool_creation_fee.denom), cfg.pool_creation_fee.amount.u128());
        let mut total = tf.clone();
        if let Some(x) = total.iter_mut().find(|c| c.0 == pf.0) {
            x.1 += pf.1;
        } else {
            total.push(pf.clone());
        }
        for c in total {
            if c.1 > 0 {
                need.push(c);
            }
        }
        need.sort();
        if !exact {
            match self.rng.below(6) {
                0 => { if !need.is_empty() { need[0].1 += 1; } }
                1 => { if !need.is_empty() { need[0].1 -= 1; } }
                2 => { need.push(("ubtc".to_string(), 5)); }
                3 => { need.clear(); }
                4 => { if need.len() > 1 { need.pop(); } else { need.push(("uusdc".to_string(), 1)); } }
                _ => { // split one coin into two entries of the same denom (must be aggregated)
                    if !need.is_empty() && need[0].1 > 1 { let c = need[0].clone(); need[0].1 -= 1; need.push((c.0, 1)); }
                }
            }
        }
        need
    }
    pub fn tf_fee(&self) -> Vec<SCoin> {
        self.tf_fee_cache.clone()
    }

    pub fn op_create_pool(&mut self) {
        let stable = self.prof.stableswap && self.rng.chance(2, 5);
        let n = if stable { 2 + self.rng.below(3) as usize } else { 2 };
        let lps: Vec<(String, u8)> = self.sim.pools().iter().map(|p| (self.sim.sym(&p.pool_info.lp_denom), 6u8)).collect();
        let mut cands: Vec<(String, u8)> = BASE_DENOMS.iter().map(|d| (d.0.to_string(), d.1)).collect();
        if !lps.is_empty() && self.rng.chance(1, 6) {
            cands.push(lps[self.rng.below(lps.len() as u64) as usize].clone());
        }
        // choose n distinct (sometimes a duplicate)
        let mut chosen: Vec<(String, u8)> = vec![];
        while chosen.len() < n {
            let c = cands[self.rng.below(cands.len() as u64) as usize].clone();
            if !chosen.iter().any(|x| x.0 == c.0) || self.rng.chance(1, 40) {
                chosen.push(c);
            }
        }
        if self.rng.chance(1, 2) {
            chosen.sort();
        }
        let mut decimals: Vec<u8> = chosen.iter().map(|c| c.1).collect();
        if self.rng.chance(1, 25) { decimals.pop(); }
        if self.rng.chance(1, 12) { let i = self.rng.below(decimals.len().max(1) as u64) as usize; if i < decimals.len() { decimals[i] = [0, 6, 12, 18][self.rng.below(4) as usize]; } }
        let mut denoms: Vec<String> = chosen.iter().map(|c| c.0.clone()).collect();
        if self.rng.chance(1, 30) { denoms.push("uextra".into()); decimals.push(6); denoms.push("uextra2".into()); decimals.push(6); denoms.push("uextra3".into()); decimals.push(6); }
        let namp = if self.rng.chance(1, 10) { 7 } else { 6 };
        let amp = if stable { Some([1u64, 10, 85, 100, 1000, 1_000_000, 0][self.rng.below(namp) as usize]) } else { None };
        let id = match self.rng.below(10) {
            0..=4 => Some(self.fresh_id("x")),
            5 => Some("1".to_string()),
            6 => Some("bad id!".to_string()),
            7 => Some("a".repeat(39 + self.rng.below(3) as usize)),
            8 => { let ps = self.sim.pools(); if ps.is_empty() { None } else { Some(ps[0].pool_info.pool_identifier.trim_start_matches("o.").to_string()) } }
            _ => None,
        };
        let exact = self.rng.chance(5, 6);
        let funds = self.creation_funds(exact);
        let sender = self.user();
        let fees = fees_choice(&mut self.rng);
        self.tx(&sender, SMsg::PmCreatePool { denoms, decimals, fees, amp, id }, funds);
    }

    pub fn pick_pool(&mut self) -> Option<pmm::PoolInfoResponse> {
        let ps = self.sim.pools();
        if ps.is_empty() { None } else { Some(ps[self.rng.below(ps.len() as u64) as usize].clone()) }
    }
    fn dec_of(p: &pmm::PoolInfo, denom: &str) -> u8 {
        p.asset_denoms.iter().position(|d| d == denom).map(|i| p.asset_decimals[i]).unwrap_or(6)
    }
    fn lock_opts(&mut self) -> (Option<u64>, Option<String>) {
        if self.prof.lock_via_pm && self.rng.chance(1, 4) {
            let dur = [DAY, DAY - 1, 7 * DAY, 5_000_000, 31_556_926, 31_556_927, 30 * DAY][self.rng.below(7) as usize];
            let id = match self.rng.below(5) {
                0 => Some(self.fresh_id("lk")),
                1 => { let ps = self.sim.positions(); if ps.is_empty() { None } else { Some(ps[self.rng.below(ps.len() as u64) as usize].identifier.clone()) } }
                2 => Some("p-1".to_string()),
                _ => None,
            };
            (Some(dur), id)
        } else {
            (None, None)
        }
    }

    pub fn op_provide(&mut self) {
        let Some(pr) = self.pick_pool() else { return self.op_create_pool(); };
        let p = pr.pool_info.clone();
        let sender = self.user();
        let empty = p.assets.iter().all(|c| c.amount.is_zero());
        let mut funds: Vec<SCoin> = vec![];
        let shape = self.rng.below(10);
        if empty || pr.total_share.amount.is_zero() {
            // first deposit: whole tokens of each asset, sometimes at the minimum-liquidity boundary
            let tokens = self.rng.amount(9);
            for (i, c) in p.assets.iter().enumerate() {
                let d = Self::dec_of(&p, &c.denom) as u32;
                let amt = match shape {
                    0 => if i == 0 { 1000 } else { 1000 },       // sqrt = 1000 -> share 0 (rejected)
                    1 => if i == 0 { 1001 } else { 1001 },       // sqrt = 1001 -> share 1
                    2 => self.rng.amount(6),
                    3 => if i == 0 { 0 } else { tokens * 10u128.pow(d) },
                    _ => tokens * 10u128.pow(d) + if self.rng.chance(1, 3) { self.rng.below(1000) as u128 } else { 0 },
                };
                if !(shape == 4 && i == p.assets.len() - 1 && p.assets.len() > 2) {
                    funds.push((self.sim.sym(&c.denom), amt));
                }
            }
        } else {
            let frac_num = 1 + self.rng.below(2000) as u128; // up to 20% of reserves, in 1/10000
            match shape {
                0 | 1 | 2 | 3 => {
                    // proportional
                    for c in &p.assets {
                        let a = (c.amount.u128() / 10_000).saturating_mul(frac_num) + if shape == 3 { self.rng.below(3) as u128 } else { 0 };
                        funds.push((self.sim.sym(&c.denom), a.max(1)));
                    }
                }
                4 | 5 => {
                    // skewed
                    for c in &p.assets {
                        let f = 1 + self.rng.below(3000) as u128;
                        funds.push((self.sim.sym(&c.denom), (c.amount.u128() / 10_000).saturating_mul(f).max(1)));
                    }
                }
                6 | 7 => {
                    // single asset (odd and even amounts)
                    let c = &p.assets[self.rng.below(p.assets.len() as u64) as usize];
                    let mut a = (c.amount.u128() / 10_000).saturating_mul(frac_num).max(1);
                    if self.rng.chance(1, 2) { a |= 1; }
                    if self.rng.chance(1, 20) { a = 1; }
                    funds.push((self.sim.sym(&c.denom), a));
                }
                8 => {
                    // partial set (all but one asset)
                    let skip = self.rng.below(p.assets.len() as u64) as usize;
                    for (i, c) in p.assets.iter().enumerate() {
                        if i != skip || p.assets.len() == 2 {
                            funds.push((self.sim.sym(&c.denom), (c.amount.u128() / 10_000).saturating_mul(frac_num).max(1)));
                        }
                    }
                }
                _ => {
                    // tiny deposit
                    for c in &p.assets {
                        funds.push((self.sim.sym(&c.denom), 1 + self.rng.below(3) as u128));
                    }
                }
            }
        }
        if self.rng.chance(1, 25) { funds.push(("uom".to_string(), 5)); }
        if self.rng.chance(1, 25) && !funds.is_empty() { let c = funds[0].clone(); funds.push((c.0, 1)); }
        let (unlock, lock_id) = self.lock_opts();
        let liq_slip = if self.rng.chance(1, 3) { self.opt_slip() } else { None };
        let swap_slip = if self.rng.chance(1, 3) { self.opt_slip() } else { None };
        let receiver = self.opt_receiver();
        self.tx(&sender, SMsg::PmProvide { liq_slip, swap_slip, receiver, pool: p.pool_identifier.clone(), unlock, lock_id }, funds);
    }

    pub fn op_swap(&mut self) {
        let Some(pr) = self.pick_pool() else { return self.op_create_pool(); };
        let p = pr.pool_info;
        let n = p.assets.len() as u64;
        let i = self.rng.below(n) as usize;
        let mut j = self.rng.below(n) as usize;
        if j == i && !self.rng.chance(1, 30) { j = (i + 1) % n as usize; }
        let offer_res = p.assets[i].amount.u128();
        let offer_amt = match self.rng.below(10) {
            0 => 1,
            1 => 2 + self.rng.below(1000) as u128,
            2 => offer_res.saturating_mul(1 + self.rng.below(5) as u128),
            3 => offer_res / 2,
            _ => (offer_res / 100_000).saturating_mul(1 + self.rng.below(5000) as u128).max(1),
        };
        let offer = (self.sim.sym(&p.assets[i].denom), offer_amt);
        let ask = self.sim.sym(&p.assets[j].denom);
        // aim max_slippage / belief price at the boundary using the simulation
        let sim: Option<pmm::SimulationResponse> = crate::val::guarded(|| {
            self.sim.app.wrap().query_wasm_smart(&self.sim.pm, &pmm::QueryMsg::Simulation {
                offer_asset: coin(offer_amt, p.assets[i].denom.clone()), ask_asset_denom: p.assets[j].denom.clone(), pool_identifier: p.pool_identifier.clone() })
        }).and_then(|r| r.ok());
        let (mut belief, mut max_slip) = (None, None);
        match (self.rng.below(10), &sim) {
            (0..=2, Some(s)) => {
                let ret = s.return_amount.u128(); let sl = s.slippage_amount.u128();
                if ret + sl > 0 {
                    let exact = sl.saturating_mul(DEC) / (ret + sl);
                    max_slip = Some(match self.rng.below(3) { 0 => exact, 1 => exact.saturating_sub(1), _ => exact + 1 });
                }
            }
            (3..=4, Some(s)) => {
                let ret = s.return_amount.u128().max(1);
                // belief price ~ offer/return, perturbed
                let bp = offer_amt.saturating_mul(DEC) / ret;
                belief = Some(match self.rng.below(4) { 0 => bp, 1 => bp.saturating_mul(99) / 100, 2 => bp.saturating_mul(101) / 100, _ => 0 });
                max_slip = self.opt_slip();
            }
            (5, _) => { max_slip = self.opt_slip(); }
            (6, _) => { max_slip = Some(DEC / 2); }
            _ => { max_slip = Some(DEC / 2); }
        }
        let sender = self.user();
        let receiver = self.opt_receiver();
        let mut funds = vec![offer];
        if self.rng.chance(1, 30) { funds.push(("uom".to_string(), 1)); }
        if self.rng.chance(1, 40) { funds.clear(); }
        self.tx(&sender, SMsg::PmSwap { ask, belief, max_slip, receiver, pool: p.pool_identifier }, funds);
    }

    pub fn op_route(&mut self) {
        let ps = self.sim.pools();
        let funded: Vec<&pmm::PoolInfoResponse> = ps.iter().filter(|p| p.pool_info.assets.iter().all(|c| !c.amount.is_zero())).collect();
        if funded.is_empty() { return self.op_provide(); }
        let hops = 1 + self.rng.below(3) as usize;
        let first = funded[self.rng.below(funded.len() as u64) as usize];
        let mut cur = first.pool_info.assets[self.rng.below(first.pool_info.assets.len() as u64) as usize].denom.clone();
        let start_denom = cur.clone();
        let start_res = first.pool_info.assets.iter().find(|c| c.denom == cur).unwrap().amount.u128();
        let mut ops: Vec<SSwapOp> = vec![];
        for _ in 0..hops {
            let cands: Vec<&&pmm::PoolInfoResponse> = funded.iter().filter(|p| p.pool_info.assets.iter().any(|c| c.denom == cur)).collect();
            if cands.is_empty() { break; }
            let p = cands[self.rng.below(cands.len() as u64) as usize];
            let outs: Vec<&cosmwasm_std::Coin> = p.pool_info.assets.iter().filter(|c| c.denom != cur).collect();
            let out = outs[self.rng.below(outs.len() as u64) as usize].denom.clone();
            ops.push(SSwapOp { t_in: self.sim.sym(&cur), t_out: self.sim.sym(&out), pool: p.pool_info.pool_identifier.clone() });
            cur = out;
        }
        if self.rng.chance(1, 25) && ops.len() > 1 { ops[1].t_in = "uxyz".to_string(); }
        if self.rng.chance(1, 40) { ops.clear(); }
        let amt = (start_res / 100_000).saturating_mul(1 + self.rng.below(3000) as u128).max(1);
        // minimum_receive aimed at the simulated output
        let real_ops: Vec<pmm::SwapOperation> = ops.iter().map(|o| pmm::SwapOperation::MantraSwap { token_in_denom: self.sim.real_denom(&o.t_in), token_out_denom: self.sim.real_denom(&o.t_out), pool_identifier: o.pool.clone() }).collect();
        let sim: Option<pmm::SimulateSwapOperationsResponse> = crate::val::guarded(|| {
            self.sim.app.wrap().query_wasm_smart(&self.sim.pm, &pmm::QueryMsg::SimulateSwapOperations { offer_amount: amt.into(), operations: real_ops.clone() })
        }).and_then(|r| r.ok());
        let min_receive = match (self.rng.below(4), &sim) {
            (0, Some(s)) => Some(s.return_amount.u128()),
            (1, Some(s)) => Some(s.return_amount.u128() + 1),
            (2, _) => Some(0),
            _ => None,
        };
        let sender = self.user();
        let receiver = self.opt_receiver();
        let max_slip = if self.rng.chance(1, 2) { Some(DEC / 2) } else { self.opt_slip() };
        self.tx(&sender, SMsg::PmRoute { ops, min_receive, receiver, max_slip }, vec![(self.sim.sym(&start_denom), amt)]);
    }

    pub fn op_withdraw(&mut self) {
        let Some(pr) = self.pick_pool() else { return self.op_create_pool(); };
        let lp = self.sim.sym(&pr.pool_info.lp_denom);
        // prefer a user holding LP
        let holders: Vec<String> = self.users().into_iter().filter(|u| self.sim.balance(u, &lp) > 0).collect();
        let sender = if holders.is_empty() || self.rng.chance(1, 15) { self.user() } else { holders[self.rng.below(holders.len() as u64) as usize].clone() };
        let bal = self.sim.balance(&sender, &lp);
        let amt = match self.rng.below(6) {
            0 => 1,
            1 => bal,
            2 => bal / 2,
            3 => bal.saturating_add(1),
            _ => (self.rng.u128() % bal.max(1)).max(1),
        };
        let mut funds = vec![(lp, amt)];
        if self.rng.chance(1, 30) { funds = vec![("uom".to_string(), 10)]; }
        self.tx(&sender, SMsg::PmWithdraw { pool: pr.pool_info.pool_identifier }, funds);
    }

    pub fn op_pm_config(&mut self) {
        let sender = if self.rng.chance(4, 5) { self.current_owner("PM") } else { self.nonowner() };
        let toggle = match self.pick_pool() {
            Some(p) if self.rng.chance(4, 5) => {
                let mut ob = |r: &mut Rng| match r.below(3) { 0 => Some(true), 1 => Some(false), _ => None };
                Some((p.pool_info.pool_identifier, ob(&mut self.rng), ob(&mut self.rng), ob(&mut self.rng)))
            }
            _ => if self.rng.chance(1, 10) { Some(("o.nope".to_string(), Some(false), None, None)) } else { None },
        };
        let fee = if self.rng.chance(1, 5) { Some((["uusd", "uom"][self.rng.below(2) as usize].to_string(), [0u128, 500, 2000][self.rng.below(3) as usize])) } else { None };
        let fc = if self.rng.chance(1, 12) { Some(["FC", "carol", "bogus", "PM"][self.rng.below(4) as usize].to_string()) } else { None };
        let fm = if self.rng.chance(1, 25) { Some(["FM", "bogus"][self.rng.below(2) as usize].to_string()) } else { None };
        let funds = if self.rng.chance(1, 20) { vec![("uom".to_string(), 1)] } else { vec![] };
        self.tx(&sender, SMsg::PmUpdateConfig { fc, fm, fee, toggle }, funds);
    }

    pub fn current_owner(&self, contract: &str) -> String {
        let addr = cosmwasm_std::Addr::unchecked(self.sim.real_addr(contract));
        let o: cw_ownable::Ownership<cosmwasm_std::Addr> = self.sim.app.wrap().query_wasm_smart(&addr, &pmm::QueryMsg::Ownership {}).unwrap();
        o.owner.map(|a| self.sim.sym(a.as_str())).unwrap_or_else(|| "owner".to_string())
    }

    pub fn op_donate(&mut self) {
        let from = self.user();
        let to = ["PM", "FM", "FC"][self.rng.below(3) as usize].to_string();
        let mut denoms: Vec<String> = self.sim.base_denoms.clone();
        for p in self.sim.pools() { denoms.push(self.sim.sym(&p.pool_info.lp_denom)); }
        let d = denoms[self.rng.below(denoms.len() as u64) as usize].clone();
        let bal = self.sim.balance(&from, &d);
        let amt = if bal == 0 { 5 } else { 1 + self.rng.u128() % bal.min(1_000_000) };
        self.push(SOp::BankSend { from, to, amount: vec![(d, amt)] });
    }

    pub fn op_block(&mut self) {
        let b = self.sim.block();
        let dt = match self.rng.below(8) {
            0 => 1,
            1 => 3600,
            2 => DAY - 1,
            3 | 4 | 5 => DAY,
            6 => 3 * DAY,
            _ => 12 * 3600,
        };
        let dh = self.rng.below(3);
        self.push(SOp::SetBlock { height: b.height + 1 + dh, time: b.time.nanos() + dt * NANOS });
    }
    pub fn advance(&mut self, secs: u64) {
        let b = self.sim.block();
        self.push(SOp::SetBlock { height: b.height + 1, time: b.time.nanos() + secs * NANOS });
    }

    pub fn op_ownership(&mut self) {
        let c = ["PM", "FM", "EM", "FC"][self.rng.below(4) as usize];
        let sender = if self.rng.chance(1, 2) { self.current_owner(c) } else { self.user() };
        let b = self.sim.block();
        let a = match self.rng.below(6) {
            0 => SAction::Accept,
            1 => if self.rng.chance(1, 4) { SAction::Renounce } else { SAction::Accept },
            _ => SAction::Transfer(
                if self.rng.chance(1, 10) { "bogus".into() } else { self.user() },
                match self.rng.below(4) {
                    0 => Some(cw_utils::Expiration::AtHeight(b.height + self.rng.below(4))),
                    1 => Some(cw_utils::Expiration::AtTime(cosmwasm_std::Timestamp::from_nanos(b.time.nanos() + self.rng.below(3) * DAY * NANOS))),
                    _ => None,
                },
            ),
        };
        let msg = match c { "PM" => SMsg::PmOwnership(a), "FM" => SMsg::FmOwnership(a), "EM" => SMsg::EmOwnership(a), _ => SMsg::FcOwnership(a) };
        let funds = if self.rng.chance(1, 15) { vec![("uom".to_string(), 1)] } else { vec![] };
        self.tx(&sender, msg, funds);
    }

    // ------------------------------------------------------------ farm manager ops
    pub fn lp_denoms(&self) -> Vec<String> {
        self.sim.pools().iter().map(|p| self.sim.sym(&p.pool_info.lp_denom)).collect()
    }
    pub fn op_farm(&mut self) {
        let lps = self.lp_denoms();
        if lps.is_empty() { return self.op_create_pool(); }
        let farms = self.sim.farms();
        let cur = self.sim.current_epoch().unwrap_or(0);
        let cfg: mantra_dex_std::farm_manager::Config = self.sim.app.wrap().query_wasm_smart(&self.sim.fm, &mantra_dex_std::farm_manager::QueryMsg::Config {}).unwrap();
        let fee = (self.sim.sym(&cfg.create_farm_fee.denom), cfg.create_farm_fee.amount.u128());
        let k = self.rng.below(10);
        if k < 6 || farms.is_empty() {
            let lp = if self.rng.chance(1, 20) { "factory/alice/fake.LP".to_string() } else { lps[self.rng.below(lps.len() as u64) as usize].clone() };
            let mut rdenoms = self.sim.base_denoms.clone();
            if self.rng.chance(1, 6) { rdenoms = lps.clone(); }
            let rd = rdenoms[self.rng.below(rdenoms.len() as u64) as usize].clone();
            let epochs = 1 + self.rng.below(12);
            let start = match self.rng.below(6) { 0 => None, 1 => Some(cur), 2 => Some(cur + 1 + cfg.max_farm_epoch_buffer as u64), 3 => Some(cur + cfg.max_farm_epoch_buffer as u64), _ => Some(cur + 1 + self.rng.below(2)) };
            let s = start.unwrap_or(cur + 1);
            let end = match self.rng.below(6) { 0 => None, 1 => Some(s), _ => Some(s + epochs) };
            let amount = match self.rng.below(6) { 0 => 999, 1 => 1000, 2 => self.rng.amount(12), _ => (1000 + self.rng.below(100_000) as u128) * epochs as u128 + self.rng.below(3) as u128 };
            let id = match self.rng.below(6) { 0 => Some(self.fresh_id("fa")), 1 => Some("1".to_string()), 2 => Some("bad id".to_string()), _ => None };
            // funds
            let mut funds: Vec<SCoin> = vec![];
            let mode = self.rng.below(12);
            if fee.0 == rd {
                funds.push((rd.clone(), amount + fee.1 + if mode == 0 { 1 } else { 0 } - if mode == 1 { 1 } else { 0 }));
            } else {
                funds.push((rd.clone(), amount - if mode == 1 { 1 } else { 0 }));
                if fee.1 > 0 || mode == 2 || mode == 3 {
                    funds.push((fee.0.clone(), fee.1 + if mode == 0 || mode == 2 { 7 } else { 0 }));
                }
                if mode == 4 { funds.push(("uusdc".to_string(), 3)); }
            }
            funds.retain(|c| c.1 > 0 || mode == 3);
            if self.rng.chance(1, 2) { funds.sort(); }
            let sender = self.user();
            self.tx(&sender, SMsg::FmCreateFarm(SFarmParams { lp, start, end, asset: (rd, amount), id }), funds);
        } else if k < 8 {
            let f = &farms[self.rng.below(farms.len() as u64) as usize];
            let owner = self.sim.sym(f.owner.as_str());
            let sender = if self.rng.chance(4, 5) { owner } else { self.user() };
            let rate = f.emission_rate.u128().max(1);
            let amount = match self.rng.below(5) { 0 => rate, 1 => rate * (1 + self.rng.below(5) as u128), 2 => rate + 1, 3 => 1, _ => rate * 2 };
            let rd = self.sim.sym(&f.farm_asset.denom);
            let p = SFarmParams { lp: self.sim.sym(&f.lp_denom), start: None, end: None, asset: (if self.rng.chance(1, 15) { "uusdc".to_string() } else { rd.clone() }, amount), id: Some(f.identifier.clone()) };
            let funds = if self.rng.chance(1, 12) { vec![(rd, amount + 1)] } else { vec![(p.asset.0.clone(), amount)] };
            self.tx(&sender, SMsg::FmExpandFarm(p), funds);
        } else {
            let f = &farms[self.rng.below(farms.len() as u64) as usize];
            let owner = self.sim.sym(f.owner.as_str());
            let sender = match self.rng.below(6) { 0 => self.user(), 1 => self.current_owner("FM"), _ => owner };
            let id = if self.rng.chance(1, 15) { "m-nope".to_string() } else { f.identifier.clone() };
            let funds = if self.rng.chance(1, 20) { vec![("uom".to_string(), 1)] } else { vec![] };
            self.tx(&sender, SMsg::FmCloseFarm(id), funds);
        }
    }

    pub fn op_position(&mut self) {
        let lps = self.lp_denoms();
        if lps.is_empty() { return self.op_create_pool(); }
        let positions = self.sim.positions();
        let k = self.rng.below(20);
        if k < 6 || positions.is_empty() {
            // create directly on the farm manager with LP held by the user
            let lp = lps[self.rng.below(lps.len() as u64) as usize].clone();
            let holders: Vec<String> = self.users().into_iter().filter(|u| self.sim.balance(u, &lp) > 0).collect();
            if holders.is_empty() { return self.op_provide(); }
            let sender = holders[self.rng.below(holders.len() as u64) as usize].clone();
            let bal = self.sim.balance(&sender, &lp);
            let amt = match self.rng.below(6) { 0 => 1, 1 => 3, 2 => bal, _ => (self.rng.u128() % bal).max(1) };
            let dur = [DAY, DAY - 1, 7 * DAY, 5_000_000, 31_556_926, 31_556_927, 30 * DAY, 12_345_678][self.rng.below(8) as usize];
            let id = match self.rng.below(6) { 0 => Some(self.fresh_id("po")), 1 => Some("1".to_string()), 2 => Some("bad id".to_string()), _ => None };
            let receiver = match self.rng.below(8) { 0 => Some(self.user()), 1 => Some(sender.clone()), 2 => Some("bogus".to_string()), _ => None };
            let mut funds = vec![(lp, amt)];
            if self.rng.chance(1, 25) { funds = vec![("uom".to_string(), 100)]; }
            self.tx(&sender, SMsg::FmPosCreate { id, dur, receiver }, funds);
            return;
        }
        let p = positions[self.rng.below(positions.len() as u64) as usize].clone();
        let owner = self.sim.sym(p.receiver.as_str());
        let sender = if self.rng.chance(9, 10) { owner.clone() } else { self.user() };
        let lp = self.sim.sym(&p.lp_asset.denom);
        if k < 9 {
            let bal = self.sim.balance(&sender, &lp);
            let amt = if bal == 0 { 1 } else { match self.rng.below(4) { 0 => 1, 1 => bal, _ => (self.rng.u128() % bal).max(1) } };
            self.tx(&sender, SMsg::FmPosExpand(p.identifier.clone()), vec![(lp, amt)]);
        } else if k < 14 {
            // close: claim first most of the time (pending rewards block closing)
            if self.rng.chance(4, 5) { self.tx(&sender, SMsg::FmClaim(None), vec![]); }
            let a = p.lp_asset.amount.u128();
            let part = match self.rng.below(8) { 0 => Some(1), 1 => Some(a.saturating_sub(1)), 2 => Some(a), 3 => Some(a + 1), 4 => Some(a / 2), _ => None };
            let lpc = part.map(|x| (if self.rng.chance(1, 20) { "uom".to_string() } else { lp.clone() }, x));
            self.tx(&sender, SMsg::FmPosClose(p.identifier.clone(), lpc), vec![]);
        } else {
            // withdraw, aimed at the expiry boundary for closed positions
            if let Some(exp) = p.expiring_at {
                if self.rng.chance(2, 3) {
                    let b = self.sim.block();
                    let target = match self.rng.below(3) { 0 => exp.saturating_sub(1), 1 => exp, _ => exp + 1 };
                    if target * NANOS >= b.time.nanos() && (target - b.time.seconds()) < 40 * DAY {
                        self.push(SOp::SetBlock { height: b.height + 1, time: target * NANOS });
                    }
                }
            }
            let emergency = match self.rng.below(5) { 0 | 1 => Some(true), 2 => Some(false), _ => None };
            let funds = if self.rng.chance(1, 25) { vec![("uom".to_string(), 1)] } else { vec![] };
            self.tx(&sender, SMsg::FmPosWithdraw(p.identifier.clone(), emergency), funds);
        }
    }

    pub fn op_claim(&mut self) {
        let positions = self.sim.positions();
        let owners: Vec<String> = positions.iter().filter(|p| p.open).map(|p| self.sim.sym(p.receiver.as_str())).collect();
        let sender = if owners.is_empty() || self.rng.chance(1, 12) { self.user() } else { owners[self.rng.below(owners.len() as u64) as usize].clone() };
        let cur = self.sim.current_epoch().unwrap_or(0);
        let lc = self.sim.last_claimed(&sender);
        let until = match self.rng.below(8) {
            0 => Some(cur),
            1 => Some(cur + 1),
            2 => lc,
            3 => lc.map(|x| x.saturating_sub(1)),
            4 => Some(lc.unwrap_or(0) + (cur.saturating_sub(lc.unwrap_or(0))) / 2),
            _ => None,
        };
        let funds = if self.rng.chance(1, 25) { vec![("uom".to_string(), 1)] } else { vec![] };
        self.tx(&sender, SMsg::FmClaim(until), funds);
    }

    pub fn op_fm_config(&mut self) {
        let sender = if self.rng.chance(4, 5) { self.current_owner("FM") } else { self.nonowner() };
        let mut u = SFmUpdate::default();
        match self.rng.below(10) {
            0 => u.max_farms = Some(1 + self.rng.below(8) as u32),
            1 => u.epoch_buffer = Some(self.rng.below(20) as u32),
            2 => u.min_unlock = Some([DAY, 2 * DAY, 0, 40_000_000][self.rng.below(4) as usize]),
            3 => u.max_unlock = Some([DAY, 31_556_926, 10 * DAY, 100][self.rng.below(4) as usize]),
            4 => u.expiration = Some([2_629_746, 2_629_745, 5_000_000][self.rng.below(3) as usize]),
            5 => u.penalty = Some([0, DEC / 10, DEC, DEC + 1][self.rng.below(4) as usize]),
            6 => u.create_fee = Some((["uom", "uusd"][self.rng.below(2) as usize].to_string(), [0u128, 1000, 2500][self.rng.below(3) as usize])),
            7 => u.fee_collector = Some(["FC", "carol", "bogus"][self.rng.below(3) as usize].to_string()),
            8 => { u.min_unlock = Some(2 * DAY); u.max_unlock = Some(DAY); }
            _ => {}
        }
        let funds = if self.rng.chance(1, 20) { vec![("uom".to_string(), 1)] } else { vec![] };
        self.tx(&sender, SMsg::FmUpdateConfig(u), funds);
    }

    pub fn op_malformed(&mut self) {
        let sender = self.user();
        match self.rng.below(8) {
            0 => { self.tx(&sender, SMsg::PmSwap { ask: "uusd".into(), belief: None, max_slip: None, receiver: None, pool: "o.missing".into() }, vec![("uom".into(), 100)]); }
            1 => { self.tx(&sender, SMsg::PmWithdraw { pool: "p.999".into() }, vec![("uom".into(), 100)]); }
            2 => { self.tx(&sender, SMsg::FmPosWithdraw("u-missing".into(), None), vec![]); }
            3 => { self.tx(&sender, SMsg::FmCloseFarm("f-999".into()), vec![]); }
            4 => { self.tx(&sender, SMsg::PmProvide { liq_slip: None, swap_slip: None, receiver: None, pool: "o.missing".into(), unlock: None, lock_id: None }, vec![("uom".into(), 100)]); }
            5 => { self.tx(&sender, SMsg::FmPosCreate { id: None, dur: DAY, receiver: None }, vec![("uom".into(), 100)]); }
            6 => { self.tx(&sender, SMsg::FmClaim(Some(u64::MAX)), vec![]); }
            _ => { self.push(SOp::BankSend { from: sender, to: "PM".into(), amount: vec![("unothing".into(), 5)] }); }
        }
    }

    pub fn random_op(&mut self) {
        let p = &self.prof;
        let table: [(u64, u8); 14] = [
            (p.w_create_pool, 0), (p.w_provide, 1), (p.w_swap, 2), (p.w_route, 3), (p.w_withdraw, 4), (p.w_pm_config, 5), (p.w_donate, 6),
            (p.w_block, 7), (p.w_farm, 8), (p.w_position, 9), (p.w_claim, 10), (p.w_fm_config, 11), (p.w_ownership, 12), (p.w_malformed, 13),
        ];
        let total: u64 = table.iter().map(|x| x.0).sum();
        let mut x = self.rng.below(total);
        let mut k = 0u8;
        for (w, i) in table.iter() {
            if x < *w { k = *i; break; }
            x -= *w;
        }
        match k {
            0 => self.op_create_pool(),
            1 => self.op_provide(),
            2 => self.op_swap(),
            3 => self.op_route(),
            4 => self.op_withdraw(),
            5 => self.op_pm_config(),
            6 => self.op_donate(),
            7 => self.op_block(),
            8 => self.op_farm(),
            9 => self.op_position(),
            10 => self.op_claim(),
            11 => self.op_fm_config(),
            12 => self.op_ownership(),
            _ => self.op_malformed(),
        }
    }
}
