(* CasesMath.v — correspondence driver for the contracts' public pure helpers called directly (family math-fn),
   and the monitors evaluated on what the IMPLEMENTATION returned for them. *)
From MD.Model Require Import Base PoolMath Types.

Inductive math_case :=
| McSwap (p : pool_info) (offer : coin) (ask : string)
| McReverse (x y ask : Z) (f : pool_fee)
| McD (amp : Z) (deps : list coin)
| McDPool (amp : Z) (deps : list coin) (p : pool_info)
| McLpMint (amp : Z) (old new : list coin) (supply : Z) (p : pool_info)
| McTol (tol : option Z) (deps assets : list coin) (pt : pool_type)
| McW1 (a b : Z).

Definition rev_pool (x y : Z) (f : pool_fee) : pool_info :=
  {| p_id := "o.m"; p_denoms := ["uom"; "uusd"]; p_decimals := [6; 6]; p_assets := [("uom", x); ("uusd", y)];
     p_type := ConstantProduct; p_lp := "factory/PM/o.m.LP"; p_fees := f;
     p_status := {| swaps_enabled := true; deposits_enabled := true; withdrawals_enabled := true |} |}.

Definition run_math_case (c : math_case) : val :=
  match c with
  | McSwap p offer ask => vres v_swap_computation (compute_swap p offer ask)
  | McReverse x y ask f =>
      match compute_offer_amount x y ask f with
      | Err _ => VL [VZ 0]
      | Ok oc =>
          let sw := if oc_offer oc + 1 <=? U128_MAX
                    then compute_swap (rev_pool x y f) ("uom", oc_offer oc + 1) "uusd"
                    else Err "overflow" in
          VL [VZ 1; v_offer_computation oc; vres v_swap_computation sw]
      end
  | McD amp deps => vres VZ (compute_d amp deps)
  | McDPool amp deps p => vres VZ (compute_d_with_pool_info amp deps p)
  | McLpMint amp old new supply p => vres VZ (compute_lp_mint_stableswap amp old new supply p)
  | McTol tol deps assets pt => vres (fun l => VL (map v_coin l)) (assert_slippage_tolerance tol deps assets pt)
  | McW1 a b => VL [VZ 1; vbool (within_one_percent a b)]
  end.

(* ---------- monitors on the implementation's answers ---------- *)
Definition mvlist (v : val) : list val := match v with VL l => l | _ => [] end.
Definition mvnth (n : nat) (v : val) : val := nth n (mvlist v) (VL []).
Definition mvZ (v : val) : Z := match v with VZ z => z | _ => -1 end.
Definition mv_ok (v : val) : bool := match mvnth 0 v with VZ 1 => true | _ => false end.

Definition reserve_of (p : pool_info) (d : string) : Z :=
  match find (fun c => String.eqb (denom_of c) d) (p_assets p) with Some c => amount_of c | None => 0 end.
Definition is_cp (p : pool_info) : bool := match p_type p with ConstantProduct => true | _ => false end.

(* fields of an observed swap computation: return, slippage, swap fee, protocol fee, burn fee, extra fees *)
Definition sc_ret (v : val) := mvZ (mvnth 0 v).
Definition sc_swp (v : val) := mvZ (mvnth 2 v).
Definition sc_pro (v : val) := mvZ (mvnth 3 v).
Definition sc_brn (v : val) := mvZ (mvnth 4 v).
Definition sc_ext (v : val) := mvZ (mvnth 5 v).

(* C03 (constant product): with the offer added in full and return + protocol + burn fees removed from the ask
   reserve, x*y does not decrease; and what is removed never exceeds the ask reserve *)
Definition mon_math_C03_b (c : math_case) (o : val) : bool :=
  match c with
  | McSwap p offer ask =>
      if mv_ok o && is_cp p then
        let s := mvnth 1 o in
        let x := reserve_of p (denom_of offer) in
        let y := reserve_of p ask in
        let out := sc_ret s + sc_pro s + sc_brn s in
        (out <=? y) && (x * y <=? (x + amount_of offer) * (y - out))
      else true
  | _ => true
  end.

(* C04: every fee is at most its configured share of the gross output (gross = return + all fees), floored:
   fee * 10^18 <= share * gross, and the swap / protocol / burn fees are exactly the floors *)
Definition mon_math_C04_b (c : math_case) (o : val) : bool :=
  match c with
  | McSwap p offer ask =>
      if mv_ok o then
        let s := mvnth 1 o in
        let gross := sc_ret s + sc_swp s + sc_pro s + sc_brn s + sc_ext s in
        let f := p_fees p in
        (0 <=? sc_ret s) &&
        (sc_swp s =? swap_fee f * gross / DEC) &&
        (sc_pro s =? protocol_fee f * gross / DEC) &&
        (sc_brn s =? burn_fee f * gross / DEC) &&
        (sc_ext s =? fold_right (fun e acc => e * gross / DEC + acc) 0 (extra_fees f))
      else true
  | _ => true
  end.

(* C12 (reverse quotes, constant product): for requested amounts up to 10^18 the swap of quote + 1 returns at
   least the requested amount; a failing swap of quote + 1 after a successful quote is reported too *)
Definition mon_math_C12_b (c : math_case) (o : val) : bool :=
  match c with
  | McReverse x y ask f =>
      if mv_ok o && (ask <=? 1000000000000000000) && (0 <? ask) then
        let sw := mvnth 2 o in
        if mv_ok sw then ask <=? sc_ret (mvnth 1 sw)
        else (* quote + 1 may legitimately overflow u128 or exceed what the arithmetic supports *) true
      else true
  | _ => true
  end.

(* C19 / C04 (both pool types): output plus fees never exceeds the ask reserve *)
Definition mon_math_C19_b (c : math_case) (o : val) : bool :=
  match c with
  | McSwap p offer ask =>
      if mv_ok o then
        let s := mvnth 1 o in
        sc_ret s + sc_swp s + sc_pro s + sc_brn s + sc_ext s <=? reserve_of p ask
      else true
  | _ => true
  end.

Definition mon_math_C03 : math_case -> val -> list Z := mon_of_bool 3 mon_math_C03_b.
Definition mon_math_C04 : math_case -> val -> list Z := mon_of_bool 4 mon_math_C04_b.
Definition mon_math_C12 : math_case -> val -> list Z := mon_of_bool 12 mon_math_C12_b.
Definition mon_math_C19 : math_case -> val -> list Z := mon_of_bool 19 mon_math_C19_b.
