(* PoolMath.v — the pool manager's arithmetic (contracts/pool-manager/src/helpers.rs, math.rs,
   swap/perform_swap.rs::assert_max_slippage, mantra-dex-std fee.rs), with the exact floor / overflow /
   panic behaviour of cosmwasm-std 2.2.2 Uint128/256/512 and Decimal/Decimal256. *)
From MD.Model Require Import Base.

Definition coin : Type := (string * Z)%type.       (* denom, amount (Uint128) *)
Definition denom_of (c : coin) : string := fst c.
Definition amount_of (c : coin) : Z := snd c.

Inductive pool_type := ConstantProduct | StableSwap (amp : Z).

Record pool_fee := {
  protocol_fee : Z;     (* Decimal atomics *)
  swap_fee : Z;
  burn_fee : Z;
  extra_fees : list Z }.

Record pool_status := { swaps_enabled : bool; deposits_enabled : bool; withdrawals_enabled : bool }.

Record pool_info := {
  p_id : string;
  p_denoms : list string;      (* asset_denoms, creation order, never rewritten *)
  p_decimals : list Z;         (* asset_decimals, creation order *)
  p_assets : list coin;        (* reserves; order can be rewritten by provide_liquidity *)
  p_type : pool_type;
  p_lp : string;
  p_fees : pool_fee;
  p_status : pool_status }.

Record swap_computation := {
  sc_return : Z; sc_slippage : Z; sc_swap_fee : Z; sc_protocol_fee : Z; sc_burn_fee : Z; sc_extra_fees : Z }.

(* ---------- fees (mantra-dex-std fee.rs) ---------- *)
(* Fee::compute: Decimal256::from_ratio(amount, 1).checked_mul(share).to_uint_floor() *)
Definition fee_compute (share amount : Z) : res Z :=
  let* a := dec_from_ratio U256_MAX amount 1 in
  let* m := dec_mul U256_MAX a share in
  Ok (dec_floor m).

Definition PCT (n : Z) : Z := n * 10000000000000000.   (* Decimal::percent *)

(* PoolFee::is_valid — `total_share += fee.share` is Decimal AddAssign: panics on u128 overflow *)
Definition pool_fee_valid (f : pool_fee) : res unit :=
  let all := ([protocol_fee f; swap_fee f; burn_fee f] ++ extra_fees f)%list in
  let* total := foldM (fun acc s =>
                  let* _ := ensure (s <? PCT 100) "Invalid fee" in
                  cadd U128_MAX acc s) all 0 in
  ensure (total <=? PCT 20) "Total fees cannot exceed 20%".

Record fees_computation := { fc_swap : Z; fc_protocol : Z; fc_burn : Z; fc_extra : Z }.

Definition compute_fees (f : pool_fee) (amount : Z) : res fees_computation :=
  let* s := fee_compute (swap_fee f) amount in
  let* p := fee_compute (protocol_fee f) amount in
  let* b := fee_compute (burn_fee f) amount in
  let* e := foldM (fun acc sh => let* x := fee_compute sh amount in cadd U256_MAX acc x) (extra_fees f) 0 in
  Ok {| fc_swap := s; fc_protocol := p; fc_burn := b; fc_extra := e |}.

Definition get_swap_computation (ret slip : Z) (fc : fees_computation) : res swap_computation :=
  let* r1 := csub U256_MAX ret (fc_swap fc) in
  let* r2 := csub U256_MAX r1 (fc_protocol fc) in
  let* r3 := csub U256_MAX r2 (fc_burn fc) in
  let* r := csub U256_MAX r3 (fc_extra fc) in
  let* s1 := cadd U256_MAX slip (fc_swap fc) in
  let* s2 := cadd U256_MAX s1 (fc_protocol fc) in
  let* s3 := cadd U256_MAX s2 (fc_burn fc) in
  let* s := cadd U256_MAX s3 (fc_extra fc) in
  let* r' := chk U128_MAX r in
  let* s' := chk U128_MAX s in
  let* a := chk U128_MAX (fc_swap fc) in
  let* b := chk U128_MAX (fc_protocol fc) in
  let* c := chk U128_MAX (fc_burn fc) in
  let* d := chk U128_MAX (fc_extra fc) in
  Ok {| sc_return := r'; sc_slippage := s'; sc_swap_fee := a; sc_protocol_fee := b; sc_burn_fee := c; sc_extra_fees := d |}.

(* ---------- locating assets ---------- *)
Definition index_of_denom (d : string) (l : list coin) : option nat :=
  find_index (fun c => String.eqb d (denom_of c)) l.
Definition index_of_str (d : string) (l : list string) : option nat :=
  find_index (fun x => String.eqb x d) l.

Definition nthZ (n : nat) (l : list Z) : res Z := of_option (nth_error l n) "panic: index out of bounds".
Definition nth_coin (n : nat) (l : list coin) : res coin := of_option (nth_error l n) "panic: index out of bounds".

(* get_asset_indexes_in_pool: positions in [assets]; decimals looked up at the same positions *)
Definition get_asset_indexes (p : pool_info) (offer ask : string)
  : res (coin * coin * nat * nat * Z * Z) :=
  let* oi := of_option (index_of_denom offer (p_assets p)) "AssetMismatch" in
  let* ai := of_option (index_of_denom ask (p_assets p)) "AssetMismatch" in
  let* _ := ensure (negb (Nat.eqb oi ai)) "AssetMismatch" in
  let* oc := nth_coin oi (p_assets p) in
  let* ac := nth_coin ai (p_assets p) in
  let* od := nthZ oi (p_decimals p) in
  let* ad := nthZ ai (p_decimals p) in
  Ok (oc, ac, oi, ai, od, ad).

(* ---------- Decimal256Helper (math.rs) ---------- *)
Definition dec256_with_precision (v p : Z) : res Z :=
  if p <? 18 then cmul U256_MAX v (10 ^ (18 - p))
  else if p =? 18 then Ok v
  else if p - 18 <? 78 then Ok (v / 10 ^ (p - 18))
  else Ok 0.

(* 10u128.pow(18 - precision): u32 subtraction panics when precision > 18 *)
Definition to_uint_with_precision (a p : Z) : res Z :=
  if 18 <? p then Err "panic: subtract with overflow" else Ok (a / 10 ^ (18 - p)).

(* ---------- Newton iteration helper ---------- *)
Fixpoint newton (n : nat) (f : Z -> res Z) (thr cur : Z) : res Z :=
  match n with
  | O => Err "ConvergeError"
  | S n' =>
      let* nxt := f cur in
      if Z.abs (nxt - cur) <=? thr then Ok nxt else newton n' f thr nxt
  end.

Definition NEWTON_ITERATIONS : nat := 255.

Fixpoint zip_assets (assets : list coin) (decs : list Z) : res (list (coin * Z)) :=
  match assets with
  | [] => Ok []
  | a :: rest =>
      match decs with
      | [] => Err "panic: index out of bounds"
      | d :: ds => let* t := zip_assets rest ds in Ok ((a, d) :: t)
      end
  end.

(* calculate_pool_assets_sum *)
Definition pool_assets_sum (p : pool_info) : res Z :=
  let* ad := zip_assets (p_assets p) (p_decimals p) in
  foldM (fun acc x => let* a := dec256_with_precision (amount_of (fst x)) (snd x) in cadd U256_MAX acc a) ad 0.

(* calculate_stableswap_d: Decimal256 result; threshold is 1.0 (one whole token) *)
Definition stableswap_d (p : pool_info) (n amp : Z) : res Z :=
  let n_dec := n * DEC in
  let* sum_pools := pool_assets_sum p in
  if sum_pools =? 0 then Ok 0 else
  let* an := cmul U256_MAX amp n in
  let* ann := dec_from_ratio U256_MAX an 1 in
  let* ad := zip_assets (p_assets p) (p_decimals p) in
  newton NEWTON_ITERATIONS (fun cur =>
    let* new_d := foldM (fun acc x =>
                     let* pa := dec256_with_precision (amount_of (fst x)) (snd x) in
                     let* mp := dec_mul U256_MAX pa n_dec in
                     mul_ratio U256_MAX acc cur mp) ad cur in
    let* t1 := dec_mul U256_MAX ann sum_pools in
    let* t2 := dec_mul U256_MAX new_d n_dec in
    let* t3 := cadd U256_MAX t1 t2 in
    let* num := dec_mul U256_MAX t3 cur in
    let* u1 := csub U256_MAX ann DEC in
    let* u2 := dec_mul U256_MAX u1 cur in
    let* u3 := cadd U256_MAX n_dec DEC in
    let* u4 := dec_mul U256_MAX u3 new_d in
    let* den := cadd U256_MAX u2 u4 in
    dec_div U256_MAX num den) DEC sum_pools.

Inductive ss_direction := Simulate | ReverseSimulate.

(* the per-asset value x used by calculate_pool_sum and calculate_stableswap_coefficient_c *)
Definition ss_xs (p : pool_info) (offer ask : string) (ask_pool_amount offer_amount : Z)
           (dir : ss_direction) (max_precision : Z) : res (list Z) :=
  let* oi := of_option (index_of_str offer (p_denoms p)) "Offer denom not found" in
  let* ai := of_option (index_of_str ask (p_denoms p)) "Ask denom not found" in
  let* ad := zip_assets (p_assets p) (p_decimals p) in
  let fix go (i : nat) (l : list (coin * Z)) : res (list Z) :=
    match l with
    | [] => Ok []
    | x :: rest =>
        let* pa := dec256_with_precision (amount_of (fst x)) (snd x) in
        if Nat.eqb i oi then
          let* v := match dir with
                    | Simulate => cadd U256_MAX offer_amount pa
                    | ReverseSimulate => csub U256_MAX ask_pool_amount offer_amount
                    end in
          let* xv := to_uint_with_precision v max_precision in
          let* t := go (S i) rest in Ok (xv :: t)
        else if negb (Nat.eqb i ai) then
          let* xv := to_uint_with_precision pa max_precision in
          let* t := go (S i) rest in Ok (xv :: t)
        else go (S i) rest
    end in
  go O ad.

(* calculate_stableswap_y *)
Definition stableswap_y (p : pool_info) (offer ask : string) (ask_pool_amount offer_amount amp : Z)
           (dir : ss_direction) : res Z :=
  let n := Z.of_nat (List.length (p_assets p)) in
  let* ann := cmul U512_MAX amp n in
  let max_precision := maxZ_list (p_decimals p) in
  let* _ := ensure (negb (Nat.eqb (List.length (p_decimals p)) 0)) "panic: unwrap on None" in
  let* d_dec := stableswap_d p n amp in
  let* d := to_uint_with_precision d_dec max_precision in
  let* xs := ss_xs p offer ask ask_pool_amount offer_amount dir max_precision in
  let* pool_sum := foldM (fun acc x => cadd U512_MAX acc x) xs 0 in
  let* c0 := foldM (fun c x =>
               let* cd := cmul U512_MAX c d in
               let* xn := cmul U512_MAX x n in
               cdiv cd xn) xs d in
  let* ann_n := cmul U512_MAX ann n in
  let* c1 := cmul U512_MAX c0 d in
  let* c := cdiv c1 ann_n in
  let* dq := cdiv d ann in
  let* b := cadd U512_MAX pool_sum dq in
  let* y := newton NEWTON_ITERATIONS (fun y =>
              let* yy := cmul U512_MAX y y in
              let* num := cadd U512_MAX yy c in
              let* y2 := cadd U512_MAX y y in
              let* y2b := cadd U512_MAX y2 b in
              let* den := csub U512_MAX y2b d in
              cdiv num den) 1 d in
  chk U256_MAX y.

(* ---------- compute_swap ---------- *)
Definition compute_swap (p : pool_info) (offer : coin) (ask : string) : res swap_computation :=
  let* (oc, ac, _, _, od, ad) := get_asset_indexes p (denom_of offer) ask in
  let offer_pool := amount_of oc in
  let ask_pool := amount_of ac in
  let offer_amount := amount_of offer in
  match p_type p with
  | ConstantProduct =>
      let* ra := dec_from_ratio U256_MAX (ask_pool * offer_amount) (offer_pool + offer_amount) in
      let return_amount := dec_floor ra in
      let* rate := dec_from_ratio U256_MAX ask_pool offer_pool in
      let* oa := dec_from_ratio U256_MAX offer_amount 1 in
      let* ideal := dec_mul U256_MAX oa rate in
      let* slippage := csub U256_MAX (dec_floor ideal) return_amount in
      let* fc := compute_fees (p_fees p) return_amount in
      get_swap_computation return_amount slippage fc
  | StableSwap amp =>
      let* ask_pool_dec := dec256_with_precision ask_pool ad in
      let* offer_dec := dec256_with_precision offer_amount od in
      let* _ := ensure (negb (Nat.eqb (List.length (p_decimals p)) 0)) "panic: unwrap on None" in
      let max_precision := maxZ_list (p_decimals p) in
      let* new_pool0 := stableswap_y p (denom_of oc) (denom_of ac) ask_pool_dec offer_dec amp Simulate in
      let* new_pool :=
        if ad <? max_precision then
          let* t := dec256_with_precision new_pool0 (max_precision - ad) in Ok (dec_floor t)
        else Ok new_pool0 in
      let* ap := to_uint_with_precision ask_pool_dec ad in
      let* return_amount := csub U256_MAX ap new_pool in
      let* rd := dec_from_ratio U256_MAX return_amount 1 in
      let* adj_return := to_uint_with_precision rd (max_precision - ad) in
      let* adj_offer := to_uint_with_precision offer_dec max_precision in
      let slip0 := ssub adj_offer adj_return in
      let* slippage :=
        if od <? max_precision then
          let* t := dec256_with_precision slip0 (max_precision - od) in Ok (dec_floor t)
        else Ok slip0 in
      let* fc := compute_fees (p_fees p) return_amount in
      get_swap_computation return_amount slippage fc
  end.

(* ---------- assert_max_slippage (perform_swap.rs) ---------- *)
Definition DEFAULT_SLIPPAGE : Z := PCT 1.
Definition MAX_ALLOWED_SLIPPAGE : Z := PCT 50.

Definition assert_max_slippage (belief max_slip : option Z) (offer_amount return_amount slippage_amount : Z)
  : res unit :=
  let tol := Z.min (match max_slip with Some s => s | None => DEFAULT_SLIPPAGE end) MAX_ALLOWED_SLIPPAGE in
  match belief with
  | Some bp =>
      let* oa := dec_from_ratio U256_MAX offer_amount 1 in
      let* inv := of_option (dec_inv bp) "Belief price can't be zero" in
      let* e := dec_mul U256_MAX oa inv in
      let expected := dec_floor e in
      let slip := ssub expected return_amount in
      if return_amount <? expected then
        let* ratio := dec_from_ratio U256_MAX slip expected in
        ensure (negb (tol <? ratio)) "Slippage limit exceeded"
      else Ok tt
  | None =>
      (* Uint128 `+` panics on overflow; Decimal256::from_ratio panics on a zero denominator *)
      let* den := cadd U128_MAX return_amount slippage_amount in
      let* ratio := dec_from_ratio U256_MAX slippage_amount den in
      ensure (negb (tol <? ratio)) "Slippage limit exceeded"
  end.

(* ---------- compute_offer_amount (reverse simulation, constant product) ---------- *)
Record offer_computation := {
  oc_offer : Z; oc_slippage : Z; oc_swap_fee : Z; oc_protocol_fee : Z; oc_burn_fee : Z; oc_extra_fees : Z }.

Definition compute_offer_amount (offer_pool ask_pool ask_amount : Z) (f : pool_fee) : res offer_computation :=
  let* f1 := cadd U256_MAX (swap_fee f) (protocol_fee f) in
  let* f2 := cadd U256_MAX f1 (burn_fee f) in
  let* fees := foldM (fun acc e => cadd U256_MAX acc e) (extra_fees f) f2 in
  let* one_minus := csub U256_MAX DEC fees in
  let* inv := dec_from_ratio U256_MAX DEC one_minus in
  let cp := offer_pool * ask_pool in
  let* aa := dec_from_ratio U256_MAX ask_amount 1 in
  let* bc := dec_mul U256_MAX aa inv in
  let before_commission := dec_floor bc in
  let* d1 := csub U256_MAX ask_pool before_commission in
  let* d2 := csub U256_MAX d1 1 in
  let* q := mul_ratio U256_MAX 1 cp d2 in
  let* offer_amount := csub U256_MAX q offer_pool in
  let* oa := dec_from_ratio U256_MAX offer_amount 1 in
  let* rate := dec_from_ratio U256_MAX ask_pool offer_pool in
  let* bs := dec_mul U256_MAX oa rate in
  let before_slippage := dec_floor bs in
  let slippage := ssub before_slippage before_commission in
  let* s := fee_compute (swap_fee f) before_commission in
  let* p := fee_compute (protocol_fee f) before_commission in
  let* b := fee_compute (burn_fee f) before_commission in
  let* e := foldM (fun acc sh => let* x := fee_compute sh before_commission in cadd U256_MAX acc x) (extra_fees f) 0 in
  let* o' := chk U128_MAX offer_amount in
  let* sl' := chk U128_MAX slippage in
  let* s' := chk U128_MAX s in
  let* p' := chk U128_MAX p in
  let* b' := chk U128_MAX b in
  let* e' := chk U128_MAX e in
  Ok {| oc_offer := o'; oc_slippage := sl'; oc_swap_fee := s'; oc_protocol_fee := p'; oc_burn_fee := b'; oc_extra_fees := e' |}.

(* ---------- D for deposits: calculate_d_core / compute_next_d / compute_d(_with_pool_info) ---------- *)
Definition A_PRECISION : Z := 100.

(* compute_next_d: None (=> unwrap panic) on overflow *)
Definition compute_next_d (amp d_init d_prod sum_x n : Z) : res Z :=
  let* a1 := cmul U64_MAX amp n in
  let* ann := cmul U64_MAX a1 A_PRECISION in
  let* t := cmul U512_MAX ann sum_x in
  let amp_scaled_sum := t / A_PRECISION in
  let* ptn := cmul U512_MAX d_prod n in
  let* s := cadd U512_MAX amp_scaled_sum ptn in
  let* numerator := cmul U512_MAX s d_init in
  let* am := csub U512_MAX ann A_PRECISION in
  let* am2 := cmul U512_MAX am d_init in
  let amp_adjusted := am2 / A_PRECISION in
  let* n1 := cadd U512_MAX n 1 in
  let* pn1 := cmul U512_MAX n1 d_prod in
  let* den := cadd U512_MAX amp_adjusted pn1 in
  if den =? 0 then Ok d_init else Ok (numerator / den).

(* the 255-step loop of calculate_d_core: returns its last iterate even when it did not converge *)
Fixpoint d_core_loop (k : nat) (amp sum_x n : Z) (atc : list Z) (d : Z) : res Z :=
  match k with
  | O => Ok d
  | S k' =>
      let* d_prod := foldM (fun dp a =>
                        if a =? 0 then Ok dp else
                        let* m := cmul U512_MAX dp d in cdiv m a) atc d in
      let* d' := compute_next_d amp d d_prod sum_x n in
      if Z.abs (d' - d) <=? 1 then Ok d' else d_core_loop k' amp sum_x n atc d'
  end.

Definition calculate_d_core (amp : Z) (deposits : list Z) (n : Z) : res Z :=
  let* sum_x := foldM (fun acc x => cadd U128_MAX acc x) deposits 0 in
  if sum_x =? 0 then Ok 0 else
  let* atc := mapM (fun a => cmul U128_MAX a n) deposits in
  d_core_loop NEWTON_ITERATIONS amp sum_x n atc sum_x.

Definition compute_d (amp : Z) (deposits : list coin) : res Z :=
  calculate_d_core amp (map amount_of deposits) (Z.of_nat (List.length deposits)).

(* normalize_amount: None on overflow (checked_mul) — callers either `?` it or unwrap *)
Definition normalize_amount (max amount from_d to_d : Z) : res Z :=
  if to_d <? from_d then
    (* 10u128.pow(from - to) can itself overflow (panic) when the exponent is >= 39 *)
    if 39 <=? from_d - to_d then Err "panic: pow overflow" else Ok (amount / 10 ^ (from_d - to_d))
  else
    if 39 <=? to_d - from_d then Err "panic: pow overflow" else cmul max amount (10 ^ (to_d - from_d)).

Definition find_denom_decimals (p : pool_info) (d : string) : option Z :=
  match index_of_str d (p_denoms p) with
  | Some i => nth_error (p_decimals p) i
  | None => None
  end.

Definition compute_d_with_pool_info (amp : Z) (deposits : list coin) (p : pool_info) : res Z :=
  let n := Z.of_nat (List.length deposits) in
  let* _ := ensure (negb (Nat.eqb (List.length (p_decimals p)) 0)) "panic: unwrap on None" in
  let maxd := maxZ_list (p_decimals p) in
  let* norm := mapM (fun c =>
                 let* dec := of_option (find_denom_decimals p (denom_of c)) "panic: unwrap on None" in
                 normalize_amount U128_MAX (amount_of c) dec maxd) deposits in
  calculate_d_core amp norm n.

(* ---------- stableswap LP mint ---------- *)
Definition MINIMUM_LIQUIDITY_AMOUNT : Z := 1000.

Definition within_one_percent (a b : Z) : bool :=
  let diff := Z.abs (a - b) in
  let mx := Z.max a b in
  diff <=? mx / 100.

Definition min_liquidity_stableswap (min_p max_p : Z) : res Z :=
  normalize_amount U128_MAX MINIMUM_LIQUIDITY_AMOUNT min_p max_p.

(* dynamic_fee (offpeg multiplier fixed to 2); every unwrap is a panic *)
Definition dynamic_fee (xpi xpj fee asset_decimals : Z) : res Z :=
  let mult := 2 * DEC in
  let* xpi512 := to_uint_with_precision xpi asset_decimals in
  let* sxy := cadd U512_MAX xpi512 xpj in
  let* xps2 := cmul U512_MAX sxy sxy in
  let* mult512 := to_uint_with_precision mult asset_decimals in
  let* fee512 := to_uint_with_precision fee asset_decimals in
  let* numerator := cmul U512_MAX mult512 fee512 in
  let* one_p := to_uint_with_precision DEC asset_decimals in
  let t1 := smul U512_MAX (smul U512_MAX (ssub mult512 one_p) xpi512) xpj in
  let* t2 := cmul U512_MAX t1 4 in
  let* den := cdiv t2 xps2 in
  let* q := cdiv numerator den in
  let* r := cadd U512_MAX one_p q in
  let* r256 := chk U256_MAX r in
  dec_from_ratio U256_MAX r256 1.

Fixpoint zip3 (a b c : list coin) : list (coin * coin * coin) :=
  match a, b, c with
  | x :: a', y :: b', z :: c' => (x, y, z) :: zip3 a' b' c'
  | _, _, _ => []
  end.

Definition compute_lp_mint_stableswap (amp : Z) (old_assets new_assets : list coin) (total_supply : Z)
           (p : pool_info) : res Z :=
  let first_liquidity := (total_supply =? 0) || forallb (fun c => amount_of c =? 0) old_assets in
  let deposited := map (fun xy => (denom_of (fst xy), ssub (amount_of (fst xy)) (amount_of (snd xy))))
                       (combine new_assets old_assets) in
  (* `total_deposit_amount += amount` on u128: panics on overflow *)
  let* total_dep := foldM (fun acc c => cadd U128_MAX acc (amount_of c)) deposited 0 in
  if total_dep =? 0 then Ok 0 else
  let* d0 := compute_d_with_pool_info amp old_assets p in
  let* d1 := compute_d_with_pool_info amp new_assets p in
  if d1 <=? d0 then Ok 0 else
  let* adjusted :=
    if first_liquidity then Ok new_assets else
    let n := Z.of_nat (List.length old_assets) in
    let* _ := ensure (negb (Nat.eqb (List.length (p_decimals p)) 0)) "panic: unwrap on None" in
    let maxp := maxZ_list (p_decimals p) in
    let* dep0 := of_option (nth_error deposited 0) "panic: index out of bounds" in
    let* dd0 := of_option (find_denom_decimals p (denom_of dep0)) "StableLpMintError" in
    let* norm0 := normalize_amount U128_MAX (amount_of dep0) dd0 maxp in
    let balanced := forallb (fun c =>
                      let dec := match find_denom_decimals p (denom_of c) with Some d => d | None => 0 end in
                      match normalize_amount U128_MAX (amount_of c) dec maxp with
                      | Ok na => within_one_percent na norm0
                      | Err _ => false
                      end) (tl deposited) in
    if balanced then Ok new_assets else
    let* _ := ensure (Nat.leb (List.length old_assets) (List.length new_assets)) "panic: index out of bounds" in
    let* nd := dec_from_ratio U256_MAX n 1 in
    let* bf1 := dec_mul U256_MAX (swap_fee (p_fees p)) nd in
    let* dn := dec_from_ratio U256_MAX (4 * (n - 1)) 1 in
    let* base_fee := dec_div U256_MAX bf1 dn in
    let* dsum := cadd U512_MAX d0 d1 in
    let* ys := cdiv dsum n in
    mapM (fun t =>
      match t with (oldc, newc, adjc) =>
        let* adec := of_option (find_denom_decimals p (denom_of newc)) "StableLpMintError" in
        let* n_old := normalize_amount U128_MAX (amount_of oldc) adec maxp in
        let* n_new := normalize_amount U128_MAX (amount_of adjc) adec maxp in
        let* m := cmul U512_MAX d1 n_old in
        let* ideal := cdiv m d0 in
        let difference := Z.abs (n_new - ideal) in
        let* _ := chk U8_MAX maxp in
        let* xs := dec256_with_precision n_new maxp in
        let* df := dynamic_fee xs ys base_fee maxp in
        let* dfi := to_uint_with_precision df 0 in
        let* fee_max := cdiv (smul U512_MAX dfi difference) (10 ^ maxp) in
        let* fee_asset := normalize_amount U512_MAX fee_max maxp adec in
        let* na := csub U512_MAX (amount_of adjc) fee_asset in
        let* na' := chk U128_MAX na in
        Ok (denom_of adjc, na')
      end) (zip3 old_assets new_assets new_assets) in
  let* adj_d1 := compute_d_with_pool_info amp adjusted p in
  if total_supply =? 0 then
    let* _ := ensure (negb (Nat.eqb (List.length (p_decimals p)) 0)) "panic: unwrap on None" in
    let mind := minZ_list 255 (p_decimals p) in
    let maxd := maxZ_list (p_decimals p) in
    let* ml := min_liquidity_stableswap mind maxd in
    let lp := ssub adj_d1 ml in
    let* _ := ensure (0 <? lp) "InvalidInitialLiquidityAmount" in
    chk U128_MAX lp
  else
    let* diff := csub U512_MAX adj_d1 d0 in
    let* m := cmul U512_MAX total_supply diff in
    let* a := cdiv m d0 in
    chk U128_MAX a.

(* ---------- coin list helpers (mantra-dex-std coin.rs) ---------- *)
(* insertion into a denom-sorted aggregated list *)
Fixpoint agg_insert (c : coin) (l : list coin) : res (list coin) :=
  match l with
  | [] => Ok [c]
  | x :: rest =>
      match String.compare (denom_of c) (denom_of x) with
      | Eq => let* s := cadd U128_MAX (amount_of x) (amount_of c) in Ok ((denom_of x, s) :: rest)
      | Lt => Ok (c :: x :: rest)
      | Gt => let* r := agg_insert c rest in Ok (x :: r)
      end
  end.
(* aggregate_coins: sum per denom (checked), sorted by denom *)
Definition aggregate_coins (l : list coin) : res (list coin) :=
  foldM (fun acc c => agg_insert c acc) l [].

(* add_coins: every added coin must already be present; zero amounts are dropped afterwards *)
Definition add_coins (cs to_add : list coin) : res (list coin) :=
  let* r := foldM (fun acc c =>
              match index_of_denom (denom_of c) acc with
              | Some i =>
                  let* x := nth_coin i acc in
                  let* s := cadd U128_MAX (amount_of x) (amount_of c) in
                  Ok (set_nth i (denom_of x, s) acc)
              | None => Err "Cannot add coin: not found"
              end) to_add cs in
  Ok (filter (fun c => 0 <? amount_of c) r).

(* stable sort by denom (Rust's sort_by is stable) *)
Fixpoint sort_insert (c : coin) (l : list coin) : list coin :=
  match l with
  | [] => [c]
  | x :: rest => if String.ltb (denom_of c) (denom_of x) then c :: x :: rest else x :: sort_insert c rest
  end.
Definition sort_by_denom (l : list coin) : list coin := fold_right sort_insert [] l.

(* ---------- assert_slippage_tolerance (deposit tolerance) ---------- *)
(* returns the (possibly re-ordered) pool assets, because the caller stores them back *)
Definition dec_pow2 (a : Z) : res Z := dec_mul U256_MAX a a.

Definition assert_slippage_tolerance (tol : option Z) (deposits pool_assets : list coin) (pt : pool_type)
  : res (list coin) :=
  if existsb (fun c => amount_of c =? 0) pool_assets then Ok pool_assets else
  match tol with
  | None => Ok pool_assets
  | Some t =>
      let* _ := ensure (t <=? DEC) "slippage_tolerance cannot bigger than 1" in
      let one_minus := DEC - t in
      let sorted := sort_by_denom pool_assets in
      let dep := map amount_of deposits in
      let pools := map amount_of sorted in
      match pt with
      | StableSwap amp =>
          let* d_initial := compute_d amp sorted in
          let* final := add_coins sorted deposits in
          let* d_final := compute_d amp final in
          let si := Z.sqrt d_initial in
          let sf := Z.sqrt d_final in
          let* r := dec_from_ratio U256_MAX sf si in
          let* r2 := dec_pow2 r in
          let* _ := ensure (negb (t <? r2)) "MaxSlippageAssertion" in
          Ok sorted
      | ConstantProduct =>
          match dep, pools with
          | [d0; d1], [p0; p1] =>
              let* a := dec_from_ratio U256_MAX d0 d1 in
              let* am := dec_mul U256_MAX a one_minus in
              let* pa := dec_from_ratio U256_MAX p0 p1 in
              (* Rust `||` short-circuits: the second pair is only evaluated when the first test is false *)
              if pa <? am then Err "MaxSlippageAssertion" else
              let* b := dec_from_ratio U256_MAX d1 d0 in
              let* bm := dec_mul U256_MAX b one_minus in
              let* pb := dec_from_ratio U256_MAX p1 p0 in
              if pb <? bm then Err "MaxSlippageAssertion" else Ok sorted
          | _, _ => Err "InvalidPoolAssetsLength"
          end
      end
  end.

(* ---------- observation ---------- *)
Definition v_coin (c : coin) : val := VL [VS (denom_of c); VZ (amount_of c)].
Definition v_swap_computation (s : swap_computation) : val :=
  VL [VZ (sc_return s); VZ (sc_slippage s); VZ (sc_swap_fee s); VZ (sc_protocol_fee s); VZ (sc_burn_fee s); VZ (sc_extra_fees s)].
Definition v_offer_computation (s : offer_computation) : val :=
  VL [VZ (oc_offer s); VZ (oc_slippage s); VZ (oc_swap_fee s); VZ (oc_protocol_fee s); VZ (oc_burn_fee s); VZ (oc_extra_fees s)].
Definition v_pool_type (t : pool_type) : val :=
  match t with ConstantProduct => VL [VZ 0] | StableSwap a => VL [VZ 1; VZ a] end.
Definition v_pool_fee (f : pool_fee) : val :=
  VL [VZ (protocol_fee f); VZ (swap_fee f); VZ (burn_fee f); VL (map VZ (extra_fees f))].
Definition v_pool_info (p : pool_info) : val :=
  VL [VS (p_id p); VL (map VS (p_denoms p)); VL (map VZ (p_decimals p)); VL (map v_coin (p_assets p));
      v_pool_type (p_type p); VS (p_lp p); v_pool_fee (p_fees p);
      VL [vbool (swaps_enabled (p_status p)); vbool (deposits_enabled (p_status p)); vbool (withdrawals_enabled (p_status p))]].
