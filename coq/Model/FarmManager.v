(* FarmManager.v — handlers of the farm-manager contract (contract.rs, manager/commands.rs,
   position/commands.rs + helpers.rs, farm/commands.rs, helpers.rs, state.rs, queries.rs), quirks included. *)
From MD.Model Require Import Base Ownable Epoch PoolMath Types.

(* ---------- position/helpers.rs: weight curve ---------- *)
Definition SECONDS_IN_DAY : Z := 86400.
Definition SECONDS_IN_YEAR : Z := 31556926.
Definition W_A : Z := 109498841.
Definition W_B : Z := 249042009202369.
Definition W_DEN : Z := 7791996353100889432894.
Definition W_C_NUM : Z := 246210981355969.
Definition W_C_DEN : Z := 246918738317569.

Definition calculate_weight (amount dur : Z) : res Z :=
  let* _ := ensure ((SECONDS_IN_DAY <=? dur) && (dur <=? SECONDS_IN_YEAR)) "InvalidWeight" in
  let* ud := cmul U256_MAX dur DEC in
  let* am := cmul U256_MAX amount DEC in
  let* ud2 := dec_mul U256_MAX ud ud in
  let* udm := dec_mul U256_MAX ud2 W_A in
  let* part1 := dec_div U256_MAX udm W_DEN in
  let* nm := dec_mul U256_MAX ud W_B in
  let* part2 := dec_div U256_MAX nm W_DEN in
  let* part3 := dec_from_ratio U256_MAX W_C_NUM W_C_DEN in
  let* s1 := cadd U256_MAX part1 part2 in
  let* s := cadd U256_MAX s1 part3 in
  let* wd := dec_mul U256_MAX am s in
  let* wgt := chk U128_MAX (wd / DEC) in
  Ok (Z.max wgt amount).

(* ---------- emergency penalty ---------- *)
Definition MAX_PENALTY_CAP : Z := PCT 90.
Definition PENALTY_FEE_SHARE : Z := PCT 50.

Definition calculate_emergency_penalty (p : position) (base now : Z) : res Z :=
  let remaining := match pos_exp p with Some e => ssub e now | None => pos_dur p end in
  let* _ := ensure (0 <? pos_dur p) "InvalidUnlockingDuration" in
  let* rem := dec_from_ratio U128_MAX remaining (pos_dur p) in
  let* wgt := calculate_weight (amount_of (pos_lp p)) (pos_dur p) in
  let* mult := dec_from_ratio U128_MAX wgt (amount_of (pos_lp p)) in
  let* p1 := dec_mul U128_MAX base rem in
  let* p2 := dec_mul U128_MAX p1 mult in
  Ok (Z.min p2 MAX_PENALTY_CAP).

(* ---------- weight history (LP_WEIGHT_HISTORY) ---------- *)
Definition wkey_eqb (a b : wkey) : bool :=
  String.eqb (wk_addr a) (wk_addr b) && String.eqb (wk_lp a) (wk_lp b) && (wk_epoch a =? wk_epoch b).
Definition wkey_pref (a lp : string) (k : wkey) : bool := String.eqb (wk_addr k) a && String.eqb (wk_lp k) lp.

Fixpoint w_get (l : list (wkey * Z)) (k : wkey) : option Z :=
  match l with [] => None | (k', v) :: r => if wkey_eqb k k' then Some v else w_get r k end.
Fixpoint w_set (l : list (wkey * Z)) (k : wkey) (v : Z) : list (wkey * Z) :=
  match l with
  | [] => [(k, v)]
  | (k', v') :: r => if wkey_eqb k k' then (k', v) :: r else (k', v') :: w_set r k v
  end.
Definition mkw (a lp : string) (e : Z) : wkey := {| wk_addr := a; wk_lp := lp; wk_epoch := e |}.

(* earliest / latest entry of (address, lp) *)
Definition w_earliest (l : list (wkey * Z)) (a lp : string) : option (Z * Z) :=
  fold_left (fun acc kv =>
               if wkey_pref a lp (fst kv) then
                 match acc with
                 | Some (e, _) => if wk_epoch (fst kv) <? e then Some (wk_epoch (fst kv), snd kv) else acc
                 | None => Some (wk_epoch (fst kv), snd kv)
                 end
               else acc) l None.
Definition w_latest (l : list (wkey * Z)) (a lp : string) : option (Z * Z) :=
  fold_left (fun acc kv =>
               if wkey_pref a lp (fst kv) then
                 match acc with
                 | Some (e, _) => if e <? wk_epoch (fst kv) then Some (wk_epoch (fst kv), snd kv) else acc
                 | None => Some (wk_epoch (fst kv), snd kv)
                 end
               else acc) l None.
Definition w_remove_range (l : list (wkey * Z)) (a lp : string) (lo hi : Z) : list (wkey * Z) :=
  filter (fun kv => negb (wkey_pref a lp (fst kv) && (lo <=? wk_epoch (fst kv)) && (wk_epoch (fst kv) <=? hi))) l.

(* get_latest_address_weight (position/helpers.rs): (0, 0) when there is no entry *)
Definition latest_weight (l : list (wkey * Z)) (a lp : string) : Z :=
  match w_latest l a lp with Some (_, v) => v | None => 0 end.

(* ---------- state helpers ---------- *)
Definition fm_with (s : fm_state) (pos : list position) (pc : Z) (farms : list farm) (fc : Z)
           (lc : list (string * Z)) (ws : list (wkey * Z)) : fm_state :=
  {| fm_cfg := fm_cfg s; fm_own := fm_own s; fm_positions := pos; fm_pos_counter := pc; fm_farms := farms;
     fm_farm_counter := fc; fm_last_claimed := lc; fm_weights := ws |}.
Definition fm_set_positions (s : fm_state) (pos : list position) : fm_state :=
  fm_with s pos (fm_pos_counter s) (fm_farms s) (fm_farm_counter s) (fm_last_claimed s) (fm_weights s).
Definition fm_set_pos_counter (s : fm_state) (c : Z) : fm_state :=
  fm_with s (fm_positions s) c (fm_farms s) (fm_farm_counter s) (fm_last_claimed s) (fm_weights s).
Definition fm_set_farms (s : fm_state) (f : list farm) : fm_state :=
  fm_with s (fm_positions s) (fm_pos_counter s) f (fm_farm_counter s) (fm_last_claimed s) (fm_weights s).
Definition fm_set_farm_counter (s : fm_state) (c : Z) : fm_state :=
  fm_with s (fm_positions s) (fm_pos_counter s) (fm_farms s) c (fm_last_claimed s) (fm_weights s).
Definition fm_set_last_claimed (s : fm_state) (lc : list (string * Z)) : fm_state :=
  fm_with s (fm_positions s) (fm_pos_counter s) (fm_farms s) (fm_farm_counter s) lc (fm_weights s).
Definition fm_set_weights (s : fm_state) (ws : list (wkey * Z)) : fm_state :=
  fm_with s (fm_positions s) (fm_pos_counter s) (fm_farms s) (fm_farm_counter s) (fm_last_claimed s) ws.

Fixpoint lc_get (l : list (string * Z)) (a : string) : option Z :=
  match l with [] => None | (a', v) :: r => if String.eqb a a' then Some v else lc_get r a end.
Fixpoint lc_set (l : list (string * Z)) (a : string) (v : Z) : list (string * Z) :=
  match l with
  | [] => [(a, v)]
  | (a', v') :: r => if String.eqb a a' then (a', v) :: r else (a', v') :: lc_set r a v
  end.
Definition lc_remove (l : list (string * Z)) (a : string) : list (string * Z) :=
  filter (fun kv => negb (String.eqb a (fst kv))) l.

Definition MAX_POSITIONS_LIMIT : nat := 10.
Definition MAX_FARMS_LIMIT : Z := 100.

(* get_positions_by_receiver(receiver, Some(open), None, Some(10)) *)
Definition positions_by_receiver (s : fm_state) (recv : string) (open : bool) : list position :=
  take MAX_POSITIONS_LIMIT
       (filter (fun p => String.eqb (pos_recv p) recv && Bool.eqb (pos_open p) open) (fm_positions s)).

(* get_farms_by_lp_denom(lp, None, Some(limit)): limit clamped to MAX_FARMS_LIMIT *)
Definition farms_by_lp (s : fm_state) (lp : string) (limit : Z) : list farm :=
  take (Z.to_nat (Z.min limit MAX_FARMS_LIMIT)) (filter (fun f => String.eqb (f_lp f) lp) (fm_farms s)).

Definition validate_lp_denom (lp pm_addr : string) : res unit :=
  match factory_token_creator lp with
  | Some c => ensure (String.eqb c pm_addr) "AssetMismatch"
  | None => Err "AssetMismatch"
  end.

Definition id_char (c : Ascii.ascii) : bool := is_alnum c || ascii_is c 46 || ascii_is c 45 || ascii_is c 95.
Definition validate_identifier (id : string) : res unit :=
  ensure ((slen id <=? 66) && string_forall id_char id) "InvalidIdentifier".

Definition is_panic (e : string) : bool := String.prefix "panic" e.
(* Result::unwrap_or(default): catches errors, not panics *)
Definition unwrap_or {A} (r : res A) (d : A) : res A :=
  match r with Ok a => Ok a | Err e => if is_panic e then Err e else Ok d end.

(* Timestamp::plus_seconds: u64 arithmetic on nanoseconds, panics on overflow *)
Definition ts_plus_seconds (t s : Z) : res Z :=
  if in_range U64_MAX (s * NANOS) && in_range U64_MAX (t + s * NANOS) then Ok (t + s * NANOS)
  else Err "panic: timestamp overflow".

(* helpers.rs::is_farm_expired *)
Definition is_farm_expired (w : world) (cfg : fm_config) (f : farm) : res bool :=
  let* id := (if in_range U64_MAX (f_end f + 1) then Ok (f_end f + 1) else Err "panic: add overflow") in
  let* ep := q_epoch w (fm_epoch_manager cfg) id in
  let* ending := ts_plus_seconds (ep_start ep) (fm_expiration cfg) in
  Ok ((ssub (amount_of (f_asset f)) (f_claimed f) =? 0) || (ending <? time (w_block w))).

(* ---------- update_weights ---------- *)
Definition update_weights (w : world) (s : fm_state) (recv lp : string) (amount dur : Z) (fill : bool) : res fm_state :=
  let cfg := fm_cfg s in
  let* ep := q_current_epoch w (fm_epoch_manager cfg) in
  let* wgt := calculate_weight amount dur in
  let* e1 := (if in_range U64_MAX (ep_id ep + 1) then Ok (ep_id ep + 1) else Err "panic: add overflow") in
  let cw := latest_weight (fm_weights s) FM lp in
  let* cw' := if fill then cadd U128_MAX cw wgt else Ok (ssub cw wgt) in
  let ws1 := w_set (fm_weights s) (mkw FM lp e1) cw' in
  let uw := latest_weight ws1 recv lp in
  let* uw' := if fill then cadd U128_MAX uw wgt else Ok (ssub uw wgt) in
  Ok (fm_set_weights s (w_set ws1 (mkw recv lp e1) uw')).

(* ---------- rewards ---------- *)
Fixpoint dedup (l : list string) : list string :=
  match l with [] => [] | x :: r => x :: filter (fun y => negb (String.eqb x y)) (dedup r) end.
Definition unique_lp_denoms (ps : list position) : list string := dedup (map (fun p => denom_of (pos_lp p)) ps).

(* epochs lo, lo+1, ..., hi *)
Definition epoch_range (lo hi : Z) : list Z :=
  if hi <? lo then [] else map (fun k => lo + Z.of_nat k) (seq 0 (Z.to_nat (hi - lo + 1))).

(* compute_address_weights: carry-forward over [start-1, until], first value 0 *)
Definition address_weight_at (ws : list (wkey * Z)) (a lp : string) (start e : Z) : Z :=
  fold_left (fun lastw ep => match w_get ws (mkw a lp ep) with Some v => v | None => lastw end)
            (epoch_range (start - 1) e) 0.

(* compute_contract_weights, evaluated at one epoch e in [start, until]; None = "not in the map" *)
Definition contract_weight_at (ws : list (wkey * Z)) (lp : string) (start e : Z) : res (option Z) :=
  match w_get ws (mkw FM lp start) with
  | Some w0 =>
      Ok (Some (fold_left (fun lastw ep => match w_get ws (mkw FM lp ep) with Some v => v | None => lastw end)
                          (epoch_range (start + 1) e) w0))
  | None =>
      match w_earliest ws FM lp with
      | None => Err "Unauthorized"
      | Some (e0, w0) =>
          if (e0 + 1 <=? e) && (start <=? e) then
            Ok (Some (fold_left (fun lastw ep => match w_get ws (mkw FM lp ep) with Some v => v | None => lastw end)
                                (epoch_range (e0 + 1) e) w0))
          else Ok None
      end
  end.

Definition start_from_epoch (s : fm_state) (lp recv : string) (last_claimed : option Z) : res Z :=
  match last_claimed with
  | Some lc => if in_range U64_MAX (lc + 1) then Ok (lc + 1) else Err "panic: add overflow"
  | None => match w_earliest (fm_weights s) recv lp with
            | Some (e, _) => Ok e
            | None => Err "NoOpenPositions" end
  end.

(* rewards of one farm over the claimable span: list of per-epoch rewards (zero ones included) *)
Definition farm_rewards (s : fm_state) (f : farm) (lp recv : string) (until : Z) (last_claimed : option Z)
  : res (list (Z * Z)) :=
  let* start := start_from_epoch s (f_lp f) recv last_claimed in
  let* _ := ensure (1 <=? start) "panic: subtract with overflow" in
  (* compute_contract_weights fails as a whole when the contract has no history *)
  let* _ := contract_weight_at (fm_weights s) lp start start in
  let* _ := ensure (1 <=? f_end f) "panic: subtract with overflow" in
  let until_epoch := if f_end f <=? until then f_end f - 1 else until in
  foldM (fun acc e =>
           if e <? f_start f then Ok acc else
           let uw := address_weight_at (fm_weights s) recv lp start e in
           let* tw := contract_weight_at (fm_weights s) lp start e in
           match tw with
           | None => Ok acc
           | Some total =>
               if total =? 0 then Ok acc else
               let* reward := chk U128_MAX (f_rate f * uw / total) in
               let* sum := cadd U128_MAX reward (f_claimed f) in
               let* _ := ensure (sum <=? amount_of (f_asset f)) "FarmExhausted" in
               Ok (acc ++ [(e, reward)])%list
           end) (epoch_range start until_epoch) [].

(* calculate_rewards: (aggregated rewards, per-farm claimed totals) *)
Definition calculate_rewards (s : fm_state) (lp recv : string) (until : Z)
  : res (list coin * list (string * Z)) :=
  let cfg := fm_cfg s in
  let farms := farms_by_lp s lp (fm_max_farms cfg) in
  let last_claimed := lc_get (fm_last_claimed s) recv in
  let* _ := match last_claimed with
            | Some lc => ensure (lc <=? until) "InvalidUntilEpoch"
            | None => Ok tt end in
  if match last_claimed with Some lc => until =? lc | None => false end then Ok ([], []) else
  let* (rewards, modified) :=
    foldM (fun acc f =>
             if until <? f_start f then Ok acc else
             let* rs := farm_rewards s f lp recv until last_claimed in
             let coins := map (fun er => (denom_of (f_asset f), snd er)) (filter (fun er => 0 <? snd er) rs) in
             let* total := foldM (fun t er => cadd U128_MAX t (snd er)) rs 0 in
             let modified' := match rs with [] => snd acc | _ => (snd acc ++ [(f_id f, total)])%list end in
             Ok ((fst acc ++ coins)%list, modified')) farms ([], []) in
  let* agg := aggregate_coins rewards in
  Ok (agg, modified).

Definition until_epoch_or_current (until : option Z) (cur : Z) : res Z :=
  match until with
  | Some u => let* _ := ensure (u <=? cur) "InvalidUntilEpoch" in Ok u
  | None => Ok cur
  end.

(* sync_address_lp_weight_history *)
Definition sync_weight_history (s : fm_state) (a lp : string) (epoch : Z) (save_last : bool) : res fm_state :=
  match w_earliest (fm_weights s) a lp, w_latest (fm_weights s) a lp with
  | Some (e0, _), Some (e1, w1) =>
      let ws := w_remove_range (fm_weights s) a lp e0 e1 in
      Ok (fm_set_weights s (if save_last then w_set ws (mkw a lp epoch) w1 else ws))
  | _, _ => Err "NoOpenPositions"
  end.

(* query_rewards: total rewards over all LP denoms of the user's open positions *)
Definition query_rewards (w : world) (s : fm_state) (addr : string) (until : option Z) : res (list coin) :=
  let* _ := ensure (addr_valid w addr) "invalid address" in
  let open := positions_by_receiver s addr true in
  match open with
  | [] => Ok []
  | _ =>
      let* ep := q_current_epoch w (fm_epoch_manager (fm_cfg s)) in
      let* u := until_epoch_or_current until (ep_id ep) in
      let* all := foldM (fun acc lp => let* (r, _) := calculate_rewards s lp addr u in Ok (acc ++ r)%list)
                        (unique_lp_denoms open) [] in
      aggregate_coins all
  end.

Definition claim (w : world) (sender : string) (funds : list coin) (until : option Z) : res (fm_state * list submsg) :=
  let s := w_fm w in
  let* _ := nonpayable funds in
  let open := positions_by_receiver s sender true in
  let* _ := ensure (negb (Nat.eqb (List.length open) 0)) "NoOpenPositions" in
  let* ep := q_current_epoch w (fm_epoch_manager (fm_cfg s)) in
  let* u := until_epoch_or_current until (ep_id ep) in
  let* (s1, total) :=
    foldM (fun acc lp =>
             let s0 := fst acc in
             let* (rewards, modified) := calculate_rewards s0 lp sender u in
             let* farms' := foldM (fun fs m =>
                               let* f := of_option (sfind f_id (fst m) fs) "panic: unwrap on None" in
                               let* c := cadd U128_MAX (f_claimed f) (snd m) in
                               let* _ := ensure (c <=? amount_of (f_asset f)) "FarmExhausted" in
                               Ok (sinsert f_id {| f_id := f_id f; f_owner := f_owner f; f_lp := f_lp f; f_asset := f_asset f;
                                                   f_claimed := c; f_rate := f_rate f; f_start := f_start f; f_end := f_end f |} fs))
                             modified (fm_farms s0) in
             let* s2 := sync_weight_history (fm_set_farms s0 farms') sender lp u true in
             Ok (s2, (snd acc ++ rewards)%list)) (unique_lp_denoms open) (s, []) in
  let s2 := fm_set_last_claimed s1 (lc_set (fm_last_claimed s1) sender u) in
  let* msgs := match total with
               | [] => Ok []
               | _ => let* agg := aggregate_coins total in Ok [plain (MBankSend sender agg)]
               end in
  Ok (s2, msgs).

(* ---------- positions ---------- *)
Definition validate_positions_limit (s : fm_state) (recv : string) (open : bool) : res unit :=
  ensure (Nat.ltb (List.length (positions_by_receiver s recv open)) MAX_POSITIONS_LIMIT) "MaxPositionsPerUserExceeded".

Definition create_position (w : world) (sender : string) (funds : list coin) (oid : option string) (dur : Z)
           (receiver : option string) : res (fm_state * list submsg) :=
  let s := w_fm w in
  let cfg := fm_cfg s in
  let* lp := one_coin funds in
  let* _ := validate_lp_denom (denom_of lp) (fm_pool_manager cfg) in
  let* _ := ensure ((fm_min_unlock cfg <=? dur) && (dur <=? fm_max_unlock cfg)) "InvalidUnlockingDuration" in
  let* recv := match receiver with
               | Some r =>
                   let* _ := ensure (addr_valid w r) "invalid address" in
                   let* _ := ensure (String.eqb sender (fm_pool_manager cfg) || String.eqb sender r) "Unauthorized" in
                   Ok r
               | None => Ok sender
               end in
  let* c := (if in_range U64_MAX (fm_pos_counter s + 1) then Ok (fm_pos_counter s + 1) else Err "panic: add overflow") in
  let (identifier, s1) := match oid with
                          | Some id => ("u-" ++ id, s)
                          | None => ("p-" ++ string_of_Z c, fm_set_pos_counter s c)
                          end in
  let* _ := validate_identifier identifier in
  let* _ := ensure (match sfind pos_id identifier (fm_positions s1) with Some _ => false | None => true end) "PositionAlreadyExists" in
  let* _ := validate_positions_limit s1 recv true in
  let p := {| pos_id := identifier; pos_lp := lp; pos_dur := dur; pos_open := true; pos_exp := None; pos_recv := recv |} in
  let s2 := fm_set_positions s1 (sinsert pos_id p (fm_positions s1)) in
  let* s3 := update_weights w s2 recv (denom_of lp) (amount_of lp) dur true in
  Ok (s3, []).

Definition pos_with (p : position) (amount : Z) (open : bool) (exp : option Z) : position :=
  {| pos_id := pos_id p; pos_lp := (denom_of (pos_lp p), amount); pos_dur := pos_dur p; pos_open := open;
     pos_exp := exp; pos_recv := pos_recv p |}.

Definition expand_position (w : world) (sender : string) (funds : list coin) (id : string) : res (fm_state * list submsg) :=
  let s := w_fm w in
  let* p := of_option (sfind pos_id id (fm_positions s)) "NoPositionFound" in
  let* lp := one_coin funds in
  let cfg := fm_cfg s in
  let* _ := validate_lp_denom (denom_of lp) (fm_pool_manager cfg) in
  let* _ := ensure (String.eqb (denom_of (pos_lp p)) (denom_of lp)) "AssetMismatch" in
  let* _ := ensure (pos_open p) "PositionAlreadyClosed" in
  let* _ := ensure (String.eqb (pos_recv p) sender || String.eqb sender (fm_pool_manager cfg)) "Unauthorized" in
  let* a := cadd U128_MAX (amount_of (pos_lp p)) (amount_of lp) in
  let s1 := fm_set_positions s (sinsert pos_id (pos_with p a (pos_open p) (pos_exp p)) (fm_positions s)) in
  let* s2 := update_weights w s1 (pos_recv p) (denom_of lp) (amount_of lp) (pos_dur p) true in
  Ok (s2, []).

(* reconcile_user_state *)
Definition reconcile_user_state (w : world) (s : fm_state) (recv lp : string) : res fm_state :=
  let open := positions_by_receiver s recv true in
  let s1 := match open with [] => fm_set_last_claimed s (lc_remove (fm_last_claimed s) recv) | _ => s end in
  if forallb (fun p => negb (String.eqb (denom_of (pos_lp p)) lp)) open then
    match w_earliest (fm_weights s1) recv lp with
    | Some _ =>
        let* ep := q_current_epoch w (fm_epoch_manager (fm_cfg s1)) in
        sync_weight_history s1 recv lp (ep_id ep) false
    | None => Ok s1
    end
  else Ok s1.

Definition close_position (w : world) (sender : string) (funds : list coin) (id : string) (olp : option coin)
  : res (fm_state * list submsg) :=
  let s := w_fm w in
  let* _ := nonpayable funds in
  let* pending := query_rewards w s sender None in
  let* _ := ensure (Nat.eqb (List.length pending) 0) "PendingRewards" in
  let* p := of_option (sfind pos_id id (fm_positions s)) "NoPositionFound" in
  let* _ := ensure (String.eqb (pos_recv p) sender) "Unauthorized" in
  let* _ := ensure (pos_open p) "PositionAlreadyClosed" in
  let* exp_ns := ts_plus_seconds (time (w_block w)) (pos_dur p) in
  let expires_at := exp_ns / NANOS in
  let* _ := validate_positions_limit s sender false in
  let amount := amount_of (pos_lp p) in
  let* (p', s1, to_close) :=
    match olp with
    | Some lp =>
        let* _ := ensure (String.eqb (denom_of lp) (denom_of (pos_lp p))) "AssetMismatch" in
        if amount_of lp =? amount then Ok (pos_with p amount false (Some expires_at), s, amount)
        else if amount_of lp <? amount then
          let* c := (if in_range U64_MAX (fm_pos_counter s + 1) then Ok (fm_pos_counter s + 1) else Err "panic: add overflow") in
          let nid := "p-" ++ string_of_Z c in
          let np := {| pos_id := nid; pos_lp := lp; pos_dur := pos_dur p; pos_open := false;
                       pos_exp := Some expires_at; pos_recv := pos_recv p |} in
          let s' := fm_set_positions (fm_set_pos_counter s c) (sinsert pos_id np (fm_positions s)) in
          Ok (pos_with p (ssub amount (amount_of lp)) true (pos_exp p), s', amount_of lp)
        else Err "InvalidLpAmount"
    | None => Ok (pos_with p amount false (Some expires_at), s, amount)
    end in
  let* s2 := update_weights w s1 sender (denom_of (pos_lp p)) to_close (pos_dur p) false in
  let s3 := fm_set_positions s2 (sinsert pos_id p' (fm_positions s2)) in
  let* s4 := reconcile_user_state w s3 sender (denom_of (pos_lp p)) in
  Ok (s4, []).

Definition position_is_expired (p : position) (now_s : Z) : bool :=
  match pos_exp p with Some e => e <=? now_s | None => false end.

Definition withdraw_position (w : world) (sender : string) (funds : list coin) (id : string) (emergency : option bool)
  : res (fm_state * list submsg) :=
  let s := w_fm w in
  let* _ := nonpayable funds in
  let* p := of_option (sfind pos_id id (fm_positions s)) "NoPositionFound" in
  let* _ := ensure (String.eqb (pos_recv p) sender) "Unauthorized" in
  let now_s := seconds (w_block w) in
  let lp := denom_of (pos_lp p) in
  let amount := amount_of (pos_lp p) in
  let* (s1, msgs, amount') :=
    if (match emergency with Some true => true | _ => false end) && negb (position_is_expired p now_s) then
      let cfg := fm_cfg s in
      let* pen := calculate_emergency_penalty p (fm_penalty cfg) now_s in
      let* ad := dec_from_ratio U128_MAX amount 1 in
      let* tp := dec_mul U128_MAX ad pen in
      let total_penalty := dec_floor tp in
      let* _ := ensure (total_penalty <? amount) "InvalidEmergencyUnlockPenalty" in
      let* td := dec_from_ratio U128_MAX total_penalty 1 in
      let* oc := dec_mul U128_MAX td PENALTY_FEE_SHARE in
      let owner_comm := dec_floor oc in
      let* ep := q_current_epoch w (fm_epoch_manager cfg) in
      let* farms := foldM (fun acc f =>
                       if f_start f <=? ep_id ep then
                         let* ex := unwrap_or (is_farm_expired w cfg f) false in
                         Ok (if ex then acc else (acc ++ [f])%list)
                       else Ok acc) (farms_by_lp s lp MAX_FARMS_LIMIT) [] in
      let owners := dedup (map f_owner farms) in
      let* (owner_msgs, collector) :=
        match owners with
        | [] => Ok ([], total_penalty)
        | _ =>
            let* od := dec_from_ratio U128_MAX owner_comm (Z.of_nat (List.length owners)) in
            let per := dec_floor od in
            if 0 <? per then Ok (map (fun o => plain (MBankSend o [(lp, per)])) owners, ssub total_penalty owner_comm)
            else Ok ([], total_penalty)
        end in
      let coll_msgs := if 0 <? collector then [plain (MBankSend (fm_fee_collector cfg) [(lp, collector)])] else [] in
      let* s' := if pos_open p then update_weights w s sender lp amount (pos_dur p) false else Ok s in
      Ok (s', (owner_msgs ++ coll_msgs)%list, ssub amount total_penalty)
    else
      let* _ := ensure (match pos_exp p with Some _ => true | None => false end) "Unauthorized" in
      let* _ := ensure (position_is_expired p now_s) "PositionNotExpired" in
      Ok (s, [], amount) in
  let send := if amount' =? 0 then [] else [plain (MBankSend (pos_recv p) [(lp, amount')])] in
  let s2 := fm_set_positions s1 (sremove pos_id id (fm_positions s1)) in
  let* s3 := if pos_open p then reconcile_user_state w s2 sender lp else Ok s2 in
  Ok (s3, (msgs ++ send)%list).

(* ---------- farms ---------- *)
Definition MIN_FARM_AMOUNT : Z := 1000.
Definition DEFAULT_FARM_DURATION : Z := 14.
Definition CLOSE_FARMS_ERR_REPLY_CODE : Z := 1.

Definition close_farms (s : fm_state) (fs : list farm) : fm_state * list submsg :=
  fold_left (fun acc f =>
               let s0 := fst acc in
               let rem := ssub (amount_of (f_asset f)) (f_claimed f) in
               (fm_set_farms s0 (sremove f_id (f_id f) (fm_farms s0)),
                if 0 <? rem then
                  (snd acc ++ [{| sm_msg := MBankSend (f_owner f) [(denom_of (f_asset f), rem)];
                                  sm_id := CLOSE_FARMS_ERR_REPLY_CODE; sm_reply := RError |}])%list
                else snd acc)) fs (s, []).

Definition process_farm_creation_fee (cfg : fm_config) (sender : string) (funds : list coin) (asset : coin)
  : res (list submsg) :=
  let fee := fm_create_fee cfg in
  let* paidc := of_option (find (fun c => String.eqb (denom_of c) (denom_of fee)) funds) "FarmFeeMissing" in
  let paid := amount_of paidc in
  let* refund :=
    if paid =? amount_of fee then Ok []
    else if paid <? amount_of fee then Err "FarmFeeNotPaid"
    else if String.eqb (denom_of fee) (denom_of asset) then
      let* t := cadd U128_MAX (amount_of asset) (amount_of fee) in
      let* _ := ensure (t =? paid) "AssetMismatch" in Ok []
    else Ok [plain (MBankSend sender [(denom_of fee, ssub paid (amount_of fee))])] in
  Ok (refund ++ (if 0 <? amount_of fee then [plain (MBankSend (fm_fee_collector cfg) [fee])] else []))%list.

Definition assert_farm_asset (funds : list coin) (fee asset : coin) : res unit :=
  let* sent := of_option (find (fun c => String.eqb (denom_of c) (denom_of asset)) funds) "AssetMismatch" in
  if negb (String.eqb (denom_of fee) (denom_of asset)) then
    let* _ := ensure (amount_of sent =? amount_of asset) "AssetMismatch" in
    (* two coins (asset + fee); a single coin when no fee is due *)
    ensure (Nat.eqb (List.length funds) (if amount_of fee =? 0 then 1 else 2)) "AssetMismatch"
  else
    let* t := cadd U128_MAX (amount_of asset) (amount_of fee) in
    let* _ := ensure (t =? amount_of sent) "AssetMismatch" in
    ensure (Nat.eqb (List.length funds) 1) "AssetMismatch".

Definition validate_farm_epochs (p : farm_params) (cur buffer : Z) : res (Z * Z) :=
  let* start := match fp_start p with
                | Some e => Ok e
                | None => if in_range U64_MAX (cur + 1) then Ok (cur + 1) else Err "panic: add overflow" end in
  let* _ := ensure (cur <? start) "InvalidEpoch" in
  (* unwrap_or(arg) evaluates its argument eagerly: start + 14 must not overflow even when an end is given *)
  let* dflt := (if in_range U64_MAX (start + DEFAULT_FARM_DURATION) then Ok (start + DEFAULT_FARM_DURATION) else Err "InvalidEpoch") in
  let endp := match fp_end p with Some e => e | None => dflt end in
  let* _ := ensure (start <? endp) "FarmStartTimeAfterEndTime" in
  let* _ := ensure (cur <? endp) "FarmEndsInPast" in
  let* lim := cadd U64_MAX cur buffer in
  let* _ := ensure (start <=? lim) "FarmStartTooFar" in
  Ok (start, endp).

Definition create_farm (w : world) (sender : string) (funds : list coin) (p : farm_params) : res (fm_state * list submsg) :=
  let s := w_fm w in
  let cfg := fm_cfg s in
  let* _ := validate_lp_denom (fp_lp p) (fm_pool_manager cfg) in
  let farms := farms_by_lp s (fp_lp p) (fm_max_farms cfg) in
  let* ep := q_current_epoch w (fm_epoch_manager cfg) in
  let* (expired, live) := foldM (fun acc f =>
                            let* ex := unwrap_or (is_farm_expired w cfg f) false in
                            Ok (if ex then ((fst acc ++ [f])%list, snd acc) else (fst acc, (snd acc ++ [f])%list)))
                          farms ([], []) in
  let (s1, submsgs) := close_farms s expired in
  let* _ := ensure (Z.of_nat (List.length live) <? fm_max_farms cfg) "TooManyFarms" in
  let* _ := ensure (MIN_FARM_AMOUNT <=? amount_of (fp_asset p)) "InvalidFarmAmount" in
  let fee := fm_create_fee cfg in
  let* msgs := if negb (amount_of fee =? 0) then process_farm_creation_fee cfg sender funds (fp_asset p) else Ok [] in
  let* _ := assert_farm_asset funds fee (fp_asset p) in
  let* (start, endp) := validate_farm_epochs p (ep_id ep) (fm_epoch_buffer cfg) in
  let* (identifier, s2) :=
    match fp_id p with
    | Some id => Ok ("m-" ++ id, s1)
    | None =>
        let* c := (if in_range U64_MAX (fm_farm_counter s1 + 1) then Ok (fm_farm_counter s1 + 1) else Err "panic: add overflow") in
        Ok ("f-" ++ string_of_Z c, fm_set_farm_counter s1 c)
    end in
  let* _ := validate_identifier identifier in
  let* _ := ensure (match sfind f_id identifier (fm_farms s2) with Some _ => false | None => true end) "FarmAlreadyExists" in
  let* rate := cdiv (amount_of (fp_asset p)) (ssub endp start) in
  let f := {| f_id := identifier; f_owner := sender; f_lp := fp_lp p; f_asset := fp_asset p; f_claimed := 0;
              f_rate := rate; f_start := start; f_end := endp |} in
  Ok (fm_set_farms s2 (sinsert f_id f (fm_farms s2)), (msgs ++ submsgs)%list).

Definition expand_farm (w : world) (sender : string) (funds : list coin) (p : farm_params) : res (fm_state * list submsg) :=
  let s := w_fm w in
  let* id := of_option (fp_id p) "NonExistentFarm" in
  let* f := of_option (sfind f_id id (fm_farms s)) "NonExistentFarm" in
  let* _ := ensure (String.eqb (f_owner f) sender) "Unauthorized" in
  let cfg := fm_cfg s in
  let* ep := q_current_epoch w (fm_epoch_manager cfg) in
  let* _ := ensure (ep_id ep <? f_end f) "FarmAlreadyExpired" in
  let* ex := is_farm_expired w cfg f in
  let* _ := ensure (negb ex) "FarmAlreadyExpired" in
  let* _ := validate_lp_denom (fp_lp p) (fm_pool_manager cfg) in
  let* reward := one_coin funds in
  let* _ := ensure (String.eqb (denom_of reward) (denom_of (fp_asset p)) && (amount_of reward =? amount_of (fp_asset p))) "AssetMismatch" in
  let* _ := ensure (String.eqb (denom_of (f_asset f)) (denom_of (fp_asset p))) "AssetMismatch" in
  (* Uint128 `%` panics on a zero divisor *)
  let* _ := (if f_rate f =? 0 then Err "panic: remainder by zero" else ensure (amount_of reward mod f_rate f =? 0) "InvalidExpansionAmount") in
  let* a := cadd U128_MAX (amount_of (f_asset f)) (amount_of reward) in
  let* extra := cdiv (amount_of (fp_asset p)) (f_rate f) in
  let* extra64 := chk U64_MAX extra in
  let* e' := (if in_range U64_MAX (f_end f + extra64) then Ok (f_end f + extra64) else Err "InvalidEpoch") in
  let f' := {| f_id := f_id f; f_owner := f_owner f; f_lp := f_lp f; f_asset := (denom_of (f_asset f), a);
               f_claimed := f_claimed f; f_rate := f_rate f; f_start := f_start f; f_end := e' |} in
  Ok (fm_set_farms s (sinsert f_id f' (fm_farms s)), []).

Definition close_farm (w : world) (sender : string) (funds : list coin) (id : string) : res (fm_state * list submsg) :=
  let s := w_fm w in
  let* _ := nonpayable funds in
  let* f := of_option (sfind f_id id (fm_farms s)) "NonExistentFarm" in
  let* _ := ensure (String.eqb (f_owner f) sender || is_owner (fm_own s) sender) "Unauthorized" in
  Ok (close_farms s [f]).

(* ---------- config ---------- *)
Definition MONTH_IN_SECONDS : Z := 2629746.

Definition fm_update_config (w : world) (sender : string) (u : fm_cfg_update) : res (fm_state * list submsg) :=
  let s := w_fm w in
  let* _ := assert_owner (fm_own s) sender in
  let c := fm_cfg s in
  let upd_addr (o : option string) (d : string) : res string :=
    match o with Some a => let* _ := ensure (addr_valid w a) "invalid address" in Ok a | None => Ok d end in
  let* fc := upd_addr (u_fee_collector u) (fm_fee_collector c) in
  let* em := upd_addr (u_epoch_manager u) (fm_epoch_manager c) in
  let* pm := upd_addr (u_pool_manager u) (fm_pool_manager c) in
  let fee := match u_create_fee u with Some f => f | None => fm_create_fee c end in
  let* mf := match u_max_farms u with
             | Some m => let* _ := ensure (fm_max_farms c <=? m) "MaximumConcurrentFarmsDecreased" in Ok m
             | None => Ok (fm_max_farms c) end in
  let eb := match u_epoch_buffer u with Some b => b | None => fm_epoch_buffer c end in
  let* maxu := match u_max_unlock u with
               | Some m => let* _ := ensure (fm_min_unlock c <=? m) "InvalidUnlockingRange" in Ok m
               | None => Ok (fm_max_unlock c) end in
  let* minu := match u_min_unlock u with
               | Some m => let* _ := ensure (m <=? maxu) "InvalidUnlockingRange" in Ok m
               | None => Ok (fm_min_unlock c) end in
  let* ex := match u_expiration u with
             | Some e => let* _ := ensure (MONTH_IN_SECONDS <=? e) "FarmExpirationTimeInvalid" in Ok e
             | None => Ok (fm_expiration c) end in
  let* pen := match u_penalty u with
              | Some p => let* _ := ensure (p <=? PCT 100) "InvalidEmergencyUnlockPenalty" in Ok p
              | None => Ok (fm_penalty c) end in
  let c' := {| fm_epoch_manager := em; fm_fee_collector := fc; fm_pool_manager := pm; fm_create_fee := fee;
               fm_max_farms := mf; fm_epoch_buffer := eb; fm_min_unlock := minu; fm_max_unlock := maxu;
               fm_expiration := ex; fm_penalty := pen |} in
  Ok ({| fm_cfg := c'; fm_own := fm_own s; fm_positions := fm_positions s; fm_pos_counter := fm_pos_counter s;
         fm_farms := fm_farms s; fm_farm_counter := fm_farm_counter s; fm_last_claimed := fm_last_claimed s;
         fm_weights := fm_weights s |}, []).

Definition fm_instantiate (w : world) (owner : string) (c : fm_config) : res fm_state :=
  let* _ := ensure (0 <? fm_max_farms c) "UnspecifiedConcurrentFarms" in
  let* _ := ensure (fm_min_unlock c <=? fm_max_unlock c) "InvalidUnlockingRange" in
  let* _ := ensure (MONTH_IN_SECONDS <=? fm_expiration c) "FarmExpirationTimeInvalid" in
  let* _ := ensure (addr_valid w (fm_epoch_manager c)) "invalid address" in
  let* _ := ensure (addr_valid w (fm_fee_collector c)) "invalid address" in
  let* _ := ensure (fm_penalty c <=? PCT 100) "InvalidEmergencyUnlockPenalty" in
  let* o := init_ownership (addr_valid w) owner in
  Ok {| fm_cfg := c; fm_own := o; fm_positions := []; fm_pos_counter := 0; fm_farms := []; fm_farm_counter := 0;
        fm_last_claimed := []; fm_weights := [] |}.

(* ---------- entry points ---------- *)
Definition fm_execute (w : world) (sender : string) (funds : list coin) (m : fm_msg) : res (fm_state * list submsg) :=
  match m with
  | FmCreateFarm p => create_farm w sender funds p
  | FmExpandFarm p => expand_farm w sender funds p
  | FmCloseFarm id => close_farm w sender funds id
  | FmOwnership a =>
      let* _ := nonpayable funds in
      let s := w_fm w in
      let* o := update_ownership (addr_valid w) (w_block w) sender a (fm_own s) in
      Ok ({| fm_cfg := fm_cfg s; fm_own := o; fm_positions := fm_positions s; fm_pos_counter := fm_pos_counter s;
             fm_farms := fm_farms s; fm_farm_counter := fm_farm_counter s; fm_last_claimed := fm_last_claimed s;
             fm_weights := fm_weights s |}, [])
  | FmClaim u => claim w sender funds u
  | FmPosCreate id dur r => create_position w sender funds id dur r
  | FmPosExpand id => expand_position w sender funds id
  | FmPosClose id lp => close_position w sender funds id lp
  | FmPosWithdraw id e => withdraw_position w sender funds id e
  | FmUpdateConfig u =>
      let* _ := nonpayable funds in
      fm_update_config w sender u
  end.

(* reply: only the close-farm refund failure (id 1) is handled, and it does nothing *)
Definition fm_reply (w : world) (id : Z) : res (fm_state * list submsg) :=
  if id =? CLOSE_FARMS_ERR_REPLY_CODE then Ok (w_fm w, []) else Err "reply id not found".

(* observation *)
Definition v_position (p : position) : val :=
  VL [VS (pos_id p); v_coin (pos_lp p); VZ (pos_dur p); vbool (pos_open p); vopt VZ (pos_exp p); VS (pos_recv p)].
Definition v_farm (f : farm) : val :=
  VL [VS (f_id f); VS (f_owner f); VS (f_lp f); v_coin (f_asset f); VZ (f_claimed f); VZ (f_rate f); VZ (f_start f); VZ (f_end f)].
Definition v_fm_config (c : fm_config) : val :=
  VL [VS (fm_epoch_manager c); VS (fm_fee_collector c); VS (fm_pool_manager c); v_coin (fm_create_fee c);
      VZ (fm_max_farms c); VZ (fm_epoch_buffer c); VZ (fm_min_unlock c); VZ (fm_max_unlock c);
      VZ (fm_expiration c); VZ (fm_penalty c)].
