(* Chain.v — message dispatch of the chain as implemented by cw-multi-test 2.4.0 (WasmKeeper::execute_submsg /
   process_response, BankKeeper) plus mantra-common-testing's StargateMock (token factory): attached funds are
   moved first, the handler runs, its sub-messages run depth-first in order, each in its own transactional
   scope, reply_on success/error calls the contract's reply, an uncaught error rolls back the transaction. *)
From MD.Model Require Import Base Ownable Epoch PoolMath Types PoolManager FarmManager.

(* Fault injection: [w_fault = Some k] makes the k-th (0-based) call into the bank module of this transaction
   fail (sends, burns, mints, the fee burn of create-denom, and the funds transfer of a contract call), once.
   The counter lives outside the transactional store (as in the harness' failing bank), so a rolled-back
   scope keeps the ticks it consumed: results carry the counter explicitly. *)
Definition outcome : Type := (res world * option Z)%type.

Definition fault_tick (w : world) : res world * option Z :=
  match w_fault w with
  | None => (Ok w, None)
  | Some k => if k =? 0 then (Err "injected fault", None) else (Ok (set_fault w (Some (k - 1))), Some (k - 1))
  end.

(* one call into the bank module *)
Definition bank_call (w : world) (f : bank -> res bank) : outcome :=
  match fault_tick w with
  | (Err e, fl) => (Err e, fl)
  | (Ok w1, fl) =>
      match f (w_bank w1) with
      | Ok b => (Ok (set_bank w1 b), fl)
      | Err e => (Err e, fl)
      end
  end.

(* leaf messages *)
Definition exec_leaf (w : world) (sender : string) (m : cmsg) : outcome :=
  match m with
  | MBankSend to amount => bank_call w (fun b => bank_send b sender to amount)
  | MBankBurn amount => bank_call w (fun b => bank_burn b sender amount)
  | MTfCreateDenom _ => bank_call w (fun b => bank_burn b sender (w_tf_fee w))   (* the mock consumes the creation fee *)
  | MTfMint c to => bank_call w (fun b => bank_mint b to [c])
  | MTfBurn c => bank_call w (fun b => bank_burn b sender [c])
  | MWasm _ _ _ => (Err "not a leaf", w_fault w)
  end.

(* ---------- typing of message payloads ----------
   In the implementation every amount is a Uint128, every share a Decimal (u128 atomics), epochs/durations/amp are
   u64, limits u32, decimals u8: values outside these ranges cannot be constructed. The model's Z-typed messages
   are therefore guarded by the same ranges (an ill-typed message is rejected before any handler runs). *)
Definition u128_ok (z : Z) : bool := in_range U128_MAX z.
Definition u64_ok (z : Z) : bool := in_range U64_MAX z.
Definition u32_ok (z : Z) : bool := in_range U32_MAX z.
Definition u8_ok (z : Z) : bool := in_range U8_MAX z.
Definition coin_ok (c : coin) : bool := u128_ok (amount_of c).
Definition coins_ok (l : list coin) : bool := forallb coin_ok l.
Definition opt_ok {A} (f : A -> bool) (o : option A) : bool := match o with Some a => f a | None => true end.
Definition fee_ok (f : pool_fee) : bool :=
  u128_ok (protocol_fee f) && u128_ok (swap_fee f) && u128_ok (burn_fee f) && forallb u128_ok (extra_fees f).
Definition expiration_ok (e : expiration) : bool :=
  match e with AtHeight h => u64_ok h | AtTime t => u64_ok t | Never => true end.
Definition action_ok (a : own_action) : bool :=
  match a with Transfer _ e => opt_ok expiration_ok e | _ => true end.
Definition farm_params_ok (p : farm_params) : bool :=
  opt_ok u64_ok (fp_start p) && opt_ok u64_ok (fp_end p) && coin_ok (fp_asset p).
Definition wmsg_ok (m : wmsg) : bool :=
  match m with
  | WEm (EmUpdateConfig c) => opt_ok (fun c => u64_ok (duration c) && u64_ok (genesis c)) c
  | WEm (EmUpdateOwnership a) => action_ok a
  | WFc a => action_ok a
  | WPm (PmCreatePool _ decimals fees pt _) =>
      forallb u8_ok decimals && fee_ok fees && match pt with StableSwap amp => u64_ok amp | ConstantProduct => true end
  | WPm (PmProvide ls ss _ _ u _) => opt_ok u128_ok ls && opt_ok u128_ok ss && opt_ok u64_ok u
  | WPm (PmSwap _ bp ms _ _) => opt_ok u128_ok bp && opt_ok u128_ok ms
  | WPm (PmWithdraw _) => true
  | WPm (PmOwnership a) => action_ok a
  | WPm (PmRoute _ mr _ ms) => opt_ok u128_ok mr && opt_ok u128_ok ms
  | WPm (PmUpdateConfig _ _ fee _) => opt_ok coin_ok fee
  | WFm (FmCreateFarm p) => farm_params_ok p
  | WFm (FmExpandFarm p) => farm_params_ok p
  | WFm (FmCloseFarm _) => true
  | WFm (FmOwnership a) => action_ok a
  | WFm (FmClaim u) => opt_ok u64_ok u
  | WFm (FmPosCreate _ dur _) => u64_ok dur
  | WFm (FmPosExpand _) => true
  | WFm (FmPosClose _ lp) => opt_ok coin_ok lp
  | WFm (FmPosWithdraw _ _) => true
  | WFm (FmUpdateConfig u) =>
      opt_ok coin_ok (u_create_fee u) && opt_ok u32_ok (u_max_farms u) && opt_ok u32_ok (u_epoch_buffer u) &&
      opt_ok u64_ok (u_min_unlock u) && opt_ok u64_ok (u_max_unlock u) && opt_ok u64_ok (u_expiration u) &&
      opt_ok u128_ok (u_penalty u)
  end.

(* contract handlers: new world + sub-messages *)
Definition handle_typed (w : world) (target sender : string) (funds : list coin) (m : wmsg) : res (world * list submsg) :=
  if String.eqb target EM then
    match m with
    | WEm em =>
        let* s := em_execute (addr_valid w) (w_block w) sender (negb (Nat.eqb (List.length funds) 0)) em (w_em w) in
        Ok (set_em w s, [])
    | _ => Err "unknown message for this contract"
    end
  else if String.eqb target FC then
    match m with
    | WFc a =>
        let* _ := nonpayable funds in
        let* o := update_ownership (addr_valid w) (w_block w) sender a (w_fc w) in
        Ok (set_fc w o, [])
    | _ => Err "unknown message for this contract"
    end
  else if String.eqb target PM then
    match m with
    | WPm pm => let* (s, subs) := pm_execute w sender funds pm in Ok (set_pm w s, subs)
    | _ => Err "unknown message for this contract"
    end
  else if String.eqb target FM then
    match m with
    | WFm fm => let* (s, subs) := fm_execute w sender funds fm in Ok (set_fm w s, subs)
    | _ => Err "unknown message for this contract"
    end
  else Err "no such contract".

Definition handle (w : world) (target sender : string) (funds : list coin) (m : wmsg) : res (world * list submsg) :=
  if coins_ok funds && wmsg_ok m then handle_typed w target sender funds m else Err "ill-typed message".

Definition handle_reply (w : world) (contract : string) (id : Z) : res (world * list submsg) :=
  if String.eqb contract PM then let* (s, subs) := pm_reply w id in Ok (set_pm w s, subs)
  else if String.eqb contract FM then let* (s, subs) := fm_reply w id in Ok (set_fm w s, subs)
  else Err "contract has no reply entry point".

Definition wants_success (r : reply_on) : bool := match r with RSuccess | RAlways => true | _ => false end.
Definition wants_error (r : reply_on) : bool := match r with RError | RAlways => true | _ => false end.

Fixpoint process (fuel : nat) (w : world) (contract : string) (subs : list submsg) {struct fuel} : outcome :=
  match fuel with
  | O => (Err "OutOfFuel", w_fault w)
  | S f =>
      (fix go (w : world) (subs : list submsg) {struct subs} : outcome :=
         match subs with
         | [] => (Ok w, w_fault w)
         | s :: rest =>
             let r : outcome :=
               match sm_msg s with
               | MWasm target wm funds =>
                   let r1 : outcome := match funds with
                                       | [] => (Ok w, w_fault w)
                                       | _ => bank_call w (fun b => bank_send b contract target funds)
                                       end in
                   match r1 with
                   | (Err e, fl) => (Err e, fl)
                   | (Ok w1, fl) =>
                       match handle w1 target contract funds wm with
                       | Err e => (Err e, fl)
                       | Ok (w2, subs2) => process f w2 target subs2
                       end
                   end
               | leaf => exec_leaf w contract leaf
               end in
             match r with
             | (Ok w', _) =>
                 if wants_success (sm_reply s) then
                   match handle_reply w' contract (sm_id s) with
                   | Err e => (Err e, w_fault w')
                   | Ok (w'', rsubs) =>
                       match process f w'' contract rsubs with
                       | (Ok w3, _) => go w3 rest
                       | (Err e, fl) => (Err e, fl)
                       end
                   end
                 else go w' rest
             | (Err e, fl) =>
                 if wants_error (sm_reply s) then
                   (* the failed scope is rolled back, except for the fault counter *)
                   let wr := set_fault w fl in
                   match handle_reply wr contract (sm_id s) with
                   | Err e' => (Err e', fl)
                   | Ok (w'', rsubs) =>
                       match process f w'' contract rsubs with
                       | (Ok w3, _) => go w3 rest
                       | (Err e', fl') => (Err e', fl')
                       end
                   end
                 else (Err e, fl)
             end
         end) w subs
  end.

Definition FUEL : nat := 8.

Inductive op :=
| SetBlock (b : block)
| Tx (sender target : string) (m : wmsg) (funds : list coin)
| BankSendOp (from to : string) (amount : list coin)
| SetFault (k : Z).

(* a transaction: everything or nothing *)
Definition run_tx (w : world) (sender target : string) (m : wmsg) (funds : list coin) : res world :=
  fst (process FUEL w sender [plain (MWasm target m funds)]).

Definition step (w : world) (o : op) : world * bool :=
  match o with
  | SetBlock b => (set_block w b, true)
  | Tx sender target m funds =>
      match run_tx w sender target m funds with
      | Ok w' => (set_fault w' None, true)
      | Err _ => (set_fault w None, false)
      end
  | BankSendOp from to amount =>
      match bank_send (w_bank w) from to amount with
      | Ok b => (set_bank w b, true)
      | Err _ => (w, false)
      end
  | SetFault k => (set_fault w (Some k), true)
  end.

Definition run (w : world) (ops : list op) : world := fold_left (fun w o => fst (step w o)) ops w.

(* ---------- genesis: the four instantiations ---------- *)
Record genesis_cfg := {
  g_block : block;
  g_valid : list string;
  g_balances : list (string * list coin);
  g_tf_fee : list coin;
  g_owner : string;                 (* deployer = owner of all four contracts *)
  g_epoch : epoch_cfg;
  g_pm_fee : coin;
  g_fm : fm_config }.               (* pool manager address field is overwritten with PM at genesis *)

Definition empty_pm : pm_state :=
  {| pm_cfg := {| pm_fee_collector := ""; pm_farm_manager := ""; pm_creation_fee := ("", 0) |};
     pm_own := {| owner := None; pending_owner := None; pending_expiry := None |};
     pm_pools := []; pm_counter := 0; pm_buffer := None |}.
Definition empty_fm (c : fm_config) : fm_state :=
  {| fm_cfg := c; fm_own := {| owner := None; pending_owner := None; pending_expiry := None |};
     fm_positions := []; fm_pos_counter := 0; fm_farms := []; fm_farm_counter := 0; fm_last_claimed := []; fm_weights := [] |}.

Definition init_bank (bs : list (string * list coin)) : res bank :=
  foldM (fun b ac => match snd ac with [] => Ok b | _ => bank_mint b (fst ac) (snd ac) end) bs
        {| b_bal := []; b_supply := [] |}.

Definition genesis_world (g : genesis_cfg) : res world :=
  let* b := init_bank (g_balances g) in
  let w0 := {| w_block := g_block g; w_bank := b; w_tf_fee := g_tf_fee g; w_valid := g_valid g;
               w_em := {| em_cfg := g_epoch g; em_own := {| owner := None; pending_owner := None; pending_expiry := None |} |};
               w_fc := {| owner := None; pending_owner := None; pending_expiry := None |};
               w_pm := empty_pm; w_fm := empty_fm (g_fm g); w_fault := None |} in
  let* em := em_instantiate (addr_valid w0) (g_block g) (g_owner g) (g_epoch g) in
  let* fc := init_ownership (addr_valid w0) (g_owner g) in
  let c := g_fm g in
  let* fm := fm_instantiate w0 (g_owner g)
               {| fm_epoch_manager := EM; fm_fee_collector := FC; fm_pool_manager := PM;
                  fm_create_fee := fm_create_fee c; fm_max_farms := fm_max_farms c; fm_epoch_buffer := fm_epoch_buffer c;
                  fm_min_unlock := fm_min_unlock c; fm_max_unlock := fm_max_unlock c; fm_expiration := fm_expiration c;
                  fm_penalty := fm_penalty c |} in
  let* pm := pm_instantiate w0 (g_owner g) FC FM (g_pm_fee g) in
  Ok (set_pm (set_fm (set_fc (set_em w0 em) fc) fm) pm).

(* ---------- canonical snapshot (what the harness prints for the implementation) ---------- *)
Definition lp_denoms (w : world) : list string := map p_lp (pm_pools (w_pm w)).

Definition wkey_ltb (a b : wkey) : bool :=
  match String.compare (wk_addr a) (wk_addr b) with
  | Lt => true | Gt => false
  | Eq => match String.compare (wk_lp a) (wk_lp b) with
          | Lt => true | Gt => false
          | Eq => wk_epoch a <? wk_epoch b end
  end.
Fixpoint w_sort_insert (x : wkey * Z) (l : list (wkey * Z)) : list (wkey * Z) :=
  match l with
  | [] => [x]
  | y :: r => if wkey_ltb (fst x) (fst y) then x :: y :: r else y :: w_sort_insert x r
  end.
(* the complete weight table in canonical order (the harness dumps the contract's raw storage) *)
Definition v_weights (ws : list (wkey * Z)) : val :=
  VL (map (fun kv => VL [VS (wk_addr (fst kv)); VS (wk_lp (fst kv)); VZ (wk_epoch (fst kv)); VZ (snd kv)])
          (fold_right w_sort_insert [] ws)).

Definition current_epoch_id (w : world) : Z :=
  match query_current_epoch (em_cfg (w_em w)) (w_block w) with Ok e => ep_id e | Err _ => 0 end.

Definition snapshot (w : world) (addrs denoms : list string) : val :=
  let all_addrs := (EM :: FC :: PM :: FM :: addrs) in
  let all_denoms := (denoms ++ lp_denoms w)%list in
  VL [ VL (map (fun a => VL (map (fun d => VZ (bal (w_bank w) a d)) all_denoms)) all_addrs);
       VL (map (fun d => VZ (supply (w_bank w) d)) all_denoms);
       v_em_state (w_em w);
       v_ownership (w_fc w);
       VL [v_pm_config (pm_cfg (w_pm w)); v_ownership (pm_own (w_pm w)); VZ (pm_counter (w_pm w));
           vbool (match pm_buffer (w_pm w) with Some _ => true | None => false end)];
       VL (map v_pool_info (pm_pools (w_pm w)));
       VL [v_fm_config (fm_cfg (w_fm w)); v_ownership (fm_own (w_fm w)); VZ (fm_pos_counter (w_fm w)); VZ (fm_farm_counter (w_fm w))];
       VL (map v_position (fm_positions (w_fm w)));
       VL (map v_farm (fm_farms (w_fm w)));
       VL (map (fun a => vopt VZ (lc_get (fm_last_claimed (w_fm w)) a)) addrs);
       v_weights (fm_weights (w_fm w)) ].
