(* PoolManager.v — handlers of the pool-manager contract (contract.rs, manager/, liquidity/, swap/,
   router/, queries.rs). A handler reads the world (bank, farm manager) only through the queries the
   code issues and returns the new contract state plus the sub-messages of its response. *)
From MD.Model Require Import Base Ownable Epoch PoolMath Types.

Definition pool_find (s : pm_state) (id : string) : res pool_info :=
  of_option (sfind p_id id (pm_pools s)) "UnExistingPool".

Definition pm_with_pools (s : pm_state) (l : list pool_info) : pm_state :=
  {| pm_cfg := pm_cfg s; pm_own := pm_own s; pm_pools := l; pm_counter := pm_counter s; pm_buffer := pm_buffer s |}.
Definition pm_save_pool (s : pm_state) (p : pool_info) : pm_state :=
  pm_with_pools s (sinsert p_id p (pm_pools s)).
Definition pm_with_buffer (s : pm_state) (b : option ss_buffer) : pm_state :=
  {| pm_cfg := pm_cfg s; pm_own := pm_own s; pm_pools := pm_pools s; pm_counter := pm_counter s; pm_buffer := b |}.

Definition pool_with_assets (p : pool_info) (a : list coin) : pool_info :=
  {| p_id := p_id p; p_denoms := p_denoms p; p_decimals := p_decimals p; p_assets := a; p_type := p_type p;
     p_lp := p_lp p; p_fees := p_fees p; p_status := p_status p |}.
Definition pool_with_status (p : pool_info) (st : pool_status) : pool_info :=
  {| p_id := p_id p; p_denoms := p_denoms p; p_decimals := p_decimals p; p_assets := p_assets p; p_type := p_type p;
     p_lp := p_lp p; p_fees := p_fees p; p_status := st |}.

Definition has_denom (l : list coin) (d : string) : bool := existsb (fun c => String.eqb (denom_of c) d) l.

(* get_total_share *)
Definition total_share (w : world) (lp : string) : res Z :=
  if is_factory_token lp then Ok (supply (w_bank w) lp) else Err "Invalid LP token".

(* tokenfactory message builders of lp_common *)
Definition mint_lp_msg (lp to : string) (amount : Z) : res cmsg :=
  let* _ := ensure (is_factory_token lp) "Invalid LP token" in Ok (MTfMint (lp, amount) to).
Definition burn_lp_msg (lp : string) (amount : Z) : res cmsg :=
  let* _ := ensure (is_factory_token lp) "Invalid LP token" in Ok (MTfBurn (lp, amount)).

(* ---------- create_pool ---------- *)
Definition paid_amount (funds : list coin) (d : string) : Z :=
  match foldM (fun acc c => if String.eqb (denom_of c) d then cadd U128_MAX acc (amount_of c) else Ok acc) funds 0 with
  | Ok v => v | Err _ => 0 end.

Definition validate_fees_are_paid (creation_fee : coin) (tf_fee funds : list coin) : res (list coin) :=
  let* funds' := aggregate_coins funds in
  let total :=
    match find (fun f => String.eqb (denom_of f) (denom_of creation_fee)) tf_fee with
    | Some f => match cadd U128_MAX (amount_of f) (amount_of creation_fee) with Ok v => v | Err _ => 0 end
    | None => amount_of creation_fee
    end in
  let paid := paid_amount funds' (denom_of creation_fee) in
  let* _ := ensure (paid =? total) "InvalidPoolCreationFee" in
  let* rest := mapM (fun f =>
                 let p := paid_amount funds' (denom_of f) in
                 let* _ := ensure (p =? amount_of f) "InvalidTokenFactoryFee" in
                 Ok (denom_of f, p))
               (filter (fun f => negb (String.eqb (denom_of f) (denom_of creation_fee))) tf_fee) in
  Ok ((denom_of creation_fee, paid) :: rest).

Definition validate_no_additional_funds (funds total_fees : list coin) : res unit :=
  let* agg := aggregate_coins funds in
  ensure (negb (existsb (fun fund =>
            negb (existsb (fun fee => String.eqb (denom_of fee) (denom_of fund) && (amount_of fee =? amount_of fund)) total_fees))
          agg)) "ExtraFundsSent".

Definition pool_id_char (c : Ascii.ascii) : bool := is_alnum c || ascii_is c 47 || ascii_is c 46.
Definition validate_pool_identifier (id : string) : res unit :=
  ensure ((slen id <? 44 - 2) && string_forall pool_id_char id) "InvalidPoolIdentifier".

Fixpoint has_dup (l : list string) : bool :=
  match l with [] => false | x :: r => existsb (String.eqb x) r || has_dup r end.

Definition create_pool (w : world) (funds : list coin) (denoms : list string) (decimals : list Z)
           (fees : pool_fee) (pt : pool_type) (oid : option string) : res (pm_state * list submsg) :=
  let s := w_pm w in
  let cfg := pm_cfg s in
  let n := Z.of_nat (List.length denoms) in
  let* _ := ensure ((2 <=? n) && (n =? Z.of_nat (List.length decimals))) "AssetMismatch" in
  let* _ := match pt with
            | StableSwap amp => ensure (negb (amp =? 0)) "InvalidAmpFactor"
            | ConstantProduct => ensure (n =? 2) "ConstantProductPoolAssetMismatch"
            end in
  let* _ := ensure (n <=? 4) "TooManyAssets" in
  let* total_fees := validate_fees_are_paid (pm_creation_fee cfg) (w_tf_fee w) funds in
  let* _ := validate_no_additional_funds funds total_fees in
  let fee_msgs := if amount_of (pm_creation_fee cfg) =? 0 then []
                  else [plain (MBankSend (pm_fee_collector cfg) [pm_creation_fee cfg])] in
  let* _ := ensure (negb (has_dup denoms)) "SameAsset" in
  let* _ := pool_fee_valid fees in
  let* (identifier, counter') :=
    match oid with
    | Some id => Ok ("o." ++ id, pm_counter s)
    | None => let* c := cadd U64_MAX (pm_counter s) 1 in Ok ("p." ++ string_of_Z c, c)
    end in
  let* _ := validate_pool_identifier identifier in
  let* _ := ensure (match sfind p_id identifier (pm_pools s) with Some _ => false | None => true end) "PoolExists" in
  let lp_symbol := identifier ++ ".LP" in
  let lp := "factory/" ++ PM ++ "/" ++ lp_symbol in
  let* _ := ensure (is_factory_token lp) "InvalidLpAsset" in
  let p := {| p_id := identifier; p_denoms := denoms; p_decimals := decimals;
              p_assets := map (fun d => (d, 0)) denoms; p_type := pt; p_lp := lp; p_fees := fees;
              p_status := {| swaps_enabled := true; deposits_enabled := true; withdrawals_enabled := true |} |} in
  let s' := {| pm_cfg := cfg; pm_own := pm_own s; pm_pools := sinsert p_id p (pm_pools s);
               pm_counter := counter'; pm_buffer := pm_buffer s |} in
  Ok (s', (fee_msgs ++ [plain (MTfCreateDenom lp_symbol)])%list).

(* ---------- perform_swap ---------- *)
Record swap_result := { sr_comp : swap_computation; sr_pool : pool_info }.

Definition perform_swap (s : pm_state) (offer : coin) (ask pool_id : string) (belief max_slip : option Z)
  : res (pm_state * swap_computation) :=
  let* p := pool_find s pool_id in
  let* (_, _, oi, ai, _, _) := get_asset_indexes p (denom_of offer) ask in
  let* sc := compute_swap p offer ask in
  let* _ := assert_max_slippage belief max_slip (amount_of offer) (sc_return sc) (sc_slippage sc) in
  let* oc := nth_coin oi (p_assets p) in
  let* o' := cadd U128_MAX (amount_of oc) (amount_of offer) in
  let assets1 := set_nth oi (denom_of oc, o') (p_assets p) in
  let* outgoing := cadd U128_MAX (sc_protocol_fee sc) (sc_burn_fee sc) in
  let* ac := nth_coin ai assets1 in
  let* a1 := csub U128_MAX (amount_of ac) (sc_return sc) in
  let* a2 := csub U128_MAX a1 outgoing in
  let assets2 := set_nth ai (denom_of ac, a2) assets1 in
  Ok (pm_save_pool s (pool_with_assets p assets2), sc).

Definition swap_fee_msgs (cfg : pm_config) (ask : string) (sc : swap_computation) : list submsg :=
  ((if sc_burn_fee sc =? 0 then [] else [plain (MBankBurn [(ask, sc_burn_fee sc)])]) ++
   (if sc_protocol_fee sc =? 0 then [] else [plain (MBankSend (pm_fee_collector cfg) [(ask, sc_protocol_fee sc)])]))%list.

Definition swap (w : world) (sender : string) (funds : list coin) (ask : string) (belief max_slip : option Z)
           (receiver : option string) (pool_id : string) : res (pm_state * list submsg) :=
  let s := w_pm w in
  let* p := pool_find s pool_id in
  let* _ := ensure (swaps_enabled (p_status p)) "OperationDisabled" in
  let* offer := one_coin funds in
  let* _ := ensure (negb (String.eqb (denom_of offer) ask)) "SameAsset" in
  let* _ := ensure (has_denom (p_assets p) ask && has_denom (p_assets p) (denom_of offer)) "AssetMismatch" in
  let* (s', sc) := perform_swap s offer ask pool_id belief max_slip in
  let recv := addr_or_default w receiver sender in
  let ret_msg := if sc_return sc =? 0 then [] else [plain (MBankSend recv [(ask, sc_return sc)])] in
  Ok (s', (ret_msg ++ swap_fee_msgs (pm_cfg s) ask sc)%list).

(* ---------- router ---------- *)
Fixpoint assert_operations (prev : string) (ops : list swap_op) : res unit :=
  match ops with
  | [] => Ok tt
  | o :: r =>
      let* _ := ensure (String.eqb (so_in o) prev) "NonConsecutiveSwapOperations" in
      assert_operations (so_out o) r
  end.

Fixpoint route_loop (s : pm_state) (prev : coin) (ops : list swap_op) (max_slip : option Z)
         (fee_msgs : list submsg) : res (pm_state * coin * list submsg) :=
  match ops with
  | [] => Ok (s, prev, fee_msgs)
  | o :: r =>
      let* p := pool_find s (so_pool o) in
      let* _ := ensure (swaps_enabled (p_status p)) "OperationDisabled" in
      let* (s', sc) := perform_swap s prev (so_out o) (so_pool o) None max_slip in
      route_loop s' (so_out o, sc_return sc) r max_slip
                 (fee_msgs ++ swap_fee_msgs (pm_cfg s) (so_out o) sc)%list
  end.

Definition execute_swap_operations (w : world) (sender : string) (funds : list coin) (ops : list swap_op)
           (min_receive : option Z) (receiver : option string) (max_slip : option Z)
  : res (pm_state * list submsg) :=
  let s := w_pm w in
  let* lst := of_option (last (map Some ops) None) "NoSwapOperationsProvided" in
  let* fst_op := of_option (hd_error ops) "NoSwapOperationsProvided" in
  let target := so_out lst in
  let offer_denom := so_in fst_op in
  let* amount := must_pay funds offer_denom in
  let* _ := assert_operations offer_denom ops in
  let recv := addr_or_default w receiver sender in
  let* (s', out, fee_msgs) := route_loop s (offer_denom, amount) ops max_slip [] in
  let* _ := match min_receive with
            | Some m => ensure (negb (amount_of out <? m)) "MinimumReceiveAssertion"
            | None => Ok tt end in
  let bank_msg := if amount_of out =? 0 then [] else [plain (MBankSend recv [(target, amount_of out)])] in
  Ok (s', (bank_msg ++ fee_msgs)%list).

(* ---------- queries used internally and by users ---------- *)
Definition query_simulation (s : pm_state) (offer : coin) (ask pool_id : string) : res swap_computation :=
  let* p := pool_find s pool_id in compute_swap p offer ask.

Fixpoint simulate_ops (s : pm_state) (amount : Z) (ops : list swap_op) : res Z :=
  match ops with
  | [] => Ok amount
  | o :: r =>
      let* sc := query_simulation s (so_in o, amount) (so_out o) (so_pool o) in
      simulate_ops s (sc_return sc) r
  end.
Definition simulate_swap_operations (s : pm_state) (amount : Z) (ops : list swap_op) : res Z :=
  let* _ := ensure (negb (Nat.eqb (List.length ops) 0)) "NoSwapOperationsProvided" in
  simulate_ops s amount ops.

(* reverse simulation, stableswap branch of query_reverse_simulation *)
Definition reverse_simulation_ss (p : pool_info) (amp : Z) (oc ac : coin) (od ad : Z) (ask_amount : Z)
  : res offer_computation :=
  let f := p_fees p in
  let* offer_pool := dec256_with_precision (amount_of oc) od in
  let* ask_pool := dec256_with_precision (amount_of ac) ad in
  let* extra := foldM (fun acc e => cadd U256_MAX acc e) (extra_fees f) 0 in
  let* o1 := csub U256_MAX DEC (protocol_fee f) in
  let* o2 := csub U256_MAX o1 (swap_fee f) in
  let* o3 := csub U256_MAX o2 (burn_fee f) in
  let* o4 := csub U256_MAX o3 extra in
  let inv := match dec_inv o4 with Some i => i | None => DEC end in
  let* aa := dec256_with_precision ask_amount ad in
  let* before_fees := dec_mul U256_MAX inv aa in
  let* bf_offer := to_uint_with_precision before_fees od in
  let* bf_ask := to_uint_with_precision before_fees ad in
  let max_precision := maxZ_list (p_decimals p) in
  let* new_offer_pool := stableswap_y p (denom_of oc) (denom_of ac) ask_pool before_fees amp ReverseSimulate in
  let* opm := to_uint_with_precision offer_pool max_precision in
  let* offer_amount0 := csub U256_MAX new_offer_pool opm in
  let* offer_amount :=
    if max_precision =? od then Ok offer_amount0
    else if max_precision <? od then
      (if 39 <=? od - max_precision then Err "panic: pow overflow" else cmul U256_MAX offer_amount0 (10 ^ (od - max_precision)))
    else (if 39 <=? max_precision - od then Err "panic: pow overflow" else Ok (offer_amount0 / 10 ^ (max_precision - od))) in
  let slippage := ssub offer_amount bf_offer in
  let* sf := fee_compute (swap_fee f) bf_ask in
  let* pf := fee_compute (protocol_fee f) bf_ask in
  let* bf := fee_compute (burn_fee f) bf_ask in
  let* ef := foldM (fun acc sh => let* x := fee_compute sh bf_ask in cadd U256_MAX acc x) (extra_fees f) 0 in
  let* o' := chk U128_MAX offer_amount in
  let* sl' := chk U128_MAX slippage in
  let* s' := chk U128_MAX sf in
  let* p' := chk U128_MAX pf in
  let* b' := chk U128_MAX bf in
  let* e' := chk U128_MAX ef in
  Ok {| oc_offer := o'; oc_slippage := sl'; oc_swap_fee := s'; oc_protocol_fee := p'; oc_burn_fee := b'; oc_extra_fees := e' |}.

Definition query_reverse_simulation (s : pm_state) (ask : coin) (offer_denom pool_id : string) : res offer_computation :=
  let* p := pool_find s pool_id in
  let* (oc, ac, _, _, od, ad) := get_asset_indexes p offer_denom (denom_of ask) in
  match p_type p with
  | ConstantProduct => compute_offer_amount (amount_of oc) (amount_of ac) (amount_of ask) (p_fees p)
  | StableSwap amp => reverse_simulation_ss p amp oc ac od ad (amount_of ask)
  end.

Fixpoint reverse_simulate_ops (s : pm_state) (amount : Z) (rev_ops : list swap_op) : res Z :=
  match rev_ops with
  | [] => Ok amount
  | o :: r =>
      let* oc := query_reverse_simulation s (so_out o, amount) (so_in o) (so_pool o) in
      reverse_simulate_ops s (oc_offer oc) r
  end.
Definition reverse_simulate_swap_operations (s : pm_state) (amount : Z) (ops : list swap_op) : res Z :=
  let* _ := ensure (negb (Nat.eqb (List.length ops) 0)) "NoSwapOperationsProvided" in
  reverse_simulate_ops s amount (rev ops).

(* ---------- provide_liquidity ---------- *)
(* FM Positions{filter_by: Identifier(id)} as seen by the pool manager *)
Definition q_position (w : world) (fm_addr id : string) : res position :=
  if String.eqb fm_addr FM then of_option (sfind pos_id id (fm_positions (w_fm w))) "NoPositionFound"
  else Err "query: no such contract".

Definition U256_isqrt (x : Z) : Z := Z.sqrt x.

Definition provide_liquidity (w : world) (sender : string) (funds : list coin)
           (liq_slip swap_slip : option Z) (receiver : option string) (pool_id : string)
           (unlock : option Z) (lock_id : option string) : res (pm_state * list submsg) :=
  let s := w_pm w in
  let* p := pool_find s pool_id in
  let* _ := ensure (deposits_enabled (p_status p)) "OperationDisabled" in
  let pool_assets := p_assets p in
  let* deposits := aggregate_coins funds in
  let* _ := ensure (negb (Nat.eqb (List.length deposits) 0)) "EmptyAssets" in
  let* _ := ensure (forallb (fun c => has_denom pool_assets (denom_of c)) deposits) "AssetMismatch" in
  let recv := addr_or_default w receiver sender in
  match deposits with
  | [deposit] =>
      let* _ := match unlock with
                | Some _ => ensure (String.eqb recv sender) "Unauthorized"
                | None => Ok tt end in
      let* _ := ensure (negb (existsb (fun c => amount_of c =? 0) pool_assets)) "EmptyPoolForSingleSideLiquidityProvision" in
      let* _ := ensure (Nat.eqb (List.length pool_assets) 2) "InvalidPoolAssetsForSingleSideLiquidityProvision" in
      let* askc := of_option (find (fun c => negb (String.eqb (denom_of c) (denom_of deposit))) pool_assets) "AssetMismatch" in
      let ask := denom_of askc in
      let swap_half := (denom_of deposit, amount_of deposit / 2) in
      let* sim := query_simulation s swap_half ask pool_id in
      let exp_offer := (denom_of deposit, bal (w_bank w) PM (denom_of deposit)) in
      let* outgoing := cadd U128_MAX (sc_protocol_fee sim) (sc_burn_fee sim) in
      let exp_ask_amt := ssub (bal (w_bank w) PM ask) outgoing in
      let* _ := ensure (negb (exp_ask_amt =? 0)) "MaxSlippageAssertion" in
      let buf := {| sb_receiver := recv; sb_expected_offer := exp_offer; sb_expected_ask := (ask, exp_ask_amt);
                    sb_offer_half := swap_half; sb_expected_ask_asset := (ask, sc_return sim);
                    sb_data := {| ld_swap_slip := swap_slip; ld_liq_slip := liq_slip; ld_pool := pool_id;
                                  ld_unlock := unlock; ld_lock_id := lock_id |} |} in
      Ok (pm_with_buffer s (Some buf),
          [{| sm_msg := MWasm PM (WPm (PmSwap ask None swap_slip None pool_id)) [swap_half];
              sm_id := 1; sm_reply := RSuccess |}])
  | _ =>
      let lp := p_lp p in
      let* total_shares := total_share w lp in
      let* (shares, msgs0) :=
        match p_type p with
        | ConstantProduct =>
            if total_shares =? 0 then
              let* d0 := of_option (nth_error deposits 0) "panic: index out of bounds" in
              let* d1 := of_option (nth_error deposits 1) "panic: index out of bounds" in
              let share := ssub (U256_isqrt (amount_of d0 * amount_of d1)) MINIMUM_LIQUIDITY_AMOUNT in
              let* _ := ensure (negb (share =? 0)) "InvalidInitialLiquidityAmount" in
              let* m := mint_lp_msg lp PM MINIMUM_LIQUIDITY_AMOUNT in
              Ok (share, [plain m])
            else
              let* shares := mapM (fun d =>
                               let* i := of_option (index_of_denom (denom_of d) pool_assets) "AssetMismatch" in
                               let* pa := nth_coin i pool_assets in
                               mul_ratio U128_MAX (amount_of d) total_shares (amount_of pa)) deposits in
              let* s0 := nthZ 0 shares in
              let* s1 := nthZ 1 shares in
              Ok (Z.min s0 s1, [])
        | StableSwap amp =>
            let* msgs :=
              if total_shares =? 0 then
                let* _ := ensure (Nat.eqb (List.length pool_assets) (List.length deposits) &&
                                  forallb (fun a => has_denom pool_assets (denom_of a) && (0 <? amount_of a)) deposits)
                                 "AssetMismatch" in
                let* _ := ensure (negb (Nat.eqb (List.length (p_decimals p)) 0)) "panic: unwrap on None" in
                let* ml := min_liquidity_stableswap (minZ_list 255 (p_decimals p)) (maxZ_list (p_decimals p)) in
                let* m := mint_lp_msg lp PM ml in
                Ok [plain m]
              else Ok [] in
            let* new_assets := add_coins pool_assets deposits in
            let* sh := compute_lp_mint_stableswap amp pool_assets new_assets total_shares p in
            Ok (sh, msgs)
        end in
      let* pool_assets' := assert_slippage_tolerance liq_slip deposits pool_assets (p_type p) in
      let cfg := pm_cfg s in
      let* msgs1 :=
        match unlock with
        | Some dur =>
            let* _ := ensure (String.eqb recv sender || String.eqb sender PM) "Unauthorized" in
            let* m := mint_lp_msg lp PM shares in
            let fm_addr := pm_farm_manager cfg in
            let create id := MWasm fm_addr (WFm (FmPosCreate id dur (Some recv))) [(lp, shares)] in
            match lock_id with
            | Some pid =>
                match q_position w fm_addr pid with
                | Ok pos =>
                    let* _ := ensure (String.eqb (pos_id pos) pid && String.eqb (pos_recv pos) recv) "Unauthorized" in
                    Ok [plain m; plain (MWasm fm_addr (WFm (FmPosExpand pid)) [(lp, shares)])]
                | Err e =>
                    Ok [plain m; plain (create (Some pid))]
                end
            | None => Ok [plain m; plain (create None)]
            end
        | None =>
            let* _ := ensure (addr_valid w recv) "invalid address" in
            let* m := mint_lp_msg lp recv shares in
            Ok [plain m]
        end in
      let* assets'' := foldM (fun acc d =>
                          let* i := of_option (index_of_denom (denom_of d) acc) "AssetMismatch" in
                          let* pa := nth_coin i acc in
                          let* v := cadd U128_MAX (amount_of pa) (amount_of d) in
                          Ok (set_nth i (denom_of pa, v) acc)) deposits pool_assets' in
      Ok (pm_save_pool s (pool_with_assets p assets''), (msgs0 ++ msgs1)%list)
  end.

(* ---------- withdraw_liquidity ---------- *)
Definition withdraw_liquidity (w : world) (sender : string) (funds : list coin) (pool_id : string)
  : res (pm_state * list submsg) :=
  let s := w_pm w in
  let* p := pool_find s pool_id in
  let* _ := ensure (withdrawals_enabled (p_status p)) "OperationDisabled" in
  let lp := p_lp p in
  let* amount := must_pay funds lp in
  let* total_shares := total_share w lp in
  let* ratio := dec_from_ratio U256_MAX amount total_shares in
  let* _ := ensure (ratio <=? DEC) "InvalidLpShareToWithdraw" in
  (* Uint128::checked_multiply_ratio(amount, total_shares): exact floor(reserve * amount / total) *)
  let* refunds_all := mapM (fun a =>
                        let* r := mul_ratio U128_MAX (amount_of a) amount total_shares in
                        Ok (denom_of a, r)) (p_assets p) in
  let refunds := filter (fun c => 0 <? amount_of c) refunds_all in
  let* assets' := foldM (fun acc r =>
                     let* i := of_option (index_of_denom (denom_of r) acc) "AssetMismatch" in
                     let* pa := nth_coin i acc in
                     let* v := csub U128_MAX (amount_of pa) (amount_of r) in
                     Ok (set_nth i (denom_of pa, v) acc)) refunds (p_assets p) in
  let* bm := burn_lp_msg lp amount in
  Ok (pm_save_pool s (pool_with_assets p assets'),
      [plain (MBankSend sender refunds); plain bm]).

(* ---------- update_config ---------- *)
Definition pm_update_config (w : world) (sender : string) (fc fm : option string) (fee : option coin)
           (toggle : option feature_toggle) : res (pm_state * list submsg) :=
  let s := w_pm w in
  let* _ := assert_owner (pm_own s) sender in
  let cfg := pm_cfg s in
  let* fc' := match fc with
              | Some a => let* _ := ensure (addr_valid w a) "invalid address" in Ok a
              | None => Ok (pm_fee_collector cfg) end in
  let* fm' := match fm with
              | Some a => let* _ := ensure (addr_valid w a) "invalid address" in Ok a
              | None => Ok (pm_farm_manager cfg) end in
  let fee' := match fee with Some f => f | None => pm_creation_fee cfg end in
  let* pools' :=
    match toggle with
    | None => Ok (pm_pools s)
    | Some t =>
        let* p := pool_find s (ft_pool t) in
        let st := p_status p in
        let st' := {| swaps_enabled := match ft_swaps t with Some b => b | None => swaps_enabled st end;
                      deposits_enabled := match ft_deposits t with Some b => b | None => deposits_enabled st end;
                      withdrawals_enabled := match ft_withdrawals t with Some b => b | None => withdrawals_enabled st end |} in
        Ok (sinsert p_id (pool_with_status p st') (pm_pools s))
    end in
  Ok ({| pm_cfg := {| pm_fee_collector := fc'; pm_farm_manager := fm'; pm_creation_fee := fee' |};
         pm_own := pm_own s; pm_pools := pools'; pm_counter := pm_counter s; pm_buffer := pm_buffer s |}, []).

(* ---------- entry points ---------- *)
Definition pm_execute (w : world) (sender : string) (funds : list coin) (m : pm_msg) : res (pm_state * list submsg) :=
  match m with
  | PmCreatePool denoms decimals fees pt id => create_pool w funds denoms decimals fees pt id
  | PmProvide ls ss r pool u l => provide_liquidity w sender funds ls ss r pool u l
  | PmSwap ask bp ms r pool => swap w sender funds ask bp ms r pool
  | PmWithdraw pool => withdraw_liquidity w sender funds pool
  | PmOwnership a =>
      let* _ := nonpayable funds in
      let* o := update_ownership (addr_valid w) (w_block w) sender a (pm_own (w_pm w)) in
      let s := w_pm w in
      Ok ({| pm_cfg := pm_cfg s; pm_own := o; pm_pools := pm_pools s; pm_counter := pm_counter s; pm_buffer := pm_buffer s |}, [])
  | PmRoute ops mr r ms => execute_swap_operations w sender funds ops mr r ms
  | PmUpdateConfig fc fm fee t =>
      let* _ := nonpayable funds in
      pm_update_config w sender fc fm fee t
  end.

(* reply: only id 1 (single-sided provision), only on success *)
Definition pm_reply (w : world) (id : Z) : res (pm_state * list submsg) :=
  if id =? 1 then
    let s := w_pm w in
    let* b := of_option (pm_buffer s) "buffer not found" in
    let* _ := ensure (bal (w_bank w) PM (denom_of (sb_expected_offer b)) =? amount_of (sb_expected_offer b))
                     "InvalidSingleSideLiquidityProvisionSwap" in
    let* _ := ensure (bal (w_bank w) PM (denom_of (sb_expected_ask b)) =? amount_of (sb_expected_ask b))
                     "InvalidSingleSideLiquidityProvisionSwap" in
    let d := sb_data b in
    Ok (pm_with_buffer s None,
        [plain (MWasm PM (WPm (PmProvide (ld_liq_slip d) (ld_swap_slip d) (Some (sb_receiver b)) (ld_pool d)
                                         (ld_unlock d) (ld_lock_id d)))
                      [sb_offer_half b; sb_expected_ask_asset b])])
  else Err "reply id not found".

Definition pm_instantiate (w : world) (sender fc fm : string) (fee : coin) : res pm_state :=
  let* _ := ensure (addr_valid w fc) "invalid address" in
  let* _ := ensure (addr_valid w fm) "invalid address" in
  let* o := init_ownership (addr_valid w) sender in
  Ok {| pm_cfg := {| pm_fee_collector := fc; pm_farm_manager := fm; pm_creation_fee := fee |};
        pm_own := o; pm_pools := []; pm_counter := 0; pm_buffer := None |}.

(* observation *)
Definition v_pm_config (c : pm_config) : val :=
  VL [VS (pm_fee_collector c); VS (pm_farm_manager c); v_coin (pm_creation_fee c)].
