(* CasesChain.v — correspondence driver for whole-chain scripts: genesis + operations, full snapshot after each. *)
From MD.Model Require Import Base Ownable Epoch PoolMath Types PoolManager FarmManager Chain.

(* queries interleaved with the operations; their answers are part of the compared trace *)
Inductive query :=
| QSimulation (offer : coin) (ask pool : string)
| QReverseSimulation (ask : coin) (offer_denom pool : string)
| QSimulateOps (amount : Z) (ops : list swap_op)
| QReverseSimulateOps (amount : Z) (ops : list swap_op)
| QRewards (addr : string) (until : option Z).

Inductive cop := COp (o : op) | CQuery (q : query).

Record chain_case := {
  cc_gen : genesis_cfg;
  cc_addrs : list string;      (* user addresses whose balances / cursors are observed *)
  cc_denoms : list string;     (* base denoms observed (LP denoms are added from the pool table) *)
  cc_ops : list cop }.

Definition run_query (w : world) (q : query) : val :=
  match q with
  | QSimulation offer ask pool => vres v_swap_computation (query_simulation (w_pm w) offer ask pool)
  | QReverseSimulation ask od pool => vres v_offer_computation (query_reverse_simulation (w_pm w) ask od pool)
  | QSimulateOps a ops => vres VZ (simulate_swap_operations (w_pm w) a ops)
  | QReverseSimulateOps a ops => vres VZ (reverse_simulate_swap_operations (w_pm w) a ops)
  | QRewards addr until => vres (fun l => VL (map v_coin l)) (query_rewards w (w_fm w) addr until)
  end.

Fixpoint run_ops (w : world) (addrs denoms : list string) (ops : list cop) : list val :=
  match ops with
  | [] => []
  | COp o :: rest =>
      let (w', ok) := step w o in
      (* an accepted direct swap also shows the amounts it reports (its event attributes): by C12
         (SwapProofs.simulation_eq_perform_swap) these are the amounts of the Simulation on the state before it *)
      let reported :=
        match o with
        | Tx _ target (WPm (PmSwap ask _ _ _ pid)) funds =>
            if ok && String.eqb target PM then
              match one_coin funds with
              | Ok offer => match query_simulation (w_pm w) offer ask pid with
                            | Ok sc => [v_swap_computation sc]
                            | Err _ => [VL []] end
              | Err _ => [VL []]
              end
            else []
        | _ => []
        end in
      VL ([vbool ok; snapshot w' addrs denoms] ++ reported) :: run_ops w' addrs denoms rest
  | CQuery q :: rest => VL [VZ 2; run_query w q] :: run_ops w addrs denoms rest
  end.

Definition run_chain_case (c : chain_case) : val :=
  match genesis_world (cc_gen c) with
  | Err _ => VL [VZ 0]
  | Ok w0 => VL (VZ 1 :: snapshot w0 (cc_addrs c) (cc_denoms c) :: run_ops w0 (cc_addrs c) (cc_denoms c) (cc_ops c))
  end.
