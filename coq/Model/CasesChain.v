(* CasesChain.v — correspondence driver for whole-chain scripts: genesis + operations, full snapshot after each. *)
From MD.Model Require Import Base Ownable Epoch PoolMath Types PoolManager FarmManager Chain.

Record chain_case := {
  cc_gen : genesis_cfg;
  cc_addrs : list string;      (* user addresses whose balances / cursors are observed *)
  cc_denoms : list string;     (* base denoms observed (LP denoms are added from the pool table) *)
  cc_ops : list op }.

Fixpoint run_ops (w : world) (addrs denoms : list string) (ops : list op) : list val :=
  match ops with
  | [] => []
  | o :: rest =>
      let (w', ok) := step w o in
      VL [vbool ok; snapshot w' addrs denoms] :: run_ops w' addrs denoms rest
  end.

Definition run_chain_case (c : chain_case) : val :=
  match genesis_world (cc_gen c) with
  | Err _ => VL [VZ 0]
  | Ok w0 => VL (VZ 1 :: snapshot w0 (cc_addrs c) (cc_denoms c) :: run_ops w0 (cc_addrs c) (cc_denoms c) (cc_ops c))
  end.
