(* Epoch.v — epoch-manager contract: instantiate, UpdateConfig, UpdateOwnership,
   queries Config / CurrentEpoch / Epoch{id}. *)
From MD.Model Require Import Base Ownable.

Record epoch_cfg := { duration : Z; genesis : Z }.   (* both Uint64 *)

Definition DAY_IN_SECONDS : Z := 86400.

Definition validate_epoch_duration (d : Z) : res unit :=
  ensure (DAY_IN_SECONDS <=? d) "InvalidEpochDuration".

Record epoch := { ep_id : Z; ep_start : Z (* Timestamp, nanoseconds *) }.

(* Timestamp::from_seconds: seconds * 10^9 in u64, panics on overflow (overflow-checks on) *)
Definition ts_from_seconds (s : Z) : res Z :=
  if in_range U64_MAX (s * NANOS) then Ok (s * NANOS) else Err "panic: timestamp overflow".

Definition query_epoch (c : epoch_cfg) (id : Z) : res epoch :=
  let* off := cmul U64_MAX id (duration c) in
  let* start := cadd U64_MAX (genesis c) off in
  let* ts := ts_from_seconds start in
  Ok {| ep_id := id; ep_start := ts |}.

Definition query_current_epoch (c : epoch_cfg) (b : block) : res epoch :=
  let* _ := ensure (genesis c <=? seconds b) "GenesisEpochHasNotStarted" in
  (* time.minus_seconds(genesis): genesis*10^9 (u64, panics on overflow), strict_sub *)
  let* g := ts_from_seconds (genesis c) in
  let* t := csub U64_MAX (time b) g in
  let* id := cdiv (t / NANOS) (duration c) in
  query_epoch c id.

Record em_state := { em_cfg : epoch_cfg; em_own : ownership }.

Definition em_instantiate (addr_valid : string -> bool) (b : block) (owner : string)
           (c : epoch_cfg) : res em_state :=
  let* _ := ensure (seconds b <=? genesis c) "InvalidStartTime" in
  let* _ := validate_epoch_duration (duration c) in
  let* o := init_ownership addr_valid owner in
  Ok {| em_cfg := c; em_own := o |}.

Inductive em_msg :=
| EmUpdateConfig (c : option epoch_cfg)
| EmUpdateOwnership (a : own_action).

(* [has_funds]: info.funds non-empty (cw_utils::nonpayable) *)
Definition em_execute (addr_valid : string -> bool) (b : block) (sender : string)
           (has_funds : bool) (m : em_msg) (s : em_state) : res em_state :=
  let* _ := ensure (negb has_funds) "NonPayable" in
  match m with
  | EmUpdateConfig oc =>
      let* _ := assert_owner (em_own s) sender in
      match oc with
      | None => Ok s
      | Some c =>
          let* _ := validate_epoch_duration (duration c) in
          let* _ := ensure (seconds b <=? genesis c) "InvalidStartTime" in
          Ok {| em_cfg := c; em_own := em_own s |}
      end
  | EmUpdateOwnership a =>
      let* o := update_ownership addr_valid b sender a (em_own s) in
      Ok {| em_cfg := em_cfg s; em_own := o |}
  end.

(* observation *)
Definition v_epoch (e : epoch) : val := VL [VZ (ep_id e); VZ (ep_start e)].
Definition v_epoch_cfg (c : epoch_cfg) : val := VL [VZ (duration c); VZ (genesis c)].
Definition v_em_state (s : em_state) : val := VL [v_epoch_cfg (em_cfg s); v_ownership (em_own s)].
