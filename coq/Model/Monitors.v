(* Monitors.v — decidable forms of state properties, evaluated on the snapshots the IMPLEMENTATION produced
   (not on the model's own states): they turn a broken correspondence into a concrete failing history. *)
From MD.Model Require Import Base Ownable Epoch PoolMath Types PoolManager FarmManager Chain CasesEpoch CasesChain.

Definition vgetS (v : val) : string := match v with VS s => s | _ => "" end.

(* layout of Chain.snapshot *)
Definition snap_balances (s : val) : val := vnth 0 s.
Definition snap_pools (s : val) : list val := vlist (vnth 5 s).
Definition snap_positions (s : val) : list val := vlist (vnth 7 s).
Definition snap_farms (s : val) : list val := vlist (vnth 8 s).

Definition pool_lp (p : val) : string := vgetS (vnth 5 p).
Definition pool_assets (p : val) : list (string * Z) := map (fun c => (vgetS (vnth 0 c), vgetZ (vnth 1 c))) (vlist (vnth 3 p)).

Definition denoms_of_snapshot (c : chain_case) (s : val) : list string :=
  (cc_denoms c ++ map pool_lp (snap_pools s))%list.

(* row of balances of the i-th address (EM, FC, PM, FM, users...) *)
Definition balance_row (s : val) (i : nat) : list Z := map vgetZ (vlist (vnth i (snap_balances s))).

Definition sum_where {A} (f : A -> Z) (p : A -> bool) (l : list A) : Z :=
  fold_left (fun acc x => if p x then acc + f x else acc) l 0.

(* C01: for every denom the pool manager's balance covers the sum of the reserves reported for it *)
Definition c01_snapshot_ok (c : chain_case) (s : val) : bool :=
  let ds := denoms_of_snapshot c s in
  let pm := balance_row s 2 in
  let reserves := flat_map pool_assets (snap_pools s) in
  forallb (fun dj => let d := fst dj in let b := snd dj in
                     sum_where snd (fun r => String.eqb (fst r) d) reserves <=? b)
          (combine ds pm).

(* C05: for every denom the farm manager's balance covers locked LP plus unclaimed farm budgets *)
Definition position_lp (p : val) : string * Z := (vgetS (vnth 0 (vnth 1 p)), vgetZ (vnth 1 (vnth 1 p))).
Definition farm_owed (f : val) : string * Z :=
  (vgetS (vnth 0 (vnth 3 f)), Z.max 0 (vgetZ (vnth 1 (vnth 3 f)) - vgetZ (vnth 4 f))).
Definition c05_snapshot_ok (c : chain_case) (s : val) : bool :=
  let ds := denoms_of_snapshot c s in
  let fm := balance_row s 3 in
  let owed := (map position_lp (snap_positions s) ++ map farm_owed (snap_farms s))%list in
  forallb (fun dj => let d := fst dj in let b := snd dj in
                     sum_where snd (fun r => String.eqb (fst r) d) owed <=? b)
          (combine ds fm).

(* C16: static parameters of pools never change and pools never disappear between consecutive snapshots *)
Definition pool_static (p : val) : val := VL [vnth 0 p; vnth 1 p; vnth 2 p; vnth 4 p; vnth 5 p; vnth 6 p].
Definition c16_step_ok (prev cur : val) : bool :=
  forallb (fun p => existsb (fun q => val_eqb (pool_static p) (pool_static q)) (snap_pools cur)) (snap_pools prev).

(* snapshots of a trace, in order (queries are skipped) *)
Definition trace_snapshots (obs : val) : list val :=
  match vlist obs with
  | _ :: s0 :: steps =>
      s0 :: flat_map (fun st => match vnth 0 st with VZ 2 => [] | _ => [vnth 1 st] end) steps
  | _ => []
  end.

Fixpoint pairwise_ok (f : val -> val -> bool) (l : list val) : bool :=
  match l with
  | a :: ((b :: _) as r) => f a b && pairwise_ok f r
  | _ => true
  end.

Definition mon_C01 (c : chain_case) (obs : val) : list Z :=
  if forallb (c01_snapshot_ok c) (trace_snapshots obs) then [] else [1].
Definition mon_C05 (c : chain_case) (obs : val) : list Z :=
  if forallb (c05_snapshot_ok c) (trace_snapshots obs) then [] else [5].
Definition mon_C16 (c : chain_case) (obs : val) : list Z :=
  if pairwise_ok c16_step_ok (trace_snapshots obs) then [] else [16].

(* ====================================================================================================
   Step monitors: decidable per-operation forms of the properties, evaluated on (operation, accepted?,
   snapshot before, snapshot after) as OBSERVED ON THE IMPLEMENTATION. *)
Definition vgetB (v : val) : bool := match v with VZ 1 => true | _ => false end.

Fixpoint step_codes (chk : op -> bool -> val -> val -> list Z) (ops : list cop) (steps : list val) (prev : val) : list Z :=
  match ops, steps with
  | COp o :: ro, st :: rs =>
      let cur := vnth 1 st in
      (chk o (vgetB (vnth 0 st)) prev cur ++ step_codes chk ro rs cur)%list
  | CQuery _ :: ro, _ :: rs => step_codes chk ro rs prev
  | _, _ => []
  end.
Definition mon_steps (chk : chain_case -> op -> bool -> val -> val -> list Z) (c : chain_case) (obs : val) : list Z :=
  match vlist obs with
  | _ :: s0 :: steps => nodup Z.eq_dec (step_codes (chk c) (cc_ops c) steps s0)
  | _ => []
  end.

Definition pool_id (p : val) : string := vgetS (vnth 0 p).
Definition pool_is_cp (p : val) : bool := match vlist (vnth 4 p) with [VZ 0] => true | _ => false end.
Definition pool_flags (p : val) : bool * bool * bool :=      (* swaps, deposits, withdrawals *)
  let f := vnth 7 p in (vgetB (vnth 0 f), vgetB (vnth 1 f), vgetB (vnth 2 f)).
Definition find_pool (s : val) (id : string) : option val := find (fun p => String.eqb (pool_id p) id) (snap_pools s).
Definition prodZ (l : list (string * Z)) : Z := fold_left (fun acc c => acc * snd c) l 1.
Definition supply_of (c : chain_case) (s : val) (d : string) : Z :=
  match find (fun dj => String.eqb (fst dj) d) (combine (denoms_of_snapshot c s) (map vgetZ (vlist (vnth 1 s)))) with
  | Some dj => snd dj | None => 0 end.
Definition pm_balance_of (c : chain_case) (s : val) (d : string) : Z :=
  match find (fun dj => String.eqb (fst dj) d) (combine (denoms_of_snapshot c s) (balance_row s 2)) with
  | Some dj => snd dj | None => 0 end.
Definition reserves_of (s : val) (d : string) : Z :=
  sum_where snd (fun r => String.eqb (fst r) d) (flat_map pool_assets (snap_pools s)).

Definition is_tx_pm (o : op) : option (string * pm_msg * list coin) :=
  match o with Tx sender target (WPm m) funds => if String.eqb target PM then Some (sender, m, funds) else None | _ => None end.

(* C03: a swap or a route never lowers x*y of a constant-product pool *)
Definition chk_C03 (c : chain_case) (o : op) (ok : bool) (prev cur : val) : list Z :=
  match is_tx_pm o with
  | Some (_, PmSwap _ _ _ _ _, _) | Some (_, PmRoute _ _ _ _, _) =>
      if ok && negb (forallb (fun p => negb (pool_is_cp p) ||
                                match find_pool cur (pool_id p) with
                                | Some q => prodZ (pool_assets p) <=? prodZ (pool_assets q)
                                | None => false end) (snap_pools prev))
      then [3] else []
  | _ => []
  end.

(* C02: value per LP token of a constant-product pool (x*y/S^2) never decreases through a deposit or a withdrawal;
   LP supplies move only through deposits and withdrawals *)
Definition chk_C02 (c : chain_case) (o : op) (ok : bool) (prev cur : val) : list Z :=
  if negb ok then [] else
  match is_tx_pm o with
  | Some (_, PmProvide _ _ _ _ _ _, _) | Some (_, PmWithdraw _, _) =>
      if forallb (fun p => negb (pool_is_cp p) ||
                    match find_pool cur (pool_id p) with
                    | Some q => let s0 := supply_of c prev (pool_lp p) in let s1 := supply_of c cur (pool_lp p) in
                                prodZ (pool_assets p) * (s1 * s1) <=? prodZ (pool_assets q) * (s0 * s0)
                    | None => false end) (snap_pools prev)
      then [] else [2]
  | _ =>
      if forallb (fun p => supply_of c prev (pool_lp p) =? supply_of c cur (pool_lp p)) (snap_pools prev) then [] else [2]
  end.

(* C04: through a swap or a route the pool manager's balance moves exactly as the reported reserves do
   (everything that leaves the reserves is sent or burned, everything offered is added) *)
Definition recv_is_pm (r : option string) : bool := match r with Some a => String.eqb a PM | None => false end.
(* (when the owner has made the pool manager its own fee collector, protocol fees stay with it as unreported excess) *)
Definition fc_is_pm (s : val) : bool := String.eqb (vgetS (vnth 0 (vnth 0 (vnth 4 s)))) PM.
Definition chk_C04 (c : chain_case) (o : op) (ok : bool) (prev cur : val) : list Z :=
  if fc_is_pm prev then [] else
  match is_tx_pm o with
  | Some (_, PmSwap _ _ _ r _, _) | Some (_, PmRoute _ _ r _, _) =>
      if ok && negb (recv_is_pm r) &&
         negb (forallb (fun d => pm_balance_of c cur d - pm_balance_of c prev d =? reserves_of cur d - reserves_of prev d)
                       (denoms_of_snapshot c prev))
      then [4] else []
  | _ => []
  end.

(* C06: no farm ever pays out more than it was funded with *)
Definition chk_C06 (c : chain_case) (o : op) (ok : bool) (prev cur : val) : list Z :=
  if forallb (fun f => vgetZ (vnth 4 f) <=? vgetZ (vnth 1 (vnth 3 f))) (snap_farms cur) then [] else [6].

(* C08: a transaction only creates or changes positions of its sender *)
Definition position_owner (p : val) : string := vgetS (vnth 5 p).
Definition position_id (p : val) : string := vgetS (vnth 0 p).
Definition chk_C08 (c : chain_case) (o : op) (ok : bool) (prev cur : val) : list Z :=
  match o with
  | Tx sender _ _ _ =>
      if String.eqb sender PM then [] else   (* the pool manager's own address acting as a depositor's agent (role tests) *)
      if forallb (fun p => String.eqb (position_owner p) sender ||
                           existsb (fun q => val_eqb p q) (snap_positions prev)) (snap_positions cur) &&
         forallb (fun p => String.eqb (position_owner p) sender ||
                           existsb (fun q => val_eqb p q) (snap_positions cur)) (snap_positions prev)
      then [] else [8]
  | _ => []
  end.

(* C11: identity, owner, LP token, reward denom, rate and start of a farm never change; funded and claimed only grow *)
Definition farm_static (f : val) : val := VL [vnth 0 f; vnth 1 f; vnth 2 f; vnth 0 (vnth 3 f); vnth 5 f; vnth 6 f].
Definition chk_C11 (c : chain_case) (o : op) (ok : bool) (prev cur : val) : list Z :=
  (* (a creation may sweep an expired farm and reuse its identifier in the same transaction) *)
  match o with Tx _ _ (WFm (FmCreateFarm _)) _ => [] | _ =>
  if forallb (fun f => match find (fun g => val_eqb (vnth 0 f) (vnth 0 g)) (snap_farms cur) with
                       | None => true
                       | Some g => val_eqb (farm_static f) (farm_static g) &&
                                   (vgetZ (vnth 1 (vnth 3 f)) <=? vgetZ (vnth 1 (vnth 3 g))) &&
                                   (vgetZ (vnth 4 f) <=? vgetZ (vnth 4 g)) && (vgetZ (vnth 7 f) <=? vgetZ (vnth 7 g))
                       end) (snap_farms prev)
  then [] else [11] end.

(* C14: no single-asset bookkeeping survives a transaction *)
Definition chk_C14 (c : chain_case) (o : op) (ok : bool) (prev cur : val) : list Z :=
  if vgetB (vnth 3 (vnth 4 cur)) then [14] else [].

(* C15: configuration and ownership records change only through a transaction of the owner (or, for ownership, of
   the proposed owner) *)
Definition owner_of (own : val) : list string := map vgetS (vlist (vnth 0 own)).
Definition pending_of (own : val) : list string := map vgetS (vlist (vnth 1 own)).
Definition may_change (own : val) (o : op) (with_pending : bool) : bool :=
  match o with
  | Tx sender _ _ _ => existsb (String.eqb sender) (owner_of own) || (with_pending && existsb (String.eqb sender) (pending_of own))
  | _ => false
  end.
Definition pool_flag_table (s : val) : val := VL (map (fun p => VL [vnth 0 p; vnth 7 p]) (snap_pools s)).
Definition drop_new_pools (prev cur : val) : val :=
  VL (map (fun p => VL [vnth 0 p; vnth 7 p]) (filter (fun p => match find_pool prev (pool_id p) with Some _ => true | None => false end) (snap_pools cur))).
Definition chk_C15 (c : chain_case) (o : op) (ok : bool) (prev cur : val) : list Z :=
  let em_own := vnth 1 (vnth 2 prev) in
  let pm_own := vnth 1 (vnth 4 prev) in
  let fm_own := vnth 1 (vnth 6 prev) in
  let same i j := val_eqb (vnth j (vnth i prev)) (vnth j (vnth i cur)) in
  if (same 2%nat 0%nat || may_change em_own o false) &&
     (same 2%nat 1%nat || may_change em_own o true) &&
     (val_eqb (vnth 3 prev) (vnth 3 cur) || may_change (vnth 3 prev) o true) &&
     (same 4%nat 0%nat || may_change pm_own o false) &&
     (same 4%nat 1%nat || may_change pm_own o true) &&
     (val_eqb (pool_flag_table prev) (drop_new_pools prev cur) || may_change pm_own o false) &&
     (same 6%nat 0%nat || may_change fm_own o false) &&
     (same 6%nat 1%nat || may_change fm_own o true)
  then [] else [15].

(* C17: an operation whose switch is off for a pool it touches is never accepted *)
Definition flag_ok (prev : val) (pid : string) (sel : bool * bool * bool -> bool) : bool :=
  match find_pool prev pid with Some p => sel (pool_flags p) | None => true end.
Definition chk_C17 (c : chain_case) (o : op) (ok : bool) (prev cur : val) : list Z :=
  if negb ok then [] else
  match is_tx_pm o with
  | Some (_, PmSwap _ _ _ _ pid, _) => if flag_ok prev pid (fun f => fst (fst f)) then [] else [17]
  | Some (_, PmRoute ops _ _ _, _) => if forallb (fun so => flag_ok prev (so_pool so) (fun f => fst (fst f))) ops then [] else [17]
  | Some (_, PmProvide _ _ _ pid _ _, funds) =>
      if flag_ok prev pid (fun f => snd (fst f)) &&
         (negb (Nat.eqb (List.length funds) 1) || flag_ok prev pid (fun f => fst (fst f))) then [] else [17]
  | Some (_, PmWithdraw pid, _) => if flag_ok prev pid snd then [] else [17]
  | Some (_, PmUpdateConfig _ _ _ t, _) =>
      (* a toggle changes exactly the switches it names, on the pool it names; every other switch of every pool stays *)
      let expected (p : val) : bool * bool * bool :=
        match pool_flags p, t with
        | (sw, dp, wd), Some ft =>
            if String.eqb (pool_id p) (ft_pool ft) then
              (match ft_swaps ft with Some b => b | None => sw end,
               match ft_deposits ft with Some b => b | None => dp end,
               match ft_withdrawals ft with Some b => b | None => wd end)
            else (sw, dp, wd)
        | f, None => f
        end in
      if forallb (fun p => match find_pool cur (pool_id p) with
                           | Some q => match expected p, pool_flags q with
                                       | (a1, a2, a3), (b1, b2, b3) => Bool.eqb a1 b1 && Bool.eqb a2 b2 && Bool.eqb a3 b3 end
                           | None => false end) (snap_pools prev)
      then [] else [17]
  | _ => []
  end.

(* C20: a rejected operation leaves everything observable unchanged *)
Definition chk_C20 (c : chain_case) (o : op) (ok : bool) (prev cur : val) : list Z :=
  if ok || val_eqb prev cur then [] else [20].

Definition both (a b : chain_case -> val -> list Z) (c : chain_case) (obs : val) : list Z := (a c obs ++ b c obs)%list.
Definition mon_C02 := mon_steps chk_C02.
Definition mon_C03 := mon_steps chk_C03.
Definition mon_C04 := mon_steps chk_C04.
Definition mon_C06 := mon_steps chk_C06.
Definition mon_C08 := mon_steps chk_C08.
Definition mon_C11 := mon_steps chk_C11.
Definition mon_C14 := mon_steps chk_C14.
Definition mon_C15 := mon_steps chk_C15.
Definition mon_C17 := mon_steps chk_C17.
Definition mon_C20 := mon_steps chk_C20.
Definition mon_C01s := both mon_C01 mon_C04.   (* reserves backed, and moved exactly with the balance by swaps *)
(* C01, the excess clause: what the pool manager holds beyond the reported reserves changes ONLY by tokens sent to it
   outside pool operations (plain bank sends; proceeds a trader directs to the pool manager's own address), by the single
   indivisible unit of an odd single-asset deposit, and by the minimum liquidity minted to it at a pool's first deposit *)
Definition excess (c : chain_case) (s : val) (d : string) : Z := pm_balance_of c s d - reserves_of s d.
Definition coins_total (funds : list coin) : Z := fold_left (fun acc c => acc + amount_of c) funds 0.
Definition single_denom (funds : list coin) : option string :=
  match funds with
  | c :: r => if forallb (fun x => String.eqb (denom_of x) (denom_of c)) r then Some (denom_of c) else None
  | [] => None
  end.
Definition first_deposit_lp (c : chain_case) (prev : val) (pid : string) : option string :=
  match find_pool prev pid with
  | Some p => if supply_of c prev (pool_lp p) =? 0 then Some (pool_lp p) else None
  | None => None
  end.
Definition chk_C01x (c : chain_case) (o : op) (ok : bool) (prev cur : val) : list Z :=
  let ds := denoms_of_snapshot c cur in
  let delta d := excess c cur d - excess c prev d in
  let all_zero_but (allowed : string -> Z -> bool) := forallb (fun d => (delta d =? 0) || allowed d (delta d)) ds in
  if fc_is_pm prev then [] else
  if negb ok then (if all_zero_but (fun _ _ => false) then [] else [41]) else
  match o with
  | BankSendOp _ to amount =>
      if String.eqb to PM then (if forallb (fun d => delta d =? sum_where snd (fun x => String.eqb (fst x) d) amount) ds then [] else [41])
      else if all_zero_but (fun _ _ => false) then [] else [41]
  | Tx _ target (WPm (PmSwap _ _ _ r _)) _ | Tx _ target (WPm (PmRoute _ _ r _)) _ =>
      if recv_is_pm r || negb (String.eqb target PM) then [] else if all_zero_but (fun _ _ => false) then [] else [41]
  | Tx _ target (WPm (PmProvide _ _ r pid _ _)) funds =>
      if negb (String.eqb target PM) || recv_is_pm r then [] else
      let odd := match single_denom funds with Some d0 => Some (d0, coins_total funds mod 2) | None => None end in
      let lp1 := first_deposit_lp c prev pid in
      if all_zero_but (fun d z => match odd with Some (d0, u) => String.eqb d d0 && (z =? u) | None => false end ||
                                  match lp1 with Some lp => String.eqb d lp && (0 <=? z) | None => false end)
      then [] else [41]
  | Tx _ _ _ _ => if all_zero_but (fun _ _ => false) then [] else [41]
  | _ => if all_zero_but (fun _ _ => false) then [] else [41]
  end.
(* (transactions signed by the pool manager's own address occur only in the role tests; a contract cannot sign) *)
Definition chk_C01x' (c : chain_case) (o : op) (ok : bool) (prev cur : val) : list Z :=
  match o with
  | Tx s _ _ _ => if String.eqb s PM then [] else chk_C01x c o ok prev cur
  | _ => chk_C01x c o ok prev cur
  end.
Definition mon_C01x := mon_steps chk_C01x'.
(* C20, accepted operations under an injected fault: the only tolerated internal failure is the refund of a farm that is
   being closed. Any other transaction ACCEPTED while a fault was pending must be fully consistent: what the pool manager
   holds beyond its reserves moves only as C01 allows, reserves stay backed and the farm manager's custody holds - a
   swap that commits although its fee transfer failed (reserves lowered, coins still there) shows up here. *)
Fixpoint fault_codes (c : chain_case) (pending : bool) (ops : list cop) (steps : list val) (prev : val) : list Z :=
  match ops, steps with
  | COp o :: ro, st :: rs =>
      let cur := vnth 1 st in
      let ok := vgetB (vnth 0 st) in
      match o with
      | SetFault _ => fault_codes c true ro rs cur
      | Tx s _ _ _ =>
          ((if pending && ok && negb (String.eqb s PM) then
              (if match chk_C01x c o ok prev cur with [] => true | _ => false end &&
                  c01_snapshot_ok c cur && c05_snapshot_ok c cur then [] else [20])
            else []) ++ fault_codes c false ro rs cur)%list
      | _ => fault_codes c pending ro rs cur
      end
  | CQuery _ :: ro, _ :: rs => fault_codes c pending ro rs prev
  | _, _ => []
  end.
Definition mon_C20f (c : chain_case) (obs : val) : list Z :=
  (mon_steps chk_C20 c obs ++
   match vlist obs with
   | _ :: s0 :: steps => nodup Z.eq_dec (fault_codes c false (cc_ops c) steps s0)
   | _ => []
   end)%list.

Definition mon_C01f (c : chain_case) (obs : val) : list Z := (mon_C01 c obs ++ mon_C04 c obs ++ mon_C01x c obs)%list.
Definition mon_all (c : chain_case) (obs : val) : list Z :=
  (mon_C01 c obs ++ mon_C05 c obs ++ mon_C16 c obs ++ mon_C02 c obs ++ mon_C03 c obs ++ mon_C04 c obs ++ mon_C06 c obs ++
   mon_C01x c obs ++ mon_C08 c obs ++ mon_C11 c obs ++ mon_C14 c obs ++ mon_C15 c obs ++ mon_C17 c obs ++ mon_C20 c obs)%list.

(* ---------- monitors that look at a query and the operation that follows it ---------- *)
Definition all_addrs (c : chain_case) : list string := (EM :: FC :: PM :: FM :: cc_addrs c)%list.
Definition balance_of (c : chain_case) (s : val) (a d : string) : option Z :=
  match find (fun ar => String.eqb (fst ar) a) (combine (all_addrs c) (vlist (snap_balances s))) with
  | Some ar => match find (fun dj => String.eqb (fst dj) d) (combine (denoms_of_snapshot c s) (map vgetZ (vlist (snd ar)))) with
               | Some dj => Some (snd dj) | None => None end
  | None => None
  end.
Definition is_user (c : chain_case) (a : string) : bool := existsb (String.eqb a) (cc_addrs c).

Fixpoint step_codes_q (chk : option (query * val) -> op -> bool -> val -> val -> val -> list Z) (last : option (query * val))
         (ops : list cop) (steps : list val) (prev : val) : list Z :=
  match ops, steps with
  | COp o :: ro, st :: rs =>
      let cur := vnth 1 st in
      (chk last o (vgetB (vnth 0 st)) prev cur (vnth 2 st) ++ step_codes_q chk None ro rs cur)%list
  | CQuery q :: ro, st :: rs => step_codes_q chk (Some (q, vnth 1 st)) ro rs prev
  | _, _ => []
  end.
Definition mon_steps_q (chk : chain_case -> option (query * val) -> op -> bool -> val -> val -> val -> list Z) (c : chain_case) (obs : val) : list Z :=
  match vlist obs with
  | _ :: s0 :: steps => nodup Z.eq_dec (step_codes_q (chk c) None (cc_ops c) steps s0)
  | _ => []
  end.

(* C12: a swap (route) executed right after its quote pays the receiver exactly the quoted amount *)
Definition quoted_ok (ans : val) : option Z :=
  match vlist ans with
  | [VZ 1; VZ z] => Some z
  | [VZ 1; VL (VZ z :: _)] => Some z
  | _ => None
  end.
Definition last_out (ops : list swap_op) : string := match last (map Some ops) None with Some o => so_out o | None => "" end.
Definition chk_C12 (c : chain_case) (last : option (query * val)) (o : op) (ok : bool) (prev cur reported : val) : list Z :=
  if negb ok then [] else
  match o, last with
  | Tx sender target (WPm (PmSwap ask _ _ r pid)) [offer], Some (QSimulation qoffer qask qpid, ans) =>
      let recv := match r with Some a => a | None => sender end in
      if String.eqb target PM && String.eqb ask qask && String.eqb pid qpid && String.eqb (denom_of offer) (denom_of qoffer) &&
         (amount_of offer =? amount_of qoffer) && is_user c recv && negb (String.eqb ask (denom_of offer)) then
        match quoted_ok ans, balance_of c prev recv ask, balance_of c cur recv ask with
        | Some q, Some b0, Some b1 =>
            (* the receiver gets the quoted return, and the swap reports the quoted return, spread and fee amounts *)
            if (b1 - b0 =? q) && val_eqb (VL [VZ 1; reported]) ans then [] else [12]
        | _, _, _ => [12]      (* executed although the quote failed, or the balances are not observable *)
        end
      else []
  | Tx sender target (WPm (PmRoute ops _ r _)) [offer], Some (QSimulateOps amount qops, ans) =>
      let recv := match r with Some a => a | None => sender end in
      let out := last_out ops in
      if String.eqb target PM && (amount_of offer =? amount) && is_user c recv && negb (String.eqb out (denom_of offer)) &&
         val_eqb (VL (map (fun x => VL [VS (so_in x); VS (so_out x); VS (so_pool x)]) ops))
                 (VL (map (fun x => VL [VS (so_in x); VS (so_out x); VS (so_pool x)]) qops)) &&
         (* each pool visited at most once *)
         (Nat.eqb (List.length (nodup string_dec (map so_pool ops))) (List.length ops)) then
        match quoted_ok ans, balance_of c prev recv out, balance_of c cur recv out with
        | Some q, Some b0, Some b1 => if b1 - b0 =? q then [] else [12]
        | _, _, _ => [12]
        end
      else []
  | _, _ => []
  end.
Definition mon_C12 := mon_steps_q chk_C12.

(* C12, reverse quotes on constant-product pools: a Simulation of (reverse quote + 1) right after the ReverseSimulation
   returns at least the requested amount (requests up to 10^18 units: above that the clause is false, F-rev18) *)
Fixpoint rev_codes (mem : option (coin * string * string * Z)) (ops : list cop) (steps : list val) (prev : val) : list Z :=
  match ops, steps with
  | COp _ :: ro, st :: rs => rev_codes None ro rs (vnth 1 st)
  | CQuery q :: ro, st :: rs =>
      let ans := vnth 1 st in
      match q with
      | QReverseSimulation ask od pid =>
          match quoted_ok ans with
          | Some qq => rev_codes (Some (ask, od, pid, qq)) ro rs prev
          | None => rev_codes None ro rs prev
          end
      | QSimulation offer askd pid =>
          ((match mem with
            | Some (ask, od, pid0, qq) =>
                if String.eqb pid pid0 && String.eqb (denom_of offer) od && String.eqb askd (denom_of ask) &&
                   (amount_of offer =? qq + 1) && (0 <? amount_of ask) && (amount_of ask <=? 1000000000000000000) &&
                   match find_pool prev pid with Some p => pool_is_cp p | None => false end then
                  match quoted_ok ans with
                  | Some r => if amount_of ask <=? r then [] else [12]
                  | None => []
                  end
                else []
            | None => []
            end) ++ rev_codes mem ro rs prev)%list
      | _ => rev_codes None ro rs prev
      end
  | _, _ => []
  end.
Definition mon_C12r (c : chain_case) (obs : val) : list Z :=
  (mon_C12 c obs ++
   match vlist obs with
   | _ :: s0 :: steps => nodup Z.eq_dec (rev_codes None (cc_ops c) steps s0)
   | _ => []
   end)%list.

(* C09: an emergency withdrawal returns at least 10% and at most 100% of the position to its owner; a regular one all *)
Definition chk_C09 (c : chain_case) (o : op) (ok : bool) (prev cur : val) : list Z :=
  if negb ok then [] else
  match o with
  | Tx sender target (WFm (FmPosWithdraw id em)) _ =>
      if negb (String.eqb target FM) || negb (is_user c sender) then [] else
      match find (fun p => String.eqb (position_id p) id) (snap_positions prev) with
      | Some p =>
          let lp := fst (position_lp p) in let amt := snd (position_lp p) in
          match balance_of c prev sender lp, balance_of c cur sender lp with
          | Some b0, Some b1 =>
              let got := b1 - b0 in
              let gain a := match balance_of c prev a lp, balance_of c cur a lp with Some x, Some y => y - x | _, _ => 0 end in
              let coll := vgetS (vnth 1 (vnth 0 (vnth 6 prev))) in      (* the configured fee collector *)
              let others := filter (fun a => negb (String.eqb a sender) && negb (String.eqb a coll)) (cc_addrs c) in
              (* owners of farms on this LP denom (whether or not they are active now) *)
              let owners := filter (fun a => existsb (fun f => String.eqb (vgetS (vnth 2 f)) lp && String.eqb (vgetS (vnth 1 f)) a)
                                                     (snap_farms prev)) others in
              let shares := filter (fun g => 0 <? g) (map gain owners) in
              if (amt - amt * 9 / 10 <=? got) && (got <=? amt) &&
                 (match em with Some true => true | _ => got =? amt end) &&
                 (* the penalty goes to the fee collector and to owners of farms on this LP denom only, in EQUAL shares per
                    distinct owner, and nobody loses anything; what leaves the farm manager is at most the recorded amount *)
                 forallb (fun a => (0 <=? gain a) &&
                                   ((gain a =? 0) || existsb (String.eqb a) owners)) others &&
                 (match shares with [] => true | g0 :: r => forallb (fun g => g =? g0) r end) &&
                 (0 <=? gain coll) && (- gain FM <=? amt) &&
                 (String.eqb coll sender || String.eqb coll FM ||
                  (got + fold_left (fun acc a => acc + gain a) others 0 + gain coll =? - gain FM))
              then [] else [9]
          | _, _ => []
          end
      | None => [9]
      end
  | _ => []
  end.
Definition mon_C09 := mon_steps chk_C09.
Definition mon_everything (c : chain_case) (obs : val) : list Z := (mon_all c obs ++ mon_C09 c obs ++ mon_C12 c obs)%list.

(* C13: a swap executed right after its quote was accepted only if the quoted return and spread pass the documented
   tolerance test for the limits it carried; a route only if its quote reaches the minimum it asked for *)
Definition chk_C13 (c : chain_case) (last : option (query * val)) (o : op) (ok : bool) (prev cur reported : val) : list Z :=
  if negb ok then [] else
  match o, last with
  | Tx _ target (WPm (PmSwap ask bp ms _ pid)) [offer], Some (QSimulation qoffer qask qpid, ans) =>
      if String.eqb target PM && String.eqb ask qask && String.eqb pid qpid && String.eqb (denom_of offer) (denom_of qoffer) &&
         (amount_of offer =? amount_of qoffer) then
        match vlist ans with
        | [VZ 1; VL (VZ ret :: VZ slip :: _)] =>
            match assert_max_slippage bp ms (amount_of offer) ret slip with Ok _ => [] | Err _ => [13] end
        | _ => [13]
        end
      else []
  | Tx _ target (WPm (PmRoute ops mr _ _)) [offer], Some (QSimulateOps amount qops, ans) =>
      if String.eqb target PM && (amount_of offer =? amount) &&
         val_eqb (VL (map (fun x => VL [VS (so_in x); VS (so_out x); VS (so_pool x)]) ops))
                 (VL (map (fun x => VL [VS (so_in x); VS (so_out x); VS (so_pool x)]) qops)) &&
         (Nat.eqb (List.length (nodup string_dec (map so_pool ops))) (List.length ops)) then
        match quoted_ok ans, mr with
        | Some q, Some m => if m <=? q then [] else [13]
        | Some _, None => []
        | None, _ => [13]
        end
      else []
  | _, _ => []
  end.
Definition mon_C13 := mon_steps_q chk_C13.

(* ---------- more decidable forms (roles, creation parameters, single-asset preconditions) ---------- *)
Definition find_position (s : val) (id : string) : option val := find (fun p => String.eqb (position_id p) id) (snap_positions s).
Definition find_farm (s : val) (id : string) : option val := find (fun f => String.eqb (vgetS (vnth 0 f)) id) (snap_farms s).

(* C15/C08 roles: an accepted close / withdrawal of a position comes from its owner; an accepted expansion from its owner
   or the pool manager; an accepted farm expansion from the farm's owner; an accepted farm closing from the farm's owner
   or the contract owner *)
Definition chk_roles (c : chain_case) (o : op) (ok : bool) (prev cur : val) : list Z :=
  if negb ok then [] else
  match o with
  | Tx sender target (WFm m) _ =>
      if negb (String.eqb target FM) then [] else
      let fm_owner := owner_of (vnth 1 (vnth 6 prev)) in
      match m with
      | FmPosClose id _ | FmPosWithdraw id _ =>
          match find_position prev id with Some p => if String.eqb (position_owner p) sender then [] else [15] | None => [15] end
      | FmPosExpand id =>
          match find_position prev id with
          | Some p => if String.eqb (position_owner p) sender || String.eqb sender PM then [] else [15]
          | None => [15] end
      | FmExpandFarm fp =>
          match fp_id fp with
          | Some id => match find_farm prev id with Some f => if String.eqb (vgetS (vnth 1 f)) sender then [] else [15] | None => [15] end
          | None => [15] end
      | FmCloseFarm id =>
          match find_farm prev id with
          | Some f => if String.eqb (vgetS (vnth 1 f)) sender || existsb (String.eqb sender) fm_owner then [] else [15]
          | None => [15] end
      | _ => []
      end
  | _ => []
  end.
Definition mon_C15r (c : chain_case) (obs : val) : list Z := (mon_C15 c obs ++ mon_steps chk_roles c obs)%list.
Definition mon_C08r (c : chain_case) (obs : val) : list Z := (mon_C08 c obs ++ mon_steps chk_roles c obs)%list.

(* C16: an accepted pool creation had 2..4 distinct assets (2 for constant product), as many decimals, a non-zero
   amplification for stableswap, each fee below 100% and at most 20% in total, and was paid exactly: per denom, the
   attached funds equal the configured creation fee plus the token-factory fee *)
Definition sum_denom (cs : list coin) (d : string) : Z := sum_where snd (fun x => String.eqb (fst x) d) cs.
Definition chk_C16c (c : chain_case) (o : op) (ok : bool) (prev cur : val) : list Z :=
  if negb ok then [] else
  match o with
  | Tx _ target (WPm (PmCreatePool denoms decimals fees pt _)) funds =>
      if negb (String.eqb target PM) then [] else
      let n := Z.of_nat (List.length denoms) in
      let fee := vnth 2 (vnth 0 (vnth 4 prev)) in
      let fee_c : coin := (vgetS (vnth 0 fee), vgetZ (vnth 1 fee)) in
      let tf := g_tf_fee (cc_gen c) in
      let required := (fee_c :: tf)%list in
      let all_d := (map fst funds ++ map fst required)%list in
      if (2 <=? n) && (n <=? 4) && (n =? Z.of_nat (List.length decimals)) &&
         (match pt with ConstantProduct => n =? 2 | StableSwap amp => negb (amp =? 0) end) &&
         negb (has_dup denoms) &&
         (match pool_fee_valid fees with Ok _ => true | Err _ => false end) &&
         forallb (fun d => sum_denom funds d =? sum_denom required d) all_d
      then [] else [16]
  | _ => []
  end.
Definition mon_C16c (c : chain_case) (obs : val) : list Z := (mon_C16 c obs ++ mon_steps chk_C16c c obs)%list.

(* C14: an accepted single-asset deposit went to a two-asset pool with both reserves non-zero, and when it locks into an
   existing position that position belongs to the sender; the positions it creates or changes are the sender's, and a
   requested lock produces one *)
Definition chk_C14s (c : chain_case) (o : op) (ok : bool) (prev cur : val) : list Z :=
  if negb ok then [] else
  match o with
  | Tx sender target (WPm (PmProvide _ _ _ pid u lid)) funds =>
      if negb (String.eqb target PM) then [] else
      match single_denom funds with
      | Some _ =>
          match find_pool prev pid with
          | Some p =>
              let assets := pool_assets p in
              if Nat.eqb (List.length assets) 2 && forallb (fun a => 0 <? snd a) assets &&
                 (match u, lid with
                  | Some _, Some id => match find_position prev id with Some q => String.eqb (position_owner q) sender | None => true end
                  | _, _ => true end) &&
                 (* locked for the sender and for nobody else: every position created or changed by the transaction is the
                    sender's, and when a lock was asked for there is one *)
                 (String.eqb sender PM ||
                  (forallb (fun q => String.eqb (position_owner q) sender ||
                                     existsb (fun q0 => val_eqb q q0) (snap_positions prev)) (snap_positions cur) &&
                   match u with
                   | Some _ => existsb (fun q => String.eqb (position_owner q) sender &&
                                                 negb (existsb (fun q0 => val_eqb q q0) (snap_positions prev))) (snap_positions cur)
                   | None => true
                   end))
              then [] else [14]
          | None => [14]
          end
      | None => []
      end
  | _ => []
  end.
Definition mon_C14s (c : chain_case) (obs : val) : list Z := (mon_C14 c obs ++ mon_steps chk_C14s c obs)%list.

(* ---------- C10: the weight table moves exactly as the position operations say ----------
   On the implementation's snapshots (the whole LP_WEIGHT_HISTORY is observed): a position operation changes the latest
   weight of the position's owner and of the contract by calculate_weight(amount, position's duration) - saturating at zero
   on removals, as update_weights does -, nothing else moves any latest weight, closing a closed position is never
   accepted, and only addresses with an open position in an LP denom have weight entries for it. *)
Definition snap_weights (s : val) : list (string * string * Z * Z) :=
  map (fun v => (vgetS (vnth 0 v), vgetS (vnth 1 v), vgetZ (vnth 2 v), vgetZ (vnth 3 v))) (vlist (vnth 10 s)).
Definition latest_w (ws : list (string * string * Z * Z)) (a d : string) : Z :=
  snd (fold_left (fun (acc : Z * Z) (x : string * string * Z * Z) =>
                    match x with (xa, xd, e, w) =>
                      if String.eqb xa a && String.eqb xd d && (fst acc <? e) then (e, w) else acc end) ws (-1, 0)).
Definition position_dur (p : val) : Z := vgetZ (vnth 2 p).
Definition position_open (p : val) : bool := vgetB (vnth 3 p).
Definition has_open_in (s : val) (a d : string) : bool :=
  existsb (fun p => position_open p && String.eqb (position_owner p) a && String.eqb (fst (position_lp p)) d) (snap_positions s).
Definition weight_pairs (s : val) : list (string * string) :=
  nodup (fun x y => match string_dec (fst x) (fst y), string_dec (snd x) (snd y) with
                    | left e1, left e2 => left (match x, y return fst x = fst y -> snd x = snd y -> x = y with (a, b), (c0, d0) => fun p q => f_equal2 pair p q end e1 e2)
                    | right n, _ => right (fun h => n (f_equal fst h))
                    | _, right n => right (fun h => n (f_equal snd h)) end)
        (map (fun x => match x with (a, d, _, _) => (a, d) end) (snap_weights s)).
Definition weights_unchanged_except (prev cur : val) (skip : string -> string -> bool) : bool :=
  forallb (fun ad => skip (fst ad) (snd ad) ||
                     (latest_w (snap_weights cur) (fst ad) (snd ad) =? latest_w (snap_weights prev) (fst ad) (snd ad)))
          (weight_pairs prev ++ weight_pairs cur)%list.
Definition only_stakers_have_weight (s : val) : bool :=
  forallb (fun ad => String.eqb (fst ad) FM || has_open_in s (fst ad) (snd ad)) (weight_pairs s).
Definition chk_C10 (c : chain_case) (o : op) (ok : bool) (prev cur : val) : list Z :=
  if negb ok then [] else
  let wp := snap_weights prev in let wc := snap_weights cur in
  let inv := if only_stakers_have_weight cur then [] else [10] in
  let moved (owner lp : string) (w : Z) (fill : bool) : bool :=
      let t0 := latest_w wp FM lp in let u0 := latest_w wp owner lp in
      let t1 := if fill then t0 + w else Z.max 0 (t0 - w) in
      let u1 := if fill then u0 + w else (if has_open_in cur owner lp then Z.max 0 (u0 - w) else 0) in
      (latest_w wc FM lp =? t1) && (latest_w wc owner lp =? u1) &&
      weights_unchanged_except prev cur (fun a d => String.eqb d lp && (String.eqb a FM || String.eqb a owner)) in
  (inv ++
  match o with
  | Tx sender target (WFm m) funds =>
      if negb (String.eqb target FM) then [] else
      match m with
      | FmPosCreate _ dur r =>
          match funds with
          | [(lp, amt)] =>
              let owner := match r with Some a => a | None => sender end in
              match calculate_weight amt dur with Ok w => if moved owner lp w true then [] else [10] | Err _ => [10] end
          | _ => [10]
          end
      | FmPosExpand id =>
          match find_position prev id, funds with
          | Some p, [(lp, amt)] =>
              match calculate_weight amt (position_dur p) with
              | Ok w => if moved (position_owner p) lp w true then [] else [10] | Err _ => [10] end
          | _, _ => [10]
          end
      | FmPosClose id olp =>
          match find_position prev id with
          | Some p =>
              if negb (position_open p) then [10] else
              let amt := match olp with Some cn => amount_of cn | None => snd (position_lp p) end in
              match calculate_weight amt (position_dur p) with
              | Ok w => if moved (position_owner p) (fst (position_lp p)) w false then [] else [10] | Err _ => [10] end
          | None => [10]
          end
      | FmPosWithdraw id _ =>
          match find_position prev id with
          | Some p =>
              if position_open p then
                match calculate_weight (snd (position_lp p)) (position_dur p) with
                | Ok w => if moved (position_owner p) (fst (position_lp p)) w false then [] else [10] | Err _ => [10] end
              else if weights_unchanged_except prev cur (fun _ _ => false) then [] else [10]
          | None => [10]
          end
      | _ => if weights_unchanged_except prev cur (fun _ _ => false) then [] else [10]
      end
  | Tx _ target (WPm (PmProvide _ _ _ _ (Some _) _)) _ => []          (* locks through the pool manager: the invariant above *)
  | Tx _ _ _ _ | BankSendOp _ _ _ | SetBlock _ | SetFault _ =>
      if weights_unchanged_except prev cur (fun _ _ => false) then [] else [10]
  end)%list.
Definition mon_C10 := mon_steps chk_C10.

(* ---------- C07: a claim pays the weight share, epoch by epoch ----------
   For an accepted Claim in the class covered by the theorems (the user has a cursor c; none of his weight entries for the
   LP denoms he stakes is older than c; the contract's weight history for them starts at or before c+1), the payout per coin
   denom equals the sum over his LP denoms' farms and over the epochs (c, u] within each farm's span of
   floor(rate * his weight in effect / total weight in effect), the weights being read from the observed LP_WEIGHT_HISTORY by
   plain carry-forward. *)
Definition cursor_of (c : chain_case) (s : val) (a : string) : option Z :=
  match find (fun x => String.eqb (fst x) a) (combine (cc_addrs c) (vlist (vnth 9 s))) with
  | Some (_, VL [VZ z]) => Some z
  | _ => None
  end.
Definition cf_w (ws : list (string * string * Z * Z)) (a d : string) (e : Z) : option Z :=
  let r := fold_left (fun (acc : Z * Z) (x : string * string * Z * Z) =>
                        match x with (xa, xd, ep, w) =>
                          if String.eqb xa a && String.eqb xd d && (ep <=? e) && (fst acc <? ep) then (ep, w) else acc end) ws (-1, 0) in
  if fst r <? 0 then None else Some (snd r).
Definition min_epoch_w (ws : list (string * string * Z * Z)) (a d : string) : option Z :=
  fold_left (fun (acc : option Z) (x : string * string * Z * Z) =>
               match x with (xa, xd, ep, _) =>
                 if String.eqb xa a && String.eqb xd d then
                   match acc with Some m => Some (Z.min m ep) | None => Some ep end
                 else acc end) ws None.
Definition staked_denoms (s : val) (a : string) : list string :=
  nodup string_dec (map (fun p => fst (position_lp p))
                        (filter (fun p => position_open p && String.eqb (position_owner p) a) (snap_positions s))).
Definition farm_reward_expected (ws : list (string * string * Z * Z)) (f : val) (user : string) (c u : Z) : Z :=
  let lp := vgetS (vnth 2 f) in let rate := vgetZ (vnth 5 f) in let st := vgetZ (vnth 6 f) in let en := vgetZ (vnth 7 f) in
  fold_left (fun acc e =>
               if e <? st then acc else
               match cf_w ws FM lp e with
               | Some tw => if tw =? 0 then acc else acc + rate * (match cf_w ws user lp e with Some uw => uw | None => 0 end) / tw
               | None => acc
               end) (epoch_range (c + 1) (Z.min u (en - 1))) 0.
Definition claim_class_ok (ws : list (string * string * Z * Z)) (user : string) (lps : list string) (c : Z) : bool :=
  forallb (fun lp =>
             forallb (fun x => match x with (xa, xd, ep, _) => negb (String.eqb xa user && String.eqb xd lp) || (c <=? ep) end) ws &&
             match min_epoch_w ws FM lp with Some e0 => e0 <=? c + 1 | None => false end) lps.
Definition chk_C07 (c : chain_case) (o : op) (ok : bool) (prev cur : val) : list Z :=
  if negb ok then [] else
  match o with
  | Tx sender target (WFm (FmClaim _)) _ =>
      if negb (String.eqb target FM) || negb (is_user c sender) then [] else
      match cursor_of c prev sender, cursor_of c cur sender with
      | Some c0, Some u =>
          let ws := snap_weights prev in
          let lps := staked_denoms prev sender in
          if negb (claim_class_ok ws sender lps c0) then [] else
          let farms := filter (fun f => existsb (String.eqb (vgetS (vnth 2 f))) lps) (snap_farms prev) in
          if forallb (fun d =>
                        let expected := fold_left (fun acc f => if String.eqb (vgetS (vnth 0 (vnth 3 f))) d
                                                                then acc + farm_reward_expected ws f sender c0 u else acc) farms 0 in
                        match balance_of c prev sender d, balance_of c cur sender d with
                        | Some b0, Some b1 => b1 - b0 =? expected
                        | _, _ => true
                        end) (denoms_of_snapshot c prev)
          then [] else [7]
      | _, _ => []
      end
  | _ => []
  end.
Definition mon_C07 := mon_steps chk_C07.
(* C06, one-sided: in that class nobody is paid MORE than the weight share (which is what keeps an epoch's payouts within
   its emission) *)
Definition chk_C06w (c : chain_case) (o : op) (ok : bool) (prev cur : val) : list Z :=
  if negb ok then [] else
  match o with
  | Tx sender target (WFm (FmClaim _)) _ =>
      if negb (String.eqb target FM) || negb (is_user c sender) then [] else
      match cursor_of c prev sender, cursor_of c cur sender with
      | Some c0, Some u =>
          let ws := snap_weights prev in
          let lps := staked_denoms prev sender in
          if negb (claim_class_ok ws sender lps c0) then [] else
          let farms := filter (fun f => existsb (String.eqb (vgetS (vnth 2 f))) lps) (snap_farms prev) in
          if forallb (fun d =>
                        let expected := fold_left (fun acc f => if String.eqb (vgetS (vnth 0 (vnth 3 f))) d
                                                                then acc + farm_reward_expected ws f sender c0 u else acc) farms 0 in
                        match balance_of c prev sender d, balance_of c cur sender d with
                        | Some b0, Some b1 => b1 - b0 <=? expected
                        | _, _ => true
                        end) (denoms_of_snapshot c prev)
          then [] else [6]
      | _, _ => []
      end
  | _ => []
  end.
(* ... and the same bound for the Rewards QUERY (which C07 makes equal to what an immediate Claim pays): in that class no
   answer exceeds the weight share, the weights being 0 before the user's first entry - nobody is quoted (hence paid)
   for an epoch before his position's weight took effect. The current epoch is followed through the SetBlock operations. *)
Fixpoint rq_codes (exact : bool) (c : chain_case) (now : Z) (ops : list cop) (steps : list val) (prev : val) : list Z :=
  match ops, steps with
  | COp o :: ro, st :: rs =>
      let now' := match o with SetBlock b => seconds b | _ => now end in
      rq_codes exact c now' ro rs (vnth 1 st)
  | CQuery q :: ro, st :: rs =>
      ((match q with
        | QRewards a until =>
            let ans := vnth 1 st in
            match vlist ans, cursor_of c prev a with
            | [VZ 1; VL coins], Some c0 =>
                let ws := snap_weights prev in
                let lps := staked_denoms prev a in
                let dur := vgetZ (vnth 0 (vnth 0 (vnth 2 prev))) in
                let gen := vgetZ (vnth 1 (vnth 0 (vnth 2 prev))) in
                if negb (is_user c a) || negb (claim_class_ok ws a lps c0) || (dur <=? 0) || (now <? gen) then [] else
                let u := match until with Some x => x | None => (now - gen) / dur end in
                let farms := filter (fun f => existsb (String.eqb (vgetS (vnth 2 f))) lps) (snap_farms prev) in
                if forallb (fun cn =>
                              let d := vgetS (vnth 0 cn) in
                              let expected := fold_left (fun acc f => if String.eqb (vgetS (vnth 0 (vnth 3 f))) d
                                                                      then acc + farm_reward_expected ws f a c0 u else acc) farms 0 in
                              if exact then vgetZ (vnth 1 cn) =? expected else vgetZ (vnth 1 cn) <=? expected) coins
                then [] else [if exact then 7 else 6]
            | _, _ => []
            end
        | _ => []
        end) ++ rq_codes exact c now ro rs prev)%list
  | _, _ => []
  end.
Definition mon_C06w (c : chain_case) (obs : val) : list Z :=
  (mon_C06 c obs ++ mon_steps chk_C06w c obs ++
   match vlist obs with
   | _ :: s0 :: steps => nodup Z.eq_dec (rq_codes false c (seconds (g_block (cc_gen c))) (cc_ops c) steps s0)
   | _ => []
   end)%list.

(* ---------- C02: a withdrawal pays exactly floor(reserve * burned / supply) per asset ----------
   (the exact pro-rata floor is what the repaired code pays; it is within the property's [pro-rata - 1, pro-rata] window) *)
Definition chk_C02w (c : chain_case) (o : op) (ok : bool) (prev cur : val) : list Z :=
  if negb ok then [] else
  match o with
  | Tx sender target (WPm (PmWithdraw pid)) [(lp, amt)] =>
      if negb (String.eqb target PM) || negb (is_user c sender) then [] else
      match find_pool prev pid, find_pool cur pid with
      | Some p, Some q =>
          let s0 := supply_of c prev lp in
          if negb (String.eqb (pool_lp p) lp) || (s0 <=? 0) || existsb (fun a => String.eqb (fst a) lp) (pool_assets p) then [] else
          if forallb (fun a =>
                        let refund := snd a * amt / s0 in
                        (match find (fun b => String.eqb (fst b) (fst a)) (pool_assets q) with
                         | Some b => snd b =? snd a - refund | None => false end) &&
                        (match balance_of c prev sender (fst a), balance_of c cur sender (fst a) with
                         | Some b0, Some b1 => b1 - b0 =? refund | _, _ => true end)) (pool_assets p) &&
             (supply_of c cur lp =? s0 - amt)
          then [] else [2]
      | _, _ => [2]
      end
  | _ => []
  end.
Definition mon_C02w (c : chain_case) (obs : val) : list Z := (mon_C02 c obs ++ mon_steps chk_C02w c obs)%list.

(* ---------- C11: a farm's recorded budget is what the farm manager actually received ----------
   expansion: the budget grows by exactly the attached amount, which the farm manager's balance gains, and the end moves by
   amount / rate epochs; creation (when no expired farm is swept in the same transaction): the new farm's budget is what the
   farm manager's balance gained in the reward denom, and the creator paid exactly budget + what the fee collector gained *)
Definition fm_balance_of (c : chain_case) (s : val) (d : string) : Z :=
  match find (fun dj => String.eqb (fst dj) d) (combine (denoms_of_snapshot c s) (balance_row s 3)) with
  | Some dj => snd dj | None => 0 end.
Definition fc_balance_of (c : chain_case) (s : val) (d : string) : Z :=
  match find (fun dj => String.eqb (fst dj) d) (combine (denoms_of_snapshot c s) (balance_row s 1)) with
  | Some dj => snd dj | None => 0 end.
Definition farm_ids (s : val) : list string := map (fun f => vgetS (vnth 0 f)) (snap_farms s).
Definition chk_C11c (c : chain_case) (o : op) (ok : bool) (prev cur : val) : list Z :=
  if negb ok then [] else
  match o with
  | Tx sender target (WFm (FmExpandFarm fp)) [(d, amt)] =>
      if negb (String.eqb target FM) then [] else
      match fp_id fp with
      | Some id =>
          match find_farm prev id, find_farm cur id with
          | Some f, Some g =>
              let rate := vgetZ (vnth 5 f) in
              if (vgetZ (vnth 1 (vnth 3 g)) =? vgetZ (vnth 1 (vnth 3 f)) + amt) && String.eqb (vgetS (vnth 0 (vnth 3 f))) d &&
                 (fm_balance_of c cur d =? fm_balance_of c prev d + amt) &&
                 (if rate =? 0 then true else vgetZ (vnth 7 g) =? vgetZ (vnth 7 f) + amt / rate)
              then [] else [11]
          | _, _ => [11]
          end
      | None => [11]
      end
  | Tx sender target (WFm (FmCreateFarm fp)) funds =>
      if negb (String.eqb target FM) || negb (is_user c sender) then [] else
      (* no farm swept: every farm of before is still there *)
      if negb (forallb (fun id => existsb (String.eqb id) (farm_ids cur)) (farm_ids prev)) then [] else
      match filter (fun g => negb (existsb (String.eqb (vgetS (vnth 0 g))) (farm_ids prev))) (snap_farms cur) with
      | [g] =>
          let d := vgetS (vnth 0 (vnth 3 g)) in let budget := vgetZ (vnth 1 (vnth 3 g)) in
          if (fm_balance_of c cur d =? fm_balance_of c prev d + budget) &&
             forallb (fun dn => match balance_of c prev sender dn, balance_of c cur sender dn with
                                | Some b0, Some b1 =>
                                    b0 - b1 =? (if String.eqb dn d then budget else 0) + (fc_balance_of c cur dn - fc_balance_of c prev dn)
                                | _, _ => true end) (denoms_of_snapshot c prev)
          then [] else [11]
      | _ => [11]
      end
  | _ => []
  end.
Definition mon_C11c (c : chain_case) (obs : val) : list Z := (mon_C11 c obs ++ mon_steps chk_C11c c obs)%list.

(* C07: in that class every non-zero entry of a Rewards answer IS the weight share of its denom *)
Definition mon_C07q (c : chain_case) (obs : val) : list Z :=
  (mon_C07 c obs ++
   match vlist obs with
   | _ :: s0 :: steps => nodup Z.eq_dec (rq_codes true c (seconds (g_block (cc_gen c))) (cc_ops c) steps s0)
   | _ => []
   end)%list.
