(* Monitors.v — decidable forms of state properties, evaluated on the snapshots the IMPLEMENTATION produced
   (not on the model's own states): they turn a broken correspondence into a concrete failing history. *)
From MD.Model Require Import Base Ownable Epoch PoolMath Types PoolManager FarmManager Chain CasesEpoch CasesChain.

Definition vgetS (v : val) : string := match v with VS s => s | _ => "" end.

(* layout of Chain.snapshot *)
Definition snap_balances (s : val) : val := vnth 0 s.
Definition snap_pools (s : val) : list val := vlist (vnth 5 s).
Definition snap_positions (s : val) : list val := vlist (vnth 7 s).
Definition snap_farms (s : val) : list val := vlist (vnth 8 s).

Definition pool_lp (p : val) : string := vgetS (vnth 5 p).
Definition pool_assets (p : val) : list (string * Z) := map (fun c => (vgetS (vnth 0 c), vgetZ (vnth 1 c))) (vlist (vnth 3 p)).

Definition denoms_of_snapshot (c : chain_case) (s : val) : list string :=
  (cc_denoms c ++ map pool_lp (snap_pools s))%list.

(* row of balances of the i-th address (EM, FC, PM, FM, users...) *)
Definition balance_row (s : val) (i : nat) : list Z := map vgetZ (vlist (vnth i (snap_balances s))).

Definition sum_where {A} (f : A -> Z) (p : A -> bool) (l : list A) : Z :=
  fold_left (fun acc x => if p x then acc + f x else acc) l 0.

(* C01: for every denom the pool manager's balance covers the sum of the reserves reported for it *)
Definition c01_snapshot_ok (c : chain_case) (s : val) : bool :=
  let ds := denoms_of_snapshot c s in
  let pm := balance_row s 2 in
  let reserves := flat_map pool_assets (snap_pools s) in
  forallb (fun dj => let d := fst dj in let b := snd dj in
                     sum_where snd (fun r => String.eqb (fst r) d) reserves <=? b)
          (combine ds pm).

(* C05: for every denom the farm manager's balance covers locked LP plus unclaimed farm budgets *)
Definition position_lp (p : val) : string * Z := (vgetS (vnth 0 (vnth 1 p)), vgetZ (vnth 1 (vnth 1 p))).
Definition farm_owed (f : val) : string * Z :=
  (vgetS (vnth 0 (vnth 3 f)), Z.max 0 (vgetZ (vnth 1 (vnth 3 f)) - vgetZ (vnth 4 f))).
Definition c05_snapshot_ok (c : chain_case) (s : val) : bool :=
  let ds := denoms_of_snapshot c s in
  let fm := balance_row s 3 in
  let owed := (map position_lp (snap_positions s) ++ map farm_owed (snap_farms s))%list in
  forallb (fun dj => let d := fst dj in let b := snd dj in
                     sum_where snd (fun r => String.eqb (fst r) d) owed <=? b)
          (combine ds fm).

(* C16: static parameters of pools never change and pools never disappear between consecutive snapshots *)
Definition pool_static (p : val) : val := VL [vnth 0 p; vnth 1 p; vnth 2 p; vnth 4 p; vnth 5 p; vnth 6 p].
Definition c16_step_ok (prev cur : val) : bool :=
  forallb (fun p => existsb (fun q => val_eqb (pool_static p) (pool_static q)) (snap_pools cur)) (snap_pools prev).

(* snapshots of a trace, in order (queries are skipped) *)
Definition trace_snapshots (obs : val) : list val :=
  match vlist obs with
  | _ :: s0 :: steps =>
      s0 :: flat_map (fun st => match vnth 0 st with VZ 2 => [] | _ => [vnth 1 st] end) steps
  | _ => []
  end.

Fixpoint pairwise_ok (f : val -> val -> bool) (l : list val) : bool :=
  match l with
  | a :: ((b :: _) as r) => f a b && pairwise_ok f r
  | _ => true
  end.

Definition mon_C01 (c : chain_case) (obs : val) : list Z :=
  if forallb (c01_snapshot_ok c) (trace_snapshots obs) then [] else [1].
Definition mon_C05 (c : chain_case) (obs : val) : list Z :=
  if forallb (c05_snapshot_ok c) (trace_snapshots obs) then [] else [5].
Definition mon_C16 (c : chain_case) (obs : val) : list Z :=
  if pairwise_ok c16_step_ok (trace_snapshots obs) then [] else [16].
