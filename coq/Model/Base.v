(* Base.v — result monad, fixed-width integer layer, observation values.
   Every Rust integer is a Z together with an explicit range; checked operations
   return [Err] exactly where the Rust operation fails (or panics: a panic aborts
   the transaction exactly like an error). *)
From Coq Require Export ZArith List String Bool Lia.
Export ListNotations.
Open Scope string_scope.
Open Scope Z_scope.

(* ---------- result monad ---------- *)
Inductive res (A : Type) : Type :=
| Ok (a : A)
| Err (e : string).
Arguments Ok {A} a.
Arguments Err {A} e.

Definition bind {A B} (r : res A) (f : A -> res B) : res B :=
  match r with Ok a => f a | Err e => Err e end.

Notation "'let*' x ':=' r 'in' k" := (bind r (fun x => k))
  (at level 200, x pattern, r at level 100, k at level 200, right associativity).

Definition ensure (b : bool) (e : string) : res unit :=
  if b then Ok tt else Err e.

Definition is_ok {A} (r : res A) : bool := match r with Ok _ => true | Err _ => false end.

Definition of_option {A} (o : option A) (e : string) : res A :=
  match o with Some a => Ok a | None => Err e end.

Fixpoint mapM {A B} (f : A -> res B) (l : list A) : res (list B) :=
  match l with
  | [] => Ok []
  | x :: xs => let* y := f x in let* ys := mapM f xs in Ok (y :: ys)
  end.

Fixpoint foldM {A B} (f : B -> A -> res B) (l : list A) (b : B) : res B :=
  match l with
  | [] => Ok b
  | x :: xs => let* b' := f b x in foldM f xs b'
  end.

(* ---------- ranges ---------- *)
Definition U8_MAX : Z := 255.
Definition U32_MAX : Z := 4294967295.
Definition U64_MAX : Z := 18446744073709551615.
Definition U128_MAX : Z := 340282366920938463463374607431768211455.
Definition U256_MAX : Z := 2 ^ 256 - 1.
Definition U512_MAX : Z := 2 ^ 512 - 1.

Definition in_range (max v : Z) : bool := (0 <=? v) && (v <=? max).

(* [chk max v]: the value of a checked operation whose mathematical result is [v] *)
Definition chk (max v : Z) : res Z :=
  if in_range max v then Ok v else Err "overflow".

Definition cadd (max a b : Z) : res Z := chk max (a + b).
Definition csub (max a b : Z) : res Z := chk max (a - b).
Definition cmul (max a b : Z) : res Z := chk max (a * b).
Definition cdiv (a b : Z) : res Z := if b =? 0 then Err "divide by zero" else Ok (a / b).
Definition ssub (a b : Z) : Z := Z.max 0 (a - b).          (* saturating_sub *)
Definition smul (max a b : Z) : Z := Z.min max (a * b).    (* saturating_mul *)

(* Uint::multiply_ratio(num, den) = floor(self*num/den); panics on den = 0 or overflow *)
Definition mul_ratio (max a num den : Z) : res Z :=
  if den =? 0 then Err "divide by zero" else chk max (a * num / den).

(* ---------- 18-digit fixed point (Decimal: u128 atomics, Decimal256: u256 atomics) ---------- *)
Definition DEC : Z := 1000000000000000000.   (* 10^18 *)

(* Decimal*::checked_from_ratio / from_ratio (from_ratio panics where checked_ errs) *)
Definition dec_from_ratio (max n d : Z) : res Z :=
  if d =? 0 then Err "divide by zero" else chk max (n * DEC / d).
(* checked_mul: floor(a*b/10^18), overflow error *)
Definition dec_mul (max a b : Z) : res Z := chk max (a * b / DEC).
(* checked_div = checked_from_ratio(a.numerator, b.numerator) *)
Definition dec_div (max a b : Z) : res Z := dec_from_ratio max a b.
(* to_uint_floor *)
Definition dec_floor (a : Z) : Z := a / DEC.
(* inv: None for zero, else 10^36 / a (floor) *)
Definition dec_inv (a : Z) : option Z := if a =? 0 then None else Some (DEC * DEC / a).

(* ---------- list helpers ---------- *)
Fixpoint sumZ (l : list Z) : Z := match l with [] => 0 | x :: xs => x + sumZ xs end.

Fixpoint find_index {A} (p : A -> bool) (l : list A) : option nat :=
  match l with
  | [] => None
  | x :: xs => if p x then Some O else option_map S (find_index p xs)
  end.

Fixpoint set_nth {A} (n : nat) (v : A) (l : list A) : list A :=
  match l, n with
  | [], _ => []
  | _ :: xs, O => v :: xs
  | x :: xs, S n' => x :: set_nth n' v xs
  end.

Fixpoint take {A} (n : nat) (l : list A) : list A :=
  match n, l with
  | O, _ => []
  | _, [] => []
  | S n', x :: xs => x :: take n' xs
  end.

Definition maxZ_list (l : list Z) : Z := fold_right Z.max 0 l.
Definition minZ_list (d : Z) (l : list Z) : Z := fold_right Z.min d l.

(* ---------- observation values compared with the implementation ---------- *)
Inductive val : Type :=
| VZ (z : Z)
| VS (s : string)
| VL (l : list val).

Fixpoint val_eqb (a b : val) {struct a} : bool :=
  match a, b with
  | VZ x, VZ y => x =? y
  | VS x, VS y => String.eqb x y
  | VL xs, VL ys =>
      (fix go (xs ys : list val) {struct xs} : bool :=
         match xs, ys with
         | [], [] => true
         | x :: xs', y :: ys' => val_eqb x y && go xs' ys'
         | _, _ => false
         end) xs ys
  | _, _ => false
  end.

Definition vbool (b : bool) : val := VZ (if b then 1 else 0).
Definition vopt {A} (f : A -> val) (o : option A) : val :=
  match o with None => VL [] | Some a => VL [f a] end.
Definition vres {A} (f : A -> val) (r : res A) : val :=
  match r with Ok a => VL [VZ 1; f a] | Err _ => VL [VZ 0] end.
Definition vresd {A} (f : A -> val) (r : res A) : val :=   (* debugging: keeps the error tag *)
  match r with Ok a => VL [VZ 1; f a] | Err e => VL [VZ 0; VS e] end.

(* indices (0-based, as N for compact printing) of the cases whose expected value differs *)
Fixpoint mismatches_from {A} (run : A -> val) (i : Z) (cases : list (A * val)) : list Z :=
  match cases with
  | [] => []
  | (a, v) :: cs =>
      if val_eqb (run a) v then mismatches_from run (i + 1) cs
      else i :: mismatches_from run (i + 1) cs
  end.
Definition mismatches {A} (run : A -> val) (cases : list (A * val)) : list Z :=
  mismatches_from run 0 cases.

(* Monitors: the decidable form of a property evaluated on what the IMPLEMENTATION did.
   A monitor returns a list of codes for a case: [] = fine; codes < 100 = a violation of the property
   (the code names the clause); codes >= 100 = the case falls in a listed known-finding class. *)
Fixpoint monitor_report_from {A} (mon : A -> val -> list Z) (i : Z) (cases : list (A * val)) : list (Z * list Z) :=
  match cases with
  | [] => []
  | (a, v) :: cs =>
      match mon a v with
      | [] => monitor_report_from mon (i + 1) cs
      | codes => (i, codes) :: monitor_report_from mon (i + 1) cs
      end
  end.
Definition monitor_report {A} (mon : A -> val -> list Z) (cases : list (A * val)) : list (Z * list Z) :=
  monitor_report_from mon 0 cases.
Definition mon_of_bool {A} (code : Z) (m : A -> val -> bool) : A -> val -> list Z :=
  fun a v => if m a v then [] else [code].

(* the model's own output for a case, used when reporting a mismatch *)
Definition model_outputs {A} (run : A -> val) (cases : list (A * val)) : list val :=
  map (fun c => run (fst c)) cases.
