(* CasesEpoch.v — correspondence driver and implementation-side monitor for the epoch manager (C18, C15). *)
From MD.Model Require Import Base Ownable Epoch.

Inductive epoch_step :=
| EsExec (b : block) (sender : string) (funds : bool) (m : em_msg)
| EsCurrent (b : block)
| EsEpoch (id : Z)
| EsConfig
| EsOwnership.

Record epoch_case := {
  ec_valid : list string;        (* addresses the chain's api accepts *)
  ec_b0 : block;
  ec_owner : string;
  ec_cfg : epoch_cfg;
  ec_steps : list epoch_step }.

Definition mem_str (l : list string) (a : string) : bool := existsb (String.eqb a) l.

Fixpoint run_epoch_steps (av : string -> bool) (s : em_state) (steps : list epoch_step) : list val :=
  match steps with
  | [] => []
  | st :: rest =>
      match st with
      | EsExec b sender f m =>
          match em_execute av b sender f m s with
          | Ok s' => VL [VZ 1; v_em_state s'] :: run_epoch_steps av s' rest
          | Err _ => VL [VZ 0; v_em_state s] :: run_epoch_steps av s rest
          end
      | EsCurrent b => vres v_epoch (query_current_epoch (em_cfg s) b) :: run_epoch_steps av s rest
      | EsEpoch id => vres v_epoch (query_epoch (em_cfg s) id) :: run_epoch_steps av s rest
      | EsConfig => v_epoch_cfg (em_cfg s) :: run_epoch_steps av s rest
      | EsOwnership => v_ownership (em_own s) :: run_epoch_steps av s rest
      end
  end.

Definition run_epoch_case (c : epoch_case) : val :=
  let av := mem_str (ec_valid c) in
  match em_instantiate av (ec_b0 c) (ec_owner c) (ec_cfg c) with
  | Err _ => VL [VL [VZ 0]]
  | Ok s => VL (VL [VZ 1; v_em_state s] :: run_epoch_steps av s (ec_steps c))
  end.

(* ---- monitor: the decidable form of C18 evaluated on what the IMPLEMENTATION returned ---- *)
Definition vlist (v : val) : list val := match v with VL l => l | _ => [] end.
Definition vnth (n : nat) (v : val) : val := nth n (vlist v) (VL []).
Definition vgetZ (v : val) : Z := match v with VZ z => z | _ => -1 end.
Definition vis_ok (v : val) : bool := match vnth 0 v with VZ 1 => true | _ => false end.

Definition cfg_of_state_val (v : val) : epoch_cfg :=
  {| duration := vgetZ (vnth 0 (vnth 0 v)); genesis := vgetZ (vnth 1 (vnth 0 v)) |}.

(* state threaded by the monitor: configuration in force, last (time, id) seen under it *)
Fixpoint mon_epoch_steps (c : epoch_cfg) (last : option (Z * Z)) (steps : list epoch_step) (obs : list val) : bool :=
  match steps, obs with
  | [], _ => true
  | st :: rest, o :: obs' =>
      match st with
      | EsExec b _ _ _ =>
          let c' := cfg_of_state_val (vnth 1 o) in
          (* accepted configurations are valid *)
          (DAY_IN_SECONDS <=? duration c') &&
          (if vis_ok o then
             if (duration c' =? duration c) && (genesis c' =? genesis c) then true
             else seconds b <=? genesis c'
           else (duration c' =? duration c) && (genesis c' =? genesis c)) &&
          mon_epoch_steps c' (if (duration c' =? duration c) && (genesis c' =? genesis c) then last else None) rest obs'
      | EsCurrent b =>
          if vis_ok o then
            let id := vgetZ (vnth 0 (vnth 1 o)) in
            let st := vgetZ (vnth 1 (vnth 1 o)) in
            (genesis c <=? seconds b) &&
            (id =? (seconds b - genesis c) / duration c) &&
            (st =? (genesis c + id * duration c) * NANOS) &&
            (st <=? time b) && (time b <? st + duration c * NANOS) &&
            (match last with
             | Some (t0, id0) =>
                 (if t0 <=? time b then id0 <=? id else id <=? id0) &&
                 (if time b =? t0 + duration c * NANOS then id =? id0 + 1 else true)
             | None => true end) &&
            mon_epoch_steps c (Some (time b, id)) rest obs'
          else
            (* failure is only allowed before genesis *)
            (seconds b <? genesis c) && mon_epoch_steps c last rest obs'
      | EsEpoch id =>
          (if vis_ok o then
             (vgetZ (vnth 0 (vnth 1 o)) =? id) &&
             (vgetZ (vnth 1 (vnth 1 o)) =? (genesis c + id * duration c) * NANOS) &&
             (vgetZ (vnth 1 (vnth 1 o)) <=? U64_MAX)
           else U64_MAX <? (genesis c + id * duration c) * NANOS) &&
          mon_epoch_steps c last rest obs'
      | EsConfig =>
          (vgetZ (vnth 0 o) =? duration c) && (vgetZ (vnth 1 o) =? genesis c) &&
          mon_epoch_steps c last rest obs'
      | EsOwnership => mon_epoch_steps c last rest obs'
      end
  | _ :: _, [] => false
  end.

Definition mon_epoch_case_b (c : epoch_case) (obs : val) : bool :=
  match vlist obs with
  | [] => false
  | o0 :: rest =>
      if vis_ok o0 then
        let c0 := cfg_of_state_val (vnth 1 o0) in
        (duration c0 =? duration (ec_cfg c)) && (genesis c0 =? genesis (ec_cfg c)) &&
        (DAY_IN_SECONDS <=? duration c0) && (seconds (ec_b0 c) <=? genesis c0) &&
        mon_epoch_steps c0 None (ec_steps c) rest
      else
        (* rejected instantiation must have a reason: bad duration, genesis in the past or bad owner *)
        (duration (ec_cfg c) <? DAY_IN_SECONDS) || (genesis (ec_cfg c) <? seconds (ec_b0 c)) ||
        negb (mem_str (ec_valid c) (ec_owner c))
  end.

Definition mon_epoch_case : epoch_case -> val -> list Z := mon_of_bool 1 mon_epoch_case_b.
