(* Ownable.v — cw-ownable 2.1.0 (transfer / accept with optional expiry / renounce),
   as used by all four contracts through mantra_utils::ownership::update_ownership. *)
From MD.Model Require Import Base.

Inductive expiration := AtHeight (h : Z) | AtTime (t : Z) | Never.

Record block := { height : Z; time : Z (* nanoseconds, u64 *) }.

Definition NANOS : Z := 1000000000.
Definition seconds (b : block) : Z := time b / NANOS.

Record ownership := {
  owner : option string;
  pending_owner : option string;
  pending_expiry : option expiration }.

Inductive own_action :=
| Transfer (new_owner : string) (expiry : option expiration)
| Accept
| Renounce.

Definition is_expired (e : expiration) (b : block) : bool :=
  match e with
  | AtHeight h => h <=? height b
  | AtTime t => t <=? time b
  | Never => false
  end.

Definition is_owner (o : ownership) (a : string) : bool :=
  match owner o with Some x => String.eqb a x | None => false end.

Definition assert_owner (o : ownership) (sender : string) : res unit :=
  match owner o with
  | None => Err "NoOwner"
  | Some x => ensure (String.eqb sender x) "NotOwner"
  end.

Definition init_ownership (addr_valid : string -> bool) (o : string) : res ownership :=
  let* _ := ensure (addr_valid o) "invalid address" in
  Ok {| owner := Some o; pending_owner := None; pending_expiry := None |}.

Definition update_ownership (addr_valid : string -> bool) (b : block) (sender : string)
           (a : own_action) (o : ownership) : res ownership :=
  match a with
  | Transfer n e =>
      let* _ := assert_owner o sender in
      let* _ := ensure (addr_valid n) "invalid address" in
      Ok {| owner := owner o; pending_owner := Some n; pending_expiry := e |}
  | Accept =>
      match pending_owner o with
      | None => Err "TransferNotFound"
      | Some p =>
          let* _ := ensure (String.eqb sender p) "NotPendingOwner" in
          let* _ := ensure (match pending_expiry o with
                            | Some e => negb (is_expired e b)
                            | None => true end) "TransferExpired" in
          Ok {| owner := Some p; pending_owner := None; pending_expiry := None |}
      end
  | Renounce =>
      let* _ := assert_owner o sender in
      Ok {| owner := None; pending_owner := None; pending_expiry := None |}
  end.

(* observation *)
Definition v_expiration (e : expiration) : val :=
  match e with
  | AtHeight h => VL [VZ 0; VZ h]
  | AtTime t => VL [VZ 1; VZ t]
  | Never => VL [VZ 2]
  end.
Definition v_ownership (o : ownership) : val :=
  VL [vopt VS (owner o); vopt VS (pending_owner o); vopt v_expiration (pending_expiry o)].
