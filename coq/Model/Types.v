(* Types.v — states of the four contracts, messages, bank, and the world (chain state). *)
From MD.Model Require Import Base Ownable Epoch PoolMath.
From Coq Require Import DecimalString.

(* ---------- strings ---------- *)
Definition string_of_Z (z : Z) : string := NilZero.string_of_uint (N.to_uint (Z.to_N z)).

Definition is_alnum (c : Ascii.ascii) : bool :=
  let n := Z.of_N (Ascii.N_of_ascii c) in
  ((48 <=? n) && (n <=? 57)) || ((65 <=? n) && (n <=? 90)) || ((97 <=? n) && (n <=? 122)).
Definition ascii_is (c : Ascii.ascii) (n : Z) : bool := Z.of_N (Ascii.N_of_ascii c) =? n.

Fixpoint string_forall (p : Ascii.ascii -> bool) (s : string) : bool :=
  match s with EmptyString => true | String c r => p c && string_forall p r end.
Definition slen (s : string) : Z := Z.of_nat (String.length s).

(* split at the first '/' : (before, Some after) or (s, None) *)
Fixpoint split_slash (s : string) : string * option string :=
  match s with
  | EmptyString => (EmptyString, None)
  | String c r =>
      if ascii_is c 47 then (EmptyString, Some r)
      else let (a, b) := split_slash r in (String c a, b)
  end.

Definition subdenom_char (c : Ascii.ascii) : bool := is_alnum c || ascii_is c 47 || ascii_is c 46.

(* mantra_dex_std::coin::is_factory_token; returns the creator when it is one *)
Definition factory_token_creator (d : string) : option string :=
  match split_slash d with
  | (p0, Some r1) =>
      match split_slash r1 with
      | (creator, Some sub) =>
          if String.eqb p0 "factory" && string_forall subdenom_char sub && (slen sub <=? 44)
             && (7 + 2 + slen creator + slen sub <=? 128)
          then Some creator else None
      | _ => None
      end
  | _ => None
  end.
Definition is_factory_token (d : string) : bool :=
  match factory_token_creator d with Some _ => true | None => false end.

(* ---------- bank (cw-multi-test BankKeeper) ---------- *)
Definition bkey : Type := (string * string)%type.     (* address, denom *)
Definition bkey_eqb (a b : bkey) : bool := String.eqb (fst a) (fst b) && String.eqb (snd a) (snd b).

Record bank := { b_bal : list (bkey * Z); b_supply : list (string * Z) }.

Fixpoint bal_get (l : list (bkey * Z)) (k : bkey) : Z :=
  match l with [] => 0 | (k', v) :: r => if bkey_eqb k k' then v else bal_get r k end.
Fixpoint bal_set (l : list (bkey * Z)) (k : bkey) (v : Z) : list (bkey * Z) :=
  match l with
  | [] => [(k, v)]
  | (k', v') :: r => if bkey_eqb k k' then (k', v) :: r else (k', v') :: bal_set r k v
  end.
Fixpoint sup_get (l : list (string * Z)) (d : string) : Z :=
  match l with [] => 0 | (d', v) :: r => if String.eqb d d' then v else sup_get r d end.
Fixpoint sup_set (l : list (string * Z)) (d : string) (v : Z) : list (string * Z) :=
  match l with
  | [] => [(d, v)]
  | (d', v') :: r => if String.eqb d d' then (d', v) :: r else (d', v') :: sup_set r d v
  end.

Definition bal (b : bank) (a d : string) : Z := bal_get (b_bal b) (a, d).
Definition supply (b : bank) (d : string) : Z := sup_get (b_supply b) d.

(* normalize_amount: zero coins are dropped; nothing left is an error *)
Definition bank_normalize (cs : list coin) : res (list coin) :=
  (* amounts are Uint128 in the implementation: a negative amount cannot be constructed *)
  if negb (forallb (fun c => 0 <=? amount_of c) cs) then Err "ill-typed coin" else
  let r := filter (fun c => negb (amount_of c =? 0)) cs in
  match r with [] => Err "Cannot transfer empty coins amount" | _ => Ok r end.

Definition bal_sub (l : list (bkey * Z)) (a : string) (cs : list coin) : res (list (bkey * Z)) :=
  foldM (fun l c =>
           let cur := bal_get l (a, denom_of c) in
           if cur <? amount_of c then Err "insufficient funds"
           else Ok (bal_set l (a, denom_of c) (cur - amount_of c))) cs l.
Definition bal_add (l : list (bkey * Z)) (a : string) (cs : list coin) : res (list (bkey * Z)) :=
  foldM (fun l c =>
           let* v := cadd U128_MAX (bal_get l (a, denom_of c)) (amount_of c) in
           Ok (bal_set l (a, denom_of c) v)) cs l.

Definition bank_send (b : bank) (from to : string) (cs : list coin) : res bank :=
  let* n := bank_normalize cs in
  let* l1 := bal_sub (b_bal b) from n in
  let* l2 := bal_add l1 to n in
  Ok {| b_bal := l2; b_supply := b_supply b |}.

Definition bank_burn (b : bank) (from : string) (cs : list coin) : res bank :=
  let* n := bank_normalize cs in
  let* l1 := bal_sub (b_bal b) from n in
  Ok {| b_bal := l1;
        b_supply := fold_left (fun s c => sup_set s (denom_of c) (sup_get s (denom_of c) - amount_of c)) n (b_supply b) |}.

Definition bank_mint (b : bank) (to : string) (cs : list coin) : res bank :=
  let* n := bank_normalize cs in
  let* l1 := bal_add (b_bal b) to n in
  Ok {| b_bal := l1;
        b_supply := fold_left (fun s c => sup_set s (denom_of c) (sup_get s (denom_of c) + amount_of c)) n (b_supply b) |}.

(* ---------- pool manager ---------- *)
Record pm_config := { pm_fee_collector : string; pm_farm_manager : string; pm_creation_fee : coin }.

Record lp_data := {
  ld_swap_slip : option Z; ld_liq_slip : option Z; ld_pool : string;
  ld_unlock : option Z; ld_lock_id : option string }.

Record ss_buffer := {
  sb_receiver : string;
  sb_expected_offer : coin;
  sb_expected_ask : coin;
  sb_offer_half : coin;
  sb_expected_ask_asset : coin;
  sb_data : lp_data }.

Record pm_state := {
  pm_cfg : pm_config;
  pm_own : ownership;
  pm_pools : list pool_info;          (* ascending identifier *)
  pm_counter : Z;
  pm_buffer : option ss_buffer }.

Record swap_op := { so_in : string; so_out : string; so_pool : string }.
Record feature_toggle := { ft_pool : string; ft_withdrawals : option bool; ft_deposits : option bool; ft_swaps : option bool }.

Inductive pm_msg :=
| PmCreatePool (denoms : list string) (decimals : list Z) (fees : pool_fee) (pt : pool_type) (id : option string)
| PmProvide (liq_slip swap_slip : option Z) (receiver : option string) (pool : string)
            (unlock : option Z) (lock_id : option string)
| PmSwap (ask : string) (belief max_slip : option Z) (receiver : option string) (pool : string)
| PmWithdraw (pool : string)
| PmOwnership (a : own_action)
| PmRoute (ops : list swap_op) (min_receive : option Z) (receiver : option string) (max_slip : option Z)
| PmUpdateConfig (fc fm : option string) (fee : option coin) (toggle : option feature_toggle).

(* ---------- farm manager ---------- *)
Record fm_config := {
  fm_epoch_manager : string; fm_fee_collector : string; fm_pool_manager : string;
  fm_create_fee : coin; fm_max_farms : Z; fm_epoch_buffer : Z;
  fm_min_unlock : Z; fm_max_unlock : Z; fm_expiration : Z; fm_penalty : Z }.

Record position := {
  pos_id : string; pos_lp : coin; pos_dur : Z; pos_open : bool; pos_exp : option Z; pos_recv : string }.

Record farm := {
  f_id : string; f_owner : string; f_lp : string; f_asset : coin; f_claimed : Z; f_rate : Z;
  f_start : Z; f_end : Z }.

Record wkey := { wk_addr : string; wk_lp : string; wk_epoch : Z }.

Record fm_state := {
  fm_cfg : fm_config;
  fm_own : ownership;
  fm_positions : list position;       (* ascending identifier *)
  fm_pos_counter : Z;
  fm_farms : list farm;               (* ascending identifier *)
  fm_farm_counter : Z;
  fm_last_claimed : list (string * Z);
  fm_weights : list (wkey * Z) }.

Record farm_params := {
  fp_lp : string; fp_start : option Z; fp_end : option Z; fp_asset : coin; fp_id : option string }.

Record fm_cfg_update := {
  u_fee_collector : option string; u_epoch_manager : option string; u_pool_manager : option string;
  u_create_fee : option coin; u_max_farms : option Z; u_epoch_buffer : option Z;
  u_min_unlock : option Z; u_max_unlock : option Z; u_expiration : option Z; u_penalty : option Z }.

Inductive fm_msg :=
| FmCreateFarm (p : farm_params)
| FmExpandFarm (p : farm_params)
| FmCloseFarm (id : string)
| FmOwnership (a : own_action)
| FmClaim (until : option Z)
| FmPosCreate (id : option string) (dur : Z) (receiver : option string)
| FmPosExpand (id : string)
| FmPosClose (id : string) (lp : option coin)
| FmPosWithdraw (id : string) (emergency : option bool)
| FmUpdateConfig (u : fm_cfg_update).

(* ---------- messages between contracts / to the chain ---------- *)
Inductive wmsg :=
| WEm (m : em_msg)
| WFc (a : own_action)
| WPm (m : pm_msg)
| WFm (m : fm_msg).

Inductive cmsg :=
| MBankSend (to : string) (amount : list coin)
| MBankBurn (amount : list coin)
| MTfCreateDenom (subdenom : string)
| MTfMint (c : coin) (to : string)
| MTfBurn (c : coin)
| MWasm (target : string) (m : wmsg) (funds : list coin).

Inductive reply_on := RNever | RSuccess | RError | RAlways.
Record submsg := { sm_msg : cmsg; sm_id : Z; sm_reply : reply_on }.
Definition plain (m : cmsg) : submsg := {| sm_msg := m; sm_id := 0; sm_reply := RNever |}.

(* ---------- the chain ---------- *)
Definition EM : string := "EM".
Definition FC : string := "FC".
Definition PM : string := "PM".
Definition FM : string := "FM".

Record world := {
  w_block : block;
  w_bank : bank;
  w_tf_fee : list coin;               (* token-factory denom creation fee (chain parameter) *)
  w_valid : list string;              (* addresses the chain's api accepts (besides the contracts) *)
  w_em : em_state;
  w_fc : ownership;
  w_pm : pm_state;
  w_fm : fm_state;
  w_fault : option Z }.               (* Some k: the k-th bank/token-factory/wasm call of this tx fails *)

Definition addr_valid (w : world) (a : string) : bool :=
  existsb (String.eqb a) (EM :: FC :: PM :: FM :: w_valid w).

(* validate_addr_or_default *)
Definition addr_or_default (w : world) (o : option string) (d : string) : string :=
  match o with
  | None => d
  | Some a => if addr_valid w a then a else d
  end.

Definition set_bank (w : world) (b : bank) : world :=
  {| w_block := w_block w; w_bank := b; w_tf_fee := w_tf_fee w; w_valid := w_valid w; w_em := w_em w;
     w_fc := w_fc w; w_pm := w_pm w; w_fm := w_fm w; w_fault := w_fault w |}.
Definition set_em (w : world) (s : em_state) : world :=
  {| w_block := w_block w; w_bank := w_bank w; w_tf_fee := w_tf_fee w; w_valid := w_valid w; w_em := s;
     w_fc := w_fc w; w_pm := w_pm w; w_fm := w_fm w; w_fault := w_fault w |}.
Definition set_fc (w : world) (s : ownership) : world :=
  {| w_block := w_block w; w_bank := w_bank w; w_tf_fee := w_tf_fee w; w_valid := w_valid w; w_em := w_em w;
     w_fc := s; w_pm := w_pm w; w_fm := w_fm w; w_fault := w_fault w |}.
Definition set_pm (w : world) (s : pm_state) : world :=
  {| w_block := w_block w; w_bank := w_bank w; w_tf_fee := w_tf_fee w; w_valid := w_valid w; w_em := w_em w;
     w_fc := w_fc w; w_pm := s; w_fm := w_fm w; w_fault := w_fault w |}.
Definition set_fm (w : world) (s : fm_state) : world :=
  {| w_block := w_block w; w_bank := w_bank w; w_tf_fee := w_tf_fee w; w_valid := w_valid w; w_em := w_em w;
     w_fc := w_fc w; w_pm := w_pm w; w_fm := s; w_fault := w_fault w |}.
Definition set_block (w : world) (b : block) : world :=
  {| w_block := b; w_bank := w_bank w; w_tf_fee := w_tf_fee w; w_valid := w_valid w; w_em := w_em w;
     w_fc := w_fc w; w_pm := w_pm w; w_fm := w_fm w; w_fault := w_fault w |}.
Definition set_fault (w : world) (f : option Z) : world :=
  {| w_block := w_block w; w_bank := w_bank w; w_tf_fee := w_tf_fee w; w_valid := w_valid w; w_em := w_em w;
     w_fc := w_fc w; w_pm := w_pm w; w_fm := w_fm w; w_fault := f |}.

(* cw_utils payment helpers *)
Definition one_coin (funds : list coin) : res coin :=
  match funds with
  | [] => Err "NoFunds"
  | [c] => if amount_of c =? 0 then Err "NoFunds" else Ok c
  | _ => Err "MultipleDenoms"
  end.
Definition must_pay (funds : list coin) (d : string) : res Z :=
  let* c := one_coin funds in
  if String.eqb (denom_of c) d then Ok (amount_of c) else Err "MissingDenom".
Definition nonpayable (funds : list coin) : res unit :=
  match funds with [] => Ok tt | _ => Err "NonPayable" end.

(* sorted association lists keyed by identifier (cw-storage-plus iteration order = byte order) *)
Section SortedById.
  Context {A : Type} (key : A -> string).
  Fixpoint sfind (k : string) (l : list A) : option A :=
    match l with [] => None | x :: r => if String.eqb k (key x) then Some x else sfind k r end.
  (* map update on an identifier-ordered list: replace the entry with the same key if there is one, otherwise
     insert before the first entry with a larger key (on a sorted list this is the usual sorted insertion) *)
  Fixpoint sreplace (v : A) (l : list A) : list A :=
    match l with
    | [] => []
    | x :: r => if String.eqb (key v) (key x) then v :: r else x :: sreplace v r
    end.
  Fixpoint sins_sorted (v : A) (l : list A) : list A :=
    match l with
    | [] => [v]
    | x :: r => if String.ltb (key v) (key x) then v :: x :: r else x :: sins_sorted v r
    end.
  Definition sinsert (v : A) (l : list A) : list A :=
    match sfind (key v) l with Some _ => sreplace v l | None => sins_sorted v l end.
  Fixpoint sremove (k : string) (l : list A) : list A :=
    match l with [] => [] | x :: r => if String.eqb k (key x) then r else x :: sremove k r end.
End SortedById.

(* a query to the epoch manager configured at [addr] *)
Definition q_current_epoch (w : world) (addr : string) : res epoch :=
  if String.eqb addr EM then query_current_epoch (em_cfg (w_em w)) (w_block w)
  else Err "query: no such contract".
Definition q_epoch (w : world) (addr : string) (id : Z) : res epoch :=
  if String.eqb addr EM then query_epoch (em_cfg (w_em w)) id
  else Err "query: no such contract".
