(* ChainProofs.v — facts about the chain interpreter (Chain.step / process): atomicity of transactions,
   execution of leaf messages, frame properties. *)
From MD.Model Require Import Base Ownable Epoch PoolMath Types PoolManager FarmManager Chain.
From MD.Proofs Require Import Tactics.

(* ---------- atomicity: a rejected operation changes nothing (only the one-shot fault marker is cleared) ---------- *)
Lemma step_rejected_unchanged w o :
  snd (step w o) = false -> fst (step w o) = set_fault w None \/ fst (step w o) = w.
Proof.
  destruct o as [b|sender target m funds|from to amount|k]; cbn [step].
  - discriminate.
  - destruct (run_tx w sender target m funds); cbn; [discriminate | auto].
  - destruct (bank_send (w_bank w) from to amount); cbn; [discriminate | auto].
  - discriminate.
Qed.

Lemma set_fault_None_id w : w_fault w = None -> set_fault w None = w.
Proof. destruct w; cbn; intros ->; reflexivity. Qed.

Lemma step_rejected_identity w o :
  w_fault w = None -> snd (step w o) = false -> fst (step w o) = w.
Proof.
  intros Hf H. destruct (step_rejected_unchanged w o H) as [E|E]; rewrite E; [apply set_fault_None_id; exact Hf | reflexivity].
Qed.

(* every state between transactions has no pending fault unless the script just set one *)
Lemma step_clears_fault w sender target m funds :
  w_fault (fst (step w (Tx sender target m funds))) = None.
Proof. cbn [step]. destruct (run_tx w sender target m funds); reflexivity. Qed.

(* ---------- typed dispatch ---------- *)
Lemma handle_ok_typed w t sd f m r :
  handle w t sd f m = Ok r -> handle_typed w t sd f m = Ok r /\ coins_ok f = true /\ wmsg_ok m = true.
Proof.
  unfold handle. destruct (coins_ok f && wmsg_ok m) eqn:E; [|discriminate].
  apply andb_true_iff in E. destruct E. auto.
Qed.

Lemma handle_err_of_typed w t sd f m :
  (exists e, handle_typed w t sd f m = Err e) -> exists e, handle w t sd f m = Err e.
Proof. intros [e He]. unfold handle. destruct (coins_ok f && wmsg_ok m); [rewrite He|]; eauto. Qed.

(* ---------- leaf messages only touch the bank (and the fault counter) ---------- *)
Definition same_contracts (w w' : world) : Prop :=
  w_block w' = w_block w /\ w_tf_fee w' = w_tf_fee w /\ w_valid w' = w_valid w /\ w_em w' = w_em w /\
  w_fc w' = w_fc w /\ w_pm w' = w_pm w /\ w_fm w' = w_fm w.

Lemma same_contracts_refl w : same_contracts w w.
Proof. repeat split. Qed.
Lemma same_contracts_trans a b c : same_contracts a b -> same_contracts b c -> same_contracts a c.
Proof. unfold same_contracts. intuition congruence. Qed.

Lemma bank_call_same w f w' fl : bank_call w f = (Ok w', fl) -> same_contracts w w'.
Proof.
  unfold bank_call, fault_tick. destruct (w_fault w) as [k|].
  - destruct (k =? 0); [discriminate|]. destruct (f _); intros H; inversion H; subst. repeat split.
  - destruct (f _); intros H; inversion H; subst. repeat split.
Qed.

Lemma bank_call_nofault w f :
  w_fault w = None ->
  bank_call w f = match f (w_bank w) with Ok b => (Ok (set_bank w b), None) | Err e => (Err e, None) end.
Proof. intros Hf. unfold bank_call, fault_tick. rewrite Hf. reflexivity. Qed.

Definition is_leaf (m : cmsg) : bool := match m with MWasm _ _ _ => false | _ => true end.
Definition plain_leaf (s : submsg) : bool :=
  is_leaf (sm_msg s) && match sm_reply s with RNever => true | _ => false end.

Lemma exec_leaf_same w c m w' fl : is_leaf m = true -> exec_leaf w c m = (Ok w', fl) -> same_contracts w w'.
Proof. destruct m; cbn; intros Hl H; try discriminate; eapply bank_call_same; eauto. Qed.

(* sequential execution of plain leaf messages *)
Fixpoint exec_leaves (w : world) (contract : string) (subs : list submsg) : outcome :=
  match subs with
  | [] => (Ok w, w_fault w)
  | s :: rest =>
      match exec_leaf w contract (sm_msg s) with
      | (Ok w', _) => exec_leaves w' contract rest
      | (Err e, fl) => (Err e, fl)
      end
  end.

(* one sub-message, and the unfolding equations of [process] *)
Definition exec_sub (f : nat) (w : world) (c : string) (s : submsg) : outcome :=
  match sm_msg s with
  | MWasm target wm funds =>
      match (match funds with
             | [] => (Ok w, w_fault w)
             | _ => bank_call w (fun b => bank_send b c target funds)
             end) with
      | (Err e, fl) => (Err e, fl)
      | (Ok w1, fl) =>
          match handle w1 target c funds wm with
          | Err e => (Err e, fl)
          | Ok (w2, subs2) => process f w2 target subs2
          end
      end
  | leaf => exec_leaf w c leaf
  end.

Lemma process_nil f w c : process (S f) w c [] = (Ok w, w_fault w).
Proof. reflexivity. Qed.

Lemma process_cons f w c s rest :
  process (S f) w c (s :: rest) =
  match exec_sub f w c s with
  | (Ok w', _) =>
      if wants_success (sm_reply s) then
        match handle_reply w' c (sm_id s) with
        | Err e => (Err e, w_fault w')
        | Ok (w'', rsubs) =>
            match process f w'' c rsubs with
            | (Ok w3, _) => process (S f) w3 c rest
            | (Err e, fl) => (Err e, fl)
            end
        end
      else process (S f) w' c rest
  | (Err e, fl) =>
      if wants_error (sm_reply s) then
        let wr := set_fault w fl in
        match handle_reply wr c (sm_id s) with
        | Err e' => (Err e', fl)
        | Ok (w'', rsubs) =>
            match process f w'' c rsubs with
            | (Ok w3, _) => process (S f) w3 c rest
            | (Err e', fl') => (Err e', fl')
            end
        end
      else (Err e, fl)
  end.
Proof. unfold exec_sub. cbn [process]. destruct (sm_msg s); reflexivity. Qed.

Lemma exec_sub_leaf f w c s : is_leaf (sm_msg s) = true -> exec_sub f w c s = exec_leaf w c (sm_msg s).
Proof. unfold exec_sub. destruct (sm_msg s); cbn; intros H; try discriminate; reflexivity. Qed.

Lemma process_leaves f w c subs :
  forallb plain_leaf subs = true -> process (S f) w c subs = exec_leaves w c subs.
Proof.
  revert w. induction subs as [|s rest IH]; intros w H; [reflexivity|].
  cbn [forallb] in H. apply andb_true_iff in H. destruct H as [Hs Hr].
  unfold plain_leaf in Hs. apply andb_true_iff in Hs. destruct Hs as [Hl Hrep].
  rewrite process_cons. rewrite exec_sub_leaf by exact Hl. cbn [exec_leaves].
  destruct (sm_reply s); try discriminate. cbn [wants_success wants_error].
  destruct (exec_leaf w c (sm_msg s)) as [[w'|e] fl]; [apply IH; exact Hr | reflexivity].
Qed.

Lemma exec_leaves_same subs : forall w c w' fl,
  forallb plain_leaf subs = true -> exec_leaves w c subs = (Ok w', fl) -> same_contracts w w'.
Proof.
  induction subs as [|s rest IH]; intros w c w' fl H E; cbn [exec_leaves] in E.
  - inversion E; subst. apply same_contracts_refl.
  - cbn [forallb] in H. apply andb_true_iff in H. destruct H as [Hs Hr].
    unfold plain_leaf in Hs. apply andb_true_iff in Hs. destruct Hs as [Hl _].
    destruct (exec_leaf w c (sm_msg s)) as [[w1|e] fl1] eqn:E1; [|discriminate].
    eapply same_contracts_trans; [eapply exec_leaf_same; eauto | eapply IH; eauto].
Qed.

(* ---------- a transaction whose handler answers with plain leaf messages only ---------- *)
Lemma run_tx_leaves w sender target m funds w1 w2 subs w' :
  (match funds with [] => (Ok w, w_fault w) | _ => bank_call w (fun b => bank_send b sender target funds) end) = (Ok w1, w_fault w1) ->
  handle w1 target sender funds m = Ok (w2, subs) ->
  forallb plain_leaf subs = true ->
  run_tx w sender target m funds = Ok w' ->
  exists fl, exec_leaves w2 target subs = (Ok w', fl) /\ same_contracts w2 w'.
Proof.
  intros Hf Hh Hl. unfold run_tx, FUEL. rewrite process_cons. unfold exec_sub.
  cbn [plain sm_msg sm_reply sm_id wants_success wants_error].
  rewrite Hf, Hh. rewrite process_leaves by exact Hl.
  destruct (exec_leaves w2 target subs) as [[w3|e] fl] eqn:E; [|cbn [fst]; discriminate].
  rewrite process_nil. cbn [fst]. intros H.
  inversion H; subst. exists fl. split; [reflexivity|]. eapply exec_leaves_same; eauto.
Qed.

(* ---------- invariants of contract state through arbitrary call trees ---------- *)
Lemma same_contracts_set_fault w fl : same_contracts w (set_fault w fl).
Proof. repeat split. Qed.
Lemma same_contracts_set_bank w b : same_contracts w (set_bank w b).
Proof. repeat split. Qed.

Section ProcessInv.
  Variable R : world -> world -> Prop.
  Hypothesis R_refl : forall w, R w w.
  Hypothesis R_trans : forall a b c, R a b -> R b c -> R a c.
  Hypothesis R_same : forall w w', same_contracts w w' -> R w w'.
  Hypothesis R_handle : forall w t s f m w2 subs, handle w t s f m = Ok (w2, subs) -> R w w2.
  Hypothesis R_reply : forall w c id w2 subs, handle_reply w c id = Ok (w2, subs) -> R w w2.

  Lemma process_R : forall f w c subs w' fl, process f w c subs = (Ok w', fl) -> R w w'.
  Proof.
    induction f as [|f IHf]; intros w c subs w' fl H; [cbn in H; discriminate|].
    revert w H. induction subs as [|s rest IHs]; intros w H.
    - rewrite process_nil in H. inversion H; subst. apply R_refl.
    - rewrite process_cons in H.
      destruct (exec_sub f w c s) as [[w1|e] fl1] eqn:E.
      + assert (R1 : R w w1).
        { unfold exec_sub in E. destruct (sm_msg s) as [to a|a|sd|cn to|cn|target wm funds] eqn:Em;
            try (apply R_same; eapply exec_leaf_same; [|exact E]; reflexivity).
          destruct (match funds with [] => (Ok w, w_fault w) | _ => bank_call w (fun b => bank_send b c target funds) end)
            as [[wa|ea] fla] eqn:Eb; [|discriminate].
          assert (Ra : R w wa).
          { destruct funds; [inversion Eb; subst; apply R_refl | apply R_same; eapply bank_call_same; eauto]. }
          destruct (handle wa target c funds wm) as [[w2 subs2]|eh] eqn:Eh; [|discriminate].
          eapply R_trans; [exact Ra|]. eapply R_trans; [eapply R_handle; eauto|]. eapply IHf; eauto. }
        destruct (wants_success (sm_reply s)).
        * destruct (handle_reply w1 c (sm_id s)) as [[w2 rsubs]|er] eqn:Er; [|discriminate].
          destruct (process f w2 c rsubs) as [[w3|e3] fl3] eqn:Ep; [|discriminate].
          eapply R_trans; [exact R1|]. eapply R_trans; [eapply R_reply; eauto|].
          eapply R_trans; [eapply IHf; eauto|]. apply IHs. exact H.
        * eapply R_trans; [exact R1|]. apply IHs. exact H.
      + destruct (wants_error (sm_reply s)); [|discriminate]. cbv zeta in H.
        destruct (handle_reply (set_fault w fl1) c (sm_id s)) as [[w2 rsubs]|er] eqn:Er; [|discriminate].
        destruct (process f w2 c rsubs) as [[w3|e3] fl3] eqn:Ep; [|discriminate].
        eapply R_trans; [apply R_same; apply same_contracts_set_fault|].
        eapply R_trans; [eapply R_reply; eauto|].
        eapply R_trans; [eapply IHf; eauto|]. apply IHs. exact H.
  Qed.

  Hypothesis R_block : forall w b, R w (set_block w b).

  Lemma step_R w o : R w (fst (step w o)).
  Proof.
    destruct o as [b|sender target m funds|from to amount|k]; cbn [step fst].
    - apply R_block.
    - destruct (run_tx w sender target m funds) as [w'|e] eqn:E; cbn [fst].
      + eapply R_trans; [|apply R_same; apply same_contracts_set_fault].
        unfold run_tx in E. destruct (process FUEL w sender [plain (MWasm target m funds)]) as [[w1|e1] fl] eqn:Ep;
          cbn [fst] in E; [|discriminate]. inversion E; subst. eapply process_R; eauto.
      + apply R_same. apply same_contracts_set_fault.
    - destruct (bank_send (w_bank w) from to amount); cbn [fst]; [apply R_same; apply same_contracts_set_bank | apply R_refl].
    - apply R_same. apply same_contracts_set_fault.
  Qed.

  Lemma run_R ops : forall w, R w (run w ops).
  Proof.
    induction ops as [|o r IH]; intros w; cbn [run fold_left]; [apply R_refl|].
    eapply R_trans; [apply step_R|]. apply IH.
  Qed.
End ProcessInv.

(* an accepted transaction has run its top-level handler successfully, on the world after the funds transfer *)
Lemma run_tx_ok_handle w sender target m funds w' :
  run_tx w sender target m funds = Ok w' ->
  exists w1 w2 subs, same_contracts w w1 /\ handle w1 target sender funds m = Ok (w2, subs).
Proof.
  unfold run_tx, FUEL. rewrite process_cons. unfold exec_sub. cbn [plain sm_msg sm_reply sm_id wants_success wants_error].
  destruct (match funds with [] => (Ok w, w_fault w) | _ => bank_call w (fun b => bank_send b sender target funds) end)
    as [[w1|e1] fl] eqn:Eb; cbn [fst]; [|discriminate].
  assert (Hs : same_contracts w w1).
  { destruct funds; [inversion Eb; subst; apply same_contracts_refl | eapply bank_call_same; eauto]. }
  destruct (handle w1 target sender funds m) as [[w2 subs]|e] eqn:Eh; cbn [fst]; [|discriminate].
  intros _. eauto.
Qed.

Lemma step_tx_ok_handle w sender target m funds :
  snd (step w (Tx sender target m funds)) = true ->
  exists w1 w2 subs, same_contracts w w1 /\ handle w1 target sender funds m = Ok (w2, subs).
Proof.
  cbn [step]. destruct (run_tx w sender target m funds) eqn:E; cbn [snd]; [|discriminate].
  intros _. eapply run_tx_ok_handle; eauto.
Qed.
