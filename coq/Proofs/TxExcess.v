(* TxExcess.v — C01, the excess clause, transaction by transaction: what the pool manager holds beyond the reported
   reserves changes by EXACTLY these amounts through each kind of pool operation (no rounding dust, no stray tokens):
   nothing for swaps, routes, withdrawals and pool creations (unless the trader names the pool manager itself as the
   receiver, or the owner made it its own fee collector); the minimum liquidity for a pool's first deposit;
   a plain bank send to the contract adds what was sent. *)
From MD.Model Require Import Base Ownable Epoch PoolMath Types PoolManager FarmManager Chain.
From MD.Proofs Require Import Tactics Arith PoolMathProofs MapLemmas BankProofs SwapProofs ChainProofs PmProofs LiquidityProofs
  AtomicProofs PoolCustody PoolCustodyChain SingleSided TxBalances.

(* the contract states after a transaction whose handler answers with bank messages only are those the handler left *)
Lemma leaf_tx_state w sender target m funds w' :
  run_tx w sender target m funds = Ok w' ->
  exists wa w2 msgs,
    same_contracts w wa /\ handle wa target sender funds m = Ok (w2, msgs) /\
    (forallb plain_leaf msgs = true -> same_contracts w2 w').
Proof.
  intros H. unfold run_tx in H.
  destruct (process FUEL w sender [plain (MWasm target m funds)]) as [[wx|ex] flx] eqn:Ep; cbn [fst] in H; [|discriminate].
  inversion H; subst wx; clear H. unfold FUEL in Ep.
  destruct (plain_call _ _ _ _ _ _ _ _ Ep) as (wa & fla & w2 & subs2 & fl2 & Eb & Eh & E2).
  exists wa, w2, subs2. split.
  { destruct funds; [inversion Eb; subst; apply same_contracts_refl | eapply bank_call_same; eauto]. }
  split; [exact Eh|]. intros Hleaf. rewrite (process_leaves 6 _ target subs2 Hleaf) in E2. eapply exec_leaves_same; eauto.
Qed.

Theorem swap_tx_excess w sender funds ask bp ms r pid w' :
  sender <> PM ->
  run_tx w sender PM (WPm (PmSwap ask bp ms r pid)) funds = Ok w' ->
  exists offer sc,
    one_coin funds = Ok offer /\ query_simulation (w_pm w) offer ask pid = Ok sc /\
    forall d, slackP w' d = slackP w d
                + ind (String.eqb PM (addr_or_default w r sender)) (ind (String.eqb ask d) (sc_return sc))
                + ind (String.eqb PM (pm_fee_collector (pm_cfg (w_pm w)))) (ind (String.eqb ask d) (sc_protocol_fee sc)).
Proof.
  intros Hs H. destruct (swap_tx_balances _ _ _ _ _ _ _ _ _ H) as (offer & sc & Hone & Hsim & Hbal).
  exists offer, sc. split; [exact Hone|]. split; [exact Hsim|].
  destruct (leaf_tx_state _ _ _ _ _ _ H) as (wa & w2 & msgs & Hsa & Eh & Hst).
  apply handle_ok_typed in Eh. destruct Eh as (Eh & _ & _).
  unfold handle_typed in Eh. cbn [String.eqb EM FC PM FM Ascii.eqb Bool.eqb] in Eh.
  apply bind_ok in Eh. destruct Eh as [[s1 msgs1] [Hx Eh]]. inversion Eh; subst w2 msgs; clear Eh. cbn [pm_execute] in Hx.
  apply swap_spec in Hx. destruct Hx as (p & offer' & sc' & _ & _ & Hone' & _ & Hps & Hmsgs).
  destruct Hsa as (_ & _ & _ & _ & _ & Hpma & _).
  assert (offer' = offer) by congruence. subst offer'.
  assert (sc' = sc) by (symmetry; eapply simulation_eq_perform_swap; [exact Hps | rewrite Hpma; exact Hsim]). subst sc'.
  assert (Hleaf : forallb plain_leaf msgs1 = true).
  { subst msgs1. rewrite forallb_app. unfold swap_fee_msgs. rewrite forallb_app.
    destruct (sc_return sc =? 0), (sc_burn_fee sc =? 0), (sc_protocol_fee sc =? 0); reflexivity. }
  destruct (Hst Hleaf) as (_ & _ & _ & _ & _ & Hpm' & _). cbn [w_pm set_pm] in Hpm'.
  intros d. unfold slackP. rewrite Hpm'. rewrite (Hbal PM d).
  destruct (perform_swap_res _ _ _ _ _ _ _ _ d Hps) as (Hr & _). rewrite Hr, Hpma.
  rewrite (one_coin_camt' _ _ d Hone).
  assert (Hsp : String.eqb PM sender = false) by (apply String.eqb_neq; congruence).
  rewrite Hsp, String.eqb_refl. unfold ind.
  destruct (String.eqb (denom_of offer) d), (String.eqb ask d), (String.eqb PM (addr_or_default w r sender)),
    (String.eqb PM (pm_fee_collector (pm_cfg (w_pm w)))); lia.
Qed.

Lemma withdraw_res_exact w sender funds pid s' msgs :
  withdraw_liquidity w sender funds pid = Ok (s', msgs) ->
  exists p amount refunds,
    pool_find (w_pm w) pid = Ok p /\ must_pay funds (p_lp p) = Ok amount /\
    msgs = [plain (MBankSend sender refunds); plain (MTfBurn (p_lp p, amount))] /\
    forall d, res s' d = res (w_pm w) d - camt refunds d.
Proof.
  intros H. unfold withdraw_liquidity in H.
  apply bind_ok in H. destruct H as [p [Hp H]].
  apply bind_ok in H. destruct H as [[] [_ H]].
  apply bind_ok in H. destruct H as [amount [Ham H]].
  apply bind_ok in H. destruct H as [total [_ H]].
  apply bind_ok in H. destruct H as [ratio [_ H]].
  apply bind_ok in H. destruct H as [[] [_ H]].
  apply bind_ok in H. destruct H as [refunds_all [_ H]].
  apply bind_ok in H. destruct H as [assets' [Hsub H]].
  apply bind_ok in H. destruct H as [bm [Hbm H]]. inversion H; subst s' msgs; clear H.
  unfold burn_lp_msg in Hbm. apply bind_ok in Hbm. destruct Hbm as [[] [_ Hbm]]. inversion Hbm; subst bm.
  exists p, amount, (filter (fun c => 0 <? amount_of c) refunds_all).
  split; [exact Hp|]. split; [exact Ham|]. split; [reflexivity|].
  intros d. rewrite (res_save_pool _ _ _ d (pool_find_id _ _ _ Hp)), (sub_refunds_camt _ _ _ d Hsub). lia.
Qed.

(* one decomposition giving balances and contract states together *)
Lemma leaf_tx_full w sender target m funds w' :
  run_tx w sender target m funds = Ok w' ->
  exists wa w2 msgs,
    same_contracts w wa /\ (forall dn, supply (w_bank wa) dn = supply (w_bank w) dn) /\
    handle wa target sender funds m = Ok (w2, msgs) /\
    (forallb plain_leaf msgs = true ->
     same_contracts w2 w' /\
     forall a d, bal (w_bank w') a d = bal (w_bank w) a d
                   - ind (String.eqb a sender) (camt funds d) + ind (String.eqb a target) (camt funds d)
                   + leaves_eff target (w_tf_fee w) msgs a d).
Proof.
  intros H. unfold run_tx in H.
  destruct (process FUEL w sender [plain (MWasm target m funds)]) as [[wx|ex] flx] eqn:Ep; cbn [fst] in H; [|discriminate].
  inversion H; subst wx; clear H. unfold FUEL in Ep.
  destruct (plain_call _ _ _ _ _ _ _ _ Ep) as (wa & fla & w2 & subs2 & fl2 & Eb & Eh & E2).
  assert (Htr : same_contracts w wa /\ (forall dn, supply (w_bank wa) dn = supply (w_bank w) dn) /\
                forall a d, bal (w_bank wa) a d = bal (w_bank w) a d - ind (String.eqb a sender) (camt funds d) + ind (String.eqb a target) (camt funds d)).
  { destruct funds as [|f0 fr].
    - inversion Eb; subst. split; [apply same_contracts_refl|]. split; [reflexivity|]. intros a d. cbn [camt]. unfold ind. destruct (String.eqb a sender), (String.eqb a target); lia.
    - split; [eapply bank_call_same; exact Eb|].
      unfold bank_call, fault_tick in Eb. destruct (w_fault w) as [k|];
        try (destruct (k =? 0); [discriminate|]); cbn [w_bank set_fault] in Eb;
        (destruct (bank_send (w_bank w) sender target (f0 :: fr)) as [b'|e] eqn:Ebs; [|discriminate]);
        inversion Eb; subst; cbn [w_bank set_bank set_fault];
        (split; [intros dn; eapply bank_send_supply; exact Ebs|]); intros a d;
        apply bank_send_spec in Ebs; destruct Ebs as [_ Hb]; rewrite Hb; reflexivity. }
  destruct Htr as [Hsa [Hsup Hbala]].
  exists wa, w2, subs2. split; [exact Hsa|]. split; [exact Hsup|]. split; [exact Eh|].
  intros Hleaf. rewrite (process_leaves 6 _ target subs2 Hleaf) in E2.
  split; [eapply exec_leaves_same; eauto|].
  intros a d. rewrite (exec_leaves_bal subs2 _ _ _ _ a d Hleaf E2).
  assert (Hh : w_bank w2 = w_bank wa /\ w_tf_fee w2 = w_tf_fee wa).
  { apply handle_ok_typed in Eh. destruct Eh as (Eh & _ & _). unfold handle_typed in Eh.
    destruct (String.eqb target EM); [destruct m; inv_all; split; reflexivity|].
    destruct (String.eqb target FC); [destruct m; inv_all; split; reflexivity|].
    destruct (String.eqb target PM); [destruct m; inv_all; split; reflexivity|].
    destruct (String.eqb target FM); [destruct m; inv_all; split; reflexivity | discriminate]. }
  destruct Hh as [Hb2 Ht2]. rewrite Hb2, Ht2, Hbala. destruct Hsa as (_ & Htfa & _). rewrite Htfa. reflexivity.
Qed.

(* a withdrawal leaves no residue: the excess is exactly what it was *)
Theorem withdraw_tx_excess w sender funds pid w' :
  sender <> PM ->
  run_tx w sender PM (WPm (PmWithdraw pid)) funds = Ok w' ->
  forall d, slackP w' d = slackP w d.
Proof.
  intros Hs H.
  destruct (leaf_tx_full _ _ _ _ _ _ H) as (wa & w2 & msgs & Hsa & Hsup & Eh & Hfull).
  apply handle_ok_typed in Eh. destruct Eh as (Eh & _ & _).
  unfold handle_typed in Eh. cbn [String.eqb EM FC PM FM Ascii.eqb Bool.eqb] in Eh.
  apply bind_ok in Eh. destruct Eh as [[s1 msgs1] [Hx Eh]]. inversion Eh; subst w2 msgs; clear Eh. cbn [pm_execute] in Hx.
  destruct (withdraw_res_exact _ _ _ _ _ _ Hx) as (p & amount & refunds & Hp & Hpay & Hm & Hres).
  destruct Hsa as (_ & _ & _ & _ & _ & Hpma & _).
  subst msgs1. destruct (Hfull eq_refl) as [(_ & _ & _ & _ & _ & Hpm' & _) Hbal]. cbn [w_pm set_pm] in Hpm'.
  intros d. unfold slackP. rewrite Hpm', Hres, Hpma, (Hbal PM d).
  cbn [leaves_eff leaf_eff plain sm_msg camt denom_of amount_of fst snd].
  assert (Hsp : String.eqb PM sender = false) by (apply String.eqb_neq; congruence).
  rewrite Hsp, String.eqb_refl, (must_pay_camt _ _ _ d Hpay). unfold ind. destruct (String.eqb (p_lp p) d); lia.
Qed.

(* a deposit of two or more assets without locking: the reserves grow by exactly the attached coins; the only messages are
   the LP mint to the receiver and, on a pool's first deposit, the minimum-liquidity mint to the pool manager itself *)
Lemma provide_plain_exact w sender funds ls ss r pid l s' msgs d0 d1 rest :
  aggregate_coins funds = Ok (d0 :: d1 :: rest) ->
  provide_liquidity w sender funds ls ss r pid None l = Ok (s', msgs) ->
  exists p shares first,
    pool_find (w_pm w) pid = Ok p /\
    (first = [] \/ exists ml, 0 <= ml /\ first = [plain (MTfMint (p_lp p, ml) PM)]) /\
    msgs = (first ++ [plain (MTfMint (p_lp p, shares) (addr_or_default w r sender))])%list /\
    forall d, res s' d = res (w_pm w) d + camt funds d.
Proof.
  intros Hagg H. unfold provide_liquidity, mint_lp_msg in H.
  apply bind_ok in H. destruct H as [p [Hp H]].
  apply bind_ok in H. destruct H as [[] [_ H]].
  rewrite Hagg in H. cbn [bind] in H.
  apply bind_ok in H. destruct H as [[] [_ H]].
  apply bind_ok in H. destruct H as [[] [_ H]].
  apply bind_ok in H. destruct H as [ts [_ H]].
  apply bind_ok in H. destruct H as [[shares msgs0] [Hm0 H]].
  apply bind_ok in H. destruct H as [pa' [Hpa H]].
  apply bind_ok in H. destruct H as [msgs1 [Hm1 H]].
  apply bind_ok in H. destruct H as [assets'' [Hadd H]]. inversion H; subst s' msgs; clear H.
  exists p, shares, msgs0. split; [exact Hp|].
  split.
  { destruct (p_type p) as [|amp].
    - destruct (ts =? 0).
      + right. inv_all. exists MINIMUM_LIQUIDITY_AMOUNT. split; [unfold MINIMUM_LIQUIDITY_AMOUNT; lia | reflexivity].
      + left. inv_all. reflexivity.
    - apply bind_ok in Hm0. destruct Hm0 as [ms [Hms Hm0]].
      apply bind_ok in Hm0. destruct Hm0 as [na [_ Hm0]].
      apply bind_ok in Hm0. destruct Hm0 as [sh [_ Hm0]]. inversion Hm0; subst.
      destruct (ts =? 0); [|inversion Hms; left; reflexivity].
      apply bind_ok in Hms. destruct Hms as [[] [_ Hms]].
      apply bind_ok in Hms. destruct Hms as [[] [_ Hms]].
      apply bind_ok in Hms. destruct Hms as [ml [Hml Hms]].
      apply bind_ok in Hms. destruct Hms as [m [Hmint Hms]].
      apply bind_ok in Hmint. destruct Hmint as [[] [_ Hmint]]. inversion Hmint; subst m. inversion Hms; subst.
      right. exists ml. split; [|reflexivity].
      unfold min_liquidity_stableswap in Hml. apply normalize_amount_nonneg in Hml; [exact Hml | unfold MINIMUM_LIQUIDITY_AMOUNT; lia]. }
  split.
  { f_equal. apply bind_ok in Hm1. destruct Hm1 as [[] [_ Hm1]].
    apply bind_ok in Hm1. destruct Hm1 as [m [Hmint Hm1]].
    apply bind_ok in Hmint. destruct Hmint as [[] [_ Hmint]]. inversion Hmint; subst m. inversion Hm1; reflexivity. }
  intros d. rewrite (res_save_pool _ _ _ d (pool_find_id _ _ _ Hp)).
  fold (add_deposits (d0 :: d1 :: rest) pa') in Hadd.
  rewrite (add_deposits_camt _ _ _ d Hadd), (slippage_tolerance_camt _ _ _ _ _ d Hpa), (aggregate_camt _ _ d Hagg). lia.
Qed.

(* an unlocked deposit of two or more assets: the excess grows by exactly the LP minted to the pool manager itself — the
   minimum liquidity of a first deposit (and the depositor's own LP if he names the pool manager as the receiver) *)
Theorem provide_tx_excess w sender funds ls ss r pid l w' d0 d1 rest :
  sender <> PM -> aggregate_coins funds = Ok (d0 :: d1 :: rest) ->
  run_tx w sender PM (WPm (PmProvide ls ss r pid None l)) funds = Ok w' ->
  exists p shares minliq,
    pool_find (w_pm w) pid = Ok p /\ 0 <= minliq /\
    forall d, slackP w' d = slackP w d
                + ind (String.eqb (p_lp p) d) minliq
                + ind (String.eqb PM (addr_or_default w r sender)) (ind (String.eqb (p_lp p) d) shares).
Proof.
  intros Hs Hagg H.
  destruct (leaf_tx_full _ _ _ _ _ _ H) as (wa & w2 & msgs & Hsa & Hsup & Eh & Hfull).
  apply handle_ok_typed in Eh. destruct Eh as (Eh & _ & _).
  unfold handle_typed in Eh. cbn [String.eqb EM FC PM FM Ascii.eqb Bool.eqb] in Eh.
  apply bind_ok in Eh. destruct Eh as [[s1 msgs1] [Hx Eh]]. inversion Eh; subst w2 msgs; clear Eh. cbn [pm_execute] in Hx.
  destruct (provide_plain_exact _ _ _ _ _ _ _ _ _ _ _ _ _ Hagg Hx) as (p & shares & first & Hp & Hfirst & Hm & Hres).
  destruct Hsa as (_ & _ & Hval & _ & _ & Hpma & _).
  assert (Hr : addr_or_default wa r sender = addr_or_default w r sender) by (unfold addr_or_default, addr_valid; rewrite Hval; reflexivity).
  rewrite Hr in Hm.
  assert (Hsp : String.eqb PM sender = false) by (apply String.eqb_neq; congruence).
  destruct Hfirst as [->|(ml & Hml & ->)]; subst msgs1.
  - exists p, shares, 0. rewrite <- Hpma. split; [exact Hp|]. split; [lia|].
    destruct (Hfull eq_refl) as [(_ & _ & _ & _ & _ & Hpm' & _) Hbal]. cbn [w_pm set_pm] in Hpm'.
    intros d. unfold slackP. rewrite Hpm', Hres, Hpma, (Hbal PM d).
    cbn [app leaves_eff leaf_eff plain sm_msg camt denom_of amount_of fst snd].
    rewrite Hsp, String.eqb_refl. unfold ind. destruct (String.eqb PM (addr_or_default w r sender)), (String.eqb (p_lp p) d); lia.
  - exists p, shares, ml. rewrite <- Hpma. split; [exact Hp|]. split; [exact Hml|].
    destruct (Hfull eq_refl) as [(_ & _ & _ & _ & _ & Hpm' & _) Hbal]. cbn [w_pm set_pm] in Hpm'.
    intros d. unfold slackP. rewrite Hpm', Hres, Hpma, (Hbal PM d).
    cbn [app leaves_eff leaf_eff plain sm_msg camt denom_of amount_of fst snd].
    rewrite Hsp, String.eqb_refl. unfold ind. destruct (String.eqb PM (addr_or_default w r sender)), (String.eqb (p_lp p) d); lia.
Qed.

(* tokens sent to the contract outside pool operations add exactly what was sent *)
Theorem donation_excess w from amount b' :
  from <> PM -> bank_send (w_bank w) from PM amount = Ok b' ->
  forall d, slackP (set_bank w b') d = slackP w d + camt amount d.
Proof.
  intros Hf H d. unfold slackP. cbn [w_bank w_pm set_bank]. apply bank_send_spec in H. destruct H as [_ Hb]. rewrite Hb.
  assert (Hp : String.eqb PM from = false) by (apply String.eqb_neq; congruence). rewrite Hp, String.eqb_refl. unfold ind. lia.
Qed.

(* ---------- the single-asset deposit: the odd unit ---------- *)
Lemma self_send_bal w cs wa fla a d :
  bank_call w (fun b => bank_send b PM PM cs) = (Ok wa, fla) -> bal (w_bank wa) a d = bal (w_bank w) a d.
Proof.
  intros Eb. unfold bank_call, fault_tick in Eb. destruct (w_fault w) as [k|];
    try (destruct (k =? 0); [discriminate|]); cbn [w_bank set_fault] in Eb;
    (destruct (bank_send (w_bank w) PM PM cs) as [b'|e] eqn:Ebs; [|discriminate]);
    inversion Eb; subst; cbn [w_bank set_bank set_fault]; apply bank_send_spec in Ebs; destruct Ebs as [_ Hb]; rewrite Hb; lia.
Qed.

Lemma handle_pm_bank w sender funds pm w2 msgs :
  handle w PM sender funds (WPm pm) = Ok (w2, msgs) ->
  exists s', pm_execute w sender funds pm = Ok (s', msgs) /\ w2 = set_pm w s'.
Proof.
  intros Eh. apply handle_ok_typed in Eh. destruct Eh as (Eh & _ & _).
  unfold handle_typed in Eh. cbn [String.eqb EM FC PM FM Ascii.eqb Bool.eqb] in Eh.
  apply bind_ok in Eh. destruct Eh as [[s1 msgs1] [Hx Eh]]. inversion Eh; subst. eauto.
Qed.

Theorem single_asset_tx_excess w sender funds ls ss r pid l deposit w' :
  sender <> PM -> aggregate_coins funds = Ok [deposit] ->
  run_tx w sender PM (WPm (PmProvide ls ss r pid None l)) funds = Ok w' ->
  exists p askc sim shares minliq,
    pool_find (w_pm w) pid = Ok p /\
    query_simulation (w_pm w) (denom_of deposit, amount_of deposit / 2) (denom_of askc) pid = Ok sim /\ 0 <= minliq /\
    forall d, slackP w' d = slackP w d
                + ind (String.eqb (denom_of deposit) d) (amount_of deposit mod 2)                      (* the odd unit *)
                + ind (String.eqb PM (pm_fee_collector (pm_cfg (w_pm w)))) (ind (String.eqb (denom_of askc) d) (sc_protocol_fee sim))
                + ind (String.eqb (p_lp p) d) minliq
                + ind (String.eqb PM (addr_or_default w (Some (addr_or_default w r sender)) PM)) (ind (String.eqb (p_lp p) d) shares).
Proof.
  intros Hs Hagg H. unfold run_tx in H.
  destruct (process FUEL w sender [plain (MWasm PM (WPm (PmProvide ls ss r pid None l)) funds)]) as [[wx|ex] flx] eqn:Ep; cbn [fst] in H; [|discriminate].
  inversion H; subst wx; clear H. unfold FUEL in Ep.
  destruct (plain_call _ _ _ _ _ _ _ _ Ep) as (wa & fla & w2 & subs2 & fl2 & Eb & Eh & E2).
  (* funds: sender -> pool manager *)
  assert (Htr : same_contracts w wa /\ forall a d, bal (w_bank wa) a d = bal (w_bank w) a d - ind (String.eqb a sender) (camt funds d) + ind (String.eqb a PM) (camt funds d)).
  { destruct funds as [|f0 fr].
    - inversion Eb; subst. split; [apply same_contracts_refl|]. intros a d. cbn [camt]. unfold ind. destruct (String.eqb a sender), (String.eqb a PM); lia.
    - split; [eapply bank_call_same; exact Eb|]. intros a d.
      unfold bank_call, fault_tick in Eb. destruct (w_fault w) as [k|];
        try (destruct (k =? 0); [discriminate|]); cbn [w_bank set_fault] in Eb;
        (destruct (bank_send (w_bank w) sender PM (f0 :: fr)) as [b'|e] eqn:Ebs; [|discriminate]);
        inversion Eb; subst; cbn [w_bank set_bank set_fault]; apply bank_send_spec in Ebs; destruct Ebs as [_ Hb]; rewrite Hb; reflexivity. }
  destruct Htr as [(_ & Htfa & Hval & _ & _ & Hpma & _) Hbala].
  destruct (handle_pm_bank _ _ _ _ _ _ Eh) as (s0 & Hx & ->). cbn [pm_execute] in Hx.
  destruct (provide_single_spec _ _ _ _ _ _ _ _ _ _ _ _ Hagg Hx) as (p & askc & sim & Hp & _ & _ & _ & _ & Hfind & Hsim & Hs0 & Hm0).
  subst subs2.
  set (b := {| sb_receiver := addr_or_default wa r sender;
               sb_expected_offer := (denom_of deposit, bal (w_bank wa) PM (denom_of deposit));
               sb_expected_ask := (denom_of askc, ssub (bal (w_bank wa) PM (denom_of askc)) (sc_protocol_fee sim + sc_burn_fee sim));
               sb_offer_half := (denom_of deposit, amount_of deposit / 2);
               sb_expected_ask_asset := (denom_of askc, sc_return sim);
               sb_data := {| ld_swap_slip := ss; ld_liq_slip := ls; ld_pool := pid; ld_unlock := None; ld_lock_id := l |} |}) in *.
  assert (Hbuf : pm_buffer (w_pm (set_pm wa s0)) = Some b) by (rewrite Hs0; reflexivity).
  assert (Hsim' : query_simulation (w_pm (set_pm wa s0)) (denom_of deposit, amount_of deposit / 2) (denom_of askc) pid = Ok sim)
    by (rewrite Hs0; exact Hsim).
  change (process 7 (set_pm wa s0) PM [single_elem (denom_of deposit) (amount_of deposit / 2) (denom_of askc) pid ss] = (Ok w', fl2)) in E2.
  destruct (single_chain _ _ _ _ b _ _ _ _ _ _ Hbuf eq_refl eq_refl Hsim' E2)
    as (wc & flc & s1 & msgs1 & w1 & fl1 & fl3 & Ebc & Hswap & Hps & Hleaf & E1 & Hpm1 & Hb1 & E3).
  (* leg 1: the swap's bank messages *)
  pose proof (fun a d => self_send_bal _ _ _ _ a d Ebc) as Hbalc. cbn [w_bank set_pm] in Hbalc.
  pose proof (bank_call_same _ _ _ _ Ebc) as (_ & Htfc & _).  cbn [w_tf_fee set_pm] in Htfc.
  rewrite (process_leaves 5 _ PM msgs1 Hleaf) in E1.
  pose proof (fun a d => exec_leaves_bal msgs1 _ _ _ _ a d Hleaf E1) as Hbal1. cbn [w_bank set_pm w_tf_fee] in Hbal1.
  pose proof (exec_leaves_same _ _ _ _ _ Hleaf E1) as (_ & Htf1 & _). cbn [w_tf_fee set_pm] in Htf1.
  pose proof Hswap as Hswap'. apply swap_spec in Hswap'. destruct Hswap' as (p1 & offer & sc & _ & _ & Hone & _ & Hps1 & Hmsgs1).
  apply one_coin_single in Hone. subst offer.
  pose proof (bank_call_same _ _ _ _ Ebc) as (_ & _ & _ & _ & _ & Hpmc & _). cbn [w_pm set_pm] in Hpmc.
  assert (sc = sim) by (rewrite Hpmc in Hps1; cbn [w_pm set_pm] in Hps; congruence). subst sc.
  assert (Hcfgc : pm_cfg (w_pm wc) = pm_cfg (w_pm w)) by (rewrite Hpmc, Hs0; cbn [pm_cfg pm_with_buffer]; rewrite Hpma; reflexivity).
  cbn [w_pm set_pm] in Hps. rewrite Hs0 in Hps.
  destruct (perform_swap_with_buffer _ _ _ _ _ _ _ _ _ Hps) as (s1' & Hps' & Hs1eq).
  (* leg 2: the deposit of the kept half and the proceeds *)
  destruct (plain_call _ _ _ _ _ _ _ _ E3) as (wb & flb & w4 & subs4 & fl4 & Ebb & Eh4 & E4).
  pose proof (fun a d => self_send_bal _ _ _ _ a d Ebb) as Hbalb. cbn [w_bank set_pm] in Hbalb.
  pose proof (bank_call_same _ _ _ _ Ebb) as (_ & Htfb & Hvalb & _ & _ & Hpmb & _). cbn [w_tf_fee w_pm set_pm w_valid] in Htfb, Hpmb, Hvalb.
  destruct (handle_pm_bank _ _ _ _ _ _ Eh4) as (s2 & Hx4 & ->).
  cbn [pm_execute sb_data ld_liq_slip ld_swap_slip ld_pool ld_unlock ld_lock_id sb_receiver sb_offer_half sb_expected_ask_asset b] in Hx4.
  assert (Hdn : denom_of askc <> denom_of deposit).
  { apply find_some in Hfind. destruct Hfind as [_ Hf]. apply negb_true_iff in Hf. apply String.eqb_neq in Hf. exact Hf. }
  assert (Hagg4 : exists x y, aggregate_coins [(denom_of deposit, amount_of deposit / 2); (denom_of askc, sc_return sim)] = Ok [x; y]).
  { unfold aggregate_coins. cbn [foldM agg_insert bind denom_of fst].
    destruct (String.compare (denom_of askc) (denom_of deposit)) eqn:Ec; cbn [bind]; eauto.
    exfalso. apply Hdn. apply compare_eq_eqb in Ec. apply String.eqb_eq in Ec. exact Ec. }
  destruct Hagg4 as (x & y & Hagg4).
  destruct (provide_plain_exact _ _ _ _ _ _ _ _ _ _ _ _ _ Hagg4 Hx4) as (p2 & shares & first & Hp2 & Hfirst & Hm4 & Hres4).
  subst subs4.
  (* the deposit's messages are token-factory mints *)
  assert (Hleaf4 : forallb plain_leaf (first ++ [plain (MTfMint (p_lp p2, shares) (addr_or_default wb (Some (addr_or_default wa r sender)) PM))]) = true).
  { rewrite forallb_app. destruct Hfirst as [->|(ml & _ & ->)]; reflexivity. }
  rewrite (process_leaves 4 _ PM _ Hleaf4) in E4.
  pose proof (fun a d => exec_leaves_bal _ _ _ _ _ a d Hleaf4 E4) as Hbal4. cbn [w_bank set_pm w_tf_fee] in Hbal4.
  pose proof (exec_leaves_same _ _ _ _ _ Hleaf4 E4) as (_ & _ & _ & _ & _ & Hpm' & _). cbn [w_pm set_pm] in Hpm'.
  (* the pool is the same pool all along *)
  assert (Hpsame : p_lp p2 = p_lp p).
  { rewrite Hpmb in Hp2. cbn [w_pm set_pm] in Hp2. rewrite Hs1eq in Hp2.
    apply perform_swap_spec in Hps'. destruct Hps' as (q & oi & ai & oc & ac & od & ad & Hq & _ & _ & _ & _ & _ & Hs1').
    assert (q = p) by congruence. subst q.
    unfold pool_find in Hp2. rewrite Hs1' in Hp2. cbn [pm_pools pm_with_buffer pm_save_pool pm_with_pools] in Hp2.
    apply of_option_ok in Hp2.
    pose proof (proj1 (pool_find_ok _ _ _) Hp) as Hk. apply sfind_key in Hk.
    rewrite <- Hk in Hp2. change (p_id p) with (p_id (pool_with_assets p (swap_new_assets p oi ai oc ac (amount_of (denom_of deposit, amount_of deposit / 2)) sim))) in Hp2 at 1.
    rewrite sfind_sinsert_same in Hp2. inversion Hp2. reflexivity. }
  set (minliq := match first with [s0] => match sm_msg s0 with MTfMint c _ => amount_of c | _ => 0 end | _ => 0 end).
  exists p, askc, sim, shares, minliq.
  rewrite <- Hpma. split; [exact Hp|]. split; [exact Hsim|].
  split; [destruct Hfirst as [->|(ml & Hml & ->)]; cbn; [lia | exact Hml]|].
  intros d. unfold slackP. rewrite Hpm', (Hres4 d), Hpmb. cbn [w_pm set_pm].
  assert (Hr1 : res (pm_with_buffer s1 None) d = res s1' d) by (rewrite Hs1eq; reflexivity). rewrite Hr1.
  destruct (perform_swap_res _ _ _ _ _ _ _ _ d Hps') as (Hrs & Hr0 & Hp0 & Hb0). rewrite Hrs.
  rewrite (Hbal4 PM d), Htfb, (Hbalb PM d), (Hbal1 PM d), Htf1, Htfc, (Hbalc PM d), (Hbala PM d).
  assert (Hsp : String.eqb PM sender = false) by (apply String.eqb_neq; congruence). rewrite Hsp, String.eqb_refl.
  rewrite <- (aggregate_camt _ _ d Hagg).
  subst msgs1.
  repeat match goal with |- context [addr_or_default ?x None PM] => change (addr_or_default x None PM) with PM end.
  assert (Hval1 : addr_or_default wb (Some (addr_or_default wa r sender)) PM = addr_or_default w (Some (addr_or_default w r sender)) PM).
  { pose proof (exec_leaves_same _ _ _ _ _ Hleaf E1) as (_ & _ & Hv1 & _). cbn [w_valid set_pm] in Hv1.
    pose proof (bank_call_same _ _ _ _ Ebc) as (_ & _ & Hvc & _). cbn [w_valid set_pm] in Hvc.
    unfold addr_or_default, addr_valid. rewrite Hvalb. cbn [w_valid set_pm]. rewrite Hv1, Hvc, Hval. reflexivity. }
  rewrite Hval1, Hpsame, Hpma, Hcfgc, Htfa.
  pose proof (Z.div_mod (amount_of deposit) 2 ltac:(lia)) as Hdm.
  unfold swap_fee_msgs.
  destruct Hfirst as [->|(ml & Hml & ->)]; subst minliq;
    destruct (sc_return sim =? 0) eqn:E0, (sc_burn_fee sim =? 0) eqn:E1b, (sc_protocol_fee sim =? 0) eqn:E2p;
    cbn [app leaves_eff leaf_eff plain sm_msg camt denom_of amount_of fst snd];
    rewrite ?String.eqb_refl, ?Hpsame; unfold ind;
    destruct (String.eqb (denom_of deposit) d) eqn:Ed1, (String.eqb (denom_of askc) d) eqn:Ed2;
    try (exfalso; apply String.eqb_eq in Ed1, Ed2; apply Hdn; congruence);
    destruct (String.eqb (p_lp p) d),
      (String.eqb PM (pm_fee_collector (pm_cfg (w_pm w)))), (String.eqb PM (addr_or_default w (Some (addr_or_default w r sender)) PM)); lia.
Qed.

(* ---------- routes ---------- *)
Lemma leaves_eff_app c tf l1 l2 a d : leaves_eff c tf (l1 ++ l2) a d = leaves_eff c tf l1 a d + leaves_eff c tf l2 a d.
Proof. induction l1 as [|x r IH]; cbn [app leaves_eff]; [lia | rewrite IH; lia]. Qed.

Lemma swap_fee_msgs_eff tf cfg ask sc d :
  pm_fee_collector cfg <> PM ->
  leaves_eff PM tf (swap_fee_msgs cfg ask sc) PM d = - ind (String.eqb ask d) (sc_burn_fee sc + sc_protocol_fee sc).
Proof.
  intros Hfc. assert (E : String.eqb PM (pm_fee_collector cfg) = false) by (apply String.eqb_neq; congruence).
  unfold swap_fee_msgs. rewrite leaves_eff_app.
  destruct (sc_burn_fee sc =? 0) eqn:E1, (sc_protocol_fee sc =? 0) eqn:E2;
    cbn [leaves_eff leaf_eff plain sm_msg camt denom_of amount_of fst snd]; rewrite ?String.eqb_refl, ?E; unfold ind;
    destruct (String.eqb ask d); lia.
Qed.

Lemma perform_swap_cfg s o a pid bl ms s' sc : perform_swap s o a pid bl ms = Ok (s', sc) -> pm_cfg s' = pm_cfg s.
Proof.
  intros H. apply perform_swap_spec in H. destruct H as (p & oi & ai & oc & ac & od & ad & _ & _ & _ & _ & _ & _ & ->). reflexivity.
Qed.

Lemma route_loop_exact tf ops : forall s prev ms fm s' out fms d,
  pm_fee_collector (pm_cfg s) <> PM ->
  route_loop s prev ops ms fm = Ok (s', out, fms) ->
  res s' d - leaves_eff PM tf fms PM d + ind (String.eqb (denom_of out) d) (amount_of out)
    = res s d - leaves_eff PM tf fm PM d + ind (String.eqb (denom_of prev) d) (amount_of prev).
Proof.
  induction ops as [|o r IH]; intros s prev ms fm s' out fms d Hfc H.
  - cbn in H. inversion H; subst. reflexivity.
  - apply route_loop_cons in H. destruct H as (s1 & sc & Hps & H).
    destruct (perform_swap_res _ _ _ _ _ _ _ _ d Hps) as (Hr & _).
    pose proof (perform_swap_cfg _ _ _ _ _ _ _ _ Hps) as Hc.
    assert (Hfc1 : pm_fee_collector (pm_cfg s1) <> PM) by (rewrite Hc; exact Hfc).
    rewrite (IH _ _ _ _ _ _ _ d Hfc1 H). rewrite leaves_eff_app, (swap_fee_msgs_eff tf _ _ _ d Hfc), Hr.
    cbn [denom_of amount_of fst snd]. unfold ind. destruct (String.eqb (so_out o) d), (String.eqb (denom_of prev) d); lia.
Qed.

(* a route leaves no residue either (fee collector distinct from the pool manager) *)
Theorem route_tx_excess w sender funds ops mr r ms w' :
  sender <> PM -> pm_fee_collector (pm_cfg (w_pm w)) <> PM ->
  run_tx w sender PM (WPm (PmRoute ops mr r ms)) funds = Ok w' ->
  exists lst out,
    last (map Some ops) None = Some lst /\
    forall d, slackP w' d = slackP w d + ind (String.eqb PM (addr_or_default w r sender)) (ind (String.eqb (so_out lst) d) out).
Proof.
  intros Hs Hfc H.
  destruct (leaf_tx_full _ _ _ _ _ _ H) as (wa & w2 & msgs & Hsa & Hsup & Eh & Hfull).
  destruct (handle_pm_bank _ _ _ _ _ _ Eh) as (s1 & Hx & ->). cbn [pm_execute] in Hx.
  pose proof (exec_ops_spec _ _ _ _ _ _ _ _ _ Hx) as (lst & fo & amount & outc & fee_msgs & Hl & Hh & Hpay & Hao & Hloop & Hmr & Hm).
  destruct Hsa as (_ & Htfa & Hval & _ & _ & Hpma & _).
  assert (Hr : addr_or_default wa r sender = addr_or_default w r sender) by (unfold addr_or_default, addr_valid; rewrite Hval; reflexivity).
  rewrite Hr in Hm.
  assert (Hfl : forallb plain_leaf fee_msgs = true) by (eapply route_loop_leaves; [|exact Hloop]; reflexivity).
  assert (Hall : forallb plain_leaf msgs = true).
  { subst msgs. rewrite forallb_app, Hfl. destruct (amount_of outc =? 0); reflexivity. }
  destruct (Hfull Hall) as [(_ & _ & _ & _ & _ & Hpm' & _) Hbal]. cbn [w_pm set_pm] in Hpm'.
  exists lst, (amount_of outc). split; [exact Hl|].
  intros d. unfold slackP. rewrite Hpm', (Hbal PM d).
  assert (Hfca : pm_fee_collector (pm_cfg (w_pm wa)) <> PM) by (rewrite Hpma; exact Hfc).
  pose proof (route_loop_exact (w_tf_fee w) _ _ _ _ _ _ _ _ d Hfca Hloop) as Hex.
  cbn [leaves_eff denom_of amount_of fst snd] in Hex.
  rewrite (route_loop_out_denom _ _ _ _ _ _ _ _ _ Hloop Hl) in Hex.
  subst msgs. rewrite leaves_eff_app.
  assert (Hsp : String.eqb PM sender = false) by (apply String.eqb_neq; congruence). rewrite Hsp, String.eqb_refl.
  rewrite (must_pay_camt _ _ _ d Hpay). rewrite Hpma in Hex.
  destruct (amount_of outc =? 0) eqn:E0; cbn [leaves_eff leaf_eff plain sm_msg camt denom_of amount_of fst snd];
    rewrite ?String.eqb_refl; unfold ind in *;
    destruct (String.eqb PM (addr_or_default w r sender)), (String.eqb (so_out lst) d), (String.eqb (so_in fo) d); lia.
Qed.
