(* CursorSafe.v — C06 / C07 over histories: a user's claim cursor (the last epoch paid to him) moves only through his
   own transactions. Through any history of operations that o does not sign, o's cursor is exactly what it was: nobody
   else can advance it (making him lose epochs) or rewind it (making epochs payable twice). *)
From MD.Model Require Import Base Ownable Epoch PoolMath Types PoolManager FarmManager Chain.
From MD.Proofs Require Import Tactics MapLemmas PoolMathProofs ChainProofs WeightProofs FarmProofs FarmChainProofs AuthProofs
  PositionsSafe.

Lemma lc_get_set_other l a v o : a <> o -> lc_get (lc_set l a v) o = lc_get l o.
Proof.
  intros Hne. induction l as [|[a' v'] r IH]; cbn [lc_set lc_get].
  - assert (E : String.eqb o a = false) by (apply String.eqb_neq; congruence). rewrite E. reflexivity.
  - destruct (String.eqb a a') eqn:E; cbn [lc_get].
    + apply String.eqb_eq in E. subst a'.
      assert (E2 : String.eqb o a = false) by (apply String.eqb_neq; congruence). rewrite E2. reflexivity.
    + destruct (String.eqb o a'); [reflexivity | exact IH].
Qed.

Lemma lc_get_remove_other l a o : a <> o -> lc_get (lc_remove l a) o = lc_get l o.
Proof.
  intros Hne. unfold lc_remove. induction l as [|[a' v'] r IH]; cbn [filter lc_get fst]; [reflexivity|].
  destruct (String.eqb a a') eqn:E; cbn [negb lc_get].
  - apply String.eqb_eq in E. subst a'.
    assert (E2 : String.eqb o a = false) by (apply String.eqb_neq; congruence). rewrite E2. exact IH.
  - destruct (String.eqb o a'); [reflexivity | exact IH].
Qed.

Definition cursor (s : fm_state) (o : string) : option Z := lc_get (fm_last_claimed s) o.

Lemma reconcile_cursor w s recv lp s' o :
  reconcile_user_state w s recv lp = Ok s' -> recv <> o -> cursor s' o = cursor s o.
Proof.
  unfold reconcile_user_state, cursor. intros H Hne.
  set (s1 := match positions_by_receiver s recv true with
             | [] => fm_set_last_claimed s (lc_remove (fm_last_claimed s) recv) | _ => s end) in *.
  assert (H1 : lc_get (fm_last_claimed s1) o = lc_get (fm_last_claimed s) o).
  { unfold s1. destruct (positions_by_receiver s recv true); [|reflexivity].
    cbn [fm_set_last_claimed fm_with fm_last_claimed]. apply lc_get_remove_other. exact Hne. }
  destruct (forallb _ _).
  - destruct (w_earliest (fm_weights s1) recv lp).
    + apply bind_ok in H. destruct H as [ep [_ H]]. apply sync_tables in H. destruct H as [_ E]. rewrite E. exact H1.
    + inversion H; subst. exact H1.
  - inversion H; subst. exact H1.
Qed.

Lemma claim_cursor w sender funds until s' msgs o :
  claim w sender funds until = Ok (s', msgs) -> sender <> o -> cursor s' o = cursor (w_fm w) o.
Proof.
  intros H Hne. unfold claim in H.
  apply bind_ok in H. destruct H as [[] [_ H]].
  apply bind_ok in H. destruct H as [[] [_ H]].
  apply bind_ok in H. destruct H as [ep [_ H]].
  apply bind_ok in H. destruct H as [u [_ H]].
  apply bind_ok in H. destruct H as [[s1 total] [Hf H]].
  apply bind_ok in H. destruct H as [ms [_ H]]. inversion H; subst s' msgs; clear H.
  unfold cursor. cbn [fm_set_last_claimed fm_with fm_last_claimed]. rewrite lc_get_set_other by exact Hne.
  set (P := fun acc : fm_state * list coin => fm_last_claimed (fst acc) = fm_last_claimed (w_fm w)).
  assert (HP : P (s1, total)).
  { eapply (foldM_inv P); [| |exact Hf].
    - intros acc lp acc' _ Hstep HPacc. unfold P in *. cbv beta in Hstep.
      apply bind_ok in Hstep. destruct Hstep as [[rewards modified] [_ Hstep]].
      apply bind_ok in Hstep. destruct Hstep as [farms' [_ Hstep]].
      apply bind_ok in Hstep. destruct Hstep as [s2 [Hs2 Hstep]]. inversion Hstep; subst acc'; clear Hstep.
      apply sync_tables in Hs2. destruct Hs2 as [_ E]. cbn [fst]. rewrite E. exact HPacc.
    - reflexivity. }
  unfold P in HP. cbn [fst] in HP. rewrite HP. reflexivity.
Qed.

Lemma fm_execute_cursor w sender funds m s' msgs o :
  fm_execute w sender funds m = Ok (s', msgs) -> sender <> o -> cursor s' o = cursor (w_fm w) o.
Proof.
  intros H Hs.
  destruct m as [p|p|fid|a|u|oid dur r|pid|pid lp|pid e|u]; cbn [fm_execute] in H.
  - apply create_farm_spec in H.
    destruct H as (ep & expired & live & fee_msgs & st & en & identifier & _ & _ & _ & _ & _ & _ & _ & _ & _ & _ & _ & _ & _ & _ & Hlc & _).
    unfold cursor. rewrite Hlc. reflexivity.
  - unfold expand_farm in H. inv_all. reflexivity.
  - unfold close_farm in H.
    apply bind_ok in H. destruct H as [[] [_ H]].
    apply bind_ok in H. destruct H as [f [_ H]].
    apply bind_ok in H. destruct H as [[] [_ H]]. inversion H; subst. reflexivity.
  - inv_all. reflexivity.
  - eapply claim_cursor; eauto.
  - unfold create_position in H.
    apply bind_ok in H. destruct H as [lp [_ H]].
    apply bind_ok in H. destruct H as [[] [_ H]].
    apply bind_ok in H. destruct H as [[] [_ H]].
    apply bind_ok in H. destruct H as [recv [_ H]].
    apply bind_ok in H. destruct H as [c [_ H]].
    destruct oid as [id0|].
    + apply bind_ok in H. destruct H as [[] [_ H]].
      apply bind_ok in H. destruct H as [[] [_ H]].
      apply bind_ok in H. destruct H as [[] [_ H]].
      apply bind_ok in H. destruct H as [s3 [Hs3 H]]. inversion H; subst s' msgs; clear H.
      apply update_weights_tables in Hs3. destruct Hs3 as [_ E]. unfold cursor. rewrite E. reflexivity.
    + apply bind_ok in H. destruct H as [[] [_ H]].
      apply bind_ok in H. destruct H as [[] [_ H]].
      apply bind_ok in H. destruct H as [[] [_ H]].
      apply bind_ok in H. destruct H as [s3 [Hs3 H]]. inversion H; subst s' msgs; clear H.
      apply update_weights_tables in Hs3. destruct Hs3 as [_ E]. unfold cursor. rewrite E. reflexivity.
  - unfold expand_position in H.
    apply bind_ok in H. destruct H as [q [_ H]].
    apply bind_ok in H. destruct H as [lp [_ H]].
    apply bind_ok in H. destruct H as [[] [_ H]].
    apply bind_ok in H. destruct H as [[] [_ H]].
    apply bind_ok in H. destruct H as [[] [_ H]].
    apply bind_ok in H. destruct H as [[] [_ H]].
    apply bind_ok in H. destruct H as [a [_ H]].
    apply bind_ok in H. destruct H as [s2 [Hs2 H]]. inversion H; subst s' msgs; clear H.
    apply update_weights_tables in Hs2. destruct Hs2 as [_ E]. unfold cursor. rewrite E. reflexivity.
  - unfold close_position in H.
    apply bind_ok in H. destruct H as [[] [_ H]].
    apply bind_ok in H. destruct H as [pending [_ H]].
    apply bind_ok in H. destruct H as [[] [_ H]].
    apply bind_ok in H. destruct H as [q [_ H]].
    apply bind_ok in H. destruct H as [[] [_ H]].
    apply bind_ok in H. destruct H as [[] [_ H]].
    apply bind_ok in H. destruct H as [exp_ns [_ H]].
    apply bind_ok in H. destruct H as [[] [_ H]].
    apply bind_ok in H. destruct H as [[[q' s1] to_close] [Hb H]].
    apply bind_ok in H. destruct H as [s2 [Hs2 H]].
    apply bind_ok in H. destruct H as [s4 [Hs4 H]]. inversion H; subst s' msgs; clear H.
    rewrite (reconcile_cursor _ _ _ _ _ o Hs4 Hs).
    unfold cursor. cbn [fm_set_positions fm_with fm_last_claimed].
    apply update_weights_tables in Hs2. destruct Hs2 as [_ E]. rewrite E.
    assert (E1 : fm_last_claimed s1 = fm_last_claimed (w_fm w)).
    { destruct lp as [lp0|].
      - apply bind_ok in Hb. destruct Hb as [[] [_ Hb]].
        destruct (amount_of lp0 =? amount_of (pos_lp q)); [inversion Hb; subst; reflexivity|].
        destruct (amount_of lp0 <? amount_of (pos_lp q)); [|discriminate].
        apply bind_ok in Hb. destruct Hb as [c [_ Hb]]. inversion Hb; subst. reflexivity.
      - inversion Hb; subst. reflexivity. }
    rewrite E1. reflexivity.
  - unfold withdraw_position in H.
    apply bind_ok in H. destruct H as [[] [_ H]].
    apply bind_ok in H. destruct H as [q [_ H]].
    apply bind_ok in H. destruct H as [[] [_ H]].
    apply bind_ok in H. destruct H as [[[s1 ms] am] [Hb H]].
    apply bind_ok in H. destruct H as [s3 [Hr H]]. inversion H; subst s' msgs; clear H.
    assert (E1 : fm_last_claimed s1 = fm_last_claimed (w_fm w)).
    { destruct ((match e with Some true => true | _ => false end) && negb (position_is_expired q (seconds (w_block w)))).
      - inv_all; try reflexivity.
        all: match goal with Hu : update_weights _ _ _ _ _ _ _ = Ok _ |- _ => apply update_weights_tables in Hu; destruct Hu as [_ Eu]; rewrite Eu; reflexivity end.
      - inv_all; reflexivity. }
    destruct (pos_open q).
    + rewrite (reconcile_cursor _ _ _ _ _ o Hr Hs). unfold cursor. cbn [fm_set_positions fm_with fm_last_claimed]. rewrite E1. reflexivity.
    + inversion Hr; subst. unfold cursor. cbn [fm_set_positions fm_with fm_last_claimed]. rewrite E1. reflexivity.
  - apply bind_ok in H. destruct H as [[] [_ H]]. apply fm_update_config_auth in H.
    destruct H as (_ & _ & _ & _ & _ & Hlc & _). unfold cursor. rewrite Hlc. reflexivity.
Qed.

(* ---------- over histories ---------- *)
Theorem cursor_moves_only_by_its_owner o ops w :
  o <> EM -> o <> FC -> o <> PM -> o <> FM ->
  Forall (not_signed_by o) ops ->
  cursor (w_fm (run w ops)) o = cursor (w_fm w) o.
Proof.
  intros H1 H2 H3 H4 Hall.
  apply (run_RS o H1 H2 H3 H4 (fun a b => cursor (w_fm b) o = cursor (w_fm a) o)); try exact Hall.
  - reflexivity.
  - intros a b c Hab Hbc. congruence.
  - intros x y (_ & _ & _ & _ & _ & _ & Hfm). rewrite Hfm. reflexivity.
  - intros x t s f m w2 subs Hs H.
    destruct (handle_fm_state _ _ _ _ _ _ _ H) as [E | (fm & -> & -> & msgs & Hx)].
    + rewrite E. reflexivity.
    + eapply fm_execute_cursor; eauto.
  - intros x c id w2 subs H. rewrite (handle_reply_fm_state _ _ _ _ _ H). reflexivity.
  - reflexivity.
Qed.
