(* PoolMathProofs.v — specification lemmas for the pool arithmetic (fees, constant-product swap,
   slippage assertion). *)
From MD.Model Require Import Base PoolMath.
From MD.Proofs Require Import Tactics Arith.

(* ---------- Fee::compute ---------- *)
Lemma fee_compute_spec share amount f :
  fee_compute share amount = Ok f -> f = amount * share / DEC.
Proof.
  unfold fee_compute, dec_from_ratio, dec_mul, dec_floor. intros H.
  change (1 =? 0) with false in H. cbv iota in H. inv_res.
  rewrite Z.div_1_r. rewrite mul_DEC_div. reflexivity.
Qed.

Lemma fee_compute_le share amount f :
  0 <= amount -> 0 <= share -> fee_compute share amount = Ok f -> 0 <= f /\ f * DEC <= amount * share.
Proof.
  intros Ha Hs H. apply fee_compute_spec in H. subst. pose proof DEC_pos. split.
  - apply Z.div_pos; nia.
  - apply floor_mul_le; lia.
Qed.

(* sum of the extra-fee floors *)
Fixpoint extra_sum (shares : list Z) (amount : Z) : Z :=
  match shares with [] => 0 | s :: r => amount * s / DEC + extra_sum r amount end.

Lemma extra_fold_spec shares amount : forall acc e,
  foldM (fun acc sh => let* x := fee_compute sh amount in cadd U256_MAX acc x) shares acc = Ok e ->
  e = acc + extra_sum shares amount.
Proof.
  induction shares as [|s r IH]; intros acc e H; cbn [foldM extra_sum] in *.
  - inv_res. lia.
  - apply bind_ok in H. destruct H as [b [Hb H]].
    apply bind_ok in Hb. destruct Hb as [x [Hx Hb]]. apply fee_compute_spec in Hx.
    unfold cadd in Hb. inv_res. apply IH in H. lia.
Qed.

Lemma compute_fees_spec f amount fc :
  compute_fees f amount = Ok fc ->
  fc_swap fc = amount * swap_fee f / DEC /\
  fc_protocol fc = amount * protocol_fee f / DEC /\
  fc_burn fc = amount * burn_fee f / DEC /\
  fc_extra fc = extra_sum (extra_fees f) amount.
Proof.
  unfold compute_fees. intros H.
  apply bind_ok in H. destruct H as [s [Hs H]].
  apply bind_ok in H. destruct H as [p [Hp H]].
  apply bind_ok in H. destruct H as [b [Hb H]].
  apply bind_ok in H. destruct H as [e [He H]].
  apply fee_compute_spec in Hs, Hp, Hb. apply extra_fold_spec in He.
  inversion H; subst; cbn. repeat split; lia.
Qed.

Lemma get_swap_computation_spec ret slip fc sc :
  get_swap_computation ret slip fc = Ok sc ->
  sc_return sc = ret - fc_swap fc - fc_protocol fc - fc_burn fc - fc_extra fc /\
  0 <= sc_return sc <= U128_MAX /\
  sc_slippage sc = slip + fc_swap fc + fc_protocol fc + fc_burn fc + fc_extra fc /\
  sc_swap_fee sc = fc_swap fc /\ sc_protocol_fee sc = fc_protocol fc /\
  sc_burn_fee sc = fc_burn fc /\ sc_extra_fees sc = fc_extra fc /\
  0 <= fc_swap fc <= U128_MAX /\ 0 <= fc_protocol fc <= U128_MAX /\
  0 <= fc_burn fc <= U128_MAX /\ 0 <= fc_extra fc <= U128_MAX.
Proof.
  unfold get_swap_computation. intros H. inv_res. cbn. repeat split; lia.
Qed.

(* ---------- list helpers ---------- *)
Lemma find_index_some {A} (p : A -> bool) l i :
  find_index p l = Some i -> exists x, nth_error l i = Some x /\ p x = true.
Proof.
  revert i; induction l as [|x r IH]; intros i H; cbn in *; [discriminate|].
  destruct (p x) eqn:E.
  - inversion H; subst. exists x. split; [reflexivity | exact E].
  - destruct (find_index p r) eqn:F; cbn in H; [|discriminate]. inversion H; subst.
    destruct (IH n eq_refl) as [y [Hy Hp]]. exists y. split; assumption.
Qed.

Lemma nth_error_set_nth_eq {A} (l : list A) i v x :
  nth_error l i = Some x -> nth_error (set_nth i v l) i = Some v.
Proof.
  revert i; induction l as [|y r IH]; intros i H; destruct i; cbn in *; try discriminate; auto.
Qed.

Lemma nth_error_set_nth_neq {A} (l : list A) i j v :
  i <> j -> nth_error (set_nth i v l) j = nth_error l j.
Proof.
  revert i j; induction l as [|y r IH]; intros i j H; destruct i, j; cbn; try reflexivity; try congruence.
  apply IH. congruence.
Qed.

Lemma set_nth_length {A} (l : list A) i v : List.length (set_nth i v l) = List.length l.
Proof. revert i; induction l as [|y r IH]; intros i; destruct i; cbn; auto. Qed.

Lemma nth_coin_ok n l c : nth_coin n l = Ok c -> nth_error l n = Some c.
Proof. unfold nth_coin, of_option. destruct (nth_error l n); intros H; inversion H; reflexivity. Qed.
Lemma nthZ_ok n l c : nthZ n l = Ok c -> nth_error l n = Some c.
Proof. unfold nthZ, of_option. destruct (nth_error l n); intros H; inversion H; reflexivity. Qed.
Lemma of_option_ok {A} (o : option A) e a : of_option o e = Ok a -> o = Some a.
Proof. destruct o; cbn; intros H; inversion H; reflexivity. Qed.

Lemma get_asset_indexes_spec p offer ask oc ac oi ai od ad :
  get_asset_indexes p offer ask = Ok (oc, ac, oi, ai, od, ad) ->
  index_of_denom offer (p_assets p) = Some oi /\ index_of_denom ask (p_assets p) = Some ai /\ oi <> ai /\
  nth_error (p_assets p) oi = Some oc /\ nth_error (p_assets p) ai = Some ac /\
  denom_of oc = offer /\ denom_of ac = ask /\
  nth_error (p_decimals p) oi = Some od /\ nth_error (p_decimals p) ai = Some ad.
Proof.
  unfold get_asset_indexes. intros H.
  apply bind_ok in H. destruct H as [oi' [Ho H]]. apply of_option_ok in Ho.
  apply bind_ok in H. destruct H as [ai' [Ha H]]. apply of_option_ok in Ha.
  apply bind_ok in H. destruct H as [u [Hn H]]. apply ensure_ok in Hn.
  apply bind_ok in H. destruct H as [oc' [Hoc H]]. apply nth_coin_ok in Hoc.
  apply bind_ok in H. destruct H as [ac' [Hac H]]. apply nth_coin_ok in Hac.
  apply bind_ok in H. destruct H as [od' [Hod H]]. apply nthZ_ok in Hod.
  apply bind_ok in H. destruct H as [ad' [Had H]]. apply nthZ_ok in Had.
  inversion H; subst.
  assert (Hne : oi <> ai) by (intro; subst; rewrite Nat.eqb_refl in Hn; discriminate).
  unfold index_of_denom in *.
  destruct (find_index_some _ _ _ Ho) as [x [Hx Px]]. destruct (find_index_some _ _ _ Ha) as [y [Hy Py]].
  rewrite Hoc in Hx. rewrite Hac in Hy. inversion Hx; inversion Hy; subst.
  apply String.eqb_eq in Px, Py. repeat split; auto.
Qed.

(* ---------- compute_swap, constant product ---------- *)
Definition cp_gross (offer_pool ask_pool offer_amount : Z) : Z :=
  ask_pool * offer_amount / (offer_pool + offer_amount).

Lemma compute_swap_cp_spec p offer ask sc oc ac oi ai od ad :
  p_type p = ConstantProduct ->
  get_asset_indexes p (denom_of offer) ask = Ok (oc, ac, oi, ai, od, ad) ->
  0 <= amount_of oc -> 0 <= amount_of offer ->
  compute_swap p offer ask = Ok sc ->
  let gross := cp_gross (amount_of oc) (amount_of ac) (amount_of offer) in
  0 < amount_of oc + amount_of offer /\ 0 < amount_of oc /\
  sc_swap_fee sc = gross * swap_fee (p_fees p) / DEC /\
  sc_protocol_fee sc = gross * protocol_fee (p_fees p) / DEC /\
  sc_burn_fee sc = gross * burn_fee (p_fees p) / DEC /\
  sc_extra_fees sc = extra_sum (extra_fees (p_fees p)) gross /\
  sc_return sc = gross - sc_swap_fee sc - sc_protocol_fee sc - sc_burn_fee sc - sc_extra_fees sc /\
  0 <= sc_return sc <= U128_MAX /\
  0 <= sc_swap_fee sc <= U128_MAX /\ 0 <= sc_protocol_fee sc <= U128_MAX /\
  0 <= sc_burn_fee sc <= U128_MAX /\ 0 <= sc_extra_fees sc <= U128_MAX.
Proof.
  intros Ht Hg Hoc Hoff H. unfold compute_swap in H. rewrite Hg in H. cbn [bind] in H. rewrite Ht in H.
  apply bind_ok in H. destruct H as [ra [Hra H]].
  apply bind_ok in H. destruct H as [rate [Hrate H]].
  apply bind_ok in H. destruct H as [oa [Hoa H]].
  apply bind_ok in H. destruct H as [ideal [Hideal H]].
  apply bind_ok in H. destruct H as [slip [Hslip H]].
  apply bind_ok in H. destruct H as [fc [Hfc H]].
  unfold dec_from_ratio in Hra, Hrate.
  destruct (amount_of oc + amount_of offer =? 0) eqn:E1; [discriminate|].
  destruct (amount_of oc =? 0) eqn:E2; [discriminate|].
  apply chk_ok in Hra. destruct Hra as [-> _].
  apply compute_fees_spec in Hfc. destruct Hfc as (F1 & F2 & F3 & F4).
  apply get_swap_computation_spec in H.
  destruct H as (R1 & R2 & _ & R4 & R5 & R6 & R7 & B1 & B2 & B3 & B4).
  unfold dec_floor in F1, F2, F3, F4, R1.
  assert (Hpos : 0 < amount_of oc + amount_of offer) by (clear - E1 Hoc Hoff; lia).
  clear - F1 F2 F3 F4 R1 R2 R4 R5 R6 R7 B1 B2 B3 B4 Hpos E2 Hoc.
  rewrite (div_div_DEC _ _ Hpos) in F1, F2, F3, F4, R1.
  cbv zeta. unfold cp_gross. repeat split; try lia.
Qed.
