(* NonVacuity.v — the hypotheses of the history-level theorems (C01, C05, C06, C14) are jointly satisfiable by a
   non-trivial history: a concrete genesis and a concrete list of operations (pool creation, deposits, a swap, an odd
   single-asset deposit, a donation, a locked deposit, a position, a farm, epochs passing, a claim, a withdrawal) which
   meets every hypothesis, in which every transaction is ACCEPTED, and after which reserves, positions and farm budgets
   are all non-zero. Evaluated by the kernel (vm_compute). *)
From MD.Model Require Import Base Ownable Epoch PoolMath Types PoolManager FarmManager Chain.
From MD.Proofs Require Import FarmCustody FarmCustodyChain PoolCustody PoolCustodyChain.

Definition big : Z := 10000000000000000000000000000000000.
Definition g0 : genesis_cfg :=
  {| g_block := {| height := 1000; time := 1714000000000000000 |};
     g_valid := ["owner"; "alice"; "bob"; "carol"];
     g_balances := map (fun u => (u, [("uom", big); ("uusd", big); ("uusdc", big)])) ["owner"; "alice"; "bob"; "carol"];
     g_tf_fee := [("uom", 1000)]; g_owner := "owner";
     g_epoch := {| duration := 86400; genesis := 1714000000 |};
     g_pm_fee := ("uusd", 1000);
     g_fm := {| fm_epoch_manager := "EM"; fm_fee_collector := "FC"; fm_pool_manager := "PM"; fm_create_fee := ("uom", 1000);
                fm_max_farms := 3; fm_epoch_buffer := 14; fm_min_unlock := 86400; fm_max_unlock := 31556926;
                fm_expiration := 2629746; fm_penalty := 100000000000000000 |} |}.
Definition fees0 : pool_fee := {| protocol_fee := 1000000000000000; swap_fee := 3000000000000000; burn_fee := 1000000000000000; extra_fees := [] |}.
Definition lp0 : string := "factory/PM/o.a.LP".
Definition day (n : Z) : block := {| height := 1000 + n; time := (1714000000 + 86400 * n) * 1000000000 |}.
Definition ops0 : list op :=
  [ Tx "alice" "PM" (WPm (PmCreatePool ["uom"; "uusd"] [6; 6] fees0 ConstantProduct (Some "a"))) [("uom", 1000); ("uusd", 1000)];
    Tx "alice" "PM" (WPm (PmProvide None None None "o.a" None None)) [("uom", 1000000000); ("uusd", 2000000000)];
    Tx "bob" "PM" (WPm (PmSwap "uusd" None (Some 500000000000000000) None "o.a")) [("uom", 5000001)];
    Tx "carol" "PM" (WPm (PmProvide None (Some 500000000000000000) None "o.a" None None)) [("uusd", 80001)];
    BankSendOp "bob" "PM" [("uusdc", 77)];
    Tx "carol" "PM" (WPm (PmCreatePool ["uusdc"; "uusd"] [6; 6] fees0 ConstantProduct (Some "b"))) [("uom", 1000); ("uusd", 1000)];   (* a second pool *)
    Tx "owner" "PM" (WPm (PmUpdateConfig None None None (Some {| ft_pool := "o.b"; ft_swaps := Some false; ft_deposits := None; ft_withdrawals := None |}))) [];
    Tx "bob" "PM" (WPm (PmProvide None None None "o.a" (Some 86400) None)) [("uom", 1000000); ("uusd", 2000000)];
    Tx "alice" "FM" (WFm (FmPosCreate (Some "p") 86400 None)) [(lp0, 500000)];
    Tx "carol" "FM" (WFm (FmCreateFarm {| fp_lp := lp0; fp_start := Some 1; fp_end := Some 5; fp_asset := ("uusdc", 4000); fp_id := Some "f" |}))
       [("uom", 1000); ("uusdc", 4000)];
    SetBlock (day 1); SetBlock (day 2);
    Tx "alice" "FM" (WFm (FmClaim None)) [];
    Tx "alice" "PM" (WPm (PmWithdraw "o.a")) [(lp0, 1000000)] ].

Definition accepted_all (w : world) (ops : list op) : bool :=
  snd (fold_left (fun acc o => let r := step (fst acc) o in (fst r, snd acc && snd r)) ops (w, true)).

Definition nonvacuity_statement : Prop :=
  exists w0, genesis_world g0 = Ok w0 /\
    0 <= amount_of (fm_create_fee (g_fm g0)) /\ NoDup (map denom_of (g_tf_fee g0)) /\
    (forall f, In f (g_tf_fee g0) -> 0 <= amount_of f <= HALF_U128) /\ 0 <= amount_of (g_pm_fee g0) <= HALF_U128 /\
    Forall op_okP ops0 /\ Forall op_ok ops0 /\
    accepted_all w0 ops0 = true /\
    let w := run w0 ops0 in
    0 < res (w_pm w) "uom" /\ 0 < res (w_pm w) "uusd" /\ 0 < obl (w_fm w) lp0 /\ 0 < obl (w_fm w) "uusdc" /\
    (* an odd unit and a donation are the only excess *)
    slackP w "uusd" = 1 /\ slackP w "uusdc" = 77 /\ slackP w "uom" = 0.

Lemma hypotheses_satisfiable_by_a_real_history : nonvacuity_statement.
Proof.
  unfold nonvacuity_statement.
  destruct (genesis_world g0) as [w0|e] eqn:E; [|vm_compute in E; discriminate].
  exists w0. split; [reflexivity|].
  split; [cbn; lia|]. split; [constructor; [intros []|constructor]|].
  split; [intros f [<-|[]]; cbn; unfold HALF_U128; lia|]. split; [cbn; unfold HALF_U128; lia|].
  split; [unfold ops0; repeat constructor; try discriminate; exact I|].
  split; [unfold ops0; repeat constructor; discriminate|].
  assert (Hw : w0 = match genesis_world g0 with Ok w => w | Err _ => w0 end) by (rewrite E; reflexivity).
  rewrite Hw. clear. vm_compute. repeat split; reflexivity.
Qed.

(* ---------- the excess ledger (ExcessLedger.excess_ledger) on a concrete history ---------- *)
From MD.Proofs Require Import PmChainProofs ExcessLedger ClaimSplit ClaimTwice.

Definition setup0 : list op := firstn 2 ops0.         (* pool creation, first deposit *)
Definition core0 : list op :=
  [ Tx "bob" "PM" (WPm (PmSwap "uusd" None (Some 500000000000000000) None "o.a")) [("uom", 5000001)];
    Tx "carol" "PM" (WPm (PmProvide None (Some 500000000000000000) None "o.a" None None)) [("uusd", 80001)];
    BankSendOp "bob" "PM" [("uusdc", 77)];
    Tx "carol" "PM" (WPm (PmCreatePool ["uusdc"; "uusd"] [6; 6] fees0 ConstantProduct (Some "b"))) [("uom", 1000); ("uusd", 1000)];   (* a second pool *)
    Tx "owner" "PM" (WPm (PmUpdateConfig None None None (Some {| ft_pool := "o.b"; ft_swaps := Some false; ft_deposits := None; ft_withdrawals := None |}))) [];
    Tx "bob" "PM" (WPm (PmProvide None None None "o.a" (Some 86400) None)) [("uom", 1000000); ("uusd", 2000000)];   (* locked in the farm manager *)
    Tx "bob" "PM" (WPm (PmRoute [{| so_in := "uusd"; so_out := "uom"; so_pool := "o.a" |}] None None (Some 500000000000000000))) [("uusd", 3000)];
    Tx "carol" "PM" (WPm (PmSwap "uom" None (Some 1) None "o.a")) [("uusd", 900000000)];     (* rejected: slippage *)
    Tx "alice" "FM" (WFm (FmPosCreate (Some "q") 86400 None)) [(lp0, 500000)];                 (* farm-manager side *)
    Tx "carol" "FM" (WFm (FmCreateFarm {| fp_lp := lp0; fp_start := Some 1; fp_end := Some 5; fp_asset := ("uusdc", 4000); fp_id := Some "f" |}))
       [("uom", 1000); ("uusdc", 4000)];
    Tx "alice" "FM" (WFm (FmPosClose "u-q" None)) [];
    Tx "carol" "FM" (WFm (FmCloseFarm "m-f")) [];                                                 (* refund through a reply-on-error sub-message *)
    Tx "alice" "FM" (WFm (FmPosWithdraw "u-q" (Some true))) [];                                   (* emergency exit: penalty to the fee collector *)
    Tx "alice" "PM" (WPm (PmWithdraw "o.a")) [(lp0, 1000000)] ].

Definition ledger_statement : Prop :=
  exists w0, genesis_world g0 = Ok w0 /\
    let w1 := run w0 setup0 in
    good_run w1 core0 /\ asset_denom "uusd" /\ asset_denom "uusdc" /\ asset_denom "uom" /\
    ledger w1 core0 "uusd" = 1 /\ ledger w1 core0 "uusdc" = 77 /\ ledger w1 core0 "uom" = 0 /\
    map (fun o => snd (step w1 o)) [nth 7 core0 (SetFault 0)] <> [] .

Lemma asset_denom_u s : asset_denom ("u" ++ s).
Proof. intros id C. unfold lp_of_id in C. cbn in C. discriminate. Qed.

Lemma ledger_example : ledger_statement.
Proof.
  unfold ledger_statement.
  destruct (genesis_world g0) as [w0|e] eqn:E; [|vm_compute in E; discriminate].
  exists w0. split; [reflexivity|]. cbv zeta.
  assert (Hw : w0 = match genesis_world g0 with Ok w => w | Err _ => w0 end) by (rewrite E; reflexivity).
  split.
  - apply good_run_intro.
    + apply run_lp_inv. rewrite Hw. intros id p H. vm_compute in H. discriminate.
    + apply run_pool_custody; [unfold setup0, ops0; cbn [firstn]; repeat constructor; try discriminate; exact I|].
      apply (genesis_pool_custody g0 w0 E); [cbn; lia | constructor; [intros []|constructor] | intros f [<-|[]]; cbn; unfold HALF_U128; lia | cbn; unfold HALF_U128; lia].
    + unfold core0.
      repeat match goal with
             | |- Forall _ [] => constructor
             | |- Forall _ (_ :: _) =>
                 constructor; [cbn [covered_op];
                               first [exact I | discriminate
                                     | (split; [discriminate | right; right; split; [reflexivity | first [exact I | discriminate | idtac]]])
                                     | (split; [discriminate | right; left; split; [reflexivity | exact I]])] |]
             end.
      intros d. cbn [BankProofs.camt denom_of amount_of fst snd]. unfold U128_MAX. destruct (String.eqb "uom" d), (String.eqb "uusd" d); lia.
    + unfold core0. repeat constructor; try discriminate; exact I.
    + rewrite Hw. clear. vm_compute. reflexivity.
  - split; [apply (asset_denom_u "usd")|]. split; [apply (asset_denom_u "usdc")|]. split; [apply (asset_denom_u "om")|].
    rewrite Hw. clear. vm_compute. repeat split; try reflexivity. discriminate.
Qed.

(* ---------- the first deposit of ops0 meets the hypotheses of LockedLiquidity.first_deposit_locks_forever, and after the
   rest of ops0 (swap, single-asset deposit, donation, locked deposit, farm operations, withdrawal) the pool manager's
   surplus of the LP denom is exactly the minimum liquidity ---------- *)
Definition lock_statement : Prop :=
  exists w0, genesis_world g0 = Ok w0 /\
    let w1 := run w0 (firstn 1 ops0) in
    (exists p, pool_find (w_pm w1) "o.a" = Ok p /\ p_type p = ConstantProduct /\ p_lp p = lp0 /\ supply (w_bank w1) lp0 = 0) /\
    snd (step w1 (nth 1 ops0 (SetFault 0))) = true /\
    slackP (run w1 (skipn 1 ops0)) lp0 = MINIMUM_LIQUIDITY_AMOUNT.

Lemma lock_example : lock_statement.
Proof.
  unfold lock_statement.
  destruct (genesis_world g0) as [w0|e] eqn:E; [|vm_compute in E; discriminate].
  exists w0. split; [reflexivity|]. cbv zeta.
  assert (Hw : w0 = match genesis_world g0 with Ok w => w | Err _ => w0 end) by (rewrite E; reflexivity).
  rewrite Hw. clear. split; [|split].
  - eexists. split; [vm_compute; reflexivity|]. vm_compute. repeat split; reflexivity.
  - vm_compute. reflexivity.
  - vm_compute. reflexivity.
Qed.

(* ---------- the farm limit theorem (FarmLimit.reachable_farm_limit) speaks about real worlds: after ops0 the configured
   limit is 3 (<= 100) and one farm is stored for the LP denom ---------- *)
Definition limit_statement : Prop :=
  exists w0, genesis_world g0 = Ok w0 /\
    fm_max_farms (fm_cfg (w_fm (run w0 ops0))) = 3 /\
    List.length (filter (fun f => String.eqb (f_lp f) lp0) (fm_farms (w_fm (run w0 ops0)))) = 1%nat.

Lemma limit_example : limit_statement.
Proof.
  unfold limit_statement.
  destruct (genesis_world g0) as [w0|e] eqn:E; [|vm_compute in E; discriminate].
  exists w0. split; [reflexivity|].
  assert (Hw : w0 = match genesis_world g0 with Ok w => w | Err _ => w0 end) by (rewrite E; reflexivity).
  rewrite Hw. clear. vm_compute. split; reflexivity.
Qed.

(* ---------- ClaimSplit.one_claim_is_two_claims speaks about real states: after ops0 and two more days, alice (cursor at
   epoch 2) claiming at epoch 4 meets every hypothesis with an intermediate claim at epoch 3; the farm pays 262 for each of
   the epochs 3 and 4 ---------- *)
Definition split_statement : Prop :=
  exists w0, genesis_world g0 = Ok w0 /\
    let s := w_fm (run w0 (ops0 ++ [SetBlock (day 4)])) in
    exists f, sfind f_id "m-f" (fm_farms s) = Some f /\
      lc_get (fm_last_claimed s) "alice" = Some 2 /\
      farm_rewards s f lp0 "alice" 4 (Some 2) = Ok [(3, 262); (4, 262)] /\
      String.eqb FM "alice" = false /\
      w_earliest (fm_weights s) "alice" lp0 = Some (2, 500000) /\ w_latest (fm_weights s) "alice" lp0 = Some (2, 500000) /\
      w_earliest (fm_weights s) FM lp0 = Some (1, 1907205) /\
      f_claimed f = 524 /\ f_asset f = ("uusdc", 4000).

Lemma split_example : split_statement.
Proof.
  unfold split_statement.
  destruct (genesis_world g0) as [w0|e] eqn:E; [|vm_compute in E; discriminate].
  exists w0. split; [reflexivity|]. cbv zeta.
  assert (Hw : w0 = match genesis_world g0 with Ok w => w | Err _ => w0 end) by (rewrite E; reflexivity).
  rewrite Hw. clear. eexists. split; [vm_compute; reflexivity|]. vm_compute. repeat split; reflexivity.
Qed.

(* ---------- ClaimTwice.claim_twice_single_lp on a real world: alice (one LP denom, cursor 2) at epoch 4 ---------- *)
Definition twice_statement : Prop :=
  exists w0, genesis_world g0 = Ok w0 /\
    let wA := run w0 (ops0 ++ [SetBlock (day 4)]) in
    exists sA msgs1 sB msgs2 sC msgsC,
      claim wA "alice" [] (Some 3) = Ok (sA, msgs1) /\
      claim (set_fm wA sA) "alice" [] (Some 4) = Ok (sB, msgs2) /\
      claim wA "alice" [] (Some 4) = Ok (sC, msgsC) /\
      unique_lp_denoms (positions_by_receiver (w_fm wA) "alice" true) = [lp0] /\
      lc_get (fm_last_claimed (w_fm wA)) "alice" = Some 2 /\
      out_amt msgs1 "uusdc" = 262 /\ out_amt msgs2 "uusdc" = 262 /\ out_amt msgsC "uusdc" = 524.

Lemma twice_example : twice_statement.
Proof.
  unfold twice_statement.
  destruct (genesis_world g0) as [w0|e] eqn:E; [|vm_compute in E; discriminate].
  exists w0. split; [reflexivity|]. cbv zeta.
  assert (Hw : w0 = match genesis_world g0 with Ok w => w | Err _ => w0 end) by (rewrite E; reflexivity).
  rewrite Hw. clear.
  set (wA := run match genesis_world g0 with Ok w => w | Err _ => w0 end (ops0 ++ [SetBlock (day 4)])).
  destruct (claim wA "alice" [] (Some 3)) as [[sA msgs1]|e] eqn:E1; [|vm_compute in E1; discriminate].
  exists sA, msgs1.
  assert (HsA : (sA, msgs1) = match claim wA "alice" [] (Some 3) with Ok r => r | Err _ => (sA, msgs1) end) by (rewrite E1; reflexivity).
  destruct (claim (set_fm wA sA) "alice" [] (Some 4)) as [[sB msgs2]|e] eqn:E2.
  2:{ exfalso. replace sA with (fst (sA, msgs1)) in E2 by reflexivity. rewrite HsA in E2. vm_compute in E2. discriminate. }
  destruct (claim wA "alice" [] (Some 4)) as [[sC msgsC]|e] eqn:E3; [|vm_compute in E3; discriminate].
  exists sB, msgs2, sC, msgsC. split; [reflexivity|]. split; [reflexivity|]. split; [reflexivity|].
  split; [vm_compute; reflexivity|]. split; [vm_compute; reflexivity|].
  split.
  { replace msgs1 with (snd (sA, msgs1)) by reflexivity. rewrite HsA. vm_compute. reflexivity. }
  split.
  { assert (H2 : (sB, msgs2) = match claim (set_fm wA (fst (match claim wA "alice" [] (Some 3) with Ok r => r | Err _ => (sA, msgs1) end))) "alice" [] (Some 4) with Ok r => r | Err _ => (sB, msgs2) end).
    { rewrite <- HsA. cbn [fst]. rewrite E2. reflexivity. }
    replace msgs2 with (snd (sB, msgs2)) by reflexivity. rewrite H2. vm_compute. reflexivity. }
  assert (H3 : (sC, msgsC) = match claim wA "alice" [] (Some 4) with Ok r => r | Err _ => (sC, msgsC) end) by (rewrite E3; reflexivity).
  replace msgsC with (snd (sC, msgsC)) by reflexivity. rewrite H3. vm_compute. reflexivity.
Qed.
