(* C07, schedule independence (the true part): the rewards a farm pays for the epochs (lc, u2] do not depend on whether
   the user claims once at u2 or first at some u1 and then at u2 — epoch by epoch the same amounts. *)
From Coq Require Import ZArith List String Lia Bool.
From MD.Model Require Import Base Ownable Epoch PoolMath Types PoolManager FarmManager.
From MD.Proofs Require Import Tactics Arith PoolMathProofs MapLemmas BankProofs WeightProofs FarmProofs RewardProofs FarmCustody ClaimFrame.
Import ListNotations.
Open Scope Z_scope.

(* ---------- epoch ranges ---------- *)
Lemma epoch_range_empty lo hi : hi < lo -> epoch_range lo hi = [].
Proof. intros H. unfold epoch_range. replace (hi <? lo) with true by lia. reflexivity. Qed.

Lemma epoch_range_cons lo hi : lo <= hi -> epoch_range lo hi = lo :: epoch_range (lo + 1) hi.
Proof.
  intros H. unfold epoch_range. replace (hi <? lo) with false by lia.
  replace (Z.to_nat (hi - lo + 1)) with (S (Z.to_nat (hi - lo))) by lia. cbn [seq map].
  f_equal; [lia|]. destruct (hi <? lo + 1) eqn:E.
  - replace (Z.to_nat (hi - lo)) with 0%nat by lia. reflexivity.
  - replace (Z.to_nat (hi - (lo + 1) + 1)) with (Z.to_nat (hi - lo)) by lia.
    rewrite <- seq_shift, map_map. apply map_ext. intros k. lia.
Qed.

Lemma epoch_range_split lo mid hi : lo - 1 <= mid <= hi -> epoch_range lo hi = (epoch_range lo mid ++ epoch_range (mid + 1) hi)%list.
Proof.
  intros H. remember (Z.to_nat (mid - lo + 1)) as n eqn:Hn. revert lo H Hn.
  induction n as [|n IH]; intros lo H Hn.
  - assert (mid = lo - 1) by lia. subst mid. rewrite (epoch_range_empty lo (lo - 1)) by lia.
    replace (lo - 1 + 1) with lo by lia. reflexivity.
  - rewrite (epoch_range_cons lo hi) by lia. rewrite (epoch_range_cons lo mid) by lia. cbn [app]. f_equal.
    apply IH; lia.
Qed.

Lemma in_epoch_range lo hi e : In e (epoch_range lo hi) <-> lo <= e <= hi.
Proof.
  unfold epoch_range. destruct (hi <? lo) eqn:E.
  - split; [intros [] | lia].
  - rewrite in_map_iff. split.
    + intros (k & <- & Hk). apply in_seq in Hk. lia.
    + intros H. exists (Z.to_nat (e - lo)). split; [lia|]. apply in_seq. lia.
Qed.

(* ---------- carry-forward ---------- *)
Definition cf (ws : list (wkey * Z)) (a lp : string) (l : list Z) (v0 : Z) : Z :=
  fold_left (fun lastw ep => match w_get ws (mkw a lp ep) with Some v => v | None => lastw end) l v0.

Lemma cf_app ws a lp l1 l2 v0 : cf ws a lp (l1 ++ l2) v0 = cf ws a lp l2 (cf ws a lp l1 v0).
Proof. unfold cf. apply fold_left_app. Qed.

Lemma cf_none ws a lp l v0 : (forall e, In e l -> w_get ws (mkw a lp e) = None) -> cf ws a lp l v0 = v0.
Proof.
  revert v0. induction l as [|x r IH]; intros v0 H; cbn; [reflexivity|].
  rewrite (H x (or_introl eq_refl)). apply IH. intros e He. apply H. right. exact He.
Qed.

Lemma cf_last ws a lp l x v v0 : w_get ws (mkw a lp x) = Some v -> cf ws a lp (l ++ [x]) v0 = v.
Proof. intros H. rewrite cf_app. cbn. rewrite H. reflexivity. Qed.

(* ---------- physical entries, earliest and latest ---------- *)
Lemma w_get_in ws k v : w_get ws k = Some v -> exists k', In (k', v) ws /\ wkey_eqb k k' = true.
Proof.
  induction ws as [|[k' v'] r IH]; cbn [w_get]; [discriminate|].
  destruct (wkey_eqb k k') eqn:E.
  - intros H. inversion H; subst. exists k'. split; [left; reflexivity | exact E].
  - intros H. destruct (IH H) as (k2 & Hin & Hk). exists k2. split; [right; exact Hin | exact Hk].
Qed.

Definition lstep (a lp : string) (acc : option (Z * Z)) (kv : wkey * Z) : option (Z * Z) :=
  if wkey_pref a lp (fst kv) then
    match acc with
    | Some (e, _) => if e <? wk_epoch (fst kv) then Some (wk_epoch (fst kv), snd kv) else acc
    | None => Some (wk_epoch (fst kv), snd kv)
    end
  else acc.
Lemma w_latest_fold l a lp : w_latest l a lp = fold_left (lstep a lp) l None.
Proof. reflexivity. Qed.

Lemma key_match a lp k e : wkey_pref a lp k = true -> wk_epoch k = e -> wkey_eqb (mkw a lp e) k = true.
Proof.
  unfold wkey_pref, wkey_eqb, mkw. cbn [wk_addr wk_lp wk_epoch]. intros H He. apply andb_true_iff in H. destruct H as [A L].
  apply String.eqb_eq in A, L. rewrite A, L, He, !String.eqb_refl, Z.eqb_refl. reflexivity.
Qed.
Lemma key_match_inv a lp k e : wkey_eqb (mkw a lp e) k = true -> wkey_pref a lp k = true /\ wk_epoch k = e.
Proof.
  unfold wkey_pref, wkey_eqb, mkw. cbn [wk_addr wk_lp wk_epoch]. intros H. apply andb_true_iff in H. destruct H as [H E].
  apply andb_true_iff in H. destruct H as [A L]. apply String.eqb_eq in A, L. apply Z.eqb_eq in E. subst.
  rewrite !String.eqb_refl. auto.
Qed.

(* latest: an upper bound of all physical entries, never decreasing, and what w_get returns at its epoch *)
Lemma latest_bound a lp : forall l acc e1 w1,
  fold_left (lstep a lp) l acc = Some (e1, w1) ->
  (forall kv, In kv l -> wkey_pref a lp (fst kv) = true -> wk_epoch (fst kv) <= e1) /\
  (match acc with Some (e, _) => e <= e1 | None => True end).
Proof.
  induction l as [|kv r IH]; intros acc e1 w1 H; cbn [fold_left] in H.
  - subst acc. split; [intros kv []|lia].
  - destruct (IH _ _ _ H) as (A & B). split.
    + intros kv' [<-|Hin] Hp; [|apply A; assumption].
      unfold lstep in B. rewrite Hp in B. destruct acc as [[e v]|]; [destruct (e <? wk_epoch (fst kv)) eqn:E; lia | exact B].
    + unfold lstep in B. destruct (wkey_pref a lp (fst kv)); [|exact B].
      destruct acc as [[e v]|]; [|exact I]. destruct (e <? wk_epoch (fst kv)) eqn:E; lia.
Qed.

Lemma latest_mono a lp : forall l e v e1 w1,
  fold_left (lstep a lp) l (Some (e, v)) = Some (e1, w1) -> e <= e1 /\ (e = e1 -> v = w1).
Proof.
  induction l as [|kv r IH]; intros e v e1 w1 H; cbn [fold_left] in H.
  - inversion H; subst. split; [lia | reflexivity].
  - unfold lstep in H at 2. destruct (wkey_pref a lp (fst kv)); [|apply IH; exact H].
    destruct (e <? wk_epoch (fst kv)) eqn:E; [|apply IH; exact H].
    apply IH in H. destruct H as [H _]. split; lia.
Qed.

Lemma latest_get a lp : forall l acc e1 w1,
  fold_left (lstep a lp) l acc = Some (e1, w1) -> acc = Some (e1, w1) \/ w_get l (mkw a lp e1) = Some w1.
Proof.
  induction l as [|[k v] r IH]; intros acc e1 w1 H; cbn [fold_left] in H; [left; exact H|].
  cbn [w_get]. destruct (IH _ _ _ H) as [Hacc | Hget].
  - unfold lstep in Hacc. cbn [fst snd] in Hacc. destruct (wkey_pref a lp k) eqn:Hp; [|left; exact Hacc].
    destruct acc as [[e0 v0]|].
    + destruct (e0 <? wk_epoch k) eqn:E; [|left; exact Hacc].
      inversion Hacc; subst. right. rewrite (key_match a lp k (wk_epoch k) Hp eq_refl). reflexivity.
    + inversion Hacc; subst. right. rewrite (key_match a lp k (wk_epoch k) Hp eq_refl). reflexivity.
  - destruct (wkey_eqb (mkw a lp e1) k) eqn:Ek; [|right; exact Hget].
    destruct (key_match_inv _ _ _ _ Ek) as [Hp He].
    unfold lstep in H at 2. cbn [fst snd] in H. rewrite Hp, He in H.
    destruct acc as [[e0 v0]|].
    + destruct (e0 <? e1) eqn:E.
      * apply latest_mono in H. destruct H as [_ H]. rewrite (H eq_refl). right. reflexivity.
      * destruct (latest_mono _ _ _ _ _ _ _ H) as [Hle Heq]. assert (e0 = e1) by lia. subst e0. rewrite (Heq eq_refl). left. reflexivity.
    + apply latest_mono in H. destruct H as [_ H]. rewrite (H eq_refl). right. reflexivity.
Qed.

Lemma w_latest_spec ws a lp e1 w1 :
  w_latest ws a lp = Some (e1, w1) ->
  w_get ws (mkw a lp e1) = Some w1 /\ forall e v, w_get ws (mkw a lp e) = Some v -> e <= e1.
Proof.
  rewrite w_latest_fold. intros H. split.
  - destruct (latest_get _ _ _ _ _ _ H) as [C|G]; [discriminate | exact G].
  - intros e v Hg. destruct (w_get_in _ _ _ Hg) as (k' & Hin & Hk). destruct (key_match_inv _ _ _ _ Hk) as [Hp He].
    destruct (latest_bound _ _ _ _ _ _ H) as [A _]. specialize (A (k', v) Hin Hp). cbn [fst] in A. lia.
Qed.

(* earliest, symmetric *)
Lemma earliest_bound a lp : forall l acc e0 w0,
  fold_left (estep a lp) l acc = Some (e0, w0) ->
  (forall kv, In kv l -> wkey_pref a lp (fst kv) = true -> e0 <= wk_epoch (fst kv)) /\
  (match acc with Some (e, _) => e0 <= e | None => True end).
Proof.
  induction l as [|kv r IH]; intros acc e0 w0 H; cbn [fold_left] in H.
  - subst acc. split; [intros kv []|lia].
  - destruct (IH _ _ _ H) as (A & B). split.
    + intros kv' [<-|Hin] Hp; [|apply A; assumption].
      unfold estep in B. rewrite Hp in B. destruct acc as [[e v]|]; [destruct (wk_epoch (fst kv) <? e) eqn:E; lia | exact B].
    + unfold estep in B. destruct (wkey_pref a lp (fst kv)); [|exact B].
      destruct acc as [[e v]|]; [|exact I]. destruct (wk_epoch (fst kv) <? e) eqn:E; lia.
Qed.

Lemma earliest_mono a lp : forall l e v e0 w0,
  fold_left (estep a lp) l (Some (e, v)) = Some (e0, w0) -> e0 <= e /\ (e = e0 -> v = w0).
Proof.
  induction l as [|kv r IH]; intros e v e0 w0 H; cbn [fold_left] in H.
  - inversion H; subst. split; [lia | reflexivity].
  - unfold estep in H at 2. destruct (wkey_pref a lp (fst kv)); [|apply IH; exact H].
    destruct (wk_epoch (fst kv) <? e) eqn:E; [|apply IH; exact H].
    apply IH in H. destruct H as [H _]. split; lia.
Qed.

Lemma earliest_get a lp : forall l acc e0 w0,
  fold_left (estep a lp) l acc = Some (e0, w0) -> acc = Some (e0, w0) \/ w_get l (mkw a lp e0) = Some w0.
Proof.
  induction l as [|[k v] r IH]; intros acc e0 w0 H; cbn [fold_left] in H; [left; exact H|].
  cbn [w_get]. destruct (IH _ _ _ H) as [Hacc | Hget].
  - unfold estep in Hacc. cbn [fst snd] in Hacc. destruct (wkey_pref a lp k) eqn:Hp; [|left; exact Hacc].
    destruct acc as [[e v0]|].
    + destruct (wk_epoch k <? e) eqn:E; [|left; exact Hacc].
      inversion Hacc; subst. right. rewrite (key_match a lp k (wk_epoch k) Hp eq_refl). reflexivity.
    + inversion Hacc; subst. right. rewrite (key_match a lp k (wk_epoch k) Hp eq_refl). reflexivity.
  - destruct (wkey_eqb (mkw a lp e0) k) eqn:Ek; [|right; exact Hget].
    destruct (key_match_inv _ _ _ _ Ek) as [Hp He].
    unfold estep in H at 2. cbn [fst snd] in H. rewrite Hp, He in H.
    destruct acc as [[e v0]|].
    + destruct (e0 <? e) eqn:E.
      * apply earliest_mono in H. destruct H as [_ H]. rewrite (H eq_refl). right. reflexivity.
      * destruct (earliest_mono _ _ _ _ _ _ _ H) as [Hle Heq]. assert (e = e0) by lia. subst e. rewrite (Heq eq_refl). left. reflexivity.
    + apply earliest_mono in H. destruct H as [_ H]. rewrite (H eq_refl). right. reflexivity.
Qed.

Lemma w_earliest_spec ws a lp e0 w0 :
  w_earliest ws a lp = Some (e0, w0) ->
  w_get ws (mkw a lp e0) = Some w0 /\ forall e v, w_get ws (mkw a lp e) = Some v -> e0 <= e.
Proof.
  rewrite w_earliest_fold. intros H. split.
  - destruct (earliest_get _ _ _ _ _ _ H) as [C|G]; [discriminate | exact G].
  - intros e v Hg. destruct (w_get_in _ _ _ Hg) as (k' & Hin & Hk). destruct (key_match_inv _ _ _ _ Hk) as [Hp He].
    destruct (earliest_bound _ _ _ _ _ _ H) as [A _]. specialize (A (k', v) Hin Hp). cbn [fst] in A. lia.
Qed.

(* ---------- table operations of the synchronisation ---------- *)
Lemma wkey_eqb_refl k : wkey_eqb k k = true.
Proof. unfold wkey_eqb. rewrite !String.eqb_refl, Z.eqb_refl. reflexivity. Qed.

Lemma wkey_eqb_trans_l k k1 k2 : wkey_eqb k k1 = true -> wkey_eqb k k2 = wkey_eqb k1 k2.
Proof.
  unfold wkey_eqb. intros H. apply andb_true_iff in H. destruct H as [H E]. apply andb_true_iff in H. destruct H as [A L].
  apply String.eqb_eq in A, L. apply Z.eqb_eq in E. rewrite A, L, E. reflexivity.
Qed.

Lemma w_get_set_same k v : forall l, w_get (w_set l k v) k = Some v.
Proof.
  induction l as [|[k' v'] r IH]; cbn [w_set w_get]; [rewrite wkey_eqb_refl; reflexivity|].
  destruct (wkey_eqb k k') eqn:E; cbn [w_get]; rewrite E; [reflexivity | exact IH].
Qed.

Lemma w_get_filter_none p k : forall l,
  (forall kv, In kv l -> wkey_eqb k (fst kv) = true -> p kv = false) -> w_get (filter p l) k = None.
Proof.
  induction l as [|[k' v] r IH]; intros H; cbn [filter]; [reflexivity|].
  destruct (p (k', v)) eqn:Ep.
  - cbn [w_get]. destruct (wkey_eqb k k') eqn:E.
    + rewrite (H (k', v) (or_introl eq_refl) E) in Ep. discriminate.
    + apply IH. intros kv Hin. apply H. right. exact Hin.
  - apply IH. intros kv Hin. apply H. right. exact Hin.
Qed.

Definition synced (ws : list (wkey * Z)) (a lp : string) (e0 e1 u w1 : Z) : list (wkey * Z) :=
  w_set (w_remove_range ws a lp e0 e1) (mkw a lp u) w1.

(* after the synchronisation the address has exactly one entry for that LP denom: its latest weight, at the claim epoch *)
Lemma synced_get ws a lp e0 x0 e1 w1 u e :
  w_earliest ws a lp = Some (e0, x0) -> w_latest ws a lp = Some (e1, w1) ->
  w_get (synced ws a lp e0 e1 u w1) (mkw a lp e) = if e =? u then Some w1 else None.
Proof.
  intros He Hl. unfold synced. destruct (e =? u) eqn:E.
  - apply Z.eqb_eq in E. subst e. apply w_get_set_same.
  - rewrite w_get_set_other.
    + apply w_get_filter_none. intros kv Hin Hk. destruct (key_match_inv _ _ _ _ Hk) as [Hp Hep].
      rewrite w_earliest_fold in He. rewrite w_latest_fold in Hl.
      destruct (earliest_bound _ _ _ _ _ _ He) as [A _]. destruct (latest_bound _ _ _ _ _ _ Hl) as [B _].
      specialize (A kv Hin Hp). specialize (B kv Hin Hp). rewrite Hp.
      replace (e0 <=? wk_epoch (fst kv)) with true by lia. replace (wk_epoch (fst kv) <=? e1) with true by lia. reflexivity.
    + unfold wkey_eqb, mkw. cbn [wk_addr wk_lp wk_epoch]. rewrite E. apply andb_false_r.
Qed.

(* entries of other addresses are untouched *)
Lemma synced_other ws a lp e0 e1 u w1 b :
  String.eqb b a = false ->
  (forall e, w_get (synced ws a lp e0 e1 u w1) (mkw b lp e) = w_get ws (mkw b lp e)) /\
  w_earliest (synced ws a lp e0 e1 u w1) b lp = w_earliest ws b lp.
Proof.
  intros Hb. unfold synced. split.
  - intros e. rewrite w_get_set_other.
    + apply w_get_filter. intros kv Hk. destruct (key_match_inv _ _ _ _ Hk) as [Hp _].
      unfold wkey_pref in *. apply andb_true_iff in Hp. destruct Hp as [A _]. apply String.eqb_eq in A. rewrite A, Hb. reflexivity.
    + unfold wkey_eqb, mkw. cbn [wk_addr wk_lp wk_epoch]. rewrite Hb. reflexivity.
  - rewrite !w_earliest_fold. rewrite earliest_set_other.
    + apply earliest_filter. intros kv Hk. apply negb_false_iff in Hk. apply andb_true_iff in Hk. destruct Hk as [Hk _].
      apply andb_true_iff in Hk. destruct Hk as [Hk _]. unfold wkey_pref in *. apply andb_true_iff in Hk. destruct Hk as [A _].
      apply String.eqb_eq in A. rewrite A. rewrite String.eqb_sym, Hb. reflexivity.
    + unfold wkey_pref, mkw. cbn [wk_addr wk_lp]. rewrite String.eqb_sym, Hb. reflexivity.
Qed.

(* ---------- the user's weight does not depend on the intermediate claim ---------- *)
Lemma address_weight_cf ws a lp start e : address_weight_at ws a lp start e = cf ws a lp (epoch_range (start - 1) e) 0.
Proof. reflexivity. Qed.

Lemma epoch_range_single e : epoch_range e e = [e].
Proof. rewrite epoch_range_cons by lia. rewrite epoch_range_empty by lia. reflexivity. Qed.

Lemma weight_from_latest ws a lp e1 w1 lo e :
  w_latest ws a lp = Some (e1, w1) -> lo <= e1 <= e -> cf ws a lp (epoch_range lo e) 0 = w1.
Proof.
  intros Hl Hr. destruct (w_latest_spec _ _ _ _ _ Hl) as [Hg Hmax].
  rewrite (epoch_range_split lo e1 e) by lia. rewrite cf_app.
  rewrite (epoch_range_split lo (e1 - 1) e1) by lia. replace (e1 - 1 + 1) with e1 by lia. rewrite epoch_range_single.
  rewrite (cf_last _ _ _ _ _ _ _ Hg). apply cf_none.
  intros x Hx. apply in_epoch_range in Hx. destruct (w_get ws (mkw a lp x)) as [v|] eqn:E; [|reflexivity].
  specialize (Hmax _ _ E). lia.
Qed.

Lemma weight_after_sync ws a lp e0 x0 e1 w1 u e :
  w_earliest ws a lp = Some (e0, x0) -> w_latest ws a lp = Some (e1, w1) -> u <= e ->
  address_weight_at (synced ws a lp e0 e1 u w1) a lp (u + 1) e = w1.
Proof.
  intros He Hl Hr. rewrite address_weight_cf. replace (u + 1 - 1) with u by lia.
  rewrite (epoch_range_cons u e) by lia. unfold cf. cbn [fold_left].
  rewrite (synced_get _ _ _ _ _ _ _ u u He Hl), Z.eqb_refl.
  fold (cf (synced ws a lp e0 e1 u w1) a lp (epoch_range (u + 1) e) w1). apply cf_none.
  intros x Hx. apply in_epoch_range in Hx. rewrite (synced_get _ _ _ _ _ _ _ u x He Hl).
  replace (x =? u) with false by lia. reflexivity.
Qed.

(* ---------- the total weight of an epoch does not depend on where the computation starts ---------- *)
Lemma contract_weight_indep ws lp e0c w0c start e :
  w_earliest ws FM lp = Some (e0c, w0c) -> e0c <= start <= e ->
  contract_weight_at ws lp start e = Ok (Some (cf ws FM lp (epoch_range (e0c + 1) e) w0c)).
Proof.
  intros He Hr. destruct (w_earliest_spec _ _ _ _ _ He) as [Hg Hmin].
  unfold contract_weight_at. destruct (w_get ws (mkw FM lp start)) as [w0|] eqn:Es.
  - f_equal. f_equal. fold (cf ws FM lp (epoch_range (start + 1) e) w0).
    rewrite (epoch_range_split (e0c + 1) start e) by lia. rewrite cf_app. f_equal.
    destruct (Z.eq_dec start e0c) as [->|Hne].
    + rewrite epoch_range_empty by lia. cbn. congruence.
    + rewrite (epoch_range_split (e0c + 1) (start - 1) start) by lia. replace (start - 1 + 1) with start by lia.
      rewrite epoch_range_single. symmetry. apply (cf_last _ _ _ _ _ _ _ Es).
  - rewrite He. assert (start <> e0c) by (intros ->; congruence).
    replace ((e0c + 1 <=? e) && (start <=? e)) with true by lia. reflexivity.
Qed.

(* ---------- the per-epoch loop of farm_rewards ---------- *)
Definition reward_step (ws : list (wkey * Z)) (f : farm) (lp recv : string) (start : Z) (acc : list (Z * Z)) (e : Z)
  : res (list (Z * Z)) :=
  if e <? f_start f then Ok acc else
  let uw := address_weight_at ws recv lp start e in
  let* tw := contract_weight_at ws lp start e in
  match tw with
  | None => Ok acc
  | Some total =>
      if total =? 0 then Ok acc else
      let* reward := chk U128_MAX (f_rate f * uw / total) in
      let* sum := cadd U128_MAX reward (f_claimed f) in
      let* _ := ensure (sum <=? amount_of (f_asset f)) "FarmExhausted" in
      Ok (acc ++ [(e, reward)])%list
  end.

Definition until_of (f : farm) (until : Z) : Z := if f_end f <=? until then f_end f - 1 else until.

Lemma farm_rewards_some s f lp recv until c :
  farm_rewards s f lp recv until (Some c) =
  if in_range U64_MAX (c + 1) then
    let* _ := ensure (1 <=? c + 1) "panic: subtract with overflow" in
    let* _ := contract_weight_at (fm_weights s) lp (c + 1) (c + 1) in
    let* _ := ensure (1 <=? f_end f) "panic: subtract with overflow" in
    foldM (reward_step (fm_weights s) f lp recv (c + 1)) (epoch_range (c + 1) (until_of f until)) []
  else Err "panic: add overflow".
Proof. unfold farm_rewards, start_from_epoch. destruct (in_range U64_MAX (c + 1)); reflexivity. Qed.

Lemma foldM_app {A B} (f : B -> A -> res B) l1 l2 b :
  foldM f (l1 ++ l2) b = let* b1 := foldM f l1 b in foldM f l2 b1.
Proof.
  revert b. induction l1 as [|x r IH]; intros b; cbn [app foldM]; [reflexivity|].
  destruct (f b x) as [b'|e]; cbn [bind]; [apply IH | reflexivity].
Qed.

Lemma reward_step_acc ws f lp recv st acc e :
  reward_step ws f lp recv st acc e = let* r := reward_step ws f lp recv st [] e in Ok (acc ++ r)%list.
Proof.
  unfold reward_step. destruct (e <? f_start f); [cbn; rewrite app_nil_r; reflexivity|].
  destruct (contract_weight_at ws lp st e) as [[total|]|err]; cbn [bind]; try (rewrite app_nil_r; reflexivity); [|reflexivity].
  destruct (total =? 0); [cbn; rewrite app_nil_r; reflexivity|].
  destruct (chk U128_MAX _) as [reward|err]; cbn [bind]; [|reflexivity].
  destruct (cadd U128_MAX reward (f_claimed f)) as [sum|err]; cbn [bind]; [|reflexivity].
  destruct (ensure _ _) as [[]|err]; cbn [bind]; reflexivity.
Qed.

Lemma reward_fold_acc ws f lp recv st l : forall acc,
  foldM (reward_step ws f lp recv st) l acc = let* r := foldM (reward_step ws f lp recv st) l [] in Ok (acc ++ r)%list.
Proof.
  induction l as [|x r IH]; intros acc; cbn [foldM]; [cbn; rewrite app_nil_r; reflexivity|].
  rewrite (reward_step_acc ws f lp recv st acc x).
  destruct (reward_step ws f lp recv st [] x) as [r0|err]; cbn [bind]; [|reflexivity].
  rewrite (IH (acc ++ r0)%list), (IH r0).
  destruct (foldM (reward_step ws f lp recv st) r []) as [r1|err]; cbn [bind]; [rewrite app_assoc; reflexivity | reflexivity].
Qed.

Lemma elem_le_sum rs : Forall (fun er => 0 <= snd er) rs -> forall er, In er rs -> snd er <= sum_snd rs /\ 0 <= sum_snd rs.
Proof.
  induction rs as [|x r IH]; intros H er Hin; [destruct Hin|].
  inversion H as [|y ys Hx Hr]; subst. cbn [sum_snd].
  assert (0 <= sum_snd r) by (clear - Hr; induction r as [|z t IHt]; cbn; [lia|]; inversion Hr; subst; specialize (IHt H2); lia).
  destruct Hin as [->|Hin]; [lia|]. destruct (IH Hr er Hin). lia.
Qed.

Lemma sum_snd_app a b : sum_snd (a ++ b) = sum_snd a + sum_snd b.
Proof. induction a as [|x r IH]; cbn; [lia | rewrite IH; lia]. Qed.

(* the same loop run in another configuration with the same per-epoch weights gives the same list, provided the budget
   check of the other configuration passes for every produced reward *)
Lemma rewards_transfer wsA fA stA wsB fB stB lp recv l :
  f_start fB = f_start fA -> f_rate fB = f_rate fA -> f_asset fB = f_asset fA ->
  (forall e, In e l -> address_weight_at wsB recv lp stB e = address_weight_at wsA recv lp stA e /\
                       contract_weight_at wsB lp stB e = contract_weight_at wsA lp stA e) ->
  forall acc R, foldM (reward_step wsA fA lp recv stA) l acc = Ok R ->
  (forall er, In er R -> 0 <= snd er + f_claimed fB <= U128_MAX /\ snd er + f_claimed fB <= amount_of (f_asset fA)) ->
  foldM (reward_step wsB fB lp recv stB) l acc = Ok R.
Proof.
  intros Hst Hrate Hasset. induction l as [|x r IH]; intros Hw acc R H Hb; cbn [foldM] in *; [exact H|].
  apply bind_ok in H. destruct H as [acc' [Hs H]].
  assert (Hsub : forall er, In er acc' -> In er R).
  { rewrite reward_fold_acc in H. apply bind_ok in H. destruct H as [r0 [_ H]]. inversion H; subst. intros er Her. apply in_app_iff. left. exact Her. }
  assert (HsB : reward_step wsB fB lp recv stB acc x = Ok acc').
  { destruct (Hw x (or_introl eq_refl)) as [Hu Ht]. unfold reward_step in Hs |- *. rewrite Hst, Hu, Ht, Hrate, Hasset.
    destruct (x <? f_start fA); [exact Hs|].
    destruct (contract_weight_at wsA lp stA x) as [[total|]|err]; cbn [bind] in *; try exact Hs.
    destruct (total =? 0); [exact Hs|].
    destruct (chk U128_MAX (f_rate fA * address_weight_at wsA recv lp stA x / total)) as [reward|err]; cbn [bind] in *; [|discriminate].
    apply bind_ok in Hs. destruct Hs as [sum [_ Hs]]. apply bind_ok in Hs. destruct Hs as [[] [_ Hs]]. inversion Hs; subst acc'.
    assert (Hin : In (x, reward) (acc ++ [(x, reward)])) by (apply in_or_app; right; left; reflexivity).
    destruct (Hb (x, reward) (Hsub _ Hin)) as [B1 B2]. cbn [snd] in B1, B2.
    unfold cadd. rewrite (chk_ok_intro _ _ B1). cbn [bind].
    replace (reward + f_claimed fB <=? amount_of (f_asset fA)) with true by lia. reflexivity. }
  rewrite HsB. cbn [bind]. apply IH; [|exact H|exact Hb]. intros e He. apply Hw. right. exact He.
Qed.

Lemma contract_weight_at_fm ws ws' lp st e :
  (forall ep, w_get ws' (mkw FM lp ep) = w_get ws (mkw FM lp ep)) -> w_earliest ws' FM lp = w_earliest ws FM lp ->
  contract_weight_at ws' lp st e = contract_weight_at ws lp st e.
Proof.
  intros G E. unfold contract_weight_at. rewrite G, E.
  destruct (w_get ws (mkw FM lp st)) as [w0|].
  - f_equal. f_equal. apply fold_left_ext. intros x y. rewrite G. reflexivity.
  - destruct (w_earliest ws FM lp) as [[e0 w0]|]; [|reflexivity].
    destruct ((e0 + 1 <=? e) && (st <=? e)); [|reflexivity].
    f_equal. f_equal. apply fold_left_ext. intros x y. rewrite G. reflexivity.
Qed.

(* ---------- one claim = two claims, farm by farm, epoch by epoch ---------- *)
(* s: the state before; the user last claimed at lc; all weight entries of the user for this LP denom lie in [lc, u1+1]
   (written by the previous synchronisation at lc and by position changes, which are recorded for the epoch after the
   current one); the contract's own weight history starts at or before lc+1.
   s1, f1: the state and the farm after an intermediate claim at u1 (weights synchronised at u1, claimed amount
   increased by what that claim paid from this farm).
   Then the one claim at u2 pays, epoch by epoch, exactly what the claim at u1 and the later claim at u2 pay together. *)
Theorem farm_rewards_split s f lp recv lc u1 u2 R e0 x0 e1 w1 e0c w0c s1 f1 :
  farm_rewards s f lp recv u2 (Some lc) = Ok R ->
  lc <= u1 <= u2 -> u1 < U64_MAX ->
  String.eqb FM recv = false ->
  w_earliest (fm_weights s) recv lp = Some (e0, x0) -> w_latest (fm_weights s) recv lp = Some (e1, w1) -> lc <= e1 <= u1 + 1 ->
  w_earliest (fm_weights s) FM lp = Some (e0c, w0c) -> e0c <= lc + 1 ->
  0 <= f_claimed f -> f_claimed f + sum_snd R <= amount_of (f_asset f) <= U128_MAX ->
  wsame lp (synced (fm_weights s) recv lp e0 e1 u1 w1) (fm_weights s1) ->
  (forall R1, f1 = {| f_id := f_id f; f_owner := f_owner f; f_lp := f_lp f; f_asset := f_asset f;
                      f_claimed := f_claimed f + sum_snd R1; f_rate := f_rate f; f_start := f_start f; f_end := f_end f |} ->
   farm_rewards s f lp recv u1 (Some lc) = Ok R1 ->
   exists R2, farm_rewards s1 f1 lp recv u2 (Some u1) = Ok R2 /\ R = (R1 ++ R2)%list) /\
  exists R1, farm_rewards s f lp recv u1 (Some lc) = Ok R1.
Proof.
  intros H Hu Hu1 Hrecv He Hl Hle Hec Hec0 Hcl Hbud Hws1.
  pose proof (farm_rewards_nonneg _ _ _ _ _ _ _ H) as Hnn.
  rewrite farm_rewards_some in H. destruct (in_range U64_MAX (lc + 1)) eqn:Hir; [|discriminate].
  apply bind_ok in H. destruct H as [[] [H1 H]]. apply bind_ok in H. destruct H as [cw0 [H2 H]].
  apply bind_ok in H. destruct H as [[] [H3 H]].
  pose proof (ensure_ok _ _ _ H1) as Hlc1.
  (* the first claim runs the same loop on a prefix of the epochs *)
  assert (Hfirst : exists R1 R2, farm_rewards s f lp recv u1 (Some lc) = Ok R1 /\ R = (R1 ++ R2)%list /\
                     foldM (reward_step (fm_weights s) f lp recv (lc + 1)) (epoch_range (u1 + 1) (until_of f u2)) [] = Ok R2 /\
                     (f_end f <= u1 -> R2 = [])).
  { rewrite farm_rewards_some, Hir, H1, H2, H3. cbn [bind]. unfold until_of in *.
    destruct (f_end f <=? u1) eqn:E1.
    - replace (f_end f <=? u2) with true in * by lia. exists R, []. rewrite app_nil_r.
      split; [exact H|]. split; [reflexivity|]. split; [|reflexivity]. rewrite epoch_range_empty by lia. reflexivity.
    - assert (Hmid : lc + 1 - 1 <= u1 <= (if f_end f <=? u2 then f_end f - 1 else u2)) by (destruct (f_end f <=? u2); lia).
      rewrite (epoch_range_split _ u1 _ Hmid), foldM_app in H.
      apply bind_ok in H. destruct H as [R1 [Ha Hb]]. rewrite reward_fold_acc in Hb.
      apply bind_ok in Hb. destruct Hb as [R2 [Hb Hc]]. inversion Hc; subst R.
      exists R1, R2. split; [exact Ha|]. split; [reflexivity|]. split; [exact Hb | lia]. }
  destruct Hfirst as (R1 & R2 & HR1 & HR & HR2 & Hempty).
  split; [|exists R1; exact HR1].
  intros R1' Hf1 HR1'. rewrite HR1 in HR1'. inversion HR1'; subst R1'; clear HR1'.
  exists R2. split; [|exact HR].
  assert (Hsame : forall st e, contract_weight_at (fm_weights s1) lp st e = contract_weight_at (fm_weights s) lp st e).
  { intros st e. rewrite (contract_weight_at_same lp _ _ st e Hws1).
    destruct (synced_other (fm_weights s) recv lp e0 e1 u1 w1 FM Hrecv) as [G E].
    apply contract_weight_at_fm; assumption. }
  assert (Hstart : e0c <= lc + 1 <= u1 + 1) by lia.
  rewrite farm_rewards_some. replace (in_range U64_MAX (u1 + 1)) with true by (unfold in_range; lia).
  replace (1 <=? u1 + 1) with true by lia. cbn [ensure bind].
  rewrite Hsame, (contract_weight_indep _ _ _ _ (u1 + 1) (u1 + 1) Hec) by lia. cbn [bind].
  subst f1. cbn [f_end]. rewrite H3. cbn [bind].
  unfold until_of at 1. cbn [f_end]. fold (until_of f u2).
  destruct (Z_le_gt_dec (f_end f) u1) as [Hend|Hend].
  { rewrite (Hempty Hend). rewrite epoch_range_empty; [reflexivity|]. unfold until_of. replace (f_end f <=? u2) with true by lia. lia. }
  eapply (rewards_transfer (fm_weights s) f (lc + 1)); [reflexivity | reflexivity | reflexivity | | exact HR2 |].
  - intros e Hin. apply in_epoch_range in Hin. split.
    + rewrite (address_weight_at_same lp _ _ recv (u1 + 1) e Hws1).
      rewrite (weight_after_sync _ _ _ _ _ _ _ u1 e He Hl) by lia.
      rewrite address_weight_cf. replace (lc + 1 - 1) with lc by lia. symmetry. apply (weight_from_latest _ _ _ _ _ _ _ Hl). lia.
    + rewrite Hsame, (contract_weight_indep _ _ _ _ (u1 + 1) e Hec) by lia.
      rewrite (contract_weight_indep _ _ _ _ (lc + 1) e Hec) by lia. reflexivity.
  - intros er Her. cbn [f_claimed f_asset].
    subst R. rewrite sum_snd_app in Hbud. apply Forall_app in Hnn. destruct Hnn as [Hn1 Hn2].
    destruct (elem_le_sum _ Hn2 er Her) as [A B].
    assert (C : 0 <= sum_snd R1) by (destruct R1 as [|z t]; [cbn; lia | destruct (elem_le_sum _ Hn1 z (or_introl eq_refl)); lia]).
    assert (D : 0 <= snd er) by (rewrite Forall_forall in Hn2; apply Hn2; exact Her).
    lia.
Qed.

Definition with_claimed (f : farm) (c : Z) : farm :=
  {| f_id := f_id f; f_owner := f_owner f; f_lp := f_lp f; f_asset := f_asset f;
     f_claimed := c; f_rate := f_rate f; f_start := f_start f; f_end := f_end f |}.

Corollary one_claim_is_two_claims s f lp recv lc u1 u2 R e0 x0 e1 w1 e0c w0c s1 :
  farm_rewards s f lp recv u2 (Some lc) = Ok R ->
  lc <= u1 <= u2 -> u1 < U64_MAX ->
  String.eqb FM recv = false ->
  w_earliest (fm_weights s) recv lp = Some (e0, x0) -> w_latest (fm_weights s) recv lp = Some (e1, w1) -> lc <= e1 <= u1 + 1 ->
  w_earliest (fm_weights s) FM lp = Some (e0c, w0c) -> e0c <= lc + 1 ->
  0 <= f_claimed f -> f_claimed f + sum_snd R <= amount_of (f_asset f) <= U128_MAX ->
  wsame lp (synced (fm_weights s) recv lp e0 e1 u1 w1) (fm_weights s1) ->
  exists R1 R2,
    farm_rewards s f lp recv u1 (Some lc) = Ok R1 /\
    farm_rewards s1 (with_claimed f (f_claimed f + sum_snd R1)) lp recv u2 (Some u1) = Ok R2 /\
    R = (R1 ++ R2)%list.
Proof.
  intros H Hu Hu1 Hrecv He Hl Hle Hec Hec0 Hcl Hbud Hws1.
  destruct (farm_rewards_split s f lp recv lc u1 u2 R e0 x0 e1 w1 e0c w0c s1
              (with_claimed f (f_claimed f + sum_snd (match farm_rewards s f lp recv u1 (Some lc) with Ok r => r | Err _ => [] end)))
              H Hu Hu1 Hrecv He Hl Hle Hec Hec0 Hcl Hbud Hws1) as [A [R1 HR1]].
  rewrite HR1 in A. destruct (A R1 eq_refl eq_refl) as (R2 & HR2 & HR). exists R1, R2. auto.
Qed.

(* ---------- one LP denom: the coins of calculate_rewards ---------- *)
Definition rw (s : fm_state) (lp recv : string) (until : Z) (lc : option Z) (f : farm) : list (Z * Z) :=
  if until <? f_start f then [] else match farm_rewards s f lp recv until lc with Ok r => r | Err _ => [] end.
Definition contrib (s : fm_state) (lp recv : string) (until : Z) (lc : option Z) (d : string) (f : farm) : Z :=
  ind (String.eqb (denom_of (f_asset f)) d) (sum_snd (rw s lp recv until lc f)).

Lemma calc_fold_sum s lp recv until lc farms : forall c0 m0 c m,
  foldM (fun acc f =>
           if until <? f_start f then Ok acc else
           let* rs := farm_rewards s f lp recv until lc in
           let coins := map (fun er => (denom_of (f_asset f), snd er)) (filter (fun er => 0 <? snd er) rs) in
           let* total := foldM (fun t er => cadd U128_MAX t (snd er)) rs 0 in
           let modified' := match rs with [] => snd acc | _ => (snd acc ++ [(f_id f, total)])%list end in
           Ok ((fst acc ++ coins)%list, modified')) farms (c0, m0) = Ok (c, m) ->
  (forall d, camt c d = camt c0 d + ssum (contrib s lp recv until lc d) farms) /\
  (forall f, In f farms -> until <? f_start f = false -> exists R, farm_rewards s f lp recv until lc = Ok R).
Proof.
  induction farms as [|f rest IH]; intros c0 m0 c m H; cbn [foldM] in H.
  - inversion H; subst. split; [intros d; cbn; lia | intros f []].
  - apply bind_ok in H. destruct H as [[c1 m1] [Hstep H]].
    destruct (IH _ _ _ _ H) as (Hc & Hok). cbn [ssum].
    assert (Hcontrib : forall d, contrib s lp recv until lc d f =
              if until <? f_start f then 0 else ind (String.eqb (denom_of (f_asset f)) d)
                 (sum_snd (match farm_rewards s f lp recv until lc with Ok r => r | Err _ => [] end))).
    { intros d. unfold contrib, rw. destruct (until <? f_start f); [cbn; unfold ind; destruct (String.eqb _ d); reflexivity | reflexivity]. }
    destruct (until <? f_start f) eqn:Es.
    + inversion Hstep; subst c1 m1. split.
      * intros d. rewrite Hc, Hcontrib. lia.
      * intros g [<-|Hg] Hs; [congruence | apply Hok; assumption].
    + apply bind_ok in Hstep. destruct Hstep as [rs [Hrs Hstep]].
      apply bind_ok in Hstep. destruct Hstep as [total [Htot Hstep]]. cbn [fst snd] in Hstep. inversion Hstep; subst c1 m1; clear Hstep.
      pose proof (farm_rewards_nonneg _ _ _ _ _ _ _ Hrs) as Hnn. split.
      * intros d. rewrite Hc, camt_app, reward_coins_camt by exact Hnn. rewrite Hcontrib, Hrs. lia.
      * intros g [<-|Hg] Hs; [exists rs; exact Hrs | apply Hok; assumption].
Qed.

Lemma calculate_rewards_sum s lp recv until c agg m :
  calculate_rewards s lp recv until = Ok (agg, m) -> lc_get (fm_last_claimed s) recv = Some c -> until <> c ->
  (forall d, camt agg d = ssum (contrib s lp recv until (Some c) d) (farms_by_lp s lp (fm_max_farms (fm_cfg s)))) /\
  (forall f, In f (farms_by_lp s lp (fm_max_farms (fm_cfg s))) -> until <? f_start f = false ->
             exists R, farm_rewards s f lp recv until (Some c) = Ok R).
Proof.
  unfold calculate_rewards. intros H Hlc Hne. rewrite Hlc in H.
  apply bind_ok in H. destruct H as [[] [_ H]].
  replace (until =? c) with false in H by lia.
  apply bind_ok in H. destruct H as [[c1 m1] [Hf H]].
  apply bind_ok in H. destruct H as [agg' [Hagg H]]. inversion H; subst agg' m1; clear H.
  destruct (calc_fold_sum _ _ _ _ _ _ _ _ _ _ Hf) as [Hc Hok]. split; [|exact Hok].
  intros d. rewrite (aggregate_camt _ _ d Hagg), Hc. cbn. lia.
Qed.

Lemma ssum_map {A B} (g : B -> Z) (h : A -> B) l : ssum g (map h l) = ssum (fun x => g (h x)) l.
Proof. induction l as [|x r IH]; cbn; [reflexivity | rewrite IH; reflexivity]. Qed.

Lemma ssum_ext_in {A} (g h : A -> Z) l : (forall x, In x l -> g x = h x) -> ssum g l = ssum h l.
Proof.
  induction l as [|x r IH]; intros H; cbn; [reflexivity|].
  rewrite (H x (or_introl eq_refl)), IH; [reflexivity|]. intros y Hy. apply H. right. exact Hy.
Qed.

Lemma ssum_plus {A} (g h : A -> Z) l : ssum (fun x => g x + h x) l = ssum g l + ssum h l.
Proof. induction l as [|x r IH]; cbn; [reflexivity | rewrite IH; lia]. Qed.

(* One LP denom, all its farms: what a claim at u2 pays (per coin denom) is what a claim at u1 pays plus what the later
   claim at u2 pays on the state sA the first one leaves (cursor at u1, weights synchronised at u1, each farm's claimed
   amount increased by what the first claim took from it). *)
Theorem calculate_rewards_split s sA lp recv c u1 u2 agg m agg1 m1 agg2 m2 e0 x0 e1 w1 e0c w0c :
  lc_get (fm_last_claimed s) recv = Some c -> c < u1 < u2 -> u1 < U64_MAX ->
  calculate_rewards s lp recv u2 = Ok (agg, m) ->
  calculate_rewards s lp recv u1 = Ok (agg1, m1) ->
  lc_get (fm_last_claimed sA) recv = Some u1 -> fm_cfg sA = fm_cfg s ->
  farms_by_lp sA lp (fm_max_farms (fm_cfg s))
    = map (fun f => with_claimed f (f_claimed f + sum_snd (rw s lp recv u1 (Some c) f))) (farms_by_lp s lp (fm_max_farms (fm_cfg s))) ->
  calculate_rewards sA lp recv u2 = Ok (agg2, m2) ->
  String.eqb FM recv = false ->
  w_earliest (fm_weights s) recv lp = Some (e0, x0) -> w_latest (fm_weights s) recv lp = Some (e1, w1) -> c <= e1 <= u1 + 1 ->
  w_earliest (fm_weights s) FM lp = Some (e0c, w0c) -> e0c <= c + 1 ->
  wsame lp (synced (fm_weights s) recv lp e0 e1 u1 w1) (fm_weights sA) ->
  (forall f, In f (farms_by_lp s lp (fm_max_farms (fm_cfg s))) ->
             0 <= f_claimed f /\ f_claimed f + sum_snd (rw s lp recv u2 (Some c) f) <= amount_of (f_asset f) <= U128_MAX) ->
  forall d, camt agg d = camt agg1 d + camt agg2 d.
Proof.
  intros Hlc Hu Hu1 H2 H1 HlcA Hcfg Hfarms HA Hrecv He Hl Hle Hec Hec0 Hws Hbud d.
  destruct (calculate_rewards_sum _ _ _ _ _ _ _ H2 Hlc ltac:(lia)) as [S2 Ok2].
  destruct (calculate_rewards_sum _ _ _ _ _ _ _ H1 Hlc ltac:(lia)) as [S1 _].
  destruct (calculate_rewards_sum _ _ _ _ _ _ _ HA HlcA ltac:(lia)) as [SA _].
  rewrite S2, S1, SA, Hcfg, Hfarms, ssum_map, <- ssum_plus. apply ssum_ext_in. intros f Hf.
  unfold contrib. cbn [with_claimed f_asset].
  assert (E : sum_snd (rw s lp recv u2 (Some c) f) =
              sum_snd (rw s lp recv u1 (Some c) f) +
              sum_snd (rw sA lp recv u2 (Some u1) (with_claimed f (f_claimed f + sum_snd (rw s lp recv u1 (Some c) f))))).
  { destruct (u2 <? f_start f) eqn:E2.
    - unfold rw. cbn [with_claimed f_start]. rewrite E2. replace (u1 <? f_start f) with true by lia. reflexivity.
    - destruct (Ok2 f Hf E2) as [R HR]. destruct (Hbud f Hf) as [Hc0 Hb]. unfold rw at 1 in Hb. rewrite E2, HR in Hb.
      destruct (one_claim_is_two_claims s f lp recv c u1 u2 R e0 x0 e1 w1 e0c w0c sA HR ltac:(lia) Hu1 Hrecv He Hl Hle Hec Hec0 Hc0 Hb Hws)
        as (R1 & R2 & HR1 & HR2 & HRR).
      assert (Hrw1 : rw s lp recv u1 (Some c) f = R1).
      { unfold rw. rewrite HR1. destruct (u1 <? f_start f) eqn:E1; [|reflexivity].
        destruct R1 as [|[e r] t]; [reflexivity|]. exfalso.
        destruct (farm_rewards_entries _ _ _ _ _ _ _ HR1) as (st & _ & _ & Hent).
        destruct (Hent e r (or_introl eq_refl)) as (_ & A & B & _). lia. }
      rewrite Hrw1. unfold rw at 1. rewrite E2, HR. unfold rw. cbn [with_claimed f_start]. rewrite E2, HR2.
      subst R. apply sum_snd_app. }
  rewrite E. unfold ind. destruct (String.eqb (denom_of (f_asset f)) d); lia.
Qed.
