(* StableExact.v — the exact Curve invariant without real numbers: D(X) is the unique positive root of an integer
   polynomial that is strictly increasing in d, so "D(X) >= d" is the sign test F(X, d) <= 0. Used as the oracle
   "exact big-integer bisection" in the refutation witnesses for stableswap pricing (C03, C19). *)
From MD.Model Require Import Base PoolMath.
From MD.Proofs Require Import Tactics.

Definition prodZ (l : list Z) : Z := fold_right Z.mul 1 l.

(* A n^n sum(x) + D = A D n^n + D^(n+1) / (n^n prod(x)), multiplied by n^n prod(x); [ann] = A n^n as used by the
   code (amp * n).  F(d) <= 0  <->  d <= D(X) *)
Definition Fpoly (ann : Z) (X : list Z) (d : Z) : Z :=
  let n := Z.of_nat (List.length X) in
  let nn := n ^ n in let P := prodZ X in let S := sumZ X in
  ann * d * nn * P + d ^ (n + 1) - ann * S * nn * P - d * nn * P.

Lemma prodZ_pos X : Forall (fun x => 0 < x) X -> 0 < prodZ X.
Proof. intros H. induction H as [|x r Hx Hr IH]; cbn [prodZ fold_right]; [lia|]. fold (prodZ r). nia. Qed.

(* strictly increasing in d > 0 whenever ann >= 1 and all reserves are positive: the cut is well defined *)
Lemma Fpoly_increasing ann X d1 d2 :
  1 <= ann -> Forall (fun x => 0 < x) X -> 0 <= d1 < d2 -> Fpoly ann X d1 < Fpoly ann X d2.
Proof.
  intros Ha HX Hd. unfold Fpoly.
  set (n := Z.of_nat (List.length X)). set (nn := n ^ n). set (P := prodZ X). set (S := sumZ X).
  assert (Hn : 0 <= n) by (unfold n; lia).
  assert (Hnn : 0 <= nn) by (unfold nn; apply Z.pow_nonneg; lia).
  assert (HP : 0 < P) by (apply prodZ_pos; exact HX).
  assert (Hpow : d1 ^ (n + 1) < d2 ^ (n + 1)) by (apply Z.pow_lt_mono_l; lia).
  assert (Hlin : (ann - 1) * nn * P * d1 <= (ann - 1) * nn * P * d2).
  { apply Z.mul_le_mono_nonneg_l; [|lia]. apply Z.mul_nonneg_nonneg; [apply Z.mul_nonneg_nonneg; lia | lia]. }
  nia.
Qed.

(* consequently: F X' d' <= 0 < F X' d  forces  d' < d; with F X d <= 0 this gives D(X') < d <= D(X) *)
Lemma cut_separates ann (X' : list Z) d d' :
  1 <= ann -> Forall (fun x => 0 < x) X' -> 0 <= d -> 0 <= d' -> Fpoly ann X' d' <= 0 -> 0 < Fpoly ann X' d -> d' < d.
Proof.
  intros Ha HX Hd Hd' H1 H2. destruct (Z_lt_le_dec d' d) as [L|L]; [exact L|].
  destruct (Z.eq_dec d d') as [->|Hne]; [lia|].
  pose proof (Fpoly_increasing ann X' d d' Ha HX ltac:(lia)). lia.
Qed.

(* floor of the exact invariant by bisection (executable; used only to FIND witnesses) *)
Fixpoint bisect (fuel : nat) (ann : Z) (X : list Z) (lo hi : Z) : Z :=
  match fuel with
  | O => lo
  | S f =>
      if hi - lo <=? 1 then (if Fpoly ann X hi <=? 0 then hi else lo)
      else let mid := (lo + hi) / 2 in
           if Fpoly ann X mid <=? 0 then bisect f ann X mid hi else bisect f ann X lo mid
  end.
Definition floorD (ann : Z) (X : list Z) : Z := bisect 600 ann X 0 (sumZ X).
