(* FarmCustody.v — C05: the farm manager's balance covers every recorded obligation, over all histories.
   Part 1: per-message accounting  obligations' + sent <= obligations + attached funds  (per denom). *)
From MD.Model Require Import Base Ownable Epoch PoolMath Types PoolManager FarmManager Chain.
From MD.Proofs Require Import Tactics Arith PoolMathProofs MapLemmas BankProofs WeightProofs FarmProofs.

Definition pos_owed (d : string) (p : position) : Z := ind (String.eqb (denom_of (pos_lp p)) d) (amount_of (pos_lp p)).
Definition farm_owed (d : string) (f : farm) : Z :=
  ind (String.eqb (denom_of (f_asset f)) d) (ssub (amount_of (f_asset f)) (f_claimed f)).
Definition obl (s : fm_state) (d : string) : Z :=
  ssum (pos_owed d) (fm_positions s) + ssum (farm_owed d) (fm_farms s).

Definition sent_amt (d : string) (m : submsg) : Z := match sm_msg m with MBankSend _ cs => camt cs d | _ => 0 end.
Fixpoint out_amt (msgs : list submsg) (d : string) : Z :=
  match msgs with [] => 0 | m :: r => sent_amt d m + out_amt r d end.
Definition is_send (m : submsg) : Prop := exists to cs, sm_msg m = MBankSend to cs.

Lemma out_amt_app a b d : out_amt (a ++ b) d = out_amt a d + out_amt b d.
Proof. induction a as [|m r IH]; cbn; [reflexivity | rewrite IH; lia]. Qed.

(* well-formed farm-manager states *)
Definition fm_wf (s : fm_state) : Prop :=
  pos_fresh s /\
  (forall p, In p (fm_positions s) -> 0 <= amount_of (pos_lp p)) /\
  (forall f, In f (fm_farms s) -> 0 <= f_claimed f <= amount_of (f_asset f)) /\
  NoDup (map f_id (fm_farms s)).

Lemma ind_nonneg b z : 0 <= z -> 0 <= ind b z. Proof. unfold ind. destruct b; lia. Qed.

(* the accounting inequality for one message *)
Definition accounted (s s' : fm_state) (funds : list coin) (msgs : list submsg) : Prop :=
  Forall is_send msgs /\ forall d, obl s' d + out_amt msgs d <= obl s d + camt funds d.

Lemma one_coin_camt funds c d : one_coin funds = Ok c -> camt funds d = ind (String.eqb (denom_of c) d) (amount_of c).
Proof.
  unfold one_coin. destruct funds as [|x [|y r]]; try discriminate. destruct (amount_of x =? 0); intros H; inversion H; subst.
  cbn. unfold ind. destruct (String.eqb (denom_of c) d); lia.
Qed.

Lemma accounted_create_position w sender funds oid dur receiver s' msgs :
  create_position w sender funds oid dur receiver = Ok (s', msgs) -> accounted (w_fm w) s' funds msgs.
Proof.
  intros H. apply create_position_spec in H.
  destruct H as (-> & lp & recv & identifier & Hone & _ & _ & _ & _ & Hfresh & Hpos & Hfarms & _).
  split; [constructor|]. intros d. unfold obl. rewrite Hpos, Hfarms, ssum_sinsert. cbn [pos_id]. rewrite Hfresh.
  rewrite (one_coin_camt _ _ d Hone). cbn [out_amt]. unfold pos_owed at 2. cbn [pos_lp]. lia.
Qed.

Lemma accounted_expand_position w sender funds id s' msgs :
  expand_position w sender funds id = Ok (s', msgs) -> accounted (w_fm w) s' funds msgs.
Proof.
  intros H. apply expand_position_spec in H.
  destruct H as (-> & p & lp & Hp & Hone & Hden & _ & _ & Hpos & Hfarms & _).
  split; [constructor|]. intros d. unfold obl. rewrite Hpos, Hfarms, ssum_sinsert.
  cbn [pos_id pos_with]. rewrite (sfind_key _ _ _ _ Hp), Hp.
  rewrite (one_coin_camt _ _ d Hone). cbn [out_amt]. unfold pos_owed. cbn [pos_lp pos_with denom_of amount_of fst snd].
  rewrite Hden. unfold ind. destruct (String.eqb (denom_of (pos_lp p)) d); lia.
Qed.

Lemma accounted_close_position w sender funds id olp s' msgs :
  pos_fresh (w_fm w) ->
  close_position w sender funds id olp = Ok (s', msgs) -> accounted (w_fm w) s' funds msgs.
Proof.
  intros [Hc0 Hfresh] H. apply close_position_spec in H.
  destruct H as (-> & -> & _ & p & Hp & _ & _ & Hfarms & _ & _ & Hcase). cbv zeta in Hcase.
  split; [constructor|]. intros d. unfold obl. rewrite Hfarms. cbn [out_amt camt].
  pose proof (sfind_key _ _ _ _ Hp) as Hk.
  destruct Hcase as [(_ & Hpos & _) | (c & _ & Hden & Hlt & Hpos & _)]; rewrite Hpos.
  - rewrite ssum_sinsert. cbn [pos_id pos_with]. rewrite Hk, Hp. unfold pos_owed. cbn [pos_lp pos_with denom_of amount_of fst snd]. lia.
  - rewrite ssum_sinsert. cbn [pos_id pos_with].
    assert (Hne : pos_id p <> ("p-" ++ string_of_Z (fm_pos_counter (w_fm w) + 1))%string).
    { intros C. rewrite <- Hk in Hp. rewrite C in Hp. rewrite Hfresh in Hp by lia. discriminate. }
    rewrite sfind_sinsert_other by (cbn [pos_id]; exact Hne). rewrite Hk, Hp.
    rewrite ssum_sinsert. cbn [pos_id]. rewrite Hfresh by lia.
    unfold pos_owed. cbn [pos_lp pos_with denom_of amount_of fst snd]. rewrite Hden. unfold ind, ssub.
    destruct (String.eqb (denom_of (pos_lp p)) d); lia.
Qed.

Lemma out_amt_map_send owners lp per d :
  out_amt (map (fun o => send_to o lp per) owners) d = Z.of_nat (List.length owners) * ind (String.eqb lp d) per.
Proof.
  induction owners as [|o r IH]; cbn [map out_amt List.length]; [lia|].
  rewrite IH. unfold sent_amt, send_to, plain. cbn [sm_msg camt denom_of amount_of fst snd]. unfold ind.
  destruct (String.eqb lp d); lia.
Qed.

Lemma accounted_withdraw_position w sender funds id em s' msgs :
  (forall p, In p (fm_positions (w_fm w)) -> 0 <= amount_of (pos_lp p)) ->
  withdraw_position w sender funds id em = Ok (s', msgs) -> accounted (w_fm w) s' funds msgs.
Proof.
  intros Hnn H. apply withdraw_position_spec in H.
  destruct H as (-> & p & Hp & _ & Hpos & Hfarms & _ & _ & _ & Hcase). cbv zeta in Hcase.
  assert (Hamt : 0 <= amount_of (pos_lp p)) by (apply Hnn; eapply sfind_in; eauto).
  destruct Hcase as [(_ & _ & ->) | (_ & _ & tp & owners & per & collector & Htp & _ & Hper & Hcol & Hsum & _ & ->)].
  - split.
    + destruct (amount_of (pos_lp p) =? 0); repeat constructor. unfold is_send, send_to, plain; cbn; eauto.
    + intros d. unfold obl. rewrite Hpos, Hfarms, ssum_sremove, Hp. cbn [camt].
      unfold pos_owed at 2. destruct (amount_of (pos_lp p) =? 0) eqn:E; cbn [out_amt].
      * unfold ind. destruct (String.eqb _ d); lia.
      * unfold sent_amt, send_to, plain. cbn [sm_msg camt denom_of amount_of fst snd]. unfold ind.
        destruct (String.eqb (denom_of (pos_lp p)) d); lia.
  - split.
    + apply Forall_app. split; [|apply Forall_app; split].
      * apply Forall_forall. intros m Hm. apply in_map_iff in Hm. destruct Hm as (o & <- & _). unfold is_send, send_to, plain; cbn; eauto.
      * destruct (0 <? collector); repeat constructor. unfold is_send, send_to, plain; cbn; eauto.
      * destruct (ssub _ _ =? 0); repeat constructor. unfold is_send, send_to, plain; cbn; eauto.
    + intros d. unfold obl. rewrite Hpos, Hfarms, ssum_sremove, Hp. cbn [camt].
      rewrite !out_amt_app, out_amt_map_send. unfold pos_owed at 2.
      assert (Ec : out_amt (if 0 <? collector then [send_to (fm_fee_collector (fm_cfg (w_fm w))) (denom_of (pos_lp p)) collector] else []) d
                   = ind (String.eqb (denom_of (pos_lp p)) d) collector).
      { destruct (0 <? collector) eqn:E; cbn [out_amt]; unfold sent_amt, send_to, plain, ind; cbn [sm_msg camt denom_of amount_of fst snd];
          destruct (String.eqb (denom_of (pos_lp p)) d); lia. }
      assert (Er : out_amt (if ssub (amount_of (pos_lp p)) tp =? 0 then [] else [send_to (pos_recv p) (denom_of (pos_lp p)) (ssub (amount_of (pos_lp p)) tp)]) d
                   = ind (String.eqb (denom_of (pos_lp p)) d) (amount_of (pos_lp p) - tp)).
      { unfold ssub. destruct (Z.max 0 (amount_of (pos_lp p) - tp) =? 0) eqn:E; cbn [out_amt]; unfold sent_amt, send_to, plain, ind; cbn [sm_msg camt denom_of amount_of fst snd];
          destruct (String.eqb (denom_of (pos_lp p)) d); lia. }
      rewrite Ec, Er. unfold ind. destruct (String.eqb (denom_of (pos_lp p)) d); nia.
Qed.

(* ---------- farms ---------- *)
Lemma farm_owed_send f d :
  out_amt (if 0 <? ssub (amount_of (f_asset f)) (f_claimed f)
           then [{| sm_msg := MBankSend (f_owner f) [(denom_of (f_asset f), ssub (amount_of (f_asset f)) (f_claimed f))];
                    sm_id := CLOSE_FARMS_ERR_REPLY_CODE; sm_reply := RError |}] else []) d = farm_owed d f.
Proof.
  unfold farm_owed, ind. destruct (0 <? ssub _ _) eqn:E; cbn [out_amt]; unfold sent_amt; cbn [sm_msg camt denom_of amount_of fst snd];
    destruct (String.eqb (denom_of (f_asset f)) d); unfold ssub in *; lia.
Qed.

Lemma close_farms_accounted fs : forall s acc,
  NoDup (map f_id (fm_farms s)) -> (forall f, In f fs -> In f (fm_farms s)) -> NoDup (map f_id fs) ->
  Forall is_send acc ->
  let r := fold_left (fun acc f =>
               let s0 := fst acc in
               let rem := ssub (amount_of (f_asset f)) (f_claimed f) in
               (fm_set_farms s0 (sremove f_id (f_id f) (fm_farms s0)),
                if 0 <? rem then
                  (snd acc ++ [{| sm_msg := MBankSend (f_owner f) [(denom_of (f_asset f), rem)];
                                  sm_id := CLOSE_FARMS_ERR_REPLY_CODE; sm_reply := RError |}])%list
                else snd acc)) fs (s, acc) in
  Forall is_send (snd r) /\ NoDup (map f_id (fm_farms (fst r))) /\
  forall d, ssum (farm_owed d) (fm_farms (fst r)) + out_amt (snd r) d = ssum (farm_owed d) (fm_farms s) + out_amt acc d.
Proof.
  induction fs as [|f rest IH]; intros s acc Hnd Hin Hndf Hacc; cbn [fold_left].
  - cbn. repeat split; auto.
  - cbv zeta in IH.
    set (s1 := fm_set_farms s (sremove f_id (f_id f) (fm_farms s))).
    set (acc1 := if 0 <? ssub (amount_of (f_asset f)) (f_claimed f)
                 then (acc ++ [{| sm_msg := MBankSend (f_owner f) [(denom_of (f_asset f), ssub (amount_of (f_asset f)) (f_claimed f))];
                                 sm_id := CLOSE_FARMS_ERR_REPLY_CODE; sm_reply := RError |}])%list else acc).
    cbn [fst snd]. fold s1. fold acc1.
    inversion Hndf as [|x xs Hnotin Hndr]; subst.
    assert (Hf : sfind f_id (f_id f) (fm_farms s) = Some f) by (apply NoDup_in_sfind; [exact Hnd | apply Hin; left; reflexivity]).
    assert (Hnd1 : NoDup (map f_id (fm_farms s1))) by (unfold s1; cbn; apply NoDup_sremove; exact Hnd).
    assert (Hin1 : forall g, In g rest -> In g (fm_farms s1)).
    { intros g Hg. unfold s1; cbn. apply in_sremove_other; [apply Hin; right; exact Hg|].
      intros C. apply Hnotin. rewrite <- C. apply in_map. exact Hg. }
    assert (Hacc1 : Forall is_send acc1).
    { unfold acc1. destruct (0 <? _); [|exact Hacc]. apply Forall_app. split; [exact Hacc|]. repeat constructor. unfold is_send; cbn; eauto. }
    destruct (IH s1 acc1 Hnd1 Hin1 Hndr Hacc1) as (A1 & A2 & A3).
    split; [exact A1|]. split; [exact A2|]. intros d. rewrite A3.
    unfold s1; cbn [fm_set_farms fm_with fm_farms]. rewrite ssum_sremove, Hf.
    assert (Eo : out_amt acc1 d = out_amt acc d + farm_owed d f).
    { unfold acc1. rewrite <- (farm_owed_send f d). destruct (0 <? _); [rewrite out_amt_app; reflexivity | cbn; lia]. }
    rewrite Eo. lia.
Qed.

Lemma close_farms_accounted' s fs :
  NoDup (map f_id (fm_farms s)) -> (forall f, In f fs -> In f (fm_farms s)) -> NoDup (map f_id fs) ->
  Forall is_send (snd (close_farms s fs)) /\ NoDup (map f_id (fm_farms (fst (close_farms s fs)))) /\
  forall d, ssum (farm_owed d) (fm_farms (fst (close_farms s fs))) + out_amt (snd (close_farms s fs)) d = ssum (farm_owed d) (fm_farms s).
Proof.
  intros H1 H2 H3. unfold close_farms.
  destruct (close_farms_accounted fs s [] H1 H2 H3 (Forall_nil _)) as (A1 & A2 & A3). cbv zeta in *.
  split; [exact A1|]. split; [exact A2|]. intros d. rewrite A3. cbn. lia.
Qed.

Lemma accounted_close_farm w sender funds id s' msgs :
  NoDup (map f_id (fm_farms (w_fm w))) ->
  close_farm w sender funds id = Ok (s', msgs) -> accounted (w_fm w) s' funds msgs.
Proof.
  intros Hnd H. apply close_farm_spec in H. destruct H as (-> & f & Hf & _ & -> & Hm). cbv zeta in Hm. subst msgs.
  split.
  - destruct (0 <? _); repeat constructor. unfold is_send; cbn; eauto.
  - intros d. unfold obl. cbn [fm_set_farms fm_with fm_positions fm_farms camt].
    rewrite ssum_sremove. rewrite (sfind_key _ _ _ _ Hf), Hf. rewrite farm_owed_send. lia.
Qed.

Lemma accounted_expand_farm w sender funds p s' msgs :
  (forall f, In f (fm_farms (w_fm w)) -> 0 <= f_claimed f <= amount_of (f_asset f)) ->
  (forall c, In c funds -> 0 <= amount_of c) ->
  expand_farm w sender funds p = Ok (s', msgs) -> accounted (w_fm w) s' funds msgs.
Proof.
  intros Hwf Hfn H. apply expand_farm_spec in H.
  destruct H as (-> & id & f & ep & reward & _ & Hf & _ & _ & _ & _ & Hone & -> & Hden & _ & _ & Hfarms & Hpos & _).
  pose proof (Hwf f (sfind_in _ _ _ _ Hf)) as Hc.
  assert (Hrw : 0 <= amount_of (fp_asset p)).
  { unfold one_coin in Hone. destruct funds as [|x [|y r]]; try discriminate. destruct (amount_of x =? 0) eqn:E; inversion Hone; subst.
    apply Hfn. left. reflexivity. }
  split; [constructor|]. intros d. unfold obl. rewrite Hpos, Hfarms, ssum_sinsert. cbn [f_id]. rewrite (sfind_key _ _ _ _ Hf), Hf.
  rewrite (one_coin_camt _ _ d Hone). cbn [out_amt]. unfold farm_owed. cbn [f_asset f_claimed denom_of amount_of fst snd].
  rewrite <- Hden. unfold ind, ssub. destruct (String.eqb (denom_of (f_asset f)) d); lia.
Qed.

(* sublists produced by filter / take keep membership and key-uniqueness *)
Lemma in_take {A} n (l : list A) x : In x (take n l) -> In x l.
Proof. revert l; induction n as [|n IH]; intros l H; destruct l; cbn in *; try tauto. destruct H as [->|H]; auto. Qed.
Lemma NoDup_map_take {A} (key : A -> string) n (l : list A) : NoDup (map key l) -> NoDup (map key (take n l)).
Proof.
  revert l; induction n as [|n IH]; intros l H; destruct l; cbn in *; try constructor.
  - inversion H as [|y ys Hy Hr]; subst. intros C. apply Hy. apply in_map_iff in C. destruct C as (z & Hz & Hin).
    apply in_map_iff. exists z. split; [exact Hz | eapply in_take; eauto].
  - inversion H; subst. apply IH. assumption.
Qed.
Lemma NoDup_map_filter {A} (key : A -> string) p (l : list A) : NoDup (map key l) -> NoDup (map key (filter p l)).
Proof.
  induction l as [|x r IH]; cbn; intros H; [constructor|]. inversion H as [|y ys Hy Hr]; subst.
  destruct (p x); cbn; [constructor|]; auto.
  intros C. apply Hy. apply in_map_iff in C. destruct C as (z & Hz & Hin). apply in_map_iff. exists z. split; [exact Hz|].
  apply filter_In in Hin. tauto.
Qed.

Lemma farms_by_lp_sub s lp limit :
  (forall f, In f (farms_by_lp s lp limit) -> In f (fm_farms s)) /\
  (NoDup (map f_id (fm_farms s)) -> NoDup (map f_id (farms_by_lp s lp limit))).
Proof.
  unfold farms_by_lp. split.
  - intros f H. apply in_take in H. apply filter_In in H. tauto.
  - intros H. apply NoDup_map_take. apply NoDup_map_filter. exact H.
Qed.

Lemma NoDup_app_intro {A} (a b : list A) : NoDup a -> NoDup b -> (forall k, In k a -> In k b -> False) -> NoDup (a ++ b).
Proof.
  induction a as [|x r IH]; cbn; intros Ha Hb Hd; [exact Hb|]. inversion Ha as [|y ys Hx Hr]; subst. constructor.
  - intros C. apply in_app_iff in C. destruct C as [C|C]; [exact (Hx C) | exact (Hd x (or_introl eq_refl) C)].
  - apply IH; auto. intros k Hk. apply Hd. right. exact Hk.
Qed.

(* the expired/live partition of create_farm keeps uniqueness *)
Lemma partition_nodup w cfg l : forall e0 l0 e lv,
  foldM (fun acc f => let* ex := unwrap_or (is_farm_expired w cfg f) false in
                      Ok (if ex then ((fst acc ++ [f])%list, snd acc) else (fst acc, (snd acc ++ [f])%list))) l (e0, l0) = Ok (e, lv) ->
  NoDup (map f_id l) -> NoDup (map f_id e0) -> (forall x, In x e0 -> ~ In (f_id x) (map f_id l)) ->
  NoDup (map f_id e) /\ (forall x, In x e -> In x e0 \/ In x l).
Proof.
  induction l as [|y ys IH]; intros e0 l0 e lv H Hnd He0 Hdis; cbn [foldM] in H.
  - inversion H; subst. split; [exact He0 | auto].
  - apply bind_ok in H. destruct H as [acc' [Hs H]]. apply bind_ok in Hs. destruct Hs as [ex [_ Hs]]. inversion Hs; subst acc'; clear Hs.
    inversion Hnd as [|z zs Hy Hr]; subst. cbn [fst snd] in H.
    destruct ex.
    + destruct (IH _ _ _ _ H Hr) as (A & B).
      * rewrite map_app. cbn. apply NoDup_app_intro; [exact He0 | repeat constructor; tauto|].
        intros k Hk [<-|[]]. apply in_map_iff in Hk. destruct Hk as (x & Hx & Hin). apply (Hdis x Hin). rewrite Hx. left. reflexivity.
      * intros x Hx C. apply in_app_iff in Hx. destruct Hx as [Hx|[<-|[]]]; [apply (Hdis x Hx); right; exact C | exact (Hy C)].
      * split; [exact A|]. intros x Hx. destruct (B x Hx) as [Hi|Hi]; [|right; right; exact Hi].
        apply in_app_iff in Hi. destruct Hi as [Hi|[<-|[]]]; [left; exact Hi | right; left; reflexivity].
    + destruct (IH _ _ _ _ H Hr He0) as (A & B).
      * intros x Hx C. apply (Hdis x Hx). right. exact C.
      * split; [exact A|]. intros x Hx. destruct (B x Hx); [left | right; right]; assumption.
Qed.

Lemma camt_two_coins (x y : coin) d : camt [x; y] d = ind (String.eqb (denom_of x) d) (amount_of x) + ind (String.eqb (denom_of y) d) (amount_of y).
Proof. cbn. unfold ind. lia. Qed.

Lemma accounted_create_farm w sender funds p s' msgs :
  fm_wf (w_fm w) -> 0 <= amount_of (fm_create_fee (fm_cfg (w_fm w))) ->
  create_farm w sender funds p = Ok (s', msgs) -> accounted (w_fm w) s' funds msgs.
Proof.
  intros (_ & _ & Hwf & Hnd) Hfee0 H. unfold create_farm in H.
  apply bind_ok in H. destruct H as [[] [_ H]].
  apply bind_ok in H. destruct H as [ep [Hep H]].
  apply bind_ok in H. destruct H as [[expired live] [Hpart H]].
  destruct (farms_by_lp_sub (w_fm w) (fp_lp p) (fm_max_farms (fm_cfg (w_fm w)))) as [Hsub Hsubnd].
  destruct (partition_nodup _ _ _ _ _ _ _ Hpart (Hsubnd Hnd) (NoDup_nil _) (fun x Hx => match Hx with end)) as [Hend Hein].
  assert (Hexp_in : forall f, In f expired -> In f (fm_farms (w_fm w))).
  { intros f Hf. destruct (Hein f Hf) as [[]|Hi]. apply Hsub. exact Hi. }
  destruct (close_farms_accounted' (w_fm w) expired Hnd Hexp_in Hend) as (Csend & Cnd & Csum).
  pose proof (close_farms_tables expired (w_fm w) []) as Hcf. cbv zeta in Hcf. fold (close_farms (w_fm w) expired) in Hcf.
  destruct Hcf as (A1 & A2 & A3 & A4 & A5 & A6 & A7 & _).
  destruct (close_farms (w_fm w) expired) as [s1 submsgs] eqn:Ecf. cbn [fst snd] in *.
  apply bind_ok in H. destruct H as [[] [_ H]].
  apply bind_ok in H. destruct H as [[] [Hmin H]]. apply ensure_ok in Hmin.
  apply bind_ok in H. destruct H as [fmsgs [Hfeem H]].
  apply bind_ok in H. destruct H as [[] [Hasset H]].
  apply bind_ok in H. destruct H as [[st en] [Hep2 H]].
  apply bind_ok in H. destruct H as [[identifier s2] [Hid H]].
  apply bind_ok in H. destruct H as [[] [_ H]].
  apply bind_ok in H. destruct H as [[] [Hfr H]]. apply ensure_ok in Hfr.
  apply bind_ok in H. destruct H as [rate [_ H]]. inversion H; subst s' msgs; clear H.
  assert (Hs2 : fm_farms s2 = fm_farms s1 /\ fm_positions s2 = fm_positions s1).
  { destruct (fp_id p); [inversion Hid; subst; auto|].
    apply bind_ok in Hid. destruct Hid as [c [_ Hid]]. inversion Hid; subst. auto. }
  destruct Hs2 as [S1 S2].
  assert (Hfresh : sfind f_id identifier (fm_farms s1) = None).
  { rewrite <- S1. destruct (sfind f_id identifier (fm_farms s2)); [discriminate | reflexivity]. }
  assert (Hamt : 0 <= amount_of (fp_asset p)) by (unfold MIN_FARM_AMOUNT in Hmin; lia).
  pose proof (farm_creation_funds (fm_cfg (w_fm w)) sender funds (fp_asset p) fmsgs Hfee0 Hamt Hasset) as Hfunds.
  cbv zeta in Hfunds.
  assert (Hfm : if negb (amount_of (fm_create_fee (fm_cfg (w_fm w))) =? 0)
                then process_farm_creation_fee (fm_cfg (w_fm w)) sender funds (fp_asset p) = Ok fmsgs else fmsgs = []).
  { destruct (negb (amount_of (fm_create_fee (fm_cfg (w_fm w))) =? 0)); [exact Hfeem | inversion Hfeem; reflexivity]. }
  specialize (Hfunds Hfm). clear Hfm.
  set (fee := fm_create_fee (fm_cfg (w_fm w))) in *. set (asset := fp_asset p) in *.
  (* fee messages: all sends; their total per denom *)
  assert (Hfee_send : Forall is_send fmsgs /\ forall d, ind (String.eqb (denom_of asset) d) (amount_of asset) + out_amt fmsgs d <= camt funds d).
  { destruct Hfunds as [(Hd & (d0 & -> & ->) & ->) | (Hd & Hlen & (sent & Hsent & Hsamt) & Hz & Hp)].
    - split; [destruct (0 <? amount_of fee); repeat constructor; unfold is_send; cbn; eauto|].
      intros d. cbn [camt denom_of amount_of fst snd]. destruct (0 <? amount_of fee) eqn:E; cbn [out_amt].
      + unfold sent_amt, plain. cbn [sm_msg camt]. rewrite Hd. unfold ind. destruct (String.eqb (denom_of asset) d); lia.
      + unfold ind. destruct (String.eqb (denom_of asset) d); lia.
    - destruct (amount_of fee =? 0) eqn:E0.
      + destruct (Hz ltac:(lia)) as (-> & d0 & -> & ->). split; [constructor|]. intros d. cbn. unfold ind. destruct (String.eqb _ d); lia.
      + destruct (Hp ltac:(lia)) as (paidc & Hpaid & Hle & ->).
        split.
        { apply Forall_app. split; [destruct (amount_of paidc =? amount_of fee); repeat constructor; unfold is_send; cbn; eauto | repeat constructor; unfold is_send; cbn; eauto]. }
        intros d. rewrite out_amt_app.
        assert (Eo : out_amt (if amount_of paidc =? amount_of fee then [] else [plain (MBankSend sender [(denom_of fee, amount_of paidc - amount_of fee)])]) d
                     + out_amt [plain (MBankSend (fm_fee_collector (fm_cfg (w_fm w))) [fee])] d = ind (String.eqb (denom_of fee) d) (amount_of paidc)).
        { destruct (amount_of paidc =? amount_of fee) eqn:E1; cbn [out_amt]; unfold sent_amt, plain, ind; cbn [sm_msg camt denom_of amount_of fst snd];
            destruct (String.eqb (denom_of fee) d); lia. }
        rewrite Eo.
        destruct funds as [|x [|y [|z r]]]; try discriminate.
        rewrite camt_two_coins. cbn [find] in Hsent, Hpaid.
        destruct (String.eqb (denom_of x) (denom_of asset)) eqn:Ex.
        * inversion Hsent; subst sent. apply String.eqb_eq in Ex.
          assert (Exf : String.eqb (denom_of x) (denom_of fee) = false) by (apply String.eqb_neq; congruence).
          rewrite Exf in Hpaid. destruct (String.eqb (denom_of y) (denom_of fee)) eqn:Ey; [|discriminate].
          inversion Hpaid; subst paidc. apply String.eqb_eq in Ey. rewrite Ex, Ey, Hsamt. lia.
        * destruct (String.eqb (denom_of y) (denom_of asset)) eqn:Ey; [|discriminate]. inversion Hsent; subst sent.
          apply String.eqb_eq in Ey.
          destruct (String.eqb (denom_of x) (denom_of fee)) eqn:Exf.
          -- inversion Hpaid; subst paidc. apply String.eqb_eq in Exf. rewrite Exf, Ey, Hsamt. lia.
          -- assert (Eyf : String.eqb (denom_of y) (denom_of fee) = false) by (apply String.eqb_neq; congruence).
             rewrite Eyf in Hpaid. discriminate. }
  destruct Hfee_send as [Hfs Hfo].
  split.
  - apply Forall_app. split; [exact Hfs | exact Csend].
  - intros d. unfold obl. cbn [fm_set_farms fm_with fm_positions fm_farms]. rewrite S1, S2, A1.
    rewrite ssum_sinsert. cbn [f_id]. rewrite Hfresh. rewrite out_amt_app.
    unfold farm_owed at 2. cbn [f_asset f_claimed]. unfold ssub. replace (Z.max 0 (amount_of asset - 0)) with (amount_of asset) by lia.
    specialize (Csum d). specialize (Hfo d). lia.
Qed.

(* ---------- claims ---------- *)
Fixpoint sum_snd (rs : list (Z * Z)) : Z := match rs with [] => 0 | er :: r => snd er + sum_snd r end.

Lemma farm_rewards_nonneg s f lp recv until lc rs :
  farm_rewards s f lp recv until lc = Ok rs -> Forall (fun er => 0 <= snd er) rs.
Proof.
  unfold farm_rewards. intros H.
  apply bind_ok in H. destruct H as [start [_ H]].
  apply bind_ok in H. destruct H as [[] [_ H]].
  apply bind_ok in H. destruct H as [cw0 [_ H]].
  apply bind_ok in H. destruct H as [[] [_ H]].
  eapply (foldM_inv (fun acc : list (Z * Z) => Forall (fun er => 0 <= snd er) acc)); [| |exact H]; [|constructor].
  intros acc e acc' _ Hstep Hacc. cbv beta in Hstep.
  destruct (e <? f_start f); [inversion Hstep; subst; exact Hacc|].
  apply bind_ok in Hstep. destruct Hstep as [tw [_ Hstep]].
  destruct tw as [total|]; [|inversion Hstep; subst; exact Hacc].
  destruct (total =? 0); [inversion Hstep; subst; exact Hacc|].
  apply bind_ok in Hstep. destruct Hstep as [reward [Hr Hstep]]. apply chk_ok in Hr. destruct Hr as [-> Hr].
  apply bind_ok in Hstep. destruct Hstep as [sum [_ Hstep]].
  apply bind_ok in Hstep. destruct Hstep as [[] [_ Hstep]]. inversion Hstep; subst acc'.
  apply Forall_app. split; [exact Hacc|]. repeat constructor. cbn. lia.
Qed.

Lemma reward_coins_camt dn rs d : Forall (fun er => 0 <= snd er) rs ->
  camt (map (fun er : Z * Z => (dn, snd er)) (filter (fun er => 0 <? snd er) rs)) d = ind (String.eqb dn d) (sum_snd rs).
Proof.
  intros H. induction H as [|er r Her Hr IH]; cbn [filter map camt sum_snd]; [unfold ind; destruct (String.eqb dn d); reflexivity|].
  destruct (0 <? snd er) eqn:E; cbn [map camt denom_of amount_of fst snd]; rewrite IH; unfold ind; destruct (String.eqb dn d); lia.
Qed.

Lemma total_fold_spec rs : forall t0 t,
  foldM (fun t (er : Z * Z) => cadd U128_MAX t (snd er)) rs t0 = Ok t -> t = t0 + sum_snd rs.
Proof.
  induction rs as [|er r IH]; intros t0 t H; cbn [foldM sum_snd] in *; [inversion H; lia|].
  apply bind_ok in H. destruct H as [t1 [H1 H]]. unfold cadd in H1. apply chk_ok in H1. destruct H1 as [-> _].
  rewrite (IH _ _ H). lia.
Qed.

Lemma sum_snd_nonneg rs : Forall (fun er => 0 <= snd er) rs -> 0 <= sum_snd rs.
Proof. intros H. induction H; cbn; lia. Qed.

Definition pair_sum (pairs : list (farm * Z)) (d : string) : Z :=
  ssum (fun ft : farm * Z => ind (String.eqb (denom_of (f_asset (fst ft))) d) (snd ft)) pairs.
Definition pair_proj (ft : farm * Z) : string * Z := (f_id (fst ft), snd ft).

(* the farm loop of calculate_rewards *)
Lemma calc_fold_spec s lp recv until lc farms : forall c0 m0 c m,
  foldM (fun acc f =>
           if until <? f_start f then Ok acc else
           let* rs := farm_rewards s f lp recv until lc in
           let coins := map (fun er => (denom_of (f_asset f), snd er)) (filter (fun er => 0 <? snd er) rs) in
           let* total := foldM (fun t er => cadd U128_MAX t (snd er)) rs 0 in
           let modified' := match rs with [] => snd acc | _ => (snd acc ++ [(f_id f, total)])%list end in
           Ok ((fst acc ++ coins)%list, modified')) farms (c0, m0) = Ok (c, m) ->
  exists pairs,
    m = (m0 ++ map pair_proj pairs)%list /\
    (forall ft, In ft pairs -> In (fst ft) farms /\ 0 <= snd ft) /\
    (NoDup (map f_id farms) -> NoDup (map f_id (map fst pairs))) /\
    forall d, camt c d = camt c0 d + pair_sum pairs d.
Proof.
  induction farms as [|f rest IH]; intros c0 m0 c m H; cbn [foldM] in H.
  - inversion H; subst. exists []. cbn. repeat split; auto; try tauto; try constructor. rewrite app_nil_r. reflexivity. intros d. unfold pair_sum. cbn. lia.
  - apply bind_ok in H. destruct H as [[c1 m1] [Hstep H]].
    destruct (IH _ _ _ _ H) as (pairs & Hm & Hin & Hnd & Hc).
    destruct (until <? f_start f).
    + inversion Hstep; subst c1 m1. exists pairs. split; [exact Hm|]. split; [intros ft Hft; destruct (Hin ft Hft); split; [right|]; assumption|].
      split; [intros Hd; inversion Hd; subst; auto | exact Hc].
    + apply bind_ok in Hstep. destruct Hstep as [rs [Hrs Hstep]].
      apply bind_ok in Hstep. destruct Hstep as [total [Htot Hstep]]. cbn [fst snd] in Hstep. inversion Hstep; subst c1 m1; clear Hstep.
      pose proof (farm_rewards_nonneg _ _ _ _ _ _ _ Hrs) as Hnn.
      apply total_fold_spec in Htot. cbn in Htot.
      destruct rs as [|er0 rs0].
      * exists pairs. cbn [filter map] in *. rewrite app_nil_r in Hc.
        split; [exact Hm|]. split; [intros ft Hft; destruct (Hin ft Hft); split; [right|]; assumption|].
        split; [intros Hd; inversion Hd; subst; auto | exact Hc].
      * exists ((f, total) :: pairs). split; [rewrite Hm, <- app_assoc; reflexivity|]. split.
        { intros ft [<-|Hft]; [split; [left; reflexivity | cbn; rewrite Htot; apply sum_snd_nonneg; exact Hnn]|].
          destruct (Hin ft Hft); split; [right|]; assumption. }
        split.
        { intros Hd. inversion Hd as [|x xs Hx Hr]; subst. cbn [map]. constructor; [|auto].
          intros C. apply Hx. apply in_map_iff in C. destruct C as (g & Hg & Hgin). apply in_map_iff in Hgin. destruct Hgin as (ft & <- & Hft).
          apply in_map_iff. exists (fst ft). split; [exact Hg | apply (Hin ft Hft)]. }
        intros d. rewrite Hc, camt_app, reward_coins_camt by exact Hnn. unfold pair_sum. cbn [ssum fst snd]. rewrite Htot. lia.
Qed.

Lemma calculate_rewards_spec s lp recv until rewards modified :
  calculate_rewards s lp recv until = Ok (rewards, modified) ->
  exists pairs,
    modified = map pair_proj pairs /\
    (forall ft, In ft pairs -> In (fst ft) (fm_farms s) /\ 0 <= snd ft) /\
    (NoDup (map f_id (fm_farms s)) -> NoDup (map f_id (map fst pairs))) /\
    forall d, camt rewards d = pair_sum pairs d.
Proof.
  unfold calculate_rewards. intros H.
  apply bind_ok in H. destruct H as [[] [_ H]].
  destruct (match lc_get (fm_last_claimed s) recv with Some lc => until =? lc | None => false end).
  - inversion H; subst. exists []. cbn. repeat split; auto; try tauto. constructor.
  - apply bind_ok in H. destruct H as [[c m] [Hf H]].
    apply bind_ok in H. destruct H as [agg [Hagg H]]. inversion H; subst rewards modified; clear H.
    destruct (calc_fold_spec _ _ _ _ _ _ _ _ _ _ Hf) as (pairs & Hm & Hin & Hnd & Hc).
    destruct (farms_by_lp_sub s lp (fm_max_farms (fm_cfg s))) as [Hsub Hsubnd].
    exists pairs. split; [exact Hm|]. split; [intros ft Hft; destruct (Hin ft Hft); split; [apply Hsub|]; assumption|].
    split; [intros Hd; apply Hnd; apply Hsubnd; exact Hd|].
    intros d. rewrite (aggregate_camt _ _ d Hagg), Hc. cbn. lia.
Qed.

(* applying the per-farm totals to the farm table *)
Lemma claim_update_spec pairs : forall fs fs',
  foldM (fun fs m =>
           let* f := of_option (sfind f_id (fst m) fs) "panic: unwrap on None" in
           let* c := cadd U128_MAX (f_claimed f) (snd m) in
           let* _ := ensure (c <=? amount_of (f_asset f)) "FarmExhausted" in
           Ok (sinsert f_id {| f_id := f_id f; f_owner := f_owner f; f_lp := f_lp f; f_asset := f_asset f;
                               f_claimed := c; f_rate := f_rate f; f_start := f_start f; f_end := f_end f |} fs))
        (map pair_proj pairs) fs = Ok fs' ->
  NoDup (map f_id fs) -> NoDup (map f_id (map fst pairs)) ->
  (forall ft, In ft pairs -> In (fst ft) fs /\ 0 <= snd ft) ->
  (forall f, In f fs -> 0 <= f_claimed f <= amount_of (f_asset f)) ->
  NoDup (map f_id fs') /\ (forall f, In f fs' -> 0 <= f_claimed f <= amount_of (f_asset f)) /\
  forall d, ssum (farm_owed d) fs' = ssum (farm_owed d) fs - pair_sum pairs d.
Proof.
  induction pairs as [|[f t] rest IH]; intros fs fs' H Hnd Hndp Hin Hwf; cbn [map foldM] in H.
  - inversion H; subst. split; [exact Hnd|]. split; [exact Hwf|]. intros d. unfold pair_sum. cbn [ssum]. lia.
  - apply bind_ok in H. destruct H as [fs1 [H1 H]]. cbn [pair_proj fst snd] in H1.
    destruct (Hin (f, t) (or_introl eq_refl)) as [Hfin Ht]. cbn [fst snd] in Hfin, Ht.
    rewrite (NoDup_in_sfind f_id f fs Hnd Hfin) in H1. cbn [of_option bind] in H1.
    apply bind_ok in H1. destruct H1 as [c [Hc H1]]. unfold cadd in Hc. apply chk_ok in Hc. destruct Hc as [-> _].
    apply bind_ok in H1. destruct H1 as [[] [Hle H1]]. apply ensure_ok in Hle. inversion H1; subst fs1; clear H1.
    set (g := {| f_id := f_id f; f_owner := f_owner f; f_lp := f_lp f; f_asset := f_asset f;
                 f_claimed := f_claimed f + t; f_rate := f_rate f; f_start := f_start f; f_end := f_end f |}) in *.
    inversion Hndp as [|x xs Hx Hr]; subst.
    assert (Hnd1 : NoDup (map f_id (sinsert f_id g fs))) by (apply NoDup_sinsert; exact Hnd).
    assert (Hin1 : forall ft, In ft rest -> In (fst ft) (sinsert f_id g fs) /\ 0 <= snd ft).
    { intros ft Hft. destruct (Hin ft (or_intror Hft)) as [A B]. split; [|exact B].
      apply in_sinsert_other; [exact A|]. cbn [f_id g]. intros C. apply Hx. cbn [fst]. rewrite <- C.
      apply in_map. apply in_map. exact Hft. }
    assert (Hwf1 : forall h, In h (sinsert f_id g fs) -> 0 <= f_claimed h <= amount_of (f_asset h)).
    { intros h Hh. apply sinsert_in in Hh. destruct Hh as [->|Hh]; [cbn; pose proof (Hwf f Hfin); lia | apply Hwf; exact Hh]. }
    destruct (IH _ _ H Hnd1 Hr Hin1 Hwf1) as (A & B & C).
    split; [exact A|]. split; [exact B|]. intros d. rewrite C, ssum_sinsert. cbn [f_id g].
    rewrite (NoDup_in_sfind f_id f fs Hnd Hfin). unfold pair_sum. cbn [ssum fst snd].
    pose proof (Hwf f Hfin). unfold farm_owed. cbn [f_asset f_claimed g]. unfold ind, ssub.
    destruct (String.eqb (denom_of (f_asset f)) d); lia.
Qed.

Definition farms_wf (s : fm_state) : Prop :=
  NoDup (map f_id (fm_farms s)) /\ forall f, In f (fm_farms s) -> 0 <= f_claimed f <= amount_of (f_asset f).

Lemma accounted_claim w sender funds until s' msgs :
  farms_wf (w_fm w) ->
  claim w sender funds until = Ok (s', msgs) -> accounted (w_fm w) s' funds msgs /\ farms_wf s'.
Proof.
  intros [Hnd Hwf] H. pose proof (claim_tables _ _ _ _ _ _ H) as (-> & Hpos & _).
  unfold claim in H. cbn [nonpayable bind] in H.
  apply bind_ok in H. destruct H as [[] [_ H]].
  apply bind_ok in H. destruct H as [ep [_ H]].
  apply bind_ok in H. destruct H as [u [_ H]].
  apply bind_ok in H. destruct H as [[s1 total] [Hf H]].
  apply bind_ok in H. destruct H as [ms [Hms H]]. inversion H; subst s' msgs; clear H.
  (* invariant of the loop over LP denoms *)
  set (P := fun acc : fm_state * list coin =>
              farms_wf (fst acc) /\ forall d, ssum (farm_owed d) (fm_farms (fst acc)) + camt (snd acc) d = ssum (farm_owed d) (fm_farms (w_fm w))).
  assert (HP : P (s1, total)).
  { eapply (foldM_inv P); [| |exact Hf].
    - intros acc lp acc' _ Hstep [[Hnd0 Hwf0] Hsum0]. cbv beta in Hstep.
      apply bind_ok in Hstep. destruct Hstep as [[rewards modified] [Hcr Hstep]].
      apply bind_ok in Hstep. destruct Hstep as [farms' [Hupd Hstep]].
      apply bind_ok in Hstep. destruct Hstep as [s2 [Hs2 Hstep]]. inversion Hstep; subst acc'; clear Hstep.
      apply sync_tables in Hs2. destruct Hs2 as [(_ & _ & _ & _ & T5 & _) _].
      cbn [fm_set_farms fm_with fm_farms] in T5.
      destruct (calculate_rewards_spec _ _ _ _ _ _ Hcr) as (pairs & -> & Hin & Hndp & Hc).
      destruct (claim_update_spec _ _ _ Hupd Hnd0 (Hndp Hnd0) Hin Hwf0) as (A & B & C).
      unfold P, farms_wf. cbn [fst snd]. rewrite T5. split; [split; assumption|].
      intros d. rewrite C, camt_app, Hc. specialize (Hsum0 d). lia.
    - unfold P, farms_wf. cbn [fst snd camt]. split; [split; assumption | intros d; lia]. }
  destruct HP as [[Hnd1 Hwf1] Hsum1]. cbn [fst snd] in *.
  split.
  - split.
    + destruct total; [inversion Hms; constructor|]. apply bind_ok in Hms. destruct Hms as [agg [_ Hms]]. inversion Hms; subst.
      repeat constructor. unfold is_send; cbn; eauto.
    + intros d. unfold obl. cbn [fm_set_last_claimed fm_with fm_positions fm_farms camt].
      rewrite <- (Hsum1 d).
      assert (Eo : out_amt ms d = camt total d).
      { destruct total as [|c0 r0]; [inversion Hms; reflexivity|].
        apply bind_ok in Hms. destruct Hms as [agg [Hagg Hms]]. inversion Hms; subst ms.
        cbn [out_amt]. unfold sent_amt, plain. cbn [sm_msg]. rewrite (aggregate_camt _ _ d Hagg). lia. }
      rewrite Eo.
      assert (Hp1 : fm_positions s1 = fm_positions (w_fm w)) by (cbn [fm_set_last_claimed fm_with fm_positions] in Hpos; exact Hpos).
      rewrite Hp1. lia.
  - unfold farms_wf. cbn [fm_set_last_claimed fm_with fm_farms]. split; assumption.
Qed.

Lemma close_farms_nodup fs : forall s acc,
  NoDup (map f_id (fm_farms s)) ->
  NoDup (map f_id (fm_farms (fst (fold_left (fun acc f =>
               let s0 := fst acc in
               let rem := ssub (amount_of (f_asset f)) (f_claimed f) in
               (fm_set_farms s0 (sremove f_id (f_id f) (fm_farms s0)),
                if 0 <? rem then
                  (snd acc ++ [{| sm_msg := MBankSend (f_owner f) [(denom_of (f_asset f), rem)];
                                  sm_id := CLOSE_FARMS_ERR_REPLY_CODE; sm_reply := RError |}])%list
                else snd acc)) fs (s, acc))))).
Proof.
  induction fs as [|f r IH]; intros s acc H; cbn [fold_left]; [exact H|].
  apply IH. cbn. apply NoDup_sremove. exact H.
Qed.

(* ---------- every farm-manager message: accounting + preservation of well-formedness ---------- *)
Definition fm_inv (s : fm_state) : Prop := fm_wf s /\ 0 <= amount_of (fm_create_fee (fm_cfg s)).

Lemma coins_ok_nonneg funds : coins_ok funds = true -> forall c, In c funds -> 0 <= amount_of c.
Proof.
  unfold coins_ok. intros H c Hc. rewrite forallb_forall in H. specialize (H c Hc).
  unfold coin_ok, u128_ok, in_range in H. lia.
Qed.

Lemma one_coin_in funds c : one_coin funds = Ok c -> In c funds.
Proof. unfold one_coin. destruct funds as [|x [|y r]]; try discriminate. destruct (amount_of x =? 0); intros H; inversion H; subst. left. reflexivity. Qed.

Lemma fm_execute_accounted w sender funds m s' msgs :
  fm_inv (w_fm w) -> coins_ok funds = true -> wmsg_ok (WFm m) = true ->
  fm_execute w sender funds m = Ok (s', msgs) ->
  accounted (w_fm w) s' funds msgs /\ fm_inv s'.
Proof.
  intros [Hwf Hfee] Hfunds Hmsg H.
  pose proof Hwf as (Hfresh & Hposnn & Hfarmwf & Hnd).
  pose proof (coins_ok_nonneg _ Hfunds) as Hfn.
  assert (Hfresh' : pos_fresh s') by (eapply fm_execute_pos_fresh; eauto).
  destruct m as [p|p|fid|a|u|oid dur r|pid|pid lp|pid e|u]; cbn [fm_execute] in H.
  - (* create farm *)
    pose proof (accounted_create_farm _ _ _ _ _ _ Hwf Hfee H) as Hacc. split; [exact Hacc|].
    apply create_farm_spec in H.
    destruct H as (ep & expired & live & fee_msgs & st & en & identifier & _ & _ & Hexp & Hmin & _ & _ & Hep2 & _ & Hfr & Hfarms & Hpos & Hcfg & _).
    pose proof (close_farms_tables expired (w_fm w) []) as Hcf. cbv zeta in Hcf. fold (close_farms (w_fm w) expired) in Hcf.
    destruct Hcf as (_ & _ & _ & _ & _ & _ & _ & Hsubset).
    split; [|rewrite Hcfg; exact Hfee]. split; [exact Hfresh'|]. split; [rewrite Hpos; exact Hposnn|]. split.
    + intros f Hf. rewrite Hfarms in Hf. apply sinsert_in in Hf. destruct Hf as [->|Hf]; [cbn; unfold MIN_FARM_AMOUNT in Hmin; lia|].
      apply Hfarmwf. apply Hsubset. exact Hf.
    + rewrite Hfarms. apply NoDup_sinsert.
      unfold close_farms. apply close_farms_nodup. exact Hnd.
  - (* expand farm *)
    pose proof (accounted_expand_farm _ _ _ _ _ _ Hfarmwf Hfn H) as Hacc. split; [exact Hacc|].
    apply expand_farm_spec in H.
    destruct H as (_ & id & f & ep & reward & _ & Hf & _ & _ & _ & _ & Hone & -> & _ & _ & _ & Hfarms & Hpos & Hcfg & _).
    assert (Hrw : 0 <= amount_of (fp_asset p)) by (apply Hfn; eapply one_coin_in; eauto).
    split; [|rewrite Hcfg; exact Hfee]. split; [exact Hfresh'|]. split; [rewrite Hpos; exact Hposnn|]. split.
    + intros g Hg. rewrite Hfarms in Hg. apply sinsert_in in Hg. destruct Hg as [->|Hg]; [|apply Hfarmwf; exact Hg].
      cbn. pose proof (Hfarmwf f (sfind_in _ _ _ _ Hf)). lia.
    + rewrite Hfarms. apply NoDup_sinsert. exact Hnd.
  - (* close farm *)
    pose proof (accounted_close_farm _ _ _ _ _ _ Hnd H) as Hacc. split; [exact Hacc|].
    apply close_farm_spec in H. destruct H as (_ & f & Hf & _ & -> & _).
    split; [|exact Hfee]. split; [exact Hfresh'|]. split; [exact Hposnn|]. cbn [fm_set_farms fm_with fm_farms]. split.
    + intros g Hg. apply Hfarmwf. eapply sremove_in; eauto.
    + apply NoDup_sremove. exact Hnd.
  - (* ownership *)
    apply bind_ok in H. destruct H as [[] [Hn H]]. unfold nonpayable in Hn. destruct funds; [|discriminate].
    apply bind_ok in H. destruct H as [o [_ H]]. inversion H; subst s' msgs.
    split; [split; [constructor | intros d; unfold obl; cbn; lia]|].
    split; [|exact Hfee]. split; [exact Hfresh'|]. cbn. auto.
  - (* claim *)
    destruct (accounted_claim _ _ _ _ _ _ (conj Hnd Hfarmwf) H) as [Hacc [Hnd' Hwf']]. split; [exact Hacc|].
    apply claim_tables in H. destruct H as (_ & Hpos & Hcfg & _).
    split; [|rewrite Hcfg; exact Hfee]. split; [exact Hfresh'|]. split; [rewrite Hpos; exact Hposnn|]. split; assumption.
  - (* create position *)
    pose proof (accounted_create_position _ _ _ _ _ _ _ _ H) as Hacc. split; [exact Hacc|].
    apply create_position_spec in H. destruct H as (_ & lp & recv & identifier & Hone & _ & _ & _ & _ & _ & Hpos & Hfarms & Hcfg & _).
    split; [|rewrite Hcfg; exact Hfee]. split; [exact Hfresh'|]. split; [|rewrite Hfarms; split; assumption].
    intros q Hq. rewrite Hpos in Hq. apply sinsert_in in Hq. destruct Hq as [->|Hq]; [cbn; apply Hfn; eapply one_coin_in; eauto | apply Hposnn; exact Hq].
  - (* expand position *)
    pose proof (accounted_expand_position _ _ _ _ _ _ H) as Hacc. split; [exact Hacc|].
    apply expand_position_spec in H. destruct H as (_ & q & lp & Hq & Hone & _ & _ & _ & Hpos & Hfarms & Hcfg & _).
    split; [|rewrite Hcfg; exact Hfee]. split; [exact Hfresh'|]. split; [|rewrite Hfarms; split; assumption].
    intros x Hx. rewrite Hpos in Hx. apply sinsert_in in Hx. destruct Hx as [->|Hx]; [|apply Hposnn; exact Hx].
    cbn. pose proof (Hposnn q (sfind_in _ _ _ _ Hq)). pose proof (Hfn lp (one_coin_in _ _ Hone)). lia.
  - (* close position *)
    pose proof (accounted_close_position _ _ _ _ _ _ _ Hfresh H) as Hacc. split; [exact Hacc|].
    apply close_position_spec in H. destruct H as (_ & _ & _ & q & Hq & _ & _ & Hfarms & Hcfg & _ & Hcase). cbv zeta in Hcase.
    split; [|rewrite Hcfg; exact Hfee]. split; [exact Hfresh'|]. split; [|rewrite Hfarms; split; assumption].
    pose proof (Hposnn q (sfind_in _ _ _ _ Hq)) as Hqa.
    destruct Hcase as [(_ & Hpos & _) | (c & Holp & _ & Hlt & Hpos & _)]; intros x Hx; rewrite Hpos in Hx.
    + apply sinsert_in in Hx. destruct Hx as [->|Hx]; [cbn; exact Hqa | apply Hposnn; exact Hx].
    + apply sinsert_in in Hx. destruct Hx as [->|Hx]; [cbn; unfold ssub; lia|].
      apply sinsert_in in Hx. destruct Hx as [->|Hx]; [|apply Hposnn; exact Hx].
      cbn [pos_lp]. subst lp. cbn [wmsg_ok opt_ok] in Hmsg. unfold coin_ok, u128_ok, in_range in Hmsg. lia.
  - (* withdraw position *)
    pose proof (accounted_withdraw_position _ _ _ _ _ _ _ Hposnn H) as Hacc. split; [exact Hacc|].
    apply withdraw_position_spec in H. destruct H as (_ & q & Hq & _ & Hpos & Hfarms & Hcfg & _).
    split; [|rewrite Hcfg; exact Hfee]. split; [exact Hfresh'|]. split; [|rewrite Hfarms; split; assumption].
    intros x Hx. rewrite Hpos in Hx. apply Hposnn. eapply sremove_in; eauto.
  - (* update config *)
    apply bind_ok in H. destruct H as [[] [Hn H]]. unfold nonpayable in Hn. destruct funds; [|discriminate].
    unfold fm_update_config in H.
    apply bind_ok in H. destruct H as [[] [_ H]].
    apply bind_ok in H. destruct H as [fc [_ H]].
    apply bind_ok in H. destruct H as [em [_ H]].
    apply bind_ok in H. destruct H as [pm [_ H]].
    apply bind_ok in H. destruct H as [mf [_ H]].
    apply bind_ok in H. destruct H as [maxu [_ H]].
    apply bind_ok in H. destruct H as [minu [_ H]].
    apply bind_ok in H. destruct H as [ex [_ H]].
    apply bind_ok in H. destruct H as [pen [_ H]]. inversion H; subst s' msgs; clear H.
    split; [split; [constructor | intros d; unfold obl; cbn; lia]|].
    split; [split; [exact Hfresh' | cbn; auto]|]. cbn [fm_cfg fm_create_fee].
    destruct (u_create_fee u) as [c|] eqn:Ec; [|exact Hfee].
    cbn [wmsg_ok] in Hmsg. rewrite Ec in Hmsg. cbn [opt_ok] in Hmsg.
    apply andb_true_iff in Hmsg. destruct Hmsg as [Hmsg _]. apply andb_true_iff in Hmsg. destruct Hmsg as [Hmsg _].
    apply andb_true_iff in Hmsg. destruct Hmsg as [Hmsg _]. apply andb_true_iff in Hmsg. destruct Hmsg as [Hmsg _].
    apply andb_true_iff in Hmsg. destruct Hmsg as [Hmsg _]. apply andb_true_iff in Hmsg. destruct Hmsg as [Hmsg _].
    unfold coin_ok, u128_ok, in_range in Hmsg. lia.
Qed.

