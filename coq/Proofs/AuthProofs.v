(* AuthProofs.v — who may do what (C15), on all four contracts. *)
From MD.Model Require Import Base Ownable Epoch PoolMath Types PoolManager FarmManager Chain.
From MD.Proofs Require Import Tactics MapLemmas PoolMathProofs ChainProofs PmProofs.

(* ---------- cw-ownable ---------- *)
Lemma assert_owner_ok o sender : assert_owner o sender = Ok tt -> owner o = Some sender.
Proof.
  unfold assert_owner. destruct (owner o) as [x|]; [|discriminate]. intros H. apply ensure_ok in H.
  apply String.eqb_eq in H. congruence.
Qed.

Lemma assert_owner_not o sender : owner o <> Some sender -> exists e, assert_owner o sender = Err e.
Proof.
  unfold assert_owner. destruct (owner o) as [x|]; [|eauto]. intros H.
  destruct (String.eqb sender x) eqn:E; [apply String.eqb_eq in E; subst; congruence | cbn; eauto].
Qed.

(* ownership moves only by the owner proposing and the proposed account accepting (before expiry), or ends by
   the owner renouncing *)
Lemma update_ownership_spec av b sender a o o' :
  update_ownership av b sender a o = Ok o' ->
  match a with
  | Transfer n e => owner o = Some sender /\ av n = true /\ owner o' = owner o /\ pending_owner o' = Some n /\ pending_expiry o' = e
  | Accept => pending_owner o = Some sender /\
              (match pending_expiry o with Some e => is_expired e b = false | None => True end) /\
              owner o' = Some sender /\ pending_owner o' = None
  | Renounce => owner o = Some sender /\ owner o' = None /\ pending_owner o' = None
  end.
Proof.
  destruct a as [n e| |]; cbn [update_ownership]; intros H.
  - apply bind_ok in H. destruct H as [[] [H1 H]]. apply assert_owner_ok in H1.
    apply bind_ok in H. destruct H as [[] [H2 H]]. apply ensure_ok in H2. inversion H; subst; cbn. auto.
  - destruct (pending_owner o) as [p|] eqn:Ep; [|discriminate].
    apply bind_ok in H. destruct H as [[] [H1 H]]. apply ensure_ok in H1. apply String.eqb_eq in H1. subst p.
    apply bind_ok in H. destruct H as [[] [H2 H]]. apply ensure_ok in H2. inversion H; subst; cbn.
    repeat split; auto. destruct (pending_expiry o); [|exact I]. destruct (is_expired e b); [discriminate | reflexivity].
  - apply bind_ok in H. destruct H as [[] [H1 H]]. apply assert_owner_ok in H1. inversion H; subst; cbn. auto.
Qed.

Lemma owner_changes_only_by_handshake av b sender a o o' :
  update_ownership av b sender a o = Ok o' -> owner o' <> owner o ->
  (a = Accept /\ pending_owner o = Some sender /\ owner o' = Some sender) \/
  (a = Renounce /\ owner o = Some sender /\ owner o' = None).
Proof.
  intros H Hne. apply update_ownership_spec in H. destruct a as [n e| |].
  - destruct H as (_ & _ & E & _). congruence.
  - left. intuition.
  - right. intuition.
Qed.

(* ---------- epoch manager ---------- *)
Lemma em_execute_auth av b sender f m s s' :
  em_execute av b sender f m s = Ok s' ->
  f = false /\
  match m with
  | EmUpdateConfig _ => owner (em_own s) = Some sender /\ em_own s' = em_own s
  | EmUpdateOwnership a => em_cfg s' = em_cfg s /\ update_ownership av b sender a (em_own s) = Ok (em_own s')
  end.
Proof.
  unfold em_execute. intros H. apply bind_ok in H. destruct H as [[] [Hf H]]. apply ensure_ok in Hf.
  split; [destruct f; [discriminate | reflexivity]|].
  destruct m as [oc|a].
  - apply bind_ok in H. destruct H as [[] [Ho H]]. apply assert_owner_ok in Ho. split; [exact Ho|].
    destruct oc; inv_all; reflexivity.
  - apply bind_ok in H. destruct H as [o [Ho H]]. inversion H; subst; cbn. auto.
Qed.

(* ---------- pool manager ---------- *)
Lemma pm_privileged_auth w sender funds m s' msgs :
  pm_execute w sender funds m = Ok (s', msgs) ->
  match m with
  | PmUpdateConfig _ _ _ _ => funds = [] /\ owner (pm_own (w_pm w)) = Some sender /\ pm_own s' = pm_own (w_pm w)
  | PmOwnership a => funds = [] /\ update_ownership (addr_valid w) (w_block w) sender a (pm_own (w_pm w)) = Ok (pm_own s') /\
                     pm_cfg s' = pm_cfg (w_pm w) /\ pm_pools s' = pm_pools (w_pm w)
  | _ => True
  end.
Proof.
  destruct m; try exact (fun _ => I); cbn [pm_execute]; intros H.
  - apply bind_ok in H. destruct H as [[] [Hn H]]. unfold nonpayable in Hn. destruct funds; [|discriminate].
    apply bind_ok in H. destruct H as [o [Ho H]]. inversion H; subst; cbn. auto.
  - apply bind_ok in H. destruct H as [[] [Hn H]]. unfold nonpayable in Hn. destruct funds; [|discriminate].
    apply update_config_shape in H. destruct H as (Ho & _ & Hown & _). apply assert_owner_ok in Ho. auto.
Qed.

(* the owner record of the pool manager changes through no other message *)
Lemma pm_execute_owner_frame w sender funds m s' msgs :
  pm_execute w sender funds m = Ok (s', msgs) ->
  (forall a, m <> PmOwnership a) -> pm_own s' = pm_own (w_pm w).
Proof.
  intros H Hn. destruct m as [denoms decimals fees pt oid | ls ss r pid u l | ask bp ms r pid | pid | a | ops mr r ms | fc fm fee t];
    cbn [pm_execute] in H.
  - apply create_pool_shape in H. destruct H as (p & _ & _ & _ & Ho & _). exact Ho.
  - apply provide_shape in H. destruct H as (p & _ & _ & [[b ->] | [a ->]]); reflexivity.
  - apply SwapProofs.swap_spec in H. destruct H as (p & offer & sc & _ & _ & _ & _ & Hps & _).
    apply SwapProofs.perform_swap_spec in Hps. destruct Hps as (? & ? & ? & ? & ? & ? & ? & _ & _ & _ & _ & _ & _ & ->). reflexivity.
  - apply withdraw_shape in H. destruct H as (p & a & _ & _ & ->). reflexivity.
  - exfalso. eapply Hn; reflexivity.
  - apply SwapProofs.exec_ops_spec in H. destruct H as (lst & f & amount & out & fee_msgs & _ & _ & _ & _ & Hr & _).
    clear - Hr. revert Hr. generalize (w_pm w) as s. generalize (so_in f, amount) as prev. generalize (@nil submsg) as fm0.
    induction ops as [|o r0 IH]; intros fm0 prev s Hr.
    + cbn in Hr. inversion Hr; subst. reflexivity.
    + apply SwapProofs.route_loop_cons in Hr. destruct Hr as (s1 & sc & Hps & Hr).
      rewrite (IH _ _ _ Hr).
      apply SwapProofs.perform_swap_spec in Hps. destruct Hps as (? & ? & ? & ? & ? & ? & ? & _ & _ & _ & _ & _ & _ & ->). reflexivity.
  - apply bind_ok in H. destruct H as [[] [_ H]]. apply update_config_shape in H. destruct H as (_ & _ & Ho & _). exact Ho.
Qed.

(* ---------- farm manager ---------- *)
Lemma fm_update_config_auth w sender u s' msgs :
  fm_update_config w sender u = Ok (s', msgs) ->
  owner (fm_own (w_fm w)) = Some sender /\ fm_own s' = fm_own (w_fm w) /\ fm_positions s' = fm_positions (w_fm w) /\
  fm_farms s' = fm_farms (w_fm w) /\ fm_weights s' = fm_weights (w_fm w) /\ fm_last_claimed s' = fm_last_claimed (w_fm w) /\ msgs = [].
Proof.
  unfold fm_update_config. intros H. apply bind_ok in H. destruct H as [[] [Ho H]]. apply assert_owner_ok in Ho.
  inv_all; cbn; repeat split; auto.
Qed.

Lemma fm_privileged_auth w sender funds m s' msgs :
  fm_execute w sender funds m = Ok (s', msgs) ->
  match m with
  | FmUpdateConfig _ => funds = [] /\ owner (fm_own (w_fm w)) = Some sender /\ fm_own s' = fm_own (w_fm w)
  | FmOwnership a => funds = [] /\ update_ownership (addr_valid w) (w_block w) sender a (fm_own (w_fm w)) = Ok (fm_own s') /\
                     fm_cfg s' = fm_cfg (w_fm w) /\ fm_positions s' = fm_positions (w_fm w) /\ fm_farms s' = fm_farms (w_fm w)
  | FmExpandFarm p => exists id f, fp_id p = Some id /\ sfind f_id id (fm_farms (w_fm w)) = Some f /\ f_owner f = sender
  | FmCloseFarm id => funds = [] /\ exists f, sfind f_id id (fm_farms (w_fm w)) = Some f /\
                        (f_owner f = sender \/ owner (fm_own (w_fm w)) = Some sender)
  | FmPosClose id _ => funds = [] /\ exists p, sfind pos_id id (fm_positions (w_fm w)) = Some p /\ pos_recv p = sender
  | FmPosWithdraw id _ => funds = [] /\ exists p, sfind pos_id id (fm_positions (w_fm w)) = Some p /\ pos_recv p = sender
  | FmPosExpand id => exists p, sfind pos_id id (fm_positions (w_fm w)) = Some p /\
                        (pos_recv p = sender \/ sender = fm_pool_manager (fm_cfg (w_fm w)))
  | FmPosCreate _ _ (Some r) => sender = fm_pool_manager (fm_cfg (w_fm w)) \/ sender = r
  | _ => True
  end.
Proof.
  destruct m as [p|p|id|a|u|id dur r|id|id lp|id e|u]; cbn [fm_execute]; intros H.
  - exact I.
  - unfold expand_farm in H.
    apply bind_ok in H. destruct H as [id [Hid H]]. apply of_option_ok in Hid.
    apply bind_ok in H. destruct H as [f [Hf H]]. apply of_option_ok in Hf.
    apply bind_ok in H. destruct H as [[] [Ho H]]. apply ensure_ok in Ho. apply String.eqb_eq in Ho. eauto.
  - unfold close_farm in H.
    apply bind_ok in H. destruct H as [[] [Hn H]]. unfold nonpayable in Hn. destruct funds; [|discriminate].
    apply bind_ok in H. destruct H as [f [Hf H]]. apply of_option_ok in Hf.
    apply bind_ok in H. destruct H as [[] [Ho H]]. apply ensure_ok in Ho. split; [reflexivity|]. exists f. split; [exact Hf|].
    apply orb_true_iff in Ho. destruct Ho as [Ho|Ho]; [left; apply String.eqb_eq in Ho; exact Ho|].
    right. unfold is_owner in Ho. destruct (owner (fm_own (w_fm w))) as [x|]; [|discriminate].
    apply String.eqb_eq in Ho. congruence.
  - apply bind_ok in H. destruct H as [[] [Hn H]]. unfold nonpayable in Hn. destruct funds; [|discriminate].
    apply bind_ok in H. destruct H as [o [Ho H]]. inversion H; subst; cbn. auto.
  - exact I.
  - destruct r as [r|]; [|exact I]. unfold create_position in H.
    apply bind_ok in H. destruct H as [lp [_ H]].
    apply bind_ok in H. destruct H as [[] [_ H]].
    apply bind_ok in H. destruct H as [[] [_ H]].
    apply bind_ok in H. destruct H as [recv [Hr H]].
    apply bind_ok in Hr. destruct Hr as [[] [_ Hr]].
    apply bind_ok in Hr. destruct Hr as [[] [Hr2 _]]. apply ensure_ok in Hr2.
    apply orb_true_iff in Hr2. destruct Hr2 as [E|E]; apply String.eqb_eq in E; auto.
  - unfold expand_position in H.
    apply bind_ok in H. destruct H as [p [Hp H]]. apply of_option_ok in Hp.
    apply bind_ok in H. destruct H as [lp [_ H]].
    apply bind_ok in H. destruct H as [[] [_ H]].
    apply bind_ok in H. destruct H as [[] [_ H]].
    apply bind_ok in H. destruct H as [[] [_ H]].
    apply bind_ok in H. destruct H as [[] [Ho H]]. apply ensure_ok in Ho.
    exists p. split; [exact Hp|]. apply orb_true_iff in Ho. destruct Ho as [E|E]; apply String.eqb_eq in E; auto.
  - unfold close_position in H.
    apply bind_ok in H. destruct H as [[] [Hn H]]. unfold nonpayable in Hn. destruct funds; [|discriminate].
    apply bind_ok in H. destruct H as [pend [_ H]].
    apply bind_ok in H. destruct H as [[] [_ H]].
    apply bind_ok in H. destruct H as [p [Hp H]]. apply of_option_ok in Hp.
    apply bind_ok in H. destruct H as [[] [Ho H]]. apply ensure_ok in Ho. apply String.eqb_eq in Ho.
    split; [reflexivity|]. eauto.
  - unfold withdraw_position in H.
    apply bind_ok in H. destruct H as [[] [Hn H]]. unfold nonpayable in Hn. destruct funds; [|discriminate].
    apply bind_ok in H. destruct H as [p [Hp H]]. apply of_option_ok in Hp.
    apply bind_ok in H. destruct H as [[] [Ho H]]. apply ensure_ok in Ho. apply String.eqb_eq in Ho.
    split; [reflexivity|]. eauto.
  - apply bind_ok in H. destruct H as [[] [Hn H]]. unfold nonpayable in Hn. destruct funds; [|discriminate].
    apply fm_update_config_auth in H. destruct H as (Ho & Hown & _). auto.
Qed.

(* ---------- chain level: privileged messages from anybody but the owner are rejected (and change nothing) ---------- *)
Definition privileged (target : string) (m : wmsg) : option (world -> ownership) :=
  match m with
  | WEm (EmUpdateConfig _) => if String.eqb target EM then Some (fun w => em_own (w_em w)) else None
  | WPm (PmUpdateConfig _ _ _ _) => if String.eqb target PM then Some (fun w => pm_own (w_pm w)) else None
  | WFm (FmUpdateConfig _) => if String.eqb target FM then Some (fun w => fm_own (w_fm w)) else None
  | WEm (EmUpdateOwnership (Transfer _ _)) | WEm (EmUpdateOwnership Renounce) =>
      if String.eqb target EM then Some (fun w => em_own (w_em w)) else None
  | WFc (Transfer _ _) | WFc Renounce => if String.eqb target FC then Some (fun w => w_fc w) else None
  | WPm (PmOwnership (Transfer _ _)) | WPm (PmOwnership Renounce) =>
      if String.eqb target PM then Some (fun w => pm_own (w_pm w)) else None
  | WFm (FmOwnership (Transfer _ _)) | WFm (FmOwnership Renounce) =>
      if String.eqb target FM then Some (fun w => fm_own (w_fm w)) else None
  | _ => None
  end.

Lemma handle_privileged_owner w target sender funds m w2 subs own :
  privileged target m = Some own -> handle w target sender funds m = Ok (w2, subs) ->
  owner (own w) = Some sender /\ funds = [].
Proof.
  unfold privileged. intros Hp H. apply handle_ok_typed in H. destruct H as [H _]. unfold handle_typed in H.
  destruct m as [em|a|pm|fm].
  - destruct (String.eqb target EM) eqn:E; [|destruct em as [|[| |]]; discriminate].
    apply bind_ok in H. destruct H as [s [Hs H]]. apply em_execute_auth in Hs. destruct Hs as [Hf Hs].
    assert (funds = []) as -> by (destruct funds; [reflexivity | discriminate]).
    destruct em as [c|a].
    + inversion Hp; subst. destruct Hs as [Ho _]. auto.
    + destruct Hs as [_ Hu]. apply update_ownership_spec in Hu.
      destruct a as [n e| |]; inversion Hp; subst; intuition.
  - destruct (String.eqb target EM) eqn:E1; [discriminate|].
    destruct (String.eqb target FC) eqn:E; [|destruct a; discriminate].
    apply bind_ok in H. destruct H as [[] [Hn H]]. unfold nonpayable in Hn. destruct funds; [|discriminate].
    apply bind_ok in H. destruct H as [o [Ho H]]. apply update_ownership_spec in Ho.
    destruct a as [n e| |]; inversion Hp; subst; intuition.
  - destruct (String.eqb target EM) eqn:E1; [discriminate|].
    destruct (String.eqb target FC) eqn:E2; [discriminate|].
    destruct (String.eqb target PM) eqn:E; [|destruct pm as [| | | |[| |]| |]; discriminate].
    apply bind_ok in H. destruct H as [[s1 subs1] [Hx H]]. apply pm_privileged_auth in Hx.
    destruct pm as [| | | |a| |]; try discriminate.
    + destruct Hx as (-> & Hu & _). apply update_ownership_spec in Hu.
      destruct a as [n e| |]; inversion Hp; subst; intuition.
    + inversion Hp; subst. destruct Hx as (-> & Ho & _). auto.
  - destruct (String.eqb target EM) eqn:E1; [discriminate|].
    destruct (String.eqb target FC) eqn:E2; [discriminate|].
    destruct (String.eqb target PM) eqn:E3; [discriminate|].
    destruct (String.eqb target FM) eqn:E; [|destruct fm as [| | |[| |]| | | | | |]; discriminate].
    apply bind_ok in H. destruct H as [[s1 subs1] [Hx H]]. apply fm_privileged_auth in Hx.
    destruct fm as [| | |a| | | | | |u]; try discriminate.
    + destruct Hx as (-> & Hu & _). apply update_ownership_spec in Hu.
      destruct a as [n e| |]; inversion Hp; subst; intuition.
    + inversion Hp; subst. destruct Hx as (-> & Ho & _). auto.
Qed.

Lemma privileged_requires_owner w sender target m funds own :
  privileged target m = Some own ->
  snd (step w (Tx sender target m funds)) = true ->
  owner (own w) = Some sender /\ funds = [].
Proof.
  intros Hp H. apply step_tx_ok_handle in H. destruct H as (w1 & w2 & subs & Hs & Hh).
  destruct (handle_privileged_owner _ _ _ _ _ _ _ _ Hp Hh) as [Ho Hf]. split; [|exact Hf].
  destruct Hs as (_ & _ & _ & Hem & Hfc & Hpm & Hfm).
  unfold privileged in Hp.
  destruct m as [[|[| |]]|[| |]|[| | | |[| |]| |]|[| | |[| |]| | | | | |]]; try discriminate;
    match type of Hp with (if ?c then _ else _) = _ => destruct c; [|discriminate] end;
    inversion Hp; subst; cbn in *; congruence.
Qed.
