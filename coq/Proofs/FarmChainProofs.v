(* FarmChainProofs.v — farm-manager invariants lifted to every reachable world. *)
From MD.Model Require Import Base Ownable Epoch PoolMath Types PoolManager FarmManager Chain.
From MD.Proofs Require Import Tactics MapLemmas PoolMathProofs ChainProofs WeightProofs FarmProofs.

Lemma handle_fm_state w t s f m w2 subs :
  handle w t s f m = Ok (w2, subs) ->
  w_fm w2 = w_fm w \/ (exists fm, m = WFm fm /\ t = FM /\ exists msgs, fm_execute w s f fm = Ok (w_fm w2, msgs)).
Proof.
  intros H. apply handle_ok_typed in H. destruct H as [H _]. unfold handle_typed in H.
  destruct (String.eqb t EM); [destruct m; inv_all; left; reflexivity|].
  destruct (String.eqb t FC); [destruct m; inv_all; left; reflexivity|].
  destruct (String.eqb t PM); [destruct m; inv_all; left; reflexivity|].
  destruct (String.eqb t FM) eqn:E; [|discriminate]. apply String.eqb_eq in E.
  destruct m as [| | |fm]; try discriminate. apply bind_ok in H. destruct H as [[s1 subs1] [Hx H]].
  inversion H; subst. right. exists fm. repeat split; auto. exists subs. cbn. exact Hx.
Qed.

Lemma handle_reply_fm_state w c id w2 subs : handle_reply w c id = Ok (w2, subs) -> w_fm w2 = w_fm w.
Proof.
  unfold handle_reply. intros H.
  destruct (String.eqb c PM); [inv_all; reflexivity|].
  destruct (String.eqb c FM); [|discriminate].
  apply bind_ok in H. destruct H as [[s1 subs1] [Hx H]]. inversion H; subst. cbn.
  unfold fm_reply in Hx. destruct (id =? CLOSE_FARMS_ERR_REPLY_CODE); inversion Hx; reflexivity.
Qed.

(* generic lift of a farm-manager state invariant *)
Lemma run_fm_invariant (I : fm_state -> Prop) :
  (forall w sender funds m s' msgs, I (w_fm w) -> fm_execute w sender funds m = Ok (s', msgs) -> I s') ->
  forall ops w, I (w_fm w) -> I (w_fm (run w ops)).
Proof.
  intros Hstep ops w.
  apply (run_R (fun a b => I (w_fm a) -> I (w_fm b))).
  - auto.
  - auto.
  - intros x y (_ & _ & _ & _ & _ & _ & Hfm). rewrite Hfm. auto.
  - intros x t s f m w2 subs H Hi. destruct (handle_fm_state _ _ _ _ _ _ _ H) as [E | (fm & -> & -> & msgs & Hx)].
    + rewrite E. exact Hi.
    + eapply Hstep; eauto.
  - intros x c id w2 subs H Hi. rewrite (handle_reply_fm_state _ _ _ _ _ H). exact Hi.
  - auto.
Qed.

(* generated position identifiers never collide, in every reachable world *)
Lemma run_pos_fresh ops w : pos_fresh (w_fm w) -> pos_fresh (w_fm (run w ops)).
Proof. apply run_fm_invariant. intros. eapply fm_execute_pos_fresh; eauto. Qed.
