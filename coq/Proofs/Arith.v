(* Arith.v — closed arithmetic lemmas over Z used by the pool / farm proofs (floor-division chains). *)
From MD.Model Require Import Base.
From MD.Proofs Require Import Tactics.

Lemma DEC_pos : 0 < DEC. Proof. unfold DEC; lia. Qed.

Lemma div_div_DEC a b : 0 < b -> a * DEC / b / DEC = a / b.
Proof. intros. unfold DEC. rewrite Z.div_div by lia. rewrite Z.div_mul_cancel_r by lia. reflexivity. Qed.

Lemma mul_DEC_div a s : a * DEC * s / DEC = a * s.
Proof. unfold DEC. replace (a * 1000000000000000000 * s) with (a * s * 1000000000000000000) by lia.
  apply Z.div_mul. lia. Qed.

Lemma mul_DEC_div1 a : a * DEC / 1 = a * DEC.
Proof. apply Z.div_1_r. Qed.

(* constant product: removing at most the floor quotient never lowers x*y *)
Lemma cp_invariant x y dx out :
  0 < x + dx -> 0 <= y -> 0 <= dx -> out <= y * dx / (x + dx) -> x * y <= (x + dx) * (y - out).
Proof.
  intros. assert ((x + dx) * (y * dx / (x + dx)) <= y * dx) by (apply Z.mul_div_le; lia). nia.
Qed.

Lemma div_le_self a b : 0 <= a -> 0 < b -> a / b <= a.
Proof. intros. apply Z.div_le_upper_bound; nia. Qed.

Lemma floor_mul_le a s : 0 <= a -> 0 <= s -> a * s / DEC * DEC <= a * s.
Proof. intros. pose proof DEC_pos. rewrite Z.mul_comm. apply Z.mul_div_le. lia. Qed.

Lemma div_mono_num a b c : 0 < c -> a <= b -> a / c <= b / c.
Proof. intros. apply Z.div_le_mono; lia. Qed.

Lemma div_nonneg a b : 0 <= a -> 0 < b -> 0 <= a / b.
Proof. intros. apply Z.div_pos; lia. Qed.

(* sum of floors <= floor of sum *)
Lemma floor_sum_le a b c : 0 < c -> a / c + b / c <= (a + b) / c.
Proof.
  intros. apply Z.div_le_lower_bound; [lia|].
  pose proof (Z.mul_div_le a c). pose proof (Z.mul_div_le b c). nia.
Qed.
