(* SwapProofs.v — perform_swap / swap / router: effect on reserves, emitted messages, quotes (C03, C04, C12). *)
From MD.Model Require Import Base Ownable Epoch PoolMath Types PoolManager.
From MD.Proofs Require Import Tactics Arith PoolMathProofs MapLemmas.

(* ---------- compute_swap: fee structure, both pool types ---------- *)
Lemma compute_swap_fee_spec p offer ask sc :
  compute_swap p offer ask = Ok sc ->
  exists gross,
    sc_swap_fee sc = gross * swap_fee (p_fees p) / DEC /\
    sc_protocol_fee sc = gross * protocol_fee (p_fees p) / DEC /\
    sc_burn_fee sc = gross * burn_fee (p_fees p) / DEC /\
    sc_extra_fees sc = extra_sum (extra_fees (p_fees p)) gross /\
    sc_return sc = gross - sc_swap_fee sc - sc_protocol_fee sc - sc_burn_fee sc - sc_extra_fees sc /\
    0 <= sc_return sc <= U128_MAX /\
    0 <= sc_swap_fee sc <= U128_MAX /\ 0 <= sc_protocol_fee sc <= U128_MAX /\
    0 <= sc_burn_fee sc <= U128_MAX /\ 0 <= sc_extra_fees sc <= U128_MAX.
Proof.
  unfold compute_swap. intros H.
  apply bind_ok in H. destruct H as [[[[[[oc ac] oi] ai] od] ad] [Hg H]].
  destruct (p_type p) as [|amp].
  - apply bind_ok in H. destruct H as [ra [Hra H]].
    apply bind_ok in H. destruct H as [rate [Hrate H]].
    apply bind_ok in H. destruct H as [oa [Hoa H]].
    apply bind_ok in H. destruct H as [ideal [Hideal H]].
    apply bind_ok in H. destruct H as [slip [Hslip H]].
    apply bind_ok in H. destruct H as [fc [Hfc H]].
    apply compute_fees_spec in Hfc. destruct Hfc as (F1 & F2 & F3 & F4).
    apply get_swap_computation_spec in H.
    destruct H as (R1 & R2 & _ & R4 & R5 & R6 & R7 & B1 & B2 & B3 & B4).
    exists (dec_floor ra). repeat split; try congruence; try lia.
  - apply bind_ok in H. destruct H as [apd [_ H]].
    apply bind_ok in H. destruct H as [odc [_ H]].
    apply bind_ok in H. destruct H as [u [_ H]].
    apply bind_ok in H. destruct H as [np0 [_ H]].
    apply bind_ok in H. destruct H as [np [_ H]].
    apply bind_ok in H. destruct H as [ap [_ H]].
    apply bind_ok in H. destruct H as [ret [_ H]].
    apply bind_ok in H. destruct H as [rd [_ H]].
    apply bind_ok in H. destruct H as [adjr [_ H]].
    apply bind_ok in H. destruct H as [adjo [_ H]].
    apply bind_ok in H. destruct H as [slip [_ H]].
    apply bind_ok in H. destruct H as [fc [Hfc H]].
    apply compute_fees_spec in Hfc. destruct Hfc as (F1 & F2 & F3 & F4).
    apply get_swap_computation_spec in H.
    destruct H as (R1 & R2 & _ & R4 & R5 & R6 & R7 & B1 & B2 & B3 & B4).
    exists ret. repeat split; try congruence; try lia.
Qed.

(* each fee is the configured share of the gross output rounded DOWN, never more *)
Lemma fee_floor_le gross share : 0 <= gross -> 0 <= share -> gross * share / DEC * DEC <= gross * share.
Proof. apply floor_mul_le. Qed.

(* ---------- perform_swap ---------- *)
Definition swap_new_assets (p : pool_info) (oi ai : nat) (oc ac : coin) (offer_amount : Z) (sc : swap_computation) : list coin :=
  set_nth ai (denom_of ac, amount_of ac - sc_return sc - (sc_protocol_fee sc + sc_burn_fee sc))
    (set_nth oi (denom_of oc, amount_of oc + offer_amount) (p_assets p)).

Lemma perform_swap_spec s offer ask pid belief ms s' sc :
  perform_swap s offer ask pid belief ms = Ok (s', sc) ->
  exists p oi ai oc ac od ad,
    pool_find s pid = Ok p /\
    get_asset_indexes p (denom_of offer) ask = Ok (oc, ac, oi, ai, od, ad) /\
    compute_swap p offer ask = Ok sc /\
    assert_max_slippage belief ms (amount_of offer) (sc_return sc) (sc_slippage sc) = Ok tt /\
    0 <= amount_of oc + amount_of offer <= U128_MAX /\
    0 <= amount_of ac - sc_return sc - (sc_protocol_fee sc + sc_burn_fee sc) /\
    s' = pm_save_pool s (pool_with_assets p (swap_new_assets p oi ai oc ac (amount_of offer) sc)).
Proof.
  unfold perform_swap. intros H.
  apply bind_ok in H. destruct H as [p [Hp H]].
  apply bind_ok in H. destruct H as [[[[[[oc ac] oi] ai] od] ad] [Hg H]].
  apply bind_ok in H. destruct H as [sc0 [Hsc H]].
  apply bind_ok in H. destruct H as [[] [Hsl H]].
  apply bind_ok in H. destruct H as [oc' [Hoc H]].
  apply bind_ok in H. destruct H as [o' [Ho' H]].
  apply bind_ok in H. destruct H as [out [Hout H]].
  apply bind_ok in H. destruct H as [ac' [Hac H]].
  apply bind_ok in H. destruct H as [a1 [Ha1 H]].
  apply bind_ok in H. destruct H as [a2 [Ha2 H]].
  inversion H; subst; clear H.
  pose proof (get_asset_indexes_spec _ _ _ _ _ _ _ _ _ Hg) as (I1 & I2 & Hne & N1 & N2 & D1 & D2 & _).
  apply nth_coin_ok in Hoc, Hac. rewrite N1 in Hoc. inversion Hoc; subst oc'.
  rewrite nth_error_set_nth_neq in Hac by exact Hne. rewrite N2 in Hac. inversion Hac; subst ac'.
  unfold cadd, csub in *.
  apply chk_ok in Ho'. destruct Ho' as [-> Ho'].
  apply chk_ok in Hout. destruct Hout as [-> Hout].
  apply chk_ok in Ha1. destruct Ha1 as [-> Ha1].
  apply chk_ok in Ha2. destruct Ha2 as [-> Ha2].
  exists p, oi, ai, oc, ac, od, ad. repeat split; try assumption; try lia.
Qed.

(* C12 (direct swaps): the Simulation query and the executed swap come from the same computation *)
Lemma simulation_eq_perform_swap s offer ask pid belief ms s' sc sc' :
  perform_swap s offer ask pid belief ms = Ok (s', sc) ->
  query_simulation s offer ask pid = Ok sc' -> sc' = sc.
Proof.
  intros H Q. apply perform_swap_spec in H. destruct H as (p & oi & ai & oc & ac & od & ad & Hp & _ & Hsc & _).
  unfold query_simulation in Q. rewrite Hp in Q. cbn in Q. congruence.
Qed.

(* ---------- reserves of a two-asset pool ---------- *)
Definition prod2 (l : list coin) : Z :=
  match l with [a; b] => amount_of a * amount_of b | _ => 0 end.

Definition fee_nonneg (f : pool_fee) : Prop :=
  0 <= protocol_fee f /\ 0 <= swap_fee f /\ 0 <= burn_fee f /\ Forall (fun x => 0 <= x) (extra_fees f).

Lemma extra_sum_nonneg l g : 0 <= g -> Forall (fun x => 0 <= x) l -> 0 <= extra_sum l g.
Proof.
  intros Hg H. induction H as [|x r Hx Hr IH]; cbn [extra_sum]; [lia|].
  assert (0 <= g * x / DEC) by (apply Z.div_pos; [nia | unfold DEC; lia]). lia.
Qed.

Lemma cp_swap_product p offer ask sc oc ac oi ai od ad :
  p_type p = ConstantProduct ->
  List.length (p_assets p) = 2%nat ->
  get_asset_indexes p (denom_of offer) ask = Ok (oc, ac, oi, ai, od, ad) ->
  0 <= amount_of oc -> 0 <= amount_of ac -> 0 <= amount_of offer ->
  fee_nonneg (p_fees p) ->
  compute_swap p offer ask = Ok sc ->
  prod2 (p_assets p) <= prod2 (swap_new_assets p oi ai oc ac (amount_of offer) sc).
Proof.
  intros Ht Hlen Hg Hoc Hac Hoff (Fp & Fs & Fb & Fe) Hsc.
  pose proof (compute_swap_cp_spec _ _ _ _ _ _ _ _ _ _ Ht Hg Hoc Hoff Hsc) as S. cbv zeta in S.
  destruct S as (Hpos & Hocpos & S1 & S2 & S3 & S4 & S5 & _).
  pose proof (get_asset_indexes_spec _ _ _ _ _ _ _ _ _ Hg) as (_ & _ & Hne & N1 & N2 & _).
  set (gross := cp_gross (amount_of oc) (amount_of ac) (amount_of offer)) in *.
  assert (Hgross : 0 <= gross).
  { unfold gross, cp_gross. apply Z.div_pos; nia. }
  assert (Hsf : 0 <= sc_swap_fee sc) by (rewrite S1; apply Z.div_pos; [nia | unfold DEC; lia]).
  assert (Hef : 0 <= sc_extra_fees sc) by (rewrite S4; apply extra_sum_nonneg; assumption).
  assert (Hout : sc_return sc + (sc_protocol_fee sc + sc_burn_fee sc) <= gross) by lia.
  assert (Hinv : amount_of oc * amount_of ac <=
                 (amount_of oc + amount_of offer) * (amount_of ac - (sc_return sc + (sc_protocol_fee sc + sc_burn_fee sc)))).
  { apply cp_invariant; try lia. unfold gross, cp_gross in Hout. lia. }
  unfold swap_new_assets.
  destruct (p_assets p) as [|c0 [|c1 [|c2 r]]]; cbn in Hlen; try discriminate.
  destruct oi as [|[|oi]], ai as [|[|ai]]; cbn in N1, N2; try congruence;
    try (destruct oi; discriminate); try (destruct ai; discriminate).
  - inversion N1; inversion N2; subst. cbn. unfold amount_of in *. cbn. nia.
  - inversion N1; inversion N2; subst. cbn. unfold amount_of in *. cbn. nia.
Qed.

(* ---------- well-formed pool-manager states ---------- *)
Definition pool_wf (p : pool_info) : Prop :=
  fee_nonneg (p_fees p) /\ Forall (fun c => 0 <= amount_of c) (p_assets p) /\
  (p_type p = ConstantProduct -> List.length (p_assets p) = 2%nat).
Definition pm_wf (s : pm_state) : Prop :=
  forall id p, sfind p_id id (pm_pools s) = Some p -> pool_wf p.

Lemma pool_find_ok s id p : pool_find s id = Ok p <-> sfind p_id id (pm_pools s) = Some p.
Proof. unfold pool_find, of_option. destruct (sfind p_id id (pm_pools s)); split; intros H; inversion H; reflexivity. Qed.

Lemma Forall_set_nth {A} (P : A -> Prop) l i v : Forall P l -> P v -> Forall P (set_nth i v l).
Proof.
  intros H Hv. revert i. induction H as [|x r Hx Hr IH]; intros i; destruct i; cbn; constructor; auto.
Qed.

Lemma Forall_nth_error {A} (P : A -> Prop) l i x : Forall P l -> nth_error l i = Some x -> P x.
Proof. intros H. revert i. induction H; intros i Hn; destruct i; cbn in Hn; try discriminate; [inversion Hn; subst; auto | eauto]. Qed.

(* the effect of perform_swap on every pool of the state *)
Lemma perform_swap_pools s offer ask pid belief ms s' sc :
  pm_wf s -> 0 <= amount_of offer ->
  perform_swap s offer ask pid belief ms = Ok (s', sc) ->
  pm_wf s' /\ pm_cfg s' = pm_cfg s /\
  forall id p, sfind p_id id (pm_pools s) = Some p ->
    exists p', sfind p_id id (pm_pools s') = Some p' /\
      p_id p' = p_id p /\ p_type p' = p_type p /\ p_fees p' = p_fees p /\ p_status p' = p_status p /\
      p_denoms p' = p_denoms p /\ p_decimals p' = p_decimals p /\ p_lp p' = p_lp p /\
      (p_type p = ConstantProduct -> prod2 (p_assets p) <= prod2 (p_assets p')) /\
      (id <> pid -> p' = p).
Proof.
  intros Hwf Hoff H. apply perform_swap_spec in H.
  destruct H as (p & oi & ai & oc & ac & od & ad & Hp & Hg & Hsc & _ & Ho & Ha & ->).
  apply pool_find_ok in Hp. pose proof (sfind_key _ _ _ _ Hp) as Hid.
  pose proof (Hwf _ _ Hp) as (Wf & Wa & Wl).
  pose proof (get_asset_indexes_spec _ _ _ _ _ _ _ _ _ Hg) as (_ & _ & Hne & N1 & N2 & _).
  assert (Hoc : 0 <= amount_of oc) by (eapply (Forall_nth_error (fun c => 0 <= amount_of c)); eauto).
  assert (Hac : 0 <= amount_of ac) by (eapply (Forall_nth_error (fun c => 0 <= amount_of c)); eauto).
  set (p2 := pool_with_assets p (swap_new_assets p oi ai oc ac (amount_of offer) sc)).
  assert (Hp2 : pool_wf p2).
  { unfold pool_wf, p2; cbn. split; [exact Wf|]. split.
    - unfold swap_new_assets. apply Forall_set_nth; [apply Forall_set_nth|]; cbn; auto; lia.
    - intros Ht. unfold swap_new_assets. rewrite !set_nth_length. auto. }
  split; [|split; [reflexivity|]].
  - intros id q Hq. unfold pm_save_pool, pm_with_pools in Hq; cbn [pm_pools] in Hq. fold p2 in Hq.
    destruct (String.eqb id (p_id p2)) eqn:E.
    + apply String.eqb_eq in E. subst id. rewrite (sfind_sinsert_same p_id p2) in Hq. inversion Hq; subst; auto.
    + apply String.eqb_neq in E. rewrite (sfind_sinsert_other p_id id p2) in Hq by exact E. eapply Hwf; eauto.
  - intros id q Hq. unfold pm_save_pool, pm_with_pools; cbn [pm_pools]. fold p2.
    destruct (String.eqb id pid) eqn:E.
    + apply String.eqb_eq in E. subst id. rewrite Hp in Hq. inversion Hq; subst q.
      exists p2. rewrite <- Hid. change (p_id p) with (p_id p2). rewrite (sfind_sinsert_same p_id p2).
      repeat split; try reflexivity.
      * intros Ht. unfold p2; cbn. eapply cp_swap_product; eauto.
      * intros C; congruence.
    + apply String.eqb_neq in E. exists q.
      rewrite (sfind_sinsert_other p_id id p2) by (unfold p2; cbn; congruence).
      repeat split; auto. lia.
Qed.

(* ---------- swap (direct) ---------- *)
Lemma swap_spec w sender funds ask belief ms receiver pid s' msgs :
  swap w sender funds ask belief ms receiver pid = Ok (s', msgs) ->
  exists p offer sc,
    pool_find (w_pm w) pid = Ok p /\ swaps_enabled (p_status p) = true /\
    one_coin funds = Ok offer /\ denom_of offer <> ask /\
    perform_swap (w_pm w) offer ask pid belief ms = Ok (s', sc) /\
    msgs = ((if sc_return sc =? 0 then [] else [plain (MBankSend (addr_or_default w receiver sender) [(ask, sc_return sc)])]) ++
            swap_fee_msgs (pm_cfg (w_pm w)) ask sc)%list.
Proof.
  unfold swap. intros H.
  apply bind_ok in H. destruct H as [p [Hp H]].
  apply bind_ok in H. destruct H as [[] [He H]]. apply ensure_ok in He.
  apply bind_ok in H. destruct H as [offer [Ho H]].
  apply bind_ok in H. destruct H as [[] [Hd H]]. apply ensure_ok in Hd.
  apply bind_ok in H. destruct H as [[] [_ H]].
  apply bind_ok in H. destruct H as [[s1 sc] [Hps H]].
  inversion H; subst. exists p, offer, sc. repeat split; auto.
  intros C. rewrite C, String.eqb_refl in Hd. discriminate.
Qed.

Lemma one_coin_nonneg funds c : Forall (fun c => 0 <= amount_of c) funds -> one_coin funds = Ok c -> 0 < amount_of c.
Proof.
  unfold one_coin. destruct funds as [|x [|y r]]; try discriminate.
  intros H. inversion H; subst. destruct (amount_of x =? 0) eqn:E; intros Q; inversion Q; subst. lia.
Qed.

(* ---------- router ---------- *)
Lemma route_loop_pools ops : forall s prev ms fee_msgs s' out fm,
  pm_wf s -> 0 <= amount_of prev ->
  route_loop s prev ops ms fee_msgs = Ok (s', out, fm) ->
  pm_wf s' /\ pm_cfg s' = pm_cfg s /\ 0 <= amount_of out /\
  forall id p, sfind p_id id (pm_pools s) = Some p ->
    exists p', sfind p_id id (pm_pools s') = Some p' /\
      p_id p' = p_id p /\ p_type p' = p_type p /\ p_fees p' = p_fees p /\ p_status p' = p_status p /\
      p_denoms p' = p_denoms p /\ p_decimals p' = p_decimals p /\ p_lp p' = p_lp p /\
      (p_type p = ConstantProduct -> prod2 (p_assets p) <= prod2 (p_assets p')) /\
      (~ In id (map so_pool ops) -> p' = p).
Proof.
  induction ops as [|o r IH]; intros s prev ms fee_msgs s' out fm Hwf Hprev H; cbn [route_loop] in H.
  - inversion H; subst. refine (conj _ (conj _ (conj _ _))); auto. intros id0 p Hp. exists p. repeat split; auto. lia.
  - apply bind_ok in H. destruct H as [p0 [Hp0 H]].
    apply bind_ok in H. destruct H as [[] [He H]].
    apply bind_ok in H. destruct H as [[s1 sc] [Hps H]].
    pose proof (perform_swap_pools _ _ _ _ _ _ _ _ Hwf Hprev Hps) as (Hwf1 & Hcfg1 & Hpools1).
    assert (Hret : 0 <= sc_return sc).
    { apply perform_swap_spec in Hps. destruct Hps as (? & ? & ? & ? & ? & ? & ? & _ & _ & Hsc & _).
      apply compute_swap_fee_spec in Hsc. destruct Hsc as (g & _ & _ & _ & _ & _ & Hr & _). lia. }
    assert (Hret' : 0 <= amount_of (so_out o, sc_return sc)) by exact Hret.
    specialize (IH _ _ _ _ _ _ _ Hwf1 Hret' H). destruct IH as (Hwf' & Hcfg' & Hout & Hpools').
    refine (conj _ (conj _ (conj _ _))); auto; try congruence.
    intros id0 p Hp. destruct (Hpools1 _ _ Hp) as (p1 & F1 & A1 & A2 & A3 & A4 & A5 & A6 & A7 & A8 & A9).
    destruct (Hpools' _ _ F1) as (p2 & F2 & B1 & B2 & B3 & B4 & B5 & B6 & B7 & B8 & B9).
    exists p2. repeat split; try congruence.
    + intros Ht. rewrite A2 in B8. specialize (A8 Ht). specialize (B8 Ht). lia.
    + intros Hn. cbn in Hn. rewrite B9 by tauto. apply A9. intros C. apply Hn. left. auto.
Qed.

Lemma simulate_ops_ext ops : forall s1 s2 a,
  (forall o, In o ops -> sfind p_id (so_pool o) (pm_pools s1) = sfind p_id (so_pool o) (pm_pools s2)) ->
  simulate_ops s1 a ops = simulate_ops s2 a ops.
Proof.
  induction ops as [|o r IH]; intros s1 s2 a H; cbn [simulate_ops]; [reflexivity|].
  unfold query_simulation, pool_find. rewrite (H o) by (left; reflexivity).
  destruct (sfind p_id (so_pool o) (pm_pools s2)); cbn; [|reflexivity].
  destruct (compute_swap p (so_in o, a) (so_out o)); cbn; [|reflexivity].
  apply IH. intros o' Ho'. apply H. right. exact Ho'.
Qed.

(* C12 (routes): on a route that visits each pool at most once the simulated final amount equals the executed one *)
Lemma simulate_eq_route ops : forall s prev ms fm s' out fms,
  NoDup (map so_pool ops) ->
  assert_operations (denom_of prev) ops = Ok tt ->
  route_loop s prev ops ms fm = Ok (s', out, fms) ->
  simulate_ops s (amount_of prev) ops = Ok (amount_of out).
Proof.
  induction ops as [|o r IH]; intros s prev ms fm s' out fms Hnd Ha H; cbn [route_loop simulate_ops assert_operations] in *.
  - inversion H; subst. reflexivity.
  - apply bind_ok in Ha. destruct Ha as [[] [He Ha]]. apply ensure_ok in He. apply String.eqb_eq in He.
    apply bind_ok in H. destruct H as [p0 [Hp0 H]].
    apply bind_ok in H. destruct H as [[] [_ H]].
    apply bind_ok in H. destruct H as [[s1 sc] [Hps H]].
    pose proof Hps as Hps'. apply perform_swap_spec in Hps'.
    destruct Hps' as (p & oi & ai & oc & ac & od & ad & Hp & _ & Hsc & _ & _ & _ & Hs1).
    unfold query_simulation. rewrite Hp. cbn [bind].
    assert (Hprev : (so_in o, amount_of prev) = prev) by (rewrite He; destruct prev; reflexivity).
    rewrite Hprev, Hsc. cbn [bind].
    cbn [map] in Hnd. apply NoDup_cons_iff in Hnd. destruct Hnd as [Hnotin Hnd'].
    rewrite (simulate_ops_ext r s s1).
    + eapply (IH s1 (so_out o, sc_return sc)); eauto.
    + intros o' Ho'. rewrite Hs1. unfold pm_save_pool, pm_with_pools; cbn [pm_pools].
      symmetry. apply sfind_sinsert_other. cbn.
      apply pool_find_ok in Hp. rewrite (sfind_key _ _ _ _ Hp).
      intros C. apply Hnotin. rewrite <- C. apply in_map. exact Ho'.
Qed.

Lemma exec_ops_spec w sender funds ops mr receiver ms s' msgs :
  execute_swap_operations w sender funds ops mr receiver ms = Ok (s', msgs) ->
  exists lst fst_op amount out fee_msgs,
    last (map Some ops) None = Some lst /\ hd_error ops = Some fst_op /\
    must_pay funds (so_in fst_op) = Ok amount /\
    assert_operations (so_in fst_op) ops = Ok tt /\
    route_loop (w_pm w) (so_in fst_op, amount) ops ms [] = Ok (s', out, fee_msgs) /\
    (forall m, mr = Some m -> m <= amount_of out) /\
    msgs = ((if amount_of out =? 0 then []
             else [plain (MBankSend (addr_or_default w receiver sender) [(so_out lst, amount_of out)])]) ++ fee_msgs)%list.
Proof.
  unfold execute_swap_operations. intros H.
  apply bind_ok in H. destruct H as [lst [Hl H]]. apply of_option_ok in Hl.
  apply bind_ok in H. destruct H as [f [Hf H]]. apply of_option_ok in Hf.
  apply bind_ok in H. destruct H as [amount [Hm H]].
  apply bind_ok in H. destruct H as [[] [Ha H]].
  apply bind_ok in H. destruct H as [[[s1 out] fee_msgs] [Hr H]].
  apply bind_ok in H. destruct H as [[] [Hmr H]].
  inversion H; subst. exists lst, f, amount, out, fee_msgs. repeat split; auto.
  intros m ->. apply ensure_ok in Hmr. lia.
Qed.

(* C12, route form: SimulateSwapOperations equals the final amount ExecuteSwapOperations delivers *)
Lemma simulate_swap_operations_eq_execute w sender funds ops mr receiver ms s' msgs :
  NoDup (map so_pool ops) ->
  execute_swap_operations w sender funds ops mr receiver ms = Ok (s', msgs) ->
  exists fst_op amount out fee_msgs lst,
    hd_error ops = Some fst_op /\ must_pay funds (so_in fst_op) = Ok amount /\
    last (map Some ops) None = Some lst /\
    simulate_swap_operations (w_pm w) amount ops = Ok (amount_of out) /\
    msgs = ((if amount_of out =? 0 then []
             else [plain (MBankSend (addr_or_default w receiver sender) [(so_out lst, amount_of out)])]) ++ fee_msgs)%list.
Proof.
  intros Hnd H. apply exec_ops_spec in H.
  destruct H as (lst & f & amount & out & fee_msgs & Hl & Hf & Hm & Ha & Hr & _ & ->).
  exists f, amount, out, fee_msgs, lst. repeat split; auto.
  unfold simulate_swap_operations. destruct ops as [|o r]; [discriminate|]. cbn [List.length Nat.eqb negb ensure bind].
  change amount with (amount_of (so_in f, amount)).
  eapply simulate_eq_route; eauto.
Qed.

Lemma simulation_eq_swap_msgs w sender funds ask belief ms receiver pid s' msgs sc' :
  swap w sender funds ask belief ms receiver pid = Ok (s', msgs) ->
  (exists offer, one_coin funds = Ok offer /\ query_simulation (w_pm w) offer ask pid = Ok sc') ->
  msgs = ((if sc_return sc' =? 0 then [] else [plain (MBankSend (addr_or_default w receiver sender) [(ask, sc_return sc')])]) ++
          swap_fee_msgs (pm_cfg (w_pm w)) ask sc')%list.
Proof.
  intros H (offer & Ho & Q). apply swap_spec in H.
  destruct H as (p & offer' & sc & _ & _ & Ho' & _ & Hps & ->).
  rewrite Ho in Ho'. inversion Ho'; subst offer'.
  rewrite (simulation_eq_perform_swap _ _ _ _ _ _ _ _ _ Hps Q). reflexivity.
Qed.

Lemma route_loop_cons o r s prev ms fee_msgs s' out fm :
  route_loop s prev (o :: r) ms fee_msgs = Ok (s', out, fm) ->
  exists s1 sc,
    perform_swap s prev (so_out o) (so_pool o) None ms = Ok (s1, sc) /\
    route_loop s1 (so_out o, sc_return sc) r ms (fee_msgs ++ swap_fee_msgs (pm_cfg s) (so_out o) sc) = Ok (s', out, fm).
Proof.
  cbn [route_loop]. intros H.
  apply bind_ok in H. destruct H as [p0 [Hp0 H]].
  apply bind_ok in H. destruct H as [[] [_ H]].
  apply bind_ok in H. destruct H as [[s1 sc] [Hps H]].
  exists s1, sc. split; assumption.
Qed.

(* ---------- any sequence of swaps (direct or routed hops) on any pools ---------- *)
Record swap_req := { rq_offer : coin; rq_ask : string; rq_pool : string; rq_belief : option Z; rq_slip : option Z }.

Fixpoint swaps_run (s : pm_state) (l : list swap_req) : res pm_state :=
  match l with
  | [] => Ok s
  | r :: rest =>
      let* (s1, _) := perform_swap s (rq_offer r) (rq_ask r) (rq_pool r) (rq_belief r) (rq_slip r) in
      swaps_run s1 rest
  end.

Lemma swaps_run_pools l : forall s s',
  pm_wf s -> Forall (fun r => 0 <= amount_of (rq_offer r)) l ->
  swaps_run s l = Ok s' ->
  pm_wf s' /\
  forall id p, sfind p_id id (pm_pools s) = Some p ->
    exists p', sfind p_id id (pm_pools s') = Some p' /\ p_type p' = p_type p /\
      (p_type p = ConstantProduct -> prod2 (p_assets p) <= prod2 (p_assets p')).
Proof.
  induction l as [|r rest IH]; intros s s' Hwf Hall H; cbn [swaps_run] in H.
  - inversion H; subst. split; [assumption|]. intros id0 p Hp. exists p. repeat split; auto. lia.
  - apply bind_ok in H. destruct H as [[s1 sc] [Hps H]].
    inversion Hall as [|x xs Hx Hxs]; subst.
    pose proof (perform_swap_pools _ _ _ _ _ _ _ _ Hwf Hx Hps) as (Hwf1 & _ & Hpools1).
    destruct (IH _ _ Hwf1 Hxs H) as (Hwf' & Hpools').
    split; [assumption|]. intros id0 p Hp.
    destruct (Hpools1 _ _ Hp) as (p1 & F1 & _ & A2 & _ & _ & _ & _ & _ & A8 & _).
    destruct (Hpools' _ _ F1) as (p2 & F2 & B2 & B8).
    exists p2. repeat split; try congruence.
    intros Ht. rewrite A2 in B8. specialize (A8 Ht). specialize (B8 Ht). lia.
Qed.

(* arithmetic core of "no profitable round trip" on one constant-product pool: if the pool has not gained X
   (so the traders collectively did not lose X) it cannot have lost Y *)
Lemma cp_no_profit x y x' y' : 0 < x' -> 0 <= y' -> x * y <= x' * y' -> x' <= x -> y <= y'.
Proof. intros. nia. Qed.
