(* TxFarm.v — farm-manager operations as whole transactions: every bank balance. *)
From MD.Model Require Import Base Ownable Epoch PoolMath Types PoolManager FarmManager Chain.
From MD.Proofs Require Import Tactics Arith PoolMathProofs MapLemmas BankProofs ChainProofs WeightProofs FarmProofs RewardProofs
  PoolCustody PoolCustodyChain SingleSided TxBalances TxExcess ClaimFrame.

Lemma handle_fm_typed w sender funds fm w2 msgs :
  handle w FM sender funds (WFm fm) = Ok (w2, msgs) ->
  exists s', fm_execute w sender funds fm = Ok (s', msgs) /\ w2 = set_fm w s'.
Proof.
  intros Eh. apply handle_ok_typed in Eh. destruct Eh as (Eh & _ & _).
  unfold handle_typed in Eh. cbn [String.eqb EM FC PM FM Ascii.eqb Bool.eqb] in Eh.
  apply bind_ok in Eh. destruct Eh as [[s1 msgs1] [Hx Eh]]. inversion Eh; subst. eauto.
Qed.

(* C07 / C06: the Rewards query on the state before a Claim transaction gives exactly what that transaction moves from
   the farm manager to the claimant; no other balance changes *)
Theorem claim_tx_balances w sender until funds w' :
  addr_valid w sender = true -> NoDup (map f_id (fm_farms (w_fm w))) ->
  run_tx w sender FM (WFm (FmClaim until)) funds = Ok w' ->
  exists total,
    funds = [] /\ query_rewards w (w_fm w) sender until = aggregate_coins total /\
    match total with
    | [] => forall a d, bal (w_bank w') a d = bal (w_bank w) a d
    | _ => exists agg, query_rewards w (w_fm w) sender until = Ok agg /\
             forall a d, bal (w_bank w') a d = bal (w_bank w) a d
                           - ind (String.eqb a FM) (camt agg d) + ind (String.eqb a sender) (camt agg d)
    end.
Proof.
  intros Hav Hnd H.
  destruct (leaf_tx_full _ _ _ _ _ _ H) as (wa & w2 & msgs & Hsa & Hsup & Eh & Hfull).
  destruct (handle_fm_typed _ _ _ _ _ _ Eh) as (s1 & Hx & ->). cbn [fm_execute] in Hx.
  assert (Hf : funds = []) by (apply claim_tables in Hx; destruct Hx as [Hf _]; exact Hf). subst funds.
  destruct Hsa as (Hblk & Htf & Hval & Hem & _ & _ & Hfma).
  assert (Hava : addr_valid wa sender = true) by (unfold addr_valid in *; rewrite Hval; exact Hav).
  assert (Hnda : NoDup (map f_id (fm_farms (w_fm wa)))) by (rewrite Hfma; exact Hnd).
  destruct (claim_pays_what_rewards_quotes _ _ _ _ _ Hava Hnda Hx) as (total & Hq & Hm).
  (* the query does not depend on anything the (empty) funds transfer touched *)
  assert (Hqw : query_rewards wa (w_fm wa) sender until = query_rewards w (w_fm w) sender until).
  { unfold query_rewards, addr_valid, q_current_epoch. rewrite Hval, Hfma, Hem, Hblk. reflexivity. }
  rewrite Hqw in Hq.
  exists total. split; [reflexivity|]. split; [exact Hq|].
  destruct total as [|c r].
  - subst msgs. destruct (Hfull eq_refl) as [_ Hbal]. intros a d. rewrite Hbal. cbn [camt leaves_eff]. unfold ind.
    destruct (String.eqb a sender), (String.eqb a FM); lia.
  - destruct Hm as (agg & Hagg & ->). exists agg. split; [rewrite Hq; exact Hagg|].
    destruct (Hfull eq_refl) as [_ Hbal]. intros a d. rewrite Hbal.
    cbn [camt leaves_eff leaf_eff plain sm_msg]. unfold ind. destruct (String.eqb a sender), (String.eqb a FM); lia.
Qed.

(* C05 / C08: creating a position moves exactly the attached LP from the sender to the farm manager; nothing else *)
Theorem position_create_tx_balances w sender funds oid dur receiver w' :
  run_tx w sender FM (WFm (FmPosCreate oid dur receiver)) funds = Ok w' ->
  forall a d, bal (w_bank w') a d = bal (w_bank w) a d - ind (String.eqb a sender) (camt funds d) + ind (String.eqb a FM) (camt funds d).
Proof.
  intros H.
  destruct (leaf_tx_full _ _ _ _ _ _ H) as (wa & w2 & msgs & Hsa & Hsup & Eh & Hfull).
  destruct (handle_fm_typed _ _ _ _ _ _ Eh) as (s1 & Hx & ->). cbn [fm_execute] in Hx.
  assert (Hm : msgs = []).
  { unfold create_position in Hx. inv_all; reflexivity. }
  subst msgs. destruct (Hfull eq_refl) as [_ Hbal]. intros a d. rewrite Hbal. cbn [leaves_eff]. lia.
Qed.
