(* TxFarm.v — farm-manager operations as whole transactions: every bank balance. *)
From MD.Model Require Import Base Ownable Epoch PoolMath Types PoolManager FarmManager Chain.
From MD.Proofs Require Import Tactics Arith PoolMathProofs MapLemmas BankProofs ChainProofs WeightProofs FarmProofs RewardProofs
  PoolCustody PoolCustodyChain SingleSided TxBalances TxExcess ClaimFrame.

Lemma handle_fm_typed w sender funds fm w2 msgs :
  handle w FM sender funds (WFm fm) = Ok (w2, msgs) ->
  exists s', fm_execute w sender funds fm = Ok (s', msgs) /\ w2 = set_fm w s'.
Proof.
  intros Eh. apply handle_ok_typed in Eh. destruct Eh as (Eh & _ & _).
  unfold handle_typed in Eh. cbn [String.eqb EM FC PM FM Ascii.eqb Bool.eqb] in Eh.
  apply bind_ok in Eh. destruct Eh as [[s1 msgs1] [Hx Eh]]. inversion Eh; subst. eauto.
Qed.

(* C07 / C06: the Rewards query on the state before a Claim transaction gives exactly what that transaction moves from
   the farm manager to the claimant; no other balance changes *)
Theorem claim_tx_balances w sender until funds w' :
  addr_valid w sender = true -> NoDup (map f_id (fm_farms (w_fm w))) ->
  run_tx w sender FM (WFm (FmClaim until)) funds = Ok w' ->
  exists total,
    funds = [] /\ query_rewards w (w_fm w) sender until = aggregate_coins total /\
    match total with
    | [] => forall a d, bal (w_bank w') a d = bal (w_bank w) a d
    | _ => exists agg, query_rewards w (w_fm w) sender until = Ok agg /\
             forall a d, bal (w_bank w') a d = bal (w_bank w) a d
                           - ind (String.eqb a FM) (camt agg d) + ind (String.eqb a sender) (camt agg d)
    end.
Proof.
  intros Hav Hnd H.
  destruct (leaf_tx_full _ _ _ _ _ _ H) as (wa & w2 & msgs & Hsa & Hsup & Eh & Hfull).
  destruct (handle_fm_typed _ _ _ _ _ _ Eh) as (s1 & Hx & ->). cbn [fm_execute] in Hx.
  assert (Hf : funds = []) by (apply claim_tables in Hx; destruct Hx as [Hf _]; exact Hf). subst funds.
  destruct Hsa as (Hblk & Htf & Hval & Hem & _ & _ & Hfma).
  assert (Hava : addr_valid wa sender = true) by (unfold addr_valid in *; rewrite Hval; exact Hav).
  assert (Hnda : NoDup (map f_id (fm_farms (w_fm wa)))) by (rewrite Hfma; exact Hnd).
  destruct (claim_pays_what_rewards_quotes _ _ _ _ _ Hava Hnda Hx) as (total & Hq & Hm).
  (* the query does not depend on anything the (empty) funds transfer touched *)
  assert (Hqw : query_rewards wa (w_fm wa) sender until = query_rewards w (w_fm w) sender until).
  { unfold query_rewards, addr_valid, q_current_epoch. rewrite Hval, Hfma, Hem, Hblk. reflexivity. }
  rewrite Hqw in Hq.
  exists total. split; [reflexivity|]. split; [exact Hq|].
  destruct total as [|c r].
  - subst msgs. destruct (Hfull eq_refl) as [_ Hbal]. intros a d. rewrite Hbal. cbn [camt leaves_eff]. unfold ind.
    destruct (String.eqb a sender), (String.eqb a FM); lia.
  - destruct Hm as (agg & Hagg & ->). exists agg. split; [rewrite Hq; exact Hagg|].
    destruct (Hfull eq_refl) as [_ Hbal]. intros a d. rewrite Hbal.
    cbn [camt leaves_eff leaf_eff plain sm_msg]. unfold ind. destruct (String.eqb a sender), (String.eqb a FM); lia.
Qed.

(* C05 / C08: creating a position moves exactly the attached LP from the sender to the farm manager; nothing else *)
Theorem position_create_tx_balances w sender funds oid dur receiver w' :
  run_tx w sender FM (WFm (FmPosCreate oid dur receiver)) funds = Ok w' ->
  forall a d, bal (w_bank w') a d = bal (w_bank w) a d - ind (String.eqb a sender) (camt funds d) + ind (String.eqb a FM) (camt funds d).
Proof.
  intros H.
  destruct (leaf_tx_full _ _ _ _ _ _ H) as (wa & w2 & msgs & Hsa & Hsup & Eh & Hfull).
  destruct (handle_fm_typed _ _ _ _ _ _ Eh) as (s1 & Hx & ->). cbn [fm_execute] in Hx.
  assert (Hm : msgs = []).
  { unfold create_position in Hx. inv_all; reflexivity. }
  subst msgs. destruct (Hfull eq_refl) as [_ Hbal]. intros a d. rewrite Hbal. cbn [leaves_eff]. lia.
Qed.

(* C11: expanding a farm moves exactly the attached coins from the sender to the farm manager; nothing else *)
Theorem expand_farm_tx_balances w sender funds p w' :
  run_tx w sender FM (WFm (FmExpandFarm p)) funds = Ok w' ->
  forall a d, bal (w_bank w') a d = bal (w_bank w) a d - ind (String.eqb a sender) (camt funds d) + ind (String.eqb a FM) (camt funds d).
Proof.
  intros H.
  destruct (leaf_tx_full _ _ _ _ _ _ H) as (wa & w2 & msgs & Hsa & Hsup & Eh & Hfull).
  destruct (handle_fm_typed _ _ _ _ _ _ Eh) as (s1 & Hx & ->). cbn [fm_execute] in Hx.
  apply expand_farm_spec in Hx. destruct Hx as [-> _].
  destruct (Hfull eq_refl) as [_ Hbal]. intros a d. rewrite Hbal. cbn [leaves_eff]. lia.
Qed.

(* C11: closing a farm (by its owner or the contract owner) refunds exactly the unclaimed remainder to the farm's owner
   and to nobody else; if that transfer fails the farm is closed all the same and no balance changes at all *)
Theorem close_farm_tx_balances w sender funds id w' :
  run_tx w sender FM (WFm (FmCloseFarm id)) funds = Ok w' ->
  exists f, sfind f_id id (fm_farms (w_fm w)) = Some f /\ funds = [] /\
    (f_owner f = sender \/ owner (fm_own (w_fm w)) = Some sender) /\
    fm_farms (w_fm w') = sremove f_id (f_id f) (fm_farms (w_fm w)) /\
    let rem := ssub (amount_of (f_asset f)) (f_claimed f) in
    ((forall a d, bal (w_bank w') a d = bal (w_bank w) a d
                   - ind (String.eqb a FM) (ind (String.eqb (denom_of (f_asset f)) d) rem)
                   + ind (String.eqb a (f_owner f)) (ind (String.eqb (denom_of (f_asset f)) d) rem))
     \/ (forall a d, bal (w_bank w') a d = bal (w_bank w) a d)).
Proof.
  intros H. unfold run_tx in H.
  destruct (process FUEL w sender [plain (MWasm FM (WFm (FmCloseFarm id)) funds)]) as [[wx|ex] flx] eqn:Ep; cbn [fst] in H; [|discriminate].
  inversion H; subst wx; clear H. unfold FUEL in Ep.
  destruct (plain_call _ _ _ _ _ _ _ _ Ep) as (wa & fla & w2 & subs2 & fl2 & Eb & Eh & E2).
  destruct (handle_fm_typed _ _ _ _ _ _ Eh) as (s1 & Hx & ->). cbn [fm_execute] in Hx.
  apply close_farm_spec in Hx. destruct Hx as (Hf & f & Hfind & Hauth & Hs1 & Hm). subst funds.
  inversion Eb; subst wa fla; clear Eb.
  exists f. split; [exact Hfind|]. split; [reflexivity|]. split; [exact Hauth|].
  cbv zeta in Hm.
  destruct (0 <? ssub (amount_of (f_asset f)) (f_claimed f)) eqn:Er; subst subs2.
  - (* one refund, its failure tolerated *)
    rewrite process_cons in E2. unfold exec_sub in E2. cbn [sm_msg sm_reply sm_id wants_success wants_error] in E2.
    destruct (exec_leaf (set_fm w s1) FM (MBankSend (f_owner f) [(denom_of (f_asset f), ssub (amount_of (f_asset f)) (f_claimed f))])) as [[w3|e3] fl3] eqn:El.
    + rewrite process_nil in E2. inversion E2; subst w3.
      pose proof (exec_leaf_same (set_fm w s1) FM (MBankSend (f_owner f) [(denom_of (f_asset f), ssub (amount_of (f_asset f)) (f_claimed f))]) _ _ eq_refl El) as (_ & _ & _ & _ & _ & _ & Hfm').
      split; [rewrite Hfm'; cbn [w_fm set_fm]; rewrite Hs1; reflexivity|].
      left. intros a d. rewrite (exec_leaf_bal (set_fm w s1) FM (MBankSend (f_owner f) [(denom_of (f_asset f), ssub (amount_of (f_asset f)) (f_claimed f))]) _ _ a d eq_refl El). cbn [w_bank set_fm leaf_eff camt denom_of amount_of fst snd].
      unfold ind. destruct (String.eqb a FM), (String.eqb a (f_owner f)), (String.eqb (denom_of (f_asset f)) d); lia.
    + cbv zeta in E2.
      destruct (handle_reply (set_fault (set_fm w s1) fl3) FM CLOSE_FARMS_ERR_REPLY_CODE) as [[w4 rsubs]|er] eqn:Er4; [|discriminate].
      unfold handle_reply in Er4. cbn [String.eqb EM FC PM FM Ascii.eqb Bool.eqb] in Er4.
      apply bind_ok in Er4. destruct Er4 as [[s4 subs4] [Hr4 Er4]]. apply AtomicProofs.fm_reply_spec in Hr4. destruct Hr4 as (-> & -> & _).
      inversion Er4; subst w4 rsubs; clear Er4.
      rewrite process_nil in E2. rewrite process_nil in E2. inversion E2; subst w'.
      split; [cbn [w_fm set_fm set_fault]; rewrite Hs1; reflexivity|].
      right. intros a d. reflexivity.
  - rewrite process_nil in E2. inversion E2; subst w'.
    split; [cbn [w_fm set_fm]; rewrite Hs1; reflexivity|].
    right. intros a d. reflexivity.
Qed.
