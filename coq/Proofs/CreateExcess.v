(* C01 / C16: a pool creation is paid for exactly — the attached funds are, denom by denom, the creation fee plus the
   token-factory fee, nothing more — hence it leaves the pool manager's surplus unchanged. *)
From Coq Require Import ZArith List String Lia Bool.
From MD.Model Require Import Base Ownable Epoch Types PoolMath PoolManager FarmManager Chain.
From MD.Proofs Require Import Tactics Arith PoolMathProofs MapLemmas BankProofs ChainProofs PmProofs PoolCustody PoolCustodyChain SingleSided TxBalances TxExcess.
Import ListNotations.
Open Scope Z_scope.

Lemma paid_amount_eq l dn :
  (forall c, In c l -> 0 <= amount_of c) -> camt l dn <= U128_MAX -> paid_amount l dn = camt l dn.
Proof.
  intros Hnn Hmax. unfold paid_amount.
  assert (G : forall l acc, (forall c, In c l -> 0 <= amount_of c) -> 0 <= acc -> acc + camt l dn <= U128_MAX ->
              foldM (fun acc c => if String.eqb (denom_of c) dn then cadd U128_MAX acc (amount_of c) else Ok acc) l acc = Ok (acc + camt l dn)).
  { induction l0 as [|c r IH]; intros acc Hn Ha Hm; cbn [foldM camt] in *; [f_equal; lia|].
    assert (Hc : 0 <= amount_of c) by (apply Hn; left; reflexivity).
    assert (Hr : 0 <= camt r dn) by (apply camt_all_nonneg; intros x Hx; apply Hn; right; exact Hx).
    destruct (String.eqb (denom_of c) dn).
    - unfold cadd. rewrite chk_ok_intro by lia. cbn [bind]. rewrite IH; [f_equal; lia | intros x Hx; apply Hn; right; exact Hx | lia | lia].
    - cbn [bind]. rewrite IH; [f_equal; lia | intros x Hx; apply Hn; right; exact Hx | lia | lia]. }
  rewrite (G l 0 Hnn ltac:(lia) ltac:(lia)). lia.
Qed.

Lemma camt_no_denom l d : (forall c, In c l -> String.eqb (denom_of c) d = false) -> camt l d = 0.
Proof.
  induction l as [|c r IH]; intros H; cbn [camt]; [reflexivity|].
  rewrite (H c (or_introl eq_refl)). apply IH. intros x Hx. apply H. right. exact Hx.
Qed.

Lemma mapM_fees_denoms agg : forall l rest,
  mapM (fun f => let p := paid_amount agg (denom_of f) in
                 let* _ := ensure (p =? amount_of f) "InvalidTokenFactoryFee" in Ok (denom_of f, p)) l = Ok rest ->
  map denom_of rest = map denom_of l /\ forall f, In f l -> paid_amount agg (denom_of f) = amount_of f.
Proof.
  induction l as [|x r IH]; intros rest H; cbn [mapM] in H.
  - inversion H; subst. split; [reflexivity | intros f []].
  - apply bind_ok in H. destruct H as [y [Hy H]]. apply bind_ok in H. destruct H as [ys [Hys H]]. inversion H; subst rest; clear H.
    apply bind_ok in Hy. destruct Hy as [[] [He Hy]]. apply ensure_ok in He. inversion Hy; subst y; clear Hy.
    destruct (IH _ Hys) as [A B]. split; [cbn [map denom_of fst]; rewrite A; reflexivity|].
    intros f [<-|Hf]; [lia | apply B; exact Hf].
Qed.

(* the two validations of create_pool together: the funds are exactly the fees *)
Lemma fees_paid_exact fee tf funds total :
  validate_fees_are_paid fee tf funds = Ok total ->
  validate_no_additional_funds funds total = Ok tt ->
  (forall c, In c funds -> 0 <= amount_of c) -> (forall d, camt funds d <= U128_MAX) ->
  NoDup (map denom_of tf) -> (forall f, In f tf -> 0 <= amount_of f) -> 0 <= amount_of fee ->
  (forall f, In f tf -> amount_of f + amount_of fee <= U128_MAX) ->
  forall d, camt funds d = camt [fee] d + camt tf d.
Proof.
  intros Hpaid Hextra Hfn Hmax Hnd Htfnn Hfee0 Hsum d.
  unfold validate_fees_are_paid in Hpaid.
  apply bind_ok in Hpaid. destruct Hpaid as [agg [Hagg Hpaid]].
  apply bind_ok in Hpaid. destruct Hpaid as [[] [Hfeepaid Hpaid]]. apply ensure_ok in Hfeepaid.
  apply bind_ok in Hpaid. destruct Hpaid as [rest [Hrest Hpaid]]. inversion Hpaid; subst total; clear Hpaid.
  unfold validate_no_additional_funds in Hextra. rewrite Hagg in Hextra. cbn [bind] in Hextra. apply ensure_ok in Hextra.
  apply negb_true_iff in Hextra.
  pose proof (aggregate_nonneg _ _ Hagg Hfn) as Haggnn.
  assert (Hcam : forall x, camt agg x = camt funds x) by (intros x; apply (aggregate_camt _ _ x Hagg)).
  assert (Hpa : forall x, paid_amount agg x = camt funds x).
  { intros x. rewrite paid_amount_eq; [apply Hcam | exact Haggnn | rewrite Hcam; apply Hmax]. }
  destruct (mapM_fees_denoms _ _ _ Hrest) as [Hden Hexact].
  pose proof (camt_nodup_find tf d Hnd) as Htf.
  cbn [camt]. destruct (String.eqb (denom_of fee) d) eqn:Ed.
  - apply String.eqb_eq in Ed. subst d. rewrite Hpa in Hfeepaid. rewrite Htf.
    destruct (find (fun f => String.eqb (denom_of f) (denom_of fee)) tf) as [f0|] eqn:Ef.
    + pose proof (find_some _ _ Ef) as [Hin0 _]. specialize (Hsum f0 Hin0).
      unfold cadd in Hfeepaid. rewrite chk_ok_intro in Hfeepaid by (pose proof (Htfnn f0 Hin0); lia). lia.
    + lia.
  - rewrite Htf. destruct (find (fun f => String.eqb (denom_of f) d) tf) as [f0|] eqn:Ef.
    + pose proof (find_some _ _ Ef) as [Hin0 Hd0]. apply String.eqb_eq in Hd0.
      assert (Hf0 : In f0 (filter (fun f => negb (String.eqb (denom_of f) (denom_of fee))) tf)).
      { apply filter_In. split; [exact Hin0|]. rewrite Hd0. rewrite String.eqb_sym. rewrite Ed. reflexivity. }
      specialize (Hexact f0 Hf0). rewrite Hpa, Hd0 in Hexact. lia.
    + (* a denom that is no fee denom at all: nothing of it may be attached *)
      rewrite <- Hcam. rewrite camt_no_denom; [lia|].
      intros c Hc. destruct (String.eqb (denom_of c) d) eqn:Ec; [|reflexivity]. exfalso.
      apply String.eqb_eq in Ec.
      assert (Hno : existsb (fun fe => String.eqb (denom_of fe) (denom_of c) && (amount_of fe =? amount_of c))
                      ((denom_of fee, paid_amount agg (denom_of fee)) :: rest) = true).
      { destruct (existsb (fun fe => String.eqb (denom_of fe) (denom_of c) && (amount_of fe =? amount_of c))
                    ((denom_of fee, paid_amount agg (denom_of fee)) :: rest)) eqn:Ex; [reflexivity|]. exfalso.
        assert (Hex : existsb (fun fund => negb (existsb (fun fe => String.eqb (denom_of fe) (denom_of fund) && (amount_of fe =? amount_of fund))
                                                   ((denom_of fee, paid_amount agg (denom_of fee)) :: rest))) agg = true).
        { apply existsb_exists. exists c. split; [exact Hc|]. rewrite Ex. reflexivity. }
        rewrite Hex in Hextra. discriminate. }
      apply existsb_exists in Hno. destruct Hno as (fe & Hfe & Hm). apply andb_true_iff in Hm. destruct Hm as [Hm _].
      apply String.eqb_eq in Hm. destruct Hfe as [<-|Hfe].
      * cbn [denom_of fst] in Hm. rewrite Hm, Ec, String.eqb_refl in Ed. discriminate.
      * assert (Hin : In (denom_of fe) (map denom_of (filter (fun f => negb (String.eqb (denom_of f) (denom_of fee))) tf))).
        { rewrite <- Hden. apply in_map. exact Hfe. }
        apply in_map_iff in Hin. destruct Hin as (f1 & Hd1 & Hf1). apply filter_In in Hf1. destruct Hf1 as [Hf1 _].
        assert (Hfind : find (fun f => String.eqb (denom_of f) d) tf <> None).
        { intros C. apply (find_none _ _ C) in Hf1. rewrite Hd1, Hm, Ec, String.eqb_refl in Hf1. discriminate. }
        rewrite Ef in Hfind. congruence.
Qed.

(* whole transaction: creating a pool leaves the pool manager's surplus unchanged in every denom *)
Theorem create_pool_tx_excess w sender funds denoms decimals fees pt oid w' :
  sender <> PM -> pm_fee_collector (pm_cfg (w_pm w)) <> PM -> fees_small w ->
  (forall d, camt funds d <= U128_MAX) ->
  run_tx w sender PM (WPm (PmCreatePool denoms decimals fees pt oid)) funds = Ok w' ->
  forall d, slackP w' d = slackP w d.
Proof.
  intros Hs Hfc Hsmall Hmax H d.
  pose proof (create_pool_tx_balances _ _ _ _ _ _ _ _ _ H PM d) as Hbal. cbv zeta in Hbal.
  destruct (leaf_tx_full _ _ _ _ _ _ H) as (wa & w2 & msgs & Hsa & Hsup & Eh & Hfull).
  apply handle_ok_typed in Eh. destruct Eh as (Eh & Hcoins & _).
  unfold handle_typed in Eh. cbn [String.eqb EM FC PM FM Ascii.eqb Bool.eqb] in Eh.
  apply bind_ok in Eh. destruct Eh as [[s1 msgs1] [Hx Eh]]. inversion Eh; subst w2 msgs; clear Eh. cbn [pm_execute] in Hx.
  pose proof Hsa as (_ & Htfa & _ & _ & _ & Hpma & _).
  pose proof (create_pool_checks _ _ _ _ _ _ _ _ _ Hx) as Hc. cbv zeta in Hc.
  destruct Hc as (_ & _ & _ & _ & _ & _ & (tfees & Hpaid & Hextra) & _ & Hm).
  rewrite Hpma, Htfa in Hpaid.
  destruct (fees_small_ok _ Hsmall) as (Hnd & Htfnn & Hfee0 & Hsum).
  assert (Hfn : forall c, In c funds -> 0 <= amount_of c).
  { intros c Hc. unfold coins_ok in Hcoins. rewrite forallb_forall in Hcoins. specialize (Hcoins c Hc).
    unfold coin_ok, u128_ok, in_range in Hcoins. lia. }
  pose proof (fees_paid_exact _ _ _ _ Hpaid Hextra Hfn Hmax Hnd Htfnn Hfee0 Hsum d) as Hfunds.
  (* reserves: the new pool starts empty *)
  assert (Hres : res (w_pm w') d = res (w_pm w) d).
  { assert (Hleaf : forallb plain_leaf msgs1 = true).
    { subst msgs1. rewrite forallb_app. destruct (amount_of (pm_creation_fee (pm_cfg (w_pm wa))) =? 0); reflexivity. }
    destruct (Hfull Hleaf) as [(_ & _ & _ & _ & _ & Hpm' & _) _]. cbn [w_pm set_pm] in Hpm'. rewrite Hpm'.
    apply create_pool_shape in Hx. destruct Hx as (p & Hfresh & Hpools & _ & _ & _ & _ & _ & _ & _ & Hassets & _).
    unfold res. rewrite Hpools, ssum_sinsert, Hfresh, Hpma. unfold res_pool at 2. rewrite Hassets, camt_zero_assets. lia. }
  unfold slackP. rewrite Hres, Hbal.
  assert (Hsp : String.eqb PM sender = false) by (apply String.eqb_neq; congruence).
  assert (Hf : String.eqb PM (pm_fee_collector (pm_cfg (w_pm w))) = false) by (apply String.eqb_neq; congruence).
  rewrite Hsp, Hf, String.eqb_refl. unfold ind. lia.
Qed.

(* ownership and configuration messages (switches included) move no funds and no reserves *)
Theorem admin_tx_excess w sender funds m w' :
  (exists a, m = PmOwnership a) \/ (exists fc fm fee t, m = PmUpdateConfig fc fm fee t) ->
  run_tx w sender PM (WPm m) funds = Ok w' ->
  forall d, slackP w' d = slackP w d.
Proof.
  intros Hm H d.
  destruct (leaf_tx_full _ _ _ _ _ _ H) as (wa & w2 & msgs & Hsa & Hsup & Eh & Hfull).
  apply handle_ok_typed in Eh. destruct Eh as (Eh & _ & _).
  unfold handle_typed in Eh. cbn [String.eqb EM FC PM FM Ascii.eqb Bool.eqb] in Eh.
  apply bind_ok in Eh. destruct Eh as [[s1 msgs1] [Hx Eh]]. inversion Eh; subst w2 msgs; clear Eh.
  pose proof Hsa as (_ & _ & _ & _ & _ & Hpma & _).
  assert (Hfacts : funds = [] /\ msgs1 = [] /\ res s1 d = res (w_pm w) d).
  { destruct Hm as [(a & ->)|(fc & fm & fee & t & ->)]; cbn [pm_execute] in Hx.
    - apply bind_ok in Hx. destruct Hx as [[] [Hn Hx]]. unfold nonpayable in Hn. destruct funds; [|discriminate].
      apply bind_ok in Hx. destruct Hx as [o [_ Hx]]. inversion Hx; subst. rewrite Hpma. repeat split.
    - apply bind_ok in Hx. destruct Hx as [[] [Hn Hx]]. unfold nonpayable in Hn. destruct funds; [|discriminate].
      unfold pm_update_config in Hx.
      apply bind_ok in Hx. destruct Hx as [[] [_ Hx]].
      apply bind_ok in Hx. destruct Hx as [fc' [_ Hx]].
      apply bind_ok in Hx. destruct Hx as [fm' [_ Hx]].
      apply bind_ok in Hx. destruct Hx as [pools' [Hp Hx]]. inversion Hx; subst s1 msgs1; clear Hx.
      split; [reflexivity|]. split; [reflexivity|]. unfold res at 1. cbn [pm_pools].
      destruct t as [t|].
      + apply bind_ok in Hp. destruct Hp as [p [Hp Hp2]]. inversion Hp2; subst pools'.
        rewrite (res_status_change _ _ _ d (pool_find_id _ _ _ Hp)). rewrite Hpma. reflexivity.
      + inversion Hp; subst. rewrite Hpma. reflexivity. }
  destruct Hfacts as (-> & -> & Hres).
  destruct (Hfull eq_refl) as [(_ & _ & _ & _ & _ & Hpm' & _) Hbal]. cbn [w_pm set_pm] in Hpm'.
  unfold slackP. rewrite Hpm', Hres, (Hbal PM d). cbn [camt leaves_eff]. unfold ind. destruct (String.eqb PM sender), (String.eqb PM PM); lia.
Qed.

(* transactions to the epoch manager and to the fee collector do not concern the pool manager *)
Theorem em_fc_tx_excess w sender target m funds w' :
  sender <> PM -> target = EM \/ target = FC ->
  run_tx w sender target m funds = Ok w' ->
  forall d, slackP w' d = slackP w d.
Proof.
  intros Hs Ht H d.
  destruct (leaf_tx_full _ _ _ _ _ _ H) as (wa & w2 & msgs & Hsa & Hsup & Eh & Hfull).
  apply handle_ok_typed in Eh. destruct Eh as (Eh & _ & _). unfold handle_typed in Eh.
  pose proof Hsa as (_ & _ & _ & _ & _ & Hpma & _).
  assert (Hfacts : msgs = [] /\ w_pm w2 = w_pm wa).
  { destruct Ht as [->| ->]; cbn [String.eqb EM FC PM FM Ascii.eqb Bool.eqb] in Eh; destruct m; try discriminate.
    - apply bind_ok in Eh. destruct Eh as [s [_ Eh]]. inversion Eh; subst. split; reflexivity.
    - apply bind_ok in Eh. destruct Eh as [[] [_ Eh]]. apply bind_ok in Eh. destruct Eh as [o [_ Eh]]. inversion Eh; subst. split; reflexivity. }
  destruct Hfacts as (-> & Hpm2).
  destruct (Hfull eq_refl) as [(_ & _ & _ & _ & _ & Hpm' & _) Hbal].
  unfold slackP. rewrite Hpm', Hpm2, Hpma, (Hbal PM d). cbn [leaves_eff].
  assert (Hsp : String.eqb PM sender = false) by (apply String.eqb_neq; congruence).
  assert (Htp : String.eqb PM target = false) by (destruct Ht as [->| ->]; reflexivity).
  rewrite Hsp, Htp. unfold ind. lia.
Qed.
