(* PoolCustody.v — C01: the pool manager's balance covers the reserves of all pools, per denom.
   Part 1: per-message accounting   reserves' + outgoing <= reserves + attached funds. *)
From MD.Model Require Import Base Ownable Epoch PoolMath Types PoolManager FarmManager Chain.
From MD.Proofs Require Import Tactics Arith PoolMathProofs MapLemmas BankProofs SwapProofs PmProofs LiquidityProofs.

Definition res_pool (d : string) (p : pool_info) : Z := camt (p_assets p) d.
Definition res (s : pm_state) (d : string) : Z := ssum (res_pool d) (pm_pools s).

(* what one message of the pool manager takes out of (or, for a mint to itself, puts into) its own balance *)
Definition outP1 (tf : list coin) (d : string) (m : submsg) : Z :=
  match sm_msg m with
  | MBankSend to cs => if String.eqb to PM then 0 else camt cs d
  | MBankBurn cs => camt cs d
  | MTfCreateDenom _ => camt tf d
  | MTfMint c to => if String.eqb to PM then - camt [c] d else 0
  | MTfBurn c => camt [c] d
  | MWasm _ _ funds => (if wants_success (sm_reply m) then 2 else 1) * camt funds d   (* a call whose reply re-deposits what it sent (single-asset provision) counts twice *)
  end.
Fixpoint outP (tf : list coin) (msgs : list submsg) (d : string) : Z :=
  match msgs with [] => 0 | m :: r => outP1 tf d m + outP tf r d end.
Lemma outP_app tf a b d : outP tf (a ++ b) d = outP tf a d + outP tf b d.
Proof. induction a as [|m r IH]; cbn; [reflexivity | rewrite IH; lia]. Qed.

(* ---------- list arithmetic ---------- *)
Lemma camt_set_nth l i old dn v d :
  nth_error l i = Some old ->
  camt (set_nth i (dn, v) l) d = camt l d - ind (String.eqb (denom_of old) d) (amount_of old) + ind (String.eqb dn d) v.
Proof.
  revert i. induction l as [|x r IH]; intros i H; destruct i; cbn in H; try discriminate.
  - inversion H; subst. cbn [set_nth camt denom_of amount_of fst snd]. unfold ind.
    destruct (String.eqb (denom_of old) d), (String.eqb dn d); lia.
  - cbn [set_nth camt]. rewrite (IH _ H). lia.
Qed.

Lemma camt_sort_insert c l d : camt (sort_insert c l) d = camt (c :: l) d.
Proof.
  induction l as [|x r IH]; cbn [sort_insert camt]; [reflexivity|].
  destruct (String.ltb (denom_of c) (denom_of x)); cbn [camt]; [reflexivity | rewrite IH; cbn [camt]; lia].
Qed.
Lemma camt_sort l d : camt (sort_by_denom l) d = camt l d.
Proof. unfold sort_by_denom. induction l as [|x r IH]; cbn [fold_right camt]; [reflexivity | rewrite camt_sort_insert; cbn [camt]; rewrite IH; reflexivity]. Qed.

Lemma index_of_denom_nth dn l i : index_of_denom dn l = Some i -> exists c, nth_error l i = Some c /\ denom_of c = dn.
Proof.
  unfold index_of_denom. intros H. apply find_index_some in H. destruct H as (c & Hc & He). apply String.eqb_eq in He. eauto.
Qed.

Lemma add_deposits_camt deps : forall l l' d, add_deposits deps l = Ok l' -> camt l' d = camt l d + camt deps d.
Proof.
  unfold add_deposits. induction deps as [|x r IH]; intros l l' d H; cbn [foldM] in H.
  - inversion H; subst. cbn. lia.
  - apply bind_ok in H. destruct H as [l1 [H1 H]]. rewrite (IH _ _ d H). cbn [camt].
    apply bind_ok in H1. destruct H1 as [i [Hi H1]]. apply of_option_ok in Hi.
    apply bind_ok in H1. destruct H1 as [pa [Hpa H1]]. apply nth_coin_ok in Hpa.
    apply bind_ok in H1. destruct H1 as [v [Hv H1]]. unfold cadd in Hv. apply chk_ok in Hv. destruct Hv as [-> _]. inversion H1; subst l1.
    destruct (index_of_denom_nth _ _ _ Hi) as (c & Hc & Hd). rewrite Hpa in Hc. inversion Hc; subst c.
    rewrite (camt_set_nth _ _ _ _ _ d Hpa). rewrite Hd. unfold ind. destruct (String.eqb (denom_of x) d); lia.
Qed.

(* replacing the reserves of one stored pool *)
Lemma res_save_pool s p a d :
  sfind p_id (p_id p) (pm_pools s) = Some p ->
  res (pm_save_pool s (pool_with_assets p a)) d = res s d - camt (p_assets p) d + camt a d.
Proof.
  intros Hp. unfold res, pm_save_pool, pm_with_pools. cbn [pm_pools]. rewrite ssum_sinsert. cbn [p_id pool_with_assets]. rewrite Hp.
  unfold res_pool. cbn [p_assets pool_with_assets]. lia.
Qed.

(* ---------- swap ---------- *)
Lemma perform_swap_res s offer ask pid belief ms s' sc d :
  perform_swap s offer ask pid belief ms = Ok (s', sc) ->
  res s' d = res s d + ind (String.eqb (denom_of offer) d) (amount_of offer)
             - ind (String.eqb ask d) (sc_return sc + sc_protocol_fee sc + sc_burn_fee sc) /\
  0 <= sc_return sc /\ 0 <= sc_protocol_fee sc /\ 0 <= sc_burn_fee sc.
Proof.
  intros H. apply perform_swap_spec in H.
  destruct H as (p & oi & ai & oc & ac & od & ad & Hp & Hg & Hsc & _ & _ & _ & ->).
  pose proof (get_asset_indexes_spec _ _ _ _ _ _ _ _ _ Hg) as (_ & _ & Hne & N1 & N2 & D1 & D2 & _).
  apply compute_swap_fee_spec in Hsc. destruct Hsc as (g & _ & _ & _ & _ & _ & Hr & _ & Hpf & Hbf & _).
  split; [|lia]. rewrite (res_save_pool _ _ _ d (pool_find_id _ _ _ Hp)). unfold swap_new_assets.
  assert (N2' : nth_error (set_nth oi (denom_of oc, amount_of oc + amount_of offer) (p_assets p)) ai = Some ac)
    by (rewrite nth_error_set_nth_neq by exact Hne; exact N2).
  rewrite (camt_set_nth _ _ _ _ _ d N2'), (camt_set_nth _ _ _ _ _ d N1). rewrite D1, D2. unfold ind.
  destruct (String.eqb (denom_of offer) d), (String.eqb ask d); lia.
Qed.

Lemma swap_fee_msgs_out tf cfg ask sc d :
  0 <= sc_protocol_fee sc -> 0 <= sc_burn_fee sc ->
  outP tf (swap_fee_msgs cfg ask sc) d <= ind (String.eqb ask d) (sc_protocol_fee sc + sc_burn_fee sc).
Proof.
  intros Hp Hb. unfold swap_fee_msgs. rewrite outP_app.
  destruct (sc_burn_fee sc =? 0) eqn:E1, (sc_protocol_fee sc =? 0) eqn:E2; cbn [outP outP1 plain sm_msg camt denom_of amount_of fst snd];
    unfold ind; destruct (String.eqb ask d); try destruct (String.eqb (pm_fee_collector cfg) PM); lia.
Qed.

Definition pm_accounted (w : world) (s' : pm_state) (funds : list coin) (msgs : list submsg) : Prop :=
  forall d, res s' d + outP (w_tf_fee w) msgs d <= res (w_pm w) d + camt funds d.

Lemma one_coin_camt' funds c d : one_coin funds = Ok c -> camt funds d = ind (String.eqb (denom_of c) d) (amount_of c).
Proof.
  unfold one_coin. destruct funds as [|x [|y r]]; try discriminate. destruct (amount_of x =? 0); intros H; inversion H; subst.
  cbn. unfold ind. destruct (String.eqb (denom_of c) d); lia.
Qed.

Lemma accounted_swap w sender funds ask belief ms receiver pid s' msgs :
  swap w sender funds ask belief ms receiver pid = Ok (s', msgs) -> pm_accounted w s' funds msgs.
Proof.
  intros H d. apply swap_spec in H. destruct H as (p & offer & sc & _ & _ & Hone & _ & Hps & ->).
  destruct (perform_swap_res _ _ _ _ _ _ _ _ d Hps) as (Hr & H0 & H1 & H2). rewrite Hr, (one_coin_camt' _ _ d Hone), outP_app.
  pose proof (swap_fee_msgs_out (w_tf_fee w) (pm_cfg (w_pm w)) ask sc d H1 H2).
  assert (outP (w_tf_fee w) (if sc_return sc =? 0 then [] else [plain (MBankSend (addr_or_default w receiver sender) [(ask, sc_return sc)])]) d
          <= ind (String.eqb ask d) (sc_return sc)).
  { destruct (sc_return sc =? 0) eqn:E; cbn [outP outP1 plain sm_msg camt denom_of amount_of fst snd]; unfold ind;
      destruct (String.eqb ask d); try destruct (String.eqb (addr_or_default w receiver sender) PM); lia. }
  unfold ind in *. destruct (String.eqb ask d), (String.eqb (denom_of offer) d); lia.
Qed.

(* ---------- router ---------- *)
Lemma route_loop_res tf ops : forall s prev ms fm s' out fms d,
  0 <= amount_of prev ->
  route_loop s prev ops ms fm = Ok (s', out, fms) ->
  0 <= amount_of out /\
  res s' d + outP tf fms d + ind (String.eqb (denom_of out) d) (amount_of out)
    <= res s d + outP tf fm d + ind (String.eqb (denom_of prev) d) (amount_of prev).
Proof.
  induction ops as [|o r IH]; intros s prev ms fm s' out fms d Hprev H.
  - cbn in H. inversion H; subst. split; [exact Hprev | lia].
  - apply route_loop_cons in H. destruct H as (s1 & sc & Hps & H).
    destruct (perform_swap_res _ _ _ _ _ _ _ _ d Hps) as (Hr & H0 & H1 & H2).
    assert (Hret : 0 <= amount_of (so_out o, sc_return sc)) by exact H0.
    destruct (IH _ _ _ _ _ _ _ d Hret H) as (Hout & Hle). split; [exact Hout|].
    rewrite outP_app in Hle. pose proof (swap_fee_msgs_out tf (pm_cfg s) (so_out o) sc d H1 H2).
    cbn [denom_of amount_of fst snd] in Hle. unfold ind in *.
    destruct (String.eqb (so_out o) d), (String.eqb (denom_of prev) d); lia.
Qed.

Lemma must_pay_camt funds dn a d : must_pay funds dn = Ok a -> camt funds d = ind (String.eqb dn d) a.
Proof.
  unfold must_pay. intros H. apply bind_ok in H. destruct H as [c [Hc H]].
  destruct (String.eqb (denom_of c) dn) eqn:E; [|discriminate]. inversion H; subst. apply String.eqb_eq in E. subst dn.
  apply one_coin_camt'. exact Hc.
Qed.

Lemma route_loop_out_denom ops : forall s prev ms fm s' out fms lst,
  route_loop s prev ops ms fm = Ok (s', out, fms) -> last (map Some ops) None = Some lst -> denom_of out = so_out lst.
Proof.
  induction ops as [|o r IH]; intros s prev ms fm s' out fms lst H Hl; [cbn in Hl; discriminate|].
  apply route_loop_cons in H. destruct H as (s1 & sc & _ & H).
  destruct r as [|o2 r2].
  - cbn in H, Hl. inversion H; subst. inversion Hl; subst. reflexivity.
  - eapply IH; [exact H|]. cbn [map last] in *. exact Hl.
Qed.

Lemma accounted_route w sender funds ops mr receiver ms s' msgs :
  (forall c, In c funds -> 0 <= amount_of c) ->
  execute_swap_operations w sender funds ops mr receiver ms = Ok (s', msgs) -> pm_accounted w s' funds msgs.
Proof.
  intros Hfn H d. apply exec_ops_spec in H.
  destruct H as (lst & f & amount & out & fee_msgs & Hl & _ & Hm & _ & Hr & _ & ->).
  assert (Ha : 0 <= amount).
  { unfold must_pay in Hm. apply bind_ok in Hm. destruct Hm as [c [Hc Hm]]. destruct (String.eqb _ _); [|discriminate]. inversion Hm; subst.
    apply Hfn. unfold one_coin in Hc. destruct funds as [|x [|y r]]; try discriminate. destruct (amount_of x =? 0); inversion Hc; subst. left. reflexivity. }
  assert (Ha' : 0 <= amount_of (so_in f, amount)) by exact Ha.
  destruct (route_loop_res (w_tf_fee w) _ _ _ _ _ _ _ _ d Ha' Hr) as (Hout & Hle).
  rewrite (must_pay_camt _ _ _ d Hm), outP_app. cbn [outP denom_of amount_of fst snd] in Hle.
  rewrite (route_loop_out_denom _ _ _ _ _ _ _ _ _ Hr Hl) in Hle.
  assert (Hsend : outP (w_tf_fee w) (if amount_of out =? 0 then [] else [plain (MBankSend (addr_or_default w receiver sender) [(so_out lst, amount_of out)])]) d
                  <= ind (String.eqb (so_out lst) d) (amount_of out)).
  { destruct (amount_of out =? 0); cbn [outP outP1 plain sm_msg camt denom_of amount_of fst snd]; unfold ind;
      destruct (String.eqb (so_out lst) d); try destruct (String.eqb (addr_or_default w receiver sender) PM); lia. }
  lia.
Qed.

(* ---------- withdrawals ---------- *)
Lemma sub_refunds_camt refunds : forall l l' d,
  foldM (fun acc r =>
           let* i := of_option (index_of_denom (denom_of r) acc) "AssetMismatch" in
           let* pa := nth_coin i acc in
           let* v := csub U128_MAX (amount_of pa) (amount_of r) in
           Ok (set_nth i (denom_of pa, v) acc)) refunds l = Ok l' ->
  camt l' d = camt l d - camt refunds d.
Proof.
  induction refunds as [|x r IH]; intros l l' d H; cbn [foldM] in H.
  - inversion H; subst. cbn. lia.
  - apply bind_ok in H. destruct H as [l1 [H1 H]]. rewrite (IH _ _ d H). cbn [camt].
    apply bind_ok in H1. destruct H1 as [i [Hi H1]]. apply of_option_ok in Hi.
    apply bind_ok in H1. destruct H1 as [pa [Hpa H1]]. apply nth_coin_ok in Hpa.
    apply bind_ok in H1. destruct H1 as [v [Hv H1]]. unfold csub in Hv. apply chk_ok in Hv. destruct Hv as [-> _]. inversion H1; subst l1.
    destruct (index_of_denom_nth _ _ _ Hi) as (c & Hc & Hd). rewrite Hpa in Hc. inversion Hc; subst c.
    rewrite (camt_set_nth _ _ _ _ _ d Hpa). rewrite Hd. unfold ind. destruct (String.eqb (denom_of x) d); lia.
Qed.

Lemma camt_filter_pos l d : camt (filter (fun c => 0 <? amount_of c) l) d <= camt l d \/ True.
Proof. right. exact I. Qed.

Lemma filter_pos_nonneg l d : 0 <= camt (filter (fun c => 0 <? amount_of c) l) d.
Proof.
  induction l as [|c r IH]; cbn [filter camt]; [lia|]. destruct (0 <? amount_of c) eqn:E; cbn [camt]; [|exact IH].
  destruct (String.eqb (denom_of c) d); lia.
Qed.

Lemma accounted_withdraw w sender funds pid s' msgs :
  withdraw_liquidity w sender funds pid = Ok (s', msgs) -> pm_accounted w s' funds msgs.
Proof.
  intros H d. unfold withdraw_liquidity in H.
  apply bind_ok in H. destruct H as [p [Hp H]].
  apply bind_ok in H. destruct H as [[] [_ H]].
  apply bind_ok in H. destruct H as [amount [Ham H]].
  apply bind_ok in H. destruct H as [total [_ H]].
  apply bind_ok in H. destruct H as [ratio [_ H]].
  apply bind_ok in H. destruct H as [[] [_ H]].
  apply bind_ok in H. destruct H as [refunds_all [_ H]].
  apply bind_ok in H. destruct H as [assets' [Hsub H]].
  apply bind_ok in H. destruct H as [bm [Hbm H]]. inversion H; subst s' msgs; clear H.
  unfold burn_lp_msg in Hbm. apply bind_ok in Hbm. destruct Hbm as [[] [_ Hbm]]. inversion Hbm; subst bm.
  rewrite (res_save_pool _ _ _ d (pool_find_id _ _ _ Hp)), (sub_refunds_camt _ _ _ d Hsub), (must_pay_camt _ _ _ d Ham).
  cbn [outP outP1 plain sm_msg camt denom_of amount_of fst snd].
  pose proof (filter_pos_nonneg refunds_all d). unfold ind. destruct (String.eqb sender PM), (String.eqb (p_lp p) d); lia.
Qed.

(* ---------- deposits ---------- *)
Lemma slippage_tolerance_camt tol deps pa pt pa' d :
  assert_slippage_tolerance tol deps pa pt = Ok pa' -> camt pa' d = camt pa d.
Proof.
  unfold assert_slippage_tolerance. intros H.
  destruct (existsb _ pa); [inversion H; reflexivity|].
  destruct tol as [t|]; [|inversion H; reflexivity].
  apply bind_ok in H. destruct H as [[] [_ H]].
  destruct pt as [|amp].
  - destruct (map amount_of deps) as [|d0 [|d1 [|d2 r]]]; try discriminate;
      destruct (map amount_of (sort_by_denom pa)) as [|p0 [|p1 [|p2 r']]]; try discriminate.
    inv_all; apply camt_sort.
  - inv_all. apply camt_sort.
Qed.

Lemma normalize_amount_nonneg mx a f t r : 0 <= a -> normalize_amount mx a f t = Ok r -> 0 <= r.
Proof.
  intros Ha. unfold normalize_amount. destruct (t <? f) eqn:E.
  - apply Z.ltb_lt in E. destruct (39 <=? f - t); [discriminate|]. intros H. inversion H; subst. apply Z.div_pos; [exact Ha|].
    apply Z.pow_pos_nonneg; lia.
  - destruct (39 <=? t - f); [discriminate|]. unfold cmul. intros H. apply chk_ok in H. destruct H as [-> [H _]]. exact H.
Qed.

Lemma compute_lp_mint_stableswap_nonneg amp old new ts p r : compute_lp_mint_stableswap amp old new ts p = Ok r -> 0 <= r.
Proof.
  unfold compute_lp_mint_stableswap. intros H.
  apply bind_ok in H. destruct H as [td [_ H]].
  destruct (td =? 0); [inversion H; lia|].
  apply bind_ok in H. destruct H as [d0 [_ H]].
  apply bind_ok in H. destruct H as [d1 [_ H]].
  destruct (d1 <=? d0); [inversion H; lia|].
  apply bind_ok in H. destruct H as [adj [_ H]].
  apply bind_ok in H. destruct H as [ad1 [_ H]].
  destruct (ts =? 0).
  - apply bind_ok in H. destruct H as [[] [_ H]].
    apply bind_ok in H. destruct H as [ml [_ H]].
    apply bind_ok in H. destruct H as [[] [_ H]]. apply chk_ok in H. lia.
  - apply bind_ok in H. destruct H as [df [_ H]].
    apply bind_ok in H. destruct H as [m [_ H]].
    apply bind_ok in H. destruct H as [a [_ H]]. apply chk_ok in H. lia.
Qed.

Lemma accounted_provide w sender funds ls ss r pid u l s' msgs :
  (forall c, In c funds -> 0 <= amount_of c) ->
  provide_liquidity w sender funds ls ss r pid u l = Ok (s', msgs) -> pm_accounted w s' funds msgs.
Proof.
  intros Hfn H d. unfold provide_liquidity, mint_lp_msg in H.
  apply bind_ok in H. destruct H as [p [Hp H]].
  apply bind_ok in H. destruct H as [[] [_ H]].
  apply bind_ok in H. destruct H as [deps [Hd H]].
  apply bind_ok in H. destruct H as [[] [Hne H]].
  apply bind_ok in H. destruct H as [[] [_ H]].
  pose proof (aggregate_camt _ _ d Hd) as Hagg.
  destruct deps as [|d0 [|d1 rest]].
  - cbn in Hne. discriminate.
  - (* single asset: swap half to self *)
    apply bind_ok in H. destruct H as [[] [_ H]].
    apply bind_ok in H. destruct H as [[] [_ H]].
    apply bind_ok in H. destruct H as [[] [_ H]].
    apply bind_ok in H. destruct H as [askc [_ H]].
    apply bind_ok in H. destruct H as [sim [_ H]].
    apply bind_ok in H. destruct H as [og [_ H]].
    apply bind_ok in H. destruct H as [[] [_ H]]. inversion H; subst s' msgs; clear H.
    unfold res, pm_with_buffer. cbn [pm_pools outP outP1 sm_msg sm_reply wants_success camt denom_of amount_of fst snd].
    rewrite <- Hagg. cbn [camt].
    assert (Hd0 : 0 <= amount_of d0).
    { (* the aggregated amount of a denom is the sum of non-negative amounts *)
      pose proof (aggregate_camt _ _ (denom_of d0) Hd) as Hs. cbn [camt] in Hs. rewrite String.eqb_refl in Hs.
      assert (0 <= camt funds (denom_of d0)).
      { clear - Hfn. induction funds as [|c rr IH]; cbn; [lia|].
        assert (0 <= amount_of c) by (apply Hfn; left; reflexivity).
        assert (0 <= camt rr (denom_of d0)) by (apply IH; intros x Hx; apply Hfn; right; exact Hx).
        destruct (String.eqb (denom_of c) (denom_of d0)); lia. }
      lia. }
    assert (2 * (amount_of d0 / 2) <= amount_of d0) by (apply Z.mul_div_le; lia).
    assert (0 <= amount_of d0 / 2) by (apply Z.div_pos; lia).
    destruct (String.eqb (denom_of d0) d); lia.
  - (* two or more assets *)
    apply bind_ok in H. destruct H as [ts [_ H]].
    apply bind_ok in H. destruct H as [[shares msgs0] [Hm0 H]].
    apply bind_ok in H. destruct H as [pa' [Hpa H]].
    apply bind_ok in H. destruct H as [msgs1 [Hm1 H]].
    apply bind_ok in H. destruct H as [assets'' [Hadd H]]. inversion H; subst s' msgs; clear H.
    rewrite (res_save_pool _ _ _ d (pool_find_id _ _ _ Hp)).
    fold (add_deposits (d0 :: d1 :: rest) pa') in Hadd.
    rewrite (add_deposits_camt _ _ _ d Hadd), (slippage_tolerance_camt _ _ _ _ _ d Hpa), Hagg, outP_app.
    (* the share and the minimum liquidity are non-negative; the messages only mint (to others, or to the pool manager
       itself, which is then forwarded) *)
    assert (H0 : outP (w_tf_fee w) msgs0 d <= 0 /\ 0 <= shares).
    { destruct (p_type p) as [|amp].
      - destruct (ts =? 0).
        + apply bind_ok in Hm0. destruct Hm0 as [c0 [_ Hm0]].
          apply bind_ok in Hm0. destruct Hm0 as [c1 [_ Hm0]].
          apply bind_ok in Hm0. destruct Hm0 as [[] [_ Hm0]].
          apply bind_ok in Hm0. destruct Hm0 as [m [Hmint Hm0]].
          apply bind_ok in Hmint. destruct Hmint as [[] [_ Hmint]]. inversion Hmint; subst m. inversion Hm0; subst.
          split; [|unfold ssub; lia]. cbn [outP outP1 plain sm_msg camt denom_of amount_of fst snd]. unfold MINIMUM_LIQUIDITY_AMOUNT.
          cbn [String.eqb PM Ascii.eqb Bool.eqb]. destruct (String.eqb (p_lp p) d); lia.
        + apply bind_ok in Hm0. destruct Hm0 as [shs [Hshs Hm0]].
          apply bind_ok in Hm0. destruct Hm0 as [s0 [Hs0 Hm0]].
          apply bind_ok in Hm0. destruct Hm0 as [s1 [Hs1 Hm0]]. inversion Hm0; subst. split; [cbn; lia|].
          assert (G : forall ds shs, mapM (fun dd => let* i := of_option (index_of_denom (denom_of dd) (p_assets p)) "AssetMismatch" in
                        let* pa := nth_coin i (p_assets p) in mul_ratio U128_MAX (amount_of dd) ts (amount_of pa)) ds = Ok shs ->
                      Forall (fun x => 0 <= x) shs).
          { induction ds as [|dd dr IHd]; intros sh Hmm; cbn [mapM] in Hmm; [inversion Hmm; constructor|].
            apply bind_ok in Hmm. destruct Hmm as [y [Hy Hmm]]. apply bind_ok in Hmm. destruct Hmm as [ys [Hys Hmm]]. inversion Hmm; subst.
            constructor; [|apply IHd; exact Hys].
            apply bind_ok in Hy. destruct Hy as [i [_ Hy]]. apply bind_ok in Hy. destruct Hy as [pa [_ Hy]].
            unfold mul_ratio in Hy. destruct (amount_of pa =? 0); [discriminate|]. apply chk_ok in Hy. lia. }
          specialize (G _ _ Hshs). apply nthZ_ok in Hs0, Hs1.
          assert (0 <= s0) by exact (Forall_nth_error _ _ _ _ G Hs0). assert (0 <= s1) by exact (Forall_nth_error _ _ _ _ G Hs1). lia.
      - apply bind_ok in Hm0. destruct Hm0 as [ms [Hms Hm0]].
        apply bind_ok in Hm0. destruct Hm0 as [na [_ Hm0]].
        apply bind_ok in Hm0. destruct Hm0 as [sh [Hsh Hm0]]. inversion Hm0; subst.
        split; [|eapply compute_lp_mint_stableswap_nonneg; eauto].
        destruct (ts =? 0); [|inversion Hms; cbn; lia].
        apply bind_ok in Hms. destruct Hms as [[] [_ Hms]].
        apply bind_ok in Hms. destruct Hms as [[] [_ Hms]].
        apply bind_ok in Hms. destruct Hms as [ml [Hml Hms]].
        apply bind_ok in Hms. destruct Hms as [m [Hmint Hms]].
        apply bind_ok in Hmint. destruct Hmint as [[] [_ Hmint]]. inversion Hmint; subst m. inversion Hms; subst.
        unfold min_liquidity_stableswap in Hml. apply normalize_amount_nonneg in Hml; [|unfold MINIMUM_LIQUIDITY_AMOUNT; lia].
        cbn [outP outP1 plain sm_msg camt denom_of amount_of fst snd]. cbn [String.eqb PM Ascii.eqb Bool.eqb].
        destruct (String.eqb (p_lp p) d); lia. }
    destruct H0 as [Ho0 Hsh].
    assert (H1 : outP (w_tf_fee w) msgs1 d <= 0).
    { destruct u as [dur|].
      - apply bind_ok in Hm1. destruct Hm1 as [[] [_ Hm1]].
        apply bind_ok in Hm1. destruct Hm1 as [m [Hmint Hm1]].
        apply bind_ok in Hmint. destruct Hmint as [[] [_ Hmint]]. inversion Hmint; subst m; clear Hmint.
        assert (E : forall fmm, outP (w_tf_fee w) [plain (MTfMint (p_lp p, shares) PM); plain (MWasm (pm_farm_manager (pm_cfg (w_pm w))) fmm [(p_lp p, shares)])] d = 0).
        { intros fmm. cbn [outP outP1 plain sm_msg sm_reply wants_success camt denom_of amount_of fst snd]. cbn [String.eqb PM Ascii.eqb Bool.eqb].
          destruct (String.eqb (p_lp p) d); lia. }
        destruct l as [lid|].
        + destruct (q_position w (pm_farm_manager (pm_cfg (w_pm w))) lid) as [pos|e].
          * apply bind_ok in Hm1. destruct Hm1 as [[] [_ Hm1]]. inversion Hm1; subst. rewrite E. lia.
          * inversion Hm1; subst. rewrite E. lia.
        + inversion Hm1; subst. rewrite E. lia.
      - apply bind_ok in Hm1. destruct Hm1 as [[] [_ Hm1]].
        apply bind_ok in Hm1. destruct Hm1 as [m [Hmint Hm1]].
        apply bind_ok in Hmint. destruct Hmint as [[] [_ Hmint]]. inversion Hmint; subst m. inversion Hm1; subst.
        cbn [outP outP1 plain sm_msg camt denom_of amount_of fst snd].
        destruct (String.eqb (addr_or_default w r sender) PM), (String.eqb (p_lp p) d); lia. }
    lia.
Qed.

(* ---------- pool creation ---------- *)
Lemma paid_amount_le l dn : (forall c, In c l -> 0 <= amount_of c) -> paid_amount l dn <= camt l dn.
Proof.
  intros Hnn. unfold paid_amount.
  assert (G : forall l acc v, (forall c, In c l -> 0 <= amount_of c) ->
              foldM (fun acc c => if String.eqb (denom_of c) dn then cadd U128_MAX acc (amount_of c) else Ok acc) l acc = Ok v ->
              v = acc + camt l dn).
  { induction l0 as [|c r IH]; intros acc v Hn H; cbn [foldM camt] in *; [inversion H; lia|].
    apply bind_ok in H. destruct H as [a1 [H1 H]].
    rewrite (IH _ _ (fun x Hx => Hn x (or_intror Hx)) H).
    destruct (String.eqb (denom_of c) dn); [unfold cadd in H1; apply chk_ok in H1; lia | inversion H1; lia]. }
  destruct (foldM _ l 0) as [v|e] eqn:E.
  - rewrite (G _ _ _ Hnn E). lia.
  - clear - Hnn. induction l as [|c r IH]; cbn; [lia|].
    assert (0 <= amount_of c) by (apply Hnn; left; reflexivity).
    assert (0 <= camt r dn) by (apply IH; intros x Hx; apply Hnn; right; exact Hx).
    destruct (String.eqb (denom_of c) dn); lia.
Qed.

Lemma camt_nodup_find tf d : NoDup (map denom_of tf) ->
  camt tf d = match find (fun f => String.eqb (denom_of f) d) tf with Some f => amount_of f | None => 0 end.
Proof.
  induction tf as [|c r IH]; cbn [map camt find]; intros H; [reflexivity|]. inversion H as [|x xs Hx Hr]; subst.
  destruct (String.eqb (denom_of c) d) eqn:E.
  - apply String.eqb_eq in E. subst d.
    assert (camt r (denom_of c) = 0).
    { clear - Hx. induction r as [|y ys IH]; cbn; [reflexivity|].
      destruct (String.eqb (denom_of y) (denom_of c)) eqn:E; [apply String.eqb_eq in E; exfalso; apply Hx; left; exact E|].
      apply IH. intros C. apply Hx. right. exact C. }
    lia.
  - rewrite (IH Hr). lia.
Qed.

Lemma camt_all_nonneg l d : (forall c, In c l -> 0 <= amount_of c) -> 0 <= camt l d.
Proof.
  induction l as [|c r IH]; cbn; intros H; [lia|].
  assert (0 <= amount_of c) by (apply H; left; reflexivity).
  assert (0 <= camt r d) by (apply IH; intros x Hx; apply H; right; exact Hx). destruct (String.eqb (denom_of c) d); lia.
Qed.

Lemma aggregate_nonneg l : forall r, aggregate_coins l = Ok r -> (forall c, In c l -> 0 <= amount_of c) -> forall c, In c r -> 0 <= amount_of c.
Proof.
  unfold aggregate_coins.
  assert (G : forall l acc r, foldM (fun acc c => agg_insert c acc) l acc = Ok r ->
              (forall c, In c l -> 0 <= amount_of c) -> (forall c, In c acc -> 0 <= amount_of c) -> forall c, In c r -> 0 <= amount_of c).
  { induction l0 as [|x xs IH]; intros acc r H Hl Ha; cbn [foldM] in H; [inversion H; subst; exact Ha|].
    apply bind_ok in H. destruct H as [acc1 [H1 H]]. apply (IH _ _ H); [intros c Hc; apply Hl; right; exact Hc|].
    assert (Hx : 0 <= amount_of x) by (apply Hl; left; reflexivity). clear - H1 Ha Hx.
    revert acc1 H1. induction acc as [|y ys IHa]; intros acc1 H1; cbn [agg_insert] in H1.
    - inversion H1; subst. intros c [<-|[]]. exact Hx.
    - destruct (String.compare (denom_of x) (denom_of y)).
      + apply bind_ok in H1. destruct H1 as [s [Hs H1]]. unfold cadd in Hs. apply chk_ok in Hs. destruct Hs as [-> _]. inversion H1; subst.
        intros c [<-|Hc]; [cbn; pose proof (Ha y (or_introl eq_refl)); lia | apply Ha; right; exact Hc].
      + inversion H1; subst. intros c [<-|Hc]; [exact Hx | apply Ha; exact Hc].
      + apply bind_ok in H1. destruct H1 as [r' [Hr H1]]. inversion H1; subst.
        intros c [<-|Hc]; [apply Ha; left; reflexivity | eapply (IHa (fun z Hz => Ha z (or_intror Hz))); eauto]. }
  intros r H Hl. eapply G; eauto. intros c [].
Qed.

Lemma camt_zero_assets (denoms : list string) d : camt (map (fun dd : string => (dd, 0)) denoms) d = 0.
Proof. induction denoms as [|x r IH]; cbn; [reflexivity|]. rewrite IH. destruct (String.eqb x d); lia. Qed.

(* configured fees small enough for their sums to stay inside u128, token-factory fee denoms distinct *)
Definition fees_ok (w : world) : Prop :=
  NoDup (map denom_of (w_tf_fee w)) /\ (forall f, In f (w_tf_fee w) -> 0 <= amount_of f) /\
  0 <= amount_of (pm_creation_fee (pm_cfg (w_pm w))) /\
  (forall f, In f (w_tf_fee w) -> amount_of f + amount_of (pm_creation_fee (pm_cfg (w_pm w))) <= U128_MAX).

Lemma accounted_create_pool w funds denoms decimals fees pt oid s' msgs :
  fees_ok w -> (forall c, In c funds -> 0 <= amount_of c) ->
  create_pool w funds denoms decimals fees pt oid = Ok (s', msgs) -> pm_accounted w s' funds msgs.
Proof.
  intros (Hnd & Htfnn & Hfee0 & Hsum) Hfn H d.
  pose proof (create_pool_checks _ _ _ _ _ _ _ _ _ H) as Hc. cbv zeta in Hc.
  destruct Hc as (_ & _ & _ & _ & _ & _ & (tfees & Hpaid & _) & _ & ->).
  apply create_pool_shape in H. destruct H as (p & Hfresh & Hpools & _ & _ & _ & _ & _ & _ & _ & Hassets & _).
  set (fee := pm_creation_fee (pm_cfg (w_pm w))) in *.
  (* reserves: the new pool starts empty *)
  assert (Hres : res s' d = res (w_pm w) d).
  { unfold res. rewrite Hpools, ssum_sinsert, Hfresh. unfold res_pool at 2. rewrite Hassets.
    rewrite camt_zero_assets. lia. }
  rewrite Hres, outP_app.
  (* what was paid *)
  unfold validate_fees_are_paid in Hpaid.
  apply bind_ok in Hpaid. destruct Hpaid as [agg [Hagg Hpaid]].
  apply bind_ok in Hpaid. destruct Hpaid as [[] [Hfeepaid Hpaid]]. apply ensure_ok in Hfeepaid.
  apply bind_ok in Hpaid. destruct Hpaid as [rest [Hrest _]].
  pose proof (aggregate_nonneg _ _ Hagg Hfn) as Haggnn.
  pose proof (aggregate_camt _ _ d Hagg) as Hcam.
  pose proof (camt_nodup_find (w_tf_fee w) d Hnd) as Htf.
  assert (Hout_fee : outP (w_tf_fee w) (if amount_of fee =? 0 then [] else [plain (MBankSend (pm_fee_collector (pm_cfg (w_pm w))) [fee])]) d
                     <= ind (String.eqb (denom_of fee) d) (amount_of fee)).
  { destruct (amount_of fee =? 0); cbn [outP outP1 plain sm_msg camt]; unfold ind;
      destruct (String.eqb (denom_of fee) d); try destruct (String.eqb (pm_fee_collector (pm_cfg (w_pm w))) PM); lia. }
  cbn [outP outP1 plain sm_msg].
  destruct (String.eqb (denom_of fee) d) eqn:Ed.
  - apply String.eqb_eq in Ed. subst d. rewrite <- Hcam.
    pose proof (paid_amount_le agg (denom_of fee) Haggnn) as Hple.
    rewrite Htf. unfold ind in Hout_fee.
    destruct (find (fun f => String.eqb (denom_of f) (denom_of fee)) (w_tf_fee w)) as [f0|] eqn:Ef.
    + pose proof (find_some _ _ Ef) as [Hin0 _]. specialize (Hsum f0 Hin0). fold fee in Hsum.
      unfold cadd in Hfeepaid. rewrite chk_ok_intro in Hfeepaid by (pose proof (Htfnn f0 Hin0); lia). lia.
    + lia.
  - rewrite <- Hcam. unfold ind in Hout_fee. rewrite Htf.
    destruct (find (fun f => String.eqb (denom_of f) d) (w_tf_fee w)) as [f0|] eqn:Ef.
    + pose proof (find_some _ _ Ef) as [Hin0 Hd0]. apply String.eqb_eq in Hd0.
      (* f0 is one of the token-factory fees in another denom: it was checked to be paid exactly *)
      assert (Hp0 : paid_amount agg (denom_of f0) = amount_of f0).
      { assert (Hf0 : In f0 (filter (fun f => negb (String.eqb (denom_of f) (denom_of fee))) (w_tf_fee w))).
        { apply filter_In. split; [exact Hin0|]. rewrite Hd0. rewrite String.eqb_sym. rewrite Ed. reflexivity. }
        clear - Hrest Hf0. revert rest Hrest. induction (filter _ (w_tf_fee w)) as [|x r IH]; intros rest Hrest; [destruct Hf0|].
        cbn [mapM] in Hrest. apply bind_ok in Hrest. destruct Hrest as [y [Hy Hrest]]. apply bind_ok in Hrest. destruct Hrest as [ys [Hys _]].
        destruct Hf0 as [->|Hf0]; [|eapply IH; eauto].
        apply bind_ok in Hy. destruct Hy as [[] [He _]]. apply ensure_ok in He. lia. }
      pose proof (paid_amount_le agg (denom_of f0) Haggnn). rewrite Hd0 in *. lia.
    + pose proof (camt_all_nonneg agg d Haggnn). lia.
Qed.

(* ---------- every pool-manager message ---------- *)
Definition HALF_U128 : Z := 170141183460469231731687303715884105727.   (* 2^127 - 1 *)
Definition fees_small (w : world) : Prop :=
  NoDup (map denom_of (w_tf_fee w)) /\ (forall f, In f (w_tf_fee w) -> 0 <= amount_of f <= HALF_U128) /\
  0 <= amount_of (pm_creation_fee (pm_cfg (w_pm w))) <= HALF_U128.

Lemma fees_small_ok w : fees_small w -> fees_ok w.
Proof.
  intros (A & B & C). split; [exact A|]. split; [intros f Hf; apply B; exact Hf|]. split; [lia|].
  intros f Hf. specialize (B f Hf). unfold HALF_U128, U128_MAX in *. lia.
Qed.

Definition pm_msg_small (m : pm_msg) : Prop :=
  match m with PmUpdateConfig _ _ (Some c) _ => 0 <= amount_of c <= HALF_U128 | _ => True end.

Lemma res_status_change s p st d :
  sfind p_id (p_id p) (pm_pools s) = Some p ->
  ssum (res_pool d) (sinsert p_id (pool_with_status p st) (pm_pools s)) = res s d.
Proof.
  intros Hp. rewrite ssum_sinsert. cbn [p_id pool_with_status]. rewrite Hp. unfold res, res_pool. cbn [p_assets pool_with_status]. lia.
Qed.

Lemma pm_execute_accounted w sender funds m s' msgs :
  fees_small w -> coins_ok funds = true -> pm_msg_small m ->
  pm_execute w sender funds m = Ok (s', msgs) ->
  pm_accounted w s' funds msgs /\
  (0 <= amount_of (pm_creation_fee (pm_cfg s')) <= HALF_U128).
Proof.
  intros Hfs Hfunds Hsmall H.
  assert (Hfn : forall c, In c funds -> 0 <= amount_of c).
  { unfold coins_ok in Hfunds. intros c Hc. rewrite forallb_forall in Hfunds. specialize (Hfunds c Hc).
    unfold coin_ok, u128_ok, in_range in Hfunds. lia. }
  pose proof Hfs as (_ & _ & Hfee).
  destruct m as [denoms decimals fees pt oid | ls ss r pid u l | ask bp ms r pid | pid | a | ops mr r ms | fc fm fee t];
    cbn [pm_execute] in H.
  - split; [eapply accounted_create_pool; eauto using fees_small_ok|].
    apply create_pool_shape in H. destruct H as (p & _ & _ & Hc & _). rewrite Hc. exact Hfee.
  - split; [eapply accounted_provide; eauto|].
    apply provide_shape in H. destruct H as (p & _ & _ & [[b ->] | [a ->]]); exact Hfee.
  - split; [eapply accounted_swap; eauto|].
    apply swap_spec in H. destruct H as (p & offer & sc & _ & _ & _ & _ & Hps & _).
    apply perform_swap_spec in Hps. destruct Hps as (? & ? & ? & ? & ? & ? & ? & _ & _ & _ & _ & _ & _ & ->). exact Hfee.
  - split; [eapply accounted_withdraw; eauto|].
    apply withdraw_shape in H. destruct H as (p & a & _ & _ & ->). exact Hfee.
  - apply bind_ok in H. destruct H as [[] [Hn H]]. unfold nonpayable in Hn. destruct funds; [|discriminate].
    apply bind_ok in H. destruct H as [o [_ H]]. inversion H; subst s' msgs.
    split; [intros d; unfold res; cbn; lia | exact Hfee].
  - split; [eapply accounted_route; eauto|].
    apply exec_ops_spec in H. destruct H as (lst & f & amount & out & fee_msgs & _ & _ & _ & _ & Hr & _).
    clear - Hr Hfee. revert Hr Hfee. generalize (w_pm w) as s. generalize (so_in f, amount) as prev. generalize (@nil submsg) as fm0.
    induction ops as [|o r0 IH]; intros fm0 prev s Hr Hfee.
    + cbn in Hr. inversion Hr; subst. exact Hfee.
    + apply route_loop_cons in Hr. destruct Hr as (s1 & sc & Hps & Hr). eapply IH; [exact Hr|].
      apply perform_swap_spec in Hps. destruct Hps as (? & ? & ? & ? & ? & ? & ? & _ & _ & _ & _ & _ & _ & ->). exact Hfee.
  - apply bind_ok in H. destruct H as [[] [Hn H]]. unfold nonpayable in Hn. destruct funds; [|discriminate].
    pose proof H as H0. apply update_config_shape in H. destruct H as (_ & -> & _ & _ & _ & Ht).
    split.
    + intros d. cbn [outP camt]. unfold res.
      destruct t as [t|]; [destruct Ht as (p & Hp & ->); rewrite (res_status_change _ _ _ d (pool_find_id _ _ _ Hp)) | rewrite Ht]; unfold res; lia.
    + unfold pm_update_config in H0.
      apply bind_ok in H0. destruct H0 as [[] [_ H0]].
      apply bind_ok in H0. destruct H0 as [fc' [_ H0]].
      apply bind_ok in H0. destruct H0 as [fm' [_ H0]].
      apply bind_ok in H0. destruct H0 as [pools' [_ H0]]. inversion H0; subst s'. cbn [pm_cfg pm_creation_fee].
      destruct fee as [c|]; [exact Hsmall | exact Hfee].
Qed.
