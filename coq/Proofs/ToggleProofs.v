(* ToggleProofs.v — per-pool feature switches (C17). *)
From MD.Model Require Import Base Ownable Epoch PoolMath Types PoolManager FarmManager Chain.
From MD.Proofs Require Import Tactics MapLemmas PoolMathProofs SwapProofs ChainProofs PmProofs.

(* ---------- a disabled operation is rejected by the handler ---------- *)
Lemma swap_disabled w sender funds ask bp ms r pid p :
  pool_find (w_pm w) pid = Ok p -> swaps_enabled (p_status p) = false ->
  exists e, swap w sender funds ask bp ms r pid = Err e.
Proof. intros Hp Hs. unfold swap. rewrite Hp. cbn [bind]. rewrite Hs. cbn. eauto. Qed.

Lemma route_loop_disabled ops : forall s prev ms fm o p,
  In o ops -> pool_find s (so_pool o) = Ok p -> swaps_enabled (p_status p) = false ->
  exists e, route_loop s prev ops ms fm = Err e.
Proof.
  induction ops as [|o0 r IH]; intros s prev ms fm o p Hin Hp Hs; [destruct Hin|].
  cbn [route_loop].
  destruct (pool_find s (so_pool o0)) as [p0|e0] eqn:Hp0; cbn [bind]; [|eauto].
  destruct (swaps_enabled (p_status p0)) eqn:Hs0; cbn [ensure bind]; [|eauto].
  destruct (perform_swap s prev (so_out o0) (so_pool o0) None ms) as [[s1 sc]|e1] eqn:Hps; cbn [bind]; [|eauto].
  destruct Hin as [->|Hin]; [rewrite Hp in Hp0; inversion Hp0; subst; congruence|].
  (* the status of every pool is unchanged by the earlier hops *)
  apply perform_swap_spec in Hps. destruct Hps as (q & oi & ai & oc & ac & od & ad & Hq & _ & _ & _ & _ & _ & ->).
  set (q2 := pool_with_assets q _).
  assert (Hex : exists p', pool_find (pm_save_pool s q2) (so_pool o) = Ok p' /\ swaps_enabled (p_status p') = false).
  { apply pool_find_ok in Hp. apply pool_find_ok in Hq. pose proof (sfind_key _ _ _ _ Hq) as Hid.
    destruct (String.eqb (so_pool o) (so_pool o0)) eqn:E.
    - apply String.eqb_eq in E. rewrite E in Hp. rewrite Hp in Hq. inversion Hq; subst q.
      exists q2. split; [|exact Hs]. apply pool_find_ok. unfold pm_save_pool, pm_with_pools; cbn [pm_pools].
      rewrite E, <- Hid. apply (sfind_sinsert_same p_id q2).
    - apply String.eqb_neq in E. exists p. split; [|exact Hs]. apply pool_find_ok.
      unfold pm_save_pool, pm_with_pools; cbn [pm_pools].
      rewrite (sfind_sinsert_other p_id (so_pool o) q2) by (unfold q2; cbn; congruence). exact Hp. }
  destruct Hex as (p' & Hp' & Hs'). eapply IH; eauto.
Qed.

Lemma route_disabled w sender funds ops mr r ms o p :
  In o ops -> pool_find (w_pm w) (so_pool o) = Ok p -> swaps_enabled (p_status p) = false ->
  exists e, execute_swap_operations w sender funds ops mr r ms = Err e.
Proof.
  intros Hin Hp Hs. unfold execute_swap_operations.
  destruct (of_option (last (map Some ops) None) _) as [lst|]; cbn [bind]; [|eauto].
  destruct (of_option (hd_error ops) _) as [f|]; cbn [bind]; [|eauto].
  destruct (must_pay funds (so_in f)) as [amount|]; cbn [bind]; [|eauto].
  destruct (assert_operations (so_in f) ops); cbn [bind]; [|eauto].
  destruct (route_loop_disabled ops (w_pm w) (so_in f, amount) ms [] o p Hin Hp Hs) as [e He].
  rewrite He. cbn. eauto.
Qed.

Lemma provide_disabled w sender funds ls ss r pid u l p :
  pool_find (w_pm w) pid = Ok p -> deposits_enabled (p_status p) = false ->
  exists e, provide_liquidity w sender funds ls ss r pid u l = Err e.
Proof. intros Hp Hs. unfold provide_liquidity. rewrite Hp. cbn [bind]. rewrite Hs. cbn. eauto. Qed.

Lemma withdraw_disabled w sender funds pid p :
  pool_find (w_pm w) pid = Ok p -> withdrawals_enabled (p_status p) = false ->
  exists e, withdraw_liquidity w sender funds pid = Err e.
Proof. intros Hp Hs. unfold withdraw_liquidity. rewrite Hp. cbn [bind]. rewrite Hs. cbn. eauto. Qed.

(* ---------- chain level: a transaction whose top-level handler fails is rejected ---------- *)
Lemma run_tx_handler_err w sender target m funds :
  (forall w1, same_contracts w w1 -> exists e, handle w1 target sender funds m = Err e) ->
  exists e, run_tx w sender target m funds = Err e.
Proof.
  intros Hh. unfold run_tx, FUEL. rewrite process_cons. unfold exec_sub. cbn [plain sm_msg sm_reply sm_id wants_success wants_error].
  destruct (match funds with [] => (Ok w, w_fault w) | _ => bank_call w (fun b => bank_send b sender PM funds) end) eqn:E0.
  destruct (match funds with [] => (Ok w, w_fault w) | _ => bank_call w (fun b => bank_send b sender target funds) end)
    as [[w1|e1] fl] eqn:Eb; cbn [fst]; [|eauto].
  assert (Hs : same_contracts w w1).
  { destruct funds; [inversion Eb; subst; apply same_contracts_refl | eapply bank_call_same; eauto]. }
  destruct (Hh w1 Hs) as [e He]. rewrite He. cbn [fst]. eauto.
Qed.

(* single-asset deposits swap internally: with swaps disabled the whole transaction is rejected *)
Lemma single_sided_swap_disabled_sub f w1 recv pid ask ss half p :
  pool_find (w_pm w1) pid = Ok p -> swaps_enabled (p_status p) = false ->
  exists e fl, exec_sub f w1 PM {| sm_msg := MWasm PM (WPm (PmSwap ask None ss recv pid)) [half]; sm_id := 1; sm_reply := RSuccess |} = (Err e, fl).
Proof.
  intros Hp Hs. unfold exec_sub. cbn [sm_msg].
  destruct (bank_call w1 (fun b => bank_send b PM PM [half])) as [[w2|e2] fl] eqn:Eb; [|eauto].
  assert (Hsame : same_contracts w1 w2) by (eapply bank_call_same; eauto).
  destruct Hsame as (_ & _ & _ & _ & _ & Hpm & _).
  destruct (handle_err_of_typed w2 PM PM [half] (WPm (PmSwap ask None ss recv pid))) as [e He]; [|rewrite He; eauto].
  unfold handle_typed. cbn [String.eqb EM FC PM FM Ascii.eqb Bool.eqb]. cbn [pm_execute].
  destruct (swap_disabled w2 PM [half] ask None ss recv pid p) as [e He]; [rewrite Hpm; exact Hp | exact Hs|].
  rewrite He. cbn [bind]. eauto.
Qed.

Lemma handle_pm w sender funds m : handle_typed w PM sender funds (WPm m) =
  let* (s, subs) := pm_execute w sender funds m in Ok (set_pm w s, subs).
Proof. reflexivity. Qed.

Lemma handle_pm_ok w sender funds m r : handle w PM sender funds (WPm m) = Ok r ->
  (let* (s, subs) := pm_execute w sender funds m in Ok (set_pm w s, subs)) = Ok r.
Proof. intros H. apply handle_ok_typed in H. destruct H as [H _]. rewrite handle_pm in H. exact H. Qed.

Lemma tx_rejected_step w sender target m funds :
  (exists e, run_tx w sender target m funds = Err e) -> snd (step w (Tx sender target m funds)) = false.
Proof. intros [e He]. cbn [step]. rewrite He. reflexivity. Qed.

(* direct swap *)
Lemma tx_swap_disabled w sender funds ask bp ms r pid p :
  pool_find (w_pm w) pid = Ok p -> swaps_enabled (p_status p) = false ->
  snd (step w (Tx sender PM (WPm (PmSwap ask bp ms r pid)) funds)) = false.
Proof.
  intros Hp Hs. apply tx_rejected_step. apply run_tx_handler_err. intros w1 (_ & _ & _ & _ & _ & Hpm & _).
  apply handle_err_of_typed. rewrite handle_pm. cbn [pm_execute].
  destruct (swap_disabled w1 sender funds ask bp ms r pid p) as [e He]; [rewrite Hpm; exact Hp | exact Hs|].
  rewrite He. cbn. eauto.
Qed.

(* any routed swap passing through the pool *)
Lemma tx_route_disabled w sender funds ops mr r ms o p :
  In o ops -> pool_find (w_pm w) (so_pool o) = Ok p -> swaps_enabled (p_status p) = false ->
  snd (step w (Tx sender PM (WPm (PmRoute ops mr r ms)) funds)) = false.
Proof.
  intros Hin Hp Hs. apply tx_rejected_step. apply run_tx_handler_err. intros w1 (_ & _ & _ & _ & _ & Hpm & _).
  apply handle_err_of_typed. rewrite handle_pm. cbn [pm_execute].
  destruct (route_disabled w1 sender funds ops mr r ms o p Hin) as [e He]; [rewrite Hpm; exact Hp | exact Hs|].
  rewrite He. cbn. eauto.
Qed.

(* deposits of every shape (multi-asset, single-asset, locked) *)
Lemma tx_provide_disabled w sender funds ls ss r pid u l p :
  pool_find (w_pm w) pid = Ok p -> deposits_enabled (p_status p) = false ->
  snd (step w (Tx sender PM (WPm (PmProvide ls ss r pid u l)) funds)) = false.
Proof.
  intros Hp Hs. apply tx_rejected_step. apply run_tx_handler_err. intros w1 (_ & _ & _ & _ & _ & Hpm & _).
  apply handle_err_of_typed. rewrite handle_pm. cbn [pm_execute].
  destruct (provide_disabled w1 sender funds ls ss r pid u l p) as [e He]; [rewrite Hpm; exact Hp | exact Hs|].
  rewrite He. cbn. eauto.
Qed.

Lemma tx_withdraw_disabled w sender funds pid p :
  pool_find (w_pm w) pid = Ok p -> withdrawals_enabled (p_status p) = false ->
  snd (step w (Tx sender PM (WPm (PmWithdraw pid)) funds)) = false.
Proof.
  intros Hp Hs. apply tx_rejected_step. apply run_tx_handler_err. intros w1 (_ & _ & _ & _ & _ & Hpm & _).
  apply handle_err_of_typed. rewrite handle_pm. cbn [pm_execute].
  destruct (withdraw_disabled w1 sender funds pid p) as [e He]; [rewrite Hpm; exact Hp | exact Hs|].
  rewrite He. cbn. eauto.
Qed.

(* single-asset deposit (which swaps internally) while swaps are disabled *)
Lemma provide_single_shape w sender funds ls ss r pid u l s' msgs deposit :
  aggregate_coins funds = Ok [deposit] ->
  provide_liquidity w sender funds ls ss r pid u l = Ok (s', msgs) ->
  exists b ask half, s' = pm_with_buffer (w_pm w) (Some b) /\
    msgs = [{| sm_msg := MWasm PM (WPm (PmSwap ask None ss None pid)) [half]; sm_id := 1; sm_reply := RSuccess |}].
Proof.
  intros Ha. unfold provide_liquidity. intros H.
  apply bind_ok in H. destruct H as [p [Hp H]].
  apply bind_ok in H. destruct H as [[] [He H]].
  rewrite Ha in H. cbn [bind] in H.
  apply bind_ok in H. destruct H as [[] [_ H]].
  apply bind_ok in H. destruct H as [[] [_ H]].
  inv_all; do 3 eexists; split; reflexivity.
Qed.

Lemma tx_single_sided_swap_disabled w sender funds ls ss r pid u l p deposit :
  aggregate_coins funds = Ok [deposit] ->
  pool_find (w_pm w) pid = Ok p -> swaps_enabled (p_status p) = false ->
  snd (step w (Tx sender PM (WPm (PmProvide ls ss r pid u l)) funds)) = false.
Proof.
  intros Ha Hp Hs. apply tx_rejected_step.
  unfold run_tx, FUEL. rewrite process_cons. unfold exec_sub at 1.
  cbn [plain sm_msg sm_reply sm_id wants_success wants_error].
  destruct (match funds with [] => (Ok w, w_fault w) | _ => bank_call w (fun b => bank_send b sender PM funds) end)
    as [[w1|e1] fl] eqn:Eb; cbn [fst]; [|eauto].
  assert (Hsame : same_contracts w w1).
  { destruct funds; [inversion Eb; subst; apply same_contracts_refl | eapply bank_call_same; eauto]. }
  destruct Hsame as (_ & _ & _ & _ & _ & Hpm & _).
  destruct (handle w1 PM sender funds (WPm (PmProvide ls ss r pid u l))) as [[w2 subs0]|e0] eqn:Eh; cbn [fst]; [|eauto].
  apply handle_pm_ok in Eh. cbn [pm_execute] in Eh.
  destruct (provide_liquidity w1 sender funds ls ss r pid u l) as [[s1 subs]|e] eqn:Ep; cbn [bind] in Eh; [|discriminate].
  inversion Eh; subst w2 subs0; clear Eh.
  destruct (provide_single_shape _ _ _ _ _ _ _ _ _ _ _ _ Ha Ep) as (b & ask & half & -> & ->).
  rewrite process_cons.
  destruct (single_sided_swap_disabled_sub 6 (set_pm w1 (pm_with_buffer (w_pm w1) (Some b))) None pid ask ss half p) as (e & fl2 & He).
  { cbn [w_pm set_pm]. unfold pool_find, pm_with_buffer; cbn [pm_pools]. rewrite Hpm. exact Hp. }
  { exact Hs. }
  rewrite He. cbn [sm_reply wants_error fst]. eauto.
Qed.

(* ---------- the switches do nothing else: swap computation ignores the status; new pools start enabled ---------- *)
Lemma compute_swap_status_irrelevant p st offer ask :
  compute_swap (pool_with_status p st) offer ask = compute_swap p offer ask.
Proof. reflexivity. Qed.

(* toggling only ever changes the status of the named pool *)
Lemma toggle_only_changes_named_status w sender fc fm fee t s' msgs :
  pm_update_config w sender fc fm fee (Some t) = Ok (s', msgs) ->
  forall id q, sfind p_id id (pm_pools (w_pm w)) = Some q ->
    exists q', sfind p_id id (pm_pools s') = Some q' /\ p_assets q' = p_assets q /\ same_static q q' /\
      (id <> ft_pool t -> q' = q) /\
      (id = ft_pool t ->
         swaps_enabled (p_status q') = match ft_swaps t with Some b => b | None => swaps_enabled (p_status q) end /\
         deposits_enabled (p_status q') = match ft_deposits t with Some b => b | None => deposits_enabled (p_status q) end /\
         withdrawals_enabled (p_status q') = match ft_withdrawals t with Some b => b | None => withdrawals_enabled (p_status q) end).
Proof.
  intros H id q Hq. apply update_config_shape in H. destruct H as (_ & _ & _ & _ & _ & (p & Hp & Hpools)).
  rewrite Hpools. set (p2 := pool_with_status p _).
  apply pool_find_ok in Hp. pose proof (sfind_key _ _ _ _ Hp) as Hid.
  destruct (String.eqb id (ft_pool t)) eqn:E.
  - apply String.eqb_eq in E. subst id. rewrite Hp in Hq. inversion Hq; subst q.
    exists p2. rewrite <- Hid. change (p_id p) with (p_id p2). rewrite (sfind_sinsert_same p_id p2).
    refine (conj eq_refl (conj eq_refl (conj _ (conj _ _)))).
    + repeat split.
    + intros C. exfalso. apply C. reflexivity.
    + intros _. repeat split.
  - apply String.eqb_neq in E. exists q.
    rewrite (sfind_sinsert_other p_id id p2) by (unfold p2; cbn; congruence).
    refine (conj Hq (conj eq_refl (conj _ (conj _ _)))).
    + repeat split.
    + intros _. reflexivity.
    + intros C. exfalso. apply E. exact C.
Qed.
