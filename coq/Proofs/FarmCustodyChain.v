(* FarmCustodyChain.v — C05 over all histories: induction over the chain interpreter (arbitrary call trees,
   replies, tolerated failures, injected faults). *)
From MD.Model Require Import Base Ownable Epoch PoolMath Types PoolManager FarmManager Chain.
From MD.Proofs Require Import Tactics Arith PoolMathProofs MapLemmas BankProofs ChainProofs AtomicProofs WeightProofs FarmProofs FarmChainProofs FarmCustody.

Definition slack (w : world) (d : string) : Z := bal (w_bank w) FM d - obl (w_fm w) d.
Definition custody (w : world) : Prop := fm_inv (w_fm w) /\ forall d, 0 <= slack w d.

(* what the farm manager's own message lists look like *)
Definition fm_list_ok (subs : list submsg) : Prop := Forall is_send subs /\ Forall sub_fm_ok subs.

Lemma sent_amt_nonneg_of_ok m d : sub_fm_ok m -> sm_reply m <> RNever -> 0 <= sent_amt d m.
Proof.
  intros [H|(_ & _ & to & dn & amt & Hm & Ha)] Hn; [congruence|].
  unfold sent_amt. rewrite Hm. cbn. destruct (String.eqb dn d); cbn; lia.
Qed.

Lemma FM_neq : String.eqb FM EM = false /\ String.eqb FM FC = false /\ String.eqb FM PM = false.
Proof. repeat split; reflexivity. Qed.

(* a bank call by a contract other than the farm manager never lowers the farm manager's balances *)
Lemma leaf_other_contract w c m w1 fl d :
  String.eqb c FM = false -> is_leaf m = true -> exec_leaf w c m = (Ok w1, fl) ->
  w_fm w1 = w_fm w /\ bal (w_bank w) FM d <= bal (w_bank w1) FM d.
Proof.
  intros Hc Hl H. pose proof (exec_leaf_same _ _ _ _ _ Hl H) as (_ & _ & _ & _ & _ & _ & Hfm).
  split; [exact Hfm|].
  assert (Hfc : String.eqb FM c = false) by (rewrite String.eqb_sym; exact Hc).
  destruct m as [to amt|amt|sd|cn to|cn|t wm fs]; cbn [exec_leaf] in H; try discriminate;
    unfold bank_call, fault_tick in H; destruct (w_fault w) as [k|];
    try (destruct (k =? 0); [discriminate|]); cbn [w_bank set_fault] in H.
  all: match type of H with
       | context [bank_send ?b ?f ?t ?cs] => destruct (bank_send b f t cs) as [b'|e] eqn:Eb; [|discriminate];
           inversion H; subst; cbn [w_bank set_bank set_fault]; apply bank_send_spec in Eb; destruct Eb as [Hnn Hb];
           rewrite Hb, Hfc; pose proof (camt_nonneg _ d Hnn); unfold ind; destruct (String.eqb FM t); lia
       | context [bank_burn ?b ?f ?cs] => destruct (bank_burn b f cs) as [b'|e] eqn:Eb; [|discriminate];
           inversion H; subst; cbn [w_bank set_bank set_fault]; apply bank_burn_spec in Eb; destruct Eb as [Hnn Hb];
           rewrite Hb, Hfc; unfold ind; lia
       | context [bank_mint ?b ?t ?cs] => destruct (bank_mint b t cs) as [b'|e] eqn:Eb; [|discriminate];
           inversion H; subst; cbn [w_bank set_bank set_fault]; apply bank_mint_spec in Eb; destruct Eb as [Hnn Hb];
           rewrite Hb; pose proof (camt_nonneg _ d Hnn); unfold ind; destruct (String.eqb FM t); lia
       end.
Qed.

(* a send by the farm manager lowers its balance by exactly the amount sent (or not at all when it pays itself) *)
Lemma leaf_fm_send w to amt w1 fl d :
  exec_leaf w FM (MBankSend to amt) = (Ok w1, fl) ->
  w_fm w1 = w_fm w /\ bal (w_bank w) FM d - camt amt d <= bal (w_bank w1) FM d.
Proof.
  intros H. pose proof (exec_leaf_same w FM (MBankSend to amt) w1 fl eq_refl H) as (_ & _ & _ & _ & _ & _ & Hfm). split; [exact Hfm|].
  cbn [exec_leaf] in H. unfold bank_call, fault_tick in H. destruct (w_fault w) as [k|];
    try (destruct (k =? 0); [discriminate|]); cbn [w_bank set_fault] in H;
    (destruct (bank_send (w_bank w) FM to amt) as [b'|e] eqn:Eb; [|discriminate]);
    inversion H; subst; cbn [w_bank set_bank set_fault]; apply bank_send_spec in Eb; destruct Eb as [Hnn Hb];
    rewrite Hb, String.eqb_refl; pose proof (camt_nonneg _ d Hnn); unfold ind; destruct (String.eqb FM to); lia.
Qed.

(* the funds transfer that precedes a contract call *)
Lemma funds_transfer_spec w c target funds wa fl d :
  (match funds with [] => (Ok w, w_fault w) | _ => bank_call w (fun b => bank_send b c target funds) end) = (Ok wa, fl) ->
  w_fm wa = w_fm w /\ w_pm wa = w_pm w /\
  bal (w_bank wa) FM d = bal (w_bank w) FM d - ind (String.eqb FM c) (camt funds d) + ind (String.eqb FM target) (camt funds d) /\
  0 <= camt funds d.
Proof.
  destruct funds as [|f0 fr].
  - intros H. inversion H; subst. cbn [camt]. unfold ind. repeat split; auto; try lia. destruct (String.eqb FM c), (String.eqb FM target); lia.
  - intros H. pose proof (bank_call_same _ _ _ _ H) as (_ & _ & _ & _ & _ & Hpm & Hfm).
    unfold bank_call, fault_tick in H. destruct (w_fault w) as [k|];
      try (destruct (k =? 0); [discriminate|]); cbn [w_bank set_fault] in H;
      (destruct (bank_send (w_bank w) c target (f0 :: fr)) as [b'|e] eqn:Eb; [|discriminate]);
      inversion H; subst; cbn [w_bank set_bank set_fault w_fm w_pm]; apply bank_send_spec in Eb; destruct Eb as [Hnn Hb];
      rewrite Hb; pose proof (camt_nonneg _ d Hnn); repeat split; auto.
Qed.

(* a handler of the farm manager: typed, accounted *)
Lemma handle_fm_accounted w sender funds m w2 subs :
  fm_inv (w_fm w) -> handle w FM sender funds m = Ok (w2, subs) ->
  exists fm, m = WFm fm /\ w_bank w2 = w_bank w /\ accounted (w_fm w) (w_fm w2) funds subs /\ fm_inv (w_fm w2) /\ Forall sub_fm_ok subs.
Proof.
  intros Hinv H. apply handle_ok_typed in H. destruct H as (H & Hfunds & Hmsg).
  unfold handle_typed in H. cbn [String.eqb EM FC PM FM Ascii.eqb Bool.eqb] in H.
  destruct m as [| | |fm]; try discriminate. apply bind_ok in H. destruct H as [[s1 subs1] [Hx H]]. inversion H; subst w2 subs; clear H.
  exists fm. split; [reflexivity|]. split; [reflexivity|]. cbn [w_fm set_fm].
  destruct (fm_execute_accounted _ _ _ _ _ _ Hinv Hfunds Hmsg Hx) as [A B].
  split; [exact A|]. split; [exact B|]. eapply fm_execute_subs; eauto.
Qed.

Lemma handle_other_fm w target sender funds m w2 subs :
  String.eqb target FM = false -> handle w target sender funds m = Ok (w2, subs) -> w_fm w2 = w_fm w /\ w_bank w2 = w_bank w.
Proof.
  intros Ht H. apply handle_ok_typed in H. destruct H as (H & _ & _). unfold handle_typed in H.
  destruct (String.eqb target EM); [destruct m; inv_all; split; reflexivity|].
  destruct (String.eqb target FC); [destruct m; inv_all; split; reflexivity|].
  destruct (String.eqb target PM); [destruct m; inv_all; split; reflexivity|].
  rewrite Ht in H. discriminate.
Qed.

Lemma handle_reply_bank w c id w2 subs : handle_reply w c id = Ok (w2, subs) -> w_bank w2 = w_bank w /\ w_fm w2 = w_fm w.
Proof.
  intros H. split; [|eapply handle_reply_fm_state; eauto]. unfold handle_reply in H.
  destruct (String.eqb c PM); [inv_all; reflexivity|]. destruct (String.eqb c FM); [|discriminate]. inv_all; reflexivity.
Qed.

(* the induction *)
Lemma process_custody : forall f w c subs w' fl,
  process f w c subs = (Ok w', fl) ->
  fm_inv (w_fm w) ->
  (String.eqb c FM = true -> fm_list_ok subs) ->
  (forall d, (if String.eqb c FM then out_amt subs d else 0) <= slack w d) ->
  custody w'.
Proof.
  induction f as [|f IHf]; intros w c subs w' fl H Hinv Hlist Hpre; [cbn in H; discriminate|].
  revert w H Hinv Hlist Hpre. induction subs as [|s rest IHs]; intros w H Hinv Hlist Hpre.
  - rewrite process_nil in H. inversion H; subst. split; [exact Hinv|]. intros d. specialize (Hpre d).
    destruct (String.eqb c FM); cbn in Hpre; lia.
  - rewrite process_cons in H.
    destruct (String.eqb c FM) eqn:Ec.
    + (* the farm manager's own messages: plain sends and tolerated refunds *)
      destruct (Hlist eq_refl) as [Hsend Hok].
      inversion Hsend as [|x xs (to & amt & Hm) Hsend']; subst. inversion Hok as [|y ys Hoks Hok']; subst.
      apply String.eqb_eq in Ec. subst c.
      rewrite exec_sub_leaf in H by (rewrite Hm; reflexivity). rewrite Hm in H.
      assert (Hrest : fm_list_ok rest) by (split; assumption).
      destruct (exec_leaf w FM (MBankSend to amt)) as [[w1|e] fl1] eqn:El.
      * assert (Hws : wants_success (sm_reply s) = false) by (destruct Hoks as [->|(-> & _)]; reflexivity).
        rewrite Hws in H.
        apply (IHs w1 H).
        -- destruct (leaf_fm_send _ _ _ _ _ "" El) as [Hfm _]. rewrite Hfm. exact Hinv.
        -- intros _. exact Hrest.
        -- intros d. try rewrite String.eqb_refl. destruct (leaf_fm_send _ _ _ _ _ d El) as [Hfm Hb].
           specialize (Hpre d). change (out_amt (s :: rest) d <= slack w d) in Hpre. cbn [out_amt] in Hpre. unfold sent_amt in Hpre. rewrite Hm in Hpre.
           unfold slack in *. rewrite Hfm. lia.
      * destruct (wants_error (sm_reply s)) eqn:Hwe; [|discriminate]. cbv zeta in H.
        assert (Hrn : sm_reply s <> RNever) by (intros C; rewrite C in Hwe; discriminate).
        destruct (handle_reply (set_fault w fl1) FM (sm_id s)) as [[w2 rsubs]|er] eqn:Er; [|discriminate].
        pose proof (handle_reply_bank _ _ _ _ _ Er) as [Hb2 Hf2].
        assert (rsubs = []) as ->.
        { unfold handle_reply in Er. cbn [String.eqb EM FC PM FM Ascii.eqb Bool.eqb] in Er.
          apply bind_ok in Er. destruct Er as [[s1 subs1] [Hx Er]]. apply fm_reply_spec in Hx. destruct Hx as (_ & -> & _).
          inversion Er; reflexivity. }
        destruct f as [|f']; [cbn in H; discriminate|]. rewrite process_nil in H.
        apply (IHs w2 H).
        -- rewrite Hf2. exact Hinv.
        -- intros _. exact Hrest.
        -- intros d. try rewrite String.eqb_refl. specialize (Hpre d). change (out_amt (s :: rest) d <= slack w d) in Hpre. cbn [out_amt] in Hpre.
           pose proof (sent_amt_nonneg_of_ok s d Hoks Hrn). unfold slack in *. rewrite Hb2, Hf2. cbn [w_bank w_fm set_fault]. lia.
    + (* any other contract *)
      assert (Hpre0 : forall d, 0 <= slack w d) by (intros d; specialize (Hpre d); exact Hpre).
      assert (Hstep : forall w1 fl1, exec_sub f w c s = (Ok w1, fl1) -> custody w1).
      { intros w1 fl1 E. unfold exec_sub in E.
        destruct (sm_msg s) as [to a|a|sd|cn to|cn|target wm funds] eqn:Em.
        1-5: (match type of E with exec_leaf _ _ ?m = _ =>
                split; [destruct (leaf_other_contract w c m w1 fl1 "" Ec eq_refl E) as [Hfm _]; rewrite Hfm; exact Hinv |
                        intros d; destruct (leaf_other_contract w c m w1 fl1 d Ec eq_refl E) as [Hfm Hb];
                        specialize (Hpre0 d); unfold slack in *; rewrite Hfm; lia] end).
        destruct (match funds with [] => (Ok w, w_fault w) | _ => bank_call w (fun b => bank_send b c target funds) end)
          as [[wa|ea] fla] eqn:Eb; [|discriminate].
        assert (Hfc : String.eqb FM c = false) by (rewrite String.eqb_sym; exact Ec).
        destruct (handle wa target c funds wm) as [[w2 subs2]|eh] eqn:Eh; [|discriminate].
        destruct (String.eqb target FM) eqn:Et.
        - apply String.eqb_eq in Et. subst target.
          destruct (funds_transfer_spec _ _ _ _ _ _ "" Eb) as (Hfa & _ & _ & _).
          assert (Hinva : fm_inv (w_fm wa)) by (rewrite Hfa; exact Hinv).
          destruct (handle_fm_accounted _ _ _ _ _ _ Hinva Eh) as (fm & -> & Hb2 & [Hsends Hacc] & Hinv2 & Hoks).
          apply (IHf _ _ _ _ _ E Hinv2).
          + intros _. split; assumption.
          + intros d. try rewrite String.eqb_refl.
            destruct (funds_transfer_spec _ _ _ _ _ _ d Eb) as (_ & _ & Hbal & Hcn). rewrite Hfc, String.eqb_refl in Hbal.
            specialize (Hacc d). specialize (Hpre0 d). unfold slack in *. rewrite Hb2, Hbal. rewrite Hfa in Hacc. unfold ind in *. lia.
        - destruct (handle_other_fm _ _ _ _ _ _ _ Et Eh) as [Hf2 Hb2].
          destruct (funds_transfer_spec _ _ _ _ _ _ "" Eb) as (Hfa & _ & _ & _).
          apply (IHf _ _ _ _ _ E).
          + rewrite Hf2, Hfa. exact Hinv.
          + intros C. try rewrite Et in C. discriminate.
          + intros d. try rewrite Et.
            destruct (funds_transfer_spec _ _ _ _ _ _ d Eb) as (_ & _ & Hbal & Hcn). rewrite Hfc in Hbal.
            assert (Htf : String.eqb FM target = false) by (rewrite String.eqb_sym; exact Et). rewrite Htf in Hbal.
            specialize (Hpre0 d). unfold slack in *. rewrite Hb2, Hf2, Hbal, Hfa. unfold ind. lia. }
      assert (Hcont : forall w1, custody w1 -> process (S f) w1 c rest = (Ok w', fl) -> custody w').
      { intros w1 [Hi1 Hs1] Hp. apply (IHs w1 Hp Hi1).
        - intros C. try rewrite Ec in C. discriminate.
        - intros d. try rewrite Ec. apply Hs1. }
      assert (Hreply : forall wr, custody wr -> forall w2 rsubs, handle_reply wr c (sm_id s) = Ok (w2, rsubs) ->
                         forall w3 fl3, process f w2 c rsubs = (Ok w3, fl3) -> custody w3).
      { intros wr [Hir Hsr] w2 rsubs Er w3 fl3 Ep. pose proof (handle_reply_bank _ _ _ _ _ Er) as [Hb2 Hf2].
        apply (IHf _ _ _ _ _ Ep).
        - rewrite Hf2. exact Hir.
        - intros C. try rewrite Ec in C. discriminate.
        - intros d. try rewrite Ec. specialize (Hsr d). unfold slack in *. rewrite Hb2, Hf2. exact Hsr. }
      destruct (exec_sub f w c s) as [[w1|e] fl1] eqn:E.
      * pose proof (Hstep _ _ eq_refl) as Hc1.
        destruct (wants_success (sm_reply s)).
        -- destruct (handle_reply w1 c (sm_id s)) as [[w2 rsubs]|er] eqn:Er; [|discriminate].
           destruct (process f w2 c rsubs) as [[w3|e3] fl3] eqn:Ep; [|discriminate].
           apply (Hcont w3); [eapply Hreply; eauto | exact H].
        -- apply (Hcont w1 Hc1 H).
      * destruct (wants_error (sm_reply s)); [|discriminate]. cbv zeta in H.
        destruct (handle_reply (set_fault w fl1) c (sm_id s)) as [[w2 rsubs]|er] eqn:Er; [|discriminate].
        destruct (process f w2 c rsubs) as [[w3|e3] fl3] eqn:Ep; [|discriminate].
        apply (Hcont w3); [|exact H].
        eapply (Hreply (set_fault w fl1)); eauto. split; [exact Hinv | exact Hpre0].
Qed.

(* ---------- every operation of a history ---------- *)
Definition op_ok (o : op) : Prop :=
  match o with
  | Tx sender _ _ _ => sender <> FM          (* a contract cannot sign a transaction *)
  | BankSendOp from _ _ => from <> FM
  | _ => True
  end.

Lemma custody_same_fm_bank w w' : w_fm w' = w_fm w -> w_bank w' = w_bank w -> custody w -> custody w'.
Proof. intros Hf Hb [Hi Hs]. unfold custody, slack in *. rewrite Hf, Hb. split; assumption. Qed.

Lemma step_custody w o : op_ok o -> custody w -> custody (fst (step w o)).
Proof.
  intros Hok Hc. destruct o as [b|sender target m funds|from to amount|k]; cbn [step].
  - cbn [fst]. eapply custody_same_fm_bank; [| |exact Hc]; reflexivity.
  - destruct (run_tx w sender target m funds) as [w'|e] eqn:E; cbn [fst].
    + eapply (custody_same_fm_bank w'); [reflexivity | reflexivity|].
      unfold run_tx in E. destruct (process FUEL w sender [plain (MWasm target m funds)]) as [[w1|e1] fl] eqn:Ep; cbn [fst] in E; [|discriminate].
      inversion E; subst w1. destruct Hc as [Hi Hs].
      assert (Hsf : String.eqb sender FM = false) by (apply String.eqb_neq; exact Hok).
      eapply process_custody; [exact Ep | exact Hi | |].
      * intros C. rewrite Hsf in C. discriminate.
      * intros d. rewrite Hsf. apply Hs.
    + eapply custody_same_fm_bank; [| |exact Hc]; reflexivity.
  - destruct (bank_send (w_bank w) from to amount) as [b'|e] eqn:Eb; cbn [fst]; [|exact Hc].
    destruct Hc as [Hi Hs]. split; [exact Hi|]. intros d. specialize (Hs d). unfold slack in *. cbn [w_bank w_fm set_bank].
    apply bank_send_spec in Eb. destruct Eb as [Hnn Hb]. rewrite Hb.
    assert (Hf : String.eqb FM from = false) by (apply String.eqb_neq; cbn in Hok; congruence). rewrite Hf.
    pose proof (camt_nonneg _ d Hnn). unfold ind. destruct (String.eqb FM to); lia.
  - cbn [fst]. eapply custody_same_fm_bank; [| |exact Hc]; reflexivity.
Qed.

(* C05: after ANY history of operations by any users (rejected operations, injected faults, tolerated refund
   failures included) the farm manager's balance covers, per denom, every recorded position plus the unclaimed
   budget of every live farm *)
Theorem run_custody ops : forall w, Forall op_ok ops -> custody w -> custody (run w ops).
Proof.
  induction ops as [|o r IH]; intros w Hok Hc; cbn [run fold_left]; [exact Hc|].
  inversion Hok as [|x xs Ho Hr]; subst. apply IH; [exact Hr | apply step_custody; assumption].
Qed.

(* genesis: nothing recorded yet *)
Lemma genesis_custody g w :
  genesis_world g = Ok w -> 0 <= amount_of (fm_create_fee (g_fm g)) -> custody w.
Proof.
  unfold genesis_world. intros H Hfee.
  apply bind_ok in H. destruct H as [b [Hb H]].
  apply bind_ok in H. destruct H as [em [_ H]].
  apply bind_ok in H. destruct H as [fc [_ H]].
  apply bind_ok in H. destruct H as [fm [Hfm H]].
  apply bind_ok in H. destruct H as [pm [_ H]]. inversion H; subst w; clear H.
  unfold fm_instantiate in Hfm. inv_all.
  split.
  - split; [|cbn; exact Hfee]. split; [split; [cbn; lia | intros k Hk; reflexivity]|]. cbn. repeat split; try tauto. constructor.
  - intros d. unfold slack, obl. cbn [w_fm w_bank set_pm set_fm set_fc set_em fm_positions fm_farms ssum].
    (* every initial balance is non-negative *)
    assert (G : forall bs b0 b1, foldM (fun b ac => match snd ac with [] => Ok b | _ => bank_mint b (fst ac) (snd ac) end) bs b0 = Ok b1 ->
                 0 <= bal b0 FM d -> 0 <= bal b1 FM d).
    { induction bs as [|ac rest IH]; intros b0 b1 Hf H0; cbn [foldM] in Hf; [inversion Hf; subst; exact H0|].
      apply bind_ok in Hf. destruct Hf as [b2 [H2 Hf]]. apply (IH _ _ Hf).
      destruct (snd ac) eqn:Es; [inversion H2; subst; exact H0|].
      apply bank_mint_spec in H2. destruct H2 as [Hnn Hbal]. rewrite Hbal. pose proof (camt_nonneg _ d Hnn). unfold ind.
      destruct (String.eqb FM (fst ac)); lia. }
    unfold init_bank in Hb. specialize (G _ _ _ Hb). cbn in G. lia.
Qed.

(* C06 over all histories: no farm's recorded payouts ever exceed what it was funded with *)
Theorem reachable_claimed_bounded g w0 ops f :
  genesis_world g = Ok w0 -> 0 <= amount_of (fm_create_fee (g_fm g)) -> Forall op_ok ops ->
  In f (fm_farms (w_fm (run w0 ops))) -> 0 <= f_claimed f <= amount_of (f_asset f).
Proof.
  intros Hg Hfee Hops Hin.
  pose proof (run_custody ops w0 Hops (genesis_custody _ _ Hg Hfee)) as [[(_ & _ & Hc & _) _] _].
  apply Hc. exact Hin.
Qed.

(* ... and every recorded position and farm remains backed while they do (C05), so a payout never draws on another
   farm's or a position's funds: for every denom, balance >= positions + unclaimed budgets *)
