(* OwnersOnly.v — C15 over histories: while a contract's ownership is settled (an owner, no transfer pending), no
   history of operations that its owner does not sign changes that contract's ownership record or configuration. *)
From MD.Model Require Import Base Ownable Epoch PoolMath Types PoolManager FarmManager Chain.
From MD.Proofs Require Import Tactics MapLemmas PoolMathProofs ChainProofs PmProofs SwapProofs WeightProofs FarmProofs FarmChainProofs AuthProofs PositionsSafe.

Definition settled (o : string) (own : ownership) : Prop := owner own = Some o /\ pending_owner own = None.

Lemma update_ownership_needs_owner_or_pending av b sender a own own' o :
  settled o own -> sender <> o -> update_ownership av b sender a own = Ok own' -> False.
Proof.
  intros [Ho Hp] Hs H. apply update_ownership_spec in H. destruct a as [n e| |].
  - destruct H as (H & _). congruence.
  - destruct H as (H & _). congruence.
  - destruct H as (H & _). congruence.
Qed.

(* ---------- farm manager: ownership record and configuration ---------- *)
Lemma fm_execute_own_cfg w sender funds m s' msgs o :
  fm_execute w sender funds m = Ok (s', msgs) ->
  settled o (fm_own (w_fm w)) -> sender <> o ->
  fm_own s' = fm_own (w_fm w) /\ fm_cfg s' = fm_cfg (w_fm w).
Proof.
  intros H Hset Hs.
  destruct m as [p|p|fid|a|u|oid dur r|pid|pid lp|pid e|u]; cbn [fm_execute] in H.
  - unfold create_farm in H.
    apply bind_ok in H. destruct H as [[] [_ H]].
    apply bind_ok in H. destruct H as [ep [_ H]].
    apply bind_ok in H. destruct H as [[expired live] [_ H]].
    pose proof (close_farms_tables expired (w_fm w) []) as Hcf. cbv zeta in Hcf. fold (close_farms (w_fm w) expired) in Hcf.
    destruct Hcf as (_ & A2 & A3 & _).
    destruct (close_farms (w_fm w) expired) as [s1 submsgs]. cbn [fst] in A2, A3.
    inv_all; split; cbn [fm_set_farms fm_set_farm_counter fm_with fm_own fm_cfg]; rewrite ?A2, ?A3; auto.
  - unfold expand_farm in H. inv_all. split; reflexivity.
  - unfold close_farm in H.
    apply bind_ok in H. destruct H as [[] [_ H]].
    apply bind_ok in H. destruct H as [f [_ H]].
    apply bind_ok in H. destruct H as [[] [_ H]]. inversion H; subst. cbn. split; reflexivity.
  - exfalso. apply bind_ok in H. destruct H as [[] [_ H]]. apply bind_ok in H. destruct H as [o' [Hu H]].
    eapply update_ownership_needs_owner_or_pending; eauto.
  - apply claim_tables in H. destruct H as (_ & _ & Hc & Ho & _). auto.
  - apply create_position_spec in H. destruct H as (_ & lp & recv & identifier & _ & _ & _ & _ & _ & _ & _ & _ & Hc & Ho). auto.
  - apply expand_position_spec in H. destruct H as (_ & q & lp & _ & _ & _ & _ & _ & _ & _ & Hc & Ho & _). auto.
  - apply close_position_spec in H. destruct H as (_ & _ & _ & q & _ & _ & _ & _ & Hc & Ho & _). auto.
  - apply withdraw_position_spec in H. destruct H as (_ & q & _ & _ & _ & _ & Hc & Ho & _). auto.
  - exfalso. apply bind_ok in H. destruct H as [[] [_ H]]. apply fm_update_config_auth in H. destruct H as (Ho & _).
    destruct Hset as [Hso _]. congruence.
Qed.

(* ---------- pool manager: ownership record and configuration (fee collector, farm manager, creation fee) ---------- *)
Lemma pm_execute_own_cfg w sender funds m s' msgs o :
  pm_execute w sender funds m = Ok (s', msgs) ->
  settled o (pm_own (w_pm w)) -> sender <> o ->
  pm_own s' = pm_own (w_pm w) /\ pm_cfg s' = pm_cfg (w_pm w).
Proof.
  intros H Hset Hs.
  destruct m as [denoms decimals fees pt oid | ls ss r pid u l | ask bp ms r pid | pid | a | ops mr r ms | fc fm fee t];
    cbn [pm_execute] in H.
  - apply create_pool_shape in H. destruct H as (p & _ & _ & Hc & Ho & _). auto.
  - apply provide_shape in H. destruct H as (p & _ & _ & [[b ->] | [a ->]]); split; reflexivity.
  - apply SwapProofs.swap_spec in H. destruct H as (p & offer & sc & _ & _ & _ & _ & Hps & _).
    apply SwapProofs.perform_swap_spec in Hps. destruct Hps as (? & ? & ? & ? & ? & ? & ? & _ & _ & _ & _ & _ & _ & ->). split; reflexivity.
  - apply withdraw_shape in H. destruct H as (p & a & _ & _ & ->). split; reflexivity.
  - exfalso. apply (pm_privileged_auth w sender funds (PmOwnership a)) in H. destruct H as (_ & Hu & _).
    eapply update_ownership_needs_owner_or_pending; eauto.
  - apply SwapProofs.exec_ops_spec in H. destruct H as (lst & f & amount & out & fee_msgs & _ & _ & _ & _ & Hr & _).
    clear - Hr. revert Hr. generalize (w_pm w) as s. generalize (so_in f, amount) as prev. generalize (@nil submsg) as fm0.
    induction ops as [|o0 r0 IH]; intros fm0 prev s Hr.
    + cbn in Hr. inversion Hr; subst. split; reflexivity.
    + apply SwapProofs.route_loop_cons in Hr. destruct Hr as (s1 & sc & Hps & Hr).
      destruct (IH _ _ _ Hr) as [E1 E2]. rewrite E1, E2.
      apply SwapProofs.perform_swap_spec in Hps. destruct Hps as (? & ? & ? & ? & ? & ? & ? & _ & _ & _ & _ & _ & _ & ->). split; reflexivity.
  - exfalso. apply (pm_privileged_auth w sender funds (PmUpdateConfig fc fm fee t)) in H. destruct H as (_ & Ho & _). destruct Hset as [Hso _]. congruence.
Qed.

(* ---------- all four contracts, one message ---------- *)
Definition own_cfg_kept (o : string) (a b : world) : Prop :=
  (settled o (em_own (w_em a)) -> w_em b = w_em a) /\
  (settled o (w_fc a) -> w_fc b = w_fc a) /\
  (settled o (pm_own (w_pm a)) -> pm_own (w_pm b) = pm_own (w_pm a) /\ pm_cfg (w_pm b) = pm_cfg (w_pm a)) /\
  (settled o (fm_own (w_fm a)) -> fm_own (w_fm b) = fm_own (w_fm a) /\ fm_cfg (w_fm b) = fm_cfg (w_fm a)).

Lemma own_cfg_kept_refl o w : own_cfg_kept o w w.
Proof. repeat split; reflexivity. Qed.

Lemma own_cfg_kept_trans o a b c : own_cfg_kept o a b -> own_cfg_kept o b c -> own_cfg_kept o a c.
Proof.
  intros (A1 & A2 & A3 & A4) (B1 & B2 & B3 & B4). repeat split.
  - intros H. rewrite <- (A1 H). apply B1. rewrite (A1 H). exact H.
  - intros H. rewrite <- (A2 H). apply B2. rewrite (A2 H). exact H.
  - destruct (A3 H) as [E _]. assert (H' : settled o (pm_own (w_pm b))) by (rewrite E; exact H).
    destruct (B3 H') as [E' _]. congruence.
  - destruct (A3 H) as [E F]. assert (H' : settled o (pm_own (w_pm b))) by (rewrite E; exact H).
    destruct (B3 H') as [_ F']. congruence.
  - destruct (A4 H) as [E _]. assert (H' : settled o (fm_own (w_fm b))) by (rewrite E; exact H).
    destruct (B4 H') as [E' _]. congruence.
  - destruct (A4 H) as [E F]. assert (H' : settled o (fm_own (w_fm b))) by (rewrite E; exact H).
    destruct (B4 H') as [_ F']. congruence.
Qed.

Lemma own_cfg_kept_same o a b : same_contracts a b -> own_cfg_kept o a b.
Proof.
  intros (_ & _ & _ & E1 & E2 & E3 & E4). unfold own_cfg_kept. rewrite E1, E2, E3, E4. repeat split; reflexivity.
Qed.

Ltac kept_triv := try (intros _; reflexivity); try (intros _; split; reflexivity).

Lemma handle_own_cfg_kept o w t s f m w2 subs :
  s <> o -> handle w t s f m = Ok (w2, subs) -> own_cfg_kept o w w2.
Proof.
  intros Hs H. apply handle_ok_typed in H. destruct H as [H _]. unfold handle_typed in H.
  destruct (String.eqb t EM).
  { destruct m as [em| | |]; try discriminate. apply bind_ok in H. destruct H as [s1 [Hx H]]. inversion H; subst; clear H.
    unfold own_cfg_kept; cbn [w_em w_fc w_pm w_fm set_em]. refine (conj _ (conj _ (conj _ _))); kept_triv.
    intros Hset. exfalso. apply em_execute_auth in Hx. destruct Hx as [_ Hx]. destruct em as [c|a].
    - destruct Hx as [Ho _]. destruct Hset as [Hso _]. congruence.
    - destruct Hx as [_ Hu]. eapply update_ownership_needs_owner_or_pending; eauto. }
  destruct (String.eqb t FC).
  { destruct m as [|a| |]; try discriminate. apply bind_ok in H. destruct H as [[] [_ H]].
    apply bind_ok in H. destruct H as [o' [Hu H]]. inversion H; subst; clear H.
    unfold own_cfg_kept; cbn [w_em w_fc w_pm w_fm set_fc]. refine (conj _ (conj _ (conj _ _))); kept_triv.
    intros Hset. exfalso. eapply update_ownership_needs_owner_or_pending; eauto. }
  destruct (String.eqb t PM).
  { destruct m as [| |pm|]; try discriminate. apply bind_ok in H. destruct H as [[s1 subs1] [Hx H]]. inversion H; subst; clear H.
    unfold own_cfg_kept; cbn [w_em w_fc w_pm w_fm set_pm]. refine (conj _ (conj _ (conj _ _))); kept_triv.
    intros Hset; eapply pm_execute_own_cfg; eauto. }
  destruct (String.eqb t FM); [|discriminate].
  destruct m as [| | |fm]; try discriminate. apply bind_ok in H. destruct H as [[s1 subs1] [Hx H]]. inversion H; subst; clear H.
  unfold own_cfg_kept; cbn [w_em w_fc w_pm w_fm set_fm]. refine (conj _ (conj _ (conj _ _))); kept_triv.
  intros Hset; eapply fm_execute_own_cfg; eauto.
Qed.

Lemma handle_reply_own_cfg_kept o w c id w2 subs :
  handle_reply w c id = Ok (w2, subs) -> own_cfg_kept o w w2.
Proof.
  unfold handle_reply. intros H.
  destruct (String.eqb c PM).
  { apply bind_ok in H. destruct H as [[s1 subs1] [Hx H]]. inversion H; subst; clear H.
    unfold own_cfg_kept; cbn [w_em w_fc w_pm w_fm set_pm]. refine (conj _ (conj _ (conj _ _))); kept_triv.
    intros _. unfold pm_reply in Hx. inv_all; split; reflexivity. }
  destruct (String.eqb c FM); [|discriminate].
  apply bind_ok in H. destruct H as [[s1 subs1] [Hx H]]. inversion H; subst; clear H.
  unfold own_cfg_kept; cbn [w_em w_fc w_pm w_fm set_fm]. refine (conj _ (conj _ (conj _ _))); kept_triv.
  intros _. unfold fm_reply in Hx. destruct (id =? CLOSE_FARMS_ERR_REPLY_CODE); inversion Hx; split; reflexivity.
Qed.

(* ---------- over histories ---------- *)
Theorem only_the_owner_changes_ownership_and_configuration o ops w :
  o <> EM -> o <> FC -> o <> PM -> o <> FM ->
  Forall (not_signed_by o) ops ->
  own_cfg_kept o w (run w ops).
Proof.
  intros H1 H2 H3 H4 Hall.
  apply (run_RS o H1 H2 H3 H4 (own_cfg_kept o)); try exact Hall.
  - apply own_cfg_kept_refl.
  - apply own_cfg_kept_trans.
  - apply own_cfg_kept_same.
  - intros x t s f m w2 subs Hs H. eapply handle_own_cfg_kept; eauto.
  - intros x c id w2 subs H. eapply handle_reply_own_cfg_kept; eauto.
  - intros x b. unfold own_cfg_kept. cbn [set_block w_em w_fc w_pm w_fm]. refine (conj _ (conj _ (conj _ _))); kept_triv.
Qed.
