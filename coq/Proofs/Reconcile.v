(* C10: a user without open positions in an LP denom has no weight in it — what reconcile_user_state (the last step of
   closing and of withdrawing a position) establishes. *)
From Coq Require Import ZArith List String Lia Bool.
From MD.Model Require Import Base Ownable Epoch PoolMath Types PoolManager FarmManager Chain.
From MD.Proofs Require Import Tactics Arith PoolMathProofs MapLemmas BankProofs WeightProofs FarmProofs RewardProofs FarmCustody ClaimFrame ClaimSplit.
Import ListNotations.
Open Scope Z_scope.

Lemma earliest_none a lp : forall l acc,
  fold_left (estep a lp) l acc = None -> acc = None /\ forall kv, In kv l -> wkey_pref a lp (fst kv) = false.
Proof.
  induction l as [|kv r IH]; intros acc H; cbn [fold_left] in H; [split; [exact H | intros kv []]|].
  destruct (IH _ H) as [A B]. unfold estep in A. destruct (wkey_pref a lp (fst kv)) eqn:E.
  - destruct acc as [[e v]|]; [destruct (wk_epoch (fst kv) <? e); discriminate | discriminate].
  - split; [exact A|]. intros kv' [<-|Hin]; [exact E | apply B; exact Hin].
Qed.

Lemma no_entries_get ws a lp : w_earliest ws a lp = None -> forall e, w_get ws (mkw a lp e) = None.
Proof.
  intros H e. rewrite w_earliest_fold in H. destruct (earliest_none _ _ _ _ H) as [_ B].
  destruct (w_get ws (mkw a lp e)) as [v|] eqn:G; [|reflexivity].
  destruct (w_get_in _ _ _ G) as (k' & Hin & Hk). destruct (key_match_inv _ _ _ _ Hk) as [Hp _].
  specialize (B (k', v) Hin). cbn [fst] in B. congruence.
Qed.

(* after the reconciliation, a user with no open position in the LP denom has no weight entry left for it: his weight is
   zero in every epoch, whatever the history of his positions was *)
Theorem reconcile_clears_weights w s recv lp s' :
  reconcile_user_state w s recv lp = Ok s' ->
  forallb (fun p => negb (String.eqb (denom_of (pos_lp p)) lp)) (positions_by_receiver s recv true) = true ->
  (forall e, w_get (fm_weights s') (mkw recv lp e) = None) /\
  latest_weight (fm_weights s') recv lp = 0 /\
  forall start e, address_weight_at (fm_weights s') recv lp start e = 0.
Proof.
  intros H Hno. unfold reconcile_user_state in H. rewrite Hno in H.
  set (s1 := match positions_by_receiver s recv true with
             | [] => fm_set_last_claimed s (lc_remove (fm_last_claimed s) recv) | _ => s end) in *.
  assert (Hget : forall e, w_get (fm_weights s') (mkw recv lp e) = None).
  { destruct (w_earliest (fm_weights s1) recv lp) as [[e0 x0]|] eqn:Ee.
    - apply bind_ok in H. destruct H as [ep [_ H]]. unfold sync_weight_history in H. rewrite Ee in H.
      destruct (w_latest (fm_weights s1) recv lp) as [[e1 w1]|] eqn:El; [|discriminate].
      inversion H; subst s'; clear H. cbn [fm_weights fm_set_weights fm_with]. intros e.
      apply w_get_filter_none. intros kv Hin Hk. destruct (key_match_inv _ _ _ _ Hk) as [Hp Hep].
      rewrite w_earliest_fold in Ee. rewrite w_latest_fold in El.
      destruct (earliest_bound _ _ _ _ _ _ Ee) as [A _]. destruct (latest_bound _ _ _ _ _ _ El) as [B _].
      specialize (A kv Hin Hp). specialize (B kv Hin Hp). rewrite Hp.
      replace (e0 <=? wk_epoch (fst kv)) with true by lia. replace (wk_epoch (fst kv) <=? e1) with true by lia. reflexivity.
    - inversion H; subst s'. apply no_entries_get. exact Ee. }
  split; [exact Hget|]. split.
  - unfold latest_weight. destruct (w_latest (fm_weights s') recv lp) as [[e1 w1]|] eqn:El; [|reflexivity].
    destruct (w_latest_spec _ _ _ _ _ El) as [G _]. rewrite Hget in G. discriminate.
  - intros start e. rewrite address_weight_cf. apply cf_none. intros x _. apply Hget.
Qed.

Definition no_open_in (s : fm_state) (user lp : string) : Prop :=
  forallb (fun p => negb (String.eqb (denom_of (pos_lp p)) lp)) (positions_by_receiver s user true) = true.

(* closing a position: if afterwards the user has no open position left in that LP denom, no weight of his remains *)
Theorem close_position_clears w sender funds id olp s' msgs p :
  close_position w sender funds id olp = Ok (s', msgs) ->
  sfind pos_id id (fm_positions (w_fm w)) = Some p ->
  no_open_in s' sender (denom_of (pos_lp p)) ->
  forall start e, address_weight_at (fm_weights s') sender (denom_of (pos_lp p)) start e = 0.
Proof.
  unfold close_position. intros H Hp Hno.
  apply bind_ok in H. destruct H as [[] [_ H]].
  apply bind_ok in H. destruct H as [pending [_ H]].
  apply bind_ok in H. destruct H as [[] [_ H]].
  rewrite Hp in H. cbn [of_option bind] in H.
  apply bind_ok in H. destruct H as [[] [_ H]].
  apply bind_ok in H. destruct H as [[] [_ H]].
  apply bind_ok in H. destruct H as [exp_ns [_ H]].
  apply bind_ok in H. destruct H as [[] [_ H]].
  apply bind_ok in H. destruct H as [[[p' s1] tc] [_ H]].
  apply bind_ok in H. destruct H as [s2 [_ H]].
  apply bind_ok in H. destruct H as [s4 [Hs4 H]]. inversion H; subst s' msgs; clear H.
  pose proof (reconcile_tables _ _ _ _ _ Hs4) as (_ & _ & U3 & _).
  unfold no_open_in, positions_by_receiver in Hno. rewrite U3 in Hno.
  destruct (reconcile_clears_weights _ _ _ _ _ Hs4 Hno) as (_ & _ & A). exact A.
Qed.

(* withdrawing an open position (emergency exit): likewise *)
Theorem withdraw_position_clears w sender funds id em s' msgs p :
  withdraw_position w sender funds id em = Ok (s', msgs) ->
  sfind pos_id id (fm_positions (w_fm w)) = Some p -> pos_open p = true ->
  no_open_in s' sender (denom_of (pos_lp p)) ->
  forall start e, address_weight_at (fm_weights s') sender (denom_of (pos_lp p)) start e = 0.
Proof.
  unfold withdraw_position. intros H Hp Hopen Hno.
  apply bind_ok in H. destruct H as [[] [_ H]].
  rewrite Hp in H. cbn [of_option bind] in H.
  apply bind_ok in H. destruct H as [[] [_ H]].
  apply bind_ok in H. destruct H as [[[s1 ms] amt] [_ H]].
  rewrite Hopen in H.
  apply bind_ok in H. destruct H as [s3 [Hs3 H]]. inversion H; subst s' msgs; clear H.
  pose proof (reconcile_tables _ _ _ _ _ Hs3) as (_ & _ & U3 & _).
  unfold no_open_in, positions_by_receiver in Hno. rewrite U3 in Hno.
  destruct (reconcile_clears_weights _ _ _ _ _ Hs3 Hno) as (_ & _ & A). exact A.
Qed.

(* C06: nobody is paid for an epoch before his first weight entry for the LP denom (position changes are recorded for the
   epoch after the operation: WeightProofs / C10) — every reward entry for such an epoch is zero *)
Theorem no_reward_before_first_entry s f lp recv until lc rs e0 x0 :
  farm_rewards s f lp recv until lc = Ok rs ->
  w_earliest (fm_weights s) recv lp = Some (e0, x0) ->
  forall e r, In (e, r) rs -> e < e0 -> r = 0.
Proof.
  intros H He e r Hin Hlt.
  destruct (farm_rewards_entries _ _ _ _ _ _ _ H) as (start & _ & _ & Hent).
  destruct (Hent e r Hin) as (_ & _ & _ & _ & total & _ & Hne & Hr & _).
  assert (Hz : address_weight_at (fm_weights s) recv lp start e = 0).
  { rewrite address_weight_cf. apply cf_none. intros x Hx. apply in_epoch_range in Hx.
    destruct (w_get (fm_weights s) (mkw recv lp x)) as [v|] eqn:G; [|reflexivity].
    destruct (w_earliest_spec _ _ _ _ _ He) as [_ Hmin]. specialize (Hmin _ _ G). lia. }
  rewrite Hz, Z.mul_0_r, Z.div_0_l in Hr by exact Hne. exact Hr.
Qed.
