(* PmWf.v — the well-formedness assumed by the swap theorems (C03, C04: non-negative fees and reserves, two assets in a
   constant-product pool) holds in every world reachable from genesis: it is preserved by every pool-manager message. *)
From MD.Model Require Import Base Ownable Epoch PoolMath Types PoolManager FarmManager Chain.
From MD.Proofs Require Import Tactics Arith PoolMathProofs MapLemmas BankProofs SwapProofs ChainProofs PmProofs LiquidityProofs PoolCustody.

Definition nonneg_coins (l : list coin) : Prop := Forall (fun c => 0 <= amount_of c) l.

Lemma pm_wf_insert s p : pm_wf s -> pool_wf p -> pm_wf (pm_with_pools s (sinsert p_id p (pm_pools s))).
Proof.
  intros Hw Hp id q Hq. cbn [pm_pools pm_with_pools] in Hq.
  destruct (String.eqb id (p_id p)) eqn:E.
  - apply String.eqb_eq in E. subst id. rewrite (sfind_sinsert_same p_id p) in Hq. inversion Hq; subst. exact Hp.
  - rewrite sfind_sinsert_other in Hq by (apply String.eqb_neq; exact E). eapply Hw; eauto.
Qed.

Lemma pm_wf_same_pools s s' : pm_pools s' = pm_pools s -> pm_wf s -> pm_wf s'.
Proof. intros E Hw id q Hq. rewrite E in Hq. eapply Hw; eauto. Qed.

(* list facts *)
Lemma sort_insert_Forall (P : coin -> Prop) c l : P c -> Forall P l -> Forall P (sort_insert c l).
Proof. intros Hc H. induction H as [|x r Hx Hr IH]; cbn; [repeat constructor; exact Hc|]. destruct (String.ltb _ _); repeat constructor; auto. Qed.
Lemma sort_Forall (P : coin -> Prop) l : Forall P l -> Forall P (sort_by_denom l).
Proof. intros H. induction H as [|x r Hx Hr IH]; cbn [sort_by_denom fold_right]; [constructor|]. apply sort_insert_Forall; assumption. Qed.
Lemma sort_insert_length c l : List.length (sort_insert c l) = S (List.length l).
Proof. induction l as [|x r IH]; cbn; [reflexivity|]. destruct (String.ltb _ _); cbn; [reflexivity | rewrite IH; reflexivity]. Qed.
Lemma sort_length l : List.length (sort_by_denom l) = List.length l.
Proof. induction l as [|x r IH]; cbn [sort_by_denom fold_right List.length]; [reflexivity|]. fold (sort_by_denom r). rewrite sort_insert_length, IH. reflexivity. Qed.
Lemma set_nth_length {A} i (v : A) l : List.length (set_nth i v l) = List.length l.
Proof. revert i. induction l as [|x r IH]; intros [|i]; cbn; try reflexivity. rewrite IH. reflexivity. Qed.

Lemma slippage_shape tol deps pa pt pa' :
  assert_slippage_tolerance tol deps pa pt = Ok pa' -> nonneg_coins pa -> nonneg_coins pa' /\ List.length pa' = List.length pa.
Proof.
  unfold assert_slippage_tolerance. intros H Hn.
  destruct (existsb _ pa); [inversion H; subst; split; [exact Hn | reflexivity]|].
  destruct tol as [t|]; [|inversion H; subst; split; [exact Hn | reflexivity]].
  apply bind_ok in H. destruct H as [[] [_ H]].
  assert (G : nonneg_coins (sort_by_denom pa) /\ List.length (sort_by_denom pa) = List.length pa) by (split; [apply sort_Forall; exact Hn | apply sort_length]).
  destruct pt as [|amp].
  - destruct (map amount_of deps) as [|d0 [|d1 [|d2 r]]]; try discriminate;
      destruct (map amount_of (sort_by_denom pa)) as [|p0 [|p1 [|p2 r']]]; try discriminate.
    inv_all; exact G.
  - inv_all; exact G.
Qed.

Lemma add_deposits_shape deps : forall l l',
  add_deposits deps l = Ok l' -> nonneg_coins l -> nonneg_coins l' /\ List.length l' = List.length l.
Proof.
  unfold add_deposits. induction deps as [|d r IH]; intros l l' H Hn; cbn [foldM] in H.
  - inversion H; subst. split; [exact Hn | reflexivity].
  - apply bind_ok in H. destruct H as [l1 [H1 H]].
    apply bind_ok in H1. destruct H1 as [i [_ H1]].
    apply bind_ok in H1. destruct H1 as [pa [_ H1]].
    apply bind_ok in H1. destruct H1 as [v [Hv H1]]. inversion H1; subst l1; clear H1.
    unfold cadd in Hv. apply chk_ok in Hv. destruct Hv as [-> [Hv0 _]].
    destruct (IH _ _ H) as [A B].
    + apply Forall_set_nth; [exact Hn | exact Hv0].
    + split; [exact A | rewrite B; apply set_nth_length].
Qed.

Lemma sub_refunds_shape refunds : forall l l',
  foldM (fun acc r =>
           let* i := of_option (index_of_denom (denom_of r) acc) "AssetMismatch" in
           let* pa := nth_coin i acc in
           let* v := csub U128_MAX (amount_of pa) (amount_of r) in
           Ok (set_nth i (denom_of pa, v) acc)) refunds l = Ok l' ->
  nonneg_coins l -> nonneg_coins l' /\ List.length l' = List.length l.
Proof.
  induction refunds as [|x r IH]; intros l l' H Hn; cbn [foldM] in H.
  - inversion H; subst. split; [exact Hn | reflexivity].
  - apply bind_ok in H. destruct H as [l1 [H1 H]].
    apply bind_ok in H1. destruct H1 as [i [_ H1]].
    apply bind_ok in H1. destruct H1 as [pa [_ H1]].
    apply bind_ok in H1. destruct H1 as [v [Hv H1]]. inversion H1; subst l1; clear H1.
    unfold csub in Hv. apply chk_ok in Hv. destruct Hv as [-> [Hv0 _]].
    destruct (IH _ _ H) as [A B].
    + apply Forall_set_nth; [exact Hn | exact Hv0].
    + split; [exact A | rewrite B; apply set_nth_length].
Qed.

Lemma pool_wf_assets p a : pool_wf p -> nonneg_coins a -> List.length a = List.length (p_assets p) -> pool_wf (pool_with_assets p a).
Proof. intros (F & N & L) Ha Hl. split; [exact F|]. split; [exact Ha|]. cbn [p_type p_assets pool_with_assets]. intros Ht. rewrite Hl. apply L. exact Ht. Qed.

Lemma fee_ok_nonneg f : fee_ok f = true -> fee_nonneg f.
Proof.
  unfold fee_ok, u128_ok, in_range, fee_nonneg. intros H.
  apply andb_true_iff in H. destruct H as [H He]. apply andb_true_iff in H. destruct H as [H Hb]. apply andb_true_iff in H. destruct H as [Hp Hs].
  repeat split; try lia. rewrite forallb_forall in He. apply Forall_forall. intros x Hx. specialize (He x Hx). lia.
Qed.

Lemma coins_ok_nonneg' funds : coins_ok funds = true -> forall c, In c funds -> 0 <= amount_of c.
Proof. unfold coins_ok. intros H c Hc. rewrite forallb_forall in H. specialize (H c Hc). unfold coin_ok, u128_ok, in_range in H. lia. Qed.

(* every pool-manager message *)
Lemma pm_execute_wf w sender funds m s' msgs :
  pm_wf (w_pm w) -> coins_ok funds = true -> wmsg_ok (WPm m) = true ->
  pm_execute w sender funds m = Ok (s', msgs) -> pm_wf s'.
Proof.
  intros Hw Hfunds Hmsg H.
  pose proof (coins_ok_nonneg' _ Hfunds) as Hfn.
  destruct m as [denoms decimals fees pt oid | ls ss r pid u l | ask bp ms r pid | pid | a | ops mr r ms | fc fm fee t];
    cbn [pm_execute] in H.
  - (* create_pool *)
    pose proof (create_pool_checks _ _ _ _ _ _ _ _ _ H) as Hc. cbv zeta in Hc. destruct Hc as (_ & _ & Hn & _).
    apply create_pool_shape in H. destruct H as (p & _ & Hpools & _ & _ & _ & Hd & _ & Hf & Ht & Ha & _).
    cbn [wmsg_ok] in Hmsg. apply andb_true_iff in Hmsg. destruct Hmsg as [Hmsg _]. apply andb_true_iff in Hmsg. destruct Hmsg as [_ Hfee].
    intros id q Hq. rewrite Hpools in Hq.
    destruct (String.eqb id (p_id p)) eqn:E.
    + apply String.eqb_eq in E. subst id. rewrite (sfind_sinsert_same p_id p) in Hq. inversion Hq; subst q.
      split; [rewrite Hf; apply fee_ok_nonneg; exact Hfee|]. split.
      * rewrite Ha. apply Forall_forall. intros c Hc. apply in_map_iff in Hc. destruct Hc as (d & <- & _). cbn. lia.
      * intros Hcp. rewrite Ha, map_length. rewrite Ht in Hcp. subst pt. rewrite Hcp in Hn. lia.
    + rewrite sfind_sinsert_other in Hq by (apply String.eqb_neq; exact E). eapply Hw; eauto.
  - (* provide_liquidity *)
    destruct (aggregate_coins funds) as [deps|e] eqn:Hagg.
    2:{ unfold provide_liquidity in H. apply bind_ok in H. destruct H as [p [_ H]]. apply bind_ok in H. destruct H as [[] [_ H]].
        rewrite Hagg in H. discriminate. }
    destruct deps as [|d0 [|d1 rest]].
    + unfold provide_liquidity in H. apply bind_ok in H. destruct H as [p [_ H]]. apply bind_ok in H. destruct H as [[] [_ H]].
      rewrite Hagg in H. cbn in H. discriminate.
    + destruct (provide_single_spec _ _ _ _ _ _ _ _ _ _ _ _ Hagg H) as (p & askc & sim & _ & _ & _ & _ & _ & _ & _ & -> & _).
      eapply pm_wf_same_pools; [|exact Hw]. reflexivity.
    + destruct (provide_multi_spec _ _ _ _ _ _ _ _ _ _ _ _ _ _ Hagg H) as (p & pa' & assets'' & Hp & _ & _ & Hsl & Hadd & -> & _).
      apply pool_find_ok in Hp. pose proof (Hw _ _ Hp) as Hpw.
      destruct Hpw as (F & N & L).
      destruct (slippage_shape _ _ _ _ _ Hsl N) as [N1 L1].
      destruct (add_deposits_shape _ _ _ Hadd N1) as [N2 L2].
      apply pm_wf_insert; [exact Hw|]. apply pool_wf_assets; [split; [exact F | split; [exact N | exact L]] | exact N2 | congruence].
  - (* swap *)
    apply swap_spec in H. destruct H as (p & offer & sc & _ & _ & Hone & _ & Hps & _).
    assert (Ho : 0 <= amount_of offer).
    { apply Hfn. unfold one_coin in Hone. destruct funds as [|x [|y r0]]; try discriminate. destruct (amount_of x =? 0); inversion Hone; subst. left. reflexivity. }
    destruct (perform_swap_pools _ _ _ _ _ _ _ _ Hw Ho Hps) as [Hw' _]. exact Hw'.
  - (* withdraw *)
    unfold withdraw_liquidity in H.
    apply bind_ok in H. destruct H as [p [Hp H]].
    apply bind_ok in H. destruct H as [[] [_ H]].
    apply bind_ok in H. destruct H as [amount [_ H]].
    apply bind_ok in H. destruct H as [total [_ H]].
    apply bind_ok in H. destruct H as [ratio [_ H]].
    apply bind_ok in H. destruct H as [[] [_ H]].
    apply bind_ok in H. destruct H as [refunds_all [_ H]].
    apply bind_ok in H. destruct H as [assets' [Hsub H]].
    apply bind_ok in H. destruct H as [bm [_ H]]. inversion H; subst s' msgs; clear H.
    apply pool_find_ok in Hp. pose proof (Hw _ _ Hp) as (F & N & L).
    destruct (sub_refunds_shape _ _ _ Hsub N) as [N1 L1].
    apply pm_wf_insert; [exact Hw|]. apply pool_wf_assets; [split; [exact F | split; [exact N | exact L]] | exact N1 | exact L1].
  - (* ownership *)
    inv_all. eapply pm_wf_same_pools; [|exact Hw]. reflexivity.
  - (* route *)
    apply exec_ops_spec in H. destruct H as (lst & f & amount & out & fee_msgs & _ & _ & Hm & _ & Hr & _ & _).
    assert (Ha : 0 <= amount_of (so_in f, amount)).
    { cbn. unfold must_pay in Hm. apply bind_ok in Hm. destruct Hm as [c [Hc Hm]]. destruct (String.eqb _ _); [|discriminate]. inversion Hm; subst.
      apply Hfn. unfold one_coin in Hc. destruct funds as [|x [|y r0]]; try discriminate. destruct (amount_of x =? 0); inversion Hc; subst. left. reflexivity. }
    destruct (route_loop_pools _ _ _ _ _ _ _ _ Hw Ha Hr) as [Hw' _]. exact Hw'.
  - (* update_config *)
    apply bind_ok in H. destruct H as [[] [_ H]]. apply update_config_shape in H.
    destruct H as (_ & _ & _ & _ & _ & Hpools).
    destruct t as [t|].
    + destruct Hpools as (p & Hp & Hpools). apply pool_find_ok in Hp. pose proof (Hw _ _ Hp) as Hpw.
      intros id q Hq. rewrite Hpools in Hq.
      destruct (String.eqb id (p_id p)) eqn:E.
      * apply String.eqb_eq in E. subst id.
        match type of Hq with sfind _ _ (sinsert _ ?p' _) = _ => change (p_id p) with (p_id p') in Hq; rewrite (sfind_sinsert_same p_id p') in Hq end.
        inversion Hq; subst q. exact Hpw.
      * rewrite sfind_sinsert_other in Hq by (cbn [p_id pool_with_status]; apply String.eqb_neq; exact E). eapply Hw; eauto.
    + eapply pm_wf_same_pools; [exact Hpools | exact Hw].
Qed.

(* ---------- over all histories ---------- *)
Definition wfR (w w' : world) : Prop := pm_wf (w_pm w) -> pm_wf (w_pm w').

Lemma wfR_handle w t s f m w2 subs : handle w t s f m = Ok (w2, subs) -> wfR w w2.
Proof.
  intros H Hw. apply handle_ok_typed in H. destruct H as (H & Hfunds & Hmsg). unfold handle_typed in H.
  destruct (String.eqb t EM); [destruct m; inv_all; exact Hw|].
  destruct (String.eqb t FC); [destruct m; inv_all; exact Hw|].
  destruct (String.eqb t PM).
  - destruct m as [| |pm|]; try discriminate. apply bind_ok in H. destruct H as [[s1 subs1] [Hx H]]. inversion H; subst w2 subs; clear H.
    cbn [w_pm set_pm]. eapply pm_execute_wf; eauto.
  - destruct (String.eqb t FM); [|discriminate]. destruct m; inv_all; exact Hw.
Qed.

Lemma wfR_reply w c id w2 subs : handle_reply w c id = Ok (w2, subs) -> wfR w w2.
Proof.
  intros H Hw. unfold handle_reply in H.
  destruct (String.eqb c PM).
  - apply bind_ok in H. destruct H as [[s1 subs1] [Hx H]]. inversion H; subst w2 subs; clear H.
    apply pm_reply_spec in Hx. destruct Hx as (_ & b & _ & _ & _ & -> & _). cbn [w_pm set_pm].
    eapply pm_wf_same_pools; [|exact Hw]. reflexivity.
  - destruct (String.eqb c FM); [|discriminate]. inv_all; exact Hw.
Qed.

(* C03/C04: the hypotheses of the swap theorems hold in every reachable world *)
Theorem run_pm_wf ops w : pm_wf (w_pm w) -> pm_wf (w_pm (run w ops)).
Proof.
  apply (run_R wfR).
  - intros x H; exact H.
  - intros a b c H1 H2 H; auto.
  - intros x y (_ & _ & _ & _ & _ & Hp & _) H. rewrite Hp. exact H.
  - exact wfR_handle.
  - exact wfR_reply.
  - intros x b H. exact H.
Qed.

Theorem reachable_pm_wf g w0 ops : genesis_world g = Ok w0 -> pm_wf (w_pm (run w0 ops)).
Proof.
  intros H. apply run_pm_wf. unfold genesis_world in H.
  apply bind_ok in H. destruct H as [b [_ H]].
  apply bind_ok in H. destruct H as [em [_ H]].
  apply bind_ok in H. destruct H as [fc [_ H]].
  apply bind_ok in H. destruct H as [fm [_ H]].
  apply bind_ok in H. destruct H as [pm [Hpm H]]. inversion H; subst w0; clear H.
  unfold pm_instantiate in Hpm. inv_all. intros id q Hq. cbn in Hq. discriminate.
Qed.
