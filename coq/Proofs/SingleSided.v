(* SingleSided.v — C14 at transaction level: a successful single-asset provision IS the swap of half of the deposit
   followed by the ordinary deposit of the kept half plus the swap proceeds for the chosen receiver. *)
From MD.Model Require Import Base Ownable Epoch PoolMath Types PoolManager FarmManager Chain.
From MD.Proofs Require Import Tactics Arith PoolMathProofs MapLemmas BankProofs SwapProofs ChainProofs PmProofs LiquidityProofs
  AtomicProofs PoolCustody PoolCustodyChain.

(* a fire-and-forget contract call, unfolded *)
Lemma plain_call f w c t m funds w' fl :
  process (S f) w c [plain (MWasm t m funds)] = (Ok w', fl) ->
  exists wa fla w2 subs2 fl2,
    (match funds with [] => (Ok w, w_fault w) | _ => bank_call w (fun b => bank_send b c t funds) end) = (Ok wa, fla) /\
    handle wa t c funds m = Ok (w2, subs2) /\ process f w2 t subs2 = (Ok w', fl2).
Proof.
  rewrite process_cons. unfold exec_sub. cbn [plain sm_msg sm_reply sm_id wants_success wants_error].
  destruct (match funds with [] => (Ok w, w_fault w) | _ => bank_call w (fun b => bank_send b c t funds) end)
    as [[wa|ea] fla] eqn:Eb; [|discriminate].
  destruct (handle wa t c funds m) as [[w2 subs2]|eh] eqn:Eh; [|discriminate].
  destruct (process f w2 t subs2) as [[w3|e3] fl3] eqn:E; [|discriminate].
  rewrite process_nil. intros H. inversion H; subst. exists wa, fla, w2, subs2, fl3. repeat split; assumption.
Qed.

(* the swap computation does not look at the single-asset bookkeeping *)
Lemma perform_swap_with_buffer s bb o a pid bl ms s1 sc :
  perform_swap (pm_with_buffer s bb) o a pid bl ms = Ok (s1, sc) ->
  exists s1', perform_swap s o a pid bl ms = Ok (s1', sc) /\ s1 = pm_with_buffer s1' bb.
Proof.
  unfold perform_swap. change (pool_find (pm_with_buffer s bb) pid) with (pool_find s pid).
  destruct (pool_find s pid) as [p|e]; cbn [bind]; [|discriminate].
  destruct (get_asset_indexes p (denom_of o) a) as [[[[[[x1 x2] oi] ai] x5] x6]|e]; cbn [bind]; [|discriminate].
  destruct (compute_swap p o a) as [sc0|e]; cbn [bind]; [|discriminate].
  destruct (assert_max_slippage bl ms (amount_of o) (sc_return sc0) (sc_slippage sc0)) as [[]|e]; cbn [bind]; [|discriminate].
  destruct (nth_coin oi (p_assets p)) as [oc|e]; cbn [bind]; [|discriminate].
  destruct (cadd U128_MAX (amount_of oc) (amount_of o)) as [o'|e]; cbn [bind]; [|discriminate].
  destruct (cadd U128_MAX (sc_protocol_fee sc0) (sc_burn_fee sc0)) as [og|e]; cbn [bind]; [|discriminate].
  destruct (nth_coin ai (set_nth oi (denom_of oc, o') (p_assets p))) as [ac|e]; cbn [bind]; [|discriminate].
  destruct (csub U128_MAX (amount_of ac) (sc_return sc0)) as [a1|e]; cbn [bind]; [|discriminate].
  destruct (csub U128_MAX a1 og) as [a2|e]; cbn [bind]; [|discriminate].
  intros H. inversion H; subst. eexists. split; reflexivity.
Qed.

Theorem single_sided_tx w sender funds ls ss r pid u l deposit w' :
  aggregate_coins funds = Ok [deposit] ->
  run_tx w sender PM (WPm (PmProvide ls ss r pid u l)) funds = Ok w' ->
  let half := (denom_of deposit, amount_of deposit / 2) in
  exists askc sim s1 wb s2 msgs2 f fl,   (* s1: the pool manager's state after the swap *)
    (* the other asset of the (two-asset, funded) pool *)
    (exists p, pool_find (w_pm w) pid = Ok p /\ List.length (p_assets p) = 2%nat /\
               existsb (fun c => amount_of c =? 0) (p_assets p) = false /\
               find (fun c => negb (String.eqb (denom_of c) (denom_of deposit))) (p_assets p) = Some askc) /\
    (* leg 1: the swap of half of the deposit, on the pool as it was, with the caller's swap tolerance *)
    perform_swap (w_pm w) half (denom_of askc) pid None ss = Ok (s1, sim) /\
    (* leg 2: the ordinary two-asset deposit of the kept half and the proceeds, by the pool manager itself, for the
       chosen receiver (or locked for it), evaluated on the pool as the swap left it; no bookkeeping remains *)
    w_pm wb = pm_with_buffer s1 None /\
    w_em wb = w_em w /\ w_fc wb = w_fc w /\ w_fm wb = w_fm w /\
    provide_liquidity wb PM [half; (denom_of askc, sc_return sim)] ls ss (Some (addr_or_default w r sender)) pid u l = Ok (s2, msgs2) /\
    (* the rest of the transaction only delivers the deposit's messages (LP mint, optional lock) *)
    process f (set_pm wb s2) PM msgs2 = (Ok w', fl).
Proof.
  intros Hagg H half. unfold run_tx in H.
  destruct (process FUEL w sender [plain (MWasm PM (WPm (PmProvide ls ss r pid u l)) funds)]) as [[wx|ex] flx] eqn:Ep; cbn [fst] in H; [|discriminate].
  inversion H; subst wx; clear H. unfold FUEL in Ep.
  destruct (plain_call _ _ _ _ _ _ _ _ Ep) as (wa & fla & w2 & subs2 & fl2 & Eb & Eh & E2).
  assert (Hsa : same_contracts w wa).
  { destruct funds; [inversion Eb; subst; apply same_contracts_refl | eapply bank_call_same; eauto]. }
  destruct Hsa as (Hblk & Htfa & Hval & Hema & Hfca & Hpma & Hfma).
  apply handle_ok_typed in Eh. destruct Eh as (Eh & _ & _).
  unfold handle_typed in Eh. cbn [String.eqb EM FC PM FM Ascii.eqb Bool.eqb] in Eh.
  apply bind_ok in Eh. destruct Eh as [[s0 msgs0] [Hx Eh]]. inversion Eh; subst w2 subs2; clear Eh. cbn [pm_execute] in Hx.
  destruct (provide_single_spec _ _ _ _ _ _ _ _ _ _ _ _ Hagg Hx) as (p & askc & sim & Hp & _ & Hnz & Hlen & _ & Hfind & Hsim & Hs0 & Hm0).
  subst msgs0.
  set (b := {| sb_receiver := addr_or_default wa r sender;
               sb_expected_offer := (denom_of deposit, bal (w_bank wa) PM (denom_of deposit));
               sb_expected_ask := (denom_of askc, ssub (bal (w_bank wa) PM (denom_of askc)) (sc_protocol_fee sim + sc_burn_fee sim));
               sb_offer_half := (denom_of deposit, amount_of deposit / 2);
               sb_expected_ask_asset := (denom_of askc, sc_return sim);
               sb_data := {| ld_swap_slip := ss; ld_liq_slip := ls; ld_pool := pid; ld_unlock := u; ld_lock_id := l |} |}) in *.
  assert (Hbuf : pm_buffer (w_pm (set_pm wa s0)) = Some b) by (rewrite Hs0; reflexivity).
  assert (Hsim' : query_simulation (w_pm (set_pm wa s0)) (denom_of deposit, amount_of deposit / 2) (denom_of askc) pid = Ok sim)
    by (rewrite Hs0; exact Hsim).
  change (process 7 (set_pm wa s0) PM [single_elem (denom_of deposit) (amount_of deposit / 2) (denom_of askc) pid ss] = (Ok w', fl2)) in E2.
  destruct (single_chain _ _ _ _ b _ _ _ _ _ _ Hbuf eq_refl eq_refl Hsim' E2)
    as (wc & flc & s1 & msgs1 & w1 & fl1 & fl3 & Ebc & Hswap & Hps & Hleaf & E1 & Hpm1 & Hb1 & E3).
  (* leg 2 *)
  destruct (plain_call _ _ _ _ _ _ _ _ E3) as (wb & flb & w4 & subs4 & fl4 & Ebb & Eh4 & E4).
  assert (Hsb : same_contracts (set_pm w1 (pm_with_buffer s1 None)) wb) by (eapply bank_call_same; exact Ebb).
  destruct Hsb as (_ & _ & Hvalb & Hemb & Hfcb & Hpmb & Hfmb).
  apply handle_ok_typed in Eh4. destruct Eh4 as (Eh4 & _ & _).
  unfold handle_typed in Eh4. cbn [String.eqb EM FC PM FM Ascii.eqb Bool.eqb] in Eh4.
  apply bind_ok in Eh4. destruct Eh4 as [[s2 msgs2] [Hx4 Eh4]]. inversion Eh4; subst w4 subs4; clear Eh4.
  cbn [pm_execute sb_data ld_liq_slip ld_swap_slip ld_pool ld_unlock ld_lock_id sb_receiver sb_offer_half sb_expected_ask_asset b] in Hx4.
  (* the swap's bank messages leave every contract state alone *)
  assert (Hs1 : same_contracts (set_pm wc s1) w1).
  { destruct (5%nat) eqn:E5; [discriminate|]. rewrite (process_leaves _ _ PM msgs1 Hleaf) in E1. eapply exec_leaves_same; eauto. }
  destruct Hs1 as (_ & _ & Hval1 & Hem1 & Hfc1 & _ & Hfm1).
  pose proof (bank_call_same _ _ _ _ Ebc) as (_ & _ & Hvalc & Hemc & Hfcc & Hpmc & Hfmc).
  cbn [w_pm set_pm] in Hps. rewrite Hs0 in Hps.
  destruct (perform_swap_with_buffer _ _ _ _ _ _ _ _ _ Hps) as (s1' & Hps1 & Hs1eq).
  exists askc, sim, s1', wb, s2, msgs2, 5%nat, fl4.
  split; [exists p; rewrite <- Hpma; repeat split; assumption|].
  split; [rewrite <- Hpma; exact Hps1|].
  split; [rewrite Hpmb; cbn [w_pm set_pm]; rewrite Hs1eq; reflexivity|].
  split; [rewrite Hemb; cbn [w_em set_pm]; rewrite Hem1; cbn [w_em set_pm]; rewrite Hemc; cbn [w_em set_pm]; exact Hema|].
  split; [rewrite Hfcb; cbn [w_fc set_pm]; rewrite Hfc1; cbn [w_fc set_pm]; rewrite Hfcc; cbn [w_fc set_pm]; exact Hfca|].
  split; [rewrite Hfmb; cbn [w_fm set_pm]; rewrite Hfm1; cbn [w_fm set_pm]; rewrite Hfmc; cbn [w_fm set_pm]; exact Hfma|].
  split; [|exact E4].
  (* the receiver was resolved against the same set of valid addresses *)
  assert (Hr : addr_or_default wa r sender = addr_or_default w r sender).
  { unfold addr_or_default, addr_valid. rewrite Hval. reflexivity. }
  rewrite Hr in Hx4. exact Hx4.
Qed.
