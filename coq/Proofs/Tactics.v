(* Tactics.v — inversion of the result monad and arithmetic set-up shared by all proofs. *)
From MD.Model Require Import Base.
From Coq Require Import ZifyBool.

Ltac Zify.zify_post_hook ::= Z.div_mod_to_equations.

Lemma bind_ok {A B} (r : res A) (f : A -> res B) b :
  bind r f = Ok b -> exists a, r = Ok a /\ f a = Ok b.
Proof. destruct r; simpl; intros H; [eauto | discriminate]. Qed.

Lemma ensure_ok b e u : ensure b e = Ok u -> b = true.
Proof. unfold ensure; destruct b; [reflexivity | discriminate]. Qed.

Lemma chk_ok max v r : chk max v = Ok r -> r = v /\ 0 <= v <= max.
Proof.
  unfold chk, in_range. destruct (0 <=? v) eqn:H1; destruct (v <=? max) eqn:H2; simpl;
    intros H; inversion H; subst; lia.
Qed.

Lemma chk_ok_intro max v : 0 <= v <= max -> chk max v = Ok v.
Proof. intros H. unfold chk, in_range. replace (0 <=? v) with true by lia.
  replace (v <=? max) with true by lia. reflexivity. Qed.

Lemma chk_err max v e : chk max v = Err e -> v < 0 \/ max < v.
Proof.
  unfold chk, in_range. destruct (0 <=? v) eqn:H1; destruct (v <=? max) eqn:H2; simpl;
    intros H; try discriminate; lia.
Qed.

Lemma cdiv_ok a b r : cdiv a b = Ok r -> b <> 0 /\ r = a / b.
Proof. unfold cdiv. destruct (b =? 0) eqn:E; intros H; inversion H; subst; split; [lia | reflexivity]. Qed.

(* one step of monadic inversion on a hypothesis *)
Ltac inv_res1 :=
  match goal with
  | H : bind _ _ = Ok _ |- _ =>
      let a := fresh "v" in let Ha := fresh "Hv" in
      apply bind_ok in H; destruct H as [a [Ha H]]
  | H : ensure _ _ = Ok _ |- _ => apply ensure_ok in H
  | H : Ok _ = Ok _ |- _ => inversion H; subst; clear H
  | H : Err _ = Ok _ |- _ => discriminate H
  | H : chk _ _ = Ok _ |- _ => apply chk_ok in H; destruct H as [? ?]; subst
  | H : cadd _ _ _ = Ok _ |- _ => unfold cadd in H
  | H : csub _ _ _ = Ok _ |- _ => unfold csub in H
  | H : cmul _ _ _ = Ok _ |- _ => unfold cmul in H
  | H : cdiv _ _ = Ok _ |- _ => apply cdiv_ok in H; destruct H as [? ?]; subst
  end.
Ltac inv_res := repeat inv_res1.

(* 2^256-1 and 2^512-1 are kept opaque in proofs (lia would otherwise try to normalise the powers) *)
Lemma U128_lt_U256 : U128_MAX < U256_MAX. Proof. vm_compute. reflexivity. Qed.
Lemma U256_lt_U512 : U256_MAX < U512_MAX. Proof. vm_compute. reflexivity. Qed.
Lemma U64_lt_U128 : U64_MAX < U128_MAX. Proof. vm_compute. reflexivity. Qed.
Lemma U128_DEC2_le_U256 : U128_MAX * DEC * DEC <= U256_MAX. Proof. vm_compute. discriminate. Qed.
Global Opaque U256_MAX U512_MAX.

(* aggressive inversion of a monadic computation known to succeed: splits binds, case-splits matches/ifs *)
Ltac inv_step :=
  match goal with
  | H : bind ?r _ = Ok _ |- _ =>
      let v := fresh "v" in let Hv := fresh "Hv" in apply bind_ok in H; destruct H as [v [Hv H]]
  | H : Ok _ = Ok _ |- _ => inversion H; subst; clear H
  | H : Err _ = Ok _ |- _ => discriminate H
  | H : (if ?b then _ else _) = Ok _ |- _ => destruct b eqn:?
  | H : match ?x with _ => _ end = Ok _ |- _ => destruct x eqn:?
  end.
Ltac inv_all := repeat inv_step.

Lemma foldM_inv {A B} (P : B -> Prop) (f : B -> A -> res B) l : forall b r,
  (forall acc x acc', In x l -> f acc x = Ok acc' -> P acc -> P acc') ->
  P b -> foldM f l b = Ok r -> P r.
Proof.
  induction l as [|x xs IH]; intros b r Hstep Hb H; cbn [foldM] in H.
  - inversion H; subst. exact Hb.
  - apply bind_ok in H. destruct H as [b' [Hb' H]].
    eapply IH; [|eapply Hstep; [left; reflexivity | exact Hb' | exact Hb] | exact H].
    intros acc y acc' Hy. apply Hstep. right. exact Hy.
Qed.
