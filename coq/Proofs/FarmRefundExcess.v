(* C01: farm creations, farm closings and emergency withdrawals. Their payments go to the fee collector, to farm owners and to
   the sender — some of them as reply-on-error sub-messages whose failure is tolerated. As long as none of these recipients
   is the pool manager itself, the pool manager's balance and reserves do not move. *)
From Coq Require Import ZArith List String Lia Bool.
From MD.Model Require Import Base Ownable Epoch Types PoolMath PoolManager FarmManager Chain.
From MD.Proofs Require Import Tactics Arith PoolMathProofs MapLemmas BankProofs ChainProofs PmProofs FarmProofs FarmChainProofs FarmCustody PoolCustody PoolCustodyChain
  SingleSided TxBalances TxExcess LockedExcess.
Import ListNotations.
Open Scope Z_scope.

(* a bank send of the farm manager to somebody else than the pool manager, fire-and-forget or with its failure tolerated *)
Definition fm_send_ok (s : submsg) : Prop :=
  exists to cs, sm_msg s = MBankSend to cs /\ to <> PM /\
                (sm_reply s = RNever \/ (sm_reply s = RError /\ sm_id s = CLOSE_FARMS_ERR_REPLY_CODE)).

Lemma process_fm_sends f : forall subs w w' fl,
  Forall fm_send_ok subs -> process (S (S f)) w FM subs = (Ok w', fl) ->
  w_pm w' = w_pm w /\ forall d, bal (w_bank w') PM d = bal (w_bank w) PM d.
Proof.
  induction subs as [|s rest IH]; intros w w' fl Hall H.
  - rewrite process_nil in H. inversion H; subst. split; [reflexivity | intros; reflexivity].
  - inversion Hall as [|x xs (to & cs & Hm & Hto & Hrep) Hr]; subst.
    rewrite process_cons in H. rewrite exec_sub_leaf in H by (rewrite Hm; reflexivity). rewrite Hm in H. cbn [exec_leaf] in H.
    destruct (bank_call w (fun b => bank_send b FM to cs)) as [[w1|e1] fl1] eqn:Eb.
    + destruct (bank_call_send_bal _ _ _ _ _ _ Eb) as [(_ & _ & _ & _ & _ & Hpm1 & _) Hbal1].
      assert (Hws : wants_success (sm_reply s) = false) by (destruct Hrep as [->|[-> _]]; reflexivity).
      rewrite Hws in H. destruct (IH _ _ _ Hr H) as [A B]. split; [rewrite A; exact Hpm1|].
      intros d. rewrite B, Hbal1. change (String.eqb PM FM) with false.
      assert (H1 : String.eqb PM to = false) by (apply String.eqb_neq; congruence). rewrite H1. unfold ind. lia.
    + destruct Hrep as [Hrn|[Hre Hid]]; [rewrite Hrn in H; cbn [wants_error] in H; discriminate|].
      rewrite Hre in H. cbn [wants_error] in H. cbv zeta in H. rewrite Hid in H.
      unfold handle_reply in H. cbn [String.eqb EM FC PM FM Ascii.eqb Bool.eqb] in H.
      unfold fm_reply in H. rewrite Z.eqb_refl in H. cbn [bind] in H.
      rewrite process_nil in H.
      destruct (IH _ _ _ Hr H) as [A B]. split; [rewrite A; reflexivity | intros d; rewrite B; reflexivity].
Qed.

(* a transaction to the farm manager all of whose messages are such sends *)
Theorem fm_sends_tx_excess w sender fm funds w' :
  sender <> PM ->
  (forall wa s1 msgs, same_contracts w wa -> fm_execute wa sender funds fm = Ok (s1, msgs) -> Forall fm_send_ok msgs) ->
  run_tx w sender FM (WFm fm) funds = Ok w' ->
  forall d, slackP w' d = slackP w d.
Proof.
  intros Hs Hmsgs H d. unfold run_tx in H.
  destruct (process FUEL w sender [plain (MWasm FM (WFm fm) funds)]) as [[wx|ex] flx] eqn:Ep; cbn [fst] in H; [|discriminate].
  inversion H; subst wx; clear H. unfold FUEL in Ep.
  destruct (plain_call _ _ _ _ _ _ _ _ Ep) as (wa & fla & w2 & subs2 & fl2 & Eb & Eh & E2).
  destruct (transfer_bal _ _ _ _ _ _ Eb) as [Hsa Hbala].
  apply handle_ok_typed in Eh. destruct Eh as (Eh & _ & _). unfold handle_typed in Eh.
  cbn [String.eqb EM FC PM FM Ascii.eqb Bool.eqb] in Eh.
  apply bind_ok in Eh. destruct Eh as [[s1 msgs1] [Hx Eh]]. inversion Eh; subst w2 subs2; clear Eh.
  pose proof Hsa as (_ & _ & _ & _ & _ & Hpma & _).
  destruct (process_fm_sends 5 _ _ _ _ (Hmsgs _ _ _ Hsa Hx) E2) as [A B]. cbn [w_pm w_bank set_fm] in A, B.
  unfold slackP. rewrite A, Hpma, B, Hbala.
  assert (Hsp : String.eqb PM sender = false) by (apply String.eqb_neq; congruence).
  change (String.eqb PM FM) with false. rewrite Hsp. unfold ind. lia.
Qed.

(* ---------- the recipients of the farm manager's refunds, fees and penalties ---------- *)
Definition fm_payees_ok (s : fm_state) : Prop :=
  fm_fee_collector (fm_cfg s) <> PM /\ (forall f, In f (fm_farms s) -> f_owner f <> PM) /\ 0 <= amount_of (fm_create_fee (fm_cfg s)).

Lemma plain_send_ok to cs : to <> PM -> fm_send_ok (plain (MBankSend to cs)).
Proof. intros H. exists to, cs. split; [reflexivity|]. split; [exact H | left; reflexivity]. Qed.

Lemma close_farms_sends fs : forall s acc,
  (forall f, In f fs -> f_owner f <> PM) -> Forall fm_send_ok acc ->
  Forall fm_send_ok (snd (fold_left (fun acc f =>
               let s0 := fst acc in
               let rem := ssub (amount_of (f_asset f)) (f_claimed f) in
               (fm_set_farms s0 (sremove f_id (f_id f) (fm_farms s0)),
                if 0 <? rem then
                  (snd acc ++ [{| sm_msg := MBankSend (f_owner f) [(denom_of (f_asset f), rem)];
                                  sm_id := CLOSE_FARMS_ERR_REPLY_CODE; sm_reply := RError |}])%list
                else snd acc)) fs (s, acc))).
Proof.
  induction fs as [|f rest IH]; intros s acc Hown Hacc; cbn [fold_left]; [exact Hacc|].
  apply IH; [intros g Hg; apply Hown; right; exact Hg|]. cbn [fst snd].
  destruct (0 <? ssub (amount_of (f_asset f)) (f_claimed f)); [|exact Hacc].
  apply Forall_app. split; [exact Hacc|]. repeat constructor.
  eexists _, _. split; [reflexivity|]. split; [apply Hown; left; reflexivity | right; split; reflexivity].
Qed.

Lemma in_dedup l x : In x (dedup l) -> In x l.
Proof.
  induction l as [|y r IH]; cbn [dedup]; [tauto|]. intros [<-|H]; [left; reflexivity|].
  apply filter_In in H. right. apply IH. tauto.
Qed.

Lemma active_farms_sub w cfg ep l : forall acc r,
  foldM (fun acc f =>
           if f_start f <=? ep then
             let* ex := unwrap_or (is_farm_expired w cfg f) false in
             Ok (if ex then acc else (acc ++ [f])%list)
           else Ok acc) l acc = Ok r ->
  forall x, In x r -> In x acc \/ In x l.
Proof.
  induction l as [|y ys IH]; intros acc r H x Hx; cbn [foldM] in H; [inversion H; subst; left; exact Hx|].
  apply bind_ok in H. destruct H as [acc' [Hs H]]. destruct (IH _ _ H x Hx) as [Hi|Hi]; [|right; right; exact Hi].
  destruct (f_start y <=? ep).
  - apply bind_ok in Hs. destruct Hs as [ex [_ Hs]]. inversion Hs; subst acc'. destruct ex; [left; exact Hi|].
    apply in_app_iff in Hi. destruct Hi as [Hi|[<-|[]]]; [left; exact Hi | right; left; reflexivity].
  - inversion Hs; subst. left. exact Hi.
Qed.

Lemma withdraw_msgs_sends w sender funds id em s' msgs :
  sender <> PM -> fm_payees_ok (w_fm w) ->
  withdraw_position w sender funds id em = Ok (s', msgs) -> Forall fm_send_ok msgs.
Proof.
  intros Hs (Hfc & Hown & _) H. unfold withdraw_position in H.
  apply bind_ok in H. destruct H as [[] [_ H]].
  apply bind_ok in H. destruct H as [p [_ H]].
  apply bind_ok in H. destruct H as [[] [Ho H]]. apply ensure_ok in Ho. apply String.eqb_eq in Ho.
  apply bind_ok in H. destruct H as [[[s1 ms] amt] [Hb H]].
  apply bind_ok in H. destruct H as [s3 [_ H]]. inversion H; subst s' msgs; clear H.
  apply Forall_app. split.
  2:{ destruct (amt =? 0); [constructor|]. repeat constructor. apply plain_send_ok. rewrite Ho. exact Hs. }
  destruct ((match em with Some true => true | _ => false end) && negb (position_is_expired p (seconds (w_block w)))).
  - apply bind_ok in Hb. destruct Hb as [pen [_ Hb]].
    apply bind_ok in Hb. destruct Hb as [ad [_ Hb]].
    apply bind_ok in Hb. destruct Hb as [tp [_ Hb]].
    apply bind_ok in Hb. destruct Hb as [[] [_ Hb]].
    apply bind_ok in Hb. destruct Hb as [td [_ Hb]].
    apply bind_ok in Hb. destruct Hb as [oc [_ Hb]].
    apply bind_ok in Hb. destruct Hb as [ep [_ Hb]].
    apply bind_ok in Hb. destruct Hb as [farms [Hfarms Hb]].
    apply bind_ok in Hb. destruct Hb as [[owner_msgs collector] [Hom Hb]].
    apply bind_ok in Hb. destruct Hb as [sx [_ Hb]]. inversion Hb; subst s1 ms amt; clear Hb.
    assert (Hfo : forall o, In o (dedup (map f_owner farms)) -> o <> PM).
    { intros o Hin. apply in_dedup in Hin. apply in_map_iff in Hin. destruct Hin as (f & <- & Hf).
      destruct (active_farms_sub _ _ _ _ _ _ Hfarms f Hf) as [[]|Hi]. apply Hown.
      unfold farms_by_lp in Hi. apply in_take in Hi. apply filter_In in Hi. tauto. }
    apply Forall_app. split.
    + destruct (dedup (map f_owner farms)) as [|o0 os] eqn:Eo; [inversion Hom; constructor|].
      apply bind_ok in Hom. destruct Hom as [od [_ Hom]].
      destruct (0 <? dec_floor od); inversion Hom; subst; [|constructor].
      apply Forall_forall. intros x Hx.
      change (In x (map (fun o : string => plain (MBankSend o [(denom_of (pos_lp p), dec_floor od)])) (o0 :: os))) in Hx.
      apply in_map_iff in Hx. destruct Hx as (o & <- & Hoin). apply plain_send_ok. apply Hfo. exact Hoin.
    + destruct (0 <? collector); [|constructor]. repeat constructor. apply plain_send_ok. exact Hfc.
  - apply bind_ok in Hb. destruct Hb as [[] [_ Hb]]. apply bind_ok in Hb. destruct Hb as [[] [_ Hb]]. inversion Hb; subst. constructor.
Qed.

Lemma fm_refund_msgs w sender funds fm s' msgs :
  sender <> PM -> fm_payees_ok (w_fm w) ->
  fm_execute w sender funds fm = Ok (s', msgs) -> Forall fm_send_ok msgs.
Proof.
  intros Hs Hok H. pose proof Hok as (Hfc & Hown & Hfee0).
  destruct fm as [p|p|fid|a|u|oid dur r|pid|pid lp|pid e|u]; cbn [fm_execute] in H.
  - (* create farm: fee to the collector, overpayment back to the sender, refunds of the swept expired farms to their owners *)
    apply create_farm_spec in H.
    destruct H as (ep & expired & live & fee_msgs & st & en & identifier & _ & _ & Hexp & Hmin & Hfeem & Hasset & _ & _ & _ & _ & _ & _ & _ & _ & _ & ->).
    apply Forall_app. split.
    + assert (Hamt : 0 <= amount_of (fp_asset p)) by (unfold MIN_FARM_AMOUNT in Hmin; lia).
      pose proof (farm_creation_funds (fm_cfg (w_fm w)) sender funds (fp_asset p) fee_msgs Hfee0 Hamt Hasset Hfeem) as Hf.
      cbv zeta in Hf.
      destruct Hf as [(_ & _ & ->) | (_ & _ & _ & Hz & Hp)].
      * destruct (0 <? amount_of (fm_create_fee (fm_cfg (w_fm w)))); repeat constructor. apply plain_send_ok. exact Hfc.
      * destruct (amount_of (fm_create_fee (fm_cfg (w_fm w))) =? 0) eqn:E0.
        -- destruct (Hz ltac:(lia)) as (-> & _). constructor.
        -- destruct (Hp ltac:(lia)) as (paidc & _ & _ & ->).
           apply Forall_app. split; [destruct (amount_of paidc =? _); repeat constructor; apply plain_send_ok; exact Hs|].
           repeat constructor. apply plain_send_ok. exact Hfc.
    + unfold close_farms. apply close_farms_sends; [|constructor].
      intros f Hf. apply Hown. apply Hexp in Hf. unfold farms_by_lp in Hf. apply in_take in Hf. apply filter_In in Hf. tauto.
  - apply expand_farm_spec in H. destruct H as [-> _]. constructor.
  - apply close_farm_spec in H. destruct H as (_ & f & Hf & _ & _ & Hm). cbv zeta in Hm. subst msgs.
    destruct (0 <? _); [|constructor]. repeat constructor.
    eexists _, _. split; [reflexivity|]. split; [apply Hown; eapply sfind_in; eauto | right; split; reflexivity].
  - apply bind_ok in H. destruct H as [[] [_ H]]. apply bind_ok in H. destruct H as [o [_ H]]. inversion H; subst. constructor.
  - unfold claim in H.
    apply bind_ok in H. destruct H as [[] [_ H]].
    apply bind_ok in H. destruct H as [[] [_ H]].
    apply bind_ok in H. destruct H as [ep [_ H]].
    apply bind_ok in H. destruct H as [un [_ H]].
    apply bind_ok in H. destruct H as [[s1 total] [_ H]].
    apply bind_ok in H. destruct H as [ms [Hms H]]. inversion H; subst s' msgs; clear H.
    destruct total as [|c0 r0]; [inversion Hms; constructor|].
    apply bind_ok in Hms. destruct Hms as [agg [_ Hms]]. inversion Hms; subst. repeat constructor. apply plain_send_ok. exact Hs.
  - apply create_position_spec in H. destruct H as [-> _]. constructor.
  - apply expand_position_spec in H. destruct H as [-> _]. constructor.
  - apply close_position_spec in H. destruct H as (_ & -> & _). constructor.
  - exact (withdraw_msgs_sends w sender funds pid e s' msgs Hs Hok H).
  - apply bind_ok in H. destruct H as [[] [_ H]]. unfold fm_update_config in H.
    apply bind_ok in H. destruct H as [[] [_ H]].
    apply bind_ok in H. destruct H as [fc [_ H]].
    apply bind_ok in H. destruct H as [em [_ H]].
    apply bind_ok in H. destruct H as [pm [_ H]].
    apply bind_ok in H. destruct H as [mf [_ H]].
    apply bind_ok in H. destruct H as [maxu [_ H]].
    apply bind_ok in H. destruct H as [minu [_ H]].
    apply bind_ok in H. destruct H as [ex [_ H]].
    apply bind_ok in H. destruct H as [pen [_ H]]. inversion H; subst. constructor.
Qed.

(* EVERY transaction sent to the farm manager, as long as its payees (the fee collector, the farm owners) are not the pool
   manager itself, leaves the pool manager's surplus unchanged in every denom *)
Theorem any_fm_tx_excess w sender fm funds w' :
  sender <> PM -> fm_payees_ok (w_fm w) ->
  run_tx w sender FM (WFm fm) funds = Ok w' ->
  forall d, slackP w' d = slackP w d.
Proof.
  intros Hs Hok H. apply (fm_sends_tx_excess w sender fm funds w' Hs); [|exact H].
  intros wa s1 msgs Hsa Hx. apply (fm_refund_msgs wa sender funds fm s1 msgs Hs); [|exact Hx].
  destruct Hsa as (_ & _ & _ & _ & _ & _ & Hfma). rewrite Hfma. exact Hok.
Qed.
