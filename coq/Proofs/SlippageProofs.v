(* SlippageProofs.v — price protections (C13): assert_max_slippage, minimum_receive, deposit tolerance. *)
From MD.Model Require Import Base Ownable Epoch PoolMath Types PoolManager.
From MD.Proofs Require Import Tactics Arith PoolMathProofs MapLemmas SwapProofs.

Definition eff_tol (ms : option Z) : Z :=
  Z.min (match ms with Some s => s | None => DEFAULT_SLIPPAGE end) MAX_ALLOWED_SLIPPAGE.

Lemma eff_tol_cap ms : eff_tol ms <= PCT 50.
Proof. unfold eff_tol, MAX_ALLOWED_SLIPPAGE. lia. Qed.
Lemma eff_tol_default : eff_tol None = PCT 1.
Proof. reflexivity. Qed.

(* without a belief price: accepted iff floor(slippage*10^18/(return+slippage)) <= min(max_slippage or 1%, 50%) *)
Lemma max_slippage_accept_iff ms offer ret slip :
  0 <= ret -> 0 <= slip ->
  (assert_max_slippage None ms offer ret slip = Ok tt <->
   (0 < ret + slip <= U128_MAX /\ slip * DEC / (ret + slip) <= eff_tol ms /\ slip * DEC / (ret + slip) <= U256_MAX)).
Proof.
  intros Hr Hs. unfold assert_max_slippage. fold (eff_tol ms). unfold cadd, dec_from_ratio. split.
  - intros H. apply bind_ok in H. destruct H as [den [Hd H]]. apply chk_ok in Hd. destruct Hd as [-> Hd].
    apply bind_ok in H. destruct H as [ratio [Hra H]].
    destruct (ret + slip =? 0) eqn:E; [discriminate|].
    apply chk_ok in Hra. destruct Hra as [-> Hra]. apply ensure_ok in H. lia.
  - intros (H1 & H2 & H3). rewrite chk_ok_intro by lia. cbn [bind].
    replace (ret + slip =? 0) with false by lia.
    rewrite chk_ok_intro.
    + cbn [bind]. unfold ensure. replace (eff_tol ms <? slip * DEC / (ret + slip)) with false by lia. reflexivity.
    + split; [|lia]. apply Z.div_pos; [unfold DEC; nia | lia].
Qed.

(* within the valid range a larger tolerance never rejects what a smaller one accepts *)
Lemma max_slippage_monotone belief t1 t2 offer ret slip :
  t1 <= t2 ->
  assert_max_slippage belief (Some t1) offer ret slip = Ok tt ->
  assert_max_slippage belief (Some t2) offer ret slip = Ok tt.
Proof.
  intros Ht. unfold assert_max_slippage.
  assert (Hm : Z.min t1 MAX_ALLOWED_SLIPPAGE <= Z.min t2 MAX_ALLOWED_SLIPPAGE) by lia.
  set (m1 := Z.min t1 MAX_ALLOWED_SLIPPAGE) in *. set (m2 := Z.min t2 MAX_ALLOWED_SLIPPAGE) in *.
  destruct belief as [bp|].
  - intros H. apply bind_ok in H. destruct H as [oa [Hoa H]]. rewrite Hoa. cbn [bind].
    apply bind_ok in H. destruct H as [inv [Hinv H]]. rewrite Hinv. cbn [bind].
    apply bind_ok in H. destruct H as [e [He H]]. rewrite He. cbn [bind].
    destruct (ret <? dec_floor e); [|exact H].
    apply bind_ok in H. destruct H as [ratio [Hr H]]. rewrite Hr. cbn [bind].
    apply ensure_ok in H. unfold ensure. replace (m2 <? ratio) with false by lia. reflexivity.
  - intros H. apply bind_ok in H. destruct H as [den [Hd H]]. rewrite Hd. cbn [bind].
    apply bind_ok in H. destruct H as [ratio [Hr H]]. rewrite Hr. cbn [bind].
    apply ensure_ok in H. unfold ensure. replace (m2 <? ratio) with false by lia. reflexivity.
Qed.

(* with a belief price: expected = floor(offer * floor(10^36/belief) / 10^18); accepted iff
   return >= expected or floor((expected-return)*10^18/expected) <= tolerance *)
Lemma belief_price_accept_iff bp ms offer ret slip :
  0 <= offer -> 0 < bp -> 0 <= ret ->
  let expected := offer * (DEC * DEC / bp) / DEC in
  offer * DEC <= U256_MAX -> offer * DEC * (DEC * DEC / bp) / DEC <= U256_MAX ->
  (assert_max_slippage (Some bp) ms offer ret slip = Ok tt <->
   (expected <= ret \/ (ret < expected /\ (expected - ret) * DEC / expected <= eff_tol ms))).
Proof.
  intros Ho Hbp Hr expected Hb1 Hb2. unfold assert_max_slippage. fold (eff_tol ms).
  unfold dec_from_ratio, dec_inv, dec_mul, dec_floor, ssub.
  change (1 =? 0) with false. cbv iota. rewrite Z.div_1_r.
  pose proof DEC_pos as HD.
  assert (Hinvpos : 0 <= DEC * DEC / bp) by (apply Z.div_pos; nia).
  rewrite chk_ok_intro by nia. cbn [bind].
  replace (bp =? 0) with false by lia. cbn [of_option bind].
  rewrite mul_DEC_div in *.
  rewrite chk_ok_intro by (split; [nia | lia]). cbn [bind].
  fold expected.
  destruct (ret <? expected) eqn:E.
  - replace (Z.max 0 (expected - ret)) with (expected - ret) by lia.
    replace (expected =? 0) with false by lia.
    assert (Hq : 0 <= (expected - ret) * DEC / expected <= DEC).
    { split; [apply Z.div_pos; nia|]. apply Z.div_le_upper_bound; nia. }
    rewrite chk_ok_intro.
    + cbn [bind]. unfold ensure. destruct (eff_tol ms <? (expected - ret) * DEC / expected) eqn:E2; cbn [negb]; split; intros H.
      * discriminate.
      * destruct H as [H|H]; lia.
      * right; lia.
      * reflexivity.
    + pose proof U128_lt_U256. unfold DEC in *. unfold U128_MAX in *. lia.
  - split; intros _; [left; lia | reflexivity].
Qed.

(* a routed swap delivers at least minimum_receive or fails as a whole *)
Lemma minimum_receive_enforced w sender funds ops m receiver ms s' msgs :
  execute_swap_operations w sender funds ops (Some m) receiver ms = Ok (s', msgs) ->
  exists out fee_msgs lst, m <= amount_of out /\ last (map Some ops) None = Some lst /\
    msgs = ((if amount_of out =? 0 then []
             else [plain (MBankSend (addr_or_default w receiver sender) [(so_out lst, amount_of out)])]) ++ fee_msgs)%list.
Proof.
  intros H. apply exec_ops_spec in H.
  destruct H as (lst & f & amount & out & fee_msgs & Hl & _ & _ & _ & _ & Hm & ->).
  exists out, fee_msgs, lst. repeat split; auto.
Qed.

(* ---------- deposit tolerance, constant product ---------- *)
Definition cp_tol_ok (t d0 d1 p0 p1 : Z) : Prop :=
  (d0 * DEC / d1) * (DEC - t) / DEC <= p0 * DEC / p1 /\
  (d1 * DEC / d0) * (DEC - t) / DEC <= p1 * DEC / p0.

Lemma ratio_bound a b : 0 <= a <= U128_MAX -> 0 < b -> 0 <= a * DEC / b <= U256_MAX.
Proof.
  intros Ha Hb. pose proof DEC_pos. pose proof U128_DEC2_le_U256. split.
  - apply Z.div_pos; nia.
  - assert (a * DEC / b <= a * DEC) by (apply div_le_self; nia). nia.
Qed.

Lemma cp_deposit_tolerance_iff t c0 c1 q0 q1 :
  0 <= t <= DEC ->
  0 < amount_of c0 <= U128_MAX -> 0 < amount_of c1 <= U128_MAX ->
  0 < amount_of q0 <= U128_MAX -> 0 < amount_of q1 <= U128_MAX ->
  String.ltb (denom_of q0) (denom_of q1) = true ->
  (exists l, assert_slippage_tolerance (Some t) [c0; c1] [q0; q1] ConstantProduct = Ok l) <->
  cp_tol_ok t (amount_of c0) (amount_of c1) (amount_of q0) (amount_of q1).
Proof.
  intros Ht H0 H1 H2 H3 Hs. unfold assert_slippage_tolerance, cp_tol_ok.
  cbn [existsb]. replace (amount_of q0 =? 0) with false by lia. replace (amount_of q1 =? 0) with false by lia.
  cbn [orb]. unfold ensure. replace (t <=? DEC) with true by lia. cbn [bind].
  cbn [sort_by_denom fold_right sort_insert]. rewrite Hs. cbn [map].
  unfold dec_from_ratio, dec_mul.
  replace (amount_of c1 =? 0) with false by lia. replace (amount_of c0 =? 0) with false by lia.
  pose proof (ratio_bound (amount_of c0) (amount_of c1)) as B0.
  pose proof (ratio_bound (amount_of c1) (amount_of c0)) as B1.
  pose proof (ratio_bound (amount_of q0) (amount_of q1)) as B2.
  pose proof (ratio_bound (amount_of q1) (amount_of q0)) as B3.
  pose proof DEC_pos as HD.
  assert (M0 : 0 <= amount_of c0 * DEC / amount_of c1 * (DEC - t) / DEC <= U256_MAX).
  { split; [apply Z.div_pos; nia|].
    assert (amount_of c0 * DEC / amount_of c1 * (DEC - t) / DEC <= amount_of c0 * DEC / amount_of c1).
    { apply Z.div_le_upper_bound; nia. } lia. }
  assert (M1 : 0 <= amount_of c1 * DEC / amount_of c0 * (DEC - t) / DEC <= U256_MAX).
  { split; [apply Z.div_pos; nia|].
    assert (amount_of c1 * DEC / amount_of c0 * (DEC - t) / DEC <= amount_of c1 * DEC / amount_of c0).
    { apply Z.div_le_upper_bound; nia. } lia. }
  rewrite (chk_ok_intro _ (amount_of c0 * DEC / amount_of c1)) by lia. cbn [bind].
  rewrite (chk_ok_intro _ (amount_of c0 * DEC / amount_of c1 * (DEC - t) / DEC)) by lia. cbn [bind].
  replace (amount_of q1 =? 0) with false by lia.
  rewrite (chk_ok_intro _ (amount_of q0 * DEC / amount_of q1)) by lia. cbn [bind].
  destruct (amount_of q0 * DEC / amount_of q1 <? amount_of c0 * DEC / amount_of c1 * (DEC - t) / DEC) eqn:E1.
  - split; [intros [l H]; discriminate | intros [A _]; lia].
  - rewrite (chk_ok_intro _ (amount_of c1 * DEC / amount_of c0)) by lia. cbn [bind].
    rewrite (chk_ok_intro _ (amount_of c1 * DEC / amount_of c0 * (DEC - t) / DEC)) by lia. cbn [bind].
    replace (amount_of q0 =? 0) with false by lia.
    rewrite (chk_ok_intro _ (amount_of q1 * DEC / amount_of q0)) by lia. cbn [bind].
    destruct (amount_of q1 * DEC / amount_of q0 <? amount_of c1 * DEC / amount_of c0 * (DEC - t) / DEC) eqn:E2.
    + split; [intros [l H]; discriminate | intros [_ A]; lia].
    + split; [intros _; lia | intros _; eexists; reflexivity].
Qed.

(* tolerances above 1 are refused outright (whenever the pool is funded) *)
Lemma deposit_tolerance_gt_one_rejected t deps pa pt :
  DEC < t -> existsb (fun c => amount_of c =? 0) pa = false ->
  exists e, assert_slippage_tolerance (Some t) deps pa pt = Err e.
Proof.
  intros Ht He. unfold assert_slippage_tolerance. rewrite He. unfold ensure.
  replace (t <=? DEC) with false by lia. cbn [bind]. eauto.
Qed.

(* a larger valid tolerance never rejects what a smaller one accepts *)
Lemma cp_tol_monotone t1 t2 d0 d1 p0 p1 :
  0 <= d0 -> 0 < d1 -> 0 <= d1 -> 0 < d0 -> t1 <= t2 <= DEC ->
  cp_tol_ok t1 d0 d1 p0 p1 -> cp_tol_ok t2 d0 d1 p0 p1.
Proof.
  intros ? ? ? ? Ht [A B]. pose proof DEC_pos. unfold cp_tol_ok.
  assert (0 <= d0 * DEC / d1) by (apply Z.div_pos; nia).
  assert (0 <= d1 * DEC / d0) by (apply Z.div_pos; nia).
  split.
  - eapply Z.le_trans; [|exact A]. apply Z.div_le_mono; nia.
  - eapply Z.le_trans; [|exact B]. apply Z.div_le_mono; nia.
Qed.

(* a deposit in exact pool proportion is accepted under any valid tolerance *)
Lemma cp_exact_proportion_accepted t d0 d1 p0 p1 :
  0 <= t <= DEC -> 0 < d0 -> 0 < d1 -> 0 < p0 -> 0 < p1 ->
  d0 * p1 = d1 * p0 -> cp_tol_ok t d0 d1 p0 p1.
Proof.
  intros Ht ? ? ? ? Hprop. pose proof DEC_pos. unfold cp_tol_ok.
  assert (Hfl : forall a b c e, 0 < a -> 0 < b -> 0 < c -> 0 < e -> a * e = b * c -> a * DEC / b = c * DEC / e).
  { intros a b c e Ha Hb Hc He Hp.
    pose proof (Z.mod_pos_bound (c * DEC) e ltac:(lia)) as Hr.
    pose proof (Z.div_mod (c * DEC) e ltac:(lia)) as Hdm.
    set (q := c * DEC / e) in *. set (r := (c * DEC) mod e) in *.
    assert (Hk : (a * DEC - b * q) * e = b * r) by nia.
    assert (Hrange : 0 <= a * DEC - b * q < b).
    { generalize dependent (a * DEC - b * q). intros r' Hk. clear Hdm Hp. nia. }
    symmetry. apply Z.div_unique with (r := a * DEC - b * q); [left; exact Hrange | lia]. }
  assert (E0 : d0 * DEC / d1 = p0 * DEC / p1) by (apply Hfl; lia).
  assert (E1 : d1 * DEC / d0 = p1 * DEC / p0) by (apply Hfl; lia).
  rewrite E0, E1. split; apply Z.div_le_upper_bound; try lia.
  - assert (0 <= p0 * DEC / p1) by (apply Z.div_pos; nia). nia.
  - assert (0 <= p1 * DEC / p0) by (apply Z.div_pos; nia). nia.
Qed.
