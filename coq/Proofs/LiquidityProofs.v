(* LiquidityProofs.v — deposits and withdrawals never dilute (C02), constant-product arithmetic and the
   provide/withdraw handlers' LP accounting. *)
From MD.Model Require Import Base Ownable Epoch PoolMath Types PoolManager.
From MD.Proofs Require Import Tactics Arith PoolMathProofs MapLemmas SwapProofs PmProofs.

(* ---------- constant product: minting ---------- *)
(* LP minted for a deposit (a, b) into reserves (x, y) with supply S: min(floor(a*S/x), floor(b*S/y)) *)
Definition cp_mint (a b x y S : Z) : Z := Z.min (a * S / x) (b * S / y).

(* never more than the depositor's proportional contribution in either asset *)
Lemma cp_mint_le_share a b x y S :
  0 < x -> 0 < y -> 0 <= a -> 0 <= b -> 0 <= S ->
  cp_mint a b x y S * x <= a * S /\ cp_mint a b x y S * y <= b * S.
Proof.
  intros. unfold cp_mint.
  pose proof (Z.mul_div_le (a * S) x ltac:(lia)). pose proof (Z.mul_div_le (b * S) y ltac:(lia)).
  assert (0 <= a * S / x) by (apply Z.div_pos; nia). assert (0 <= b * S / y) by (apply Z.div_pos; nia).
  split; nia.
Qed.

(* hence value per LP token never decreases through a deposit: x*y/S^2 <= (x+a)(y+b)/(S+m)^2 *)
Lemma cp_deposit_value_per_lp a b x y S m :
  0 < x -> 0 < y -> 0 <= a -> 0 <= b -> 0 < S -> 0 <= m ->
  m * x <= a * S -> m * y <= b * S ->
  x * y * ((S + m) * (S + m)) <= (x + a) * (y + b) * (S * S).
Proof.
  intros Hx Hy Ha Hb HS Hm H1 H2.
  assert (A : (S + m) * x <= (x + a) * S) by nia.
  assert (B : (S + m) * y <= (y + b) * S) by nia.
  assert (0 <= (S + m) * x) by nia. assert (0 <= (S + m) * y) by nia.
  assert (((S + m) * x) * ((S + m) * y) <= ((x + a) * S) * ((y + b) * S)) by (apply Z.mul_le_mono_nonneg; lia).
  nia.
Qed.

(* first deposit: isqrt(a*b) total, MINIMUM_LIQUIDITY of it locked in the pool manager, the rest to the user *)
Lemma cp_first_deposit_value a b : 0 <= a -> 0 <= b -> Z.sqrt (a * b) * Z.sqrt (a * b) <= a * b.
Proof. intros. apply Z.sqrt_spec. nia. Qed.

(* ---------- withdrawals ---------- *)
(* refund of one asset: floor(reserve * amount / supply)  (exact pro-rata share, rounded down) *)
Definition withdraw_refund (reserve amount supply : Z) : Z := reserve * amount / supply.

Lemma withdraw_refund_upper r a S : 0 <= r -> 0 <= a -> 0 < S -> withdraw_refund r a S * S <= r * a.
Proof. intros. unfold withdraw_refund. rewrite Z.mul_comm. apply Z.mul_div_le. lia. Qed.

(* at least pro-rata minus one smallest unit *)
Lemma withdraw_refund_lower r a S : 0 <= r -> 0 <= a -> 0 < S -> r * a < (withdraw_refund r a S + 1) * S.
Proof.
  intros. unfold withdraw_refund.
  pose proof (Z.mod_pos_bound (r * a) S ltac:(lia)). pose proof (Z.div_mod (r * a) S ltac:(lia)). nia.
Qed.

(* a holder can redeem any LP amount worth at least one unit of some asset *)
Lemma withdraw_refund_positive r a S : 0 < S -> S <= r * a -> 0 < withdraw_refund r a S.
Proof. intros HS H. unfold withdraw_refund. apply Z.div_str_pos. lia. Qed.

(* ---------- withdraw_liquidity: exactly what is paid and burned ---------- *)
Lemma withdraw_spec w sender funds pid s' msgs :
  withdraw_liquidity w sender funds pid = Ok (s', msgs) ->
  exists p amount total refunds_all,
    pool_find (w_pm w) pid = Ok p /\ withdrawals_enabled (p_status p) = true /\
    must_pay funds (p_lp p) = Ok amount /\ total_share w (p_lp p) = Ok total /\ total <> 0 /\
    amount * DEC / total <= DEC /\
    refunds_all = map (fun a => (denom_of a, withdraw_refund (amount_of a) amount total)) (p_assets p) /\
    msgs = [plain (MBankSend sender (filter (fun c => 0 <? amount_of c) refunds_all)); plain (MTfBurn (p_lp p, amount))] /\
    exists a', s' = pm_save_pool (w_pm w) (pool_with_assets p a').
Proof.
  unfold withdraw_liquidity. intros H.
  apply bind_ok in H. destruct H as [p [Hp H]].
  apply bind_ok in H. destruct H as [[] [He H]]. apply ensure_ok in He.
  apply bind_ok in H. destruct H as [amount [Ham H]].
  apply bind_ok in H. destruct H as [total [Ht H]].
  apply bind_ok in H. destruct H as [ratio [Hr H]].
  unfold dec_from_ratio in Hr. destruct (total =? 0) eqn:E0; [discriminate|]. apply chk_ok in Hr. destruct Hr as [-> _].
  apply bind_ok in H. destruct H as [[] [Hle H]]. apply ensure_ok in Hle.
  apply bind_ok in H. destruct H as [refunds_all [Hra H]].
  apply bind_ok in H. destruct H as [assets' [_ H]].
  apply bind_ok in H. destruct H as [bm [Hbm H]]. inversion H; subst s' msgs; clear H.
  unfold burn_lp_msg in Hbm. apply bind_ok in Hbm. destruct Hbm as [[] [_ Hbm]]. inversion Hbm; subst bm.
  exists p, amount, total, refunds_all. repeat split; auto; try lia.
  - clear - Hra E0. revert refunds_all Hra. induction (p_assets p) as [|a r IH]; intros ra Hra; cbn [mapM map] in *.
    + inversion Hra; reflexivity.
    + apply bind_ok in Hra. destruct Hra as [y [Hy Hra]].
      apply bind_ok in Hra. destruct Hra as [ys [Hys Hra]]. inversion Hra; subst ra.
      rewrite (IH _ Hys). f_equal.
      apply bind_ok in Hy. destruct Hy as [rr [Hrr Hy]]. unfold mul_ratio in Hrr. rewrite E0 in Hrr.
      apply chk_ok in Hrr. destruct Hrr as [-> _]. inversion Hy; subst. reflexivity.
  - eexists; reflexivity.
Qed.

(* ---------- LP tokens are minted only by deposits and burned only by withdrawals ---------- *)
Definition is_tf_mint (m : submsg) : bool := match sm_msg m with MTfMint _ _ => true | _ => false end.
Definition is_tf_burn (m : submsg) : bool := match sm_msg m with MTfBurn _ => true | _ => false end.
Definition no_mint_burn (l : list submsg) : Prop := Forall (fun m => is_tf_mint m = false /\ is_tf_burn m = false) l.

Lemma no_mint_burn_app a b : no_mint_burn a -> no_mint_burn b -> no_mint_burn (a ++ b).
Proof. intros. apply Forall_app; auto. Qed.

Lemma swap_fee_msgs_nmb cfg ask sc : no_mint_burn (swap_fee_msgs cfg ask sc).
Proof.
  unfold swap_fee_msgs. apply no_mint_burn_app; [destruct (sc_burn_fee sc =? 0) | destruct (sc_protocol_fee sc =? 0)];
    repeat constructor.
Qed.

Lemma route_loop_nmb ops : forall s prev ms fm s' out fms,
  no_mint_burn fm -> route_loop s prev ops ms fm = Ok (s', out, fms) -> no_mint_burn fms.
Proof.
  induction ops as [|o r IH]; intros s prev ms fm s' out fms Hf H.
  - cbn in H. inversion H; subst. exact Hf.
  - apply route_loop_cons in H. destruct H as (s1 & sc & _ & H).
    eapply IH; [|exact H]. apply no_mint_burn_app; [exact Hf | apply swap_fee_msgs_nmb].
Qed.

Lemma pm_mint_burn_only_liquidity w sender funds m s' msgs :
  pm_execute w sender funds m = Ok (s', msgs) ->
  match m with
  | PmProvide _ _ _ _ _ _ => Forall (fun x => is_tf_burn x = false) msgs
  | PmWithdraw _ => Forall (fun x => is_tf_mint x = false) msgs
  | _ => no_mint_burn msgs
  end.
Proof.
  destruct m as [denoms decimals fees pt oid | ls ss r pid u l | ask bp ms r pid | pid | a | ops mr r ms | fc fm fee t];
    cbn [pm_execute]; intros H.
  - apply create_pool_checks in H. cbv zeta in H. destruct H as (_ & _ & _ & _ & _ & _ & _ & _ & ->).
    apply no_mint_burn_app; [destruct (_ =? 0)|]; repeat constructor.
  - unfold provide_liquidity, mint_lp_msg in H.
    apply bind_ok in H. destruct H as [p [Hp H]].
    apply bind_ok in H. destruct H as [[] [He H]].
    apply bind_ok in H. destruct H as [deps [Hd H]].
    apply bind_ok in H. destruct H as [[] [Hne H]].
    apply bind_ok in H. destruct H as [[] [_ H]].
    destruct deps as [|d0 [|d1 rest]].
    + cbn in Hne. discriminate.
    + inv_all; repeat constructor.
    + inv_all; repeat (apply Forall_app; split); repeat constructor.
  - apply swap_spec in H. destruct H as (p & offer & sc & _ & _ & _ & _ & _ & ->).
    apply no_mint_burn_app; [destruct (_ =? 0); repeat constructor | apply swap_fee_msgs_nmb].
  - apply withdraw_spec in H. destruct H as (p & amount & total & ra & _ & _ & _ & _ & _ & _ & _ & -> & _). repeat constructor.
  - inv_all. constructor.
  - apply exec_ops_spec in H. destruct H as (lst & f & amount & out & fee_msgs & _ & _ & _ & _ & Hr & _ & ->).
    apply no_mint_burn_app; [destruct (_ =? 0); repeat constructor|]. eapply route_loop_nmb; [|exact Hr]. constructor.
  - apply bind_ok in H. destruct H as [[] [_ H]]. apply update_config_shape in H. destruct H as (_ & -> & _). constructor.
Qed.

(* ---------- provide_liquidity (two or more assets): every deposited coin is added to its reserve ---------- *)
Definition add_deposits (deposits assets : list coin) : res (list coin) :=
  foldM (fun acc d =>
           let* i := of_option (index_of_denom (denom_of d) acc) "AssetMismatch" in
           let* pa := nth_coin i acc in
           let* v := cadd U128_MAX (amount_of pa) (amount_of d) in
           Ok (set_nth i (denom_of pa, v) acc)) deposits assets.

Lemma provide_multi_spec w sender funds ls ss r pid u l s' msgs d0 d1 rest :
  aggregate_coins funds = Ok (d0 :: d1 :: rest) ->
  provide_liquidity w sender funds ls ss r pid u l = Ok (s', msgs) ->
  exists p pa' assets'',
    pool_find (w_pm w) pid = Ok p /\ deposits_enabled (p_status p) = true /\
    forallb (fun c => has_denom (p_assets p) (denom_of c)) (d0 :: d1 :: rest) = true /\
    assert_slippage_tolerance ls (d0 :: d1 :: rest) (p_assets p) (p_type p) = Ok pa' /\
    add_deposits (d0 :: d1 :: rest) pa' = Ok assets'' /\
    s' = pm_save_pool (w_pm w) (pool_with_assets p assets'') /\
    (* nothing leaves the pool manager except freshly minted LP (to the receiver, or via itself to the farm manager) *)
    Forall (fun m => match sm_msg m with
                     | MTfMint _ _ => True
                     | MWasm t (WFm (FmPosCreate _ _ _)) fs | MWasm t (WFm (FmPosExpand _)) fs =>
                         t = pm_farm_manager (pm_cfg (w_pm w)) /\ exists shares, fs = [(p_lp p, shares)]
                     | _ => False end) msgs.
Proof.
  intros Ha. unfold provide_liquidity, mint_lp_msg. intros H.
  apply bind_ok in H. destruct H as [p [Hp H]].
  apply bind_ok in H. destruct H as [[] [He H]]. apply ensure_ok in He.
  rewrite Ha in H. cbn [bind] in H.
  apply bind_ok in H. destruct H as [[] [_ H]].
  apply bind_ok in H. destruct H as [[] [Hall H]]. apply ensure_ok in Hall.
  apply bind_ok in H. destruct H as [ts [_ H]].
  apply bind_ok in H. destruct H as [[shares msgs0] [Hm0 H]].
  apply bind_ok in H. destruct H as [pa' [Hpa H]].
  apply bind_ok in H. destruct H as [msgs1 [Hm1 H]].
  apply bind_ok in H. destruct H as [assets'' [Hadd H]]. inversion H; subst s' msgs; clear H.
  exists p, pa', assets''. repeat split; auto.
  apply Forall_app. split.
  - clear Hm1. destruct (p_type p); inv_all; repeat constructor; cbn; auto.
  - destruct u as [dur|].
    + apply bind_ok in Hm1. destruct Hm1 as [[] [_ Hm1]].
      apply bind_ok in Hm1. destruct Hm1 as [m [Hmint Hm1]].
      apply bind_ok in Hmint. destruct Hmint as [[] [_ Hmint]]. inversion Hmint; subst m; clear Hmint.
      destruct l as [lid|].
      * destruct (q_position w (pm_farm_manager (pm_cfg (w_pm w))) lid) as [pos|e].
        -- apply bind_ok in Hm1. destruct Hm1 as [[] [_ Hm1]]. inversion Hm1; subst.
           constructor; [cbn; exact I|]. constructor; [cbn; split; [reflexivity | eexists; reflexivity]|]. constructor.
        -- inversion Hm1; subst. constructor; [cbn; exact I|]. constructor; [cbn; split; [reflexivity | eexists; reflexivity]|]. constructor.
      * inversion Hm1; subst. constructor; [cbn; exact I|]. constructor; [cbn; split; [reflexivity | eexists; reflexivity]|]. constructor.
    + inv_all; repeat constructor; cbn; auto.
Qed.
