(* C19: what a converged y-iteration guarantees. The swap path solves y^2 + (b - D) y - c = 0 by the integer Newton step
   y' = floor((y^2 + c) / (2y + b - D)) and stops when two iterates differ by at most one unit. Whatever it returns then
   satisfies the quadratic up to two Newton corrections: with g(t) = t^2 + (b - D) t - c and g'(t) = 2t + b - D,
   the last iterate t before the returned value has  -2 g'(t) < g(t) <= g'(t).  The inaccuracy of the quoted output therefore
   comes from the coefficients (the Decimal-threshold D of finding F-ss-D, the floors in c and b), not from this iteration. *)
From Coq Require Import ZArith List String Lia Bool.
From MD.Model Require Import Base PoolMath Types.
From MD.Proofs Require Import Tactics Arith PoolMathProofs StableProofs.
Import ListNotations.
Open Scope Z_scope.

Lemma newton_step_residual t c b d den y :
  den = 2 * t + b - d -> 0 < den -> y = (t * t + c) / den -> Z.abs (y - t) <= 1 ->
  - 2 * den < t * t + (b - d) * t - c <= den.
Proof.
  intros Hden Hpos Hy Habs.
  pose proof (Z.div_mod (t * t + c) den ltac:(lia)) as Hdm. pose proof (Z.mod_pos_bound (t * t + c) den Hpos) as Hr.
  rewrite <- Hy in Hdm.
  assert (Hg : t * t + (b - d) * t - c = (t - y) * den - (t * t + c) mod den) by (subst den; nia).
  rewrite Hg. assert (Hc : t - y = -1 \/ t - y = 0 \/ t - y = 1) by lia.
  destruct Hc as [Hc|[Hc|Hc]]; rewrite Hc; lia.
Qed.

(* the y-iteration as a function of its coefficients *)
Definition y_step (c b d y : Z) : res Z :=
  let* yy := cmul U512_MAX y y in
  let* num := cadd U512_MAX yy c in
  let* y2 := cadd U512_MAX y y in
  let* y2b := cadd U512_MAX y2 b in
  let* den := csub U512_MAX y2b d in
  cdiv num den.

Theorem y_iteration_accuracy c b d start y :
  newton NEWTON_ITERATIONS (y_step c b d) 1 start = Ok y ->
  exists t, Z.abs (y - t) <= 1 /\ 0 < 2 * t + b - d /\
            y = (t * t + c) / (2 * t + b - d) /\
            - 2 * (2 * t + b - d) < t * t + (b - d) * t - c <= 2 * t + b - d.
Proof.
  intros H. destruct (newton_ok_converged _ _ _ _ _ H) as (t & Hf & Habs).
  unfold y_step in Hf.
  apply bind_ok in Hf. destruct Hf as [yy [Hyy Hf]]. unfold cmul in Hyy. apply chk_ok in Hyy. destruct Hyy as [-> _].
  apply bind_ok in Hf. destruct Hf as [num [Hnum Hf]]. unfold cadd in Hnum. apply chk_ok in Hnum. destruct Hnum as [-> _].
  apply bind_ok in Hf. destruct Hf as [y2 [Hy2 Hf]]. unfold cadd in Hy2. apply chk_ok in Hy2. destruct Hy2 as [-> _].
  apply bind_ok in Hf. destruct Hf as [y2b [Hy2b Hf]]. unfold cadd in Hy2b. apply chk_ok in Hy2b. destruct Hy2b as [-> _].
  apply bind_ok in Hf. destruct Hf as [den [Hden Hf]]. unfold csub in Hden. apply chk_ok in Hden. destruct Hden as [-> Hdr].
  apply cdiv_ok in Hf. destruct Hf as [Hne Hy].
  assert (Hpos : 0 < 2 * t + b - d) by lia.
  replace (t + t + b - d) with (2 * t + b - d) in Hy by lia.
  exists t. split; [exact Habs|]. split; [exact Hpos|]. split; [exact Hy|].
  apply (newton_step_residual t c b d (2 * t + b - d) y eq_refl Hpos Hy Habs).
Qed.

(* the swap path: the y returned by calculate_stableswap_y, for the D and the coefficients b, c the code computed *)
Theorem stableswap_y_accuracy p offer ask apa oa amp dir y :
  stableswap_y p offer ask apa oa amp dir = Ok y ->
  exists d_dec d c b t,
    stableswap_d p (Z.of_nat (List.length (p_assets p))) amp = Ok d_dec /\
    to_uint_with_precision d_dec (maxZ_list (p_decimals p)) = Ok d /\
    Z.abs (y - t) <= 1 /\ 0 < 2 * t + b - d /\
    y = (t * t + c) / (2 * t + b - d) /\
    - 2 * (2 * t + b - d) < t * t + (b - d) * t - c <= 2 * t + b - d.
Proof.
  unfold stableswap_y. intros H.
  apply bind_ok in H. destruct H as [ann [_ H]].
  apply bind_ok in H. destruct H as [[] [_ H]].
  apply bind_ok in H. destruct H as [d_dec [Hd H]].
  apply bind_ok in H. destruct H as [d [Hdd H]].
  apply bind_ok in H. destruct H as [xs [_ H]].
  apply bind_ok in H. destruct H as [pool_sum [_ H]].
  apply bind_ok in H. destruct H as [c0 [_ H]].
  apply bind_ok in H. destruct H as [ann_n [_ H]].
  apply bind_ok in H. destruct H as [c1 [_ H]].
  apply bind_ok in H. destruct H as [c [_ H]].
  apply bind_ok in H. destruct H as [dq [_ H]].
  apply bind_ok in H. destruct H as [b [_ H]].
  apply bind_ok in H. destruct H as [y0 [Hn H]]. apply chk_ok in H. destruct H as [-> _].
  change (newton NEWTON_ITERATIONS (y_step c b d) 1 d = Ok y0) in Hn.
  destruct (y_iteration_accuracy _ _ _ _ _ Hn) as (t & A & B & C & D).
  exists d_dec, d, c, b, t. repeat split; auto; lia.
Qed.
