(* C11, the concurrency limit over ALL histories: in every reachable world, for every LP denom, the number of stored farms
   (hence of unexpired ones) is at most the configured max_concurrent_farms — provided that limit is <= 100 (MAX_FARMS_LIMIT,
   the page-size clamp of the farm query: above it the count the contract sees is truncated, finding F-clamp). *)
From Coq Require Import ZArith List String Lia Bool.
From MD.Model Require Import Base Ownable Epoch Types PoolMath PoolManager FarmManager Chain.
From MD.Proofs Require Import Tactics Arith PoolMathProofs MapLemmas BankProofs ChainProofs FarmProofs FarmChainProofs FarmCustody FarmCustodyChain.
Import ListNotations.
Open Scope Z_scope.

Definition is_lp (lp : string) (f : farm) : Z := ind (String.eqb (f_lp f) lp) 1.
Definition cnt (s : fm_state) (lp : string) : Z := ssum (is_lp lp) (fm_farms s).
Definition FL (s : fm_state) : Prop :=
  fm_max_farms (fm_cfg s) <= MAX_FARMS_LIMIT -> forall lp, cnt s lp <= fm_max_farms (fm_cfg s).

Lemma is_lp_range lp f : 0 <= is_lp lp f <= 1.
Proof. unfold is_lp, ind. destruct (String.eqb _ _); lia. Qed.

Lemma ssum_app {A} (g : A -> Z) a b : ssum g (a ++ b) = ssum g a + ssum g b.
Proof. induction a as [|x r IH]; cbn; [lia | rewrite IH; lia]. Qed.

Lemma ssum_is_lp_nonneg lp l : 0 <= ssum (is_lp lp) l.
Proof. apply (ssum_nonneg f_id). intros x _. apply is_lp_range. Qed.

Lemma ssum_is_lp_le_len lp l : ssum (is_lp lp) l <= Z.of_nat (List.length l).
Proof. induction l as [|x r IH]; cbn [ssum List.length]; [lia|]. pose proof (is_lp_range lp x). lia. Qed.

(* the count is the number of stored farms of that LP denom *)
Lemma cnt_is_length s lp : cnt s lp = Z.of_nat (List.length (filter (fun f => String.eqb (f_lp f) lp) (fm_farms s))).
Proof.
  unfold cnt. induction (fm_farms s) as [|x r IH]; cbn [ssum filter]; [reflexivity|].
  unfold is_lp at 1, ind. destruct (String.eqb (f_lp x) lp); cbn [List.length]; lia.
Qed.

Lemma take_all {A} n (l : list A) : (List.length l <= n)%nat -> take n l = l.
Proof. revert l. induction n as [|n IH]; intros l H; destruct l; cbn in *; try reflexivity; [lia|]. f_equal. apply IH. lia. Qed.

Lemma partition_ssum (g : farm -> Z) w cfg l : forall e0 l0 e lv,
  foldM (fun acc f => let* ex := unwrap_or (is_farm_expired w cfg f) false in
                      Ok (if ex then ((fst acc ++ [f])%list, snd acc) else (fst acc, (snd acc ++ [f])%list))) l (e0, l0) = Ok (e, lv) ->
  ssum g e + ssum g lv = ssum g e0 + ssum g l0 + ssum g l.
Proof.
  induction l as [|y ys IH]; intros e0 l0 e lv H; cbn [foldM] in H.
  - inversion H; subst. cbn. lia.
  - apply bind_ok in H. destruct H as [acc' [Hs H]]. apply bind_ok in Hs. destruct Hs as [ex [_ Hs]]. inversion Hs; subst acc'; clear Hs.
    cbn [fst snd] in H. destruct ex; apply IH in H; rewrite H, ssum_app; cbn [ssum]; lia.
Qed.

Lemma close_farms_ssum (g : farm -> Z) fs : forall s acc,
  NoDup (map f_id (fm_farms s)) -> (forall f, In f fs -> In f (fm_farms s)) -> NoDup (map f_id fs) ->
  let r := fold_left (fun acc f =>
               let s0 := fst acc in
               let rem := ssub (amount_of (f_asset f)) (f_claimed f) in
               (fm_set_farms s0 (sremove f_id (f_id f) (fm_farms s0)),
                if 0 <? rem then
                  (snd acc ++ [{| sm_msg := MBankSend (f_owner f) [(denom_of (f_asset f), rem)];
                                  sm_id := CLOSE_FARMS_ERR_REPLY_CODE; sm_reply := RError |}])%list
                else snd acc)) fs (s, acc) in
  ssum g (fm_farms (fst r)) = ssum g (fm_farms s) - ssum g fs.
Proof.
  induction fs as [|f rest IH]; intros s acc Hnd Hin Hndf; cbn [fold_left].
  - cbn. lia.
  - cbv zeta in IH.
    set (s1 := fm_set_farms s (sremove f_id (f_id f) (fm_farms s))).
    match goal with |- context [fold_left _ rest (?a, ?b)] => change a with s1; set (acc1 := b) end.
    inversion Hndf as [|x xs Hnotin Hndr]; subst.
    assert (Hf : sfind f_id (f_id f) (fm_farms s) = Some f) by (apply NoDup_in_sfind; [exact Hnd | apply Hin; left; reflexivity]).
    assert (Hnd1 : NoDup (map f_id (fm_farms s1))) by (unfold s1; cbn; apply NoDup_sremove; exact Hnd).
    assert (Hin1 : forall h, In h rest -> In h (fm_farms s1)).
    { intros h Hh. unfold s1; cbn. apply in_sremove_other; [apply Hin; right; exact Hh|].
      intros C. apply Hnotin. rewrite <- C. apply in_map. exact Hh. }
    rewrite (IH s1 acc1 Hnd1 Hin1 Hndr).
    unfold s1; cbn [fm_set_farms fm_with fm_farms ssum]. rewrite ssum_sremove, Hf. lia.
Qed.

Lemma in_filter_lp lp (l : list farm) f : In f (filter (fun f => String.eqb (f_lp f) lp) l) -> is_lp lp f = 1.
Proof. intros H. apply filter_In in H. destruct H as [_ H]. unfold is_lp, ind. rewrite H. reflexivity. Qed.

Lemma ssum_is_lp_other lp lp' (l : list farm) :
  String.eqb lp lp' = false -> (forall f, In f l -> String.eqb (f_lp f) lp = true) -> ssum (is_lp lp') l = 0.
Proof.
  intros Hne H. induction l as [|x r IH]; cbn [ssum]; [reflexivity|].
  rewrite IH by (intros f Hf; apply H; right; exact Hf).
  specialize (H x (or_introl eq_refl)). apply String.eqb_eq in H. unfold is_lp, ind. rewrite H, Hne. reflexivity.
Qed.

(* creating a farm: the expired farms of that LP denom are swept first, and the live ones must be below the limit *)
Lemma create_farm_limit w sender funds p s' msgs :
  NoDup (map f_id (fm_farms (w_fm w))) ->
  create_farm w sender funds p = Ok (s', msgs) -> FL (w_fm w) -> FL s'.
Proof.
  intros Hnd H HFL. unfold create_farm in H.
  apply bind_ok in H. destruct H as [[] [_ H]].
  apply bind_ok in H. destruct H as [ep [Hep H]].
  apply bind_ok in H. destruct H as [[expired live] [Hpart H]].
  destruct (farms_by_lp_sub (w_fm w) (fp_lp p) (fm_max_farms (fm_cfg (w_fm w)))) as [Hsub Hsubnd].
  destruct (partition_nodup _ _ _ _ _ _ _ Hpart (Hsubnd Hnd) (NoDup_nil _) (fun x Hx => match Hx with end)) as [Hend Hein].
  assert (Hexp_in : forall f, In f expired -> In f (fm_farms (w_fm w))).
  { intros f Hf. destruct (Hein f Hf) as [[]|Hi]. apply Hsub. exact Hi. }
  assert (Hexp_lp : forall f, In f expired -> String.eqb (f_lp f) (fp_lp p) = true).
  { intros f Hf. destruct (Hein f Hf) as [[]|Hi]. unfold farms_by_lp in Hi. apply in_take in Hi. apply filter_In in Hi. tauto. }
  pose proof (fun g => close_farms_ssum g expired (w_fm w) [] Hnd Hexp_in Hend) as Hcs. cbv zeta in Hcs.
  fold (close_farms (w_fm w) expired) in Hcs.
  pose proof (close_farms_tables expired (w_fm w) []) as Hcf. cbv zeta in Hcf. fold (close_farms (w_fm w) expired) in Hcf.
  destruct Hcf as (A1 & A2 & A3 & A4 & A5 & A6 & A7 & _).
  destruct (close_farms (w_fm w) expired) as [s1 submsgs] eqn:Ecf. cbn [fst snd] in *.
  apply bind_ok in H. destruct H as [[] [Hlim H]]. apply ensure_ok in Hlim.
  apply bind_ok in H. destruct H as [[] [Hmin H]].
  apply bind_ok in H. destruct H as [fmsgs [Hfeem H]].
  apply bind_ok in H. destruct H as [[] [Hasset H]].
  apply bind_ok in H. destruct H as [[st en] [Hep2 H]].
  apply bind_ok in H. destruct H as [[identifier s2] [Hid H]].
  apply bind_ok in H. destruct H as [[] [_ H]].
  apply bind_ok in H. destruct H as [[] [Hfr H]]. apply ensure_ok in Hfr.
  apply bind_ok in H. destruct H as [rate [_ H]]. inversion H; subst s' msgs; clear H.
  assert (Hs2 : fm_farms s2 = fm_farms s1 /\ fm_cfg s2 = fm_cfg s1).
  { destruct (fp_id p); [inversion Hid; subst; auto|].
    apply bind_ok in Hid. destruct Hid as [c [_ Hid]]. inversion Hid; subst. auto. }
  destruct Hs2 as [S1 S2].
  assert (Hfresh : sfind f_id identifier (fm_farms s1) = None).
  { rewrite <- S1. destruct (sfind f_id identifier (fm_farms s2)); [discriminate | reflexivity]. }
  unfold FL. cbn [fm_set_farms fm_with fm_cfg]. rewrite S2, A2. intros Hmax lp'.
  unfold cnt. cbn [fm_set_farms fm_with fm_farms]. rewrite S1, ssum_sinsert. cbn [f_id]. rewrite Hfresh, Hcs.
  specialize (HFL Hmax).
  unfold is_lp at 3, ind. cbn [f_lp].
  destruct (String.eqb (fp_lp p) lp') eqn:Elp.
  - apply String.eqb_eq in Elp. subst lp'.
    (* the query was not truncated: it returned every farm of this LP denom *)
    assert (Hall : farms_by_lp (w_fm w) (fp_lp p) (fm_max_farms (fm_cfg (w_fm w)))
                   = filter (fun f => String.eqb (f_lp f) (fp_lp p)) (fm_farms (w_fm w))).
    { unfold farms_by_lp. apply take_all. pose proof (HFL (fp_lp p)) as Hc. rewrite cnt_is_length in Hc.
      unfold MAX_FARMS_LIMIT in *. lia. }
    rewrite Hall in Hpart.
    pose proof (partition_ssum (is_lp (fp_lp p)) _ _ _ _ _ _ _ Hpart) as Hps. cbn [ssum] in Hps.
    assert (Hflt : ssum (is_lp (fp_lp p)) (filter (fun f => String.eqb (f_lp f) (fp_lp p)) (fm_farms (w_fm w))) = cnt (w_fm w) (fp_lp p)).
    { rewrite cnt_is_length. generalize (fm_farms (w_fm w)). intros l. induction l as [|x r IH]; cbn [filter ssum List.length]; [reflexivity|].
      destruct (String.eqb (f_lp x) (fp_lp p)) eqn:E; [|exact IH]. cbn [ssum List.length]. unfold is_lp at 1, ind. rewrite E. lia. }
    pose proof (ssum_is_lp_le_len (fp_lp p) live). fold (cnt (w_fm w) (fp_lp p)). lia.
  - rewrite (ssum_is_lp_other (fp_lp p) lp' expired Elp Hexp_lp). specialize (HFL lp'). unfold cnt in HFL. lia.
Qed.

(* a claim only rewrites the claimed amounts of farms: identifiers and LP denoms, hence counts, stay *)
Lemma claim_update_cnt lp ms : forall fs fs',
  foldM (fun fs m =>
           let* f := of_option (sfind f_id (fst m) fs) "panic: unwrap on None" in
           let* c := cadd U128_MAX (f_claimed f) (snd m) in
           let* _ := ensure (c <=? amount_of (f_asset f)) "FarmExhausted" in
           Ok (sinsert f_id {| f_id := f_id f; f_owner := f_owner f; f_lp := f_lp f; f_asset := f_asset f;
                               f_claimed := c; f_rate := f_rate f; f_start := f_start f; f_end := f_end f |} fs))
        ms fs = Ok fs' ->
  ssum (is_lp lp) fs' = ssum (is_lp lp) fs.
Proof.
  induction ms as [|m rest IH]; intros fs fs' H; cbn [foldM] in H.
  - inversion H; subst. reflexivity.
  - apply bind_ok in H. destruct H as [fs1 [H1 H]].
    apply bind_ok in H1. destruct H1 as [f [Hf H1]]. apply of_option_ok in Hf.
    apply bind_ok in H1. destruct H1 as [c [_ H1]].
    apply bind_ok in H1. destruct H1 as [[] [_ H1]]. inversion H1; subst fs1; clear H1.
    rewrite (IH _ _ H), ssum_sinsert. cbn [f_id]. rewrite (sfind_key _ _ _ _ Hf), Hf. unfold is_lp. cbn [f_lp]. lia.
Qed.

Lemma claim_limit w sender funds until s' msgs :
  claim w sender funds until = Ok (s', msgs) -> FL (w_fm w) -> FL s'.
Proof.
  intros H HFL. pose proof (claim_tables _ _ _ _ _ _ H) as (-> & _ & Hcfg & _).
  unfold claim in H. cbn [nonpayable bind] in H.
  apply bind_ok in H. destruct H as [[] [_ H]].
  apply bind_ok in H. destruct H as [ep [_ H]].
  apply bind_ok in H. destruct H as [u [_ H]].
  apply bind_ok in H. destruct H as [[s1 total] [Hf H]].
  apply bind_ok in H. destruct H as [ms [Hms H]]. inversion H; subst s' msgs; clear H.
  assert (HP : forall lp, cnt s1 lp = cnt (w_fm w) lp).
  { intros lp.
    set (P := fun acc : fm_state * list coin => cnt (fst acc) lp = cnt (w_fm w) lp).
    change (P (s1, total)).
    eapply (foldM_inv P); [| |exact Hf].
    - intros acc lp0 acc' _ Hstep Hacc. unfold P in *. cbv beta in Hstep.
      apply bind_ok in Hstep. destruct Hstep as [[rewards modified] [Hcr Hstep]].
      apply bind_ok in Hstep. destruct Hstep as [farms' [Hupd Hstep]].
      apply bind_ok in Hstep. destruct Hstep as [s2 [Hs2 Hstep]]. inversion Hstep; subst acc'; clear Hstep.
      apply sync_tables in Hs2. destruct Hs2 as [(_ & _ & _ & _ & T5 & _) _].
      cbn [fm_set_farms fm_with fm_farms] in T5. cbn [fst]. unfold cnt in *. rewrite T5, (claim_update_cnt _ _ _ _ Hupd). exact Hacc.
    - unfold P. reflexivity. }
  unfold FL in *. cbn [fm_set_last_claimed fm_with fm_cfg] in *. rewrite Hcfg. intros Hmax lp.
  specialize (HP lp). unfold cnt in *. cbn [fm_set_last_claimed fm_with fm_farms]. rewrite HP. apply HFL. exact Hmax.
Qed.

Lemma FL_same s s' : fm_farms s' = fm_farms s -> fm_cfg s' = fm_cfg s -> FL s -> FL s'.
Proof. intros Hf Hc H. unfold FL, cnt in *. rewrite Hf, Hc. exact H. Qed.

(* every farm-manager message preserves the limit invariant (the limit itself can only be raised) *)
Lemma fm_execute_limit w sender funds m s' msgs :
  NoDup (map f_id (fm_farms (w_fm w))) ->
  fm_execute w sender funds m = Ok (s', msgs) -> FL (w_fm w) -> FL s'.
Proof.
  intros Hnd H HFL.
  destruct m as [p|p|fid|a|u|oid dur r|pid|pid lp|pid e|u]; cbn [fm_execute] in H.
  - eapply create_farm_limit; eauto.
  - apply expand_farm_spec in H.
    destruct H as (_ & id & f & ep & reward & _ & Hf & _ & _ & _ & _ & Hone & _ & _ & _ & _ & Hfarms & _ & Hcfg & _).
    unfold FL, cnt in *. rewrite Hcfg, Hfarms. intros Hmax lp. rewrite ssum_sinsert. cbn [f_id].
    rewrite (sfind_key _ _ _ _ Hf), Hf. specialize (HFL Hmax lp).
    match goal with |- ?a - ?b + ?c <= _ => replace c with b by reflexivity end. lia.
  - apply close_farm_spec in H. destruct H as (_ & f & Hf & _ & -> & _).
    unfold FL, cnt in *. cbn [fm_set_farms fm_with fm_farms fm_cfg]. intros Hmax lp. rewrite ssum_sremove.
    specialize (HFL Hmax lp). rewrite (sfind_key _ _ _ _ Hf), Hf. pose proof (is_lp_range lp f). lia.
  - apply bind_ok in H. destruct H as [[] [_ H]].
    apply bind_ok in H. destruct H as [o [_ H]]. inversion H; subst s' msgs. exact HFL.
  - eapply claim_limit; eauto.
  - apply create_position_spec in H. destruct H as (_ & lp & recv & identifier & _ & _ & _ & _ & _ & _ & _ & Hfarms & Hcfg & _).
    eapply FL_same; eauto.
  - apply expand_position_spec in H. destruct H as (_ & q & lp & _ & _ & _ & _ & _ & _ & Hfarms & Hcfg & _).
    eapply FL_same; eauto.
  - apply close_position_spec in H. destruct H as (_ & _ & _ & q & _ & _ & _ & Hfarms & Hcfg & _).
    eapply FL_same; eauto.
  - apply withdraw_position_spec in H. destruct H as (_ & q & _ & _ & _ & Hfarms & Hcfg & _).
    eapply FL_same; eauto.
  - apply bind_ok in H. destruct H as [[] [_ H]].
    unfold fm_update_config in H.
    apply bind_ok in H. destruct H as [[] [_ H]].
    apply bind_ok in H. destruct H as [fc [_ H]].
    apply bind_ok in H. destruct H as [em [_ H]].
    apply bind_ok in H. destruct H as [pm [_ H]].
    apply bind_ok in H. destruct H as [mf [Hmf H]].
    apply bind_ok in H. destruct H as [maxu [_ H]].
    apply bind_ok in H. destruct H as [minu [_ H]].
    apply bind_ok in H. destruct H as [ex [_ H]].
    apply bind_ok in H. destruct H as [pen [_ H]]. inversion H; subst s' msgs; clear H.
    assert (Hle : fm_max_farms (fm_cfg (w_fm w)) <= mf).
    { destruct (u_max_farms u) as [m0|]; [|inversion Hmf; lia].
      apply bind_ok in Hmf. destruct Hmf as [[] [Hle Hmf]]. apply ensure_ok in Hle. inversion Hmf; subst. lia. }
    unfold FL, cnt in *. cbn [fm_cfg fm_max_farms fm_farms]. intros Hmax lp.
    assert (Hm0 : fm_max_farms (fm_cfg (w_fm w)) <= MAX_FARMS_LIMIT) by lia. specialize (HFL Hm0 lp). lia.
Qed.

(* ---------- lifting to every reachable world ---------- *)
Definition limit_inv (w : world) : Prop := fm_inv (w_fm w) /\ FL (w_fm w).

Theorem run_limit ops : forall w, limit_inv w -> limit_inv (run w ops).
Proof.
  intros w. apply (run_R (fun a b => limit_inv a -> limit_inv b)).
  - auto.
  - auto.
  - intros x y (_ & _ & _ & _ & _ & _ & Hfm). unfold limit_inv. rewrite Hfm. auto.
  - intros x t s f m w2 subs H [Hi Hl].
    destruct (handle_fm_state _ _ _ _ _ _ _ H) as [E | (fm & -> & -> & msgs & Hx)].
    + unfold limit_inv. rewrite E. auto.
    + destruct (handle_fm_accounted _ _ _ _ _ _ Hi H) as (fm' & _ & _ & _ & Hi' & _).
      split; [exact Hi'|]. destruct Hi as [(_ & _ & _ & Hnd) _]. eapply fm_execute_limit; eauto.
  - intros x c id w2 subs H. unfold limit_inv. rewrite (handle_reply_fm_state _ _ _ _ _ H). auto.
  - auto.
Qed.

(* from genesis: no farms yet *)
Theorem reachable_farm_limit g w ops lp :
  genesis_world g = Ok w -> 0 <= amount_of (fm_create_fee (g_fm g)) ->
  fm_max_farms (fm_cfg (w_fm (run w ops))) <= MAX_FARMS_LIMIT ->
  Z.of_nat (List.length (filter (fun f => String.eqb (f_lp f) lp) (fm_farms (w_fm (run w ops)))))
    <= fm_max_farms (fm_cfg (w_fm (run w ops))).
Proof.
  intros Hg Hfee Hmax. pose proof (genesis_custody _ _ Hg Hfee) as [Hfm _].
  assert (Hl : limit_inv w).
  { split; [exact Hfm|]. intros _ lp'. unfold cnt.
    unfold genesis_world in Hg.
    apply bind_ok in Hg. destruct Hg as [b [_ Hg]].
    apply bind_ok in Hg. destruct Hg as [em [_ Hg]].
    apply bind_ok in Hg. destruct Hg as [fc [_ Hg]].
    apply bind_ok in Hg. destruct Hg as [fm [Hfmi Hg]].
    apply bind_ok in Hg. destruct Hg as [pm [_ Hg]]. inversion Hg; subst w; clear Hg.
    cbn [w_fm set_pm set_fm set_fc set_em].
    unfold fm_instantiate in Hfmi. inv_all. apply ensure_ok in Hv. cbn in *. lia. }
  destruct (run_limit ops w Hl) as [_ HFL]. rewrite <- cnt_is_length. apply HFL. exact Hmax.
Qed.

(* ---------- the configured limit itself never goes down ---------- *)
Lemma fm_execute_limit_mono w sender funds m s' msgs :
  fm_execute w sender funds m = Ok (s', msgs) -> fm_max_farms (fm_cfg (w_fm w)) <= fm_max_farms (fm_cfg s').
Proof.
  intros H.
  destruct m as [p|p|fid|a|u|oid dur r|pid|pid lp|pid e|u]; cbn [fm_execute] in H.
  - apply create_farm_spec in H.
    destruct H as (ep & expired & live & fee_msgs & st & en & identifier & _ & _ & _ & _ & _ & _ & _ & _ & _ & _ & _ & Hcfg & _). rewrite Hcfg. lia.
  - apply expand_farm_spec in H.
    destruct H as (_ & id & f & ep & reward & _ & _ & _ & _ & _ & _ & _ & _ & _ & _ & _ & _ & _ & Hcfg & _). rewrite Hcfg. lia.
  - apply close_farm_spec in H. destruct H as (_ & f & _ & _ & -> & _). cbn. lia.
  - apply bind_ok in H. destruct H as [[] [_ H]]. apply bind_ok in H. destruct H as [o [_ H]]. inversion H; subst. cbn. lia.
  - apply claim_tables in H. destruct H as (_ & _ & Hcfg & _). rewrite Hcfg. lia.
  - apply create_position_spec in H. destruct H as (_ & lp & recv & identifier & _ & _ & _ & _ & _ & _ & _ & _ & Hcfg & _). rewrite Hcfg. lia.
  - apply expand_position_spec in H. destruct H as (_ & q & lp & _ & _ & _ & _ & _ & _ & _ & Hcfg & _). rewrite Hcfg. lia.
  - apply close_position_spec in H. destruct H as (_ & _ & _ & q & _ & _ & _ & _ & Hcfg & _). rewrite Hcfg. lia.
  - apply withdraw_position_spec in H. destruct H as (_ & q & _ & _ & _ & _ & Hcfg & _). rewrite Hcfg. lia.
  - apply bind_ok in H. destruct H as [[] [_ H]].
    unfold fm_update_config in H.
    apply bind_ok in H. destruct H as [[] [_ H]].
    apply bind_ok in H. destruct H as [fc [_ H]].
    apply bind_ok in H. destruct H as [em [_ H]].
    apply bind_ok in H. destruct H as [pm [_ H]].
    apply bind_ok in H. destruct H as [mf [Hmf H]].
    apply bind_ok in H. destruct H as [maxu [_ H]].
    apply bind_ok in H. destruct H as [minu [_ H]].
    apply bind_ok in H. destruct H as [ex [_ H]].
    apply bind_ok in H. destruct H as [pen [_ H]]. inversion H; subst s' msgs; clear H. cbn [fm_cfg fm_max_farms].
    destruct (u_max_farms u) as [m0|]; [|inversion Hmf; lia].
    apply bind_ok in Hmf. destruct Hmf as [[] [Hle Hmf]]. apply ensure_ok in Hle. inversion Hmf; subst. lia.
Qed.

Theorem limit_never_decreases ops : forall w, fm_max_farms (fm_cfg (w_fm w)) <= fm_max_farms (fm_cfg (w_fm (run w ops))).
Proof.
  intros w. apply (run_R (fun a b => fm_max_farms (fm_cfg (w_fm a)) <= fm_max_farms (fm_cfg (w_fm b)))).
  - intros x. lia.
  - intros a b c H1 H2. lia.
  - intros x y (_ & _ & _ & _ & _ & _ & Hfm). rewrite Hfm. lia.
  - intros x t s f m w2 subs H. destruct (handle_fm_state _ _ _ _ _ _ _ H) as [E | (fm & -> & -> & msgs & Hx)].
    + rewrite E. lia.
    + eapply fm_execute_limit_mono; eauto.
  - intros x c id w2 subs H. rewrite (handle_reply_fm_state _ _ _ _ _ H). lia.
  - intros x b. cbn. lia.
Qed.
