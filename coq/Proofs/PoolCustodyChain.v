(* PoolCustodyChain.v — C01 over all histories: induction over the chain interpreter (arbitrary call trees,
   the swap -> reply -> deposit chain of a single-asset provision, tolerated failures, injected faults). *)
From MD.Model Require Import Base Ownable Epoch PoolMath Types PoolManager FarmManager Chain.
From MD.Proofs Require Import Tactics Arith PoolMathProofs MapLemmas BankProofs SwapProofs ChainProofs PmProofs LiquidityProofs
  AtomicProofs WeightProofs FarmProofs FarmChainProofs FarmCustody FarmCustodyChain PoolCustody.

(* what the pool manager holds beyond the reserves it reports *)
Definition slackP (w : world) (d : string) : Z := bal (w_bank w) PM d - res (w_pm w) d.
Definition backed (w : world) : Prop := forall d, 0 <= slackP w d.

(* side conditions carried through a transaction *)
Definition pinv (w : world) : Prop := fees_small w /\ fm_inv (w_fm w).

Definition small_call (s : submsg) : Prop :=
  match sm_msg s with MWasm _ (WPm pm) _ => pm_msg_small pm | _ => True end.
Definition plain_ok (s : submsg) : Prop := sm_reply s = RNever /\ small_call s.

(* the one non-plain message of the pool manager: the swap leg of a single-asset provision, with its buffer *)
Definition single_ok (w : world) (subs : list submsg) : Prop :=
  exists b od h ask sim pid ss,
    pm_buffer (w_pm w) = Some b /\ sb_offer_half b = (od, h) /\ sb_expected_ask_asset b = (ask, sc_return sim) /\
    query_simulation (w_pm w) (od, h) ask pid = Ok sim /\
    subs = [{| sm_msg := MWasm PM (WPm (PmSwap ask None ss None pid)) [(od, h)]; sm_id := 1; sm_reply := RSuccess |}].
Definition pm_list_ok (w : world) (subs : list submsg) : Prop :=
  (Forall plain_ok subs /\ pm_buffer (w_pm w) = None) \/ single_ok w subs.

Lemma PM_neq : String.eqb PM EM = false /\ String.eqb PM FC = false /\ String.eqb PM FM = false.
Proof. repeat split; reflexivity. Qed.

(* ---------- bank effects ---------- *)
Lemma leaf_pm w s w1 fl d :
  is_leaf (sm_msg s) = true -> exec_leaf w PM (sm_msg s) = (Ok w1, fl) ->
  same_contracts w w1 /\ bal (w_bank w) PM d - outP1 (w_tf_fee w) d s <= bal (w_bank w1) PM d.
Proof.
  intros Hl H. split; [eapply exec_leaf_same; eauto|]. unfold outP1.
  destruct (sm_msg s) as [to amt|amt|sd|cn to|cn|t wm fs]; cbn [exec_leaf] in H; try discriminate;
    unfold bank_call, fault_tick in H; destruct (w_fault w) as [k|];
    try (destruct (k =? 0); [discriminate|]); cbn [w_bank set_fault w_tf_fee] in H.
  all: match type of H with
       | context [bank_send ?b ?f ?t ?cs] => destruct (bank_send b f t cs) as [b'|e] eqn:Eb; [|discriminate];
           inversion H; subst; cbn [w_bank set_bank set_fault]; apply bank_send_spec in Eb; destruct Eb as [Hnn Hb];
           rewrite Hb, String.eqb_refl; pose proof (camt_nonneg _ d Hnn); unfold ind;
           rewrite (String.eqb_sym PM t); destruct (String.eqb t PM); lia
       | context [bank_burn ?b ?f ?cs] => destruct (bank_burn b f cs) as [b'|e] eqn:Eb; [|discriminate];
           inversion H; subst; cbn [w_bank set_bank set_fault]; apply bank_burn_spec in Eb; destruct Eb as [Hnn Hb];
           rewrite Hb, String.eqb_refl; unfold ind; lia
       | context [bank_mint ?b ?t ?cs] => destruct (bank_mint b t cs) as [b'|e] eqn:Eb; [|discriminate];
           inversion H; subst; cbn [w_bank set_bank set_fault]; apply bank_mint_spec in Eb; destruct Eb as [Hnn Hb];
           rewrite Hb; pose proof (camt_nonneg _ d Hnn); unfold ind;
           rewrite (String.eqb_sym PM t); destruct (String.eqb t PM); lia
       end.
Qed.

Lemma leaf_not_pm w c m w1 fl d :
  String.eqb c PM = false -> is_leaf m = true -> exec_leaf w c m = (Ok w1, fl) ->
  same_contracts w w1 /\ bal (w_bank w) PM d <= bal (w_bank w1) PM d.
Proof.
  intros Hc Hl H. split; [eapply exec_leaf_same; eauto|].
  assert (Hfc : String.eqb PM c = false) by (rewrite String.eqb_sym; exact Hc).
  destruct m as [to amt|amt|sd|cn to|cn|t wm fs]; cbn [exec_leaf] in H; try discriminate;
    unfold bank_call, fault_tick in H; destruct (w_fault w) as [k|];
    try (destruct (k =? 0); [discriminate|]); cbn [w_bank set_fault] in H.
  all: match type of H with
       | context [bank_send ?b ?f ?t ?cs] => destruct (bank_send b f t cs) as [b'|e] eqn:Eb; [|discriminate];
           inversion H; subst; cbn [w_bank set_bank set_fault]; apply bank_send_spec in Eb; destruct Eb as [Hnn Hb];
           rewrite Hb, Hfc; pose proof (camt_nonneg _ d Hnn); unfold ind; destruct (String.eqb PM t); lia
       | context [bank_burn ?b ?f ?cs] => destruct (bank_burn b f cs) as [b'|e] eqn:Eb; [|discriminate];
           inversion H; subst; cbn [w_bank set_bank set_fault]; apply bank_burn_spec in Eb; destruct Eb as [Hnn Hb];
           rewrite Hb, Hfc; unfold ind; lia
       | context [bank_mint ?b ?t ?cs] => destruct (bank_mint b t cs) as [b'|e] eqn:Eb; [|discriminate];
           inversion H; subst; cbn [w_bank set_bank set_fault]; apply bank_mint_spec in Eb; destruct Eb as [Hnn Hb];
           rewrite Hb; pose proof (camt_nonneg _ d Hnn); unfold ind; destruct (String.eqb PM t); lia
       end.
Qed.

Lemma funds_transfer_pm w c target funds wa fl d :
  (match funds with [] => (Ok w, w_fault w) | _ => bank_call w (fun b => bank_send b c target funds) end) = (Ok wa, fl) ->
  same_contracts w wa /\
  bal (w_bank wa) PM d = bal (w_bank w) PM d - ind (String.eqb PM c) (camt funds d) + ind (String.eqb PM target) (camt funds d) /\
  0 <= camt funds d.
Proof.
  destruct funds as [|f0 fr].
  - intros H. inversion H; subst. cbn [camt]. unfold ind. split; [apply same_contracts_refl|]. split; [|lia].
    destruct (String.eqb PM c), (String.eqb PM target); lia.
  - intros H. pose proof (bank_call_same _ _ _ _ H) as Hs. split; [exact Hs|].
    unfold bank_call, fault_tick in H. destruct (w_fault w) as [k|];
      try (destruct (k =? 0); [discriminate|]); cbn [w_bank set_fault] in H;
      (destruct (bank_send (w_bank w) c target (f0 :: fr)) as [b'|e] eqn:Eb; [|discriminate]);
      inversion H; subst; cbn [w_bank set_bank set_fault]; apply bank_send_spec in Eb; destruct Eb as [Hnn Hb];
      rewrite Hb; pose proof (camt_nonneg _ d Hnn); split; auto.
Qed.

Lemma pinv_same w w' : same_contracts w w' -> pinv w -> pinv w'.
Proof.
  intros (_ & Htf & _ & _ & _ & Hpm & Hfm) [(A & B & C) D]. unfold pinv, fees_small. rewrite Htf, Hpm, Hfm. split; [split; [exact A | split; [exact B | exact C]] | exact D].
Qed.

Lemma slackP_same w w' d : same_contracts w w' -> slackP w' d = bal (w_bank w') PM d - res (w_pm w) d.
Proof. intros (_ & _ & _ & _ & _ & Hpm & _). unfold slackP. rewrite Hpm. reflexivity. Qed.

(* ---------- the message lists of the pool manager ---------- *)
Lemma mint_lp_shape lp to a m : mint_lp_msg lp to a = Ok m -> m = MTfMint (lp, a) to.
Proof. unfold mint_lp_msg. intros H. inv_all. reflexivity. Qed.
Lemma burn_lp_shape lp a m : burn_lp_msg lp a = Ok m -> m = MTfBurn (lp, a).
Proof. unfold burn_lp_msg. intros H. inv_all. reflexivity. Qed.
Ltac shp := repeat match goal with
  | H : mint_lp_msg _ _ _ = Ok _ |- _ => apply mint_lp_shape in H; subst
  | H : burn_lp_msg _ _ = Ok _ |- _ => apply burn_lp_shape in H; subst end.
Ltac pk := shp; repeat first [apply Forall_nil | apply Forall_cons; [split; [reflexivity | exact I] | ]].

Lemma swap_fee_msgs_plain_ok cfg ask sc : Forall plain_ok (swap_fee_msgs cfg ask sc).
Proof.
  unfold swap_fee_msgs. apply Forall_app. split.
  - destruct (sc_burn_fee sc =? 0); pk.
  - destruct (sc_protocol_fee sc =? 0); pk.
Qed.

Lemma route_loop_plain_ok ops : forall s prev ms fm s' out fms,
  Forall plain_ok fm -> route_loop s prev ops ms fm = Ok (s', out, fms) -> Forall plain_ok fms.
Proof.
  induction ops as [|o r IH]; intros s prev ms fm s' out fms Hf H.
  - cbn in H. inversion H; subst. exact Hf.
  - apply route_loop_cons in H. destruct H as (s1 & sc & _ & H).
    eapply IH; [|exact H]. apply Forall_app. split; [exact Hf | apply swap_fee_msgs_plain_ok].
Qed.

Lemma pm_execute_list w sender funds m s' msgs :
  pm_execute w sender funds m = Ok (s', msgs) ->
  Forall plain_ok msgs \/ (exists ls ss r pid u l deposit, m = PmProvide ls ss r pid u l /\ aggregate_coins funds = Ok [deposit]).
Proof.
  destruct m as [denoms decimals fees pt oid | ls ss r pid u l | ask bp ms r pid | pid | a | ops mr r ms | fc fm fee t];
    cbn [pm_execute]; intros H.
  - left. apply create_pool_checks in H. cbv zeta in H. destruct H as (_ & _ & _ & _ & _ & _ & _ & _ & ->).
    apply Forall_app. split; [destruct (_ =? 0); pk | pk].
  - unfold provide_liquidity in H.
    apply bind_ok in H. destruct H as [p [Hp H]].
    apply bind_ok in H. destruct H as [[] [He H]].
    apply bind_ok in H. destruct H as [deps [Hd H]].
    apply bind_ok in H. destruct H as [[] [_ H]].
    apply bind_ok in H. destruct H as [[] [_ H]].
    destruct deps as [|d0 [|d1 rest]].
    + left. inv_all; repeat (apply Forall_app; split); pk.
    + right. do 7 eexists. split; [reflexivity | exact Hd].
    + left. inv_all; repeat (apply Forall_app; split); pk.
  - left. apply swap_spec in H. destruct H as (p & offer & sc & _ & _ & _ & _ & _ & ->).
    apply Forall_app. split; [destruct (_ =? 0); pk | apply swap_fee_msgs_plain_ok].
  - left. unfold withdraw_liquidity in H. inv_all. pk.
  - left. inv_all. constructor.
  - left. apply exec_ops_spec in H. destruct H as (lst & f & amount & out & fee_msgs & _ & _ & _ & _ & Hr & _ & ->).
    apply Forall_app. split; [destruct (_ =? 0); pk|].
    eapply route_loop_plain_ok; [|exact Hr]. constructor.
  - left. apply bind_ok in H. destruct H as [[] [_ H]]. apply update_config_shape in H. destruct H as (_ & -> & _). constructor.
Qed.

(* ---------- handlers ---------- *)
Lemma handle_pm w sender funds m w2 subs :
  fees_small w -> small_call (plain (MWasm PM m funds)) -> handle w PM sender funds m = Ok (w2, subs) ->
  exists pm s', m = WPm pm /\ w2 = set_pm w s' /\ pm_execute w sender funds pm = Ok (s', subs) /\
                pm_accounted w s' funds subs /\ fees_small w2 /\ (pm_buffer (w_pm w) = None -> pm_list_ok w2 subs).
Proof.
  intros Hfs Hsm H. apply handle_ok_typed in H. destruct H as (H & Hfunds & Hmsg).
  unfold handle_typed in H. cbn [String.eqb EM FC PM FM Ascii.eqb Bool.eqb] in H.
  destruct m as [| |pm|]; try discriminate. apply bind_ok in H. destruct H as [[s1 subs1] [Hx H]]. inversion H; subst w2 subs; clear H.
  exists pm, s1. split; [reflexivity|]. split; [reflexivity|]. split; [exact Hx|].
  cbn in Hsm.
  destruct (pm_execute_accounted _ _ _ _ _ _ Hfs Hfunds Hsm Hx) as [A B].
  split; [exact A|]. split.
  { destruct Hfs as (F1 & F2 & _). unfold fees_small. cbn [w_tf_fee set_pm w_pm]. split; [exact F1 | split; [exact F2 | exact B]]. }
  intros Hbuf.
  destruct (pm_execute_list _ _ _ _ _ _ Hx) as [L|(ls & ss & r & pid & u & l & deposit & -> & Hagg)].
  - left. split; [exact L|]. cbn [w_pm set_pm].
    destruct (pm_execute_buffer_frame _ _ _ _ _ _ Hx) as [Hf|(ls & ss & r & pid & u & l & deposit & -> & Hagg)]; [rewrite Hf; exact Hbuf|].
    (* a single-asset provision never answers with fire-and-forget messages only *)
    cbn [pm_execute] in Hx.
    destruct (provide_single_spec _ _ _ _ _ _ _ _ _ _ _ _ Hagg Hx) as (p & askc & sim & _ & _ & _ & _ & _ & _ & _ & _ & ->).
    inversion L as [|x xs [Hrn _] _]. cbn in Hrn. discriminate.
  - right. cbn [pm_execute] in Hx.
    destruct (provide_single_spec _ _ _ _ _ _ _ _ _ _ _ _ Hagg Hx) as (p & askc & sim & _ & _ & _ & _ & _ & _ & Hsim & -> & ->).
    eexists _, (denom_of deposit), (amount_of deposit / 2), (denom_of askc), sim, pid, ss.
    cbn [w_pm set_pm pm_buffer pm_with_buffer sb_offer_half sb_expected_ask_asset].
    split; [reflexivity|]. split; [reflexivity|]. split; [reflexivity|]. split; [exact Hsim | reflexivity].
Qed.

Lemma is_send_small s : is_send s -> small_call s.
Proof. intros (to & cs & E). unfold small_call. rewrite E. exact I. Qed.

Lemma handle_not_pm w target sender funds m w2 subs :
  String.eqb target PM = false -> fm_inv (w_fm w) -> handle w target sender funds m = Ok (w2, subs) ->
  w_pm w2 = w_pm w /\ w_bank w2 = w_bank w /\ w_tf_fee w2 = w_tf_fee w /\ fm_inv (w_fm w2) /\ Forall small_call subs.
Proof.
  intros Ht Hinv H0. pose proof H0 as H. apply handle_ok_typed in H. destruct H as (H & _ & _). unfold handle_typed in H.
  destruct (String.eqb target EM); [destruct m; inv_all; (split; [reflexivity| split; [reflexivity | split; [reflexivity | split; [exact Hinv | constructor]]]])|].
  destruct (String.eqb target FC); [destruct m; inv_all; (split; [reflexivity| split; [reflexivity | split; [reflexivity | split; [exact Hinv | constructor]]]])|].
  rewrite Ht in H.
  destruct (String.eqb target FM) eqn:Ef; [|discriminate]. apply String.eqb_eq in Ef. subst target.
  destruct (handle_fm_accounted _ _ _ _ _ _ Hinv H0) as (fm & -> & Hb2 & [Hsends _] & Hinv2 & _).
  apply bind_ok in H. destruct H as [[s1 subs1] [_ H]]. inversion H; subst w2 subs; clear H.
  split; [reflexivity| split; [exact Hb2 | split; [reflexivity | split; [exact Hinv2 |]]]].
  eapply Forall_impl; [|exact Hsends]. intros a Ha. apply is_send_small. exact Ha.
Qed.

Lemma reply_not_pm w c id w2 rsubs :
  String.eqb c PM = false -> handle_reply w c id = Ok (w2, rsubs) ->
  rsubs = [] /\ w_pm w2 = w_pm w /\ w_bank w2 = w_bank w /\ w_tf_fee w2 = w_tf_fee w /\ w_fm w2 = w_fm w.
Proof.
  intros Hc H. unfold handle_reply in H. rewrite Hc in H. destruct (String.eqb c FM); [|discriminate].
  apply bind_ok in H. destruct H as [[s1 subs1] [Hx H]]. apply fm_reply_spec in Hx. destruct Hx as (-> & -> & _).
  inversion H; subst. repeat split; reflexivity.
Qed.

Lemma reply_pm w id w2 rsubs :
  handle_reply w PM id = Ok (w2, rsubs) ->
  exists b, pm_buffer (w_pm w) = Some b /\ w2 = set_pm w (pm_with_buffer (w_pm w) None) /\
    rsubs = [plain (MWasm PM (WPm (PmProvide (ld_liq_slip (sb_data b)) (ld_swap_slip (sb_data b)) (Some (sb_receiver b))
                                              (ld_pool (sb_data b)) (ld_unlock (sb_data b)) (ld_lock_id (sb_data b))))
                         [sb_offer_half b; sb_expected_ask_asset b])].
Proof.
  intros H. unfold handle_reply in H. cbn [String.eqb EM FC PM FM Ascii.eqb Bool.eqb] in H.
  apply bind_ok in H. destruct H as [[s1 subs1] [Hx H]]. apply pm_reply_spec in Hx.
  destruct Hx as (_ & b & Hb & _ & _ & -> & ->). inversion H; subst. exists b. repeat split; auto.
Qed.

(* the swap leg of a single-asset provision pays the pool manager itself *)
Lemma accounted_swap_self w funds ask ms pid s' msgs :
  swap w PM funds ask None ms None pid = Ok (s', msgs) ->
  exists offer sc, one_coin funds = Ok offer /\ perform_swap (w_pm w) offer ask pid None ms = Ok (s', sc) /\
    Forall plain_ok msgs /\ forallb plain_leaf msgs = true /\
    forall d, res s' d + outP (w_tf_fee w) msgs d <= res (w_pm w) d + camt funds d - ind (String.eqb ask d) (sc_return sc).
Proof.
  intros H. apply swap_spec in H. destruct H as (p & offer & sc & _ & _ & Hone & _ & Hps & ->).
  exists offer, sc. split; [exact Hone|]. split; [exact Hps|]. cbn [addr_or_default].
  split; [apply Forall_app; split; [destruct (_ =? 0); pk | apply swap_fee_msgs_plain_ok]|].
  split.
  { rewrite forallb_app. unfold swap_fee_msgs. rewrite forallb_app.
    destruct (sc_return sc =? 0), (sc_burn_fee sc =? 0), (sc_protocol_fee sc =? 0); reflexivity. }
  intros d.
  destruct (perform_swap_res _ _ _ _ _ _ _ _ d Hps) as (Hr & H0 & H1 & H2). rewrite Hr, (one_coin_camt' _ _ d Hone), outP_app.
  pose proof (swap_fee_msgs_out (w_tf_fee w) (pm_cfg (w_pm w)) ask sc d H1 H2).
  assert (outP (w_tf_fee w) (if sc_return sc =? 0 then [] else [plain (MBankSend PM [(ask, sc_return sc)])]) d = 0).
  { destruct (sc_return sc =? 0) eqn:E; cbn [outP outP1 plain sm_msg]; [reflexivity|]. cbn [String.eqb PM Ascii.eqb Bool.eqb]. lia. }
  unfold ind in *. destruct (String.eqb ask d), (String.eqb (denom_of offer) d); lia.
Qed.

Lemma list_ok_small w subs : pm_list_ok w subs -> Forall small_call subs.
Proof.
  intros [[H _]|(b & od & h & ask & sim & pid & ss & _ & _ & _ & _ & ->)].
  - eapply Forall_impl; [|exact H]. intros a [_ Ha]. exact Ha.
  - constructor; [exact I | constructor].
Qed.

(* ---------- the induction ---------- *)
Definition P (f : nat) : Prop := forall w c subs w' fl,
  process f w c subs = (Ok w', fl) ->
  pinv w -> Forall small_call subs ->
  (String.eqb c PM = true -> pm_list_ok w subs) ->
  (String.eqb c PM = false -> pm_buffer (w_pm w) = None) ->
  pinv w' /\ w_tf_fee w' = w_tf_fee w /\ pm_buffer (w_pm w') = None /\
  forall d, slackP w d - (if String.eqb c PM then outP (w_tf_fee w) subs d else 0) <= slackP w' d.

(* bank messages of the pool manager, run in sequence *)
Lemma exec_leaves_pm subs : forall w w1 fl,
  forallb plain_leaf subs = true -> exec_leaves w PM subs = (Ok w1, fl) ->
  same_contracts w w1 /\ forall d, bal (w_bank w) PM d - outP (w_tf_fee w) subs d <= bal (w_bank w1) PM d.
Proof.
  induction subs as [|s rest IH]; intros w w1 fl H E; cbn [exec_leaves] in E.
  - inversion E; subst. split; [apply same_contracts_refl|]. intros d. cbn [outP]. lia.
  - cbn [forallb] in H. apply andb_true_iff in H. destruct H as [Hs Hr].
    unfold plain_leaf in Hs. apply andb_true_iff in Hs. destruct Hs as [Hl _].
    destruct (exec_leaf w PM (sm_msg s)) as [[w2|e] fl2] eqn:E2; [|discriminate].
    destruct (IH _ _ _ Hr E) as [Hs2 Hb2].
    destruct (leaf_pm w s w2 fl2 "" Hl E2) as [Hs1 _].
    split; [eapply same_contracts_trans; eauto|].
    intros d. destruct (leaf_pm w s w2 fl2 d Hl E2) as [_ Hb1]. specialize (Hb2 d).
    destruct Hs1 as (_ & Htf & _). rewrite Htf in Hb2. cbn [outP]. lia.
Qed.

(* one message, executed as a fire-and-forget message *)
Lemma exec_sub_step f : P f -> forall w c s w1 fl1,
  exec_sub f w c s = (Ok w1, fl1) -> pinv w -> small_call s -> pm_buffer (w_pm w) = None ->
  pinv w1 /\ w_tf_fee w1 = w_tf_fee w /\ pm_buffer (w_pm w1) = None /\
  forall d, slackP w d - (if String.eqb c PM then outP1 (w_tf_fee w) d (plain (sm_msg s)) else 0) <= slackP w1 d.
Proof.
  intros IH w c s w1 fl1 E Hinv Hsm Hbuf. unfold exec_sub in E.
  destruct (sm_msg s) as [to a|a|sd|cn to|cn|target wm funds] eqn:Em.
  1-5: (destruct (String.eqb c PM) eqn:Ec;
        [apply String.eqb_eq in Ec; subst c;
         match type of E with exec_leaf _ _ ?m = _ =>
           pose proof (fun d => leaf_pm w (plain m) w1 fl1 d eq_refl E) as L end;
         destruct (L "") as [Hs _]; split; [eapply pinv_same; eauto|]; split; [apply Hs|];
         split; [destruct Hs as (_ & _ & _ & _ & _ & Hp & _); rewrite Hp; exact Hbuf|];
         intros d; destruct (L d) as [_ Hb]; rewrite (slackP_same _ _ d Hs); unfold slackP; cbn [sm_msg plain] in *; lia
        |match type of E with exec_leaf _ _ ?m = _ =>
           pose proof (fun d => leaf_not_pm w c m w1 fl1 d Ec eq_refl E) as L end;
         destruct (L "") as [Hs _]; split; [eapply pinv_same; eauto|]; split; [apply Hs|];
         split; [destruct Hs as (_ & _ & _ & _ & _ & Hp & _); rewrite Hp; exact Hbuf|];
         intros d; destruct (L d) as [_ Hb]; rewrite (slackP_same _ _ d Hs); unfold slackP; lia]).
  destruct (match funds with [] => (Ok w, w_fault w) | _ => bank_call w (fun b => bank_send b c target funds) end)
    as [[wa|ea] fla] eqn:Eb; [|discriminate].
  destruct (handle wa target c funds wm) as [[w2 subs2]|eh] eqn:Eh; [|discriminate].
  destruct (funds_transfer_pm _ _ _ _ _ _ "" Eb) as (Hsa & _ & _).
  pose proof (pinv_same _ _ Hsa Hinv) as Hinva.
  destruct Hsa as (_ & Htfa & _ & _ & _ & Hpma & Hfma).
  assert (Hbufa : pm_buffer (w_pm wa) = None) by (rewrite Hpma; exact Hbuf).
  destruct (String.eqb target PM) eqn:Et.
  - apply String.eqb_eq in Et. subst target.
    assert (Hsm' : small_call (plain (MWasm PM wm funds))) by (unfold small_call in *; rewrite Em in Hsm; exact Hsm).
    destruct (handle_pm _ _ _ _ _ _ (proj1 Hinva) Hsm' Eh) as (pm & s' & -> & -> & _ & Hacc & Hfs2 & Hlist).
    specialize (Hlist Hbufa).
    assert (Hinv2 : pinv (set_pm wa s')) by (split; [exact Hfs2 | exact (proj2 Hinva)]).
    assert (Hnb : String.eqb PM PM = false -> pm_buffer (w_pm (set_pm wa s')) = None) by (intros C; rewrite String.eqb_refl in C; discriminate).
    destruct (IH _ _ _ _ _ E Hinv2 (list_ok_small _ _ Hlist) (fun _ => Hlist) Hnb) as (Hinv1 & Htf1 & Hb1 & Hsl).
    split; [exact Hinv1|]. split; [rewrite Htf1; exact Htfa|]. split; [exact Hb1|].
    intros d. specialize (Hsl d). rewrite String.eqb_refl in Hsl. specialize (Hacc d).
    destruct (funds_transfer_pm _ _ _ _ _ _ d Eb) as (_ & Hbal & Hcn).
    rewrite String.eqb_refl in Hbal.
    unfold slackP in *. cbn [w_bank w_pm set_pm w_tf_fee] in *. rewrite Hpma in Hacc. rewrite Htfa in Hacc.
    unfold outP1. cbn [sm_msg plain sm_reply wants_success]. rewrite (String.eqb_sym c PM).
    rewrite Htfa in Hsl. unfold ind in *. destruct (String.eqb PM c); lia.
  - destruct (handle_not_pm _ _ _ _ _ _ _ Et (proj2 Hinva) Eh) as (Hpm2 & Hb2 & Htf2 & Hfm2 & Hsm2).
    assert (Hinv2 : pinv w2).
    { split; [|exact Hfm2]. destruct Hinva as [(F1 & F2 & F3) _]. unfold fees_small. rewrite Htf2, Hpm2. split; [exact F1 | split; [exact F2 | exact F3]]. }
    assert (Hnl : String.eqb target PM = true -> pm_list_ok w2 subs2) by (intros C; rewrite Et in C; discriminate).
    assert (Hnb : String.eqb target PM = false -> pm_buffer (w_pm w2) = None) by (intros _; rewrite Hpm2; exact Hbufa).
    destruct (IH _ _ _ _ _ E Hinv2 Hsm2 Hnl Hnb) as (Hinv1 & Htf1 & Hb1 & Hsl).
    split; [exact Hinv1|]. split; [rewrite Htf1, Htf2; exact Htfa|]. split; [exact Hb1|].
    intros d. specialize (Hsl d). rewrite Et in Hsl.
    destruct (funds_transfer_pm _ _ _ _ _ _ d Eb) as (_ & Hbal & Hcn).
    assert (Htp : String.eqb PM target = false) by (rewrite String.eqb_sym; exact Et). rewrite Htp in Hbal.
    unfold slackP in *. rewrite Hb2, Hpm2, Hpma in Hsl.
    unfold outP1. cbn [sm_msg plain sm_reply wants_success]. rewrite (String.eqb_sym c PM).
    unfold ind in *. destruct (String.eqb PM c); lia.
Qed.

Lemma outP1_plain tf d s : sm_reply s = RNever -> outP1 tf d s = outP1 tf d (plain (sm_msg s)).
Proof. intros H. unfold outP1. cbn [plain sm_msg sm_reply]. rewrite H. reflexivity. Qed.

Lemma one_coin_single od h offer : one_coin [(od, h)] = Ok offer -> offer = (od, h).
Proof. unfold one_coin. cbn. destruct (h =? 0); intros H; inversion H; reflexivity. Qed.

(* ---------- the swap -> reply -> deposit chain of a single-asset provision, step by step ---------- *)
Definition single_elem (od : string) (h : Z) (ask pid : string) (ss : option Z) : submsg :=
  {| sm_msg := MWasm PM (WPm (PmSwap ask None ss None pid)) [(od, h)]; sm_id := 1; sm_reply := RSuccess |}.
Definition second_leg (b : ss_buffer) : submsg :=
  plain (MWasm PM (WPm (PmProvide (ld_liq_slip (sb_data b)) (ld_swap_slip (sb_data b)) (Some (sb_receiver b))
                                  (ld_pool (sb_data b)) (ld_unlock (sb_data b)) (ld_lock_id (sb_data b))))
               [sb_offer_half b; sb_expected_ask_asset b]).

Lemma single_chain f w w' fl b od h ask sim pid ss :
  pm_buffer (w_pm w) = Some b -> sb_offer_half b = (od, h) -> sb_expected_ask_asset b = (ask, sc_return sim) ->
  query_simulation (w_pm w) (od, h) ask pid = Ok sim ->
  process (S f) w PM [single_elem od h ask pid ss] = (Ok w', fl) ->
  exists wa fla s1 msgs1 w1 fl1 fl3,
    bank_call w (fun b0 => bank_send b0 PM PM [(od, h)]) = (Ok wa, fla) /\
    swap wa PM [(od, h)] ask None ss None pid = Ok (s1, msgs1) /\
    perform_swap (w_pm w) (od, h) ask pid None ss = Ok (s1, sim) /\
    forallb plain_leaf msgs1 = true /\
    process f (set_pm wa s1) PM msgs1 = (Ok w1, fl1) /\ w_pm w1 = s1 /\ pm_buffer s1 = Some b /\
    process f (set_pm w1 (pm_with_buffer s1 None)) PM [second_leg b] = (Ok w', fl3).
Proof.
  intros Hb Hoh Hea Hsim H. rewrite process_cons in H.
  unfold exec_sub, single_elem in H. cbn [sm_msg sm_reply sm_id wants_success] in H.
  destruct (bank_call w (fun b0 => bank_send b0 PM PM [(od, h)])) as [[wa|ea] fla] eqn:Eb; [|discriminate].
  pose proof (bank_call_same _ _ _ _ Eb) as (_ & Htfa & _ & _ & _ & Hpma & Hfma).
  destruct (handle wa PM PM [(od, h)] (WPm (PmSwap ask None ss None pid))) as [[w2 subs2]|eh] eqn:Eh; [|discriminate].
  apply handle_ok_typed in Eh. destruct Eh as (Eh & _ & _).
  unfold handle_typed in Eh. cbn [String.eqb EM FC PM FM Ascii.eqb Bool.eqb] in Eh.
  apply bind_ok in Eh. destruct Eh as [[s1 msgs1] [Hx Eh]]. inversion Eh; subst w2 subs2; clear Eh. cbn [pm_execute] in Hx.
  destruct (accounted_swap_self _ _ _ _ _ _ _ Hx) as (offer & sc & Hone & Hps & _ & Hleaf & _).
  apply one_coin_single in Hone. subst offer.
  assert (Hsc : sim = sc) by (eapply simulation_eq_perform_swap; [exact Hps | rewrite Hpma; exact Hsim]). subst sc.
  destruct (process f (set_pm wa s1) PM msgs1) as [[w1|e1] fl1] eqn:E; [|discriminate].
  assert (Hpm1 : w_pm w1 = s1).
  { destruct f as [|f']; [cbn in E; discriminate|]. rewrite (process_leaves f' _ PM msgs1 Hleaf) in E.
    apply exec_leaves_same in E; [|exact Hleaf]. destruct E as (_ & _ & _ & _ & _ & Hp & _). exact Hp. }
  assert (Hb1 : pm_buffer s1 = Some b).
  { pose proof Hps as Hps'. apply perform_swap_spec in Hps'.
    destruct Hps' as (p & oi & ai & oc & ac & odd & add & _ & _ & _ & _ & _ & _ & Hs').
    rewrite Hs'. cbn [pm_buffer pm_save_pool pm_with_pools]. rewrite Hpma. exact Hb. }
  destruct (handle_reply w1 PM 1) as [[w2' rsubs]|er] eqn:Er; [|discriminate].
  destruct (reply_pm _ _ _ _ Er) as (b' & Hb' & -> & ->).
  assert (b' = b) as -> by (rewrite Hpm1, Hb1 in Hb'; congruence).
  rewrite Hpm1 in H.
  fold (second_leg b) in H.
  destruct (process f (set_pm w1 (pm_with_buffer s1 None)) PM [second_leg b]) as [[w3|e3] fl3] eqn:E3; [|discriminate].
  destruct f as [|f']; [cbn in E; discriminate|]. rewrite process_nil in H. inversion H; subst w3 fl; clear H.
  exists wa, fla, s1, msgs1, w1, fl1, fl3.
  rewrite <- Hpma. repeat (split; [first [reflexivity | assumption]|]). exact E3.
Qed.

Theorem process_pool : forall f, P f.
Proof.
  induction f as [|f IHf]; intros w c subs w' fl H Hinv Hsmall Hlist Hnb; [cbn in H; discriminate|].
  revert w H Hinv Hsmall Hlist Hnb. induction subs as [|s rest IHs]; intros w H Hinv Hsmall Hlist Hnb.
  - rewrite process_nil in H. inversion H; subst. split; [exact Hinv|]. split; [reflexivity|].
    split.
    { destruct (String.eqb c PM) eqn:Ec; [|apply Hnb; reflexivity].
      destruct (Hlist eq_refl) as [[_ Hb]|(b & od & h & ask & sim & pid & ss & _ & _ & _ & _ & Heq)]; [exact Hb | discriminate]. }
    intros d. destruct (String.eqb c PM); cbn [outP]; lia.
  - destruct (String.eqb c PM) eqn:Ec.
    + apply String.eqb_eq in Ec. subst c. destruct (Hlist eq_refl) as [[Hpl Hbuf] | Hsingle].
      * (* fire-and-forget messages *)
        rewrite process_cons in H. inversion Hsmall as [|x xs Hs1 Hsr]; subst.
        inversion Hpl as [|x xs [Hrn _] Hpl']; subst.
        destruct (exec_sub f w PM s) as [[w1|e] fl1] eqn:E.
        -- destruct (exec_sub_step f IHf _ _ _ _ _ E Hinv Hs1 Hbuf) as (Hinv1 & Htf1 & Hb1 & Hsl1).
           rewrite Hrn in H. cbn [wants_success] in H.
           assert (Hnb1 : true = false -> pm_buffer (w_pm w1) = None) by (intros C; discriminate).
           destruct (IHs w1 H Hinv1 Hsr (fun _ => or_introl (conj Hpl' Hb1)) Hnb1) as (Hinv' & Htf' & Hb' & Hsl').
           split; [exact Hinv'|]. split; [rewrite Htf'; exact Htf1|]. split; [exact Hb'|].
           intros d. specialize (Hsl1 d). specialize (Hsl' d).
           try rewrite String.eqb_refl in Hsl1; try rewrite String.eqb_refl in Hsl'; cbv iota in Hsl1, Hsl'.
           cbn [outP]. rewrite (outP1_plain _ _ _ Hrn). rewrite Htf1 in Hsl'. lia.
        -- rewrite Hrn in H. cbn [wants_error] in H. discriminate.
      * (* the swap leg of a single-asset provision, its reply, and the deposit the reply sends *)
        destruct Hsingle as (b & od & h & ask & sim & pid & ss & Hb & Hoh & Hea & Hsim & Heq).
        inversion Heq; subst s rest; clear Heq.
        destruct (single_chain _ _ _ _ _ _ _ _ _ _ _ Hb Hoh Hea Hsim H)
          as (wa & fla & s1 & msgs1 & w1 & fl1 & fl3 & Eb & Hx & Hps & Hleaf & E & Hpm1 & Hb1 & E3).
        pose proof (fun d => funds_transfer_pm w PM PM [(od, h)] wa fla d Eb) as Htr.
        destruct (Htr "") as (Hsa & _ & _).
        pose proof (pinv_same _ _ Hsa Hinv) as Hinva.
        destruct Hsa as (_ & Htfa & _ & _ & _ & Hpma & Hfma).
        destruct (accounted_swap_self _ _ _ _ _ _ _ Hx) as (offer & sc & Hone & Hps' & _ & _ & Hacc).
        apply one_coin_single in Hone. subst offer.
        assert (sc = sim) as -> by (rewrite Hpma in Hps'; congruence).
        (* the swap's own bank messages *)
        assert (Hw1 : same_contracts (set_pm wa s1) w1 /\ forall d, bal (w_bank wa) PM d - outP (w_tf_fee wa) msgs1 d <= bal (w_bank w1) PM d).
        { destruct f as [|f']; [cbn in E; discriminate|]. rewrite (process_leaves f' _ PM msgs1 Hleaf) in E.
          apply (exec_leaves_pm msgs1 _ _ _ Hleaf E). }
        destruct Hw1 as [Hs1 Hbal1].
        assert (Hinv2' : pinv (set_pm w1 (pm_with_buffer s1 None))).
        { destruct Hinva as [(F1 & F2 & F3) F4]. destruct Hs1 as (_ & Ht1 & _ & _ & _ & _ & Hf1).
          (* creation fee: a swap does not touch the configuration *)
          pose proof Hps as Hps2. apply perform_swap_spec in Hps2.
          destruct Hps2 as (p & oi & ai & oc & ac & odd & add & _ & _ & _ & _ & _ & _ & Hs').
          split; [|cbn [w_fm set_pm]; rewrite Hf1; cbn [w_fm set_pm]; exact F4]. unfold fees_small. cbn [w_tf_fee set_pm w_pm pm_with_buffer pm_cfg]. rewrite Ht1. cbn [w_tf_fee set_pm].
          split; [exact F1 | split; [exact F2|]]. rewrite Hs'. cbn [pm_cfg pm_save_pool pm_with_pools]. rewrite <- Hpma. exact F3. }
        set (w2' := set_pm w1 (pm_with_buffer s1 None)) in *.
        assert (Hl3 : pm_list_ok w2' [second_leg b]).
        { left. split; [constructor; [split; [reflexivity | exact I] | constructor] | reflexivity]. }
        assert (Hnb3 : String.eqb PM PM = false -> pm_buffer (w_pm w2') = None) by (intros _; reflexivity).
        destruct (IHf _ _ _ _ _ E3 Hinv2' (list_ok_small _ _ Hl3) (fun _ => Hl3) Hnb3) as (Hinv3 & Htf3 & Hb3 & Hsl3).
        split; [exact Hinv3|].
        split. { rewrite Htf3. unfold w2'. cbn [w_tf_fee set_pm]. destruct Hs1 as (_ & Ht1 & _). rewrite Ht1. cbn [w_tf_fee set_pm]. exact Htfa. }
        split; [exact Hb3|].
        intros d. specialize (Hsl3 d). specialize (Hacc d). specialize (Hbal1 d).
        try rewrite String.eqb_refl in Hsl3; cbv iota in Hsl3.
        destruct (Htr d) as (_ & Hbal & Hcn). rewrite String.eqb_refl in Hbal.
        unfold slackP in *. unfold w2' in Hsl3. cbn [w_bank set_pm w_pm w_tf_fee] in Hsl3.
        assert (Hres' : res (pm_with_buffer s1 None) d = res s1 d) by reflexivity. rewrite Hres' in Hsl3.
        rewrite Hpma in Hacc. rewrite Htfa in Hacc, Hbal1.
        unfold second_leg in Hsl3. rewrite Hoh, Hea in Hsl3.
        unfold single_elem.
        cbn [outP outP1 plain sm_msg sm_reply wants_success camt denom_of amount_of fst snd] in *.
        unfold ind in *. destruct (String.eqb od d), (String.eqb ask d); lia.
    + (* any other contract *)
      rewrite process_cons in H. inversion Hsmall as [|x xs Hs1 Hsr]; subst.
      pose proof (Hnb eq_refl) as Hbuf.
      assert (Hrep : forall wr, pinv wr -> pm_buffer (w_pm wr) = None -> forall w2 rsubs, handle_reply wr c (sm_id s) = Ok (w2, rsubs) ->
                forall w3 fl3, process f w2 c rsubs = (Ok w3, fl3) ->
                pinv w3 /\ w_tf_fee w3 = w_tf_fee wr /\ pm_buffer (w_pm w3) = None /\ forall d, slackP wr d <= slackP w3 d).
      { intros wr Hir Hbr w2 rsubs Er w3 fl3 Ep. destruct (reply_not_pm _ _ _ _ _ Ec Er) as (-> & Hp2 & Hb2 & Ht2 & Hf2).
        destruct f as [|f']; [cbn in Ep; discriminate|]. rewrite process_nil in Ep. inversion Ep; subst w3 fl3.
        split; [|split; [exact Ht2|split; [rewrite Hp2; exact Hbr|]]].
        - destruct Hir as [(F1 & F2 & F3) F4]. unfold pinv, fees_small. rewrite Ht2, Hp2, Hf2. split; [split; [exact F1 | split; [exact F2 | exact F3]] | exact F4].
        - intros d. unfold slackP. rewrite Hb2, Hp2. lia. }
      assert (Hcont : forall w1, pinv w1 -> w_tf_fee w1 = w_tf_fee w -> pm_buffer (w_pm w1) = None -> (forall d, slackP w d <= slackP w1 d) ->
                process (S f) w1 c rest = (Ok w', fl) ->
                pinv w' /\ w_tf_fee w' = w_tf_fee w /\ pm_buffer (w_pm w') = None /\ forall d, slackP w d - 0 <= slackP w' d).
      { intros w1 Hi1 Ht1 Hb1 Hs1' Hp.
        assert (Hnl : false = true -> pm_list_ok w1 rest) by (intros C; discriminate).
        destruct (IHs w1 Hp Hi1 Hsr Hnl (fun _ => Hb1)) as (Hinv' & Htf' & Hb' & Hsl').
        split; [exact Hinv'|]. split; [rewrite Htf'; exact Ht1|]. split; [exact Hb'|].
        intros d. specialize (Hsl' d). specialize (Hs1' d). try rewrite Ec in Hsl'. cbv iota in Hsl'. lia. }
      destruct (exec_sub f w c s) as [[w1|e] fl1] eqn:E.
      * destruct (exec_sub_step f IHf _ _ _ _ _ E Hinv Hs1 Hbuf) as (Hinv1 & Htf1 & Hb1 & Hsl1).
        assert (Hsl1' : forall d, slackP w d <= slackP w1 d) by (intros d; specialize (Hsl1 d); try rewrite Ec in Hsl1; cbv iota in Hsl1; lia).
        destruct (wants_success (sm_reply s)).
        -- destruct (handle_reply w1 c (sm_id s)) as [[w2 rsubs]|er] eqn:Er; [|discriminate].
           destruct (process f w2 c rsubs) as [[w3|e3] fl3] eqn:Ep; [|discriminate].
           destruct (Hrep w1 Hinv1 Hb1 _ _ Er _ _ Ep) as (Hi3 & Ht3 & Hb3 & Hs3).
           apply (Hcont w3 Hi3); [rewrite Ht3; exact Htf1 | exact Hb3 | | exact H].
           intros d. specialize (Hsl1' d). specialize (Hs3 d). lia.
        -- apply (Hcont w1 Hinv1 Htf1 Hb1 Hsl1' H).
      * destruct (wants_error (sm_reply s)); [|discriminate]. cbv zeta in H.
        destruct (handle_reply (set_fault w fl1) c (sm_id s)) as [[w2 rsubs]|er] eqn:Er; [|discriminate].
        destruct (process f w2 c rsubs) as [[w3|e3] fl3] eqn:Ep; [|discriminate].
        assert (Hir : pinv (set_fault w fl1)) by (eapply pinv_same; [apply same_contracts_set_fault | exact Hinv]).
        destruct (Hrep _ Hir Hbuf _ _ Er _ _ Ep) as (Hi3 & Ht3 & Hb3 & Hs3).
        apply (Hcont w3 Hi3); [rewrite Ht3; reflexivity | exact Hb3 | | exact H].
        intros d. specialize (Hs3 d). unfold slackP in *. cbn [w_bank w_pm set_fault] in Hs3. exact Hs3.
Qed.

(* ---------- every operation of a history ---------- *)
Definition pool_custody (w : world) : Prop := pinv w /\ backed w /\ pm_buffer (w_pm w) = None.

Definition op_okP (o : op) : Prop :=
  match o with
  | Tx sender target m funds => sender <> PM /\ small_call (plain (MWasm target m funds))   (* a contract cannot sign a transaction *)
  | BankSendOp from _ _ => from <> PM
  | _ => True
  end.

Lemma pool_custody_same w w' :
  w_tf_fee w' = w_tf_fee w -> w_pm w' = w_pm w -> w_fm w' = w_fm w -> w_bank w' = w_bank w -> pool_custody w -> pool_custody w'.
Proof.
  intros Ht Hp Hf Hb [[(F1 & F2 & F3) F4] [Hbk Hbuf]]. split; [|split].
  - unfold pinv, fees_small. rewrite Ht, Hp, Hf. split; [split; [exact F1 | split; [exact F2 | exact F3]] | exact F4].
  - intros d. unfold slackP. rewrite Hb, Hp. apply Hbk.
  - rewrite Hp. exact Hbuf.
Qed.

Lemma step_pool_custody w o : op_okP o -> pool_custody w -> pool_custody (fst (step w o)).
Proof.
  intros Hok Hc. destruct o as [b|sender target m funds|from to amount|k]; cbn [step].
  - cbn [fst]. eapply pool_custody_same; [| | | |exact Hc]; reflexivity.
  - destruct Hok as [Hsender Hsm].
    destruct (run_tx w sender target m funds) as [w'|e] eqn:E; cbn [fst].
    + eapply (pool_custody_same w'); [reflexivity | reflexivity | reflexivity | reflexivity|].
      unfold run_tx in E. destruct (process FUEL w sender [plain (MWasm target m funds)]) as [[w1|e1] fl] eqn:Ep; cbn [fst] in E; [|discriminate].
      inversion E; subst w1. destruct Hc as [Hi [Hbk Hbuf]].
      assert (Hsf : String.eqb sender PM = false) by (apply String.eqb_neq; exact Hsender).
      assert (Hnl : String.eqb sender PM = true -> pm_list_ok w [plain (MWasm target m funds)]) by (intros C; rewrite Hsf in C; discriminate).
      destruct (process_pool FUEL _ _ _ _ _ Ep Hi (Forall_cons _ Hsm (Forall_nil _)) Hnl (fun _ => Hbuf)) as (Hi' & _ & Hb' & Hsl).
      split; [exact Hi'|]. split; [|exact Hb']. intros d. specialize (Hsl d). rewrite Hsf in Hsl. specialize (Hbk d). lia.
    + eapply pool_custody_same; [| | | |exact Hc]; reflexivity.
  - destruct (bank_send (w_bank w) from to amount) as [b'|e] eqn:Eb; cbn [fst]; [|exact Hc].
    destruct Hc as [Hi [Hbk Hbuf]]. split; [eapply pinv_same; [apply same_contracts_set_bank | exact Hi]|]. split; [|exact Hbuf].
    intros d. specialize (Hbk d). unfold slackP in *. cbn [w_bank w_pm set_bank].
    apply bank_send_spec in Eb. destruct Eb as [Hnn Hb]. rewrite Hb.
    assert (Hf : String.eqb PM from = false) by (apply String.eqb_neq; cbn in Hok; congruence). rewrite Hf.
    pose proof (camt_nonneg _ d Hnn). unfold ind. destruct (String.eqb PM to); lia.
  - cbn [fst]. eapply pool_custody_same; [| | | |exact Hc]; reflexivity.
Qed.

(* C01: after ANY history of operations by any users (rejected operations, injected faults, single-asset
   provisions, routed swaps, calls between the contracts included) the pool manager's balance covers, per
   denom, the sum of the reserves of all pools — and no single-asset bookkeeping is left behind (C14) *)
Theorem run_pool_custody ops : forall w, Forall op_okP ops -> pool_custody w -> pool_custody (run w ops).
Proof.
  induction ops as [|o r IH]; intros w Hok Hc; cbn [run fold_left]; [exact Hc|].
  inversion Hok as [|x xs Ho Hr]; subst. apply IH; [exact Hr | apply step_pool_custody; assumption].
Qed.

(* genesis: no pools yet *)
Lemma genesis_pool_custody g w :
  genesis_world g = Ok w -> 0 <= amount_of (fm_create_fee (g_fm g)) ->
  NoDup (map denom_of (g_tf_fee g)) -> (forall f, In f (g_tf_fee g) -> 0 <= amount_of f <= HALF_U128) ->
  0 <= amount_of (g_pm_fee g) <= HALF_U128 ->
  pool_custody w.
Proof.
  intros H Hfee Hnd Htf Hpf. pose proof (genesis_custody _ _ H Hfee) as [Hfm _].
  unfold genesis_world in H.
  apply bind_ok in H. destruct H as [b [Hb H]].
  apply bind_ok in H. destruct H as [em [_ H]].
  apply bind_ok in H. destruct H as [fc [_ H]].
  apply bind_ok in H. destruct H as [fm [_ H]].
  apply bind_ok in H. destruct H as [pm [Hpm H]]. inversion H; subst w; clear H.
  unfold pm_instantiate in Hpm. inv_all.
  split; [|split].
  - split; [|exact Hfm]. unfold fees_small. cbn. split; [exact Hnd | split; [exact Htf | exact Hpf]].
  - intros d. unfold slackP, res. cbn [w_pm w_bank set_pm set_fm set_fc set_em pm_pools ssum].
    assert (G : forall bs b0 b1, foldM (fun b ac => match snd ac with [] => Ok b | _ => bank_mint b (fst ac) (snd ac) end) bs b0 = Ok b1 ->
                 0 <= bal b0 PM d -> 0 <= bal b1 PM d).
    { induction bs as [|ac rest IH]; intros b0 b1 Hf H0; cbn [foldM] in Hf; [inversion Hf; subst; exact H0|].
      apply bind_ok in Hf. destruct Hf as [b2 [H2 Hf]]. apply (IH _ _ Hf).
      destruct (snd ac) eqn:Es; [inversion H2; subst; exact H0|].
      apply bank_mint_spec in H2. destruct H2 as [Hnn Hbal]. rewrite Hbal. pose proof (camt_nonneg _ d Hnn). unfold ind.
      destruct (String.eqb PM (fst ac)); lia. }
    unfold init_bank in Hb. specialize (G _ _ _ Hb). cbn in G. lia.
  - reflexivity.
Qed.

(* the statement of C01 spelled out: from genesis, through any history *)
Theorem reachable_backed g w0 ops :
  genesis_world g = Ok w0 -> 0 <= amount_of (fm_create_fee (g_fm g)) ->
  NoDup (map denom_of (g_tf_fee g)) -> (forall f, In f (g_tf_fee g) -> 0 <= amount_of f <= HALF_U128) ->
  0 <= amount_of (g_pm_fee g) <= HALF_U128 ->
  Forall op_okP ops ->
  forall d, ssum (fun p => camt (p_assets p) d) (pm_pools (w_pm (run w0 ops))) <= bal (w_bank (run w0 ops)) PM d.
Proof.
  intros Hg H1 H2 H3 H4 Hops d.
  pose proof (run_pool_custody ops w0 Hops (genesis_pool_custody _ _ Hg H1 H2 H3 H4)) as [_ [Hb _]].
  specialize (Hb d). unfold slackP, res, res_pool in Hb. lia.
Qed.

(* C14: no single-asset bookkeeping survives any transaction of any history *)
Theorem reachable_no_buffer g w0 ops :
  genesis_world g = Ok w0 -> 0 <= amount_of (fm_create_fee (g_fm g)) ->
  NoDup (map denom_of (g_tf_fee g)) -> (forall f, In f (g_tf_fee g) -> 0 <= amount_of f <= HALF_U128) ->
  0 <= amount_of (g_pm_fee g) <= HALF_U128 ->
  Forall op_okP ops -> pm_buffer (w_pm (run w0 ops)) = None.
Proof.
  intros Hg H1 H2 H3 H4 Hops.
  exact (proj2 (proj2 (run_pool_custody ops w0 Hops (genesis_pool_custody _ _ Hg H1 H2 H3 H4)))).
Qed.

(* non-vacuity: a genesis configuration and a history that meet every hypothesis *)
Example op_okP_example :
  op_okP (Tx "alice" PM (WPm (PmWithdraw "p.1")) [("lp", 5)]) /\ op_okP (BankSendOp "bob" PM [("uom", 7)]) /\
  op_okP (Tx "owner" PM (WPm (PmUpdateConfig None None (Some ("uom", 1000)) None)) []).
Proof. repeat split; try discriminate; cbn; unfold HALF_U128; lia. Qed.
