From Coq Require Import ZArith Lia.
Open Scope Z_scope.
Lemma div_lt_mul a b : 0 < b -> a < b * (a / b + 1).
Proof. intros Hb. pose proof (Z.div_mod a b ltac:(lia)). pose proof (Z.mod_pos_bound a b Hb). lia. Qed.
Lemma div_le_mul a b : 0 < b -> b * (a / b) <= a.
Proof. intros Hb. pose proof (Z.div_mod a b ltac:(lia)). pose proof (Z.mod_pos_bound a b Hb). lia. Qed.

Lemma reverse_core E F X Y a inv bc d2 q o r fees :
  0 < E -> 0 <= F < E -> 0 <= a <= E -> 0 <= X -> 0 <= Y ->
  inv = E * E / (E - F) -> bc = a * inv / E -> d2 = Y - bc - 1 -> 1 <= d2 -> q = X * Y / d2 ->
  o = q - X + 1 -> r = Y * o / (X + o) -> 0 <= fees <= r * F / E ->
  a <= r - fees.
Proof.
  intros HE HF Ha HX HY Hinv Hbc Hd2 Hd2p Hq Ho Hr Hfees.
  assert (HEF : 0 < E - F) by lia.
  assert (Hq0 : 0 <= q) by (subst q; apply Z.div_pos; [apply Z.mul_nonneg_nonneg; assumption | lia]).
  assert (Hxo : X + o = q + 1) by lia.
  assert (Hr1 : bc + 1 <= r).
  { subst r. rewrite Hxo. apply Z.div_le_lower_bound; [lia|].
    pose proof (div_lt_mul (X * Y) d2 ltac:(lia)) as H1. rewrite <- Hq in H1.
    (* (q+1)(bc+1) <= Y (q - X + 1)  <=>  d2 (q+1) >= X Y ... *)
    replace (Y * o) with (Y * (q + 1) - X * Y) by (subst o; ring).
    replace Y with (d2 + bc + 1) at 1 by lia.
    replace ((d2 + bc + 1) * (q + 1) - X * Y) with ((q + 1) * (bc + 1) + (d2 * (q + 1) - X * Y)) by ring. lia. }
  assert (Hbc1 : a * inv < E * (bc + 1)) by (subst bc; apply div_lt_mul; lia).
  assert (Hinv1 : E * E < (E - F) * (inv + 1)) by (subst inv; apply div_lt_mul; lia).
  assert (Hinv0 : 0 <= inv) by (subst inv; apply Z.div_pos; [apply Z.mul_nonneg_nonneg; lia | lia]).
  assert (Hbc0 : 0 <= bc) by (subst bc; apply Z.div_pos; [apply Z.mul_nonneg_nonneg; lia | lia]).
  assert (Hf2 : E * fees <= r * F).
  { pose proof (div_le_mul (r * F) E HE) as H0. assert (E * fees <= E * (r * F / E)) by (apply Z.mul_le_mono_nonneg_l; lia). lia. }
  destruct (Z_le_gt_dec a (r - fees)) as [Hok|Hbad]; [exact Hok|]. exfalso.
  (* E net >= r (E - F) >= (bc+1)(E - F) *)
  assert (Hnet : r * (E - F) <= E * (r - fees)) by (replace (r * (E - F)) with (r * E - r * F) by ring; replace (E * (r - fees)) with (r * E - E * fees) by ring; lia).
  assert (Hn2 : (bc + 1) * (E - F) <= r * (E - F)) by (apply Z.mul_le_mono_nonneg_r; lia).
  (* multiply by E *)
  assert (Hn3 : E * ((bc + 1) * (E - F)) <= E * (E * (r - fees))) by (apply Z.mul_le_mono_nonneg_l; lia).
  assert (Hn4 : (a * inv + 1) * (E - F) <= E * (bc + 1) * (E - F)) by (apply Z.mul_le_mono_nonneg_r; lia).
  assert (Hn5 : a * (E * E - (E - F) + 1) <= a * (inv * (E - F))).
  { apply Z.mul_le_mono_nonneg_l; [lia|]. replace ((E - F) * (inv + 1)) with (inv * (E - F) + (E - F)) in Hinv1 by ring. lia. }
  assert (Hn6 : E * (E * (r - fees)) <= E * (E * (a - 1))).
  { apply Z.mul_le_mono_nonneg_l; [lia|]. apply Z.mul_le_mono_nonneg_l; lia. }
  assert (Hn7 : a * (E - F) <= E * E).
  { assert (a * (E - F) <= E * (E - F)) by (apply Z.mul_le_mono_nonneg_r; lia).
    assert (E * (E - F) <= E * E) by (apply Z.mul_le_mono_nonneg_l; lia). lia. }
  replace (E * (bc + 1) * (E - F)) with (E * ((bc + 1) * (E - F))) in Hn4 by ring.
  replace ((a * inv + 1) * (E - F)) with (a * (inv * (E - F)) + (E - F)) in Hn4 by ring.
  replace (a * (E * E - (E - F) + 1)) with (a * (E * E) - a * (E - F) + a) in Hn5 by ring.
  replace (E * (E * (a - 1))) with (a * (E * E) - E * E) in Hn6 by ring.
  lia.
Qed.
