(* BankProofs.v — the bank module: effect of send / burn / mint on every balance; sums over keyed lists. *)
From MD.Model Require Import Base Ownable Epoch PoolMath Types.
From MD.Proofs Require Import Tactics MapLemmas.

(* amount of denom d in a coin list *)
Fixpoint camt (cs : list coin) (d : string) : Z :=
  match cs with
  | [] => 0
  | c :: r => (if String.eqb (denom_of c) d then amount_of c else 0) + camt r d
  end.

Lemma camt_app a b d : camt (a ++ b) d = camt a d + camt b d.
Proof. induction a as [|c r IH]; cbn; [reflexivity | rewrite IH; lia]. Qed.

Lemma camt_nonneg cs d : forallb (fun c => 0 <=? amount_of c) cs = true -> 0 <= camt cs d.
Proof.
  induction cs as [|c r IH]; cbn; [lia|]. intros H. apply andb_true_iff in H. destruct H as [H1 H2].
  specialize (IH H2). destruct (String.eqb (denom_of c) d); lia.
Qed.

Lemma camt_filter_nonzero cs d : camt (filter (fun c => negb (amount_of c =? 0)) cs) d = camt cs d.
Proof.
  induction cs as [|c r IH]; cbn; [reflexivity|].
  destruct (amount_of c =? 0) eqn:E; cbn; rewrite IH; [|reflexivity].
  destruct (String.eqb (denom_of c) d); lia.
Qed.

Lemma bank_normalize_spec cs n :
  bank_normalize cs = Ok n ->
  forallb (fun c => 0 <=? amount_of c) cs = true /\ (forall d, camt n d = camt cs d) /\
  forallb (fun c => 0 <=? amount_of c) n = true.
Proof.
  unfold bank_normalize. destruct (forallb (fun c => 0 <=? amount_of c) cs) eqn:E; cbn [negb]; [|discriminate].
  intros H. set (r := filter (fun c => negb (amount_of c =? 0)) cs) in *.
  assert (n = r) as -> by (destruct r; [discriminate | inversion H; reflexivity]).
  split; [reflexivity|]. split; [intros d; apply camt_filter_nonzero|].
  unfold r. clear - E. induction cs as [|c l IH]; cbn in *; [reflexivity|].
  apply andb_true_iff in E. destruct E as [E1 E2]. destruct (amount_of c =? 0); cbn; rewrite ?E1; auto.
Qed.

(* ---------- balances ---------- *)
Lemma bkey_eqb_refl k : bkey_eqb k k = true.
Proof. unfold bkey_eqb. rewrite !String.eqb_refl. reflexivity. Qed.
Lemma bkey_eqb_eq a b : bkey_eqb a b = true <-> a = b.
Proof.
  unfold bkey_eqb. destruct a as [a1 a2], b as [b1 b2]; cbn. rewrite andb_true_iff, !String.eqb_eq.
  split; [intros [-> ->]; reflexivity | intros H; inversion H; auto].
Qed.
Lemma bkey_eqb_sym a b : bkey_eqb a b = bkey_eqb b a.
Proof. unfold bkey_eqb. rewrite (String.eqb_sym (fst a)), (String.eqb_sym (snd a)). reflexivity. Qed.

Lemma bal_get_set_same l k v : bal_get (bal_set l k v) k = v.
Proof.
  induction l as [|[k' v'] r IH]; cbn; [rewrite bkey_eqb_refl; reflexivity|].
  destruct (bkey_eqb k k') eqn:E; cbn; rewrite E; [reflexivity | exact IH].
Qed.
Lemma bal_get_set_other l k k2 v : k2 <> k -> bal_get (bal_set l k v) k2 = bal_get l k2.
Proof.
  intros Hne. assert (Hf : bkey_eqb k2 k = false).
  { destruct (bkey_eqb k2 k) eqn:E; [apply bkey_eqb_eq in E; congruence | reflexivity]. }
  induction l as [|[k' v'] r IH]; cbn; [rewrite Hf; reflexivity|].
  destruct (bkey_eqb k k') eqn:E; cbn.
  - apply bkey_eqb_eq in E. subst k'. rewrite Hf. reflexivity.
  - destruct (bkey_eqb k2 k'); [reflexivity | exact IH].
Qed.

Definition ind (b : bool) (z : Z) : Z := if b then z else 0.

Lemma bal_sub_spec cs : forall l a l',
  bal_sub l a cs = Ok l' ->
  forall a' d, bal_get l' (a', d) = bal_get l (a', d) - ind (String.eqb a' a) (camt cs d).
Proof.
  induction cs as [|c r IH]; intros l a l' H a' d; cbn [bal_sub foldM] in H.
  - inversion H; subst. cbn. unfold ind. destruct (String.eqb a' a); lia.
  - unfold bal_sub in IH. apply bind_ok in H. destruct H as [l1 [H1 H]].
    destruct (bal_get l (a, denom_of c) <? amount_of c); [discriminate|]. inversion H1; subst l1; clear H1.
    rewrite (IH _ _ _ H a' d). cbn [camt]. unfold ind.
    destruct (String.eqb a' a) eqn:Ea.
    + apply String.eqb_eq in Ea. subst a'.
      destruct (String.eqb (denom_of c) d) eqn:Ed.
      * apply String.eqb_eq in Ed. subst d. rewrite bal_get_set_same. lia.
      * rewrite bal_get_set_other by (intros C; inversion C; subst; rewrite String.eqb_refl in Ed; discriminate). lia.
    + rewrite bal_get_set_other by (intros C; inversion C; subst; rewrite String.eqb_refl in Ea; discriminate). lia.
Qed.

Lemma bal_add_spec cs : forall l a l',
  bal_add l a cs = Ok l' ->
  forall a' d, bal_get l' (a', d) = bal_get l (a', d) + ind (String.eqb a' a) (camt cs d).
Proof.
  induction cs as [|c r IH]; intros l a l' H a' d; cbn [bal_add foldM] in H.
  - inversion H; subst. cbn. unfold ind. destruct (String.eqb a' a); lia.
  - unfold bal_add in IH. apply bind_ok in H. destruct H as [l1 [H1 H]].
    apply bind_ok in H1. destruct H1 as [v [Hv H1]]. unfold cadd in Hv. apply chk_ok in Hv. destruct Hv as [-> _].
    inversion H1; subst l1; clear H1.
    rewrite (IH _ _ _ H a' d). cbn [camt]. unfold ind.
    destruct (String.eqb a' a) eqn:Ea.
    + apply String.eqb_eq in Ea. subst a'.
      destruct (String.eqb (denom_of c) d) eqn:Ed.
      * apply String.eqb_eq in Ed. subst d. rewrite bal_get_set_same. lia.
      * rewrite bal_get_set_other by (intros C; inversion C; subst; rewrite String.eqb_refl in Ed; discriminate). lia.
    + rewrite bal_get_set_other by (intros C; inversion C; subst; rewrite String.eqb_refl in Ea; discriminate). lia.
Qed.

(* effect of the three bank operations on any balance *)
Lemma bank_send_spec b from to cs b' :
  bank_send b from to cs = Ok b' ->
  forallb (fun c => 0 <=? amount_of c) cs = true /\
  forall a d, bal b' a d = bal b a d - ind (String.eqb a from) (camt cs d) + ind (String.eqb a to) (camt cs d).
Proof.
  unfold bank_send. intros H.
  apply bind_ok in H. destruct H as [n [Hn H]]. apply bank_normalize_spec in Hn. destruct Hn as (Hnn & Hc & _).
  apply bind_ok in H. destruct H as [l1 [H1 H]].
  apply bind_ok in H. destruct H as [l2 [H2 H]]. inversion H; subst b'; clear H.
  split; [exact Hnn|]. intros a d. unfold bal. cbn [b_bal].
  rewrite (bal_add_spec _ _ _ _ H2), (bal_sub_spec _ _ _ _ H1), !Hc. reflexivity.
Qed.

Lemma bank_burn_spec b from cs b' :
  bank_burn b from cs = Ok b' ->
  forallb (fun c => 0 <=? amount_of c) cs = true /\
  forall a d, bal b' a d = bal b a d - ind (String.eqb a from) (camt cs d).
Proof.
  unfold bank_burn. intros H.
  apply bind_ok in H. destruct H as [n [Hn H]]. apply bank_normalize_spec in Hn. destruct Hn as (Hnn & Hc & _).
  apply bind_ok in H. destruct H as [l1 [H1 H]]. inversion H; subst b'; clear H.
  split; [exact Hnn|]. intros a d. unfold bal. cbn [b_bal]. rewrite (bal_sub_spec _ _ _ _ H1), Hc. reflexivity.
Qed.

Lemma bank_mint_spec b to cs b' :
  bank_mint b to cs = Ok b' ->
  forallb (fun c => 0 <=? amount_of c) cs = true /\
  forall a d, bal b' a d = bal b a d + ind (String.eqb a to) (camt cs d).
Proof.
  unfold bank_mint. intros H.
  apply bind_ok in H. destruct H as [n [Hn H]]. apply bank_normalize_spec in Hn. destruct Hn as (Hnn & Hc & _).
  apply bind_ok in H. destruct H as [l1 [H1 H]]. inversion H; subst b'; clear H.
  split; [exact Hnn|]. intros a d. unfold bal. cbn [b_bal]. rewrite (bal_add_spec _ _ _ _ H1), Hc. reflexivity.
Qed.

(* ---------- sums over identifier-keyed lists ---------- *)
Section Sums.
  Context {A : Type} (key : A -> string) (f : A -> Z).
  Fixpoint ssum (l : list A) : Z := match l with [] => 0 | x :: r => f x + ssum r end.

  Lemma ssum_sreplace v l old : sfind key (key v) l = Some old -> ssum (sreplace key v l) = ssum l - f old + f v.
  Proof.
    induction l as [|x r IH]; cbn; [discriminate|].
    destruct (String.eqb (key v) (key x)) eqn:E; cbn.
    - intros H; inversion H; subst. lia.
    - intros H. rewrite (IH H). lia.
  Qed.
  Lemma ssum_sins v l : ssum (sins_sorted key v l) = f v + ssum l.
  Proof.
    induction l as [|x r IH]; cbn; [lia|].
    destruct (String.ltb (key v) (key x)); cbn; [lia | rewrite IH; lia].
  Qed.
  Lemma ssum_sinsert v l :
    ssum (sinsert key v l) = ssum l - (match sfind key (key v) l with Some o => f o | None => 0 end) + f v.
  Proof.
    unfold sinsert. destruct (sfind key (key v) l) eqn:E; [apply ssum_sreplace; exact E | rewrite ssum_sins; lia].
  Qed.
  Lemma ssum_sremove k l :
    ssum (sremove key k l) = ssum l - (match sfind key k l with Some o => f o | None => 0 end).
  Proof.
    induction l as [|x r IH]; cbn; [lia|].
    destruct (String.eqb k (key x)) eqn:E; cbn; [lia | rewrite IH; lia].
  Qed.
  Lemma ssum_nonneg l : (forall x, In x l -> 0 <= f x) -> 0 <= ssum l.
  Proof.
    induction l as [|x r IH]; cbn; [lia|]. intros H.
    assert (0 <= f x) by (apply H; left; reflexivity). assert (0 <= ssum r) by (apply IH; intros y Hy; apply H; right; exact Hy). lia.
  Qed.
  Lemma ssum_in_le x l : (forall y, In y l -> 0 <= f y) -> In x l -> f x <= ssum l.
  Proof.
    induction l as [|y r IH]; cbn; [intros _ []|]. intros H [->|Hin].
    - assert (0 <= ssum r) by (apply ssum_nonneg; intros z Hz; apply H; right; exact Hz). lia.
    - assert (0 <= f y) by (apply H; left; reflexivity).
      assert (f x <= ssum r) by (apply IH; [intros z Hz; apply H; right; exact Hz | exact Hin]). lia.
  Qed.
End Sums.

(* ---------- aggregate_coins keeps the per-denom totals ---------- *)
Lemma agg_insert_camt c l r d : agg_insert c l = Ok r -> camt r d = camt l d + ind (String.eqb (denom_of c) d) (amount_of c).
Proof.
  revert r. induction l as [|x rest IH]; intros r H; cbn [agg_insert] in H.
  - inversion H; subst. cbn. unfold ind. destruct (String.eqb (denom_of c) d); lia.
  - destruct (String.compare (denom_of c) (denom_of x)) eqn:C.
    + apply bind_ok in H. destruct H as [s [Hs H]]. unfold cadd in Hs. apply chk_ok in Hs. destruct Hs as [-> _].
      inversion H; subst. apply String.compare_eq_iff in C. cbn [camt denom_of amount_of fst snd]. rewrite C. unfold ind.
      destruct (String.eqb (denom_of x) d); lia.
    + inversion H; subst. cbn [camt]. unfold ind. destruct (String.eqb (denom_of c) d); lia.
    + apply bind_ok in H. destruct H as [r' [Hr H]]. inversion H; subst. cbn [camt]. rewrite (IH _ Hr). lia.
Qed.

Lemma aggregate_coins_camt l : forall acc r d,
  foldM (fun acc c => agg_insert c acc) l acc = Ok r -> camt r d = camt acc d + camt l d.
Proof.
  induction l as [|c rest IH]; intros acc r d H; cbn [foldM] in H.
  - inversion H; subst. cbn. lia.
  - apply bind_ok in H. destruct H as [acc' [Ha H]]. rewrite (IH _ _ d H), (agg_insert_camt _ _ _ d Ha). cbn [camt]. unfold ind.
    destruct (String.eqb (denom_of c) d); lia.
Qed.

Lemma aggregate_camt l r d : aggregate_coins l = Ok r -> camt r d = camt l d.
Proof. unfold aggregate_coins. intros H. rewrite (aggregate_coins_camt _ _ _ d H). cbn. lia. Qed.
