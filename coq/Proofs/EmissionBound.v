(* C06, the per-epoch emission bound: what one farm pays for one epoch to ANY set of users is at most the epoch's emission,
   provided the users' weights add up to no more than the total weight used as the divisor (the clause of C10 that holds
   outside the saturating-subtraction class F-sat). *)
From Coq Require Import ZArith List Lia.
Import ListNotations.
Open Scope Z_scope.

Fixpoint zsum (l : list Z) : Z := match l with [] => 0 | x :: r => x + zsum r end.

Lemma div_add_le a b t : 0 < t -> a / t + b / t <= (a + b) / t.
Proof.
  intros Ht. pose proof (Z.div_mod a t ltac:(lia)). pose proof (Z.div_mod b t ltac:(lia)).
  pose proof (Z.mod_pos_bound a t Ht). pose proof (Z.mod_pos_bound b t Ht).
  apply Z.div_le_lower_bound; [exact Ht|]. lia.
Qed.

Lemma zsum_floor_le rate t ws :
  0 < t -> zsum (map (fun w => rate * w / t) ws) <= (rate * zsum ws) / t.
Proof.
  intros Ht. induction ws as [|w r IH]; cbn [map zsum].
  - rewrite Z.mul_0_r, Z.div_0_l by lia. lia.
  - pose proof (div_add_le (rate * w) (rate * zsum r) t Ht). replace (rate * (w + zsum r)) with (rate * w + rate * zsum r) by lia. lia.
Qed.

(* the rewards floor(rate * w_i / total) of any users whose weights w_i sum to at most total add up to at most rate *)
Theorem epoch_emission_bound rate total ws :
  0 <= rate -> 0 < total -> zsum ws <= total ->
  zsum (map (fun w => rate * w / total) ws) <= rate.
Proof.
  intros Hr Ht Hs. pose proof (zsum_floor_le rate total ws Ht) as H.
  assert ((rate * zsum ws) / total <= rate).
  { apply Z.div_le_upper_bound; [exact Ht|]. nia. }
  lia.
Qed.

(* and over any number of epochs: at most rate per epoch *)
Theorem emission_bound_over_epochs rate (epochs : list (Z * list Z)) :
  0 <= rate -> Forall (fun tw => 0 < fst tw /\ zsum (snd tw) <= fst tw) epochs ->
  zsum (map (fun tw => zsum (map (fun w => rate * w / fst tw) (snd tw))) epochs) <= rate * Z.of_nat (List.length epochs).
Proof.
  intros Hr H. induction H as [|[t ws] r [Ht Hs] Hrest IH]; cbn [map zsum List.length]; [lia|].
  pose proof (epoch_emission_bound rate t ws Hr Ht Hs). cbn [fst snd] in *. lia.
Qed.
