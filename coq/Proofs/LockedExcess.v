(* C01, the excess clause for LOCKED deposits: a deposit of two or more assets whose LP is locked in the farm manager
   (the pool manager mints the LP to itself and forwards it with a position message) leaves the pool manager's surplus
   unchanged in every denom, except for the minimum liquidity of a first deposit. *)
From Coq Require Import ZArith List String Lia Bool.
From MD.Model Require Import Base Ownable Epoch Types PoolMath PoolManager FarmManager Chain.
From MD.Proofs Require Import Tactics Arith PoolMathProofs MapLemmas BankProofs SlippageProofs ChainProofs PmProofs PmChainProofs LiquidityProofs FarmProofs
  PoolCustody PoolCustodyChain SingleSided TxBalances TxExcess.
Import ListNotations.
Open Scope Z_scope.

Lemma process_leaves_then f w c ls rest :
  forallb plain_leaf ls = true ->
  process (S f) w c (ls ++ rest) =
  match exec_leaves w c ls with (Ok w1, _) => process (S f) w1 c rest | (Err e, fl) => (Err e, fl) end.
Proof.
  revert w. induction ls as [|s r IH]; intros w H; [reflexivity|].
  cbn [forallb] in H. apply andb_true_iff in H. destruct H as [Hs Hr].
  unfold plain_leaf in Hs. apply andb_true_iff in Hs. destruct Hs as [Hl Hrep].
  cbn [app]. rewrite process_cons. rewrite exec_sub_leaf by exact Hl. cbn [exec_leaves].
  destruct (sm_reply s); try discriminate. cbn [wants_success wants_error].
  destruct (exec_leaf w c (sm_msg s)) as [[w'|e] fl]; [apply IH; exact Hr | reflexivity].
Qed.

(* the handler: reserves grow by the attached coins; the messages are the minimum-liquidity mint of a first deposit, the mint
   of the depositor's shares to the pool manager itself, and one call of the farm manager carrying exactly those shares *)
Lemma provide_locked_exact w sender funds ls ss r pid dur l s' msgs d0 d1 rest :
  aggregate_coins funds = Ok (d0 :: d1 :: rest) ->
  provide_liquidity w sender funds ls ss r pid (Some dur) l = Ok (s', msgs) ->
  exists p shares first fmmsg,
    pool_find (w_pm w) pid = Ok p /\
    (first = [] \/ exists ml, 0 <= ml /\ first = [plain (MTfMint (p_lp p, ml) PM)]) /\
    msgs = (first ++ [plain (MTfMint (p_lp p, shares) PM);
                      plain (MWasm (pm_farm_manager (pm_cfg (w_pm w))) (WFm fmmsg) [(p_lp p, shares)])])%list /\
    ((exists id rcv, fmmsg = FmPosCreate id dur (Some rcv)) \/ (exists id, fmmsg = FmPosExpand id)) /\
    forall d, res s' d = res (w_pm w) d + camt funds d.
Proof.
  intros Hagg H. unfold provide_liquidity, mint_lp_msg in H.
  apply bind_ok in H. destruct H as [p [Hp H]].
  apply bind_ok in H. destruct H as [[] [_ H]].
  rewrite Hagg in H. cbn [bind] in H.
  apply bind_ok in H. destruct H as [[] [_ H]].
  apply bind_ok in H. destruct H as [[] [_ H]].
  apply bind_ok in H. destruct H as [ts [_ H]].
  apply bind_ok in H. destruct H as [[shares msgs0] [Hm0 H]].
  apply bind_ok in H. destruct H as [pa' [Hpa H]].
  apply bind_ok in H. destruct H as [msgs1 [Hm1 H]].
  apply bind_ok in H. destruct H as [assets'' [Hadd H]]. inversion H; subst s' msgs; clear H.
  assert (Hfirst : msgs0 = [] \/ exists ml, 0 <= ml /\ msgs0 = [plain (MTfMint (p_lp p, ml) PM)]).
  { clear Hm1 Hadd Hpa. destruct (p_type p) as [|amp].
    - destruct (ts =? 0).
      + right. inv_all. exists MINIMUM_LIQUIDITY_AMOUNT. split; [unfold MINIMUM_LIQUIDITY_AMOUNT; lia | reflexivity].
      + left. inv_all. reflexivity.
    - apply bind_ok in Hm0. destruct Hm0 as [ms [Hms Hm0]].
      apply bind_ok in Hm0. destruct Hm0 as [na [_ Hm0]].
      apply bind_ok in Hm0. destruct Hm0 as [sh [_ Hm0]]. inversion Hm0; subst.
      destruct (ts =? 0); [|inversion Hms; left; reflexivity].
      apply bind_ok in Hms. destruct Hms as [[] [_ Hms]].
      apply bind_ok in Hms. destruct Hms as [[] [_ Hms]].
      apply bind_ok in Hms. destruct Hms as [ml [Hml Hms]].
      apply bind_ok in Hms. destruct Hms as [m [Hmint Hms]].
      apply bind_ok in Hmint. destruct Hmint as [[] [_ Hmint]]. inversion Hmint; subst m. inversion Hms; subst.
      right. exists ml. split; [|reflexivity].
      unfold min_liquidity_stableswap in Hml. apply normalize_amount_nonneg in Hml; [exact Hml | unfold MINIMUM_LIQUIDITY_AMOUNT; lia]. }
  assert (Hres : forall d, res (pm_save_pool (w_pm w) (pool_with_assets p assets'')) d = res (w_pm w) d + camt funds d).
  { intros d. rewrite (res_save_pool _ _ _ d (pool_find_id _ _ _ Hp)).
    fold (add_deposits (d0 :: d1 :: rest) pa') in Hadd.
    rewrite (add_deposits_camt _ _ _ d Hadd), (slippage_tolerance_camt _ _ _ _ _ d Hpa), (aggregate_camt _ _ d Hagg). lia. }
  apply bind_ok in Hm1. destruct Hm1 as [[] [_ Hm1]].
  apply bind_ok in Hm1. destruct Hm1 as [m [Hmint Hm1]].
  apply bind_ok in Hmint. destruct Hmint as [[] [_ Hmint]]. inversion Hmint; subst m; clear Hmint.
  destruct l as [lid|].
  - destruct (q_position w (pm_farm_manager (pm_cfg (w_pm w))) lid) as [pos|e].
    + apply bind_ok in Hm1. destruct Hm1 as [[] [_ Hm1]]. inversion Hm1; subst msgs1.
      exists p, shares, msgs0, (FmPosExpand lid). split; [exact Hp|]. split; [exact Hfirst|]. split; [reflexivity|]. split; [right; eauto | exact Hres].
    + inversion Hm1; subst msgs1.
      exists p, shares, msgs0, (FmPosCreate (Some lid) dur (Some (addr_or_default w r sender))).
      split; [exact Hp|]. split; [exact Hfirst|]. split; [reflexivity|]. split; [left; eauto | exact Hres].
  - inversion Hm1; subst msgs1.
    exists p, shares, msgs0, (FmPosCreate None dur (Some (addr_or_default w r sender))).
    split; [exact Hp|]. split; [exact Hfirst|]. split; [reflexivity|]. split; [left; eauto | exact Hres].
Qed.

Lemma bank_call_send_bal w c t funds wa fla :
  bank_call w (fun b => bank_send b c t funds) = (Ok wa, fla) ->
  same_contracts w wa /\
  forall a d, bal (w_bank wa) a d = bal (w_bank w) a d - ind (String.eqb a c) (camt funds d) + ind (String.eqb a t) (camt funds d).
Proof.
  intros Eb. split; [eapply bank_call_same; exact Eb|].
  unfold bank_call, fault_tick in Eb. destruct (w_fault w) as [k|];
    try (destruct (k =? 0); [discriminate|]); cbn [w_bank set_fault] in Eb;
    (destruct (bank_send (w_bank w) c t funds) as [b'|e] eqn:Ebs; [|discriminate]);
    inversion Eb; subst; cbn [w_bank set_bank set_fault]; intros a d;
    apply bank_send_spec in Ebs; destruct Ebs as [_ Hb]; rewrite Hb; reflexivity.
Qed.

Lemma transfer_bal w c t funds wa fla :
  (match funds with [] => (Ok w, w_fault w) | _ => bank_call w (fun b => bank_send b c t funds) end) = (Ok wa, fla) ->
  same_contracts w wa /\
  forall a d, bal (w_bank wa) a d = bal (w_bank w) a d - ind (String.eqb a c) (camt funds d) + ind (String.eqb a t) (camt funds d).
Proof.
  destruct funds as [|f0 fr].
  - intros H. inversion H; subst. split; [apply same_contracts_refl|]. intros a d. cbn [camt]. unfold ind. destruct (String.eqb a c), (String.eqb a t); lia.
  - apply bank_call_send_bal.
Qed.

(* A deposit of two or more assets whose LP is locked in the farm manager: the pool manager's surplus is unchanged in every
   denom, except that a pool's first deposit adds the minimum liquidity in the LP denom. *)
Theorem locked_provide_tx_excess w sender funds ls ss r pid dur l w' d0 d1 rest :
  sender <> PM -> pm_farm_manager (pm_cfg (w_pm w)) = FM ->
  aggregate_coins funds = Ok (d0 :: d1 :: rest) ->
  run_tx w sender PM (WPm (PmProvide ls ss r pid (Some dur) l)) funds = Ok w' ->
  exists p minliq,
    pool_find (w_pm w) pid = Ok p /\ 0 <= minliq /\
    forall d, slackP w' d = slackP w d + ind (String.eqb (p_lp p) d) minliq.
Proof.
  intros Hs Hfm Hagg H. unfold run_tx in H.
  destruct (process FUEL w sender [plain (MWasm PM (WPm (PmProvide ls ss r pid (Some dur) l)) funds)]) as [[wx|ex] flx] eqn:Ep; cbn [fst] in H; [|discriminate].
  inversion H; subst wx; clear H. unfold FUEL in Ep.
  destruct (plain_call _ _ _ _ _ _ _ _ Ep) as (wa & fla & w2 & subs2 & fl2 & Eb & Eh & E2).
  destruct (transfer_bal _ _ _ _ _ _ Eb) as [Hsa Hbala].
  apply handle_ok_typed in Eh. destruct Eh as (Eh & _ & _).
  unfold handle_typed in Eh. cbn [String.eqb EM FC PM FM Ascii.eqb Bool.eqb] in Eh.
  apply bind_ok in Eh. destruct Eh as [[s1 msgs1] [Hx Eh]]. inversion Eh; subst w2 subs2; clear Eh. cbn [pm_execute] in Hx.
  destruct (provide_locked_exact _ _ _ _ _ _ _ _ _ _ _ _ _ _ Hagg Hx) as (p & shares & first & fmmsg & Hp & Hfirst & Hm & Hfmm & Hres).
  pose proof Hsa as (_ & Htfa & _ & _ & _ & Hpma & _).
  rewrite Hpma, Hfm in Hm. subst msgs1.
  replace (first ++ [plain (MTfMint (p_lp p, shares) PM); plain (MWasm FM (WFm fmmsg) [(p_lp p, shares)])])%list
    with ((first ++ [plain (MTfMint (p_lp p, shares) PM)]) ++ [plain (MWasm FM (WFm fmmsg) [(p_lp p, shares)])])%list in E2
    by (rewrite <- app_assoc; reflexivity).
  assert (Hleaves : forallb plain_leaf (first ++ [plain (MTfMint (p_lp p, shares) PM)]) = true).
  { rewrite forallb_app. destruct Hfirst as [->|(ml & _ & ->)]; reflexivity. }
  rewrite (process_leaves_then 6 _ PM _ _ Hleaves) in E2.
  destruct (exec_leaves (set_pm wa s1) PM (first ++ [plain (MTfMint (p_lp p, shares) PM)])) as [[w3|e3] fl3] eqn:El; [|discriminate].
  pose proof (exec_leaves_same _ _ _ _ _ Hleaves El) as Hs3.
  pose proof (fun a d => exec_leaves_bal _ _ _ _ _ a d Hleaves El) as Hbal3.
  destruct (plain_call _ _ _ _ _ _ _ _ E2) as (wb & flb & w5 & subs5 & fl5 & Eb2 & Eh2 & E5).
  destruct (bank_call_send_bal _ _ _ _ _ _ Eb2) as [Hsb Hbalb].
  apply handle_ok_typed in Eh2. destruct Eh2 as (Eh2 & _ & _).
  unfold handle_typed in Eh2. cbn [String.eqb EM FC PM FM Ascii.eqb Bool.eqb] in Eh2.
  apply bind_ok in Eh2. destruct Eh2 as [[s5 msgs5] [Hx5 Eh2]]. inversion Eh2; subst w5 subs5; clear Eh2.
  assert (Hm5 : msgs5 = []).
  { destruct Hfmm as [(id & rcv & ->)|(id & ->)]; cbn [fm_execute] in Hx5.
    - apply create_position_spec in Hx5. tauto.
    - apply expand_position_spec in Hx5. tauto. }
  subst msgs5. rewrite process_nil in E5. inversion E5; subst w'; clear E5.
  exists p. destruct Hfirst as [->|(ml & Hml & ->)].
  - exists 0. rewrite <- Hpma. split; [exact Hp|]. split; [lia|]. intros d.
    unfold slackP. cbn [w_pm w_bank set_fm].
    destruct Hsb as (_ & _ & _ & _ & _ & Hpmb & _). destruct Hs3 as (_ & _ & _ & _ & _ & Hpm3 & _). cbn [w_pm set_pm] in Hpm3.
    rewrite Hpmb, Hpm3, Hres, Hpma, Hbalb, Hbal3. cbn [w_bank set_pm]. rewrite Hbala.
    cbn [app leaves_eff leaf_eff plain sm_msg camt denom_of amount_of fst snd].
    assert (Hsp : String.eqb PM sender = false) by (apply String.eqb_neq; congruence).
    rewrite Hsp, !String.eqb_refl. change (String.eqb PM FM) with false. unfold ind. destruct (String.eqb (p_lp p) d); lia.
  - exists ml. rewrite <- Hpma. split; [exact Hp|]. split; [exact Hml|]. intros d.
    unfold slackP. cbn [w_pm w_bank set_fm].
    destruct Hsb as (_ & _ & _ & _ & _ & Hpmb & _). destruct Hs3 as (_ & _ & _ & _ & _ & Hpm3 & _). cbn [w_pm set_pm] in Hpm3.
    rewrite Hpmb, Hpm3, Hres, Hpma, Hbalb, Hbal3. cbn [w_bank set_pm]. rewrite Hbala.
    cbn [app leaves_eff leaf_eff plain sm_msg camt denom_of amount_of fst snd].
    assert (Hsp : String.eqb PM sender = false) by (apply String.eqb_neq; congruence).
    rewrite Hsp, !String.eqb_refl. change (String.eqb PM FM) with false. unfold ind. destruct (String.eqb (p_lp p) d); lia.
Qed.
