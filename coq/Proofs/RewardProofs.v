(* RewardProofs.v — reward computation and claims (C06, C07): what is provable on the model. *)
From MD.Model Require Import Base Ownable Epoch PoolMath Types PoolManager FarmManager.
From MD.Proofs Require Import Tactics Arith PoolMathProofs MapLemmas WeightProofs FarmProofs.

(* ---------- per-epoch reward of one farm ---------- *)
(* every entry produced by farm_rewards is for an epoch in (cursor, until], not before the farm starts, not at or
   after its end, and equals floor(rate * user weight / total weight) with the weights in effect that epoch *)
Lemma farm_rewards_entries s f lp recv until lc rs :
  farm_rewards s f lp recv until lc = Ok rs ->
  exists start, start_from_epoch s (f_lp f) recv lc = Ok start /\
    (match lc with Some c => start = c + 1 | None => True end) /\
    forall e r, In (e, r) rs ->
      start <= e /\ e <= until /\ f_start f <= e /\ e < f_end f /\
      exists total, contract_weight_at (fm_weights s) lp start e = Ok (Some total) /\ total <> 0 /\
        r = f_rate f * address_weight_at (fm_weights s) recv lp start e / total /\
        r + f_claimed f <= amount_of (f_asset f).
Proof.
  unfold farm_rewards. intros H.
  apply bind_ok in H. destruct H as [start [Hs H]].
  apply bind_ok in H. destruct H as [[] [_ H]].
  apply bind_ok in H. destruct H as [cw0 [_ H]].
  apply bind_ok in H. destruct H as [[] [He H]]. apply ensure_ok in He.
  exists start. split; [exact Hs|]. split.
  { destruct lc as [c|]; [|exact I]. unfold start_from_epoch in Hs. destruct (in_range U64_MAX (c + 1)); inversion Hs; reflexivity. }
  set (ue := if f_end f <=? until then f_end f - 1 else until) in *.
  assert (Hue : ue <= until /\ ue < f_end f) by (unfold ue; destruct (f_end f <=? until) eqn:E; lia).
  set (P := fun acc : list (Z * Z) => forall e r, In (e, r) acc ->
              start <= e /\ e <= until /\ f_start f <= e /\ e < f_end f /\
              exists total, contract_weight_at (fm_weights s) lp start e = Ok (Some total) /\ total <> 0 /\
                r = f_rate f * address_weight_at (fm_weights s) recv lp start e / total /\
                r + f_claimed f <= amount_of (f_asset f)).
  assert (HP : P rs).
  { eapply (foldM_inv P); [| |exact H].
    - intros acc e acc' Hin Hstep HPacc. unfold P in *.
      assert (Her : start <= e <= ue).
      { unfold epoch_range in Hin. destruct (ue <? start) eqn:E; [destruct Hin|].
        apply in_map_iff in Hin. destruct Hin as (k & <- & Hk). apply in_seq in Hk. lia. }
      destruct (e <? f_start f) eqn:Ef; [inversion Hstep; subst; exact HPacc|].
      apply bind_ok in Hstep. destruct Hstep as [tw [Htw Hstep]].
      destruct tw as [total|]; [|inversion Hstep; subst; exact HPacc].
      destruct (total =? 0) eqn:E0; [inversion Hstep; subst; exact HPacc|].
      apply bind_ok in Hstep. destruct Hstep as [reward [Hr Hstep]]. apply chk_ok in Hr. destruct Hr as [-> _].
      apply bind_ok in Hstep. destruct Hstep as [sum [Hsum Hstep]]. unfold cadd in Hsum. apply chk_ok in Hsum. destruct Hsum as [-> _].
      apply bind_ok in Hstep. destruct Hstep as [[] [Hle Hstep]]. apply ensure_ok in Hle. inversion Hstep; subst acc'.
      intros e' r' Hin'. apply in_app_iff in Hin'. destruct Hin' as [Hin'|[Heq|[]]]; [apply HPacc; exact Hin'|].
      inversion Heq; subst e' r'. repeat split; try lia. exists total. repeat split; auto; lia.
    - unfold P. intros e r []. }
  exact HP.
Qed.

(* ---------- claims: budgets, cursor ---------- *)
Lemma claim_farm_update_bounded modified : forall fs fs',
  foldM (fun fs m =>
           let* f := of_option (sfind f_id (fst m) fs) "panic: unwrap on None" in
           let* c := cadd U128_MAX (f_claimed f) (snd m) in
           let* _ := ensure (c <=? amount_of (f_asset f)) "FarmExhausted" in
           Ok (sinsert f_id {| f_id := f_id f; f_owner := f_owner f; f_lp := f_lp f; f_asset := f_asset f;
                               f_claimed := c; f_rate := f_rate f; f_start := f_start f; f_end := f_end f |} fs))
        modified fs = Ok fs' ->
  Forall (fun m => 0 <= snd m) modified ->
  forall id f', sfind f_id id fs' = Some f' ->
    exists f, sfind f_id id fs = Some f /\ farm_same_but_claimed f f' \/ (sfind f_id id fs = Some f' /\ f = f').
Proof.
  induction modified as [|m r IH]; intros fs fs' H Hnn id f' Hf'; cbn [foldM] in H.
  - inversion H; subst. exists f'. right. auto.
  - apply bind_ok in H. destruct H as [fs1 [H1 H]].
    inversion Hnn as [|x xs Hm Hr]; subst.
    destruct (IH _ _ H Hr id f' Hf') as (f1 & Hcase).
    apply bind_ok in H1. destruct H1 as [f0 [Hf0 H1]]. apply of_option_ok in Hf0.
    apply bind_ok in H1. destruct H1 as [c [Hc H1]]. unfold cadd in Hc. apply chk_ok in Hc. destruct Hc as [-> _].
    apply bind_ok in H1. destruct H1 as [[] [Hle H1]]. apply ensure_ok in Hle. inversion H1; subst fs1; clear H1.
    set (g := {| f_id := f_id f0; f_owner := f_owner f0; f_lp := f_lp f0; f_asset := f_asset f0;
                 f_claimed := f_claimed f0 + snd m; f_rate := f_rate f0; f_start := f_start f0; f_end := f_end f0 |}) in *.
    pose proof (sfind_key _ _ _ _ Hf0) as Hk.
    assert (Hg : farm_same_but_claimed f0 g) by (unfold farm_same_but_claimed, g; cbn; repeat split; lia).
    destruct (String.eqb id (f_id f0)) eqn:E.
    + apply String.eqb_eq in E. subst id.
      assert (Hfind : sfind f_id (f_id f0) (sinsert f_id g fs) = Some g) by (change (f_id f0) with (f_id g); apply sfind_sinsert_same).
      rewrite <- Hk in Hf0.
      destruct Hcase as [[Hf1 Hsame] | [Hf1 ->]].
      * rewrite Hfind in Hf1. inversion Hf1; subst f1. exists f0. left. split; [exact Hf0|].
        unfold farm_same_but_claimed in *. cbn in *. intuition (try congruence; try lia).
      * rewrite Hfind in Hf1. inversion Hf1; subst f'. exists f0. left. split; [exact Hf0 | exact Hg].
    + apply String.eqb_neq in E.
      assert (Hother : sfind f_id id (sinsert f_id g fs) = sfind f_id id fs) by (apply sfind_sinsert_other; cbn; exact E).
      destruct Hcase as [[Hf1 Hsame] | [Hf1 ->]]; rewrite Hother in Hf1.
      * exists f1. left. auto.
      * exists f'. right. auto.
Qed.

(* ---------- the Rewards query equals what an immediate Claim pays (users staking one LP token) ---------- *)
Lemma lc_get_set l a v : lc_get (lc_set l a v) a = Some v.
Proof.
  induction l as [|[a' v'] r IH]; cbn; [rewrite String.eqb_refl; reflexivity|].
  destruct (String.eqb a a') eqn:E; cbn; rewrite ?E; [reflexivity | exact IH].
Qed.

Lemma claim_single_lp w sender until s' msgs lp :
  addr_valid w sender = true ->
  unique_lp_denoms (positions_by_receiver (w_fm w) sender true) = [lp] ->
  claim w sender [] until = Ok (s', msgs) ->
  exists ep u rewards modified,
    q_current_epoch w (fm_epoch_manager (fm_cfg (w_fm w))) = Ok ep /\
    until_epoch_or_current until (ep_id ep) = Ok u /\
    calculate_rewards (w_fm w) lp sender u = Ok (rewards, modified) /\
    query_rewards w (w_fm w) sender until = aggregate_coins rewards /\
    (match rewards with
     | [] => msgs = []
     | _ => exists agg, aggregate_coins rewards = Ok agg /\ msgs = [plain (MBankSend sender agg)]
     end) /\
    lc_get (fm_last_claimed s') sender = Some u.
Proof.
  intros Hav Hlp. unfold claim. cbn [nonpayable bind]. intros H.
  apply bind_ok in H. destruct H as [[] [Hne H]]. apply ensure_ok in Hne.
  apply bind_ok in H. destruct H as [ep [Hep H]].
  apply bind_ok in H. destruct H as [u [Hu H]].
  rewrite Hlp in H. cbn [foldM] in H.
  apply bind_ok in H. destruct H as [[s1 total] [Hf H]].
  apply bind_ok in Hf. destruct Hf as [acc1 [Hstep Hf]]. inversion Hf; subst acc1; clear Hf.
  cbn [fst snd] in Hstep.
  apply bind_ok in Hstep. destruct Hstep as [[rewards modified] [Hcr Hstep]].
  apply bind_ok in Hstep. destruct Hstep as [farms' [_ Hstep]].
  apply bind_ok in Hstep. destruct Hstep as [s2 [Hs2 Hstep]]. inversion Hstep; subst s1 total; clear Hstep.
  apply bind_ok in H. destruct H as [ms [Hms H]]. inversion H; subst s' msgs; clear H.
  exists ep, u, rewards, modified. split; [exact Hep|]. split; [exact Hu|]. split; [exact Hcr|]. split.
  - unfold query_rewards. rewrite Hav. cbn [ensure bind].
    destruct (positions_by_receiver (w_fm w) sender true) as [|p0 ps] eqn:Eo; [cbn in Hne; discriminate|].
    rewrite Hep. cbn [bind]. rewrite Hu. cbn [bind]. rewrite Hlp. cbn [foldM]. rewrite Hcr. cbn [bind app]. reflexivity.
  - split.
    + cbn [app] in Hms. destruct rewards as [|c r]; [inversion Hms; reflexivity|].
      apply bind_ok in Hms. destruct Hms as [agg [Hagg Hms]]. inversion Hms; subst. eauto.
    + cbn [fm_set_last_claimed fm_with fm_last_claimed]. apply lc_get_set.
Qed.

(* the paid epochs of a claim lie strictly after the cursor; the claim moves the cursor to its bound:
   no epoch can be paid twice to the same user *)
Lemma claim_moves_cursor w sender funds until s' msgs :
  claim w sender funds until = Ok (s', msgs) ->
  exists ep u, q_current_epoch w (fm_epoch_manager (fm_cfg (w_fm w))) = Ok ep /\
    until_epoch_or_current until (ep_id ep) = Ok u /\ u <= ep_id ep /\
    lc_get (fm_last_claimed s') sender = Some u.
Proof.
  unfold claim. intros H.
  apply bind_ok in H. destruct H as [[] [_ H]].
  apply bind_ok in H. destruct H as [[] [_ H]].
  apply bind_ok in H. destruct H as [ep [Hep H]].
  apply bind_ok in H. destruct H as [u [Hu H]].
  apply bind_ok in H. destruct H as [[s1 total] [_ H]].
  apply bind_ok in H. destruct H as [ms [_ H]]. inversion H; subst.
  exists ep, u. repeat split; auto.
  - unfold until_epoch_or_current in Hu. destruct until as [x|]; [|inversion Hu; lia].
    apply bind_ok in Hu. destruct Hu as [[] [Hle Hu]]. apply ensure_ok in Hle. inversion Hu; subst. lia.
  - cbn [fm_set_last_claimed fm_with fm_last_claimed]. apply lc_get_set.
Qed.
