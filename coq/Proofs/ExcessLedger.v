(* ExcessLedger.v — C01, the excess clause over histories of the core pool operations: for every denom that is not an LP
   denom, what the pool manager holds beyond the reported reserves after ANY history of swaps, routes, withdrawals,
   unlocked deposits (multi- and single-asset), bank sends, block changes and rejected operations is exactly the initial
   excess plus the tokens sent to it by plain bank sends plus one unit per accepted odd single-asset deposit. *)
From MD.Model Require Import Base Ownable Epoch PoolMath Types PoolManager FarmManager Chain.
From MD.Proofs Require Import LockedExcess SingleLockedExcess CreateExcess FarmSideExcess FarmRefundExcess Tactics Arith PoolMathProofs MapLemmas BankProofs SwapProofs ChainProofs PmProofs PmChainProofs LiquidityProofs
  AtomicProofs PoolCustody PoolCustodyChain SingleSided TxBalances TxExcess.

Definition asset_denom (d : string) : Prop := forall id, d <> lp_of_id id.

(* the operations covered *)
Definition covered_op (o : op) : Prop :=
  match o with
  | SetBlock _ | SetFault _ => True
  | BankSendOp from _ _ => from <> PM
  | Tx sender target m funds =>
      sender <> PM /\
      ((target = EM \/ target = FC) \/        (* the epoch manager and the fee collector: no concern of the pool manager *)
       (target = FM /\ match m with WFm _ => True | _ => False end) \/               (* every farm-manager message *)
      target = PM /\
      match m with
      | WPm (PmSwap _ _ _ r _) | WPm (PmRoute _ _ r _) | WPm (PmProvide _ _ r _ None _) => r <> Some PM
      | WPm (PmProvide _ _ _ _ (Some _) _) => True      (* LP locked in the farm manager (a nested contract call) *)
      | WPm (PmWithdraw _) => True
      | WPm (PmCreatePool _ _ _ _ _) => forall d, camt funds d <= U128_MAX       (* amounts of a real bank *)
      | WPm (PmOwnership _) | WPm (PmUpdateConfig _ _ _ _) => True
      | _ => False
      end)
  end.
Definition ok_state (w : world) : Prop :=
  pm_fee_collector (pm_cfg (w_pm w)) <> PM /\ pm_farm_manager (pm_cfg (w_pm w)) = FM /\ lp_inv (w_pm w) /\ fees_small w /\
  fm_payees_ok (w_fm w).

(* what an operation adds to the excess: only donations and the odd unit of an accepted single-asset deposit *)
Definition gift (w : world) (o : op) (d : string) : Z :=
  if snd (step w o) then
    match o with
    | BankSendOp _ to amt => if String.eqb to PM then camt amt d else 0
    | Tx _ _ (WPm (PmProvide _ _ _ _ _ _)) funds =>
        match aggregate_coins funds with
        | Ok [dep] => ind (String.eqb (denom_of dep) d) (amount_of dep mod 2)
        | _ => 0
        end
    | _ => 0
    end
  else 0.

Lemma addr_or_default_ne w r sender : sender <> PM -> r <> Some PM -> String.eqb PM (addr_or_default w r sender) = false.
Proof.
  intros Hs Hr. apply String.eqb_neq. unfold addr_or_default. destruct r as [a|]; [|congruence].
  destruct (addr_valid w a); [intros C; apply Hr; congruence | congruence].
Qed.

Lemma slackP_set_fault w fl d : slackP (set_fault w fl) d = slackP w d.
Proof. reflexivity. Qed.

Lemma pool_lp_not_asset w pid p d : lp_inv (w_pm w) -> asset_denom d -> pool_find (w_pm w) pid = Ok p -> String.eqb (p_lp p) d = false.
Proof.
  intros Hi Ha Hp. apply String.eqb_neq. apply pool_find_ok in Hp. rewrite (Hi _ _ Hp). intros C. apply (Ha (p_id p)). symmetry. exact C.
Qed.

(* a deposit whose aggregated funds are empty, or do not aggregate, is rejected *)
Lemma provide_needs_funds w sender funds ls ss r pid u l s' msgs :
  provide_liquidity w sender funds ls ss r pid u l = Ok (s', msgs) ->
  exists deps, aggregate_coins funds = Ok deps /\ deps <> [].
Proof.
  unfold provide_liquidity. intros H.
  apply bind_ok in H. destruct H as [p [_ H]].
  apply bind_ok in H. destruct H as [[] [_ H]].
  apply bind_ok in H. destruct H as [deps [Hd H]].
  apply bind_ok in H. destruct H as [[] [Hne _]]. apply ensure_ok in Hne.
  exists deps. split; [exact Hd|]. intros ->. cbn in Hne. discriminate.
Qed.

Lemma step_excess w o d :
  covered_op o -> ok_state w -> asset_denom d ->
  slackP (fst (step w o)) d = slackP w d + gift w o d.
Proof.
  intros Hc (Hfc & Hfmc & Hlp & Hsmall & Hpay) Hd. unfold gift.
  destruct o as [b|sender target m funds|from to amount|k]; cbn [step covered_op] in *.
  - cbn [fst snd]. unfold slackP. cbn [w_bank w_pm set_block]. lia.
  - destruct Hc as (Hs & [Hother | [(-> & Hfmm) | (-> & Hm)]]).
    { destruct (run_tx w sender target m funds) as [w'|e] eqn:E; cbn [fst snd]; [|rewrite slackP_set_fault; lia].
      rewrite slackP_set_fault, (em_fc_tx_excess _ _ _ _ _ _ Hs Hother E d).
      destruct m as [| |pm|]; try lia. destruct pm; try lia.
      (* a deposit message sent to the wrong contract is rejected: this branch is not reached with an accepted transaction *)
      exfalso. unfold run_tx in E. destruct (process FUEL w sender _) as [[wx|ex] flx] eqn:Ep; cbn [fst] in E; [|discriminate].
      unfold FUEL in Ep. destruct (plain_call _ _ _ _ _ _ _ _ Ep) as (wa & fla & w2 & subs2 & fl2 & _ & Eh & _).
      apply handle_ok_typed in Eh. destruct Eh as (Eh & _ & _). unfold handle_typed in Eh.
      destruct Hother as [->| ->]; cbn [String.eqb EM FC PM FM Ascii.eqb Bool.eqb] in Eh; discriminate. }
    { destruct m as [| | |fm]; try contradiction.
      destruct (run_tx w sender FM (WFm fm) funds) as [w'|e] eqn:E; cbn [fst snd]; [|rewrite slackP_set_fault; lia].
      rewrite slackP_set_fault, (any_fm_tx_excess _ _ _ _ _ Hs Hpay E d). lia. }
    destruct (run_tx w sender PM m funds) as [w'|e] eqn:E; cbn [fst snd]; [|rewrite slackP_set_fault; lia].
    rewrite slackP_set_fault.
    destruct m as [| |pm|]; try contradiction.
    destruct pm as [denoms decimals fees pt oid | ls ss r pid u l | ask bp ms r pid | pid | a | ops mr r ms | fc fm fee t]; try contradiction.
    + (* pool creation *)
      rewrite (create_pool_tx_excess _ _ _ _ _ _ _ _ _ Hs Hfc Hsmall Hm E d). lia.
    + (* deposits *)
      destruct u as [dur|].
      { (* locked in the farm manager *)
        destruct (run_tx_ok_handle _ _ _ _ _ _ E) as (w1 & w2 & subs & Hs1 & Eh).
        destruct (handle_pm_bank _ _ _ _ _ _ Eh) as (s1 & Hx & _). cbn [pm_execute] in Hx.
        destruct (provide_needs_funds _ _ _ _ _ _ _ _ _ _ _ Hx) as (deps & Hagg & Hne).
        rewrite Hagg. destruct deps as [|d0 [|d1 rest]]; [contradiction| |].
        - destruct (single_asset_locked_tx_excess _ _ _ _ _ _ _ _ _ _ _ Hs Hfmc Hagg E) as (p & askc & sim & minliq & Hp & _ & _ & Hex).
          rewrite Hex. rewrite (pool_lp_not_asset _ _ _ _ Hlp Hd Hp).
          assert (Hf : String.eqb PM (pm_fee_collector (pm_cfg (w_pm w))) = false) by (apply String.eqb_neq; congruence). rewrite Hf.
          unfold ind. lia.
        - destruct (locked_provide_tx_excess _ _ _ _ _ _ _ _ _ _ _ _ _ Hs Hfmc Hagg E) as (p & minliq & Hp & _ & Hex).
          rewrite Hex, (pool_lp_not_asset _ _ _ _ Hlp Hd Hp). unfold ind. lia. }
      destruct (run_tx_ok_handle _ _ _ _ _ _ E) as (w1 & w2 & subs & Hs1 & Eh).
      destruct (handle_pm_bank _ _ _ _ _ _ Eh) as (s1 & Hx & _). cbn [pm_execute] in Hx.
      destruct (provide_needs_funds _ _ _ _ _ _ _ _ _ _ _ Hx) as (deps & Hagg & Hne).
      rewrite Hagg. destruct deps as [|d0 [|d1 rest]]; [contradiction| |].
      * destruct (single_asset_tx_excess _ _ _ _ _ _ _ _ _ _ Hs Hagg E) as (p & askc & sim & shares & minliq & Hp & _ & _ & Hex).
        rewrite Hex. rewrite (pool_lp_not_asset _ _ _ _ Hlp Hd Hp).
        assert (Hf : String.eqb PM (pm_fee_collector (pm_cfg (w_pm w))) = false) by (apply String.eqb_neq; congruence). rewrite Hf.
        unfold ind. destruct (String.eqb PM (addr_or_default w (Some (addr_or_default w r sender)) PM)); lia.
      * destruct (provide_tx_excess _ _ _ _ _ _ _ _ _ _ _ _ Hs Hagg E) as (p & shares & minliq & Hp & _ & Hex).
        rewrite Hex, (pool_lp_not_asset _ _ _ _ Hlp Hd Hp). unfold ind. destruct (String.eqb PM (addr_or_default w r sender)); lia.
    + (* swap *)
      destruct (swap_tx_excess _ _ _ _ _ _ _ _ _ Hs E) as (offer & sc & _ & _ & Hex). rewrite Hex.
      rewrite (addr_or_default_ne w r sender Hs Hm).
      assert (Hf : String.eqb PM (pm_fee_collector (pm_cfg (w_pm w))) = false) by (apply String.eqb_neq; congruence). rewrite Hf.
      unfold ind. lia.
    + (* withdrawal *)
      rewrite (withdraw_tx_excess _ _ _ _ _ Hs E d). lia.
    + (* ownership *)
      rewrite (admin_tx_excess _ _ _ _ _ (or_introl (ex_intro _ a eq_refl)) E d). lia.
    + (* route *)
      destruct (route_tx_excess _ _ _ _ _ _ _ _ Hs Hfc E) as (lst & out & _ & Hex). rewrite Hex.
      rewrite (addr_or_default_ne w r sender Hs Hm). unfold ind. lia.
    + (* configuration, switches *)
      rewrite (admin_tx_excess _ _ _ _ _ (or_intror (ex_intro _ fc (ex_intro _ fm (ex_intro _ fee (ex_intro _ t eq_refl))))) E d). lia.
  - destruct (bank_send (w_bank w) from to amount) as [b'|e] eqn:Eb; cbn [fst snd]; [|lia].
    destruct (String.eqb to PM) eqn:Et.
    + apply String.eqb_eq in Et. subst to. apply (donation_excess _ _ _ _ Hc Eb).
    + unfold slackP. cbn [w_bank w_pm set_bank]. apply bank_send_spec in Eb. destruct Eb as [_ Hb]. rewrite Hb.
      assert (H1 : String.eqb PM from = false) by (apply String.eqb_neq; congruence).
      assert (H2 : String.eqb PM to = false) by (rewrite String.eqb_sym; exact Et).
      rewrite H1, H2. unfold ind. lia.
  - cbn [fst snd]. unfold slackP. cbn [w_bank w_pm set_fault]. lia.
Qed.

(* a history all of whose operations are covered, run from states with a distinct fee collector *)
Fixpoint good_run (w : world) (ops : list op) : Prop :=
  match ops with
  | [] => True
  | o :: r => covered_op o /\ ok_state w /\ good_run (fst (step w o)) r
  end.
Fixpoint ledger (w : world) (ops : list op) (d : string) : Z :=
  match ops with
  | [] => 0
  | o :: r => gift w o d + ledger (fst (step w o)) r d
  end.

Theorem excess_ledger ops : forall w d,
  good_run w ops -> asset_denom d -> slackP (run w ops) d = slackP w d + ledger w ops d.
Proof.
  induction ops as [|o r IH]; intros w d Hg Hd; cbn [run fold_left ledger good_run] in *; [lia|].
  destruct Hg as (Hc & Hok & Hg).
  change (fold_left (fun w0 o0 => fst (step w0 o0)) r (fst (step w o))) with (run (fst (step w o)) r).
  rewrite (IH _ d Hg Hd), (step_excess w o d Hc Hok Hd). lia.
Qed.

(* every entry of the ledger is a donation or an odd unit: never negative, and zero for every other operation *)
Lemma gift_nonneg w o d : covered_op o -> 0 <= gift w o d.
Proof.
  intros Hc. unfold gift. destruct (snd (step w o)) eqn:Es; [|lia].
  destruct o as [b|sender target m funds|from to amount|k]; try lia.
  - destruct m as [| |pm|]; try lia. destruct pm; try lia.
    destruct (aggregate_coins funds) as [[|dep [|x y]]|e]; try lia. unfold ind. destruct (String.eqb (denom_of dep) d); [|lia].
    apply Z.mod_pos_bound. lia.
  - destruct (String.eqb to PM); [|lia].
    cbn [step] in Es. destruct (bank_send (w_bank w) from to amount) as [b'|e] eqn:Eb; [|discriminate].
    apply bank_send_spec in Eb. destruct Eb as [Hnn _]. apply camt_nonneg. exact Hnn.
Qed.

(* the state conditions of [good_run] are decidable / invariant: LP denoms are canonical in every reachable world, and
   the fee collector and the farm manager address can be checked along the run *)
Fixpoint fc_ok_run (w : world) (ops : list op) : bool :=
  match ops with
  | [] => true
  | o :: r => negb (String.eqb (pm_fee_collector (pm_cfg (w_pm w))) PM) && String.eqb (pm_farm_manager (pm_cfg (w_pm w))) FM &&
              negb (String.eqb (fm_fee_collector (fm_cfg (w_fm w))) PM) &&
              forallb (fun f => negb (String.eqb (f_owner f) PM)) (fm_farms (w_fm w)) &&
              fc_ok_run (fst (step w o)) r
  end.

Lemma good_run_intro ops : forall w,
  lp_inv (w_pm w) -> pool_custody w -> Forall covered_op ops -> Forall op_okP ops -> fc_ok_run w ops = true -> good_run w ops.
Proof.
  induction ops as [|o r IH]; intros w Hl Hpc Hc Hok Hf; cbn [good_run fc_ok_run] in *; [exact I|].
  inversion Hc as [|x xs Ho Hr]; subst. inversion Hok as [|x xs Ho2 Hr2]; subst.
  apply andb_true_iff in Hf. destruct Hf as [Hf Hf2]. apply andb_true_iff in Hf. destruct Hf as [Hf Hf5].
  apply andb_true_iff in Hf. destruct Hf as [Hf Hf4]. apply andb_true_iff in Hf. destruct Hf as [Hf1 Hf3].
  split; [exact Ho|]. split.
  - split; [apply negb_true_iff in Hf1; apply String.eqb_neq in Hf1; exact Hf1|]. split; [apply String.eqb_eq; exact Hf3|].
    split; [exact Hl|]. destruct Hpc as [[Hfs [_ Hfee]] _]. split; [exact Hfs|].
    split; [apply negb_true_iff in Hf4; apply String.eqb_neq in Hf4; exact Hf4|]. split; [|exact Hfee].
    intros f Hin. rewrite forallb_forall in Hf5. specialize (Hf5 f Hin). apply negb_true_iff in Hf5. apply String.eqb_neq in Hf5. exact Hf5.
  - apply IH; [| apply step_pool_custody; assumption | exact Hr | exact Hr2 | exact Hf2].
    change (fst (step w o)) with (run w [o]). apply run_lp_inv. exact Hl.
Qed.

(* ---------- from genesis ---------- *)
Lemma genesis_lp_inv g w : genesis_world g = Ok w -> lp_inv (w_pm w).
Proof.
  intros H. unfold genesis_world in H.
  apply bind_ok in H. destruct H as [b [_ H]].
  apply bind_ok in H. destruct H as [em [_ H]].
  apply bind_ok in H. destruct H as [fc [_ H]].
  apply bind_ok in H. destruct H as [fm [_ H]].
  apply bind_ok in H. destruct H as [pm [Hpm H]]. inversion H; subst w; clear H.
  unfold pm_instantiate in Hpm. inv_all. intros id p Hf. cbn in Hf. discriminate.
Qed.

(* In every world w reached from genesis by ANY history ops1 (not signed by the pool manager), for every continuation ops2 of
   covered operations passing the run-time side conditions: excess after = excess before + ledger. *)
Theorem reachable_excess_ledger g w0 ops1 ops2 d :
  genesis_world g = Ok w0 -> 0 <= amount_of (fm_create_fee (g_fm g)) ->
  NoDup (map denom_of (g_tf_fee g)) -> (forall f, In f (g_tf_fee g) -> 0 <= amount_of f <= HALF_U128) ->
  0 <= amount_of (g_pm_fee g) <= HALF_U128 ->
  Forall op_okP ops1 ->
  let w := run w0 ops1 in
  Forall covered_op ops2 -> Forall op_okP ops2 -> fc_ok_run w ops2 = true -> asset_denom d ->
  slackP (run w ops2) d = slackP w d + ledger w ops2 d.
Proof.
  intros Hg H1 H2 H3 H4 Hops1 w Hc Hok Hf Hd.
  apply excess_ledger; [|exact Hd]. apply good_run_intro; try assumption.
  - apply run_lp_inv. eapply genesis_lp_inv; eauto.
  - apply run_pool_custody; [exact Hops1|]. eapply genesis_pool_custody; eauto.
Qed.
