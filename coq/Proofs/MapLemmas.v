(* MapLemmas.v — lemmas on the identifier-sorted association lists (Types.SortedById). *)
From MD.Model Require Import Base PoolMath Types.
From MD.Proofs Require Import Tactics.

Lemma ascii_compare_refl a : Ascii.compare a a = Eq.
Proof. unfold Ascii.compare. apply N.compare_refl. Qed.
Lemma compare_refl a : String.compare a a = Eq.
Proof. induction a as [|c r IH]; cbn; [reflexivity|]. rewrite ascii_compare_refl. exact IH. Qed.
Lemma compare_eq_eqb a b : String.compare a b = Eq <-> String.eqb a b = true.
Proof. rewrite String.eqb_eq. split; [apply String.compare_eq_iff | intros ->; apply compare_refl]. Qed.

Lemma compare_neq_eqb a b : String.compare a b <> Eq <-> String.eqb a b = false.
Proof. rewrite compare_eq_eqb. destruct (String.eqb a b); split; congruence. Qed.

Section Sorted.
  Context {A : Type} (key : A -> string).

  Lemma sfind_sreplace_same v l : sfind key (key v) l <> None -> sfind key (key v) (sreplace key v l) = Some v.
  Proof.
    induction l as [|x r IH]; cbn; [congruence|].
    destruct (String.eqb (key v) (key x)) eqn:E; cbn.
    - rewrite String.eqb_refl. reflexivity.
    - rewrite E. exact IH.
  Qed.

  Lemma sfind_sins_same v l : sfind key (key v) l = None -> sfind key (key v) (sins_sorted key v l) = Some v.
  Proof.
    induction l as [|x r IH]; cbn.
    - rewrite String.eqb_refl. reflexivity.
    - destruct (String.eqb (key v) (key x)) eqn:E; [discriminate|]. intros H.
      destruct (String.ltb (key v) (key x)); cbn.
      + rewrite String.eqb_refl. reflexivity.
      + rewrite E. apply IH. exact H.
  Qed.

  Lemma sfind_sinsert_same v l : sfind key (key v) (sinsert key v l) = Some v.
  Proof.
    unfold sinsert. destruct (sfind key (key v) l) eqn:E.
    - apply sfind_sreplace_same. congruence.
    - apply sfind_sins_same. exact E.
  Qed.

  Lemma sfind_sreplace_other k v l : k <> key v -> sfind key k (sreplace key v l) = sfind key k l.
  Proof.
    intros Hk. assert (Hf : String.eqb k (key v) = false) by (apply String.eqb_neq; exact Hk).
    induction l as [|x r IH]; cbn; [reflexivity|].
    destruct (String.eqb (key v) (key x)) eqn:E; cbn.
    - apply String.eqb_eq in E. rewrite Hf, <- E, Hf. reflexivity.
    - destruct (String.eqb k (key x)); [reflexivity | exact IH].
  Qed.

  Lemma sfind_sins_other k v l : k <> key v -> sfind key k (sins_sorted key v l) = sfind key k l.
  Proof.
    intros Hk. assert (Hf : String.eqb k (key v) = false) by (apply String.eqb_neq; exact Hk).
    induction l as [|x r IH]; cbn.
    - rewrite Hf. reflexivity.
    - destruct (String.ltb (key v) (key x)); cbn.
      + rewrite Hf. reflexivity.
      + destruct (String.eqb k (key x)); [reflexivity | exact IH].
  Qed.

  Lemma sfind_sinsert_other k v l : k <> key v -> sfind key k (sinsert key v l) = sfind key k l.
  Proof.
    intros Hk. unfold sinsert. destruct (sfind key (key v) l); [apply sfind_sreplace_other | apply sfind_sins_other]; exact Hk.
  Qed.

  Lemma sfind_key k l x : sfind key k l = Some x -> key x = k.
  Proof.
    induction l as [|y r IH]; cbn; [discriminate|].
    destruct (String.eqb k (key y)) eqn:E.
    - intros H; inversion H; subst. apply String.eqb_eq in E. auto.
    - exact IH.
  Qed.

  Lemma sfind_in k l x : sfind key k l = Some x -> In x l.
  Proof.
    induction l as [|y r IH]; cbn; [discriminate|].
    destruct (String.eqb k (key y)); intros H; [inversion H; auto | right; auto].
  Qed.

  Lemma sreplace_in v l x : In x (sreplace key v l) -> x = v \/ In x l.
  Proof.
    induction l as [|y r IH]; cbn; [auto|].
    destruct (String.eqb (key v) (key y)); cbn; intros [H|H]; auto. destruct (IH H); auto.
  Qed.
  Lemma sins_in v l x : In x (sins_sorted key v l) -> x = v \/ In x l.
  Proof.
    induction l as [|y r IH]; cbn.
    - intros [H|[]]; auto.
    - destruct (String.ltb (key v) (key y)); cbn; intros [H|H]; auto. destruct (IH H); auto.
  Qed.
  Lemma sinsert_in v l x : In x (sinsert key v l) -> x = v \/ In x l.
  Proof. unfold sinsert. destruct (sfind key (key v) l); [apply sreplace_in | apply sins_in]. Qed.

  Lemma sremove_in k l x : In x (sremove key k l) -> In x l.
  Proof.
    induction l as [|y r IH]; cbn; [auto|].
    destruct (String.eqb k (key y)); cbn; [auto|]. intros [H|H]; auto.
  Qed.

  Lemma sfind_sremove_other k k' l : k <> k' -> sfind key k (sremove key k' l) = sfind key k l.
  Proof.
    intros Hk. induction l as [|y r IH]; cbn; [reflexivity|].
    destruct (String.eqb k' (key y)) eqn:E; cbn.
    - apply String.eqb_eq in E. subst. assert (String.eqb k (key y) = false) as -> by (apply String.eqb_neq; exact Hk).
      reflexivity.
    - destruct (String.eqb k (key y)); [reflexivity | exact IH].
  Qed.
End Sorted.

(* ---------- strings ---------- *)
Lemma list_of_append a b :
  list_ascii_of_string (a ++ b) = (list_ascii_of_string a ++ list_ascii_of_string b)%list.
Proof. induction a as [|c r IH]; cbn; [reflexivity | rewrite IH; reflexivity]. Qed.

Lemma list_ascii_inj a b : list_ascii_of_string a = list_ascii_of_string b -> a = b.
Proof. intros H. rewrite <- (string_of_list_ascii_of_string a), <- (string_of_list_ascii_of_string b), H. reflexivity. Qed.

Lemma append_inv_head a x y : (a ++ x = a ++ y)%string -> x = y.
Proof. induction a as [|c r IH]; cbn; intros H; [exact H | inversion H; auto]. Qed.

Lemma append_inv_tail b x y : (x ++ b = y ++ b)%string -> x = y.
Proof.
  intros H. apply list_ascii_inj. apply (f_equal list_ascii_of_string) in H.
  rewrite !list_of_append in H. eapply app_inv_tail; eauto.
Qed.

Lemma wrap_inj a b x y : (a ++ x ++ b = a ++ y ++ b)%string -> x = y.
Proof. intros H. apply append_inv_head in H. eapply append_inv_tail; eauto. Qed.

(* decimal printing of counters is injective *)
From Coq Require Import DecimalString DecimalN DecimalPos.
Lemma N_to_uint_nonnil n : N.to_uint n <> Decimal.Nil.
Proof. destruct n; cbn; [discriminate | apply DecimalPos.Unsigned.to_uint_nonnil]. Qed.
Lemma string_of_Z_inj a b : 0 <= a -> 0 <= b -> string_of_Z a = string_of_Z b -> a = b.
Proof.
  unfold string_of_Z. intros Ha Hb H.
  assert (E : Some (N.to_uint (Z.to_N a)) = Some (N.to_uint (Z.to_N b))).
  { rewrite <- (NilZero.usu _ (N_to_uint_nonnil (Z.to_N a))), <- (NilZero.usu _ (N_to_uint_nonnil (Z.to_N b))). rewrite H. reflexivity. }
  inversion E as [E1]. apply (f_equal N.of_uint) in E1. rewrite !DecimalN.Unsigned.of_to in E1.
  apply (f_equal Z.of_N) in E1. rewrite !Z2N.id in E1 by lia. exact E1.
Qed.

(* ---------- uniqueness of keys is preserved by the map operations ---------- *)
Section Unique.
  Context {A : Type} (key : A -> string).

  Lemma sfind_none_notin k l : sfind key k l = None -> ~ In k (map key l).
  Proof.
    induction l as [|x r IH]; cbn; [tauto|]. destruct (String.eqb k (key x)) eqn:E; [discriminate|].
    intros H [C|C]; [subst; rewrite String.eqb_refl in E; discriminate | exact (IH H C)].
  Qed.

  Lemma map_key_sreplace v l : map key (sreplace key v l) = map key l.
  Proof.
    induction l as [|x r IH]; cbn; [reflexivity|].
    destruct (String.eqb (key v) (key x)) eqn:E; cbn; [apply String.eqb_eq in E; rewrite E; reflexivity | rewrite IH; reflexivity].
  Qed.

  Lemma in_map_key_sins v l k : In k (map key (sins_sorted key v l)) -> k = key v \/ In k (map key l).
  Proof.
    induction l as [|x r IH]; cbn; [intros H; destruct H as [H|H]; [left; auto | destruct H]|].
    destruct (String.ltb (key v) (key x)); cbn; intros [H|H]; auto. destruct (IH H); auto.
  Qed.

  Lemma NoDup_sins v l : ~ In (key v) (map key l) -> NoDup (map key l) -> NoDup (map key (sins_sorted key v l)).
  Proof.
    induction l as [|x r IH]; cbn; intros Hn Hd.
    - constructor; [tauto | constructor].
    - destruct (String.ltb (key v) (key x)); cbn.
      + constructor; [exact Hn | exact Hd].
      + inversion Hd as [|y ys Hx Hr]; subst. constructor.
        * intros C. apply in_map_key_sins in C. destruct C as [C|C]; [apply Hn; left; auto | exact (Hx C)].
        * apply IH; [intros C; apply Hn; right; exact C | exact Hr].
  Qed.

  Lemma NoDup_sinsert v l : NoDup (map key l) -> NoDup (map key (sinsert key v l)).
  Proof.
    intros Hd. unfold sinsert. destruct (sfind key (key v) l) eqn:E.
    - rewrite map_key_sreplace. exact Hd.
    - apply NoDup_sins; [apply sfind_none_notin; exact E | exact Hd].
  Qed.

  Lemma in_map_key_sremove k l x : In x (map key (sremove key k l)) -> In x (map key l).
  Proof.
    induction l as [|y r IH]; cbn; [tauto|]. destruct (String.eqb k (key y)); cbn; [auto|]. intros [H|H]; auto.
  Qed.

  Lemma NoDup_sremove k l : NoDup (map key l) -> NoDup (map key (sremove key k l)).
  Proof.
    induction l as [|y r IH]; cbn; intros Hd; [constructor|].
    inversion Hd as [|z zs Hy Hr]; subst. destruct (String.eqb k (key y)); cbn; [exact Hr|].
    constructor; [intros C; apply Hy; eapply in_map_key_sremove; eauto | apply IH; exact Hr].
  Qed.

  Lemma NoDup_in_sfind x l : NoDup (map key l) -> In x l -> sfind key (key x) l = Some x.
  Proof.
    induction l as [|y r IH]; cbn; intros Hd Hin; [destruct Hin|]. destruct Hin as [->|Hin].
    - rewrite String.eqb_refl. reflexivity.
    - inversion Hd as [|z zs Hy Hr]; subst.
      destruct (String.eqb (key x) (key y)) eqn:E.
      + apply String.eqb_eq in E. exfalso. apply Hy. rewrite <- E. apply in_map. exact Hin.
      + apply IH; assumption.
  Qed.

  Lemma in_sremove_other k l x : In x l -> key x <> k -> In x (sremove key k l).
  Proof.
    induction l as [|y r IH]; cbn; [tauto|]. intros Hin Hne. destruct Hin as [->|Hin].
    - destruct (String.eqb k (key x)) eqn:E; [apply String.eqb_eq in E; congruence | left; reflexivity].
    - destruct (String.eqb k (key y)); [exact Hin | right; apply IH; assumption].
  Qed.

  Lemma in_sinsert_self v l : In v (sinsert key v l).
  Proof.
    unfold sinsert. destruct (sfind key (key v) l) eqn:E.
    - induction l as [|x r IH]; cbn in *; [discriminate|].
      destruct (String.eqb (key v) (key x)); cbn; [left; reflexivity | right; apply IH; exact E].
    - clear E. induction l as [|x r IH]; cbn; [left; reflexivity|].
      destruct (String.ltb (key v) (key x)); cbn; [left; reflexivity | right; exact IH].
  Qed.
End Unique.

Section Unique2.
  Context {A : Type} (key : A -> string).
  Lemma in_sinsert_other v l x : In x l -> key x <> key v -> In x (sinsert key v l).
  Proof.
    intros Hin Hne. unfold sinsert. destruct (sfind key (key v) l).
    - induction l as [|y r IH]; cbn in *; [tauto|]. destruct Hin as [->|Hin].
      + destruct (String.eqb (key v) (key x)) eqn:E; [apply String.eqb_eq in E; congruence | left; reflexivity].
      + destruct (String.eqb (key v) (key y)); [right; exact Hin | right; apply IH; exact Hin].
    - induction l as [|y r IH]; cbn in *; [tauto|]. destruct (String.ltb (key v) (key y)); cbn.
      + right. exact Hin.
      + destruct Hin as [->|Hin]; [left; reflexivity | right; apply IH; exact Hin].
  Qed.
End Unique2.
