(* ClaimFrame.v — C07: the Rewards query equals what an immediate Claim pays, for ANY number of LP tokens.
   A claim walks through the user's LP denoms, updating farm budgets and the user's weight history of each denom as it
   goes; the rewards of a denom do not depend on what was updated for the other denoms. *)
From MD.Model Require Import Base Ownable Epoch PoolMath Types PoolManager FarmManager Chain.
From MD.Proofs Require Import Tactics PoolMathProofs MapLemmas WeightProofs FarmProofs RewardProofs FarmCustody FarmCustodyChain.

(* ---------- pointwise-equal step functions ---------- *)
Lemma fold_left_ext {A B} (f g : A -> B -> A) l : (forall a b, f a b = g a b) -> forall a, fold_left f l a = fold_left g l a.
Proof. intros H. induction l as [|x r IH]; intros a; cbn; [reflexivity|]. rewrite H. apply IH. Qed.
Lemma foldM_ext {A B} (f g : A -> B -> res A) l : (forall a b, f a b = g a b) -> forall a, foldM f l a = foldM g l a.
Proof. intros H. induction l as [|x r IH]; intros a; cbn [foldM]; [reflexivity|]. rewrite H. destruct (g a x); cbn [bind]; [apply IH | reflexivity]. Qed.
Lemma foldM_ext_in {A B} (f g : A -> B -> res A) l : (forall a b, In b l -> f a b = g a b) -> forall a, foldM f l a = foldM g l a.
Proof.
  induction l as [|x r IH]; intros H a; cbn [foldM]; [reflexivity|].
  rewrite (H a x (or_introl eq_refl)). destruct (g a x); cbn [bind]; [|reflexivity].
  apply IH. intros a1 b Hb. apply H. right. exact Hb.
Qed.

(* ---------- the weight table seen from one LP denom ---------- *)
Definition wsame (lp' : string) (ws ws' : list (wkey * Z)) : Prop :=
  (forall a e, w_get ws' (mkw a lp' e) = w_get ws (mkw a lp' e)) /\ (forall a, w_earliest ws' a lp' = w_earliest ws a lp').

Lemma wsame_refl lp ws : wsame lp ws ws. Proof. split; reflexivity. Qed.
Lemma wsame_trans lp a b c : wsame lp a b -> wsame lp b c -> wsame lp a c.
Proof. intros [A1 A2] [B1 B2]. split; intros; [rewrite B1, A1 | rewrite B2, A2]; reflexivity. Qed.

Lemma w_get_filter p k : forall l,
  (forall kv, wkey_eqb k (fst kv) = true -> p kv = true) -> w_get (filter p l) k = w_get l k.
Proof.
  induction l as [|[k' v] r IH]; intros H; cbn [filter w_get]; [reflexivity|].
  destruct (wkey_eqb k k') eqn:E.
  - rewrite (H (k', v) E). cbn [w_get]. rewrite E. reflexivity.
  - destruct (p (k', v)); cbn [w_get]; [rewrite E|]; apply IH; exact H.
Qed.

Lemma w_get_set_other k0 v k : wkey_eqb k k0 = false -> forall l, w_get (w_set l k0 v) k = w_get l k.
Proof.
  intros Hne. induction l as [|[k' v'] r IH]; cbn [w_set w_get]; [rewrite Hne; reflexivity|].
  destruct (wkey_eqb k0 k') eqn:E0; cbn [w_get].
  - destruct (wkey_eqb k k') eqn:E1; [|reflexivity].
    (* k = k' = k0: excluded *)
    exfalso. unfold wkey_eqb in *. apply andb_true_iff in E0, E1. destruct E0 as [E0 E0e], E1 as [E1 E1e].
    apply andb_true_iff in E0, E1. destruct E0 as [A0 L0], E1 as [A1 L1].
    apply String.eqb_eq in A0, L0, A1, L1. apply Z.eqb_eq in E0e, E1e.
    rewrite A1, L1, E1e, <- A0, <- L0, <- E0e in Hne. rewrite !String.eqb_refl, Z.eqb_refl in Hne. discriminate.
  - destruct (wkey_eqb k k'); [reflexivity | exact IH].
Qed.

Definition estep (a lp : string) (acc : option (Z * Z)) (kv : wkey * Z) : option (Z * Z) :=
  if wkey_pref a lp (fst kv) then
    match acc with
    | Some (e, _) => if wk_epoch (fst kv) <? e then Some (wk_epoch (fst kv), snd kv) else acc
    | None => Some (wk_epoch (fst kv), snd kv)
    end
  else acc.
Lemma w_earliest_fold l a lp : w_earliest l a lp = fold_left (estep a lp) l None.
Proof. reflexivity. Qed.

Lemma earliest_filter p a lp : forall l acc,
  (forall kv, p kv = false -> wkey_pref a lp (fst kv) = false) ->
  fold_left (estep a lp) (filter p l) acc = fold_left (estep a lp) l acc.
Proof.
  induction l as [|kv r IH]; intros acc H; cbn [filter fold_left]; [reflexivity|].
  destruct (p kv) eqn:E; cbn [fold_left]; [apply IH; exact H|].
  rewrite IH by exact H. replace (estep a lp acc kv) with acc; [reflexivity|]. unfold estep. rewrite (H kv E). reflexivity.
Qed.

Lemma wkey_eqb_pref k k' a lp : wkey_eqb k k' = true -> wkey_pref a lp k' = wkey_pref a lp k.
Proof.
  unfold wkey_eqb, wkey_pref. intros H. apply andb_true_iff in H. destruct H as [H _]. apply andb_true_iff in H. destruct H as [A L].
  apply String.eqb_eq in A, L. rewrite A, L. reflexivity.
Qed.

Lemma earliest_set_other k0 v a lp : wkey_pref a lp k0 = false -> forall l acc,
  fold_left (estep a lp) (w_set l k0 v) acc = fold_left (estep a lp) l acc.
Proof.
  intros Hp. induction l as [|[k' v'] r IH]; intros acc; cbn [w_set fold_left].
  - unfold estep. cbn [fst]. rewrite Hp. reflexivity.
  - destruct (wkey_eqb k0 k') eqn:E; cbn [fold_left].
    + replace (estep a lp acc (k', v)) with acc by (unfold estep; cbn [fst]; rewrite (wkey_eqb_pref _ _ a lp E), Hp; reflexivity).
      replace (estep a lp acc (k', v')) with acc by (unfold estep; cbn [fst]; rewrite (wkey_eqb_pref _ _ a lp E), Hp; reflexivity). reflexivity.
    + apply IH.
Qed.

Lemma sync_fields s a lp u s2 :
  sync_weight_history s a lp u true = Ok s2 ->
  fm_farms s2 = fm_farms s /\ fm_cfg s2 = fm_cfg s /\ fm_last_claimed s2 = fm_last_claimed s /\ fm_positions s2 = fm_positions s.
Proof.
  unfold sync_weight_history. intros H.
  destruct (w_earliest (fm_weights s) a lp) as [[e0 x0]|]; [|discriminate].
  destruct (w_latest (fm_weights s) a lp) as [[e1 w1]|]; [|discriminate].
  inversion H; subst s2; clear H. repeat split; reflexivity.
Qed.

Lemma sync_wsame s a lp u s2 lp' :
  sync_weight_history s a lp u true = Ok s2 -> lp <> lp' -> wsame lp' (fm_weights s) (fm_weights s2).
Proof.
  unfold sync_weight_history. intros H Hne.
  destruct (w_earliest (fm_weights s) a lp) as [[e0 x0]|]; [|discriminate].
  destruct (w_latest (fm_weights s) a lp) as [[e1 w1]|]; [|discriminate].
  inversion H; subst s2; clear H. cbn [fm_weights fm_set_weights fm_with fm_farms fm_cfg fm_last_claimed fm_positions].
  assert (Hl : String.eqb lp lp' = false) by (apply String.eqb_neq; exact Hne).
  split.
  - intros b e. rewrite w_get_set_other.
    + apply w_get_filter. intros kv Hk. unfold mkw, wkey_eqb in Hk. cbn [wk_addr wk_lp wk_epoch] in Hk.
      apply andb_true_iff in Hk. destruct Hk as [Hk _]. apply andb_true_iff in Hk. destruct Hk as [_ L]. apply String.eqb_eq in L.
      unfold wkey_pref. rewrite <- L. rewrite (String.eqb_sym lp' lp), Hl. rewrite andb_false_r. reflexivity.
    + unfold mkw, wkey_eqb. cbn [wk_addr wk_lp wk_epoch]. rewrite (String.eqb_sym lp' lp), Hl. rewrite andb_false_r. reflexivity.
  - intros b. rewrite !w_earliest_fold. rewrite earliest_set_other.
    + apply earliest_filter. intros kv Hk. apply negb_false_iff in Hk. apply andb_true_iff in Hk. destruct Hk as [Hk _].
      apply andb_true_iff in Hk. destruct Hk as [Hk _]. unfold wkey_pref in *. apply andb_true_iff in Hk. destruct Hk as [_ L].
      apply String.eqb_eq in L. rewrite L, Hl. apply andb_false_r.
    + unfold wkey_pref, mkw. cbn [wk_addr wk_lp]. rewrite Hl. apply andb_false_r.
Qed.

(* ---------- the reward computations read the table only through that view ---------- *)
Lemma address_weight_at_same lp ws ws' a st e :
  wsame lp ws ws' -> address_weight_at ws' a lp st e = address_weight_at ws a lp st e.
Proof. intros [G _]. unfold address_weight_at. apply fold_left_ext. intros x y. rewrite G. reflexivity. Qed.

Lemma contract_weight_at_same lp ws ws' st e :
  wsame lp ws ws' -> contract_weight_at ws' lp st e = contract_weight_at ws lp st e.
Proof.
  intros [G E]. unfold contract_weight_at. rewrite G, E.
  destruct (w_get ws (mkw FM lp st)) as [w0|].
  - f_equal. f_equal. apply fold_left_ext. intros x y. rewrite G. reflexivity.
  - destruct (w_earliest ws FM lp) as [[e0 w0]|]; [|reflexivity].
    destruct ((e0 + 1 <=? e) && (st <=? e)); [|reflexivity].
    f_equal. f_equal. apply fold_left_ext. intros x y. rewrite G. reflexivity.
Qed.

Lemma farm_rewards_same s s' f lp recv until lc :
  f_lp f = lp -> wsame lp (fm_weights s) (fm_weights s') ->
  farm_rewards s' f lp recv until lc = farm_rewards s f lp recv until lc.
Proof.
  intros Hf Hw. unfold farm_rewards, start_from_epoch. rewrite Hf. destruct Hw as [G E]. rewrite E.
  assert (Hw : wsame lp (fm_weights s) (fm_weights s')) by (split; assumption).
  destruct (match lc with
            | Some lc0 => if in_range U64_MAX (lc0 + 1) then Ok (lc0 + 1) else Err "panic: add overflow"
            | None => match w_earliest (fm_weights s) recv lp with Some (e, _) => Ok e | None => Err "NoOpenPositions" end
            end) as [start|e]; cbn [bind]; [|reflexivity].
  destruct (ensure (1 <=? start) "panic: subtract with overflow") as [[]|e]; cbn [bind]; [|reflexivity].
  rewrite (contract_weight_at_same lp _ _ start start Hw).
  destruct (contract_weight_at (fm_weights s) lp start start) as [x|e]; cbn [bind]; [|reflexivity].
  destruct (ensure (1 <=? f_end f) "panic: subtract with overflow") as [[]|e]; cbn [bind]; [|reflexivity].
  apply foldM_ext. intros acc e.
  rewrite (address_weight_at_same lp _ _ recv start e Hw), (contract_weight_at_same lp _ _ start e Hw). reflexivity.
Qed.

Lemma in_take' {A} n : forall (l : list A) x, In x (take n l) -> In x l.
Proof. induction n as [|n IH]; intros [|y r] x H; cbn in H; try contradiction. destruct H as [->|H]; [left; reflexivity | right; apply IH; exact H]. Qed.

(* farms of one LP denom *)
Definition lp_farms (lp : string) (fs : list farm) : list farm := filter (fun f => String.eqb (f_lp f) lp) fs.

Lemma calculate_rewards_same s s' lp recv until :
  fm_cfg s' = fm_cfg s -> fm_last_claimed s' = fm_last_claimed s ->
  lp_farms lp (fm_farms s') = lp_farms lp (fm_farms s) ->
  wsame lp (fm_weights s) (fm_weights s') ->
  calculate_rewards s' lp recv until = calculate_rewards s lp recv until.
Proof.
  intros Hc Hl Hfa Hw. unfold calculate_rewards, farms_by_lp. fold (lp_farms lp (fm_farms s')). fold (lp_farms lp (fm_farms s)).
  rewrite Hc, Hl, Hfa.
  destruct (match lc_get (fm_last_claimed s) recv with Some lc => ensure (lc <=? until) "InvalidUntilEpoch" | None => Ok tt end) as [[]|e]; cbn [bind]; [|reflexivity].
  destruct (match lc_get (fm_last_claimed s) recv with Some lc => until =? lc | None => false end); [reflexivity|].
  set (farms := take (Z.to_nat (Z.min (fm_max_farms (fm_cfg s)) MAX_FARMS_LIMIT)) (lp_farms lp (fm_farms s))).
  assert (Hin : forall f, In f farms -> f_lp f = lp).
  { intros f Hf. unfold farms in Hf. apply in_take' in Hf. unfold lp_farms in Hf. apply filter_In in Hf. destruct Hf as [_ Hf]. apply String.eqb_eq in Hf. exact Hf. }
  rewrite (foldM_ext_in _ (fun acc f =>
             if until <? f_start f then Ok acc else
             let* rs := farm_rewards s f lp recv until (lc_get (fm_last_claimed s) recv) in
             let coins := map (fun er => (denom_of (f_asset f), snd er)) (filter (fun er => 0 <? snd er) rs) in
             let* total := foldM (fun t er => cadd U128_MAX t (snd er)) rs 0 in
             let modified' := match rs with [] => snd acc | _ => (snd acc ++ [(f_id f, total)])%list end in
             Ok ((fst acc ++ coins)%list, modified')) farms); [reflexivity|].
  intros acc f Hf. rewrite (farm_rewards_same s s' f lp recv until _ (Hin f Hf) Hw). reflexivity.
Qed.

(* ---------- the budget updates of one denom do not touch the farms of another ---------- *)
Definition claim_upd (fs : list farm) (m : string * Z) : res (list farm) :=
  let* f := of_option (sfind f_id (fst m) fs) "panic: unwrap on None" in
  let* c := cadd U128_MAX (f_claimed f) (snd m) in
  let* _ := ensure (c <=? amount_of (f_asset f)) "FarmExhausted" in
  Ok (sinsert f_id {| f_id := f_id f; f_owner := f_owner f; f_lp := f_lp f; f_asset := f_asset f;
                      f_claimed := c; f_rate := f_rate f; f_start := f_start f; f_end := f_end f |} fs).

Lemma lp_farms_sreplace lp' f' : forall fs f,
  sfind f_id (f_id f') fs = Some f -> f_lp f <> lp' -> f_lp f' <> lp' ->
  lp_farms lp' (sreplace f_id f' fs) = lp_farms lp' fs.
Proof.
  induction fs as [|x r IH]; intros f Hf H1 H2; cbn [sfind] in Hf; [discriminate|].
  cbn [sreplace]. destruct (String.eqb (f_id f') (f_id x)) eqn:E.
  - inversion Hf; subst x. unfold lp_farms. cbn [filter].
    apply String.eqb_neq in H1, H2. rewrite H1, H2. reflexivity.
  - unfold lp_farms in *. cbn [filter]. rewrite (IH f Hf H1 H2). reflexivity.
Qed.

Lemma claim_upd_frame lp fs m fs' :
  NoDup (map f_id fs) ->
  (exists f, In f fs /\ f_lp f = lp /\ f_id f = fst m) ->
  claim_upd fs m = Ok fs' ->
  (forall lp', lp <> lp' -> lp_farms lp' fs' = lp_farms lp' fs) /\ NoDup (map f_id fs') /\
  (forall g, In g fs' -> exists g0, In g0 fs /\ f_id g0 = f_id g /\ f_lp g0 = f_lp g) /\
  (forall g0, In g0 fs -> exists g, In g fs' /\ f_id g0 = f_id g /\ f_lp g0 = f_lp g).
Proof.
  intros Hnd (f0 & Hin & Hlp & Hid) H. unfold claim_upd in H.
  apply bind_ok in H. destruct H as [f [Hf H]]. apply of_option_ok in Hf.
  apply bind_ok in H. destruct H as [c [_ H]].
  apply bind_ok in H. destruct H as [[] [_ H]]. inversion H; subst fs'; clear H.
  assert (f = f0).
  { pose proof (NoDup_in_sfind f_id f0 fs Hnd Hin) as E. rewrite Hid in E. congruence. }
  subst f0.
  set (f' := {| f_id := f_id f; f_owner := f_owner f; f_lp := f_lp f; f_asset := f_asset f; f_claimed := c;
                f_rate := f_rate f; f_start := f_start f; f_end := f_end f |}).
  assert (Hkey : sfind f_id (f_id f') fs = Some f) by (cbn [f_id f']; rewrite <- Hid in Hf; rewrite Hid; rewrite <- Hid; exact (NoDup_in_sfind f_id f fs Hnd Hin)).
  split; [|split; [apply NoDup_sinsert; exact Hnd|split]].
  - intros lp' Hne. unfold sinsert. rewrite Hkey. apply (lp_farms_sreplace lp' f' fs f Hkey); [rewrite Hlp; exact Hne | cbn [f_lp f']; rewrite Hlp; exact Hne].
  - intros g Hg. apply sinsert_in in Hg. destruct Hg as [->|Hg]; [exists f; repeat split; auto | exists g; repeat split; auto].
  - intros g0 Hg0. destruct (String.eqb (f_id g0) (f_id f')) eqn:E.
    + apply String.eqb_eq in E. exists f'. split; [apply in_sinsert_self|]. split; [exact E|].
      (* same identifier, no duplicates: g0 is f *)
      assert (g0 = f).
      { pose proof (NoDup_in_sfind f_id g0 fs Hnd Hg0) as E0. rewrite E in E0. congruence. }
      subst g0. reflexivity.
    + exists g0. split; [apply in_sinsert_other; [exact Hg0 | apply String.eqb_neq; exact E]|]. split; reflexivity.
Qed.

Definition has_lp_farm (lp : string) (fs : list farm) (m : string * Z) : Prop :=
  exists f, In f fs /\ f_lp f = lp /\ f_id f = fst m.
Definition same_ids (fs fs' : list farm) : Prop :=
  (forall g, In g fs' -> exists g0, In g0 fs /\ f_id g0 = f_id g /\ f_lp g0 = f_lp g) /\
  (forall g0, In g0 fs -> exists g, In g fs' /\ f_id g0 = f_id g /\ f_lp g0 = f_lp g).

Lemma claim_upd_fold lp : forall modified fs fs',
  NoDup (map f_id fs) -> Forall (has_lp_farm lp fs) modified ->
  foldM claim_upd modified fs = Ok fs' ->
  (forall lp', lp <> lp' -> lp_farms lp' fs' = lp_farms lp' fs) /\ NoDup (map f_id fs') /\ same_ids fs fs'.
Proof.
  induction modified as [|m r IH]; intros fs fs' Hnd Hall H; cbn [foldM] in H.
  - inversion H; subst. split; [reflexivity|]. split; [exact Hnd|]. split; intros g Hg; exists g; auto.
  - apply bind_ok in H. destruct H as [fs1 [H1 H]].
    inversion Hall as [|x xs Hm Hr]; subst.
    destruct (claim_upd_frame lp fs m fs1 Hnd Hm H1) as (E1 & Hnd1 & S1a & S1b).
    assert (Hr1 : Forall (has_lp_farm lp fs1) r).
    { eapply Forall_impl; [|exact Hr]. intros a (f & Hin & Hlp & Hid). destruct (S1b f Hin) as (g & Hg & Ei & El).
      exists g. split; [exact Hg|]. split; congruence. }
    destruct (IH fs1 fs' Hnd1 Hr1 H) as (E2 & Hnd2 & S2a & S2b).
    split; [intros lp' Hne; rewrite (E2 lp' Hne); exact (E1 lp' Hne)|]. split; [exact Hnd2|]. split.
    + intros g Hg. destruct (S2a g Hg) as (g1 & Hg1 & A & B). destruct (S1a g1 Hg1) as (g0 & Hg0 & C & D). exists g0. split; [exact Hg0|]. split; congruence.
    + intros g0 Hg0. destruct (S1b g0 Hg0) as (g1 & Hg1 & A & B). destruct (S2b g1 Hg1) as (g & Hg & C & D). exists g. split; [exact Hg|]. split; congruence.
Qed.

Lemma calculate_rewards_modified_ids s lp recv u rewards modified :
  calculate_rewards s lp recv u = Ok (rewards, modified) -> Forall (has_lp_farm lp (fm_farms s)) modified.
Proof.
  unfold calculate_rewards, farms_by_lp. intros H.
  apply bind_ok in H. destruct H as [[] [_ H]].
  destruct (match lc_get (fm_last_claimed s) recv with Some lc => u =? lc | None => false end); [inversion H; constructor|].
  apply bind_ok in H. destruct H as [[rw md] [Hf H]].
  apply bind_ok in H. destruct H as [agg [_ H]]. inversion H; subst rewards modified; clear H.
  revert Hf. apply (foldM_inv (fun acc : list coin * list (string * Z) => Forall (has_lp_farm lp (fm_farms s)) (snd acc))); [|constructor].
  intros acc f acc' Hin Hstep Hacc.
  assert (Hf : In f (fm_farms s) /\ f_lp f = lp).
  { apply in_take' in Hin. apply filter_In in Hin. destruct Hin as [A B]. apply String.eqb_eq in B. split; assumption. }
  cbv beta in Hstep. destruct (u <? f_start f); [inversion Hstep; subst; exact Hacc|].
  apply bind_ok in Hstep. destruct Hstep as [rs [_ Hstep]].
  apply bind_ok in Hstep. destruct Hstep as [total [_ Hstep]]. inversion Hstep; subst acc'; clear Hstep. cbn [snd].
  destruct rs; [exact Hacc|]. apply Forall_app. split; [exact Hacc|]. constructor; [|constructor].
  exists f. destruct Hf as [A B]. split; [exact A|]. split; [exact B | reflexivity].
Qed.

(* ---------- the walk of a claim through the user's LP denoms ---------- *)
Lemma dedup_NoDup l : NoDup (dedup l).
Proof.
  induction l as [|x r IH]; cbn [dedup]; [constructor|]. constructor.
  - intros H. apply filter_In in H. destruct H as [_ H]. rewrite String.eqb_refl in H. discriminate.
  - apply NoDup_filter. exact IH.
Qed.

Definition rel (s0 s : fm_state) (lps : list string) : Prop :=
  fm_cfg s = fm_cfg s0 /\ fm_last_claimed s = fm_last_claimed s0 /\
  forall lp', In lp' lps -> lp_farms lp' (fm_farms s) = lp_farms lp' (fm_farms s0) /\ wsame lp' (fm_weights s0) (fm_weights s).

Definition claim_step (sender : string) (u : Z) (acc : fm_state * list coin) (lp : string) : res (fm_state * list coin) :=
  let s0 := fst acc in
  let* (rewards, modified) := calculate_rewards s0 lp sender u in
  let* farms' := foldM claim_upd modified (fm_farms s0) in
  let* s2 := sync_weight_history (fm_set_farms s0 farms') sender lp u true in
  Ok (s2, (snd acc ++ rewards)%list).
Definition query_step (s0 : fm_state) (sender : string) (u : Z) (acc : list coin) (lp : string) : res (list coin) :=
  let* (r, _) := calculate_rewards s0 lp sender u in Ok (acc ++ r)%list.

Lemma claim_walk s0 sender u : forall lps s acc s1 total,
  NoDup lps -> NoDup (map f_id (fm_farms s)) -> rel s0 s lps ->
  foldM (claim_step sender u) lps (s, acc) = Ok (s1, total) ->
  foldM (query_step s0 sender u) lps acc = Ok total.
Proof.
  induction lps as [|lp rest IH]; intros s acc s1 total Hnd Hids Hrel H; cbn [foldM] in *.
  - inversion H; subst. reflexivity.
  - apply bind_ok in H. destruct H as [[s2 acc2] [Hstep H]].
    unfold claim_step in Hstep. cbn [fst snd] in Hstep.
    apply bind_ok in Hstep. destruct Hstep as [[rewards modified] [Hcr Hstep]].
    apply bind_ok in Hstep. destruct Hstep as [farms' [Hupd Hstep]].
    apply bind_ok in Hstep. destruct Hstep as [s2' [Hsync Hstep]]. inversion Hstep; subst s2' acc2; clear Hstep.
    destruct Hrel as (Hc & Hl & Hper).
    destruct (Hper lp (or_introl eq_refl)) as [Hfa Hw].
    (* the rewards of this denom are those of the state before the claim *)
    assert (Hq : calculate_rewards s0 lp sender u = Ok (rewards, modified)).
    { rewrite <- (calculate_rewards_same s0 s lp sender u Hc Hl Hfa Hw). exact Hcr. }
    unfold query_step at 1. rewrite Hq. cbn [bind].
    inversion Hnd as [|x xs Hnotin Hnd']; subst.
    assert (Hall : Forall (has_lp_farm lp (fm_farms s)) modified) by (eapply calculate_rewards_modified_ids; exact Hcr).
    destruct (claim_upd_fold lp modified (fm_farms s) farms' Hids Hall Hupd) as (Hother & Hids' & _).
    destruct (sync_fields _ _ _ _ _ Hsync) as (Hf2 & Hc2 & Hl2 & _).
    cbn [fm_farms fm_cfg fm_last_claimed fm_set_farms fm_with] in Hf2, Hc2, Hl2.
    apply (IH s2 (acc ++ rewards)%list s1 total Hnd'); [| |exact H].
    + rewrite Hf2. exact Hids'.
    + split; [rewrite Hc2; exact Hc|]. split; [rewrite Hl2; exact Hl|].
      intros lp' Hin'.
      assert (Hne : lp <> lp') by (intros C; subst; contradiction).
      destruct (Hper lp' (or_intror Hin')) as [Hfa' Hw'].
      split.
      * rewrite Hf2, (Hother lp' Hne). exact Hfa'.
      * eapply wsame_trans; [exact Hw'|]. pose proof (sync_wsame _ _ _ _ _ lp' Hsync Hne) as Hs. exact Hs.
Qed.

(* C07: for a user with open positions in ANY number of LP tokens, the Rewards query equals what an immediate Claim pays *)
Theorem claim_pays_what_rewards_quotes w sender until s' msgs :
  addr_valid w sender = true -> NoDup (map f_id (fm_farms (w_fm w))) ->
  claim w sender [] until = Ok (s', msgs) ->
  exists total,
    query_rewards w (w_fm w) sender until = aggregate_coins total /\
    match total with
    | [] => msgs = []
    | _ => exists agg, aggregate_coins total = Ok agg /\ msgs = [plain (MBankSend sender agg)]
    end.
Proof.
  intros Hav Hids. unfold claim. cbn [nonpayable bind]. intros H.
  apply bind_ok in H. destruct H as [[] [Hne H]]. apply ensure_ok in Hne.
  apply bind_ok in H. destruct H as [ep [Hep H]].
  apply bind_ok in H. destruct H as [u [Hu H]].
  apply bind_ok in H. destruct H as [[s1 total] [Hf H]].
  apply bind_ok in H. destruct H as [ms [Hms H]]. inversion H; subst s' msgs; clear H.
  change (foldM (claim_step sender u) (unique_lp_denoms (positions_by_receiver (w_fm w) sender true)) (w_fm w, []) = Ok (s1, total)) in Hf.
  assert (Hq : foldM (query_step (w_fm w) sender u) (unique_lp_denoms (positions_by_receiver (w_fm w) sender true)) [] = Ok total).
  { eapply claim_walk; [apply dedup_NoDup | exact Hids | | exact Hf].
    split; [reflexivity|]. split; [reflexivity|]. intros lp' _. split; [reflexivity | apply wsame_refl]. }
  exists total. split.
  - unfold query_rewards. rewrite Hav. cbn [ensure bind].
    destruct (positions_by_receiver (w_fm w) sender true) as [|p0 ps] eqn:Eo; [cbn in Hne; discriminate|].
    rewrite Hep. cbn [bind]. rewrite Hu. cbn [bind].
    change (foldM (fun acc lp => let* (r, _) := calculate_rewards (w_fm w) lp sender u in Ok (acc ++ r)%list) (unique_lp_denoms (p0 :: ps)) [])
      with (foldM (query_step (w_fm w) sender u) (unique_lp_denoms (p0 :: ps)) []).
    rewrite Hq. reflexivity.
  - destruct total as [|c r]; [inversion Hms; reflexivity|].
    apply bind_ok in Hms. destruct Hms as [agg [Hagg Hms]]. inversion Hms; subst. eauto.
Qed.

(* ... in every world reachable from genesis by any history (farm identifiers are unique there: part of the custody
   invariant of C05) *)
Theorem reachable_claim_pays_what_rewards_quotes g w0 ops sender until s' msgs :
  genesis_world g = Ok w0 -> 0 <= amount_of (fm_create_fee (g_fm g)) -> Forall op_ok ops ->
  let w := run w0 ops in
  addr_valid w sender = true ->
  claim w sender [] until = Ok (s', msgs) ->
  exists total,
    query_rewards w (w_fm w) sender until = aggregate_coins total /\
    match total with
    | [] => msgs = []
    | _ => exists agg, aggregate_coins total = Ok agg /\ msgs = [plain (MBankSend sender agg)]
    end.
Proof.
  intros Hg Hfee Hops w Hav H.
  pose proof (run_custody ops w0 Hops (genesis_custody _ _ Hg Hfee)) as [[(_ & _ & _ & Hnd) _] _].
  eapply claim_pays_what_rewards_quotes; eauto.
Qed.
