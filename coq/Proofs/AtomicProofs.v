(* AtomicProofs.v — rejected or partially failing operations leave no trace (C20). *)
From MD.Model Require Import Base Ownable Epoch PoolMath Types PoolManager FarmManager Chain.
From MD.Proofs Require Import Tactics MapLemmas PoolMathProofs SwapProofs ChainProofs PmProofs.

(* ---------- which sub-messages swallow errors ---------- *)
Definition sub_plain (s : submsg) : Prop := sm_reply s = RNever.
Definition sub_pm_ok (s : submsg) : Prop :=
  sm_reply s = RNever \/ (sm_reply s = RSuccess /\ sm_id s = 1 /\ exists ask ss pid half, sm_msg s = MWasm PM (WPm (PmSwap ask None ss None pid)) [half]).
Definition sub_fm_ok (s : submsg) : Prop :=
  sm_reply s = RNever \/
  (sm_reply s = RError /\ sm_id s = CLOSE_FARMS_ERR_REPLY_CODE /\ exists to dn amt, sm_msg s = MBankSend to [(dn, amt)] /\ 0 <= amt).

Lemma Forall_plain_app (a b : list submsg) : Forall sub_plain a -> Forall sub_plain b -> Forall sub_plain (a ++ b).
Proof. intros. apply Forall_app; auto. Qed.

Lemma swap_fee_msgs_plain cfg ask sc : Forall sub_plain (swap_fee_msgs cfg ask sc).
Proof.
  unfold swap_fee_msgs. apply Forall_app. split.
  - destruct (sc_burn_fee sc =? 0); repeat constructor.
  - destruct (sc_protocol_fee sc =? 0); repeat constructor.
Qed.

Lemma route_loop_plain ops : forall s prev ms fm s' out fms,
  Forall sub_plain fm -> route_loop s prev ops ms fm = Ok (s', out, fms) -> Forall sub_plain fms.
Proof.
  induction ops as [|o r IH]; intros s prev ms fm s' out fms Hf H.
  - cbn in H. inversion H; subst. exact Hf.
  - apply route_loop_cons in H. destruct H as (s1 & sc & _ & H).
    eapply IH; [|exact H]. apply Forall_app. split; [exact Hf | apply swap_fee_msgs_plain].
Qed.

(* pool manager: every emitted sub-message is fire-and-forget except the internal swap of a single-asset
   deposit, which only continues ON SUCCESS; no error is ever swallowed *)
Lemma pm_execute_subs w sender funds m s' msgs :
  pm_execute w sender funds m = Ok (s', msgs) -> Forall sub_pm_ok msgs.
Proof.
  assert (P2 : forall l, Forall sub_plain l -> Forall sub_pm_ok l).
  { intros l H. eapply Forall_impl; [|exact H]. intros a Ha. left. exact Ha. }
  destruct m as [denoms decimals fees pt oid | ls ss r pid u l | ask bp ms r pid | pid | a | ops mr r ms | fc fm fee t];
    cbn [pm_execute]; intros H.
  - apply create_pool_checks in H. cbv zeta in H. destruct H as (_ & _ & _ & _ & _ & _ & _ & _ & ->).
    apply P2. apply Forall_app. split; [destruct (_ =? 0); repeat constructor | repeat constructor].
  - unfold provide_liquidity in H.
    apply bind_ok in H. destruct H as [p [Hp H]].
    apply bind_ok in H. destruct H as [[] [He H]].
    apply bind_ok in H. destruct H as [deps [Hd H]].
    apply bind_ok in H. destruct H as [[] [_ H]].
    apply bind_ok in H. destruct H as [[] [_ H]].
    destruct deps as [|d0 [|d1 rest]].
    + inv_all; apply P2; repeat (apply Forall_app; split); repeat constructor.
    + inv_all; (constructor; [right; cbn; repeat split; eauto | constructor]).
    + inv_all; apply P2; repeat (apply Forall_app; split); repeat constructor.
  - apply swap_spec in H. destruct H as (p & offer & sc & _ & _ & _ & _ & _ & ->).
    apply P2. apply Forall_app. split; [destruct (_ =? 0); repeat constructor | apply swap_fee_msgs_plain].
  - unfold withdraw_liquidity in H. inv_all. apply P2. repeat constructor.
  - inv_all. constructor.
  - apply exec_ops_spec in H. destruct H as (lst & f & amount & out & fee_msgs & _ & _ & _ & _ & Hr & _ & ->).
    apply P2. apply Forall_app. split; [destruct (_ =? 0); repeat constructor|].
    eapply route_loop_plain; [|exact Hr]. constructor.
  - apply bind_ok in H. destruct H as [[] [_ H]]. apply update_config_shape in H. destruct H as (_ & -> & _). constructor.
Qed.

Lemma pm_reply_subs w id s' msgs : pm_reply w id = Ok (s', msgs) -> Forall sub_plain msgs /\ id = 1.
Proof. unfold pm_reply. intros H. destruct (id =? 1) eqn:E; [|discriminate]. inv_all. split; [repeat constructor | lia]. Qed.

(* farm manager: the only sub-messages whose failure is tolerated are the refunds of close_farms *)
Lemma close_farms_subs fs : forall s s' msgs acc,
  Forall sub_fm_ok acc -> fold_left (fun acc f =>
               let s0 := fst acc in
               let rem := ssub (amount_of (f_asset f)) (f_claimed f) in
               (fm_set_farms s0 (sremove f_id (f_id f) (fm_farms s0)),
                if 0 <? rem then
                  (snd acc ++ [{| sm_msg := MBankSend (f_owner f) [(denom_of (f_asset f), rem)];
                                  sm_id := CLOSE_FARMS_ERR_REPLY_CODE; sm_reply := RError |}])%list
                else snd acc)) fs (s, acc) = (s', msgs) -> Forall sub_fm_ok msgs.
Proof.
  induction fs as [|f r IH]; intros s s' msgs acc Ha H; cbn [fold_left] in H.
  - inversion H; subst. exact Ha.
  - eapply IH; [|exact H]. cbn [fst snd]. destruct (0 <? _); [|exact Ha].
    apply Forall_app. split; [exact Ha|]. constructor; [|constructor].
    right. cbn. split; [reflexivity|]. split; [reflexivity|]. do 3 eexists. split; [reflexivity | unfold ssub; lia].
Qed.

Lemma fm_reply_spec w id s' msgs : fm_reply w id = Ok (s', msgs) -> s' = w_fm w /\ msgs = [] /\ id = CLOSE_FARMS_ERR_REPLY_CODE.
Proof. unfold fm_reply. destruct (id =? CLOSE_FARMS_ERR_REPLY_CODE) eqn:E; intros H; inversion H; subst. repeat split. lia. Qed.

Lemma fm_update_config_msgs w sender u s' msgs : fm_update_config w sender u = Ok (s', msgs) -> msgs = [].
Proof. unfold fm_update_config. intros H. inv_all; reflexivity. Qed.

Lemma close_farms_ok s fs : Forall sub_fm_ok (snd (close_farms s fs)).
Proof.
  unfold close_farms. destruct (fold_left _ fs (s, [])) as [s' msgs] eqn:E. cbn [snd].
  eapply close_farms_subs; [|exact E]. constructor.
Qed.

Lemma fee_msgs_plain cfg sender funds asset msgs :
  process_farm_creation_fee cfg sender funds asset = Ok msgs -> Forall sub_plain msgs.
Proof.
  unfold process_farm_creation_fee. intros H. inv_all; repeat (apply Forall_app; split);
    try (destruct (0 <? amount_of (fm_create_fee cfg))); repeat constructor.
Qed.

Lemma plain_is_fm_ok l : Forall sub_plain l -> Forall sub_fm_ok l.
Proof. intros H. eapply Forall_impl; [|exact H]. intros a Ha. left. exact Ha. Qed.

Lemma fm_execute_subs w sender funds m s' msgs :
  fm_execute w sender funds m = Ok (s', msgs) -> Forall sub_fm_ok msgs.
Proof.
  destruct m as [p|p|id|a|u|id dur r|id|id lp|id e|u]; cbn [fm_execute]; intros H.
  - unfold create_farm in H.
    apply bind_ok in H. destruct H as [[] [_ H]].
    apply bind_ok in H. destruct H as [ep [_ H]].
    apply bind_ok in H. destruct H as [[expired live] [_ H]].
    pose proof (close_farms_ok (w_fm w) expired) as Hc.
    destruct (close_farms (w_fm w) expired) as [s1 submsgs]. cbn [snd] in Hc.
    apply bind_ok in H. destruct H as [[] [_ H]].
    apply bind_ok in H. destruct H as [[] [_ H]].
    apply bind_ok in H. destruct H as [fmsgs [Hf H]].
    assert (Hfp : Forall sub_plain fmsgs).
    { destruct (negb (amount_of (fm_create_fee (fm_cfg (w_fm w))) =? 0)); [eapply fee_msgs_plain; eauto | inversion Hf; constructor]. }
    inv_all; first [exact Hc | apply Forall_app; split; [apply plain_is_fm_ok; exact Hfp | exact Hc]].
  - unfold expand_farm in H. inv_all; constructor.
  - unfold close_farm in H.
    apply bind_ok in H. destruct H as [[] [_ H]].
    apply bind_ok in H. destruct H as [f [_ H]].
    apply bind_ok in H. destruct H as [[] [_ H]].
    pose proof (close_farms_ok (w_fm w) [f]) as Hc. destruct (close_farms (w_fm w) [f]) as [s1 ms].
    inversion H; subst. exact Hc.
  - inv_all. constructor.
  - unfold claim in H.
    apply bind_ok in H. destruct H as [[] [_ H]].
    apply bind_ok in H. destruct H as [[] [_ H]].
    apply bind_ok in H. destruct H as [ep [_ H]].
    apply bind_ok in H. destruct H as [un [_ H]].
    apply bind_ok in H. destruct H as [[s1 total] [_ H]].
    apply bind_ok in H. destruct H as [ms [Hm H]]. inversion H; subst.
    destruct total; inv_all; apply plain_is_fm_ok; repeat constructor.
  - unfold create_position in H. inv_all; constructor.
  - unfold expand_position in H. inv_all; constructor.
  - unfold close_position in H.
    apply bind_ok in H. destruct H as [[] [_ H]].
    apply bind_ok in H. destruct H as [pend [_ H]].
    apply bind_ok in H. destruct H as [[] [_ H]].
    apply bind_ok in H. destruct H as [p [_ H]].
    apply bind_ok in H. destruct H as [[] [_ H]].
    apply bind_ok in H. destruct H as [[] [_ H]].
    apply bind_ok in H. destruct H as [ex [_ H]].
    apply bind_ok in H. destruct H as [[] [_ H]].
    apply bind_ok in H. destruct H as [[[p' s1] tc] [_ H]].
    apply bind_ok in H. destruct H as [s2 [_ H]].
    apply bind_ok in H. destruct H as [s4 [_ H]]. inversion H; subst. constructor.
  - unfold withdraw_position in H.
    apply bind_ok in H. destruct H as [[] [_ H]].
    apply bind_ok in H. destruct H as [p [_ H]].
    apply bind_ok in H. destruct H as [[] [_ H]].
    apply bind_ok in H. destruct H as [[[s1 ms] am] [Hb H]].
    apply bind_ok in H. destruct H as [s3 [_ H]]. inversion H; subst.
    apply plain_is_fm_ok. apply Forall_app. split; [|destruct (_ =? 0); repeat constructor].
    destruct (_ && _).
    + apply bind_ok in Hb. destruct Hb as [pen [_ Hb]].
      apply bind_ok in Hb. destruct Hb as [ad [_ Hb]].
      apply bind_ok in Hb. destruct Hb as [tp [_ Hb]].
      apply bind_ok in Hb. destruct Hb as [[] [_ Hb]].
      apply bind_ok in Hb. destruct Hb as [td [_ Hb]].
      apply bind_ok in Hb. destruct Hb as [oc [_ Hb]].
      apply bind_ok in Hb. destruct Hb as [ep [_ Hb]].
      apply bind_ok in Hb. destruct Hb as [farms [_ Hb]].
      apply bind_ok in Hb. destruct Hb as [[omsgs coll] [Ho Hb]].
      apply bind_ok in Hb. destruct Hb as [s'' [_ Hb]]. inversion Hb; subst.
      apply Forall_app. split.
      * destruct (dedup (map f_owner farms)) eqn:Ed.
        -- inversion Ho; subst. constructor.
        -- apply bind_ok in Ho. destruct Ho as [od [_ Ho]].
           destruct (0 <? dec_floor od); inversion Ho; subst; [|constructor].
           apply Forall_forall. intros x Hx. destruct Hx as [<-|Hx]; [reflexivity|].
           apply in_map_iff in Hx. destruct Hx as (o & <- & _). reflexivity.
      * destruct (0 <? coll); repeat constructor.
    + inv_all. constructor.
  - apply bind_ok in H. destruct H as [[] [_ H]]. apply fm_update_config_msgs in H. subst. constructor.
Qed.

(* ---------- the one tolerated failure: the refund of a farm being closed ---------- *)
Lemma set_fm_same w : set_fm w (w_fm w) = w.
Proof. destruct w; reflexivity. Qed.

Lemma tx_close_farm_never_blocked w sender id f :
  sfind f_id id (fm_farms (w_fm w)) = Some f ->
  (f_owner f = sender \/ owner (fm_own (w_fm w)) = Some sender) ->
  exists w', run_tx w sender FM (WFm (FmCloseFarm id)) [] = Ok w' /\
    w_fm w' = fm_set_farms (w_fm w) (sremove f_id (f_id f) (fm_farms (w_fm w))) /\
    w_pm w' = w_pm w /\ w_em w' = w_em w /\ w_fc w' = w_fc w /\
    let rem := ssub (amount_of (f_asset f)) (f_claimed f) in
    (w_bank w' = w_bank w \/
     (0 < rem /\ bank_send (w_bank w) FM (f_owner f) [(denom_of (f_asset f), rem)] = Ok (w_bank w'))).
Proof.
  intros Hf Hauth.
  unfold run_tx, FUEL. rewrite process_cons. unfold exec_sub at 1.
  cbn [plain sm_msg sm_reply sm_id wants_success wants_error].
  assert (Hh : handle w FM sender [] (WFm (FmCloseFarm id)) =
               Ok (set_fm w (fst (close_farms (w_fm w) [f])), snd (close_farms (w_fm w) [f]))).
  { unfold handle. cbn [coins_ok forallb wmsg_ok andb]. unfold handle_typed.
    cbn [String.eqb EM FC PM FM Ascii.eqb Bool.eqb fm_execute]. unfold close_farm.
    cbn [nonpayable bind]. rewrite Hf. cbn [of_option bind].
    assert (Ha : (String.eqb (f_owner f) sender || is_owner (fm_own (w_fm w)) sender) = true).
    { destruct Hauth as [<-|Ho]; [rewrite String.eqb_refl; reflexivity|].
      unfold is_owner. rewrite Ho, String.eqb_refl. apply orb_true_r. }
    rewrite Ha. cbn [ensure bind]. destruct (close_farms (w_fm w) [f]); reflexivity. }
  rewrite Hh. unfold close_farms. cbn [fold_left fst snd].
  set (rem := ssub (amount_of (f_asset f)) (f_claimed f)).
  set (s1 := fm_set_farms (w_fm w) (sremove f_id (f_id f) (fm_farms (w_fm w)))).
  destruct (0 <? rem) eqn:Er; cbn [app].
  - rewrite process_cons. rewrite exec_sub_leaf by reflexivity. cbn [sm_msg sm_reply sm_id wants_success wants_error exec_leaf].
    destruct (bank_call (set_fm w s1) (fun b => bank_send b FM (f_owner f) [(denom_of (f_asset f), rem)])) as [[w2|e2] fl] eqn:Eb.
    + rewrite !process_nil. cbn [fst]. exists w2. split; [reflexivity|].
      pose proof (bank_call_same _ _ _ _ Eb) as (_ & _ & _ & Hem & Hfc & Hpm & Hfm). cbn in Hem, Hfc, Hpm, Hfm.
      repeat split; auto. cbv zeta. right. split; [lia|].
      unfold bank_call, fault_tick in Eb. cbn [w_fault set_fm] in Eb.
      destruct (w_fault w) as [k|].
      * destruct (k =? 0); [discriminate|]. cbn [w_bank set_fault set_fm] in Eb.
        destruct (bank_send (w_bank w) FM (f_owner f) [(denom_of (f_asset f), rem)]); inversion Eb; subst; reflexivity.
      * cbn [w_bank set_fm] in Eb.
        destruct (bank_send (w_bank w) FM (f_owner f) [(denom_of (f_asset f), rem)]); inversion Eb; subst; reflexivity.
    + cbv zeta. unfold handle_reply. cbn [String.eqb EM FC PM FM Ascii.eqb Bool.eqb].
      unfold fm_reply. cbn [Z.eqb CLOSE_FARMS_ERR_REPLY_CODE Pos.eqb bind].
      rewrite set_fm_same. rewrite !process_nil. cbn [fst].
      exists (set_fault (set_fm w s1) fl). split; [reflexivity|]. repeat split; auto.
  - rewrite process_nil. cbn [fst]. exists (set_fm w s1). split; [reflexivity|]. repeat split; auto.
Qed.
